"""Per-property configuration of ./check: Lean modules holding the theorems, correspondence
families (harness sub-commands) and which driver ops of a family tie to this property."""

COMMON_TRUST = [
    "crc32fast re-modelled bit-exactly (Model/Crc32.lean) and cross-checked by op `crc`",
    "std read_exact contract (n bytes or UnexpectedEof); Interrupted never occurs on in-memory readers",
]

PROPS = {
    "C03": {
        "lean": ["PnaVerif.Props.Consts", "PnaVerif.Props.C03"],
        "families": ["chunk", "parse"],
        "trusted": COMMON_TRUST,
        "text": "slice reader = stream reader proved for all byte strings; correspondence on valid/mutated/hostile inputs",
    },
    "C05": {
        "lean": ["PnaVerif.Props.Consts", "PnaVerif.Props.C05"],
        "families": ["alter", "chunk"],
        "trusted": COMMON_TRUST,
        "text": "CRC-32 single-byte-change detection proved for all inputs; alteration sweep on real archives",
    },
    "C06": {
        "lean": ["PnaVerif.Props.Consts", "PnaVerif.Props.C06"],
        "families": ["truncate"],
        "trusted": COMMON_TRUST,
        "text": "every proper prefix of a chunk is eof (proved); exhaustive cut positions on real archives",
    },
    "C13": {
        "lean": ["PnaVerif.Props.Consts", "PnaVerif.Props.C13"],
        "families": ["chunk", "parse"],
        "trusted": COMMON_TRUST,
        "text": "chunk encode/decode exact inverses (proved); raw items compared chunk for chunk",
    },
    "C18": {
        "lean": ["PnaVerif.Props.Consts", "PnaVerif.Props.C18"],
        "families": ["chunk"],
        "trusted": COMMON_TRUST,
        "text": "bytes_len = encoded length (proved); returned counts compared with bytes written",
    },
}
