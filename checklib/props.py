"""Per-property configuration of ./check: Lean modules holding the theorems, correspondence
families (harness sub-commands) and which driver ops of a family tie to this property."""

COMMON_TRUST = [
    "crc32fast re-modelled bit-exactly (Model/Crc32.lean) and cross-checked by op `crc`",
    "std read_exact contract (n bytes or UnexpectedEof); Interrupted never occurs on in-memory readers",
]

PROPS = {
    "C03": {
        "lean": ["PnaVerif.Props.Consts", "PnaVerif.Props.C03"],
        "families": ["chunk", "parse"],
        "trusted": COMMON_TRUST,
        "text": "slice reader = stream reader proved for all byte strings; correspondence on valid/mutated/hostile inputs",
    },
    "C05": {
        "lean": ["PnaVerif.Props.Consts", "PnaVerif.Props.C05"],
        "families": ["alter", "chunk"],
        "trusted": COMMON_TRUST,
        "text": "CRC-32 single-byte-change detection proved for all inputs; alteration sweep on real archives",
    },
    "C06": {
        "lean": ["PnaVerif.Props.Consts", "PnaVerif.Props.C06"],
        "families": ["truncate"],
        "trusted": COMMON_TRUST,
        "text": "every proper prefix of a chunk is eof (proved); exhaustive cut positions on real archives",
    },
    "C13": {
        "lean": ["PnaVerif.Props.Consts", "PnaVerif.Props.C13"],
        "families": ["chunk", "parse"],
        "trusted": COMMON_TRUST,
        "text": "chunk encode/decode exact inverses (proved); raw items compared chunk for chunk",
    },
    "C18": {
        "lean": ["PnaVerif.Props.Consts", "PnaVerif.Props.C18"],
        "families": ["chunk"],
        "trusted": COMMON_TRUST,
        "text": "bytes_len = encoded length (proved); returned counts compared with bytes written",
    },
    "C07": {
        "lean": ["PnaVerif.Props.Consts", "PnaVerif.Props.C07"],
        "families": ["parse", "entry", "codec", "truncate"],
        "trusted": COMMON_TRUST,
        "text": "no model read path reaches a panic outcome (proved for all inputs); hostile/mutated/truncated streams through the real readers under catch_unwind",
    },
    "C09": {
        "lean": ["PnaVerif.Props.Consts", "PnaVerif.Props.C09"],
        "families": ["codec"],
        "ops": {"codec": ["name.sanitize", "fhed.dec", "fhed.reenc", "ref.normalize", "utf8"]},
        "trusted": COMMON_TRUST + ["std::path::Path::components (unix) re-modelled and cross-checked by op name.sanitize"],
        "text": "part 1: sanitiser output is always a safe relative path (proved); every constructor and the FHED parser compared with the model",
    },
    "C15": {
        "lean": ["PnaVerif.Props.Consts", "PnaVerif.Props.C15"],
        "families": ["codec", "entry"],
        "trusted": COMMON_TRUST,
        "text": "library codecs: dec(enc v) = v under explicit domain predicates (proved); codecs compared through hooks",
    },
}
