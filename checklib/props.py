"""Per-property configuration of ./check: Lean modules holding the theorems, correspondence
families (harness sub-commands) and which driver ops of a family tie to this property."""

COMMON_TRUST = [
    "crc32fast re-modelled bit-exactly (Model/Crc32.lean) and cross-checked by op `crc`",
    "std read_exact contract (n bytes or UnexpectedEof); Interrupted never occurs on in-memory readers",
]

CRYPTO_TRUST = [
    "aes, camellia are permutations of 16-byte blocks (BlockPerm.Lawful); cbc/ctr/cipher crates implement CBC/CTR/PKCS#7 as re-modelled (cross-checked with a toy cipher through the repository's generic code)",
    "argon2, pbkdf2, password-hash: key derivation and PHC parsing enter as oracle answers computed with the same crates",
    "flate2, zstd, liblzma obey the codec round-trip law (Compressor.Lawful) and tolerate short reads",
]

PROPS = {
    "C03": {
        "lean": ["PnaVerif.Props.Consts", "PnaVerif.Props.C03", "PnaVerif.Props.C03Recut"],
        "families": ["chunk", "parse", "cipher-sm", "roundtrip", "split", "truncate", "foreign"],
        "trusted": COMMON_TRUST,
        "text": "slice reader = stream reader proved for all byte strings; correspondence on valid/mutated/hostile inputs",
    },
    "C05": {
        "lean": ["PnaVerif.Props.Consts", "PnaVerif.Props.C05", "PnaVerif.Props.C05Archive"],
        "families": ["alter", "chunk"],
        "trusted": COMMON_TRUST,
        "text": "CRC-32 single-byte-change detection proved for all inputs; alteration sweep on real archives",
    },
    "C06": {
        "lean": ["PnaVerif.Props.Consts", "PnaVerif.Props.C06", "PnaVerif.Props.C06Archive", "PnaVerif.Props.C04Multipart"],
        "families": ["truncate", "cli-truncate", "concat"],
        "cli": True,
        "trusted": COMMON_TRUST,
        "text": "every proper prefix of a chunk is eof (proved); exhaustive cut positions on real archives",
    },
    "C13": {
        "lean": ["PnaVerif.Props.Consts", "PnaVerif.Props.C13", "PnaVerif.Props.C13Entry", "PnaVerif.Props.C04Read", "PnaVerif.Props.C13Raw"],
        "families": ["chunk", "parse", "entry", "edit", "concat", "split"],
        "ops": {"split": []},
        "cli": True,
        "trusted": COMMON_TRUST,
        "text": "chunk encode/decode exact inverses (proved); raw items compared chunk for chunk",
    },
    "C18": {
        "lean": ["PnaVerif.Props.Consts", "PnaVerif.Props.C18", "PnaVerif.Props.C18ChunkList", "PnaVerif.Props.C18Entry"],
        "families": ["chunk", "entry", "roundtrip", "split", "edit", "chunk-list"],
        "cli": True,
        "ops": {"edit": []},
        "trusted": COMMON_TRUST,
        "text": "bytes_len = encoded length (proved); returned counts compared with bytes written",
    },
    "C07": {
        "lean": ["PnaVerif.Props.Consts", "PnaVerif.Props.C07", "PnaVerif.Props.C07Solid", "PnaVerif.Props.C11Append"],
        "families": ["parse", "entry", "codec", "truncate", "foreign", "hostile-solid", "cli-hostile", "cli-tree", "cli-truncate", "append-bytes"],
        "cli": True,
        "trusted": COMMON_TRUST,
        "text": "no model read path reaches a panic outcome (proved for all inputs); hostile/mutated/truncated streams through the real readers under catch_unwind",
    },
    "C09": {
        "lean": ["PnaVerif.Props.Consts", "PnaVerif.Props.C09", "PnaVerif.Props.C09Fs", "PnaVerif.Props.C09Confined", "PnaVerif.Props.C09Perm"],
        "families": ["codec", "extract-fs"],
        "cli": True,
        "ops": {"codec": ["name.sanitize", "fhed.dec", "fhed.reenc", "ref.normalize", "utf8"], "extract-fs": ["extract"]},
        "trusted": COMMON_TRUST + ["std::path::Path::components (unix) re-modelled and cross-checked by op name.sanitize"],
        "text": "part 1: sanitiser output is always a safe relative path (proved); every constructor and the FHED parser compared with the model",
    },
    "C15": {
        "lean": ["PnaVerif.Props.Consts", "PnaVerif.Props.C15", "PnaVerif.Props.C15Cli", "PnaVerif.Props.C15Part"],
        "families": ["codec", "entry", "cli-codec"],
        "trusted": COMMON_TRUST,
        "text": "library codecs: dec(enc v) = v under explicit domain predicates (proved); codecs compared through hooks",
    },
    "C01": {
        "lean": ["PnaVerif.Props.Consts", "PnaVerif.Props.C01", "PnaVerif.Props.C07Solid", "PnaVerif.Props.C01Archive", "PnaVerif.Props.C01Multipart"],
        "families": ["cipher-sm", "roundtrip", "foreign"],
        "trusted": COMMON_TRUST + CRYPTO_TRUST,
        "text": "writer partition independence, reader schedule independence and pipeline round trip proved for every lawful cipher/codec; state machines tied by cipher-sm, end to end by roundtrip",
    },
    "C16": {
        "lean": ["PnaVerif.Props.Consts", "PnaVerif.Props.C16", "PnaVerif.Props.C16Key"],
        "families": ["roundtrip", "foreign", "cli-crypt"],
        "cli": True,
        "trusted": COMMON_TRUST + CRYPTO_TRUST,
        "text": "decision logic of opening an encrypted entry proved; right/wrong/no password sampled through the public API",
    },
    "C08": {
        "lean": ["PnaVerif.Props.Consts", "PnaVerif.Props.C08"],
        "families": ["roundtrip", "cli-crypt"],
        "cli": True,
        "trusted": COMMON_TRUST + CRYPTO_TRUST + ["rand/rand_chacha: distinct draws yield distinct values (sampled)"],
        "text": "data-flow structure proved (plaintext only through E / XOR keystream, PHSF without hash, one salt+IV draw per context); leakage and freshness sampled",
    },
    "C04": {
        "lean": ["PnaVerif.Props.Consts", "PnaVerif.Props.C04", "PnaVerif.Props.C04Multipart", "PnaVerif.Props.C04Read"],
        "families": ["split", "concat", "cli-tree"],
        "ops": {"cli-tree": []},
        "cli": True,
        "trusted": COMMON_TRUST,
        "text": "size limit, losslessness, termination/rejection proved for all archives and all maxima; split family: every max around the overhead on real archives, parts re-read",
    },
    "C10": {
        "lean": ["PnaVerif.Props.Consts", "PnaVerif.Props.C10", "PnaVerif.Props.C10Mode", "PnaVerif.Props.C10Target", "PnaVerif.Props.C10Acl", "PnaVerif.Props.C10Bits", "PnaVerif.Props.C10AclIdem", "PnaVerif.Props.C10AclSet"],
        "families": ["edit", "fault", "cli-codec"],
        "cli": True,
        "trusted": COMMON_TRUST + ["globset (selection) and the system user database (chown) enter as oracle answers", "clap argument parsing"],
        "text": "per-command spec (frame+target+order) and idempotence proved over the transform model for both solid strategies; real pna editing runs compared with the model and with a frame/target/idempotence oracle",
    },
    "C17": {
        "lean": ["PnaVerif.Props.Consts", "PnaVerif.Props.C17"],
        "families": ["list"],
        "cli": True,
        "trusted": COMMON_TRUST + ["globset (pattern matching) enters as an oracle answer", "tabled table layout, chrono time strings, serde_json encoding are not modelled"],
        "text": "row production / solid omission / selection theorems; plain and tree output compared byte for byte with the model, jsonl field-wise, long row-wise; extract with the same patterns compared with the listed set",
    },
    "C11": {
        "lean": ["PnaVerif.Props.Consts", "PnaVerif.Props.C11", "PnaVerif.Props.C11Append"],
        "families": ["history", "fault", "append-bytes"],
        "cli": True,
        "trusted": COMMON_TRUST + ["ignore's walker (which paths exist, in which order) enters as an oracle answer via the collect_items hook", "file mtimes compared as the kernel reports them"],
        "text": "append/update/delete specifications and the history invariant proved over ordered entry lists; real pna histories on an evolving tree compared with the model after every step",
    },
    "C14": {
        "lean": ["PnaVerif.Props.Consts", "PnaVerif.Props.C14", "PnaVerif.Props.C14Layout"],
        "families": ["roundtrip", "split", "edit", "history", "concat", "cli-tree"],
        "cli": True,
        "ops": {"roundtrip": ["archive.read.stream"], "split": ["split.archive", "multipart.read"], "edit": [], "history": [], "concat": ["concat"], "cli-tree": []},
        "trusted": COMMON_TRUST + CRYPTO_TRUST + ["harness/src/refdec.rs — the independent reader (primitive crates only) is itself unverified test code"],
        "text": "writer output tokenises into the expected chunk sequence and the strict decoder returns the entries written (proved); every archive/part file produced by the C01/C04/C10/C11 families is decoded by an independent primitive-crate reader",
    },
    "C02": {
        "lean": ["PnaVerif.Props.Consts", "PnaVerif.Props.C02", "PnaVerif.Props.C02Compose"],
        "families": ["cli-tree"],
        "cli": True,
        "trusted": COMMON_TRUST + ["the tree-level specification (Model/Cli/Create.lean expectedTree) is proved equal to the composition of the create and extract transcriptions over the abstract file system (Props/C02Compose.lean); the tie of those transcriptions to the code is the cli-tree and extract-fs correspondence on the real binary", "kernel file-system behaviour (permission bits, utimensat, symlink creation) is observed, not modelled"],
        "text": "expected tree after create+extract characterised for every tree and keep-option subset; real pna create/extract over the option product compared with it",
    },
    "C12": {
        "lean": ["PnaVerif.Props.Consts", "PnaVerif.Props.C12"],
        "families": ["fault"],
        "cli": True,
        "trusted": COMMON_TRUST + ["the command shapes (collect-then-append; temp file + finalize + rename) are hand-transcribed from append.rs / commons.rs / update.rs", "rename(2) atomicity and same-device temp directory are assumed; a cross-device move (copy + remove) interrupted by an I/O error is outside the fault model of the property"],
        "text": "failure at any position leaves the archive file as it was (append: nothing written before all inputs are built; rewrites: only the temp file is written); legacy append shown to violate; real commands with injected faults at every position",
    },
    "C19": {
        "lean": ["PnaVerif.Props.Consts", "PnaVerif.Props.C19"],
        "families": ["sched"],
        "cli": True,
        "trusted": COMMON_TRUST + ["the shape extractor (harness/src/shapes.rs, a syn walk over cli/src/command/*.rs) is the translator: it is trusted to classify scope/spawn/loop nesting; closures passed to other functions are treated as per-item callbacks", "rayon: a scope returns only after its tasks finished; an indexed parallel collect keeps index order; std mpsc delivers in send order", "the walker (ignore crate) is single-threaded and its order is a function of the directory contents"],
        "text": "order of results = order of submission under every schedule for the pipeline shape extracted from the sources on every run; witness schedules for the parallel shapes; real binary under pool sizes 1..32 and CPU contention",
    },
    "C20": {
        "lean": ["PnaVerif.Props.Consts", "PnaVerif.Props.C20", "PnaVerif.Props.C09Perm"],
        "families": ["canary", "extract-fs"],
        "cli": True,
        "ops": {"extract-fs": ["extract"], "canary": []},
        "trusted": COMMON_TRUST + ["the abstract file system (Model/Fs.lean) is cross-checked against the Linux VFS by extract-fs, not verified", "the per-command effect plans are hand-transcribed from the sources"],
        "text": "guarded-plan preservation theorems over the abstract FS; canaries of five kinds at every output path of create / create --split / split / concat / extract / stdio -x",
    },
}
