NOTES = ("Machine-checked proof in Lean 4 over a hand-written executable model of libpna/pna-cli, tied to /repo on every run by "
         "(1) a differential correspondence harness, (2) constants regenerated from the compiled repo and re-proved equal to the "
         "model's, (3) implementation-level oracles that search for a concrete failing input. See DESIGN.md.")

_TB = ("Trusted: Lean kernel; axioms ⊆ {propext, Classical.choice, Quot.sound} (audited by #print axioms each run); the "
       "hand-written model's fidelity as far as the correspondence families sample it; crc32fast/std semantics re-modelled and cross-checked.")

TEXT = {
 "C03": {"technique": "Lean 4 proof (slice parser = stream parser for all byte strings) + differential correspondence",
         "text": "Theorems: decodeSlice = decodeStream, both chunk iterators, both entry readers, raw readers and multipart readers agree on EVERY byte string (the readers are one model function instantiated with either parser, and the parsers are proved equal). Tie: families chunk/parse run the real stream and slice APIs and the model on valid, mutated and hostile inputs. Floor: reader independence; re-cut independence through ciphers is claimed under C01/C03 stretch when built.",
         "note": _TB},
 "C05": {"technique": "Lean 4 proof (CRC-32 LFSR step bijective ⇒ any single-byte change detected) + alteration sweep",
         "text": "Theorems: crc32 (a++b::c) ≠ crc32 (a++b'::c) for all a,c,b≠b' (kernel-only, from bijectivity of one LFSR step); a changed type/data byte or CRC field of any chunk yields InvalidData in both parsers; accepted bytes re-encode exactly (length-field partial). Tie: family alter flips bytes of real archives at every offset and compares entries-before-error with the model and with the property oracle.",
         "note": _TB + " Length-field alterations are proved only in the partial form (DESIGN §7/C05)."},
 "C06": {"technique": "Lean 4 proof (every proper prefix of an encoded chunk ⇒ UnexpectedEof, never Ok/panic) + exhaustive truncation",
         "text": "Theorems: for every chunk, every continuation and every cut k inside it, both parsers answer eof; parsers never panic; truncated signature is eof. Tie: family truncate cuts real archives at every byte (exhaustive for small ones) and compares all six read paths with the model and the oracle (error reported, exactly the complete entries returned).",
         "note": _TB},
 "C13": {"technique": "Lean 4 proof (decode∘encode = id and encode∘decode = id on chunks) + differential correspondence",
         "text": "Theorems: decode (encode c ++ r) = ok (c, r) for every chunk with payload < 2^32 (any type incl. unknown/private), and decode bs = ok (c, r) ⇒ encode c ++ r = bs, for both parsers: raw pass-through is byte-exact. Tie: chunk/parse families compare encodings byte for byte and raw items chunk for chunk.",
         "note": _TB},
 "C18": {"technique": "Lean 4 proof (bytes_len = encoded length, sums over parts) + count comparison",
         "text": "Theorems: |encode c| = 12 + |data|, bytes_len c = |encode c|, Σ bytes_len = |concatenated encodings|. Tie: family chunk compares returned counts, bytes_len and length() with bytes actually written.",
         "note": _TB},
 "C07": {"technique": "Lean 4 proof (no read path of the model reaches a panic outcome; all model functions total) + hostile-input differential run",
         "text": "Theorems: chunk parsers, chunk iterators, AHED/FHED/SHED/time/fPRM/xATR decoders, normal/solid entry parsers and both archive readers (any carry buffer) never produce the model's `panic` outcome, for every input; termination is by construction (structural recursion / fuel proved sufficient). Every partial Rust operation on these paths is a `panic` branch in the model or an error the fix: commits introduced. Tie: grammar-generated CRC-valid hostile streams, mutations, truncations and damaged chunk lists through the real readers under catch_unwind, compared with the model. Floor: framing/parsing layer; reader pipelines (cipher/KDF/FlattenReader depth) and CLI commands are added as built.",
         "note": _TB + " KDF cost parameters, decompression bombs and CLI read commands are outside this floor (DESIGN §7/C07)."},
 "C09": {"technique": "Lean 4 proof (sanitiser output has only Normal components, no root; idempotent) + constructor correspondence",
         "text": "Part 1 of the property: for EVERY byte string, sanitize yields a relative path whose components are non-empty, not '.', not '..' and slash-free, and sanitize∘sanitize = sanitize; the FHED parser returns exactly sanitize(payload name). Tie: all EntryName constructors and the FHED parser vs the model on generated strings (roots, dot-dot, repeated slashes, unicode). Part 2 (file-system effects of extraction through stored links) is not yet claimed at this commit.",
         "note": _TB + " std::path::Path::components (unix) is re-modelled (split on '/', drop empty and '.') and cross-checked; Windows prefixes out of scope."},
 "C15": {"technique": "Lean 4 proof (dec∘enc = id per codec under explicit decidable domain predicates) + hook-level correspondence",
         "text": "Theorems: AHED, FHED, SHED (both directions), timestamps (both directions), fSIZ (minimal BE u128), xATR, fPRM round trips; chunk-type private-bit characterisation; the one non-inverse corner (fPRM names > 255 bytes) is proved as such and recorded as known finding C15-fprm-name-over-255. Tie: every codec driven through cfg(pna_verif) wrappers on generated and hostile payloads. CLI text codecs (ACE, xattr values, part names, chmod) are added as built.",
         "note": _TB},
 "C01": {"technique": "Lean 4 proof (CBC/CTR writer partition independence, reader schedule independence, pipeline round trip for every lawful cipher and codec) + state-machine and end-to-end correspondence",
         "text": "Theorems (all partitions, all schedules, all lengths): cbcWriterRun = CBC(pad(concat)) one block per inner write; CTR writer = XOR keystream of concat; cbcReadAll over ANY ciphertext and ANY positive schedule = reference decryption incl. error kind, completes, never panics; FlattenReader/Writer lossless; readData(buildData ws) = ws.flatten and readData(streamData ws) = ws.flatten for every BlockPerm.Lawful cipher and Compressor.Lawful codec, key, 16-byte IV. Tie: cipher-sm runs the repository's generic CBC/CTR/Flatten code with a toy cipher against the model call by call; roundtrip writes with the 5 writer kinds x codecs x ciphers x KDFs and reads back with varied buffer schedules. Metadata path via C15/C13 theorems. Full entry-list statement (C01_roundtrip over Archive) is assembled as archive-level lemmas land.",
         "note": _TB + " AES/Camellia only through the permutation law, codecs only through the round-trip law, KDF as oracle."},
 "C16": {"technique": "Lean 4 proof (decision logic of decrypt_reader/verify_password: error kinds, key-only dependence, no panic, right key reads) + password-pair sampling",
         "text": "Theorems: no password ⇒ InvalidInput, no PHSF ⇒ InvalidData, unencrypted entries ignore the password, the result depends on the password only through the derived key, never a panic for any oracle answer, the writer's key always reads (C01 corollary); the false corner is proved (empty CTR+store reads under every key; known finding C16-empty-ctr-store). Tie: roundtrip family opens every entry with right / wrong / no password and compares outcome kinds with the model (oracle answers from primitive crates). 'Wrong password never yields the plaintext' is sampled (plaintexts ≥ 16 bytes), not proved.",
         "note": _TB + " Cryptographic strength is outside any model here."},
 "C08": {"technique": "Lean 4 proof (data-flow structure of the encrypting writers) + leakage/freshness sampling",
         "text": "Theorems: CBC output depends on plaintext only through E (non-interference under an E that ignores its block), CTR output = plaintext XOR keystream(cipher,key,IV,pos), stored layout = IV ++ cipher output, PHSF = PHC record after hash.take(), one salt draw and one IV draw per encrypted context, never reused. Tie/sampling: roundtrip family scans every encrypted archive for the password, the independently re-derived key (raw/hex/base64), 8-byte windows of incompressible canaries, entry names in solid mode, PHC hash field; salts and IVs pairwise distinct over the run. Partial by nature: hiding and value-freshness are properties of AES/Camellia/ChaCha20.",
         "note": _TB + " Level is proof of structure + sampling of the cryptographic part (DESIGN §7/C08, §10)."},
}

_PENDING = "not yet claimed at this commit: model/theorems for this property are still being built (see DESIGN.md §11 for the order of work); no other technique is substituted"
NOT_APPLICABLE = {f"C{i:02d}": _PENDING for i in range(1, 21)}
