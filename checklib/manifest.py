#!/usr/bin/env python3
"""Regenerates MANIFEST.json from checklib/props.py + checklib/manifest_text.py."""
import json, os, sys, subprocess
ROOT = os.path.dirname(os.path.dirname(os.path.abspath(__file__)))
sys.path.insert(0, ROOT)
from checklib.props import PROPS
from checklib.manifest_text import TEXT, NOT_APPLICABLE, NOTES

def repo_commits():
    out = subprocess.run(["git", "-C", "/repo", "log", "--format=%H %s"], stdout=subprocess.PIPE, text=True).stdout
    return [l.split(" ")[0] for l in out.splitlines() if l.split(" ", 1)[1].startswith("verif hooks")]

checks = []
for pid in sorted(PROPS):
    t = TEXT[pid]
    checks.append({
        "property_id": pid,
        "quick_cmd": f"./check {pid} --tier quick",
        "thorough_cmd": f"./check {pid} --tier thorough",
        "evidence_file": f"evidence/{pid}.json",
        "replay_cmd_template": f"./check {pid} --replay {{path}}",
        "engine": "lean4-proof+correspondence",
        "level_claimed": {"category": "proof", "text": t["text"], "design_ref": t.get("design_ref", "DESIGN.md §7/" + pid)},
        "level_note": t["note"],
        "technique": t["technique"],
    })
m = {
    "version": 1,
    "setup_cmd": "./setup.sh",
    "hooks": {
        "guard": "pna_verif",
        "enable": "RUSTFLAGS=\"--cfg pna_verif\" (harness/.cargo/config.toml sets it for the harness; ./check sets it for the pna binary)",
        "baseline_off_cmd": "cd /repo && cargo test --workspace --no-fail-fast --offline",
        "source_commits": repo_commits(),
        "add_only": True,
    },
    "engines": [
        {"name": "lean4-proof+correspondence", "path": "lean/ harness/ check",
         "serves_properties": sorted(PROPS),
         "kind_free_text": "Lean 4 model + theorems (lake build, #print axioms audit) tied to /repo by a Rust differential harness driving the compiled Lean model through a line protocol, regenerated constants, and implementation-level oracles for failing-input search"},
    ],
    "checks": checks,
    "notes": NOTES,
    "not_applicable": [{"property_id": p, "reason": r} for p, r in sorted(NOT_APPLICABLE.items()) if p not in PROPS],
}
json.dump(m, open(os.path.join(ROOT, "MANIFEST.json"), "w"), indent=1)
print("wrote MANIFEST.json with", len(checks), "checks;", len(m["not_applicable"]), "not_applicable")
