#!/bin/sh
# Build everything the checks need, offline, from files on disk.
set -e
cd "$(dirname "$0")"
export CARGO_NET_OFFLINE=true
mkdir -p build evidence replays
(cd harness && cargo build --offline 2>&1 | tail -3)
RUSTFLAGS="--cfg pna_verif" cargo build --offline --manifest-path /repo/Cargo.toml -p portable-network-archive --bin pna --target-dir build/repo-target 2>&1 | tail -3
build/harness-target/debug/pnah consts > lean/PnaVerif/Generated/Consts.lean
(cd lean && lake build 2>&1 | tail -5)
echo "setup done"
