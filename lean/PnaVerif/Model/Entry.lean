import PnaVerif.Model.Codec
/-
  Entries (lib/src/entry.rs): `NormalEntry::try_from(RawEntry)`, `SolidEntry::try_from`,
  `ReadEntry::try_from`, and the canonical re-serialisation (`into_chunks` / `write_in`).
-/
namespace Pna

structure Metadata where
  rawSize : Option Nat := none
  created : Option Nat := none
  modified : Option Nat := none
  accessed : Option Nat := none
  permission : Option Permission := none
  deriving DecidableEq, Repr, Inhabited

structure NormalEntry where
  header : EntryHeader
  phsf : Option Bytes
  extra : List Chunk
  data : List Bytes
  md : Metadata
  xattrs : List XAttr
  deriving DecidableEq, Repr, Inhabited

/-- `Metadata::compressed_size` as computed by the parser and by the builder. -/
def NormalEntry.compressedSize (e : NormalEntry) : Nat := (e.data.map List.length).sum

structure SolidEntry where
  header : SolidHeader
  phsf : Option Bytes
  data : List Bytes
  extra : List Chunk
  deriving DecidableEq, Repr, Inhabited

inductive ReadEntry where
  | normal (e : NormalEntry)
  | solid (s : SolidEntry)
  deriving DecidableEq, Repr

open ChunkType in
/-- Chunk types `NormalEntry::try_from` interprets; everything else goes to `extra`. -/
def interpretedN (t : ChunkType) : Bool :=
  t = FEND || t = FHED || t = PHSF || t = FDAT || t = fSIZ || t = cTIM || t = mTIM || t = aTIM
    || t = fPRM || t = xATR

/-- Parser accumulator of `NormalEntry::try_from`. -/
structure NAcc where
  info : Option EntryHeader := none
  phsf : Option Bytes := none
  extra : List Chunk := []      -- reversed
  data : List Bytes := []       -- reversed
  xattrs : List XAttr := []     -- reversed
  size : Option Nat := none
  ctime : Option Nat := none
  mtime : Option Nat := none
  atime : Option Nat := none
  perm : Option Permission := none

open ChunkType in
/-- The body of the `for chunk in entry.0 { match chunk.ty { … } }` loop.
    `none` = `break` (FEND). -/
def nStep (a : NAcc) (c : Chunk) : Outcome (Option NAcc) :=
  if c.ty = FEND then .ok none
  else if c.ty = FHED then do let h ← decFHED c.data; .ok (some { a with info := some h })
  else if c.ty = PHSF then
    if validUtf8 c.data then .ok (some { a with phsf := some c.data }) else .error .invalidData
  else if c.ty = FDAT then .ok (some { a with data := c.data :: a.data })
  else if c.ty = fSIZ then .ok (some { a with size := some (decFSIZ c.data) })
  else if c.ty = cTIM then do let t ← decTime c.data; .ok (some { a with ctime := some t })
  else if c.ty = mTIM then do let t ← decTime c.data; .ok (some { a with mtime := some t })
  else if c.ty = aTIM then do let t ← decTime c.data; .ok (some { a with atime := some t })
  else if c.ty = fPRM then do let p ← decFPRM c.data; .ok (some { a with perm := some p })
  else if c.ty = xATR then do let x ← decXATR c.data; .ok (some { a with xattrs := x :: a.xattrs })
  else .ok (some { a with extra := c :: a.extra })

def nLoop (a : NAcc) : List Chunk → Outcome NAcc
  | [] => .ok a
  | c :: cs =>
    match nStep a c with
    | .error e => .error e
    | .panic s => .panic s
    | .ok none => .ok a
    | .ok (some a') => nLoop a' cs

/-- `impl TryFrom<RawEntry> for NormalEntry` -/
def parseN (raw : List Chunk) : Outcome NormalEntry :=
  match raw.head? with
  | some c0 => if c0.ty ≠ ChunkType.FHED then .error .invalidData else go
  | none => go
where go : Outcome NormalEntry :=
  match nLoop {} raw with
  | .error e => .error e
  | .panic s => .panic s
  | .ok a =>
    match a.info with
    | none => .error .invalidData
    | some h =>
      if h.major ≠ 0 ∨ h.minor ≠ 0 then .error .unsupported
      else .ok { header := h, phsf := a.phsf, extra := a.extra.reverse, data := a.data.reverse,
                 md := { rawSize := a.size, created := a.ctime, modified := a.mtime,
                           accessed := a.atime, permission := a.perm },
                 xattrs := a.xattrs.reverse }

/-- `<[u8]>::chunks(n)` for `n > 0`: an empty slice has no chunks. -/
def rustChunks (n : Nat) (bs : Bytes) : List Bytes :=
  if h : n = 0 ∨ bs = [] then [] else bs.take n :: rustChunks n (bs.drop n)
termination_by bs.length
decreasing_by
  simp only [List.length_drop]
  have : bs.length ≠ 0 := by
    intro h0; exact h (Or.inr (List.eq_nil_of_length_eq_zero h0))
  omega

/-- `u32::MAX as usize` -/
def maxChunkData : Nat := 2 ^ 32 - 1

def optChunk (t : ChunkType) : Option Bytes → List Chunk
  | none => []
  | some d => [⟨t, d⟩]

open ChunkType in
/-- `NormalEntry::into_chunks` / `chunks_write_in`: the canonical chunk order. -/
def serN (e : NormalEntry) : List Chunk :=
  [⟨FHED, encFHED e.header⟩]
  ++ e.extra
  ++ optChunk fSIZ (e.md.rawSize.map encFSIZ)
  ++ optChunk PHSF e.phsf
  ++ (e.data.flatMap fun d => (rustChunks maxChunkData d).map fun u => ⟨FDAT, u⟩)
  ++ optChunk cTIM (e.md.created.map encTime)
  ++ optChunk mTIM (e.md.modified.map encTime)
  ++ optChunk aTIM (e.md.accessed.map encTime)
  ++ optChunk fPRM (e.md.permission.map encFPRM)
  ++ e.xattrs.map (fun x => ⟨xATR, encXATR x⟩)
  ++ [⟨FEND, []⟩]

structure SAcc where
  info : Option SolidHeader := none
  phsf : Option Bytes := none
  data : List Bytes := []   -- reversed
  extra : List Chunk := []  -- reversed

open ChunkType in
/-- Loop body of `impl TryFrom<ChunkSolidEntries> for SolidEntry` (after the `fix:` that
    added `SEND => break`). -/
def sStep (a : SAcc) (c : Chunk) : Outcome (Option SAcc) :=
  if c.ty = SEND then .ok none
  else if c.ty = SHED then do let h ← decSHED c.data; .ok (some { a with info := some h })
  else if c.ty = SDAT then .ok (some { a with data := c.data :: a.data })
  else if c.ty = PHSF then
    if validUtf8 c.data then .ok (some { a with phsf := some c.data }) else .error .invalidData
  else .ok (some { a with extra := c :: a.extra })

def sLoop (a : SAcc) : List Chunk → Outcome SAcc
  | [] => .ok a
  | c :: cs =>
    match sStep a c with
    | .error e => .error e
    | .panic s => .panic s
    | .ok none => .ok a
    | .ok (some a') => sLoop a' cs

/-- `impl TryFrom<RawEntry> for SolidEntry` -/
def parseS (raw : List Chunk) : Outcome SolidEntry :=
  match raw.head? with
  | some c0 => if c0.ty ≠ ChunkType.SHED then .error .invalidData else go
  | none => go
where go : Outcome SolidEntry :=
  match sLoop {} raw with
  | .error e => .error e
  | .panic s => .panic s
  | .ok a =>
    match a.info with
    | none => .error .invalidData
    | some h => .ok { header := h, phsf := a.phsf, data := a.data.reverse, extra := a.extra.reverse }

open ChunkType in
/-- `SolidEntry::into_chunks` / `chunks_write_in` (no `chunks(u32::MAX)` here: one SDAT per slice). -/
def serS (s : SolidEntry) : List Chunk :=
  [⟨SHED, encSHED s.header⟩] ++ s.extra ++ optChunk PHSF s.phsf
  ++ s.data.map (fun d => ⟨SDAT, d⟩) ++ [⟨SEND, []⟩]

/-- `impl TryFrom<RawEntry> for ReadEntry` -/
def parseEntry (raw : List Chunk) : Outcome ReadEntry :=
  match raw.head? with
  | none => .error .invalidData
  | some c0 =>
    if c0.ty = ChunkType.SHED then (parseS raw).map' .solid
    else if c0.ty = ChunkType.FHED then (parseN raw).map' .normal
    else .error .invalidData

def serEntry : ReadEntry → List Chunk
  | .normal e => serN e
  | .solid s => serS s

end Pna
