import PnaVerif.Model.Name
/-
  A small abstract POSIX file system (absolute paths as component lists, directories, regular
  files identified by inode so that hard links share content, symbolic links with verbatim
  targets) and the file-system effects of `pna extract` (cli/src/command/extract.rs
  `extract_entry`, cli/src/utils/fs.rs).  Cross-checked against the Linux VFS in sandboxes by
  the `extract-fs` family; used for C09 (part 2), C20 and C02.
-/
namespace Pna.Fs

abbrev Path := List Bytes      -- absolute, root = []

inductive Node where
  | file (ino : Nat)
  | dir
  | link (target : Bytes)      -- verbatim target string
  deriving DecidableEq, Repr, Inhabited

structure Fs where
  nodes : List (Path × Node)         -- directory entries (the root [] is implicitly a directory)
  inodes : List (Nat × Bytes)        -- file contents by inode
  nextIno : Nat
  deriving Repr, Inhabited

def Fs.lookup (fs : Fs) (p : Path) : Option Node :=
  if p = [] then some .dir else (fs.nodes.find? (·.1 == p)).map (·.2)

def Fs.content (fs : Fs) (ino : Nat) : Bytes := ((fs.inodes.find? (·.1 == ino)).map (·.2)).getD []

def Fs.setNode (fs : Fs) (p : Path) (n : Node) : Fs :=
  { fs with nodes := (fs.nodes.filter (·.1 != p)) ++ [(p, n)] }

def Fs.setContent (fs : Fs) (ino : Nat) (c : Bytes) : Fs :=
  { fs with inodes := (fs.inodes.filter (·.1 != ino)) ++ [(ino, c)] }

/-- components of a path string (`.`/empty dropped, `..` kept for the resolver) -/
def comps (s : Bytes) : List Bytes := (splitSlash s).filter (fun c => c ≠ [] && c ≠ [dot])

def isAbs (s : Bytes) : Bool := s.head? = some slash

/-- Path resolution (`path_resolution(7)`): walk `todo` from the resolved prefix `cur`,
    expanding symbolic links (always for intermediate components, for the last one only when
    `followLast`).  `none` = ELOOP / dangling intermediate / not a directory. -/
def resolve (fs : Fs) (followLast : Bool) : Nat → Path → List Bytes → Option Path
  | 0, _, _ => none
  | _, cur, [] => some cur
  | fuel+1, cur, c :: rest =>
    if c = [dot, dot] then resolve fs followLast fuel cur.dropLast rest
    else
      let p := cur ++ [c]
      match fs.lookup p with
      | some (.link t) =>
        if rest = [] ∧ !followLast then some p
        else
          let base := if isAbs t then [] else cur
          resolve fs followLast fuel base (comps t ++ rest)
      | some .dir => resolve fs followLast fuel p rest
      | some (.file _) => if rest = [] then some p else none      -- ENOTDIR
      | none => if rest = [] then some p else none                -- ENOENT on an intermediate

def fuelFor (fs : Fs) : Nat := 40 + 8 * fs.nodes.length

/-- `Path::exists()` (follows links; a dangling link does not exist) -/
def Fs.existsP (fs : Fs) (cwd : Path) (s : Bytes) : Bool :=
  match resolve fs true (fuelFor fs) (if isAbs s then [] else cwd) (comps s) with
  | some p => (fs.lookup p).isSome
  | none => false

inductive FsErr | exists | notFound | notDir | isDir | loop
  deriving DecidableEq, Repr

/-- `fs::create_dir_all`: create every missing directory along the (resolved) way. -/
def Fs.createDirAll (fs : Fs) (cwd : Path) (s : Bytes) : Except FsErr Fs :=
  let rec go (fs : Fs) (cur : Path) : Nat → List Bytes → Except FsErr Fs
    | 0, _ => .error .loop
    | _, [] => .ok fs
    | fuel+1, c :: rest =>
      if c = [dot, dot] then go fs cur.dropLast fuel rest
      else
        match fs.lookup (cur ++ [c]) with
        | none => go (fs.setNode (cur ++ [c]) .dir) (cur ++ [c]) fuel rest     -- mkdir
        | some .dir => go fs (cur ++ [c]) fuel rest
        | some (.file _) => .error .notDir
        | some (.link _) =>
          -- mkdir says EEXIST; create_dir_all then accepts it only if it *is* a directory (following the link)
          match resolve fs true (fuelFor fs) cur [c] with
          | none => .error .loop
          | some p =>
            match fs.lookup p with
            | some .dir => go fs p fuel rest
            | _ => .error .exists
  go fs (if isAbs s then [] else cwd) (fuelFor fs) (comps s)

/-- `File::create` + writing `content`: follows a final symlink, truncates an existing file
    (shared by all its hard links), fails on a directory or a missing parent. -/
def Fs.createFile (fs : Fs) (cwd : Path) (s : Bytes) (content : Bytes) : Except FsErr Fs :=
  match resolve fs true (fuelFor fs) (if isAbs s then [] else cwd) (comps s) with
  | none => .error .notFound
  | some p =>
    match fs.lookup p with
    | some .dir => .error .isDir
    | some (.file ino) => .ok (fs.setContent ino content)
    | some (.link _) => .error .loop
    | none =>
      match fs.lookup p.dropLast with
      | some .dir =>
        let ino := fs.nextIno
        .ok ({ (fs.setNode p (.file ino)).setContent ino content with nextIno := ino + 1 })
      | _ => .error .notFound

/-- where a new directory entry named by `s` would go: parent resolved, last component verbatim -/
def entryPath (fs : Fs) (cwd : Path) (s : Bytes) : Option Path :=
  match (comps s).reverse with
  | [] => none
  | last :: revParent =>
    if last = [dot, dot] then none else
    (resolve fs true (fuelFor fs) (if isAbs s then [] else cwd) revParent.reverse).map (· ++ [last])

/-- `symlink(target, path)`: fails if anything (even a dangling link) is at `path`. -/
def Fs.symlink (fs : Fs) (cwd : Path) (target s : Bytes) : Except FsErr Fs :=
  match entryPath fs cwd s with
  | none => .error .notFound
  | some p =>
    match fs.lookup p, fs.lookup p.dropLast with
    | some _, _ => .error .exists
    | none, some .dir => .ok (fs.setNode p (.link target))
    | none, _ => .error .notFound

/-- `fs::hard_link(src, dst)`: `src` is resolved without following a final link (linkat). -/
def Fs.hardLink (fs : Fs) (cwd : Path) (src dst : Bytes) : Except FsErr Fs :=
  match resolve fs false (fuelFor fs) (if isAbs src then [] else cwd) (comps src), entryPath fs cwd dst with
  | some sp, some dp =>
    match fs.lookup sp, fs.lookup dp, fs.lookup dp.dropLast with
    | some (.file ino), none, some .dir => .ok (fs.setNode dp (.file ino))
    | some (.link t), none, some .dir => .ok (fs.setNode dp (.link t))
    | some .dir, _, _ => .error .isDir
    | some _, some _, _ => .error .exists
    | none, _, _ => .error .notFound
    | _, _, _ => .error .notFound
  | _, _ => .error .notFound

/-- `utils::fs::remove`: `remove_dir_all` for a directory, `remove_file` otherwise (does not
    follow a final link). -/
def Fs.remove (fs : Fs) (cwd : Path) (s : Bytes) : Except FsErr Fs :=
  match resolve fs false (fuelFor fs) (if isAbs s then [] else cwd) (comps s) with
  | none => .error .notFound
  | some p =>
    match fs.lookup p with
    | none => .error .notFound
    | some .dir => .ok { fs with nodes := fs.nodes.filter (fun q => !(p.isPrefixOf q.1)) }
    | some _ => .ok { fs with nodes := fs.nodes.filter (·.1 != p) }

end Pna.Fs
