import PnaVerif.Model.Archive
/-
  Splitting (lib/src/entry.rs `EntryPart::split`, cli/src/command/commons.rs `split_to_parts`,
  `write_split_archive_writer`), after the `fix:` that made a too small maximum an error.
-/
namespace Pna

def partLen (cs : List Chunk) : Nat := (cs.map Chunk.bytesLen).sum

/-- the `while let Some(chunk) = remaining.pop_front()` loop of `EntryPart::split` -/
def splitGo (max : Nat) (total : Nat) (first : List Chunk) : List Chunk → List Chunk × List Chunk
  | [] => (first, [])
  | c :: rest =>
    if max < total + c.bytesLen then
      if c.isStream ∧ total + Chunk.minBytes < max then
        let idx := max - total - Chunk.minBytes
        (first ++ [⟨c.ty, c.data.take idx⟩], ⟨c.ty, c.data.drop idx⟩ :: rest)
      else (first, c :: rest)
    else splitGo max (total + c.bytesLen) (first ++ [c]) rest

/-- `EntryPart::split(max_bytes_len)` -/
def splitPart (cs : List Chunk) (max : Nat) : List Chunk × Option (List Chunk) :=
  if partLen cs ≤ max then (cs, none)
  else let (a, b) := splitGo max 0 [] cs; (a, some b)

/-- `split_to_parts` from the second iteration on (`split_size = max`).  `fuel` makes the
    recursion structural; `partLen cs + 1` suffices (each productive split shrinks the rest). -/
def splitRest (max : Nat) : Nat → List Chunk → Outcome (List (List Chunk))
  | 0, _ => .panic "fuel"
  | fuel+1, cs =>
    match splitPart cs max with
    | (w, none) => .ok [w]
    | (w, some rem) =>
      if partLen w = 0 then .error .invalidInput
      else match splitRest max fuel rem with
        | .ok ps => .ok (w :: ps)
        | o => o

/-- `split_to_parts(entry_part, first, max)` -/
def splitToParts (cs : List Chunk) (first max : Nat) : Outcome (List (List Chunk)) :=
  match splitPart cs first with
  | (w, none) => .ok [w]
  | (w, some rem) =>
    if max ≤ first ∧ partLen w = 0 then .error .invalidInput
    else match splitRest max (partLen rem + 1) rem with
      | .ok ps => .ok (w :: ps)
      | o => o

/-- fixed per-part overhead: signature + AHED(8) + ANXT + AEND -/
def splitOverhead : Nat := 8 + (Chunk.minBytes + 8) + Chunk.minBytes + Chunk.minBytes

structure SplitAcc where
  closed : List (List Chunk) := []   -- bodies of finished parts, in order
  cur : List Chunk := []             -- body of the part being written
  written : Nat := 0                 -- `written_entry_size`

/-- the inner `for part in parts` loop -/
def placeParts (M : Nat) (a : SplitAcc) : List (List Chunk) → SplitAcc
  | [] => a
  | p :: ps =>
    let a := if a.written + partLen p > M then { closed := a.closed ++ [a.cur], cur := [], written := 0 } else a
    placeParts M { a with cur := a.cur ++ p, written := a.written + partLen p } ps

def splitEntries (M : Nat) (a : SplitAcc) : List (List Chunk) → Outcome SplitAcc
  | [] => .ok a
  | e :: es =>
    match splitToParts e (M - a.written) M with
    | .ok parts => splitEntries M (placeParts M a parts) es
    | .error err => .error err
    | .panic s => .panic s

/-- `write_split_archive_writer`: bodies (entry chunks) of the produced parts. -/
def writeSplit (entries : List (List Chunk)) (maxFile : Nat) : Outcome (List (List Chunk)) :=
  if maxFile < splitOverhead then .error .invalidInput
  else
    match splitEntries (maxFile - splitOverhead) {} entries with
    | .ok a => .ok (a.closed ++ [a.cur])
    | .error e => .error e
    | .panic s => .panic s

/-- The bytes of part `i` (0-based) of `n`. -/
def encodePartFile (i n : Nat) (body : List Chunk) : Bytes :=
  signature ++ (Chunk.mk ChunkType.AHED (encAHED ⟨0, 0, i⟩)).encode ++ body.flatMap Chunk.encode
    ++ (if i + 1 < n then (Chunk.mk ChunkType.ANXT []).encode else []) ++ (Chunk.mk ChunkType.AEND []).encode

def encodeParts (bodies : List (List Chunk)) : List Bytes :=
  bodies.zipIdx.map fun (b, i) => encodePartFile i bodies.length b

end Pna
