import PnaVerif.Model.Stream
/-
  Cipher layers (lib/src/cipher/block/{write,read}.rs, lib/src/cipher/stream/{write,read}.rs),
  generic in the block cipher exactly like the Rust code (`C: BlockEncryptMut + BlockCipher`).
  The cipher enters as a parameter `BlockPerm`; theorems assume only that `D` inverts `E` on
  16-byte blocks.  AES-256 / Camellia-256 are instances the model never looks inside.
-/
namespace Pna

def blockSize : Nat := 16

structure BlockPerm where
  E : Bytes → Bytes → Bytes      -- key → block → block
  D : Bytes → Bytes → Bytes

/-- The only law assumed of a block cipher. -/
structure BlockPerm.Lawful (P : BlockPerm) : Prop where
  inv : ∀ k b, b.length = 16 → P.D k (P.E k b) = b
  lenE : ∀ k b, b.length = 16 → (P.E k b).length = 16
  lenD : ∀ k b, b.length = 16 → (P.D k b).length = 16

def xorBytes (a b : Bytes) : Bytes := List.zipWith (· ^^^ ·) a b

/-- PKCS#7 padding of a partial block (`buf.length < 16`): always adds 1..16 bytes. -/
def pkcs7PadBlock (buf : Bytes) : Bytes :=
  buf ++ List.replicate (16 - buf.length) (UInt8.ofNat (16 - buf.length))

/-- PKCS#7 padding of a whole message. -/
def pkcs7Pad (data : Bytes) : Bytes :=
  data ++ List.replicate (16 - data.length % 16) (UInt8.ofNat (16 - data.length % 16))

/-- `Pkcs7::unpad` on one 16-byte block: last byte `n` with `1 ≤ n ≤ 16` and the last `n`
    bytes all equal to `n`. -/
def pkcs7Unpad (blk : Bytes) : Option Bytes :=
  match blk.getLast? with
  | none => none
  | some last =>
    let n := last.toNat
    if n = 0 ∨ n > 16 ∨ n > blk.length then none
    else if (blk.drop (blk.length - n)).all (· == last) then some (blk.take (blk.length - n)) else none

/-- Reference CBC encryption of whole blocks. -/
def cbcEncBlocks (P : BlockPerm) (k : Bytes) (chain : Bytes) : List Bytes → List Bytes
  | [] => []
  | b :: bs => let c := P.E k (xorBytes b chain); c :: cbcEncBlocks P k c bs

/-- Reference CBC decryption of whole blocks. -/
def cbcDecBlocks (P : BlockPerm) (k : Bytes) (chain : Bytes) : List Bytes → List Bytes
  | [] => []
  | c :: cs => xorBytes (P.D k c) chain :: cbcDecBlocks P k c cs

/-- Cut a byte string into 16-byte blocks (the last may be shorter). -/
def toBlocks (bs : Bytes) : List Bytes := rustChunks 16 bs

/-- Reference: ciphertext of a message = CBC over the padded message. -/
def cbcEncrypt (P : BlockPerm) (k iv : Bytes) (msg : Bytes) : Bytes :=
  (cbcEncBlocks P k iv (toBlocks (pkcs7Pad msg))).flatten

-- ---------------------------------------------------------------- CBC writer state machine

structure CbcW where
  buf : Bytes          -- `self.buf`: pending partial block
  chain : Bytes        -- chaining value inside `cbc::Encryptor`
  out : List Bytes     -- inner `write_all` calls so far (each one block)
  deriving Repr, DecidableEq

def CbcW.init (iv : Bytes) : CbcW := ⟨[], iv, []⟩

/-- `encrypt_write_block` -/
def CbcW.encBlock (P : BlockPerm) (k : Bytes) (s : CbcW) (blk : Bytes) : CbcW :=
  let c := P.E k (xorBytes blk s.chain)
  { s with chain := c, out := s.out ++ [c] }

/-- the `for b in buf[remaining..].chunks(block_size)` loop -/
def CbcW.loop (P : BlockPerm) (k : Bytes) (s : CbcW) : List Bytes → CbcW
  | [] => s
  | b :: bs =>
    if b.length = 16 then CbcW.loop P k (s.encBlock P k b) bs
    else CbcW.loop P k { s with buf := s.buf ++ b } bs

/-- `CbcBlockCipherEncryptWriter::write` (always accepts the whole buffer). -/
def CbcW.write (P : BlockPerm) (k : Bytes) (s : CbcW) (b : Bytes) : CbcW :=
  if b.length + s.buf.length < 16 then { s with buf := s.buf ++ b }
  else
    let remaining := 16 - s.buf.length
    let first := s.buf ++ b.take remaining
    let s1 := ({ s with buf := [] } : CbcW).encBlock P k first
    CbcW.loop P k s1 (rustChunks 16 (b.drop remaining))

/-- `finish` = `encrypt_write_with_padding` -/
def CbcW.finish (P : BlockPerm) (k : Bytes) (s : CbcW) : CbcW :=
  ({ s with buf := [] } : CbcW).encBlock P k (pkcs7PadBlock s.buf)

/-- Run the writer over a partition of the plaintext into `write` calls, then `finish`;
    the result is the list of inner writes. -/
def cbcWriterRun (P : BlockPerm) (k iv : Bytes) (writes : List Bytes) : List Bytes :=
  ((writes.foldl (CbcW.write P k) (CbcW.init iv)).finish P k).out

-- ---------------------------------------------------------------- CBC reader state machine

structure CbcR where
  inner : Bytes        -- ciphertext not yet pulled from the inner reader
  chain : Bytes        -- chaining value inside `cbc::Decryptor`
  remaining : Bytes    -- `self.remaining`: decrypted bytes parked for the next call
  buf : Bytes          -- `self.buf`: the next ciphertext block (look-ahead)
  eof : Bool
  deriving Repr, DecidableEq

/-- `read_block`: fills a block across short reads; fewer than 16 bytes only at end of stream.
    The inner reader is assumed to honour the `Read` contract (returns 0 only at EOF). -/
def pullBlock (inner : Bytes) : Bytes × Bytes := (inner.take 16, inner.drop 16)

/-- `CbcBlockCipherDecryptReader::new` -/
def CbcR.new (iv : Bytes) (ct : Bytes) : Outcome CbcR :=
  let (b, rest) := pullBlock ct
  if b.length ≠ 16 then .error .eof else .ok ⟨rest, iv, [], b, false⟩

/-- The `for chunk in buf[total_written..].chunks_mut(block_size)` loop, `need` = bytes of the
    caller's buffer still free (> 0).  `fuel` only makes the recursion structural. -/
def CbcR.blocks (P : BlockPerm) (k : Bytes) : Nat → CbcR → Nat → Bytes → Outcome (CbcR × Bytes)
  | 0, _, _, _ => .panic "fuel"
  | fuel+1, s, need, acc =>
    let m := min 16 need
    let plain := xorBytes (P.D k s.buf) s.chain
    let (nb, inner') := pullBlock s.inner
    if nb.length ≠ 0 ∧ nb.length ≠ 16 then .error .eof
    else
      let eof := nb.length = 0
      let s' : CbcR := { s with chain := s.buf, buf := if eof then s.buf else nb, inner := inner', eof := eof }
      match (if eof then pkcs7Unpad plain else some plain) with
      | none => .error .invalidData
      | some blk =>
        let w := min m blk.length
        let acc' := acc ++ blk.take w
        if eof ∨ need ≤ w then .ok ({ s' with remaining := s'.remaining ++ blk.drop w }, acc')
        else CbcR.blocks P k fuel s' (need - w) acc'

/-- `CbcBlockCipherDecryptReader::read` (after the `fix:` commits). -/
def CbcR.read (P : BlockPerm) (k : Bytes) (s : CbcR) (n : Nat) : Outcome (CbcR × Bytes) :=
  if n = 0 then .ok (s, [])
  else
    let l := min s.remaining.length n
    let out0 := s.remaining.take l
    let s1 := { s with remaining := s.remaining.drop l }
    if 0 < l ∧ n ≤ l then .ok (s1, out0)
    else if s1.eof then .ok (s1, out0)
    else CbcR.blocks P k (n + 1) s1 (n - l) out0

/-- Drive with a schedule of caller buffer sizes; stop at the first error. -/
def CbcR.run (P : BlockPerm) (k : Bytes) (s : CbcR) : List Nat → List Bytes × Option Err
  | [] => ([], none)
  | n :: ns =>
    match s.read P k n with
    | .error e => ([], some e)
    | .panic _ => ([], some .other)
    | .ok (s', out) => let (outs, e) := CbcR.run P k s' ns; (out :: outs, e)

/-- Reference decryption of a whole ciphertext: blocks, CBC chain, unpad the last block. -/
def cbcDecrypt (P : BlockPerm) (k iv : Bytes) (ct : Bytes) : Outcome Bytes :=
  if ct.length = 0 ∨ ct.length % 16 ≠ 0 then .error .eof
  else
    let blocks := cbcDecBlocks P k iv (toBlocks ct)
    match blocks.getLast? with
    | none => .error .eof
    | some last =>
      match pkcs7Unpad last with
      | none => .error .invalidData
      | some tail => .ok (blocks.dropLast.flatten ++ tail)

-- ---------------------------------------------------------------- CTR (128-bit BE counter)

/-- keystream byte at absolute position `pos`: block `pos / 16` is `E k (iv + pos/16)`. -/
def ctrKeystream (P : BlockPerm) (k iv : Bytes) (pos : Nat) : UInt8 :=
  let ctr := be128 ((fromBe iv + pos / 16) % 2 ^ 128)
  (P.E k ctr).getD (pos % 16) 0

def ctrApply (P : BlockPerm) (k iv : Bytes) (pos : Nat) (data : Bytes) : Bytes :=
  data.zipIdx.map fun (b, i) => b ^^^ ctrKeystream P k iv (pos + i)

/-- `StreamCipherWriter`: one inner write per `write` call (empty ones included). -/
def ctrWriterRun (P : BlockPerm) (k iv : Bytes) : Nat → List Bytes → List Bytes
  | _, [] => []
  | pos, w :: ws => ctrApply P k iv pos w :: ctrWriterRun P k iv (pos + w.length) ws

/-- `StreamCipherReader::read`: whatever the inner reader returned, XORed at the running position. -/
structure CtrR where
  inner : Bytes
  pos : Nat

/-- `cuts` models short reads of the inner reader: each call serves at most the next cut. -/
def CtrR.run (P : BlockPerm) (k iv : Bytes) (s : CtrR) : List Nat → List Nat → List Bytes
  | [], _ => []
  | n :: ns, cuts =>
    let lim := match cuts with | [] => n | c :: _ => min n (max c 1)
    let got := s.inner.take lim
    ctrApply P k iv s.pos got :: CtrR.run P k iv ⟨s.inner.drop lim, s.pos + got.length⟩ ns cuts.tail

end Pna

namespace Pna

/-- `read_to_end` over the CBC reader: accumulate until a call returns no bytes or fails.
    `none` = the schedule ran out before end-of-stream was signalled. -/
def CbcR.readToEnd (P : BlockPerm) (k : Bytes) (s : CbcR) (acc : Bytes) : List Nat → Option (Outcome Bytes)
  | [] => none
  | n :: ns =>
    match s.read P k n with
    | .error e => some (.error e)
    | .panic m => some (.panic m)
    | .ok (s', out) => if out = [] then some (.ok acc) else CbcR.readToEnd P k s' (acc ++ out) ns

/-- Open a CBC stream (`new`) and read it to the end with the given buffer sizes. -/
def cbcReadAll (P : BlockPerm) (k iv ct : Bytes) (sched : List Nat) : Option (Outcome Bytes) :=
  match CbcR.new iv ct with
  | .error e => some (.error e)
  | .panic m => some (.panic m)
  | .ok r => CbcR.readToEnd P k r [] sched

end Pna
