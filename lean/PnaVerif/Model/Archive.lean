import PnaVerif.Model.Entry
/-
  Archive reading (lib/src/archive/read.rs, archive/read/slice.rs).
  The Rust readers interleave chunk reading and item grouping; observably (items returned
  before the first `Err`, then that `Err`) this equals: tokenise until the first error or
  AEND, then group.  The model is written in that form, parameterised by the chunk parser,
  so the stream reader and the slice reader are two instances.
-/
namespace Pna
open ChunkType

/-- `next_raw_item` folded over a chunk list: items closed by FEND/SEND, ANXT sets the flag,
    AEND ends the archive and leaves the open item as carry buffer for the next part. -/
def groupItems (cur : List Chunk) (next : Bool) :
    List Chunk → List (List Chunk) × List Chunk × Bool × Bool
  | [] => ([], cur, next, false)
  | c :: cs =>
    if c.ty = FEND ∨ c.ty = SEND then
      let (is, l, n, e) := groupItems [] next cs
      ((cur ++ [c]) :: is, l, n, e)
    else if c.ty = ANXT then groupItems cur true cs
    else if c.ty = AEND then ([], cur, next, true)
    else groupItems (cur ++ [c]) next cs

/-- Parse items in order, stopping at the first failure (`Entries::next` yields `Err`). -/
def parseItems : List (List Chunk) → List ReadEntry × Outcome Unit
  | [] => ([], .ok ())
  | it :: its =>
    match parseEntry it with
    | .error e => ([], .error e)
    | .panic s => ([], .panic s)
    | .ok e => let (es, o) := parseItems its; (e :: es, o)

structure ReadResult where
  header : Option ArchiveHeader := none
  rawItems : List (List Chunk) := []
  entries : List ReadEntry := []
  /-- `.ok ()` iff iteration ended with `None` (AEND reached and every item parsed). -/
  status : Outcome Unit := .ok ()
  carry : List Chunk := []
  next : Bool := false
  deriving Repr

/-- `Archive::read_header[_from_slice]_with_buffer` followed by draining `entries()`.
    `chunks` is `chunksStream` or `chunksSlice`; `carry` is the previous part's buffer. -/
def readArchiveWith (chunks : Bytes → List Chunk × Outcome Unit) (carry : List Chunk)
    (bs : Bytes) : ReadResult :=
  let (cs, st) := chunks bs
  match cs with
  | [] => { status := match st with | .ok _ => .panic "unreachable: ok without AEND" | o => o }
  | c0 :: rest =>
    if c0.ty ≠ AHED then { status := .error .invalidData }
    else match decAHED c0.data with
      | .error e => { status := .error e }
      | .panic s => { status := .panic s }
      | .ok h =>
        let (items, cur, nx, _ended) := groupItems carry false rest
        let (es, po) := parseItems items
        let status := match po with
          | .ok _ => st
          | o => o
        { header := some h, rawItems := items, entries := es, status := status, carry := cur, next := nx }

def readArchiveStream := readArchiveWith chunksStream []
def readArchiveSlice := readArchiveWith chunksSlice []

/-- `raw_entries()`: items without parsing; status is the tokeniser's. -/
def rawEntriesWith (chunks : Bytes → List Chunk × Outcome Unit) (bs : Bytes) :
    List (List Chunk) × Outcome Unit :=
  let r := readArchiveWith chunks [] bs
  match r.header with
  | none => ([], r.status)
  | some _ => (r.rawItems, (chunks bs).2)

/-- `read_next_archive`: header of the next part (carrying `prev.carry`), then the part-number
    check (after the `fix:` that made `+ 1` checked). -/
def readNextWith (chunks : Bytes → List Chunk × Outcome Unit) (prevNumber : Nat)
    (carry : List Chunk) (bs : Bytes) : ReadResult :=
  let r := readArchiveWith chunks carry bs
  match r.header with
  | none => r
  | some h =>
    if prevNumber + 1 ≠ h.number then
      { header := some h, status := .error .invalidData }
    else r

/-- Read a multipart sequence: part `i+1` is opened only when part `i` ended cleanly.
    Returns all entries and the final status. -/
def readMultipartWith (chunks : Bytes → List Chunk × Outcome Unit) :
    (first : Bool) → (prevNumber : Nat) → (carry : List Chunk) → List Bytes → List ReadEntry × Outcome Unit
  | _, _, _, [] => ([], .ok ())
  | first, pn, carry, p :: ps =>
    let r := if first then readArchiveWith chunks carry p else readNextWith chunks pn carry p
    match r.status, r.header with
    | .ok _, some h =>
      if ps.isEmpty then (r.entries, .ok ())
      else
        let (es, o) := readMultipartWith chunks false h.number r.carry ps
        (r.entries ++ es, o)
    | o, _ => (r.entries, o)

end Pna
