import PnaVerif.Model.Cipher
/-
  The data pipeline of an entry (lib/src/entry/{write,read,builder}.rs, archive/write.rs, hash.rs):
    write:  caller writes → compressor → cipher writer → sink (FlattenWriter | ChunkStreamWriter)
    read :  stored slices → FlattenReader → [IV] → decrypt reader → decompressor
  Third-party code enters as parameters: the block cipher (`BlockPerm`), the compressor
  (`Compressor`, with its round-trip law as a separate predicate), the key derivation (an oracle
  record computed by the harness with the same crates).
-/
namespace Pna

/-- A compression codec: `comp` maps the caller's write calls to the inner write calls it issues
    (its `finish` included); `decomp` is reading the whole stream to the end. -/
structure Compressor where
  comp : List Bytes → List Bytes
  decomp : Bytes → Outcome Bytes

/-- The only law assumed of a codec: decompressing the concatenated output gives the
    concatenated input, whatever the slicing. -/
def Compressor.Lawful (C : Compressor) : Prop :=
  ∀ ws, C.decomp (C.comp ws).flatten = .ok ws.flatten

/-- `Compression::No`: the writer is the inner writer itself — `write_all` forwards every
    non-empty buffer as one inner write. -/
def storeCompressor : Compressor := ⟨fun ws => ws, fun b => .ok b⟩

inductive CipherSel | none | cbc | ctr
  deriving DecidableEq, Repr

/-- the cipher writer stage: inner writes produced for the given write calls (incl. `finish`) -/
def cipherWrites (P : BlockPerm) (sel : CipherSel) (key iv : Bytes) (ws : List Bytes) : List Bytes :=
  match sel with
  | .none => ws
  | .cbc => cbcWriterRun P key iv ws
  | .ctr => ctrWriterRun P key iv 0 ws

/-- `EntryBuilder` / `SolidEntryBuilder`: sink is `FlattenWriter<u32::MAX>`, the IV is inserted as
    the first stored slice at `build`. -/
def buildData (P : BlockPerm) (C : Compressor) (sel : CipherSel) (key iv : Bytes) (ws : List Bytes) : List Bytes :=
  let stored := flattenWriter maxChunkData (cipherWrites P sel key iv (C.comp ws))
  match sel with
  | .none => stored
  | _ => iv :: stored

/-- `Archive::write_file` / `SolidArchive` stream: sink is `ChunkStreamWriter` — the IV is its
    own data chunk, then one data chunk per inner write of the cipher stage. -/
def streamData (P : BlockPerm) (C : Compressor) (sel : CipherSel) (key iv : Bytes) (ws : List Bytes) : List Bytes :=
  let writes := cipherWrites P sel key iv (C.comp ws)
  match sel with
  | .none => writes
  | _ => iv :: writes

/-- Reference decryption of the stream that follows the IV. -/
def decryptStream (P : BlockPerm) (sel : CipherSel) (key iv : Bytes) (ct : Bytes) : Outcome Bytes :=
  match sel with
  | .none => .ok ct
  | .cbc => cbcDecrypt P key iv ct
  | .ctr => .ok (ctrApply P key iv 0 ct)

/-- Reading the data of an entry whose key is already known: flatten, take the IV, decrypt,
    decompress.  (By the schedule-independence theorems the result does not depend on the
    reader's buffer sizes, so it is stated on whole streams.) -/
def readData (P : BlockPerm) (C : Compressor) (sel : CipherSel) (key : Bytes) (slices : List Bytes) : Outcome Bytes :=
  let all := slices.flatten
  match sel with
  | .none => C.decomp all
  | _ =>
    if all.length < 16 then .error .eof
    else
      match decryptStream P sel key (all.take 16) (all.drop 16) with
      | .ok plain => C.decomp plain
      | .error e => .error e
      | .panic s => .panic s

-- ------------------------------------------------------------------ key derivation dispatch

inductive PhcAlg | argon2 | pbkdf2 | other
  deriving DecidableEq, Repr

/-- What the `password-hash` / `argon2` / `pbkdf2` crates answer for a PHSF string and a
    password (computed by the harness with those crates; third-party, trusted). -/
structure PhcOracle where
  parses : Bool          -- `PasswordHash::new` succeeded
  alg : PhcAlg
  paramsOk : Bool        -- `Params::try_from(&password_hash)` succeeded
  hasSalt : Bool
  hashOk : Bool          -- `hash_password_customized` succeeded
  key : Option Bytes     -- `.hash` of the result (`None` ⇒ Unsupported)
  deriving Repr

/-- `hash::verify_password` followed by `.hash.ok_or(Unsupported)` (after the `fix:` that made a
    missing salt an error). -/
def deriveKey (o : PhcOracle) : Outcome Bytes :=
  if !o.parses then .error .invalidData
  else match o.alg with
    | .other => .error .unsupported
    | _ =>
      if !o.paramsOk then .error .invalidData
      else if !o.hasSalt then .error .invalidData
      else if !o.hashOk then .error .invalidData
      else match o.key with
        | none => .error .unsupported
        | some k => .ok k

/-- `decrypt_reader` + reading to the end + `decompress_reader`: the full decision logic of
    `NormalEntry::reader(..).read_to_end()` / `SolidEntry::entries`.
    `enc`/`mode` are the header codes; `dec` is the oracle for the cipher layer (the reference
    decryption computed with primitive crates), `decomp` the oracle for the codec. -/
def openEntryData (enc mode : Nat) (phsf : Option Bytes) (password : Option Bytes) (o : PhcOracle)
    (slices : List Bytes) (dec : Bytes → Bytes → Bytes → Outcome Bytes) (decomp : Bytes → Outcome Bytes) : Outcome Bytes :=
  let all := slices.flatten
  if enc = 0 then decomp all
  else
    match phsf with
    | none => .error .invalidData
    | some _ =>
      match password with
      | none => .error .invalidInput
      | some _ =>
        match deriveKey o with
        | .error e => .error e
        | .panic s => .panic s
        | .ok key =>
          if all.length < 16 then .error .eof
          else
            let iv := all.take 16
            let ct := all.drop 16
            if mode = 0 then
              -- CBC: `new` pulls the first block (eof), then checks key/IV lengths (InvalidData)
              if ct.length < 16 then .error .eof
              else if key.length ≠ 32 then .error .invalidData
              else match dec key iv ct with
                | .ok plain => decomp plain
                | .error e => .error e
                | .panic s => .panic s
            else
              if key.length ≠ 32 then .error .invalidData
              else match dec key iv ct with
                | .ok plain => decomp plain
                | .error e => .error e
                | .panic s => .panic s

end Pna
