import PnaVerif.Model.Archive
/-
  Appending to an existing archive at the byte level
  (lib/src/archive/read.rs `Archive::seek_to_end`, lib/src/chunk/read.rs `ChunkReader::skip_chunk`,
  then `add_entry` / `finalize` writing at the position found).

  The reader is a seekable byte buffer (a file or `Cursor<Vec<u8>>`).  A position may lie beyond
  the end after a seek; `read_exact` there fails with `UnexpectedEof`, which is what
  `readExact n (bs.drop pos)` gives (`bs.drop pos = []` when `pos ≥ bs.length`).
  Positions are `Nat`: the `u64` overflow check of `Seek` is not modelled (it needs a file of
  2^63 bytes).
-/
namespace Pna
open ChunkType

/-- `ChunkReader::skip_chunk` on the bytes from the current position on: length (4, BE), type (4);
    the data and the CRC are sought over, NOT read: no CRC check, and seeking past the end is not
    an error.  Result: the type and the chunk's byte length `12 + length`. -/
def skipChunk (r : Bytes) : Outcome (ChunkType × Nat) := do
  let (lenB, r) ← readExact 4 r
  let (tyB, _) ← readExact 4 r
  match ChunkType.ofBytes? tyB with
  | none => .panic "unreachable: type has 4 bytes"
  | some ty => .ok (ty, 12 + fromBe lenB)

/-- The loop of `Archive::seek_to_end`: fuel, position, "ANXT seen", the whole file.
    Result: the offset of the AEND chunk (the position after the final
    `seek(Current(-byte_length))`) and the `next_archive` flag.
    `bs.length + 1` fuel always suffices (`seekEndGo_no_fuel_panic`). -/
def seekEndGo : Nat → Nat → Bool → Bytes → Outcome (Nat × Bool)
  | 0, _, _, _ => .panic "fuel"
  | fuel+1, pos, nx, bs =>
    match skipChunk (bs.drop pos) with
    | .error e => .error e
    | .panic s => .panic s
    | .ok (ty, n) =>
      if ty = AEND then .ok (pos, nx)
      else seekEndGo fuel (pos + n) (nx || ty == ANXT) bs

/-- `Archive::read_header` (signature, first chunk read WITH its CRC check, must be AHED, header
    decoded — the first steps of `readArchiveWith chunksStream`, same error kinds) followed by
    `seek_to_end`, started at the offset after the AHED chunk. -/
def seekEnd (bs : Bytes) : Outcome (Nat × Bool) :=
  match readSigStream bs with
  | .error e => .error e
  | .panic s => .panic s
  | .ok r =>
    match decodeStream r with
    | .error e => .error e
    | .panic s => .panic s
    | .ok (c0, _) =>
      if c0.ty ≠ AHED then .error .invalidData
      else match decAHED c0.data with
        | .error e => .error e
        | .panic s => .panic s
        | .ok _ => seekEndGo (bs.length + 1) (8 + c0.bytesLen) false bs

/-- A `write_all` of `w` at position `pos` of a seekable buffer: overwrites what is there, extends
    the buffer when it runs past the end, leaves the old bytes beyond the written range as they are
    (nothing truncates).  A position beyond the end zero-fills the gap (`Cursor<Vec<u8>>::write`,
    and a sparse file reads back zeros). -/
def overwriteAt (bs : Bytes) (pos : Nat) (w : Bytes) : Bytes :=
  if pos ≤ bs.length then bs.take pos ++ w ++ bs.drop (pos + w.length)
  else bs ++ List.replicate (pos - bs.length) 0 ++ w

/-- the bytes of a chunk list (`write_chunk` for each) -/
def encodeChunkList (cs : List Chunk) : Bytes := cs.flatMap Chunk.encode

/-- Open for append (`read_header`, `seek_to_end`), `add_entry` for the new chunks, `finalize`
    (AEND).  Returns the new content of the file. -/
def appendBytes (bs : Bytes) (newChunks : List Chunk) : Outcome Bytes :=
  match seekEnd bs with
  | .error e => .error e
  | .panic s => .panic s
  | .ok (pos, _) =>
    .ok (overwriteAt bs pos (encodeChunkList newChunks ++ (Chunk.mk AEND []).encode))

end Pna
