import PnaVerif.Model.Bytes
/-
  Entry names and link references as UTF-8 byte strings.
  `sanitize`  — `EntryName::new_from_utf8path` on unix: keep only `Normal` path components.
  `normalizeRef` — `EntryReference::new_from_utf8path` on unix.
  `std::path::Path::components` (unix) is re-modelled here: split on `/`, empty components
  vanish, `.` vanishes except as the very first component of a relative path.
-/
namespace Pna

def slash : UInt8 := 0x2F
def dot : UInt8 := 0x2E

/-- Split on `/` (always returns at least one component). -/
def splitSlash : Bytes → List Bytes
  | [] => [[]]
  | b :: rest =>
    if b = slash then [] :: splitSlash rest
    else match splitSlash rest with
      | [] => [[b]]
      | c :: cs => (b :: c) :: cs

def joinSlash : List Bytes → Bytes
  | [] => []
  | [c] => c
  | c :: cs => c ++ slash :: joinSlash cs

def isNormalComp (c : Bytes) : Bool := c ≠ [] && c ≠ [dot] && c ≠ [dot, dot]

/-- `EntryName` construction from any (valid UTF-8) string on unix. -/
def sanitize (s : Bytes) : Bytes := joinSlash ((splitSlash s).filter isNormalComp)

/-- Strict UTF-8 validation (`std::str::from_utf8`). -/
def validUtf8 (bs : Bytes) : Bool := (ByteArray.mk bs.toArray).validateUTF8

/-- `EntryReference::new_from_utf8path` on unix. -/
def normalizeRef (s : Bytes) : Bytes :=
  let comps := splitSlash s
  let hasRoot := s.head? = some slash
  let leadingCur := !hasRoot && comps.head? = some [dot]
  let kept := comps.filter (fun c => c ≠ [] && c ≠ [dot])
  let kept := if leadingCur then [dot] :: kept else kept
  let body := joinSlash kept
  if hasRoot then slash :: body else body

end Pna
