import PnaVerif.Model.Entry
/-
  Byte-stream plumbing (lib/src/io.rs, lib/src/chunk/write.rs).
  A Rust `Write` stage is modelled by what it emits to its inner writer for a given list of
  `write` calls; a Rust `Read` stage by a state and a `read n` step that may return fewer than
  `n` bytes (short reads are first-class).
-/
namespace Pna

/-- `FlattenWriter<N>::write`: the buffer is stored in pieces of at most `N` bytes. -/
def flattenWrite (N : Nat) (stored : List Bytes) (buf : Bytes) : List Bytes :=
  stored ++ rustChunks N buf

def flattenWriter (N : Nat) (writes : List Bytes) : List Bytes := writes.foldl (flattenWrite N) []

/-- `ChunkStreamWriter::write`: every inner `write` call becomes one chunk, empty ones too. -/
def chunkStreamWriter (ty : ChunkType) (writes : List Bytes) : List Chunk := writes.map fun b => ⟨ty, b⟩

/-- `FlattenReader` state: the not yet consumed slices (head = current, possibly exhausted). -/
structure FlatR where
  slices : List Bytes
  deriving Repr, DecidableEq

/-- `FlattenReader::read` after the `fix:` commit: empty buffer ⇒ `Ok(0)` without touching the
    state; otherwise skip exhausted slices iteratively and serve from the first non-empty one. -/
def FlatR.read (s : FlatR) (n : Nat) : FlatR × Bytes :=
  if n = 0 then (s, []) else go s.slices
where go : List Bytes → FlatR × Bytes
  | [] => (⟨[]⟩, [])
  | c :: cs => if c = [] then go cs else (⟨c.drop n :: cs⟩, c.take n)

/-- Drive a reader with a schedule of buffer sizes; one output per call. -/
def FlatR.run (s : FlatR) : List Nat → List Bytes
  | [] => []
  | n :: ns => let (s', out) := s.read n; out :: FlatR.run s' ns

/-- `read_exact(n)` over `FlattenReader` (std loop: repeat `read` until filled or `Ok(0)`).
    Because every call on a non-exhausted reader returns at least one byte, the loop is
    "take n bytes of the concatenation, else `UnexpectedEof`". -/
def FlatR.readExact (s : FlatR) (n : Nat) : Outcome (Bytes × FlatR) :=
  let all := s.slices.flatten
  if all.length < n then .error .eof else .ok (all.take n, ⟨[all.drop n]⟩)

end Pna

namespace Pna

/-- `read_to_end` over `FlattenReader` with caller buffer sizes `sched` (all positive in Rust's
    `read_to_end`): accumulate until a call returns no bytes.  `none` = the schedule ran out
    before end-of-stream was signalled. -/
def FlatR.readToEnd (s : FlatR) (acc : Bytes) : List Nat → Option Bytes
  | [] => none
  | n :: ns =>
    let (s', out) := s.read n
    if out = [] then some acc else FlatR.readToEnd s' (acc ++ out) ns

end Pna
