import PnaVerif.Model.Bytes
/-
  Textual codecs of the CLI (cli/src/chunk/acl.rs, cli/src/command/xattr.rs):
    * access-control entries  `flags:owner-kind:owner-name:allow|deny:permissions`  (+ platform prefix)
    * extended-attribute values as printed (`0x…` hex, `0s…` base64) and parsed by `xattr set --value`
  Strings are `List Char` (the parsers are char-indexed: `str::split(char)`, `chars().chunks(2)`).
-/
namespace Pna.Cli.Text

abbrev Str := List Char

/-- `str::split(sep)`: always at least one piece. -/
def splitOn (sep : Char) : Str → List Str
  | [] => [[]]
  | c :: cs =>
    if c = sep then [] :: splitOn sep cs
    else match splitOn sep cs with
      | [] => [[c]]
      | p :: ps => (c :: p) :: ps

/-- `Itertools::join(sep)` -/
def join (sep : Char) : List Str → Str
  | [] => []
  | [x] => x
  | x :: y :: xs => x ++ sep :: join sep (y :: xs)

-- ---------------------------------------------------------------- name tables

/-- `Flag::FLAG_NAME_MAP`, in map order (bit value, names) -/
def flagTable : List (Nat × List Str) :=
  [(1, ["d".toList, "default".toList]), (4, ["file_inherit".toList]), (8, ["directory_inherit".toList]),
   (32, ["only_inherit".toList]), (16, ["limit_inherit".toList]), (2, ["inherited".toList])]

/-- `Permission::PERMISSION_NAME_MAP` -/
def permTable : List (Nat × List Str) :=
  [(1, ["r".toList, "read".toList]), (2, ["w".toList, "write".toList]), (4, ["x".toList, "execute".toList]),
   (8, ["delete".toList]), (16, ["append".toList]), (32, ["delete_child".toList]), (64, ["readattr".toList]),
   (128, ["writeattr".toList]), (256, ["readextattr".toList]), (512, ["writeextattr".toList]),
   (1024, ["readsecurity".toList]), (2048, ["writesecurity".toList]), (4096, ["chown".toList]),
   (8192, ["sync".toList]), (16384, ["read_data".toList]), (32768, ["write_data".toList])]

/-- A bit set over a table: one Boolean per table row, in table order. -/
abbrev Bits := List Bool

/-- `TABLE.iter().filter(|(f,_)| set.contains(*f)).map(|(_,names)| names[0]).join(",")` -/
def showSet (table : List (Nat × List Str)) (bits : Bits) : Str :=
  join ',' ((table.zip bits).filterMap fun (row, b) => if b then row.2.head? else none)

/-- `for (f, names) in TABLE { if tokens.iter().any(|t| names.contains(t)) { set.insert(*f) } }` -/
def parseSet (table : List (Nat × List Str)) (s : Str) : Bits :=
  let toks := splitOn ',' s
  table.map fun row => toks.any fun t => row.2.contains t

/-- integer view of a bit set (for the wire) -/
def bitsToNat (table : List (Nat × List Str)) (bits : Bits) : Nat :=
  ((table.zip bits).map fun (row, b) => if b then row.1 else 0).sum

def natToBits (table : List (Nat × List Str)) (n : Nat) : Bits :=
  table.map fun row => (n / row.1) % 2 == 1

-- ---------------------------------------------------------------- access-control entries

inductive Owner where
  | owner | user (n : Str) | ownerGroup | group (n : Str) | mask | other
  deriving DecidableEq, Repr

structure Ace where
  flags : Bits
  owner : Owner
  allow : Bool
  perms : Bits
  deriving DecidableEq, Repr

inductive AceErr where
  | notEnough | tooMany | badAccess | badOwner
  deriving DecidableEq, Repr

def showOwner : Owner → Str
  | .owner => "u:".toList
  | .user n => "u:".toList ++ n
  | .ownerGroup => "g:".toList
  | .group n => "g:".toList ++ n
  | .mask => "m:".toList
  | .other => "o:".toList

/-- `impl Display for Ace` -/
def showAce (a : Ace) : Str :=
  showSet flagTable a.flags ++ ':' :: showOwner a.owner ++ ':' ::
    (if a.allow then "allow".toList else "deny".toList) ++ ':' :: showSet permTable a.perms

def parseOwner (kind name : Str) : Except AceErr Owner :=
  if kind = "u".toList ∨ kind = "user".toList then
    .ok (if name = [] then .owner else .user name)
  else if kind = "g".toList ∨ kind = "group".toList then
    .ok (if name = [] then .ownerGroup else .group name)
  else if kind = "m".toList ∨ kind = "mask".toList then .ok .mask
  else if kind = "o".toList ∨ kind = "other".toList then .ok .other
  else .error .badOwner

/-- `impl FromStr for Ace`, errors in the order the iterator-driven parser meets them -/
def parseAce (s : Str) : Except AceErr Ace :=
  match splitOn ':' s with
  | [] => .error .notEnough
  | [_] => .error .notEnough
  | [_, _] => .error .notEnough
  | f :: kind :: name :: rest =>
    match parseOwner kind name with
    | .error e => .error e
    | .ok owner =>
      match rest with
      | [] => .error .notEnough
      | al :: rest =>
        if al ≠ "allow".toList ∧ al ≠ "deny".toList then .error .badAccess
        else match rest with
          | [] => .error .notEnough
          | [pm] => .ok { flags := parseSet flagTable f, owner := owner, allow := al = "allow".toList,
                          perms := parseSet permTable pm }
          | _ :: _ :: _ => .error .tooMany

/-- `AcePlatform` as its string (`""` = General); `impl Display for AceWithPlatform` -/
def showAceP (platform : Option Str) (a : Ace) : Str :=
  platform.getD [] ++ ':' :: showAce a

/-- `impl FromStr for AceWithPlatform`: five separators = a platform prefix is present -/
def parseAceP (s : Str) : Except AceErr (Option Str × Ace) :=
  if (s.filter (· = ':')).length = 5 then
    let p := s.takeWhile (· ≠ ':')
    let r := (s.dropWhile (· ≠ ':')).drop 1
    (parseAce r).map fun a => (some p, a)
  else (parseAce s).map fun a => (none, a)

-- ---------------------------------------------------------------- xattr values

def hexDigitChar (n : Nat) : Char := if n < 10 then Char.ofNat (48 + n) else Char.ofNat (87 + n)

/-- `char::to_digit(16)` -/
def hexVal? (c : Char) : Option Nat :=
  if '0' ≤ c ∧ c ≤ '9' then some (c.toNat - 48)
  else if 'a' ≤ c ∧ c ≤ 'f' then some (c.toNat - 87)
  else if 'A' ≤ c ∧ c ≤ 'F' then some (c.toNat - 55)
  else none

/-- `DisplayHex`: `0x` then `{:02x}` per byte -/
def showHex (bs : Bytes) : Str :=
  '0' :: 'x' :: bs.flatMap fun b => [hexDigitChar (b.toNat / 16), hexDigitChar (b.toNat % 16)]

/-- `u8::from_str_radix(chunk, 16)` on a chunk of one or two chars: an optional leading `+`,
    then at least one hex digit -/
def parseU8Hex (chunk : Str) : Option UInt8 :=
  let digits := match chunk with
    | '+' :: d :: ds => some (d :: ds)
    | ['+'] => none
    | ['-'] => none
    | [] => none
    | ds => some ds
  match digits with
  | none => none
  | some ds =>
    match ds.mapM hexVal? with
    | none => none
    | some vs => some (UInt8.ofNat (vs.foldl (fun acc v => acc * 16 + v) 0))

/-- `chars().chunks(2)` -/
def charChunks2 : Str → List Str
  | [] => []
  | [a] => [[a]]
  | a :: b :: r => [a, b] :: charChunks2 r

def b64Alphabet : List Char :=
  "ABCDEFGHIJKLMNOPQRSTUVWXYZabcdefghijklmnopqrstuvwxyz0123456789+/".toList

def b64Char (n : Nat) : Char := b64Alphabet.getD n 'A'

def b64Val? (c : Char) : Option Nat :=
  if 'A' ≤ c ∧ c ≤ 'Z' then some (c.toNat - 65)
  else if 'a' ≤ c ∧ c ≤ 'z' then some (c.toNat - 71)
  else if '0' ≤ c ∧ c ≤ '9' then some (c.toNat + 4)
  else if c = '+' then some 62
  else if c = '/' then some 63
  else none

/-- `STANDARD.encode` (with padding) -/
def b64Encode : Bytes → Str
  | [] => []
  | [a] => [b64Char (a.toNat / 4), b64Char (a.toNat % 4 * 16), '=', '=']
  | [a, b] => [b64Char (a.toNat / 4), b64Char (a.toNat % 4 * 16 + b.toNat / 16), b64Char (b.toNat % 16 * 4), '=']
  | a :: b :: c :: r =>
    b64Char (a.toNat / 4) :: b64Char (a.toNat % 4 * 16 + b.toNat / 16) ::
      b64Char (b.toNat % 16 * 4 + c.toNat / 64) :: b64Char (c.toNat % 64) :: b64Encode r

/-- `STANDARD.decode`: canonical padding required, no trailing bits -/
def b64Decode : Str → Option Bytes
  | [] => some []
  | [a, b, '=', '='] =>
    match b64Val? a, b64Val? b with
    | some x, some y => if y % 16 = 0 then some [UInt8.ofNat (x * 4 + y / 16)] else none
    | _, _ => none
  | [a, b, c, '='] =>
    match b64Val? a, b64Val? b, b64Val? c with
    | some x, some y, some z =>
      if z % 4 = 0 then some [UInt8.ofNat (x * 4 + y / 16), UInt8.ofNat (y % 16 * 16 + z / 4)] else none
    | _, _, _ => none
  | a :: b :: c :: d :: r =>
    match b64Val? a, b64Val? b, b64Val? c, b64Val? d, b64Decode r with
    | some x, some y, some z, some w, some rest =>
      some (UInt8.ofNat (x * 4 + y / 16) :: UInt8.ofNat (y % 16 * 16 + z / 4) :: UInt8.ofNat (z % 4 * 64 + w) :: rest)
    | _, _, _, _, _ => none
  | _ => none

/-- `DisplayBase64` -/
def showB64 (bs : Bytes) : Str := '0' :: 's' :: b64Encode bs

def utf8 (s : Str) : Bytes := s.flatMap String.utf8EncodeChar

/-- `impl FromStr for Value` -/
def parseValue (s : Str) : Option Bytes :=
  match s with
  | '0' :: 'x' :: r => (charChunks2 r).mapM parseU8Hex
  | '0' :: 's' :: r => b64Decode r
  | _ => some (utf8 s)

end Pna.Cli.Text
