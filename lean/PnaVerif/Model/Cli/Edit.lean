import PnaVerif.Model.Cli.Archive
/-
  Per-command entry transformers (cli/src/command/{delete,strip,chmod,chown,xattr,migrate}.rs).
  Selection (`globset`) is a parameter: `sel : Bytes → Bool` on the entry name.
-/
namespace Pna.Cli

/-- `delete`: selected (and not excluded) entries vanish, all others pass through. -/
def deleteF (sel excl : Bytes → Bool) (e : LEntry) : Option LEntry :=
  if sel e.name && !excl e.name then none else some e

/-- chmod mode clause (`Mode` in chmod.rs). Targets are bit sets u=1,g=2,o=4. -/
inductive Mode where
  | num (m : Nat)
  | equal (target perm : Nat)
  | plus (target perm : Nat)
  | minus (target perm : Nat)
  deriving DecidableEq, Repr

def targetApply (t n : Nat) : Nat :=
  (if t &&& 1 ≠ 0 then n <<< 6 else 0) ||| (if t &&& 2 ≠ 0 then n <<< 3 else 0) ||| (if t &&& 4 ≠ 0 then n else 0)

/-- `Mode::apply_to` on a 16-bit mode. -/
def Mode.applyTo (m : Mode) (x : Nat) : Nat :=
  match m with
  | .num v => v
  | .equal t p =>
    -- after the `fix:`: the bits above the nine permission bits (set-user-ID, set-group-ID, sticky, file type) stay
    (x &&& (0xFFFF - 0o777)) |||
    (if t &&& 1 ≠ 0 then targetApply 1 p else x &&& 0o700) |||
    (if t &&& 2 ≠ 0 then targetApply 2 p else x &&& 0o070) |||
    (if t &&& 4 ≠ 0 then targetApply 4 p else x &&& 0o007)
  | .plus t p => x ||| targetApply t p
  | .minus t p => x &&& (0xFFFF - targetApply t p)   -- `mode & !mask` on u16

/-- `chmod`: only the permission bits of selected entries that *have* a permission change. -/
def chmodF (sel : Bytes → Bool) (m : Mode) (e : LEntry) : Option LEntry :=
  if sel e.name then some { e with mode := e.mode.map m.applyTo } else some e

/-- `chown`: user/group resolved by the system database (oracle: `none` = unknown name, keep). -/
def chownF (sel : Bytes → Bool) (user group : Option (Nat × Bytes)) (e : LEntry) : Option LEntry :=
  if sel e.name then
    some { e with owner := e.owner.map fun o =>
      let (uid, un) := user.getD (o.uid, o.uname)
      let (gid, gn) := group.getD (o.gid, o.gname)
      ⟨uid, un, gid, gn⟩ }
  else some e

/-- `IndexMap` semantics used by `xattr set/remove`: collecting pairs keeps first position,
    last value. -/
def imInsert (m : List (Bytes × Bytes)) (k v : Bytes) : List (Bytes × Bytes) :=
  if m.any (·.1 == k) then m.map (fun p => if p.1 == k then (k, v) else p) else m ++ [(k, v)]

def imCollect (l : List (Bytes × Bytes)) : List (Bytes × Bytes) := l.foldl (fun m p => imInsert m p.1 p.2) []

/-- `xattr set` (after the `fix:` that made it replace an existing value) / `xattr remove`. -/
def xattrF (sel : Bytes → Bool) (set : Option (Bytes × Bytes)) (remove : Option Bytes) (e : LEntry) : Option LEntry :=
  if sel e.name then
    let m := imCollect e.xattrs
    let m := match set with | some (k, v) => imInsert m k v | none => m
    let m := match remove with | some k => m.filter (·.1 != k) | none => m
    some { e with xattrs := m }
  else some e

structure StripOpts where
  keepTimestamp : Bool
  keepPermission : Bool
  keepXattr : Bool
  /-- `none`: drop all private chunks; `some []`: keep all; `some l`: keep these types -/
  keepPrivate : Option (List Bytes)
  keepAcl : Bool

def faCl : Bytes := [102, 97, 67, 108]
def faCe : Bytes := [102, 97, 67, 101]

/-- `strip`: applies to the entries the command line names (to every entry when it names none — the caller then
    passes `fun _ => true`; before the `fix:` the FILES arguments were accepted and ignored); raw size is preserved
    by `with_metadata`. -/
def stripF (sel : Bytes → Bool) (o : StripOpts) (e : LEntry) : Option LEntry :=
  if !sel e.name then some e else
  let keepAll := match o.keepPrivate with | some [] => true | _ => false
  let keepTys := (if o.keepAcl then [faCl, faCe] else []) ++ (o.keepPrivate.getD [])
  some { e with
    mode := if o.keepPermission then e.mode else none
    owner := if o.keepPermission then e.owner else none
    created := if o.keepTimestamp then e.created else none
    modified := if o.keepTimestamp then e.modified else none
    accessed := if o.keepTimestamp then e.accessed else none
    xattrs := if o.keepXattr then e.xattrs else []
    extras := e.extras.filter fun x => keepAll || keepTys.contains x.1 }

end Pna.Cli
