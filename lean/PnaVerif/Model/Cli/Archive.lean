import PnaVerif.Model.Name
/-
  Logical content of an archive as the CLI editing commands see it, and the transform
  framework of cli/src/command/commons.rs (`run_transform_entry`, `TransformStrategyUnSolid`,
  `TransformStrategyKeepSolid`).
-/
namespace Pna.Cli

structure Owner where
  uid : Nat
  uname : Bytes
  gid : Nat
  gname : Bytes
  deriving DecidableEq, Repr, Inhabited

/-- One entry's logical content: everything an editing command may or may not touch. -/
structure LEntry where
  name : Bytes
  kind : Nat
  /-- the stored form and the content: three bytes (codec, cipher, cipher mode of the entry header, as
      ASCII digits) followed by a digest of the content -/
  data : Bytes
  rawSize : Option Nat := none
  mode : Option Nat := none
  owner : Option Owner := none
  created : Option Nat := none
  modified : Option Nat := none
  accessed : Option Nat := none
  xattrs : List (Bytes × Bytes) := []
  extras : List (Bytes × Bytes) := []
  deriving DecidableEq, Repr, Inhabited

/-- A top-level item: a normal entry, or a solid block with its own unknown chunks. -/
inductive Item where
  | normal (e : LEntry)
  | solid (hdr : Bytes) (extras : List (Bytes × Bytes)) (entries : List LEntry)
  deriving Repr, Inhabited

def Item.entries : Item → List LEntry
  | .normal e => [e]
  | .solid _ _ es => es

abbrev Archive := List Item

/-- what the library returns from `entries_with_password` -/
def entriesOf (a : Archive) : List LEntry := a.flatMap Item.entries

/-- An entry of a block with header `h` (major, minor, codec, cipher, mode) written on its own
    (`TransformStrategyUnSolid`, after the `fix:`): the entries of an *encrypted* block are stored in
    the clear inside its stream, so a file entry takes over the block's codec, cipher and mode; its
    content (the rest of `data`) and everything else stay.  The same holds for a symbolic link entry,
    whose content is the link (after the `fix:` that stopped link targets from being written in the
    clear); directories and hard links have nothing to hide and are written as they are. -/
def standalone (h : Bytes) (e : LEntry) : LEntry :=
  if h.getD 3 0 != 0 && (e.kind == 0 || e.kind == 2) then { e with data := [h.getD 2 0 + 48, h.getD 3 0 + 48, h.getD 4 0 + 48] ++ e.data.drop 3 } else e

/-- `--unsolid`: every surviving entry becomes a top-level normal entry. -/
def transformUnsolid (f : LEntry → Option LEntry) (a : Archive) : Archive :=
  a.flatMap fun
    | .normal e => ((f e).map Item.normal).toList
    | .solid h _ es => (es.filterMap f).map fun e => Item.normal (standalone h e)

/-- `--keep-solid`: blocks are rebuilt with the same header options and (after the `fix:`)
    the same unknown chunks; an emptied block is still written. -/
def transformKeepSolid (f : LEntry → Option LEntry) (a : Archive) : Archive :=
  a.filterMap fun
    | .normal e => (f e).map Item.normal
    | .solid h x es => some (.solid h x (es.filterMap f))

inductive Strategy | unsolid | keepSolid
  deriving DecidableEq, Repr

def transform (s : Strategy) (f : LEntry → Option LEntry) (a : Archive) : Archive :=
  match s with
  | .unsolid => transformUnsolid f a
  | .keepSolid => transformKeepSolid f a

end Pna.Cli
