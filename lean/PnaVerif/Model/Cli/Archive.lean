import PnaVerif.Model.Name
/-
  Logical content of an archive as the CLI editing commands see it, and the transform
  framework of cli/src/command/commons.rs (`run_transform_entry`, `TransformStrategyUnSolid`,
  `TransformStrategyKeepSolid`).
-/
namespace Pna.Cli

structure Owner where
  uid : Nat
  uname : Bytes
  gid : Nat
  gname : Bytes
  deriving DecidableEq, Repr, Inhabited

/-- One entry's logical content: everything an editing command may or may not touch. -/
structure LEntry where
  name : Bytes
  kind : Nat
  /-- identity of the (never re-encoded) data chunks: header options + payload digest -/
  data : Bytes
  rawSize : Option Nat := none
  mode : Option Nat := none
  owner : Option Owner := none
  created : Option Nat := none
  modified : Option Nat := none
  accessed : Option Nat := none
  xattrs : List (Bytes × Bytes) := []
  extras : List (Bytes × Bytes) := []
  deriving DecidableEq, Repr, Inhabited

/-- A top-level item: a normal entry, or a solid block with its own unknown chunks. -/
inductive Item where
  | normal (e : LEntry)
  | solid (hdr : Bytes) (extras : List (Bytes × Bytes)) (entries : List LEntry)
  deriving Repr, Inhabited

def Item.entries : Item → List LEntry
  | .normal e => [e]
  | .solid _ _ es => es

abbrev Archive := List Item

/-- what the library returns from `entries_with_password` -/
def entriesOf (a : Archive) : List LEntry := a.flatMap Item.entries

/-- `--unsolid`: every surviving entry becomes a top-level normal entry. -/
def transformUnsolid (f : LEntry → Option LEntry) (a : Archive) : Archive :=
  (entriesOf a).filterMap f |>.map Item.normal

/-- `--keep-solid`: blocks are rebuilt with the same header options and (after the `fix:`)
    the same unknown chunks; an emptied block is still written. -/
def transformKeepSolid (f : LEntry → Option LEntry) (a : Archive) : Archive :=
  a.filterMap fun
    | .normal e => (f e).map Item.normal
    | .solid h x es => some (.solid h x (es.filterMap f))

inductive Strategy | unsolid | keepSolid
  deriving DecidableEq, Repr

def transform (s : Strategy) (f : LEntry → Option LEntry) (a : Archive) : Archive :=
  match s with
  | .unsolid => transformUnsolid f a
  | .keepSolid => transformKeepSolid f a

end Pna.Cli
