import PnaVerif.Model.Bytes
/-
  Multipart file names (cli/src/utils/path.rs `with_part_n` / `remove_part_n`) on path strings
  (`List Char`).  `std::path::Path` semantics are transcribed for *simple* unix paths: components
  separated by single '/', no trailing '/', the last component is the file name.
-/
namespace Pna.Cli.PartName

abbrev Str := List Char

/-- index of the last '.' -/
def lastDot : Str → Option Nat
  | [] => none
  | c :: cs =>
    match lastDot cs with
    | some i => some (i + 1)
    | none => if c = '.' then some 0 else none

/-- `Path::file_stem` / `Path::extension` of a file name: `none` when there is no file name
    (`""`, `".."`); a leading dot alone does not start an extension -/
def splitExt (name : Str) : Option (Str × Option Str) :=
  if name = [] ∨ name = ['.', '.'] then none
  else match lastDot name with
    | none => some (name, none)
    | some 0 => some (name, none)
    | some i => some (name.take i, some (name.drop (i + 1)))

/-- `PathBuf::with_extension(ext)` for a non-empty `ext`, as std implements it: the path is copied
    up to and including the dot of its present extension, then `set_extension` replaces what
    `file_stem` leaves (for a name like `..partN` the copy is `..`, which has no file stem and
    stays as it is) -/
def withExtension (s ext : Str) : Str :=
  let t := match splitExt s with
    | some (_, some e) => s.take (s.length - e.length)
    | _ => s
  match splitExt t with
  | none => t
  | some (st, _) => st ++ '.' :: ext

def lower (c : Char) : Char := if 'A' ≤ c ∧ c ≤ 'Z' then Char.ofNat (c.toNat + 32) else c

def isDigit (c : Char) : Bool := '0' ≤ c && c ≤ '9'

/-- decimal digits of `n` (`format!("{n}")`) -/
def decimal (n : Nat) : Str := (Nat.toDigits 10 n)

def partPrefix : Str := ['p', 'a', 'r', 't']

/-- `e.strip_prefix("part").is_some_and(|d| !d.is_empty() && d.bytes().all(|b| b.is_ascii_digit()))` -/
def isPartMarker (e : Str) : Bool :=
  partPrefix.isPrefixOf e && !(e.drop 4).isEmpty && (e.drop 4).all isDigit

/-- the inner `with_ext` on the file name (after the `fix:` that stopped a foreign extension from
    being replaced): `.pna` names get `.partN` before the extension, an existing `.partN` marker is
    replaced, anything else is kept whole and `.partN` is appended -/
def withExt (name : Str) (n : Nat) : Option Str :=
  match splitExt name with
  | none => none
  | some (_, none) => some (name ++ '.' :: partPrefix ++ decimal n)
  | some (stem, some e) =>
    if e.map lower = ['p', 'n', 'a'] then
      let marker := match splitExt stem with
        | some (_, some e2) => isPartMarker e2
        | _ => false
      if marker then
        match splitExt stem with
        | some (base, _) => some (base ++ '.' :: partPrefix ++ decimal n ++ '.' :: e)
        | none => none
      else some (stem ++ '.' :: partPrefix ++ decimal n ++ '.' :: e)
    else if isPartMarker e then some (stem ++ '.' :: partPrefix ++ decimal n)
    else some (name ++ '.' :: partPrefix ++ decimal n)

/-- split a simple path at its last '/': (parent with the slash, file name) -/
def splitPath (p : Str) : Str × Str :=
  let r := p.reverse
  let name := (r.takeWhile (· ≠ '/')).reverse
  (p.take (p.length - name.length), name)

/-- `with_part_n` -/
def withPart (p : Str) (n : Nat) : Option Str :=
  let (dir, name) := splitPath p
  (withExt name n).map (dir ++ ·)

/-- the inner logic of `remove_part_n` on the file name (after the `fix:` that made it test for a real
    `.partN` marker — digits — like `with_part_n`, instead of any extension starting with "part") -/
def removeExt (name : Str) : Option Str :=
  match splitExt name with
  | none => none
  | some (_, none) => some name
  | some (stem, some e) =>
    if isPartMarker e then some stem
    else match splitExt stem with
      | some (_, some may) => if isPartMarker may then some (withExtension stem e) else some name
      | _ => some name

/-- `remove_part_n` -/
def removePart (p : Str) : Option Str :=
  let (dir, name) := splitPath p
  (removeExt name).map (dir ++ ·)

end Pna.Cli.PartName
