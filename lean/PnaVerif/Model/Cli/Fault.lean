/-
  In-place commands under a failing step (cli/src/command/append.rs, commons.rs run_transform_entry,
  update.rs): what is on disk at the archive path and in the temp directory when the k-th processed
  item fails.  Entries are abstract identities; a file is its entry list plus "is the end marker there".

  * `appendCmd`     — `pna append` after the `fix:` (build every entry, then write): the archive file is
                      opened read-write, positioned on its end marker; nothing is written before all
                      inputs have been built.
  * `appendLegacy`  — the behaviour before the fix (write as entries arrive), kept to show that the
                      property statement discriminates.
  * `rewriteCmd`    — delete / strip / chmod / chown / xattr / acl / migrate / update: a fresh temp file
                      receives header + processed entries, `finalize()`, then `mv` over the archive path.
-/
namespace Pna.Cli.Fault

structure AFile where
  items : List Nat
  terminated : Bool
  deriving DecidableEq, Repr

structure World where
  archive : AFile
  temps : List AFile := []
  deriving DecidableEq, Repr

/-- all inputs built, in order; `none` as soon as one fails (`collect::<io::Result<Vec<_>>>()?`) -/
def buildAll : List (Option Nat) → Option (List Nat)
  | [] => some []
  | none :: _ => none
  | some x :: r => (buildAll r).map (x :: ·)

/-- `add_entry` on an archive positioned at its end marker: the marker is overwritten -/
def addEntry (a : AFile) (x : Nat) : AFile := { items := a.items ++ [x], terminated := false }

def appendCmd (w : World) (inputs : List (Option Nat)) : World × Bool :=
  -- reading up to the end marker fails on an unterminated archive
  if !w.archive.terminated then (w, false)
  else match buildAll inputs with
    | none => (w, false)
    | some built =>
      let a := built.foldl addEntry w.archive
      ({ w with archive := { a with terminated := true } }, true)

def appendLegacyGo (a : AFile) : List (Option Nat) → AFile × Bool
  | [] => ({ a with terminated := true }, true)
  | none :: _ => (a, false)
  | some x :: r => appendLegacyGo (addEntry a x) r

def appendLegacy (w : World) (inputs : List (Option Nat)) : World × Bool :=
  if !w.archive.terminated then (w, false)
  else let (a, ok) := appendLegacyGo w.archive inputs; ({ w with archive := a }, ok)

/-- the rewrite loop: `f x = none` — processing entry `x` fails (corrupt, wrong password);
    `some ys` — the entries written for it (dropped = `[]`, kept or replaced = `[y]`, unsolid = many) -/
def rewriteGo (f : Nat → Option (List Nat)) (temp : AFile) : List Nat → AFile × Bool
  | [] => (temp, true)
  | x :: r =>
    match f x with
    | none => (temp, false)
    | some ys => rewriteGo f { temp with items := temp.items ++ ys } r

/-- `extra`: entries added after the existing ones (update), each may fail to build -/
def rewriteCmd (w : World) (f : Nat → Option (List Nat)) (extra : List (Option Nat)) : World × Bool :=
  let temp0 : AFile := ⟨[], false⟩
  if !w.archive.terminated then ({ w with temps := temp0 :: w.temps }, false)
  else
    match rewriteGo f temp0 w.archive.items with
    | (temp, false) => ({ w with temps := temp :: w.temps }, false)
    | (temp, true) =>
      match buildAll extra with
      | none => ({ w with temps := temp :: w.temps }, false)
      | some built =>
        -- finalize(), then rename over the archive path: the temp file is gone, the archive is the new file
        ({ w with archive := { items := temp.items ++ built, terminated := true } }, true)

/-- C12's "intact": exactly as it was, or a valid archive that still contains all original entries -/
def Intact (before after : AFile) : Prop :=
  after = before ∨ (after.terminated = true ∧ ∀ x ∈ before.items, x ∈ after.items)

instance (a b : AFile) : Decidable (Intact a b) := by unfold Intact; exact inferInstance

end Pna.Cli.Fault
