import PnaVerif.Model.Archive
/-
  `pna concat OUT IN…` (cli/src/command/concat.rs): every input is the first part of an archive; its raw entries
  (`raw_entries()`, no decoding) are added to a fresh archive with `add_entry`, following the ANXT chain with
  `run_across_archive` (cli/src/command/commons.rs): after the entries of a part, `has_next_archive()` decides
  whether the next part file is opened (`read_next_archive`, which carries the unfinished item and checks the part
  number).  `Archive::write_header` writes the signature and AHED(0, 0, 0); `finalize` writes AEND.
-/
namespace Pna.Cli
open Pna

/-- raw items of one input: `parts` are the part files the provider finds, in order.  A set ANXT flag with no further
    part file is `NotFound`; part files after a part without the flag are never opened. -/
def rawAcross : (first : Bool) → (prevNumber : Nat) → (carry : List Chunk) → List Bytes → List (List Chunk) × Outcome Unit
  | _, _, _, [] => ([], .error .notFound)
  | first, pn, carry, p :: ps =>
    let r := readArchiveWith chunksStream carry p
    match r.header with
    | none => ([], r.status)
    | some h =>
      if !first ∧ pn + 1 ≠ h.number then ([], .error .invalidData)
      else
        match (chunksStream p).2 with
        | .ok _ =>
          if r.next then
            let (is, o) := rawAcross false h.number r.carry ps
            (r.rawItems ++ is, o)
          else (r.rawItems, .ok ())
        | o => (r.rawItems, o)

/-- the bytes `write_header`, `add_entry` (raw) …, `finalize` produce -/
def writeRaw (items : List (List Chunk)) : Bytes :=
  signature ++ (Chunk.mk ChunkType.AHED (encAHED ⟨0, 0, 0⟩)).encode ++ items.flatten.flatMap Chunk.encode
    ++ (Chunk.mk ChunkType.AEND []).encode

/-- all inputs in order; the first failing input fails the command -/
def concatItems : List (List Bytes) → Outcome (List (List Chunk))
  | [] => .ok []
  | inp :: rest =>
    match rawAcross true 0 [] inp with
    | (is, .ok _) =>
      match concatItems rest with
      | .ok js => .ok (is ++ js)
      | o => o
    | (_, .error e) => .error e
    | (_, .panic s) => .panic s

/-- `pna concat`: the output file, or the error -/
def concat (inputs : List (List Bytes)) : Outcome Bytes :=
  match concatItems inputs with
  | .ok items => .ok (writeRaw items)
  | .error e => .error e
  | .panic s => .panic s

end Pna.Cli
