import PnaVerif.Model.Cli.Edit
import PnaVerif.Model.Cli.Acl
import PnaVerif.Model.Canon
import PnaVerif.Model.Cli.Update
import PnaVerif.Model.Cli.List
import PnaVerif.Model.Cli.Extract
import PnaVerif.Model.Cli.Create
/- Wire format of logical archives for the driver protocol (mirror of harness/src/cli.rs). -/
namespace Pna.Cli.Wire
open Pna Pna.Cli

def optNat? (s : String) : Option (Option Nat) :=
  if s == "-" then some none else s.toNat?.map some

def pairs? (s : String) : Option (List (Bytes × Bytes)) :=
  if s == "." then some [] else
    (s.splitOn "&").mapM fun kv =>
      match kv.splitOn "=" with
      | [k, v] => do let k ← ofHex k; let v ← ofHex v; pure (k, v)
      | _ => none

def owner? (s : String) : Option (Option Owner) :=
  if s == "-" then some none else
    match s.splitOn "/" with
    | [u, un, g, gn] => do
      let u ← u.toNat?; let un ← ofHex un; let g ← g.toNat?; let gn ← ofHex gn
      pure (some ⟨u, un, g, gn⟩)
    | _ => none

def lentry? (s : String) : Option LEntry :=
  match s.splitOn "," with
  | [name, kind, data, rs, mode, owner, c, m, a, xs, ex] => do
    let name ← ofHex name; let kind ← kind.toNat?; let data ← ofHex data
    let rs ← optNat? rs; let mode ← optNat? mode; let owner ← owner? owner
    let c ← optNat? c; let m ← optNat? m; let a ← optNat? a
    let xs ← pairs? xs; let ex ← pairs? ex
    pure { name, kind, data, rawSize := rs, mode, owner, created := c, modified := m, accessed := a, xattrs := xs, extras := ex }
  | _ => none

def item? (s : String) : Option Item :=
  if s.startsWith "N" then (lentry? (s.drop 1).toString).map Item.normal
  else if s.startsWith "S" then
    match (s.drop 1).toString.splitOn "~" with
    | [h, ex, es] => do
      let h ← ofHex h
      let ex ← pairs? ex
      let es ← if es == "." then some [] else (es.splitOn "+").mapM lentry?
      pure (.solid h ex es)
    | _ => none
  else none

def items? (s : String) : Option Archive :=
  if s == "." then some [] else (s.splitOn ";").mapM item?

def optNatS : Option Nat → String
  | none => "-"
  | some n => toString n

def pairsS (hexKey : Bool) (l : List (Bytes × Bytes)) : String :=
  if l.isEmpty then "." else
    "&".intercalate (l.map fun (k, v) => (if hexKey then toHex k else toHexW k) ++ "=" ++ toHexW v)

def ownerS : Option Owner → String
  | none => "-"
  | some o => s!"{o.uid}/{toHexW o.uname}/{o.gid}/{toHexW o.gname}"

def lentryS (e : LEntry) : String :=
  ",".intercalate [toHexW e.name, toString e.kind, toHexW e.data, optNatS e.rawSize, optNatS e.mode, ownerS e.owner,
    optNatS e.created, optNatS e.modified, optNatS e.accessed, pairsS false e.xattrs, pairsS true e.extras]

def itemS : Item → String
  | .normal e => "N" ++ lentryS e
  | .solid h ex es => "S" ++ toHex h ++ "~" ++ pairsS true ex ++ "~" ++ (if es.isEmpty then "." else "+".intercalate (es.map lentryS))

def itemsS (a : Archive) : String := if a.isEmpty then "." else ";".intercalate (a.map itemS)

/-- selection by a list of names (the `globset` oracle answer) -/
def names? (s : String) : Option (List Bytes) :=
  if s == "." then some [] else (s.splitOn ",").mapM ofHex

def selOf (l : List Bytes) : Bytes → Bool := fun n => l.contains n

def mode? (s : String) : Option Mode :=
  match s.splitOn ":" with
  | ["num", v] => v.toNat?.map Mode.num
  | ["eq", t, p] => do let t ← t.toNat?; let p ← p.toNat?; pure (.equal t p)
  | ["plus", t, p] => do let t ← t.toNat?; let p ← p.toNat?; pure (.plus t p)
  | ["minus", t, p] => do let t ← t.toNat?; let p ← p.toNat?; pure (.minus t p)
  | _ => none

def idName? (s : String) : Option (Option (Nat × Bytes)) :=
  if s == "-" then some none else
    match s.splitOn "/" with
    | [u, n] => do let u ← u.toNat?; let n ← ofHex n; pure (some (u, n))
    | _ => none

def strategy? (s : String) : Option Strategy :=
  if s == "unsolid" then some .unsolid else if s == "keep-solid" then some .keepSolid else none

/-- `transform <strategy> <cmd> <args…> <items>` -/
def handleTransform (toks : List String) : String :=
  match toks with
  | [st, "delete", sel, excl, items] =>
    match strategy? st, names? sel, names? excl, items? items with
    | some st, some sel, some excl, some a => "ok " ++ itemsS (transform st (deleteF (selOf sel) (selOf excl)) a)
    | _, _, _, _ => "bad-op"
  | [st, "chmod", mode, sel, items] =>
    match strategy? st, mode? mode, names? sel, items? items with
    | some st, some m, some sel, some a => "ok " ++ itemsS (transform st (chmodF (selOf sel) m) a)
    | _, _, _, _ => "bad-op"
  | [st, "chown", user, group, sel, items] =>
    match strategy? st, idName? user, idName? group, names? sel, items? items with
    | some st, some u, some g, some sel, some a => "ok " ++ itemsS (transform st (chownF (selOf sel) u g) a)
    | _, _, _, _, _ => "bad-op"
  | [st, "xattr", set, remove, sel, items] =>
    let set? : Option (Option (Bytes × Bytes)) :=
      if set == "-" then some none else
        match set.splitOn "=" with
        | [k, v] => do let k ← ofHex k; let v ← ofHex v; pure (some (k, v))
        | _ => none
    let rm? : Option (Option Bytes) := if remove == "-" then some none else (ofHex remove).map some
    match strategy? st, set?, rm?, names? sel, items? items with
    | some st, some set, some rm, some sel, some a => "ok " ++ itemsS (transform st (xattrF (selOf sel) set rm) a)
    | _, _, _, _, _ => "bad-op"
  | [st, "aclset", modify, remove, sel, items] =>
    -- an argument on the wire: `-` (absent) or `<default 0|1>:<owner kind 0..5>:<owner name hex>:<text after the owner, hex | ->`
    let arg? : String → Option (Option AclArg) := fun t =>
      if t == "-" then some none else
        match t.splitOn ":" with
        | [d, k, n, p] =>
          match k.toNat?, ofHex n, (if p == "-" then some none else (ofHex p).map some) with
          | some k, some n, some p =>
            match decodeUtf8 n, (match p with | none => some none | some b => (decodeUtf8 b).map some) with
            | some n, some p =>
              let owner : Text.Owner := match k with
                | 0 => .owner | 1 => .user n | 2 => .ownerGroup | 3 => .group n | 4 => .mask | _ => .other
              some (some ⟨d == "1", owner, p⟩)
            | _, _ => none
          | _, _, _ => none
        | _ => none
    match strategy? st, arg? modify, arg? remove, names? sel, items? items with
    | some st, some m, some r, some sel, some a => "ok " ++ itemsS (transform st (aclSetF (selOf sel) m r) a)
    | _, _, _, _, _ => "bad-op"
  | [st, "migrate", items] =>
    match strategy? st, items? items with
    | some st, some a =>
      if (entriesOf a).all (fun e => (migrateE e).isSome) then "ok " ++ itemsS (transform st migrateF a) else "err"
    | _, _ => "bad-op"
  | [st, "strip", flags, kp, sel, items] =>
    let kp? : Option (Option (List Bytes)) :=
      if kp == "-" then some none else if kp == "." then some (some []) else ((kp.splitOn ",").mapM ofHex).map some
    -- `*`: no FILES argument (every entry); otherwise the names the patterns select
    let sel? : Option (Bytes → Bool) := if sel == "*" then some (fun _ => true) else (names? sel).map selOf
    match strategy? st, flags.toList, kp?, sel?, items? items with
    | some st, [kt, kpm, kx, ka], some kp, some sel, some a =>
      "ok " ++ itemsS (transform st (stripF sel ⟨kt == '1', kpm == '1', kx == '1', kp, ka == '1'⟩) a)
    | _, _, _, _, _ => "bad-op"
  | _ => "bad-op"

/-- `name:body,name:body,…` -/
def uentries? (s : String) : Option (List UEntry) :=
  if s == "." then some [] else
    (s.splitOn ",").mapM fun t =>
      match t.splitOn ":" with
      | [n, b] => do let n ← ofHex n; let b ← ofHex b; pure ⟨n, b⟩
      | _ => none

def uentriesS (l : List UEntry) : String :=
  if l.isEmpty then "." else ",".intercalate (l.map fun e => toHexW e.name ++ ":" ++ toHexW e.body)

/-- `history append <archive> <targets>` | `history update <excl names> <need names> <archive> <targets>`
    | `history delete <sel names> <archive>` -/
def handleHistory (toks : List String) : String :=
  match toks with
  | ["append", a, ts] =>
    match uentries? a, uentries? ts with
    | some a, some ts => "ok " ++ uentriesS (appendOp a ts)
    | _, _ => "bad-op"
  | ["update", excl, need, a, ts] =>
    match names? excl, names? need, uentries? a, uentries? ts with
    | some excl, some need, some a, some ts =>
      "ok " ++ uentriesS (updateOp (selOf excl) (fun e => need.contains e.name) a ts)
    | _, _, _, _ => "bad-op"
  | ["delete", sel, a] =>
    match names? sel, uentries? a with
    | some sel, some a => "ok " ++ uentriesS (deleteOp (selOf sel) a)
    | _, _ => "bad-op"
  | _ => "bad-op"

def rows? (s : String) : Option (List (Bool × Row)) :=
  if s == "." then some [] else
    (s.splitOn ";").mapM fun t =>
      match t.splitOn "," with
      | [sf, n, k, tg, rs, cs] => do
        let n ← ofHex n; let k ← k.toNat?; let tg ← ofHex tg; let rs ← optNat? rs; let cs ← cs.toNat?
        pure (sf == "1", ⟨n, k, tg, rs, cs⟩)
      | _ => none

/-- `list <fmt> <solid> <classify> <sel names | *> <rows>` -/
def handleList (toks : List String) : String :=
  match toks with
  | [fmt, solid, classify, sel, rows] =>
    let sel? : Option (Bytes → Bool) := if sel == "*" then some (fun _ => true) else (names? sel).map selOf
    match sel?, rows? rows with
    | some sel, some rs =>
      let all := listRows (solid == "1") (fun _ => true) rs
      let shown := listRows (solid == "1") sel rs
      if all.isEmpty then "ok -" else
      if fmt == "plain" then "ok " ++ toHexW (plainOut (classify == "1") shown)
      else if fmt == "tree" then "ok " ++ toHexW (treeOut (classify == "1") shown)
      else if fmt == "jsonl" then
        "ok " ++ (if shown.isEmpty then "." else ";".intercalate (shown.map fun r =>
          s!"{toHexW r.name}|{toHex [kindChar r.kind]}|{(r.rawSize.getD 0)}|{r.compressedSize}"))
      else "bad-op"
    | _, _ => "bad-op"
  | _ => "bad-op"

open Pna.Fs in
/-- initial file system: `D<abs path hex>` | `F<path>=<content>` | `L<path>=<target>`, `;`-separated -/
def fs? (s : String) : Option Fs :=
  let toks := if s == "." then [] else s.splitOn ";"
  toks.foldlM (fun (fs : Fs) t =>
    let body := (t.drop 1).toString
    if t.startsWith "D" then do
      let p ← ofHex body
      pure (fs.setNode (comps p) .dir)
    else match body.splitOn "=" with
      | [p, v] => do
        let p ← ofHex p; let v ← ofHex v
        if t.startsWith "F" then
          let ino := fs.nextIno
          pure { (fs.setNode (comps p) (.file ino)).setContent ino v with nextIno := ino + 1 }
        else if t.startsWith "L" then pure (fs.setNode (comps p) (.link v))
        else none
      | _ => none) ⟨[], [], 1⟩

open Pna.Fs in
/-- canonical dump of everything below `root`: sorted by path; files print their content and the
    smallest path sharing their inode (hard-link group) -/
def fsDump (fs : Fs) (root : Fs.Path) : String :=
  let below := fs.nodes.filter fun (p, _) => root.isPrefixOf p && p != root
  let rel := fun (p : Fs.Path) => joinSlash (p.drop root.length)
  let sorted := below.toArray.qsort (fun a b => bytesLt (rel a.1) (rel b.1)) |>.toList
  let groupOf := fun (ino : Nat) =>
    let members := (below.filter fun (_, n) => n == .file ino).map (fun q => rel q.1)
    members.foldl (fun m x => if bytesLt x m then x else m) (members.headD [])
  let items := sorted.map fun (p, n) =>
    match n with
    | .dir => "D" ++ toHexW (rel p)
    | .link t => "L" ++ toHexW (rel p) ++ "=" ++ toHexW t
    | .file ino => "F" ++ toHexW (rel p) ++ "=" ++ toHexW (fs.content ino) ++ "@" ++ toHexW (groupOf ino)
  if items.isEmpty then "." else ";".intercalate items

def xentries? (s : String) : Option (List XEntry) :=
  if s == "." then some [] else
    (s.splitOn ";").mapM fun t =>
      match t.splitOn "," with
      | [n, k, c] => do let n ← ofHex n; let k ← k.toNat?; let c ← ofHex c; pure ⟨n, k, c⟩
      | _ => none

/-- `extract <overwrite> <cwd hex> <outdir hex> <fs> <entries>` -/
def handleExtract (toks : List String) : String :=
  match toks with
  | [ow, cwd, out, fs, es, dumpRoot] =>
    -- extraction into the current directory (`out` may be empty); the post-state is dumped below `dumpRoot`
    match ofHex cwd, ofHex out, fs? fs, xentries? es, ofHex dumpRoot with
    | some cwd, some out, some fs, some es, some dr =>
      let (fs', err) := extractAll (ow == "1") (Fs.comps cwd) out fs es
      (match err with | none => "ok" | some _ => "err") ++ " " ++ fsDump fs' (Fs.comps dr)
    | _, _, _, _, _ => "bad-op"
  | [ow, cwd, out, fs, es] =>
    match ofHex cwd, ofHex out, fs? fs, xentries? es with
    | some cwd, some out, some fs, some es =>
      let cwdP := Fs.comps cwd
      let (fs', err) := extractAll (ow == "1") cwdP out fs es
      let res := match err with
        | none => "ok"
        | some _ => "err"
      res ++ " " ++ fsDump fs' cwdP
    | _, _, _, _ => "bad-op"
  | _ => "bad-op"

def tnodes? (s : String) : Option (List TNode) :=
  if s == "." then some [] else
    (s.splitOn ";").mapM fun t =>
      match t.splitOn "," with
      | [p, k, c, m, mt] => do
        let p ← ofHex p; let k ← k.toNat?; let c ← ofHex c; let m ← m.toNat?; let mt ← mt.toNat?
        pure ⟨p, k, c, m, mt⟩
      | _ => none

/-- `tree.expected <keepDir><ktC><kpC><ktX><kpX> <nodes>` → sorted expected nodes -/
def handleTree (toks : List String) : String :=
  match toks with
  | [flags, nodes] =>
    match flags.toList, tnodes? nodes with
    | [kd, ktc, kpc, ktx, kpx], some t =>
      let xs := expectedTree ⟨kd == '1', ktc == '1', kpc == '1', ktx == '1', kpx == '1'⟩ t
      let sorted := xs.toArray.qsort (fun a b => bytesLt a.path b.path) |>.toList
      if sorted.isEmpty then "ok ." else
      "ok " ++ ";".intercalate (sorted.map fun x =>
        s!"{toHexW x.path},{x.kind},{Canon.digest x.content},{optNatS x.mode},{optNatS x.mtime}")
    | _, _ => "bad-op"
  | _ => "bad-op"

/-- `tree.composed <flags> <nodes>`: the expected tree (the specification of create + extract) against the
    composition of the two transcriptions — the entries `create` archives (walk order: parents first), run
    through `extractAll` on an empty output directory of the abstract file system.  Answers `ok agree`, or
    what differs. -/
def handleTreeComposed (toks : List String) : String :=
  match toks with
  | [flags, nodes] =>
    match flags.toList, tnodes? nodes with
    | [kd, ktc, kpc, ktx, kpx], some t =>
      let o : CXOpts := ⟨kd == '1', ktc == '1', kpc == '1', ktx == '1', kpx == '1'⟩
      let walk := t.toArray.qsort (fun a b => bytesLt a.path b.path) |>.toList
      let es : List XEntry := (archived o walk).map fun n => ⟨sanitize n.path, n.kind, if n.kind = 1 then [] else n.content⟩
      let r : Bytes := [114]
      let out : Bytes := [111, 117, 116]
      let fs0 : Fs.Fs := ⟨[([r], .dir), ([r, out], .dir)], [], 1⟩
      let (fs', err) := extractAll false [r] out fs0 es
      let got := (fs'.nodes.filter fun (p, _) => [r, out].isPrefixOf p && p != [r, out]).map fun (p, n) =>
        let rel := joinSlash (p.drop 2)
        match n with
        | .dir => (rel, 1, ([] : Bytes))
        | .link tg => (rel, 2, tg)
        | .file ino => (rel, 0, fs'.content ino)
      let want := (expectedTree o t).map fun x => (x.path, x.kind, x.content)
      let srt := fun (l : List (Bytes × Nat × Bytes)) => l.toArray.qsort (fun a b => bytesLt a.1 b.1) |>.toList
      if err.isSome then "ok differ extraction-error"
      else if srt got == srt want then "ok agree"
      else s!"ok differ composed={(srt got).length} expected={(srt want).length}"
    | _, _ => "bad-op"
  | _ => "bad-op"

end Pna.Cli.Wire
