import PnaVerif.Model.Name
/-
  `pna create` followed by `pna extract` at the level of directory trees
  (cli/src/command/{create,commons,extract}.rs): which objects are archived (`collect_items`
  after the `fix:` that keeps all symbolic links), what is recorded for each (`create_entry`,
  `apply_metadata`), and what extraction restores.
-/
namespace Pna.Cli

structure TNode where
  path : Bytes           -- relative path as walked (e.g. `t/dir/a.txt`), already free of `.`/`..`
  kind : Nat             -- 0 regular file, 1 directory, 2 symbolic link
  content : Bytes        -- file bytes, or link target
  mode : Nat
  mtime : Nat            -- whole seconds
  deriving DecidableEq, Repr, Inhabited

structure CXOpts where
  keepDir : Bool
  keepTimestampC : Bool   -- on create
  keepPermissionC : Bool
  keepTimestampX : Bool   -- on extract
  keepPermissionX : Bool
  deriving Repr

/-- `collect_items`: regular files and symbolic links always, directories only with `--keep-dir`. -/
def archived (o : CXOpts) (t : List TNode) : List TNode := t.filter fun n => o.keepDir || n.kind != 1

/-- proper ancestors of a path: `a/b/c` ↦ [`a`, `a/b`] -/
def ancestors (p : Bytes) : List Bytes :=
  let cs := splitSlash p
  (List.range (cs.length - 1)).map fun i => joinSlash (cs.take (i + 1))

/-- what one expects to find after extraction into an empty directory -/
structure XNode where
  path : Bytes
  kind : Nat
  content : Bytes
  mode : Option Nat      -- `some` iff restored (so comparable)
  mtime : Option Nat
  deriving DecidableEq, Repr, Inhabited

def restoredNode (o : CXOpts) (n : TNode) : XNode :=
  { path := sanitize n.path, kind := n.kind, content := if n.kind = 1 then [] else n.content,
    mode := if o.keepPermissionC && o.keepPermissionX && n.kind != 2 then some n.mode else none,
    mtime := if o.keepTimestampC && o.keepTimestampX && n.kind = 0 then some n.mtime else none }

/-- directories created on demand for extracted objects (`create_dir_all(parent)`) -/
def impliedDirs (xs : List XNode) : List XNode :=
  let dirs := (xs.flatMap fun x => ancestors x.path).eraseDups
  (dirs.filter fun d => !(xs.any fun x => x.path == d)).map fun d => ⟨d, 1, [], none, none⟩

/-- **expected tree** after `create` + `extract` -/
def expectedTree (o : CXOpts) (t : List TNode) : List XNode :=
  let xs := (archived o t).map (restoredNode o)
  xs ++ impliedDirs xs

end Pna.Cli
