import PnaVerif.Model.Fs
/-
  `pna extract` (cli/src/command/extract.rs): `extract_entry` transcribed over the abstract file
  system, and `run_extract_archive_reader`'s order (hard links last).
-/
namespace Pna.Cli
open Pna.Fs

structure XEntry where
  name : Bytes       -- sanitised entry name (may be empty)
  kind : Nat         -- 0 file, 1 dir, 2 symlink, 3 hardlink
  content : Bytes    -- file bytes, or link target / hard-link source
  deriving DecidableEq, Repr, Inhabited

inductive XErr | alreadyExists | outside | invalidInput | fs (e : FsErr)
  deriving DecidableEq, Repr

def liftFs : Except FsErr Fs → Except XErr Fs
  | .ok f => .ok f
  | .error e => .error (.fs e)

/-- `Path::join` on strings: an absolute right side replaces the left. -/
def joinP (a b : Bytes) : Bytes :=
  if isAbs b then b else if b = [] then a else if a = [] then b else a ++ [slash] ++ b

/-- `Path::parent` on a relative/absolute path string (lexical). -/
def parentP (s : Bytes) : Option Bytes :=
  match (splitSlash s).filter (· ≠ []) with
  | [] => none
  | cs => some ((if isAbs s then [slash] else []) ++ joinSlash cs.dropLast)

def step (r : Fs × Option XErr) (f : Fs → Except FsErr Fs) : Fs × Option XErr :=
  match r with
  | (fs, some e) => (fs, some e)
  | (fs, none) =>
    match f fs with
    | .ok fs' => (fs', none)
    | .error e => (fs, some (.fs e))

/-- `p.symlink_metadata().is_ok_and(|m| m.file_type().is_symlink())` -/
def isLinkAt (fs : Fs) (cwd : Path) (s : Bytes) : Bool :=
  match resolve fs false (fuelFor fs) (if isAbs s then [] else cwd) (comps s) with
  | some p => match fs.lookup p with
    | some (.link _) => true
    | _ => false
  | none => false

/-- the loop of `ensure_confined`: `walked` are the components below `base` so far -/
def confinedGo (fs : Fs) (cwd : Path) (base : Bytes) : List Bytes → List Bytes → Bool
  | _, [] => true
  | walked, c :: rest =>
    if c = [dot, dot] then
      if walked = [] then false else confinedGo fs cwd base walked.dropLast rest
    else
      let w := walked ++ [c]
      if isLinkAt fs cwd (joinP base (joinSlash w)) then false else confinedGo fs cwd base w rest

/-- `ensure_confined(base, rel)` (the `fix:` for C09): `rel` is relative, does not climb above
    `base`, and no component on the way is a symbolic link -/
def confined (fs : Fs) (cwd : Path) (base rel : Bytes) : Bool :=
  if isAbs rel then false else confinedGo fs cwd base [] (comps rel)

/-- `Path::file_name().is_none()`: empty, or ending in `..` -/
def noFileName (s : Bytes) : Bool :=
  match (comps s).getLast? with
  | none => true
  | some c => c == [dot, dot]

/-- `extract_entry`; effects performed before a failure stay performed. -/
def extractEntry (overwrite : Bool) (cwd : Path) (outDir : Bytes) (fs : Fs) (e : XEntry) : Fs × Option XErr :=
  let path := joinP outDir e.name
  let parentRel := (parentP e.name).getD []
  if !confined fs cwd outDir parentRel then (fs, some .outside)
  else
    let isLink := isLinkAt fs cwd path
    if (fs.existsP cwd path || isLink) && !overwrite then (fs, some .alreadyExists)
    else
      let parent := parentP path
      let r : Fs × Option XErr := (fs, none)
      let r := match parent with
        | some p => step r (fun fs => fs.createDirAll cwd p)
        | none => r
      match e.kind with
      | 0 =>
        let r := step r (fun fs => if isLink then fs.remove cwd path else .ok fs)
        step r (fun fs => fs.createFile cwd path e.content)
      | 1 =>
        let r := step r (fun fs => if isLink then fs.remove cwd path else .ok fs)
        step r (fun fs => fs.createDirAll cwd path)
      | 2 =>
        let r := step r (fun fs => if overwrite && (fs.existsP cwd path || isLink) then fs.remove cwd path else .ok fs)
        step r (fun fs => fs.symlink cwd e.content path)
      | _ =>
        match r with
        | (fs1, some x) => (fs1, some x)
        | (fs1, none) =>
          let source := joinP parentRel e.content
          if !confined fs1 cwd outDir ((parentP source).getD []) then (fs1, some .outside)
          else if noFileName source then (fs1, some .invalidInput)
          else
            let original := joinP outDir source
            let r := step (fs1, none) (fun fs => if overwrite && (fs.existsP cwd path || isLink) then fs.remove cwd path else .ok fs)
            step r (fun fs => fs.hardLink cwd original path)

/-- `extract_entry` before the fix (kept to show that the statement of C09 discriminates) -/
def extractEntryLegacy (overwrite : Bool) (cwd : Path) (outDir : Bytes) (fs : Fs) (e : XEntry) : Fs × Option XErr :=
  let path := joinP outDir e.name
  if fs.existsP cwd path && !overwrite then (fs, some .alreadyExists)
  else
    let parent := parentP path
    let r : Fs × Option XErr := (fs, none)
    let r := match parent with
      | some p => step r (fun fs => fs.createDirAll cwd p)
      | none => r
    match e.kind with
    | 0 => step r (fun fs => fs.createFile cwd path e.content)
    | 1 => step r (fun fs => fs.createDirAll cwd path)
    | 2 =>
      let r := step r (fun fs => if overwrite && fs.existsP cwd path then fs.remove cwd path else .ok fs)
      step r (fun fs => fs.symlink cwd e.content path)
    | _ =>
      let original := match parent with | some p => joinP p e.content | none => e.content
      let r := step r (fun fs => if overwrite && fs.existsP cwd path then fs.remove cwd path else .ok fs)
      step r (fun fs => fs.hardLink cwd original path)

/-- `run_extract_archive_reader`: every non-hard-link entry is attempted in archive order (a
    failing entry does not stop the following ones: results are only inspected after the scan);
    if any of them failed the first error is returned and hard links are not processed;
    otherwise hard links are created in order, stopping at the first failure. -/
def extractAllWith (one : Fs → XEntry → Fs × Option XErr) (fs : Fs) (es : List XEntry) : Fs × Option XErr :=
  let rec scan (fs : Fs) (err : Option XErr) : List XEntry → Fs × Option XErr
    | [] => (fs, err)
    | e :: rest =>
      match one fs e with
      | (fs', none) => scan fs' err rest
      | (fs', some x) => scan fs' (err.orElse fun _ => some x) rest
  let rec links (fs : Fs) : List XEntry → Fs × Option XErr
    | [] => (fs, none)
    | e :: rest =>
      match one fs e with
      | (fs', none) => links fs' rest
      | (fs', some x) => (fs', some x)
  match scan fs none (es.filter (·.kind ≠ 3)) with
  | (fs', some x) => (fs', some x)
  | (fs', none) => links fs' (es.filter (·.kind = 3))

def extractAll (overwrite : Bool) (cwd : Path) (outDir : Bytes) (fs : Fs) (es : List XEntry) : Fs × Option XErr :=
  extractAllWith (extractEntry overwrite cwd outDir) fs es

def extractAllLegacy (overwrite : Bool) (cwd : Path) (outDir : Bytes) (fs : Fs) (es : List XEntry) : Fs × Option XErr :=
  extractAllWith (extractEntryLegacy overwrite cwd outDir) fs es

end Pna.Cli
