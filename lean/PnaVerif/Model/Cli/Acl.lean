import PnaVerif.Model.Cli.Edit
import PnaVerif.Model.Cli.Text
/-
  Access-control chunks of an entry and `pna experimental migrate` (cli/src/ext.rs `NormalEntryExt::acl`,
  cli/src/command/migrate.rs `strip_entry_metadata`).

  An entry's ACLs are private chunks among its `extras`: `faCl` carries a platform name and sets the platform of the
  `faCe` chunks that follow; `faCe` carries one access-control entry as text, with or without its own platform prefix.
  `acl()` collects them into an `IndexMap` (after the `fix:` — it was a `HashMap`, whose iteration order changed from run
  to run): platforms in the order of their first occurrence, each with its entries in order.  `migrate` writes them back
  grouped — `faCl platform`, then one `faCe` per entry WITHOUT a platform prefix — in front of the other private chunks,
  which keep their order.
-/
namespace Pna.Cli
open Text

def decodeUtf8 (b : Bytes) : Option Str := (String.fromUTF8? (ByteArray.mk b.toArray)).map String.toList

abbrev AclMap := List (Str × List Ace)

/-- `acls.entry(k).or_insert_with(Vec::new).push(a)` on an `IndexMap` -/
def aclInsert (m : AclMap) (k : Str) (a : Ace) : AclMap :=
  if m.any (·.1 == k) then m.map (fun p => if p.1 == k then (p.1, p.2 ++ [a]) else p) else m ++ [(k, [a])]

/-- `NormalEntryExt::acl`: `none` = an `io::Error` (a platform name or an entry that is not UTF-8, or an entry that
    does not parse) -/
def aclOf : Str → AclMap → List (Bytes × Bytes) → Option AclMap
  | _, m, [] => some m
  | cur, m, (t, d) :: rest =>
    if t = faCl then
      match decodeUtf8 d with
      | some p => aclOf p m rest
      | none => none
    else if t = faCe then
      match decodeUtf8 d with
      | none => none
      | some s =>
        match parseAceP s with
        | .ok (p, a) => aclOf cur (aclInsert m (p.getD cur) a) rest
        | .error _ => none
    else aclOf cur m rest

def isAclChunk (x : Bytes × Bytes) : Bool := x.1 == faCl || x.1 == faCe

/-- the chunks `migrate` (and `acl set`) write for a collected map -/
def aclChunks (m : AclMap) : List (Bytes × Bytes) :=
  m.flatMap fun (p, aces) => (faCl, utf8 p) :: aces.map fun a => (faCe, utf8 (showAce a))

/-- `migrate` on one entry: `none` = the command fails -/
def migrateE (e : LEntry) : Option LEntry :=
  (aclOf [] [] e.extras).map fun m => { e with extras := aclChunks m ++ e.extras.filter (fun x => !isAclChunk x) }

/-- the transformer handed to the strategy (applies to every entry); a failing entry fails the whole command, which
    the caller tests with `migrateOk` first -/
def migrateF (e : LEntry) : Option LEntry := some ((migrateE e).getD e)

end Pna.Cli

namespace Pna.Cli
open Text

/-- an `-m` / `-x` argument of `pna experimental acl set` after parsing (`AclEntries`): the `default` keyword, the owner,
    and the text after the owner (`none` = no third field) -/
structure AclArg where
  dflt : Bool
  owner : Text.Owner
  perms : Option Str
  deriving DecidableEq, Repr

/-- `AclEntries::is_match`: the DEFAULT flag (first row of the flag table) and the owner decide -/
def AclArg.isMatch (x : AclArg) (a : Ace) : Bool := (x.dflt == a.flags.headD false) && (x.owner == a.owner)

/-- `AclEntries::to_ace` -/
def AclArg.toAce (x : AclArg) : Ace :=
  { flags := flagTable.map (fun row => x.dflt && row.1 == 1), owner := x.owner, allow := true,
    perms := parseSet permTable (x.perms.getD []) }

/-- `acl.iter_mut().find(is_match)`: the first matching entry gets the new permission -/
def modifyFirst (x : AclArg) : List Ace → List Ace
  | [] => []
  | a :: rest => if x.isMatch a then { a with perms := x.toAce.perms } :: rest else a :: modifyFirst x rest

/-- `transform_entry` of `acl set` on a selected entry: only the General platform's list (the platform named `""`) is
    edited; an entry without one — or whose chunks do not parse (`unwrap_or_default`) — is handed on as it is -/
def aclSetE (modify remove : Option AclArg) (e : LEntry) : LEntry :=
  let m := (aclOf [] [] e.extras).getD []
  if !(m.any (·.1 == [])) then e
  else
    let upd := fun (acl : List Ace) =>
      let acl := match modify with
        | some x => if acl.any x.isMatch then modifyFirst x acl else acl ++ [x.toAce]
        | none => acl
      match remove with
      | some x => acl.filter (fun a => !x.isMatch a)
      | none => acl
    let m2 := m.map (fun p => if p.1 == [] then (p.1, upd p.2) else p)
    { e with extras := aclChunks m2 ++ e.extras.filter (fun x => !isAclChunk x) }

def aclSetF (sel : Bytes → Bool) (modify remove : Option AclArg) (e : LEntry) : Option LEntry :=
  if sel e.name then some (aclSetE modify remove e) else some e

end Pna.Cli
