import PnaVerif.Model.Cli.Archive
/-
  `pna append` and `pna experimental update` (cli/src/command/{append,update}.rs) at the level of
  the ordered entry list.  Entries are identified by their (sanitised) name; `new` entries are
  what `create_entry` builds from the disk *now*.  The walker's result — which paths exist, in
  which order — is an input (`targets`), as is the time filter (`need`).
-/
namespace Pna.Cli

/-- a (name, payload) view is all these commands care about -/
structure UEntry where
  name : Bytes
  body : Bytes     -- identity of everything else (content digest + metadata)
  deriving DecidableEq, Repr, Inhabited

/-- `append`: previous entries unchanged, new ones after them in walker order. -/
def appendOp (a : List UEntry) (targets : List UEntry) : List UEntry := a ++ targets

structure UState where
  kept : List UEntry := []        -- written to the new archive while scanning, in order
  replaced : List UEntry := []    -- re-created entries, sent to the channel in this order
  pending : List UEntry           -- `target_items` not yet matched (walker order)
  done : List Bytes := []         -- names whose entry has been re-created (`replaced` in update.rs)

/-- the walker's result de-duplicated by entry name, first occurrence kept (after the `fix:` for overlapping
    arguments such as `-r d d/f.txt`) -/
def dedupGo (seen : List Bytes) : List UEntry → List UEntry
  | [] => []
  | t :: ts => if seen.contains t.name then dedupGo seen ts else t :: dedupGo (t.name :: seen) ts

def dedupNames (ts : List UEntry) : List UEntry := dedupGo [] ts

/-- One step of the scan over the old archive (the closure given to `Strategy::transform`), after the `fix:`
    commits. `excl`/`need` are evaluated on the old entry's name / metadata.  A later entry of a path that has been
    re-created is an older version of it and is left out. -/
def updateStep (excl : Bytes → Bool) (need : UEntry → Bool) (s : UState) (e : UEntry) : UState :=
  if s.done.contains e.name then s
  else
    match s.pending.find? (·.name == e.name) with
    | some t =>
      let pending := s.pending.filter (·.name != e.name)
      if !excl e.name && need e then { s with replaced := s.replaced ++ [t], pending := pending, done := e.name :: s.done }
      else { s with kept := s.kept ++ [e], pending := pending }
    | none => { s with kept := s.kept ++ [e] }

/-- `update`: scan, then append the re-created entries and the still pending (new) paths. -/
def updateOp (excl : Bytes → Bool) (need : UEntry → Bool) (a : List UEntry) (targets : List UEntry) : List UEntry :=
  let s := a.foldl (updateStep excl need) { pending := dedupNames targets }
  s.kept ++ s.replaced ++ s.pending

/-- `delete` on the same view -/
def deleteOp (sel : Bytes → Bool) (a : List UEntry) : List UEntry := a.filter (fun e => !sel e.name)

end Pna.Cli
