import PnaVerif.Model.Cli.Archive
/-
  `pna list` (cli/src/command/list.rs): which rows are produced and how the plain, JSON-lines
  and tree formats render them.  `tabled` layout and `chrono` time strings are not modelled.
-/
namespace Pna.Cli

/-- a list row: name, kind, link target (decoded content of link entries), sizes -/
structure Row where
  name : Bytes
  kind : Nat
  target : Bytes
  rawSize : Option Nat
  compressedSize : Nat
  deriving DecidableEq, Repr, Inhabited

/-- `run_list_archive`: normal entries always; entries of solid blocks only with `--solid`;
    the glob filter is applied afterwards (`print_entries`), an empty pattern set selects all. -/
def listRows (solidFlag : Bool) (sel : Bytes → Bool) (a : List (Bool × Row)) : List Row :=
  (a.filter (fun p => !p.1 || solidFlag)).map (·.2) |>.filter (fun r => sel r.name)

def nl : UInt8 := 10
def arrow : Bytes := [32, 45, 62, 32]   -- " -> "

/-- `simple_list_entries` (without `-q`): one line per row. -/
def plainLine (classify : Bool) (r : Row) : Bytes :=
  if r.kind = 1 ∧ classify then r.name ++ [47]
  else if r.kind = 2 ∧ classify then r.name ++ [64] ++ arrow ++ r.target
  else if r.kind = 2 ∨ r.kind = 3 then r.name ++ arrow ++ r.target
  else r.name

def plainOut (classify : Bool) (rows : List Row) : Bytes := rows.flatMap fun r => plainLine classify r ++ [nl]

/-- first character of the permission string -/
def kindChar (k : Nat) : UInt8 := if k = 1 then 100 else if k = 2 then 108 else 46

-- ------------------------------------------------------------------ tree format

/-- lexicographic order on byte strings (Rust `str` ordering) -/
def bytesLt : Bytes → Bytes → Bool
  | [], [] => false
  | [], _ :: _ => true
  | _ :: _, [] => false
  | a :: as, b :: bs => if a < b then true else if b < a then false else bytesLt as bs

def teLt (x y : Bytes × Nat) : Bool := bytesLt x.1 y.1 || (x.1 == y.1 && x.2 < y.2)

/-- insertion into a `BTreeSet<TreeEntry>` kept as a sorted, duplicate-free list -/
def setInsert (x : Bytes × Nat) : List (Bytes × Nat) → List (Bytes × Nat)
  | [] => [x]
  | y :: ys => if x == y then y :: ys else if teLt x y then x :: y :: ys else y :: setInsert x ys

def mapInsert (k : Bytes) (v : Bytes × Nat) : List (Bytes × List (Bytes × Nat)) → List (Bytes × List (Bytes × Nat))
  | [] => [(k, [v])]
  | (k', s) :: rest => if k == k' then (k', setInsert v s) :: rest else (k', s) :: mapInsert k v rest

/-- components of a path with the byte offset where each ends: `a/b/c` ↦ [(1,a),(3,b),(5,c)] -/
def pathSteps (path : Bytes) : List (Bytes × Bytes) :=
  -- (key = path[..start], value = component) for every component
  let comps := splitSlash path
  let rec go (pre : Bytes) (first : Bool) : List Bytes → List (Bytes × Bytes)
    | [] => []
    | c :: cs =>
      let key := pre
      let pre' := if first then c else pre ++ [slash] ++ c
      (key, c) :: go pre' false cs
  go [] true comps

/-- `build_tree` -/
def buildTree (paths : List (Bytes × Nat)) : List (Bytes × List (Bytes × Nat)) :=
  paths.foldl (fun t (p, k) =>
    let steps := pathSteps p
    let n := steps.length
    (steps.zipIdx).foldl (fun t ((key, v), i) => mapInsert key (v, if i + 1 = n then k else 1) t) t) []

def lookup (t : List (Bytes × List (Bytes × Nat))) (k : Bytes) : Option (List (Bytes × Nat)) :=
  (t.find? (·.1 == k)).map (·.2)

def branchLast : Bytes := [0xE2, 0x94, 0x94, 0xE2, 0x94, 0x80, 0xE2, 0x94, 0x80, 0x20]   -- "└── "
def branchMid : Bytes := [0xE2, 0x94, 0x9C, 0xE2, 0x94, 0x80, 0xE2, 0x94, 0x80, 0x20]    -- "├── "
def pipePad : Bytes := [0xE2, 0x94, 0x82, 0x20, 0x20, 0x20]                              -- "│   "
def blankPad : Bytes := [0x20, 0x20, 0x20, 0x20]

/-- `display_tree`; `fuel` bounds the depth of the walk (one level per `/` of an entry name; the Rust function
    keeps an explicit stack since the `fix:` that removed the recursion). -/
def displayTree (t : List (Bytes × List (Bytes × Nat))) (classify : Bool) : Nat → Bytes → Bytes → Bytes
  | 0, _, _ => []
  | fuel+1, root, pre =>
    match lookup t root with
    | none => []
    | some children =>
      (children.zipIdx).flatMap fun ((child, kind), i) =>
        let isLast := i + 1 = children.length
        let suffix : Bytes := if kind = 1 ∧ classify then [47] else if kind = 2 ∧ classify then [64] else []
        let line := pre ++ (if isLast then branchLast else branchMid) ++ child ++ suffix ++ [nl]
        let newRoot := if root = [] then child else root ++ [slash] ++ child
        let newPre := pre ++ (if isLast then blankPad else pipePad)
        -- after the `fix:`: an empty name has no subtree of its own (its key would be its parent's key)
        if child = [] then line else line ++ displayTree t classify fuel newRoot newPre

/-- `tree_entries` -/
def treeOut (classify : Bool) (rows : List Row) : Bytes :=
  let t := buildTree (rows.map fun r => (r.name, r.kind))
  let depth := (rows.map fun r => (splitSlash r.name).length).foldl max 0
  [46, nl] ++ displayTree t classify (depth + 1) [] []

end Pna.Cli
