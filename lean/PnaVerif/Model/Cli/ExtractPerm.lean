import PnaVerif.Model.Cli.Extract
/-
  The permission step of `pna extract --keep-permission` (cli/src/command/extract.rs, end of
  `extract_entry`): after the object for an entry has been created, `chown(&path, …)` and
  `fs::set_permissions(&path, …)` run on the destination path.  Both system calls FOLLOW a symbolic
  link at the final component.  The abstract file system has no modes; the model records WHAT the
  step touches (`PermTarget`).

  Current code: the step is skipped for symbolic-link and hard-link entries
  (`is_link_entry = matches!(kind, SymbolicLink | HardLink)`) and whenever the object at `path` is a
  symbolic link (`path.symlink_metadata().is_ok_and(|m| m.file_type().is_symlink())`).
  Code before the repairs: skipped for symbolic-link entries only.
  The step runs only when no earlier `?` returned, i.e. when the object was created.
  (In the code the step is also skipped when the entry carries no permission metadata; the model
  over-approximates: every entry is taken to carry one.)
-/
namespace Pna.Cli
open Pna.Fs

/-- the object whose owner/mode would change -/
inductive PermTarget where
  | none
  | dir (p : Path)
  | file (ino : Nat)
  deriving DecidableEq, Repr, Inhabited

/-- what `chown(s)` / `chmod(s)` reach: `s` resolved FOLLOWING a final link -/
def permTarget (fs : Fs) (cwd : Path) (s : Bytes) : PermTarget :=
  match resolve fs true (fuelFor fs) (if isAbs s then [] else cwd) (comps s) with
  | some p =>
    match fs.lookup p with
    | some .dir => .dir p
    | some (.file ino) => .file ino
    | _ => .none
  | none => .none

/-- the permission step, current code -/
def permStep (keepPerm : Bool) (kind : Nat) (fs : Fs) (cwd : Path) (path : Bytes) : PermTarget :=
  if !keepPerm || kind == 2 || kind == 3 || isLinkAt fs cwd path then .none else permTarget fs cwd path

/-- the permission step before the repairs -/
def permStepLegacy (keepPerm : Bool) (kind : Nat) (fs : Fs) (cwd : Path) (path : Bytes) : PermTarget :=
  if !keepPerm || kind == 2 then .none else permTarget fs cwd path

/-- `extract_entry` followed by the permission step (only when the object was created) -/
def extractEntryP (keepPerm overwrite : Bool) (cwd : Path) (outDir : Bytes) (fs : Fs) (e : XEntry) :
    Fs × Option XErr × PermTarget :=
  match extractEntry overwrite cwd outDir fs e with
  | (fs2, none) => (fs2, none, permStep keepPerm e.kind fs2 cwd (joinP outDir e.name))
  | (fs2, some x) => (fs2, some x, .none)

/-- the same with the permission step as it was before the repairs (the object is created by the
    current `extract_entry`: the repairs concern the permission step only) -/
def extractEntryPLegacy (keepPerm overwrite : Bool) (cwd : Path) (outDir : Bytes) (fs : Fs) (e : XEntry) :
    Fs × Option XErr × PermTarget :=
  match extractEntry overwrite cwd outDir fs e with
  | (fs2, none) => (fs2, none, permStepLegacy keepPerm e.kind fs2 cwd (joinP outDir e.name))
  | (fs2, some x) => (fs2, some x, .none)

end Pna.Cli
