import PnaVerif.Model.Cli.Edit
/-
  The `chmod` mode argument as text (`impl FromStr for Mode`, cli/src/command/chmod.rs).
-/
namespace Pna.Cli

def isAsciiDigit (c : Char) : Bool := '0' ≤ c && c ≤ '9'

/-- `parse_mode`: letters r, w, x in any order and multiplicity -/
def parsePermLetters : List Char → Option Nat
  | [] => some 0
  | c :: cs =>
    let bit := if c = 'x' then some 1 else if c = 'w' then some 2 else if c = 'r' then some 4 else none
    match bit, parsePermLetters cs with
    | some b, some m => some (b ||| m)
    | _, _ => none

/-- `u16::from_str_radix(s, 8)` on three ASCII digits -/
def parseOctal3 : List Char → Option Nat
  | [a, b, c] =>
    let d := fun (x : Char) => x.toNat - 48
    if d a < 8 ∧ d b < 8 ∧ d c < 8 then some (d a * 64 + d b * 8 + d c) else none
  | _ => none

def mkClause (op : Char) (t p : Nat) : Option Mode :=
  if op = '+' then some (.plus t p) else if op = '-' then some (.minus t p) else if op = '=' then some (.equal t p) else none

/-- the `for (idx, c) in s.chars().enumerate()` loop -/
def parseModeGo : Nat → Nat → List Char → Option Mode
  | _, _, [] => none
  | idx, target, c :: cs =>
    if c = 'u' then parseModeGo (idx + 1) (target ||| 1) cs
    else if c = 'g' then parseModeGo (idx + 1) (target ||| 2) cs
    else if c = 'o' then parseModeGo (idx + 1) (target ||| 4) cs
    else if c = 'a' then parseModeGo (idx + 1) (target ||| 7) cs
    else if c = '+' ∨ c = '-' ∨ c = '=' then
      match parsePermLetters cs with
      | some p => mkClause c (if idx = 0 then 7 else target) p
      | none => none
    else none

/-- `Mode::from_str` -/
def parseMode (s : List Char) : Option Mode :=
  if s = [] then none
  else if s.all isAsciiDigit then (if s.length = 3 then (parseOctal3 s).map .num else none)
  else parseModeGo 0 0 s

end Pna.Cli
