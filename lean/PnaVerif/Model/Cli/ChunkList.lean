import PnaVerif.Model.Chunk
/-
  `pna experimental chunk list` (cli/src/command/chunk.rs `list_archive_chunks`):

      let mut offset = PNA_HEADER.len();  let mut idx = 0;
      for chunk in read_as_chunks(archive)? { let chunk = chunk?; idx += 1;
          push [idx, ty, length, format!("{:#06x}", offset)];
          offset += chunk.length() as usize + size_of::<u32>() * 3; }
      println!(table)

  The table is printed only after the loop: a chunk that fails to read makes the command fail
  before anything is printed.
-/
namespace Pna.Cli

structure CLRow where
  idx : Nat
  ty : ChunkType
  len : Nat
  off : Nat
  deriving DecidableEq, Repr

/-- the loop body, folded over the chunks the iterator yields -/
def chunkListGo (idx off : Nat) : List Chunk → List CLRow
  | [] => []
  | c :: cs => ⟨idx + 1, c.ty, c.data.length, off⟩ :: chunkListGo (idx + 1) (off + (c.data.length + 4 * 3)) cs

def chunkListRows (cs : List Chunk) : List CLRow := chunkListGo 0 signature.length cs

/-- the command: rows for every chunk up to and including AEND, or the first read error -/
def chunkList (bs : Bytes) : Outcome (List CLRow) :=
  match chunksStream bs with
  | (cs, .ok _) => .ok (chunkListRows cs)
  | (_, .error e) => .error e
  | (_, .panic s) => .panic s

def hexDigit (n : Nat) : Char :=
  if n < 10 then Char.ofNat (48 + n) else Char.ofNat (87 + n)

/-- lower-case hexadecimal digits of `n`, most significant first (`[]` for 0); `fuel` ≥ number of digits -/
def hexDigitsGo : Nat → Nat → List Char → List Char
  | 0, _, acc => acc
  | fuel + 1, n, acc => if n = 0 then acc else hexDigitsGo fuel (n / 16) (hexDigit (n % 16) :: acc)

def hexDigits (n : Nat) : List Char := hexDigitsGo (n + 1) n []

/-- `format!("{:#06x}", n)`: `0x` followed by at least four digits, zero padded -/
def hexOffset (n : Nat) : List Char :=
  let ds := hexDigits n
  ['0', 'x'] ++ List.replicate (4 - ds.length) '0' ++ ds

/-- value of a hexadecimal digit string (what a reader of the table does with the column) -/
def hexValue (cs : List Char) : Option Nat :=
  cs.foldl (fun acc c =>
    match acc with
    | none => none
    | some v =>
      let k := c.toNat
      if 48 ≤ k ∧ k ≤ 57 then some (v * 16 + (k - 48))
      else if 97 ≤ k ∧ k ≤ 102 then some (v * 16 + (k - 87))
      else none) (some 0)

end Pna.Cli
