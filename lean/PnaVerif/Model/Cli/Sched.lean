/-
  Worker-pool pipelines of the CLI (create.rs, append.rs, update.rs, extract.rs): items are handed
  to a rayon pool and their results funnelled through an mpsc channel; the order of arrival is the
  order written to the archive (or the order of extraction effects).

  `Shape` is the syntactic shape of a pipeline as extracted from the sources on every run
  (`pnah shapes`, Generated/Shapes.lean).  The transition system below gives each shape its
  behaviours under EVERY schedule: `finish i` may fire for any running task at any time, which
  covers every number of workers and every interleaving.
-/
namespace Pna.Cli.Sched

inductive Shape where
  | scopePerItem      -- `for item { pool.scope_fifo(|s| s.spawn_fifo(..)) }`: the scope joins before the next item
  | scopeAroundLoop   -- `pool.scope(|s| for item { s.spawn(..) })`: all tasks in flight together
  | detached          -- `pool.spawn(..)` / `rayon::spawn(..)` in a loop, no join before the next item
  | single            -- one scope with one task, no loop
  | parIterCollect    -- indexed parallel iterator collected into a Vec (rayon keeps index order)
  | parIterUnordered  -- parallel iterator with `for_each` / channel sends / unindexed bridge
  | unknown
  deriving DecidableEq, Repr

/-- which command a source file of cli/src/command implements (for the generated inventory) -/
inductive Cmd where
  | create | append | update | extract | other
  deriving DecidableEq, Repr

structure Site where
  cmd : Cmd
  file : String
  func : String
  line : Nat
  shape : Shape
  deriving Repr

structure St where
  next : Nat := 0           -- next item to submit
  running : List Nat := []  -- submitted, not yet finished
  chan : List Nat := []     -- results in order of arrival
  deriving DecidableEq, Repr

inductive Ev where
  | spawn
  | finish (i : Nat)
  deriving DecidableEq, Repr

/-- may the submitting loop hand out the next item now? -/
def canSpawn (sh : Shape) (s : St) : Bool :=
  match sh with
  | .scopePerItem => s.running.isEmpty
  | .single => s.running.isEmpty && s.next == 0
  | _ => true

def step (sh : Shape) (n : Nat) (s : St) : Ev → Option St
  | .spawn =>
    if s.next < n ∧ canSpawn sh s = true then
      some { s with next := s.next + 1, running := s.running ++ [s.next] }
    else none
  | .finish i =>
    if i ∈ s.running then some { s with running := s.running.erase i, chan := s.chan ++ [i] } else none

def run (sh : Shape) (n : Nat) : St → List Ev → Option St
  | s, [] => some s
  | s, e :: es => match step sh n s e with
    | none => none
    | some s' => run sh n s' es

def Final (n : Nat) (s : St) : Prop := s.next = n ∧ s.running = []

/-- the order of results is the order of submission, whatever the schedule -/
def Deterministic (sh : Shape) : Prop :=
  ∀ (n : Nat) (tr : List Ev) (s : St), run sh n {} tr = some s → Final n s → s.chan = List.range n

end Pna.Cli.Sched
