import PnaVerif.Model.Fs
/-
  Output-path guards of the commands that offer `--overwrite`, run WITHOUT it
  (cli/src/command/{create,split,concat,extract}.rs, commons.rs `write_split_archive_path`):
  each command as the ordered list of file-system effects it performs on its output paths.
-/
namespace Pna.Cli
open Pna.Fs

inductive Eff where
  /-- `if !overwrite && path.exists() { return Err(AlreadyExists) }` (follows links) -/
  | guard (s : Bytes)
  /-- `symlink_metadata().is_ok()` guard (does not follow links) -/
  | lguard (s : Bytes)
  /-- `File::create(path)` then writing `content` (follows a final link, truncates) -/
  | create (s : Bytes) (content : Bytes)
  /-- `OpenOptions::new().write(true).create_new(true).open(path)` then writing -/
  | createNew (s : Bytes) (content : Bytes)
  /-- `fs::create_dir_all` -/
  | mkdirAll (s : Bytes)
  /-- `fs::rename(src, dst)` -/
  | rename (src dst : Bytes)
  deriving Repr

/-- `create_new`: fails if *anything* (even a dangling link) has that name. -/
def _root_.Pna.Fs.Fs.createNewFile (fs : Fs) (cwd : Path) (s : Bytes) (content : Bytes) : Except FsErr Fs :=
  match entryPath fs cwd s with
  | none => .error .notFound
  | some p =>
    match fs.lookup p, fs.lookup p.dropLast with
    | some _, _ => .error .exists
    | none, some .dir =>
      let ino := fs.nextIno
      .ok ({ (fs.setNode p (.file ino)).setContent ino content with nextIno := ino + 1 })
    | none, _ => .error .notFound

/-- `rename`: neither end follows a final link; an existing destination is replaced. -/
def _root_.Pna.Fs.Fs.renameP (fs : Fs) (cwd : Path) (src dst : Bytes) : Except FsErr Fs :=
  match entryPath fs cwd src, entryPath fs cwd dst with
  | some sp, some dp =>
    match fs.lookup sp with
    | none => .error .notFound
    | some n => .ok { (fs.setNode dp n) with nodes := ((fs.setNode dp n).nodes.filter (·.1 != sp)) }
  | _, _ => .error .notFound

/-- the existence test of `symlink_metadata` -/
def _root_.Pna.Fs.Fs.lexists (fs : Fs) (cwd : Path) (s : Bytes) : Bool :=
  match entryPath fs cwd s with
  | some p => (fs.lookup p).isSome
  | none => false

def runEff (cwd : Path) (fs : Fs) : Eff → Except FsErr Fs
  | .guard s => if fs.existsP cwd s then .error .exists else .ok fs
  | .lguard s => if fs.lexists cwd s then .error .exists else .ok fs
  | .create s c => fs.createFile cwd s c
  | .createNew s c => fs.createNewFile cwd s c
  | .mkdirAll s => fs.createDirAll cwd s
  | .rename a b => fs.renameP cwd a b

/-- run a plan; stop at the first failing effect (what was done before stays done) -/
def runPlan (cwd : Path) : Fs → List Eff → Fs × Option FsErr
  | fs, [] => (fs, none)
  | fs, e :: es =>
    match runEff cwd fs e with
    | .ok fs' => runPlan cwd fs' es
    | .error x => (fs, some x)

/-- `pna create ARCHIVE` / `pna concat ARCHIVE …` without --overwrite -/
def planCreate (archive content : Bytes) : List Eff := [.guard archive, .create archive content]

/-- `pna create --split` / `pna split` without --overwrite, after the `fix:` commits:
    the caller's guard on `first` (base archive path for create, part 1 for split), every part
    created with `create_new`, a single part renamed to the base path behind an `lguard`. -/
def planSplit (first : Bytes) (parts : List (Bytes × Bytes)) (base : Bytes) : List Eff :=
  [.guard first] ++ parts.map (fun (p, c) => .createNew p c) ++
  (match parts with
   | [(p, _)] => [.lguard base, .rename p base]
   | _ => [])

/-- `extract_entry` for a regular file without --overwrite -/
def planExtractFile (dest parent content : Bytes) : List Eff := [.guard dest, .mkdirAll parent, .create dest content]

end Pna.Cli
