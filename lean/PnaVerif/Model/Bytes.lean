/-
  Bytes, big-endian integer codecs, and the three-valued `Outcome` used to model
  Rust code that can return `Ok`, return `Err(io::Error)` or panic.
  Model files import nothing outside core Lean so the driver links as a `lean_exe`.
-/
namespace Pna

abbrev Bytes := List UInt8

/-- Canonical form of `io::ErrorKind` (messages are never compared). -/
inductive Err where
  | eof            -- UnexpectedEof
  | invalidData
  | invalidInput
  | unsupported
  | alreadyExists
  | notFound
  | other
  deriving DecidableEq, Repr, Inhabited

def Err.toString : Err → String
  | .eof => "eof" | .invalidData => "invalidData" | .invalidInput => "invalidInput"
  | .unsupported => "unsupported" | .alreadyExists => "alreadyExists"
  | .notFound => "notFound" | .other => "other"

/-- Result of running a piece of Rust: value, `io::Error`, or a panic (with a site label). -/
inductive Outcome (α : Type) where
  | ok (a : α)
  | error (e : Err)
  | panic (site : String)
  deriving Repr, DecidableEq

namespace Outcome
def bind {α β} (x : Outcome α) (f : α → Outcome β) : Outcome β :=
  match x with
  | .ok a => f a
  | .error e => .error e
  | .panic s => .panic s
instance : Monad Outcome where
  pure := .ok
  bind := Outcome.bind
def isOk {α} : Outcome α → Bool | .ok _ => true | _ => false
def isPanic {α} : Outcome α → Bool | .panic _ => true | _ => false
def isError {α} : Outcome α → Bool | .error _ => true | _ => false
def map' {α β} (f : α → β) : Outcome α → Outcome β
  | .ok a => .ok (f a) | .error e => .error e | .panic s => .panic s
@[simp] theorem bind_ok {α β} (a : α) (f : α → Outcome β) : (Outcome.ok a >>= f) = f a := rfl
@[simp] theorem bind_error {α β} (e : Err) (f : α → Outcome β) : (Outcome.error e >>= f) = .error e := rfl
@[simp] theorem bind_panic {α β} (s : String) (f : α → Outcome β) : (Outcome.panic s >>= f) = .panic s := rfl
@[simp] theorem pure_eq {α} (a : α) : (pure a : Outcome α) = .ok a := rfl
end Outcome

/-- Big-endian encoding of `n mod 256^k` on `k` bytes (`uN::to_be_bytes` after an `as uN` cast). -/
def beN : Nat → Nat → Bytes
  | 0, _ => []
  | k+1, n => beN k (n / 256) ++ [UInt8.ofNat (n % 256)]

def be16 (n : Nat) : Bytes := beN 2 n
def be32 (n : Nat) : Bytes := beN 4 n
def be64 (n : Nat) : Bytes := beN 8 n
def be128 (n : Nat) : Bytes := beN 16 n

/-- Big-endian decoding (`uN::from_be_bytes`). -/
def fromBe (bs : Bytes) : Nat := bs.foldl (fun a b => a * 256 + b.toNat) 0

@[simp] theorem beN_length (k n : Nat) : (beN k n).length = k := by
  induction k generalizing n with
  | zero => rfl
  | succ k ih => simp [beN, ih]

theorem bytes_rev_ind {α : Type} {P : List α → Prop} (h0 : P [])
    (h1 : ∀ l a, P l → P (l ++ [a])) (l : List α) : P l := by
  have : ∀ l : List α, P l.reverse := by
    intro l
    induction l with
    | nil => exact h0
    | cons a l ih => rw [List.reverse_cons]; exact h1 _ _ ih
  simpa using this l.reverse

theorem fromBe_append_single (bs : Bytes) (b : UInt8) :
    fromBe (bs ++ [b]) = fromBe bs * 256 + b.toNat := by
  simp [fromBe, List.foldl_append]

theorem fromBe_beN (k n : Nat) : fromBe (beN k n) = n % 256 ^ k := by
  induction k generalizing n with
  | zero => simp [beN, fromBe, Nat.mod_one]
  | succ k ih =>
    rw [beN, fromBe_append_single, ih]
    have h256 : (UInt8.ofNat (n % 256)).toNat = n % 256 := by
      simp [UInt8.toNat_ofNat']
    rw [h256, Nat.pow_succ]
    have := Nat.mod_mul_right_div_self n 256 (256 ^ k)
    have h2 := Nat.div_add_mod (n % (256 * 256 ^ k)) 256
    have h3 : n % (256 * 256 ^ k) % 256 = n % 256 := Nat.mod_mul_right_mod n 256 (256 ^ k)
    rw [Nat.mul_comm (256 ^ k) 256]
    omega

theorem fromBe_lt (bs : Bytes) : fromBe bs < 256 ^ bs.length := by
  induction bs using bytes_rev_ind with
  | h0 => simp [fromBe]
  | h1 bs b ih =>
    rw [fromBe_append_single]
    have hb := b.toNat_lt
    simp [Nat.pow_succ]
    have : 0 < 256 ^ bs.length := Nat.pow_pos (by decide)
    omega

theorem beN_fromBe (bs : Bytes) : beN bs.length (fromBe bs) = bs := by
  induction bs using bytes_rev_ind with
  | h0 => rfl
  | h1 bs b ih =>
    have hb := b.toNat_lt
    simp only [List.length_append, List.length_singleton, beN, fromBe_append_single]
    have h1 : (fromBe bs * 256 + b.toNat) / 256 = fromBe bs := by omega
    have h2 : (fromBe bs * 256 + b.toNat) % 256 = b.toNat := by omega
    rw [h1, h2, ih, UInt8.ofNat_toNat]

theorem fromBe_be32 (n : Nat) : fromBe (be32 n) = n % 2 ^ 32 := by
  rw [be32, fromBe_beN]

theorem be32_fromBe (bs : Bytes) (h : bs.length = 4) : be32 (fromBe bs) = bs := by
  have := beN_fromBe bs; rw [h] at this; exact this

@[simp] theorem be32_length (n : Nat) : (be32 n).length = 4 := beN_length 4 n
@[simp] theorem be64_length (n : Nat) : (be64 n).length = 8 := beN_length 8 n
@[simp] theorem be16_length (n : Nat) : (be16 n).length = 2 := beN_length 2 n

theorem beN_inj (k a b : Nat) (ha : a < 256 ^ k) (hb : b < 256 ^ k) (h : beN k a = beN k b) : a = b := by
  have h1 := fromBe_beN k a
  have h2 := fromBe_beN k b
  rw [h, h2, Nat.mod_eq_of_lt hb] at h1
  rw [Nat.mod_eq_of_lt ha] at h1
  exact h1.symm

/-- `split_at_checked`: `none` when `n > bs.length`. -/
def splitAt? (bs : Bytes) (n : Nat) : Option (Bytes × Bytes) :=
  if n ≤ bs.length then some (bs.take n, bs.drop n) else none

theorem splitAt?_append (a b : Bytes) : splitAt? (a ++ b) a.length = some (a, b) := by
  simp [splitAt?]

theorem splitAt?_some {bs : Bytes} {n : Nat} {x y : Bytes} (h : splitAt? bs n = some (x, y)) :
    bs = x ++ y ∧ x.length = n := by
  unfold splitAt? at h
  split at h
  · simp only [Option.some.injEq, Prod.mk.injEq] at h
    obtain ⟨rfl, rfl⟩ := h
    constructor
    · exact (List.take_append_drop n bs).symm
    · simp; omega
  · simp at h

/-- Lower-case hex rendering, used by the driver protocol. -/
def hexDigit (n : Nat) : Char :=
  if n < 10 then Char.ofNat (48 + n) else Char.ofNat (87 + n)

def toHex (bs : Bytes) : String :=
  String.ofList (bs.flatMap fun b => [hexDigit (b.toNat / 16), hexDigit (b.toNat % 16)])

def hexVal (c : Char) : Option Nat :=
  if '0' ≤ c ∧ c ≤ '9' then some (c.toNat - 48)
  else if 'a' ≤ c ∧ c ≤ 'f' then some (c.toNat - 87)
  else if 'A' ≤ c ∧ c ≤ 'F' then some (c.toNat - 55)
  else none

def ofHexChars : List Char → Option Bytes
  | [] => some []
  | [_] => none
  | a :: b :: rest => do
    let x ← hexVal a
    let y ← hexVal b
    let r ← ofHexChars rest
    pure (UInt8.ofNat (x * 16 + y) :: r)

/-- `-` denotes the empty byte string on the wire. -/
def ofHex (s : String) : Option Bytes :=
  if s == "-" then some [] else ofHexChars s.toList

def toHexW (bs : Bytes) : String := if bs.isEmpty then "-" else toHex bs

end Pna
