import PnaVerif.Model.Entry
/-
  The inside of a solid block: `EntryIterator` of lib/src/entry.rs over the decrypted,
  decompressed inner stream (`SolidEntry::entries`), after the `fix:` commits that make the iterator
  stop once it has reported a stream error and report a stream that ends inside an entry.

  The inner stream is what the decoder stack delivers: some bytes, then either a clean end of stream
  or an error that `read` keeps returning (`term`).  `read_exact` on it fails with that error when the
  bytes run out, and with `UnexpectedEof` when the stream ended cleanly.
-/
namespace Pna

structure InStream where
  bytes : Bytes
  term : Option Err := none
  deriving Repr

/-- `ChunkReader::read_chunk` on the inner stream -/
def decodeIn (s : InStream) : Outcome (Chunk × InStream) :=
  match decodeStream s.bytes with
  | .ok (c, r) => .ok (c, { s with bytes := r })
  | .error .eof => .error (s.term.getD .eof)
  | .error e => .error e
  | .panic p => .panic p

/-- one `next()`: the `loop { read_chunk … }` that gathers chunks up to and including `FEND` -/
def collectEntry : Nat → InStream → List Chunk → Outcome (List Chunk × InStream)
  | 0, _, _ => .panic "fuel"
  | fuel+1, s, acc =>
    match decodeIn s with
    | .error e => .error e
    | .panic p => .panic p
    | .ok (c, s') =>
      if c.ty = ChunkType.FEND then .ok (acc ++ [c], s') else collectEntry fuel s' (acc ++ [c])

/-- The items `EntryIterator` yields until it returns `None` (after the two `fix:` commits).
    * the stream may end only between two entries: no byte left and a clean end of stream → `None`;
      no byte left and a decoder error → that error, once;
    * any error while gathering the chunks of an entry — `UnexpectedEof` included (a truncated
      stream, or the noise a wrong password decrypts to) — is yielded once, then `None`;
    * an entry that gathers but does not parse: its error as an item, iteration continues. -/
def solidIter : Nat → InStream → List (Outcome NormalEntry)
  | 0, _ => [.panic "fuel"]
  | fuel+1, s =>
    if s.bytes = [] then
      match s.term with
      | none => []
      | some e => [.error e]
    else
      match collectEntry (s.bytes.length + 1) s [] with
      | .error e => [.error e]
      | .panic p => [.panic p]
      | .ok (cs, s') => parseN cs :: solidIter fuel s'

/-- `SolidEntry::entries(..)` once the decoder stack has been opened -/
def solidEntries (s : InStream) : List (Outcome NormalEntry) := solidIter (s.bytes.length + 1) s

end Pna
