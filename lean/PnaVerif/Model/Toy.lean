import PnaVerif.Model.Cipher
/-
  A toy 16-byte block permutation with a 32-byte key, implemented identically in the harness
  (harness/src/toy.rs, through the `cipher` crate traits) so that the *real generic*
  CBC/CTR reader and writer of the repository can be run against the model byte for byte.
  It is an instance of `BlockPerm`; nothing is proved *about* it except that it is lawful.
-/
namespace Pna.Toy

def rotl3 (x : UInt8) : UInt8 := (x <<< 3) ||| (x >>> 5)
def rotr3 (x : UInt8) : UInt8 := (x >>> 3) ||| (x <<< 5)

def E (k b : Bytes) : Bytes :=
  (List.range 16).map fun i => rotl3 (b.getD ((i + 1) % 16) 0 ^^^ k.getD i 0) + k.getD (16 + i) 0

def D (k c : Bytes) : Bytes :=
  (List.range 16).map fun j =>
    let i := (j + 15) % 16
    rotr3 (c.getD i 0 - k.getD (16 + i) 0) ^^^ k.getD i 0

def perm : BlockPerm := ⟨E, D⟩

end Pna.Toy
