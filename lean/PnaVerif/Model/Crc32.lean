import PnaVerif.Model.Bytes
/-
  Bit-exact model of CRC-32 (IEEE 802.3, reflected, polynomial 0xEDB88320), the function
  `crc32fast::Hasher` computes.  Cross-checked against `Chunk::crc()` by the `crc` op family.
-/
namespace Pna.Crc32

def poly : BitVec 32 := 0xEDB88320#32

/-- One shift of the reflected LFSR. -/
def bitStep (c : BitVec 32) : BitVec 32 :=
  if c.getLsbD 0 then (c >>> 1) ^^^ poly else c >>> 1

/-- Inverse of `bitStep`: the polynomial has bit 31 set, so bit 31 of the result tells
    whether the shifted-out bit was 1. -/
def bitUnstep (c : BitVec 32) : BitVec 32 :=
  if c.getLsbD 31 then ((c ^^^ poly) <<< 1) ||| 1#32 else c <<< 1

def byteStep (c : BitVec 32) (b : UInt8) : BitVec 32 :=
  bitStep (bitStep (bitStep (bitStep (bitStep (bitStep (bitStep (bitStep
    (c ^^^ (BitVec.ofNat 32 b.toNat)))))))))

def update (c : BitVec 32) (bs : Bytes) : BitVec 32 := bs.foldl byteStep c

def init : BitVec 32 := 0xFFFFFFFF#32

def finalize (c : BitVec 32) : BitVec 32 := ~~~ c

/-- CRC-32 of a byte string, as a natural number `< 2^32`. -/
def crc32 (bs : Bytes) : Nat := (finalize (update init bs)).toNat

theorem update_append (c : BitVec 32) (a b : Bytes) : update c (a ++ b) = update (update c a) b := by
  simp [update, List.foldl_append]

theorem crc32_lt (bs : Bytes) : crc32 bs < 2 ^ 32 := by
  unfold crc32; exact BitVec.isLt _

end Pna.Crc32
