import PnaVerif.Model.Chunk
import PnaVerif.Model.Name
/-
  Header and metadata codecs (lib/src/archive/header.rs, entry/header.rs, entry/meta.rs,
  entry/attr.rs, entry.rs::timestamp / u128_from_be_bytes_last).
-/
namespace Pna

structure ArchiveHeader where
  major : Nat
  minor : Nat
  number : Nat
  deriving DecidableEq, Repr, Inhabited

def byteOf (n : Nat) : UInt8 := UInt8.ofNat n

/-- `ArchiveHeader::to_bytes` -/
def encAHED (h : ArchiveHeader) : Bytes :=
  [byteOf h.major, byteOf h.minor, 0, 0] ++ be32 h.number

/-- `ArchiveHeader::try_from_bytes`: exactly 8 bytes, else `InvalidInput`; bytes 2,3 ignored. -/
def decAHED (bs : Bytes) : Outcome ArchiveHeader :=
  match bs with
  | [a, b, _, _, c, d, e, f] => .ok ⟨a.toNat, b.toNat, fromBe [c, d, e, f]⟩
  | _ => .error .invalidInput

/-- Entry header.  Enum fields are kept as their wire bytes, validated on decode. -/
structure EntryHeader where
  major : Nat
  minor : Nat
  kind : Nat          -- 0 file, 1 dir, 2 symlink, 3 hardlink
  compression : Nat   -- 0,1,2,4
  encryption : Nat    -- 0,1,2
  cipherMode : Nat    -- 0 CBC, 1 CTR
  name : Bytes
  deriving DecidableEq, Repr, Inhabited

def validKind (n : Nat) : Bool := n < 4
def validCompression (n : Nat) : Bool := n = 0 || n = 1 || n = 2 || n = 4
def validEncryption (n : Nat) : Bool := n < 3
def validCipherMode (n : Nat) : Bool := n < 2

/-- `EntryHeader::to_bytes` (after the `fix:` that made it write `major`, not `minor` twice) -/
def encFHED (h : EntryHeader) : Bytes :=
  [byteOf h.major, byteOf h.minor, byteOf h.kind, byteOf h.compression,
   byteOf h.encryption, byteOf h.cipherMode] ++ h.name

/-- `EntryHeader::try_from_bytes` -/
def decFHED (bs : Bytes) : Outcome EntryHeader :=
  match bs with
  | a :: b :: k :: c :: e :: m :: name =>
    if !validKind k.toNat then .error .invalidData
    else if !validCompression c.toNat then .error .invalidData
    else if !validEncryption e.toNat then .error .invalidData
    else if !validCipherMode m.toNat then .error .invalidData
    else if !validUtf8 name then .error .invalidData
    else .ok ⟨a.toNat, b.toNat, k.toNat, c.toNat, e.toNat, m.toNat, sanitize name⟩
  | _ => .error .invalidData

structure SolidHeader where
  major : Nat
  minor : Nat
  compression : Nat
  encryption : Nat
  cipherMode : Nat
  deriving DecidableEq, Repr, Inhabited

def encSHED (h : SolidHeader) : Bytes :=
  [byteOf h.major, byteOf h.minor, byteOf h.compression, byteOf h.encryption, byteOf h.cipherMode]

/-- `SolidHeader::try_from_bytes`: wrong length is `InvalidInput`, bad enum `InvalidData`. -/
def decSHED (bs : Bytes) : Outcome SolidHeader :=
  match bs with
  | [a, b, c, e, m] =>
    if !validCompression c.toNat then .error .invalidData
    else if !validEncryption e.toNat then .error .invalidData
    else if !validCipherMode m.toNat then .error .invalidData
    else .ok ⟨a.toNat, b.toNat, c.toNat, e.toNat, m.toNat⟩
  | _ => .error .invalidInput

/-- `timestamp`: exactly 8 bytes big-endian seconds. -/
def decTime (bs : Bytes) : Outcome Nat :=
  if bs.length = 8 then .ok (fromBe bs) else .error .invalidData

def encTime (secs : Nat) : Bytes := be64 secs

/-- `u128_from_be_bytes_last`: the last (up to) 16 bytes, big endian.  Never fails. -/
def decFSIZ (bs : Bytes) : Nat := fromBe (bs.drop (bs.length - 16))

def dropLeadingZeros : Bytes → Bytes
  | [] => []
  | b :: bs => if b = 0 then dropLeadingZeros bs else b :: bs

/-- `skip_while(&raw_file_size.to_be_bytes(), |i| *i == 0)` -/
def encFSIZ (n : Nat) : Bytes := dropLeadingZeros (be128 n)

structure Permission where
  uid : Nat
  uname : Bytes
  gid : Nat
  gname : Bytes
  mode : Nat
  deriving DecidableEq, Repr, Inhabited

/-- `Permission::to_bytes` — `len() as u8` narrows name lengths mod 256. -/
def encFPRM (p : Permission) : Bytes :=
  be64 p.uid ++ [byteOf p.uname.length] ++ p.uname ++ be64 p.gid ++ [byteOf p.gname.length] ++ p.gname ++ be16 p.mode

/-- `Permission::try_from_bytes` (`read_exact` on a slice; trailing bytes ignored). -/
def decFPRM (bs : Bytes) : Outcome Permission := do
  let (uidB, r) ← readExact 8 bs
  let (ulB, r) ← readExact 1 r
  let (uname, r) ← readExact (fromBe ulB) r
  if !validUtf8 uname then .error .invalidData else
  let (gidB, r) ← readExact 8 r
  let (glB, r) ← readExact 1 r
  let (gname, r) ← readExact (fromBe glB) r
  if !validUtf8 gname then .error .invalidData else
  let (modeB, _) ← readExact 2 r
  .ok ⟨fromBe uidB, uname, fromBe gidB, gname, fromBe modeB⟩

structure XAttr where
  name : Bytes
  value : Bytes
  deriving DecidableEq, Repr, Inhabited

/-- `ExtendedAttribute::to_bytes` -/
def encXATR (x : XAttr) : Bytes :=
  be32 x.name.length ++ x.name ++ be32 x.value.length ++ x.value

/-- `ExtendedAttribute::try_from_bytes` (after the `fix:` that made the name split checked;
    trailing bytes after the value are ignored). -/
def decXATR (bs : Bytes) : Outcome XAttr :=
  match splitFirstChunk 4 bs with
  | none => .error .eof
  | some (l, r) =>
    match splitPayload r (fromBe l) with
    | .error e => .error e
    | .panic s => .panic s
    | .ok (name, r) =>
      if !validUtf8 name then .error .invalidData else
      match splitFirstChunk 4 r with
      | none => .error .eof
      | some (l, r) =>
        if fromBe l ≤ r.length then .ok ⟨name, r.take (fromBe l)⟩ else .error .eof

end Pna
