import PnaVerif.Model.Crc32
/-
  Chunk framing: length(4, BE) | type(4) | data | crc32(type ++ data)(4, BE).
  Two parser transcriptions:
    * `decodeStream`  — `ChunkReader::read_chunk`   (lib/src/chunk/read.rs, `read_exact` semantics)
    * `decodeSlice`   — `read_chunk_from_slice`     (lib/src/chunk/read.rs, `split_first_chunk` / split)
  and the two chunk iterators of lib/src/chunk.rs.
-/
namespace Pna

structure ChunkType where
  b0 : UInt8
  b1 : UInt8
  b2 : UInt8
  b3 : UInt8
  deriving DecidableEq, Repr, Inhabited

namespace ChunkType
def toBytes (t : ChunkType) : Bytes := [t.b0, t.b1, t.b2, t.b3]
def ofAscii (a b c d : Char) : ChunkType :=
  ⟨UInt8.ofNat a.toNat, UInt8.ofNat b.toNat, UInt8.ofNat c.toNat, UInt8.ofNat d.toNat⟩
def AHED := ofAscii 'A' 'H' 'E' 'D'
def AEND := ofAscii 'A' 'E' 'N' 'D'
def ANXT := ofAscii 'A' 'N' 'X' 'T'
def FHED := ofAscii 'F' 'H' 'E' 'D'
def PHSF := ofAscii 'P' 'H' 'S' 'F'
def FDAT := ofAscii 'F' 'D' 'A' 'T'
def FEND := ofAscii 'F' 'E' 'N' 'D'
def SHED := ofAscii 'S' 'H' 'E' 'D'
def SDAT := ofAscii 'S' 'D' 'A' 'T'
def SEND := ofAscii 'S' 'E' 'N' 'D'
def fSIZ := ofAscii 'f' 'S' 'I' 'Z'
def cTIM := ofAscii 'c' 'T' 'I' 'M'
def mTIM := ofAscii 'm' 'T' 'I' 'M'
def aTIM := ofAscii 'a' 'T' 'I' 'M'
def fPRM := ofAscii 'f' 'P' 'R' 'M'
def xATR := ofAscii 'x' 'A' 'T' 'R'

@[simp] theorem toBytes_length (t : ChunkType) : t.toBytes.length = 4 := rfl

def ofBytes? : Bytes → Option ChunkType
  | [a, b, c, d] => some ⟨a, b, c, d⟩
  | _ => none

theorem ofBytes?_toBytes (t : ChunkType) : ofBytes? t.toBytes = some t := rfl

theorem toBytes_of_ofBytes? {bs : Bytes} {t : ChunkType} (h : ofBytes? bs = some t) : t.toBytes = bs := by
  match bs, h with
  | [a, b, c, d], h => simp [ofBytes?] at h; subst h; rfl

/-- property bits (lib/src/chunk/types.rs) -/
def isCritical (t : ChunkType) : Bool := t.b0 &&& 32 == 0
def isPrivate (t : ChunkType) : Bool := t.b1 &&& 32 != 0
def isSetReserved (t : ChunkType) : Bool := t.b2 &&& 32 != 0
def isSafeToCopy (t : ChunkType) : Bool := t.b3 &&& 32 != 0

def isAsciiAlpha (b : UInt8) : Bool := (65 ≤ b && b ≤ 90) || (97 ≤ b && b ≤ 122)
def isAsciiLower (b : UInt8) : Bool := 97 ≤ b && b ≤ 122
def isAsciiUpper (b : UInt8) : Bool := 65 ≤ b && b ≤ 90

inductive TypeError | nonAsciiAlphabetic | nonPrivate | reserved
  deriving DecidableEq, Repr

/-- `ChunkType::private` -/
def mkPrivate (t : ChunkType) : Except TypeError ChunkType :=
  if !(isAsciiAlpha t.b0 && isAsciiAlpha t.b1 && isAsciiAlpha t.b2 && isAsciiAlpha t.b3) then
    .error .nonAsciiAlphabetic
  else if !isAsciiLower t.b1 then .error .nonPrivate
  else if !isAsciiUpper t.b2 then .error .reserved
  else .ok t

def isStream (t : ChunkType) : Bool := t == FDAT || t == SDAT
end ChunkType

structure Chunk where
  ty : ChunkType
  data : Bytes
  deriving DecidableEq, Repr, Inhabited

namespace Chunk

/-- CRC over type and data (`Chunk::crc`). -/
def crc (c : Chunk) : Nat := Crc32.crc32 (c.ty.toBytes ++ c.data)

/-- `MIN_CHUNK_BYTES_SIZE` -/
def minBytes : Nat := 12

/-- `ChunkExt::bytes_len` -/
def bytesLen (c : Chunk) : Nat := minBytes + c.data.length

def isStream (c : Chunk) : Bool := c.ty.isStream

/-- `ChunkExt::write_chunk_in` / `to_bytes`.  `length()` is `data.len() as u32`: the model
    narrows at the same place (`be32` reduces mod 2^32). -/
def encode (c : Chunk) : Bytes :=
  be32 c.data.length ++ c.ty.toBytes ++ c.data ++ be32 c.crc

end Chunk

/-- `read_exact` on an in-memory stream: `n` bytes or `UnexpectedEof`. -/
def readExact (n : Nat) (bs : Bytes) : Outcome (Bytes × Bytes) :=
  if bs.length < n then .error .eof else .ok (bs.take n, bs.drop n)

/-- `ChunkReader::read_chunk` -/
def decodeStream (bs : Bytes) : Outcome (Chunk × Bytes) := do
  let (lenB, r) ← readExact 4 bs
  let len := fromBe lenB
  let (tyB, r) ← readExact 4 r
  let (data, r) ← readExact len r
  let (crcB, r) ← readExact 4 r
  match ChunkType.ofBytes? tyB with
  | none => .panic "unreachable: type has 4 bytes"
  | some ty =>
    let c : Chunk := ⟨ty, data⟩
    if fromBe crcB ≠ c.crc then .error .invalidData else .ok (c, r)

/-- `<[u8]>::split_first_chunk::<N>` -/
def splitFirstChunk (n : Nat) (bs : Bytes) : Option (Bytes × Bytes) :=
  if n ≤ bs.length then some (bs.take n, bs.drop n) else none

/-- `split_at_checked(n).ok_or(UnexpectedEof)` — the slice parser's payload cut after the
    `fix:` commit that replaced the panicking `split_at`. -/
def splitPayload (bs : Bytes) (n : Nat) : Outcome (Bytes × Bytes) :=
  if n ≤ bs.length then .ok (bs.take n, bs.drop n) else .error .eof

/-- `read_chunk_from_slice` -/
def decodeSlice (bs : Bytes) : Outcome (Chunk × Bytes) :=
  match splitFirstChunk 4 bs with
  | none => .error .eof
  | some (lenB, r) =>
    let len := fromBe lenB
    match splitFirstChunk 4 r with
    | none => .error .eof
    | some (tyB, r) =>
      match splitPayload r len with
      | .error e => .error e
      | .panic s => .panic s
      | .ok (data, r) =>
        match splitFirstChunk 4 r with
        | none => .error .eof
        | some (crcB, r) =>
          match ChunkType.ofBytes? tyB with
          | none => .panic "unreachable: type has 4 bytes"
          | some ty =>
            let c : Chunk := ⟨ty, data⟩
            if fromBe crcB ≠ c.crc then .error .invalidData else .ok (c, r)

/-- PNA signature `\x89PNA\r\n\x1a\n` -/
def signature : Bytes := [0x89, 0x50, 0x4E, 0x41, 0x0D, 0x0A, 0x1A, 0x0A]

/-- `read_pna_header` (stream) -/
def readSigStream (bs : Bytes) : Outcome Bytes := do
  let (h, r) ← readExact 8 bs
  if h ≠ signature then .error .invalidData else .ok r

/-- `read_header_from_slice` -/
def readSigSlice (bs : Bytes) : Outcome Bytes :=
  match splitPayload bs 8 with
  | .error e => .error e
  | .panic s => .panic s
  | .ok (h, r) => if h ≠ signature then .error .invalidData else .ok r

/-- Items of a chunk iterator, until it returns `None`: the chunks and how iteration ended.
    `fuel` bounds the recursion structurally; `bs.length` always suffices (each chunk consumes
    at least 12 bytes) — see `Lemmas.Chunk.chunkIter_fuel`. -/
def chunkIter (dec : Bytes → Outcome (Chunk × Bytes)) : Nat → Bytes → List Chunk × Outcome Unit
  | 0, _ => ([], .panic "fuel")
  | fuel+1, bs =>
    match dec bs with
    | .error e => ([], .error e)
    | .panic s => ([], .panic s)
    | .ok (c, r) =>
      if c.ty = ChunkType.AEND then ([c], .ok ())
      else
        let (cs, o) := chunkIter dec fuel r
        (c :: cs, o)

/-- `read_as_chunks`: collected up to and including the first `Err` (callers stop there). -/
def chunksStream (bs : Bytes) : List Chunk × Outcome Unit :=
  match readSigStream bs with
  | .error e => ([], .error e)
  | .panic s => ([], .panic s)
  | .ok r => chunkIter decodeStream (r.length + 1) r

/-- `read_chunks_from_slice` -/
def chunksSlice (bs : Bytes) : List Chunk × Outcome Unit :=
  match readSigSlice bs with
  | .error e => ([], .error e)
  | .panic s => ([], .panic s)
  | .ok r => chunkIter decodeSlice (r.length + 1) r

end Pna
