import PnaVerif.Model.Archive
/- Canonical one-line renderings shared by the driver protocol (mirrored in harness/src/canon.rs). -/
namespace Pna.Canon

def optNat : Option Nat → String
  | none => "-"
  | some n => toString n

def optHex : Option Bytes → String
  | none => "-"
  | some b => "h" ++ toHex b

def digest (bs : Bytes) : String := s!"{bs.length}/{Crc32.crc32 bs}"

def dataS (d : List Bytes) : String := s!"{d.length}/{digest d.flatten}"

def permS : Option Permission → String
  | none => "-"
  | some p => s!"{p.uid},{toHexW p.uname},{p.gid},{toHexW p.gname},{p.mode}"

def xattrBytes (x : XAttr) : Bytes := be32 x.name.length ++ x.name ++ be32 x.value.length ++ x.value

def normalS (e : NormalEntry) : String :=
  s!"N:{e.header.kind}.{e.header.compression}.{e.header.encryption}.{e.header.cipherMode}:" ++
  s!"{toHexW e.header.name}:p={optHex e.phsf}:d={dataS e.data}:s={optNat e.md.rawSize}:" ++
  s!"t={optNat e.md.created},{optNat e.md.modified},{optNat e.md.accessed}:pm={permS e.md.permission}:" ++
  s!"x={e.xattrs.length}/{digest (e.xattrs.flatMap xattrBytes)}:" ++
  s!"e={e.extra.length}/{digest (e.extra.flatMap Chunk.encode)}"

def solidS (s : SolidEntry) : String :=
  s!"S:{toHex (encSHED s.header)}:p={optHex s.phsf}:d={dataS s.data}:" ++
  s!"e={s.extra.length}/{digest (s.extra.flatMap Chunk.encode)}"

def entryS : ReadEntry → String
  | .normal e => normalS e
  | .solid s => solidS s

def endS : Outcome Unit → String
  | .ok _ => "end=ok"
  | .error e => "end=err:" ++ e.toString
  | .panic s => "end=panic:" ++ s

def readS (r : ReadResult) : String :=
  let nx := match r.status with | .ok _ => r.next | _ => false   -- the flag is observable only after a clean end
  " ".intercalate (r.entries.map entryS ++ [endS r.status, s!"next={if nx then 1 else 0}"])

def rawItemS (it : List Chunk) : String := s!"R:{it.length}/{digest (it.flatMap Chunk.encode)}"

end Pna.Canon
