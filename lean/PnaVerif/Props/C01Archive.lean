import PnaVerif.Lemmas.Capstone2
import PnaVerif.Lemmas.Capstone3
/-!
# C01 (capstone) — whatever is written with any writer, codec and cipher reads back identically

The pieces proved elsewhere — the data pipeline (`C01.roundtrip_builder`, `C01.roundtrip_stream`, `C01.readData_recut`),
the entry codecs (`parseN_serN`, `parseS_serS`, `recut_meaning`), the archive framing (`readArchive_encode`) and the
inside of a solid block (`C07S.solid_roundtrip`) — composed into one statement about whole archives.

The write model and the read model are in `Lemmas/Capstone.lean`; they are assembled only from the existing model
functions.  `writeArchive items` are the bytes of a single-part archive whose top-level items are normal entries
(`LItem.file`) and solid blocks (`LItem.block`), each with its own writer (`Sink`), codec, cipher, key and IV
(`StreamCfg`).  `readAll cfgOf bytes` runs the archive reader, opens every normal entry, expands every solid block
and opens its inner entries.

* `archive_roundtrip`           read ∘ write = id: clean end, and for every file of every item, in order (block
                                files in place): name, kind, metadata, xattrs, extra chunks, and exactly
                                `writes.flatten` as content;
* `archive_entries_exact`       the intermediate level: the entries the reader returns are the entries written
                                (header codes, PHSF string included), data re-cut at `u32::MAX` only;
* `archive_params_recorded`     … in particular the codec/cipher codes and the PHSF string of each configuration;
* `archive_roundtrip_builder`   builder-only archives: hypotheses purely on the logical files and configurations;
* `archive_roundtrip_stream`    (b) streaming writers (`streamData`): same statement;
* `partition_independent`, `partition_independent_file`   (a) the read-back does not depend on how the content was
                                cut into `write` calls;
* `ex_*`                        non-vacuity: a concrete archive (CBC entry, CTR-streamed entry, CBC solid block of two
                                files), by instantiating the theorem and by evaluation.

Hypotheses: `LItem.WF` = `StreamCfg.OK` (lawful block permutation, lawful codec, 16-byte IV, UTF-8 PHSF that fits a
chunk, valid header codes) + `LFile.WF` (primitive conditions on name/kind/metadata/xattrs/extra) + for a solid block
that its stored slices fit one SDAT chunk each (automatic with the builder sink).  What is *not* covered: key
derivation from a password (the reader is handed the configuration — C16), multipart archives (C14), and the
third-party codecs and ciphers themselves (parameters with their laws).
-/
namespace Pna.C01A
open Pna Pna.Capstone

/-- The entries the archive reader returns are the entries written — header codes and PHSF included — with the
    data slices of normal entries re-cut at `u32::MAX`; the iteration ends cleanly, no continuation, no carry. -/
theorem archive_entries_exact (items : List LItem) (hw : ∀ it ∈ items, it.WF) :
    let r := readArchiveStream (writeArchive items)
    r.entries = (items.map toReadEntry).map ReadEntry.recut ∧ r.status = .ok () ∧ r.next = false ∧
      r.carry = [] ∧ r.header = some ⟨0, 0, 0⟩ := by
  have h := readArchive_encode 0 (by decide) (items.map toReadEntry)
    (by
      intro e he
      obtain ⟨it, hit, rfl⟩ := List.mem_map.mp he
      exact toReadEntry_WF it (hw it hit))
    (by
      intro e he
      obtain ⟨it, hit, rfl⟩ := List.mem_map.mp he
      exact toReadEntry_noMarkers it (hw it hit))
    (items_fit items hw) false
  exact ⟨h.1, h.2.1, h.2.2.1, h.2.2.2.1, h.2.2.2.2.1⟩

/-- The parameters the real reader takes from the archive are there: every returned entry records the codec code,
    cipher code, cipher mode and PHSF string of the configuration it was written with, and the cipher selection is a
    function of the two header bytes.  (What the reader of this model is *handed* beyond that — the algorithms behind
    the codes and the key behind PHSF + password — is third-party.) -/
theorem archive_params_recorded (items : List LItem) (hw : ∀ it ∈ items, it.WF) :
    (readArchiveStream (writeArchive items)).entries.map entryParams = items.map (fun it => it.cfg.params) ∧
    ∀ it ∈ items, selOfHeader it.cfg.encryption it.cfg.cipherMode = it.cfg.sel := by
  refine ⟨?_, ?_⟩
  · rw [(archive_entries_exact items hw).1, List.map_map, List.map_map]
    apply List.map_congr_left
    intro it _
    exact entryParams_item it
  · intro it hit
    have hc : it.cfg.OK := by
      cases it with
      | file s cfg f => exact (hw _ hit).1
      | block s cfg fs => exact (hw _ hit).1
    exact selOfHeader_cfg it.cfg hc

/-- **C01, end to end.**  For every list of well-formed items — any mix of normal entries and solid blocks, each with
    its own writer, codec, cipher, key, IV — reading the written archive with the configurations it was written with
    succeeds, ends cleanly, and returns in order, for every file of every item (block files in place), its name,
    kind, metadata, extended attributes, extra chunks and exactly the bytes written. -/
theorem archive_roundtrip (items : List LItem) (hw : ∀ it ∈ items, it.WF) (cfgOf : Nat → StreamCfg)
    (hcfg : ∀ i (h : i < items.length), cfgOf i = items[i].cfg) :
    readAll cfgOf (writeArchive items)
      = { files := (items.flatMap LItem.files).map
            (fun f => .ok ⟨f.name, f.kind, f.md, f.xattrs, f.extra, f.writes.flatten⟩),
          status := .ok (), next := false } := by
  obtain ⟨he, hs, hn, _, _⟩ := archive_entries_exact items hw
  unfold readAll
  simp only
  rw [he, hs, hn, openAll_items items hw cfgOf hcfg]
  rfl

/-- the same with the reader's configurations spelled out: those of the items, by position -/
theorem archive_roundtrip_own (items : List LItem) (hw : ∀ it ∈ items, it.WF) :
    readAll (cfgsOf items) (writeArchive items)
      = { files := (items.flatMap LItem.files).map (fun f => .ok f.out), status := .ok (), next := false } :=
  archive_roundtrip items hw (cfgsOf items) (cfgsOf_spec items)

/-- Builder-only archives (`EntryBuilder`, `SolidEntryBuilder` — `buildData`): the hypotheses are purely about the
    configurations and the logical files. -/
theorem archive_roundtrip_builder (items : List LItem) (hb : ∀ it ∈ items, it.sink = .builder)
    (hc : ∀ it ∈ items, it.cfg.OK) (hf : ∀ it ∈ items, ∀ f ∈ it.files, f.WF) :
    readAll (cfgsOf items) (writeArchive items)
      = { files := (items.flatMap LItem.files).map (fun f => .ok f.out), status := .ok (), next := false } :=
  archive_roundtrip_own items (fun it hit => LItem.WF_builder it (hb it hit) (hc it hit) (hf it hit))

/-- (b) **Streaming writers** (`Archive::write_file`, `SolidArchive` — `streamData`, via `C01.roundtrip_stream`): the same
    statement.  A streamed solid block stores one SDAT chunk per inner write of the cipher stage, so these writes
    must fit a chunk (`hfit`); nothing is asked for streamed normal entries. -/
theorem archive_roundtrip_stream (items : List LItem) (hs : ∀ it ∈ items, it.sink = .stream)
    (hc : ∀ it ∈ items, it.cfg.OK) (hf : ∀ it ∈ items, ∀ f ∈ it.files, f.WF)
    (hfit : ∀ cfg fs, LItem.block .stream cfg fs ∈ items →
      SlicesFit (streamData cfg.P cfg.C cfg.sel cfg.key cfg.iv [innerStream fs])) :
    readAll (cfgsOf items) (writeArchive items)
      = { files := (items.flatMap LItem.files).map (fun f => .ok f.out), status := .ok (), next := false } := by
  apply archive_roundtrip_own items
  intro it hit
  apply LItem.WF_intro it (hc it hit) (hf it hit)
  intro s cfg fs h
  subst h
  have : s = .stream := hs _ hit
  subst this
  exact hfit cfg fs hit

/-- the two writers, spelled out: what `buildNormalW` stores is `buildData` resp. `streamData` of the write calls -/
theorem built_entry_data (cfg : StreamCfg) (f : LFile) (fs : List LFile) :
    (buildNormal cfg f).data = buildData cfg.P cfg.C cfg.sel cfg.key cfg.iv f.writes ∧
    (buildNormalW .stream cfg f).data = streamData cfg.P cfg.C cfg.sel cfg.key cfg.iv f.writes ∧
    (buildSolid cfg fs).data = buildData cfg.P cfg.C cfg.sel cfg.key cfg.iv
      [encodeChunks ((fs.map (buildNormal plain)).flatMap serN)] ∧
    (buildSolidW .stream cfg fs).data = streamData cfg.P cfg.C cfg.sel cfg.key cfg.iv
      [encodeChunks ((fs.map (buildNormal plain)).flatMap serN)] :=
  ⟨rfl, rfl, rfl, rfl⟩

/-- (a) **The read-back does not depend on how the content was cut into `write` calls** (nor, for that matter, on
    the writer): two well-formed archives written with the same configurations whose files agree in everything
    but the partition of their content (`LFile.out` only sees `writes.flatten`) read back the same. -/
theorem partition_independent (items₁ items₂ : List LItem) (hw₁ : ∀ it ∈ items₁, it.WF) (hw₂ : ∀ it ∈ items₂, it.WF)
    (cfgOf : Nat → StreamCfg)
    (hcfg₁ : ∀ i (h : i < items₁.length), cfgOf i = items₁[i].cfg)
    (hcfg₂ : ∀ i (h : i < items₂.length), cfgOf i = items₂[i].cfg)
    (hsame : (items₁.flatMap LItem.files).map LFile.out = (items₂.flatMap LItem.files).map LFile.out) :
    readAll cfgOf (writeArchive items₁) = readAll cfgOf (writeArchive items₂) := by
  rw [archive_roundtrip items₁ hw₁ cfgOf hcfg₁, archive_roundtrip items₂ hw₂ cfgOf hcfg₂]
  have e : ∀ l : List LFile,
      l.map (fun f => (Outcome.ok ⟨f.name, f.kind, f.md, f.xattrs, f.extra, f.writes.flatten⟩ : Outcome FileOut))
        = (l.map LFile.out).map Outcome.ok := by
    intro l; rw [List.map_map]; rfl
  rw [e, e, hsame]

/-- `LFile.WF` does not look at the write calls -/
theorem wf_reslice (f : LFile) (hf : f.WF) (ws : List Bytes) : ({ f with writes := ws } : LFile).WF :=
  ⟨hf.kind, hf.nameUtf8, hf.nameSan, hf.nameFit, hf.extraUn, hf.extraNM, hf.extraFit, hf.rawSize, hf.created,
    hf.modified, hf.accessed, hf.perm, hf.xattrs, hf.xattrsFit⟩

/-- (a), pointed form: re-cutting the write calls of one file anywhere in an archive — under either writer —
    changes nothing in what is read back. -/
theorem partition_independent_file (pre post : List LItem) (hpre : ∀ it ∈ pre, it.WF) (hpost : ∀ it ∈ post, it.WF)
    (s₁ s₂ : Sink) (cfg : StreamCfg) (hc : cfg.OK) (f : LFile) (hf : f.WF) (ws₁ ws₂ : List Bytes)
    (h : ws₁.flatten = ws₂.flatten) :
    readAll (cfgsOf (pre ++ .file s₁ cfg { f with writes := ws₁ } :: post))
        (writeArchive (pre ++ .file s₁ cfg { f with writes := ws₁ } :: post))
      = readAll (cfgsOf (pre ++ .file s₂ cfg { f with writes := ws₂ } :: post))
        (writeArchive (pre ++ .file s₂ cfg { f with writes := ws₂ } :: post)) := by
  have w : ∀ (s : Sink) (ws : List Bytes), ∀ it ∈ pre ++ LItem.file s cfg { f with writes := ws } :: post, it.WF := by
    intro s ws it hit
    rcases List.mem_append.mp hit with hit | hit
    · exact hpre it hit
    · rcases List.mem_cons.mp hit with rfl | hit
      · exact ⟨hc, wf_reslice f hf ws⟩
      · exact hpost it hit
  rw [archive_roundtrip_own _ (w s₁ ws₁), archive_roundtrip_own _ (w s₂ ws₂)]
  simp only [List.flatMap_append, List.flatMap_cons, LItem.files, List.map_append, List.map_cons, LFile.out, h]

-- ---------------------------------------------------------------- non-vacuity

/-- what must come back from the example archive (`Lemmas/Capstone3.lean`): four files, the two block members in
    place, each with its identity and its 5 / 20 / 3 / 0 content bytes -/
theorem ex_expected :
    (exItems.flatMap LItem.files).map (fun f => (Outcome.ok f.out : Outcome FileOut))
      = [ .ok ⟨[97], 0, { rawSize := some 5, modified := some 7, permission := some ⟨1000, [117], 1000, [103], 420⟩ },
                [⟨[117], [9]⟩], [⟨⟨109, 121, 84, 121⟩, [1, 2, 3]⟩], [1, 2, 3, 4, 5]⟩,
          .ok ⟨[100, 47, 98], 0, {}, [], [], [0, 1, 2, 3, 4, 5, 6, 7, 8, 9, 10, 11, 12, 13, 14, 15, 16, 30, 31, 32]⟩,
          .ok ⟨[99], 0, { created := some 1 }, [], [], [7, 7, 7]⟩,
          .ok ⟨[100], 1, {}, [], [], []⟩ ] := by
  decide +kernel

/-- The hypotheses of `archive_roundtrip` are satisfiable with a cipher that really permutes bytes (the toy
    permutation, `toy_lawful`), a codec that is not the identity (`maskCodec`), CBC and CTR, both writers, a normal
    entry with every kind of metadata and a solid block: the theorem, instantiated. -/
theorem ex_roundtrip :
    readAll (cfgsOf exItems) (writeArchive exItems)
      = { files := (exItems.flatMap LItem.files).map (fun f => .ok f.out), status := .ok (), next := false } :=
  archive_roundtrip_own exItems exItems_wf

/-- … and the same by evaluation of the write model and the read model, independently of the theorem. -/
theorem ex_roundtrip_eval :
    readAll (cfgsOf exItems) (writeArchive exItems)
      = { files := (exItems.flatMap LItem.files).map (fun f => .ok f.out), status := .ok (), next := false } := by
  decide +kernel

/-- the example is not degenerate: the stored data are not the content (16-byte IV + one padded CBC block; IV + CTR
    keystream over masked bytes), the archive is 649 bytes, and reading the CBC entry with another key fails -/
theorem ex_nondegenerate :
    (buildNormal exCbc exA).data.flatten.length = 32 ∧ (buildNormal exCbc exA).data.flatten.drop 16 ≠ exA.writes.flatten ∧
    (buildNormalW .stream exCtr exB).data.flatten.length = 36 ∧
    (buildNormalW .stream exCtr exB).data.flatten.drop 16 ≠ exB.writes.flatten ∧
    (writeArchive exItems).length = 649 ∧
    openNormal { exCbc with key := exIvA ++ exIvA } (buildNormal exCbc exA) ≠ .ok exA.writes.flatten := by
  decide +kernel

end Pna.C01A

#print axioms Pna.C01A.archive_entries_exact
#print axioms Pna.C01A.archive_params_recorded
#print axioms Pna.C01A.archive_roundtrip
#print axioms Pna.C01A.archive_roundtrip_own
#print axioms Pna.C01A.archive_roundtrip_builder
#print axioms Pna.C01A.archive_roundtrip_stream
#print axioms Pna.C01A.built_entry_data
#print axioms Pna.C01A.partition_independent
#print axioms Pna.C01A.wf_reslice
#print axioms Pna.C01A.partition_independent_file
#print axioms Pna.C01A.ex_expected
#print axioms Pna.C01A.ex_roundtrip
#print axioms Pna.C01A.ex_roundtrip_eval
#print axioms Pna.C01A.ex_nondegenerate
