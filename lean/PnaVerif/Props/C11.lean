import PnaVerif.Lemmas.CliUpdate
/-!
# C11 — append and update never lose or duplicate entries
Model: `Cli.appendOp`, `Cli.updateOp` (the scan over the old archive with the pending-target
list transcribed from update.rs after the `fix:`), `Cli.deleteOp`, on ordered entry lists.
For every archive, every walker result, every exclusion set and every time filter:
* `append_keeps_prefix` — after `append` the archive is all previous entries, unchanged, followed
  by the new ones;
* `update_keeps_untargeted` — every entry not named for update is still present, unchanged, in
  the same relative order (and nothing else with such a name appears);
* `update_each_target_once` / `update_current_contents` — every named path that exists on disk is
  present exactly once, with its current contents unless it was excluded or filtered out by the
  time condition (then the old entry is kept: `update_filtered_keeps_old`);
* `history_invariant` — name uniqueness is preserved by every operation, so the two statements
  above apply after any interleaving of create / append (of new names) / update / delete.
The uniqueness hypothesis is needed: on an archive that already holds a name twice `update`
re-creates it once and leaves the second stale copy (`Lemmas/CliUpdate.lean`, examples) — such
archives are produced only by appending a path that is already archived.
-/
namespace Pna.C11
open Pna Pna.Cli

theorem append_keeps_prefix (a ts : List UEntry) :
    appendOp a ts = a ++ ts ∧ (appendOp a ts).take a.length = a ∧ (appendOp a ts).drop a.length = ts :=
  append_spec a ts

theorem update_keeps_untargeted (excl : Bytes → Bool) (need : UEntry → Bool) (a ts : List UEntry) :
    (updateOp excl need a ts).filter (fun e => !(names ts).contains e.name) = a.filter (fun e => !(names ts).contains e.name) :=
  update_untouched excl need a ts

theorem update_each_target_once (excl : Bytes → Bool) (need : UEntry → Bool) (a ts : List UEntry)
    (ha : (names a).Nodup) (ht : (names ts).Nodup) (t : UEntry) (h : t ∈ ts) :
    ((updateOp excl need a ts).filter (fun e => e.name == t.name)).length = 1 :=
  update_target_once excl need a ts ha ht t h

theorem update_current_contents (excl : Bytes → Bool) (need : UEntry → Bool) (a ts : List UEntry)
    (ha : (names a).Nodup) (ht : (names ts).Nodup) (t : UEntry) (h : t ∈ ts)
    (hcur : ∀ e ∈ a, e.name = t.name → (excl e.name = false ∧ need e = true)) : t ∈ updateOp excl need a ts :=
  update_target_current excl need a ts ha ht t h hcur

theorem update_filtered_keeps_old (excl : Bytes → Bool) (need : UEntry → Bool) (a ts : List UEntry)
    (ha : (names a).Nodup) (e : UEntry) (he : e ∈ a) (hin : (names ts).contains e.name = true)
    (hk : ¬ (excl e.name = false ∧ need e = true)) : e ∈ updateOp excl need a ts :=
  update_target_kept excl need a ts ha e he hin hk

theorem update_invents_nothing (excl : Bytes → Bool) (need : UEntry → Bool) (a ts : List UEntry) :
    ∀ e ∈ updateOp excl need a ts, e ∈ a ∨ e ∈ ts := update_sound excl need a ts

/-- operations of a history -/
inductive Op where
  | append (ts : List UEntry)
  | update (excl : List Bytes) (need : List Bytes) (ts : List UEntry)
  | delete (sel : List Bytes)

def step (a : List UEntry) : Op → List UEntry
  | .append ts => appendOp a ts
  | .update excl need ts => updateOp (fun n => excl.contains n) (fun e => need.contains e.name) a ts
  | .delete sel => deleteOp (fun n => sel.contains n) a

/-- an operation is admissible when the walker's result has unique names and an append adds only
    names that are not archived yet -/
def Op.ok (a : List UEntry) : Op → Prop
  | .append ts => (names ts).Nodup ∧ ∀ n ∈ names ts, n ∉ names a
  | .update _ _ ts => (names ts).Nodup
  | .delete _ => True

theorem step_invariant (a : List UEntry) (op : Op) (ha : (names a).Nodup) (hop : op.ok a) : (names (step a op)).Nodup := by
  cases op with
  | append ts => exact append_nodup a ts ha hop.1 hop.2
  | update excl need ts => exact update_nodup _ _ a ts ha hop
  | delete sel => exact delete_nodup _ a ha

/-- **History invariant**: after any admissible sequence of operations names stay unique. -/
theorem history_invariant (ops : List Op) (a : List UEntry) (ha : (names a).Nodup)
    (hops : ∀ (pre : List Op) (op : Op) (post : List Op), ops = pre ++ op :: post → op.ok (pre.foldl step a)) :
    (names (ops.foldl step a)).Nodup := by
  induction ops generalizing a with
  | nil => exact ha
  | cons op ops ih =>
    simp only [List.foldl_cons]
    apply ih
    · exact step_invariant a op ha (hops [] op ops rfl)
    · intro pre op' post h
      have := hops (op :: pre) op' post (by simp [h])
      simpa using this

example : updateOp (fun _ => false) (fun _ => true) [⟨[1],[10]⟩, ⟨[2],[20]⟩, ⟨[3],[30]⟩] [⟨[2],[21]⟩, ⟨[4],[40]⟩]
    = [⟨[1],[10]⟩, ⟨[3],[30]⟩, ⟨[2],[21]⟩, ⟨[4],[40]⟩] := by decide

end Pna.C11
