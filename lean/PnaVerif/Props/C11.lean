import PnaVerif.Lemmas.CliUpdate
/-!
# C11 — append and update never lose or duplicate entries
Model: `Cli.appendOp`, `Cli.updateOp` (the scan over the old archive transcribed from update.rs
after the two `fix:` commits: the walker's result is de-duplicated by entry name, and every later
archived entry of a re-created name is left out), `Cli.deleteOp`, on ordered entry lists.

For EVERY archive (a path may be archived several times — each `append` of an archived path adds an
entry), EVERY walker result (overlapping arguments yield a path several times), every exclusion
set and every time filter — there is no uniqueness hypothesis anywhere:
* `append_keeps_prefix` — after `append` the archive is all previous entries, unchanged, followed
  by the new ones;
* `update_keeps_untargeted` — every entry not named for update is still present, unchanged, in
  the same relative order (and nothing else with such a name appears);
* `update_each_target_once` / `update_current_contents` — every named path that exists on disk and
  whose first archived entry (if any) is not excluded / filtered out by the time condition is
  present exactly once, as the first target of that name (its current contents);
* `update_filtered_keeps_old` — otherwise all archived entries of that name are kept, unchanged;
* `update_invents_nothing`;
* `update_idempotent_*` — a second identical update yields the same entries; the same list when
  the targets agree on being re-created (`update_idempotent_exact`), and in general the list
  described by `update_twice_exact`;
* `history_update_exact` — the statements hold for the archive reached by ANY sequence of
  operations: no invariant on histories is needed.
`legacy_*` are the two concrete inputs on which the code before the repairs was wrong.
-/
namespace Pna.C11
open Pna Pna.Cli

/-! ## (1) append -/

theorem append_keeps_prefix (a ts : List UEntry) :
    appendOp a ts = a ++ ts ∧ (appendOp a ts).take a.length = a ∧ (appendOp a ts).drop a.length = ts :=
  append_spec a ts

example : appendOp [⟨[1],[10]⟩, ⟨[1],[11]⟩] [⟨[1],[12]⟩] = [⟨[1],[10]⟩, ⟨[1],[11]⟩, ⟨[1],[12]⟩] := by
  decide

/-! ## (2) update leaves the untargeted entries alone -/

theorem update_keeps_untargeted (excl : Bytes → Bool) (need : UEntry → Bool) (a ts : List UEntry) :
    (updateOp excl need a ts).filter (fun e => !(names ts).contains e.name) =
      a.filter (fun e => !(names ts).contains e.name) :=
  update_untouched excl need a ts

/-- duplicates on both sides; the untargeted `[5]` (twice) and `[6]` stay, in order -/
example : (updateOp (fun _ => false) (fun _ => true)
      [⟨[5],[50]⟩, ⟨[2],[1]⟩, ⟨[5],[51]⟩, ⟨[2],[2]⟩, ⟨[6],[60]⟩] [⟨[2],[21]⟩, ⟨[2],[22]⟩]).filter
        (fun e => !(names [⟨[2],[21]⟩, ⟨[2],[22]⟩]).contains e.name) =
    [⟨[5],[50]⟩, ⟨[5],[51]⟩, ⟨[6],[60]⟩] := by decide

/-! ## (3), (4) every target that is to be written is there exactly once, with its current contents -/

/-- For every target `t` such that the first archived entry of its name (if any) is not excluded
    and needs the update, the result holds exactly one entry of that name — however often the
    archive and the walker result hold that name. -/
theorem update_each_target_once (excl : Bytes → Bool) (need : UEntry → Bool) (a ts : List UEntry)
    (t : UEntry) (h : t ∈ ts)
    (hcur : ∀ e, a.find? (·.name == t.name) = some e → (excl e.name = false ∧ need e = true)) :
    ((updateOp excl need a ts).filter (fun e => e.name == t.name)).length = 1 :=
  update_target_once excl need a ts t h hcur

/-- … and that entry is the FIRST target of that name (`create_entry` reads the same file for
    every occurrence of a path in the walker's result). -/
theorem update_current_contents (excl : Bytes → Bool) (need : UEntry → Bool) (a ts : List UEntry)
    (t : UEntry) (h : t ∈ ts)
    (hcur : ∀ e, a.find? (·.name == t.name) = some e → (excl e.name = false ∧ need e = true)) :
    ∃ t0, ts.find? (·.name == t.name) = some t0 ∧ t0 ∈ updateOp excl need a ts ∧
      (updateOp excl need a ts).filter (fun e => e.name == t.name) = [t0] := by
  rcases exists_first_of_mem h with ⟨t0, h0⟩
  exact ⟨t0, h0, update_target_first excl need a ts t t0 h0 hcur,
    update_target_exact excl need a ts t.name t0 h0 hcur⟩

/-- with a walker result of unique names this is the old statement: the target itself is there -/
theorem update_current_contents_nodup (excl : Bytes → Bool) (need : UEntry → Bool)
    (a ts : List UEntry) (ht : (names ts).Nodup) (t : UEntry) (h : t ∈ ts)
    (hcur : ∀ e, a.find? (·.name == t.name) = some e → (excl e.name = false ∧ need e = true)) :
    t ∈ updateOp excl need a ts :=
  update_target_current excl need a ts ht t h hcur

/-- non-vacuity of (3)/(4): the name `[2]` three times in the archive (first one outdated), twice
    in the walker result; the hypothesis holds for the second occurrence `⟨[2],[22]⟩` too -/
example :
    let a : List UEntry := [⟨[2],[1]⟩, ⟨[5],[50]⟩, ⟨[2],[2]⟩, ⟨[2],[3]⟩]
    let ts : List UEntry := [⟨[2],[21]⟩, ⟨[4],[40]⟩, ⟨[2],[22]⟩]
    (⟨[2],[22]⟩ : UEntry) ∈ ts ∧
    (∀ e, a.find? (·.name == [2]) = some e → ((fun _ => false) e.name = false ∧ (fun e : UEntry => e.body != [3]) e = true)) ∧
    ts.find? (·.name == [2]) = some ⟨[2],[21]⟩ ∧
    updateOp (fun _ => false) (fun e => e.body != [3]) a ts = [⟨[5],[50]⟩, ⟨[2],[21]⟩, ⟨[4],[40]⟩] := by
  refine ⟨by decide, ?_, by decide, by decide⟩
  intro e he
  obtain rfl : (⟨[2],[1]⟩ : UEntry) = e := by simpa using he
  decide

example : ((updateOp (fun _ => false) (fun e => e.body != [3])
      [⟨[2],[1]⟩, ⟨[5],[50]⟩, ⟨[2],[2]⟩, ⟨[2],[3]⟩] [⟨[2],[21]⟩, ⟨[4],[40]⟩, ⟨[2],[22]⟩]).filter
        (fun e => e.name == [2])).length = 1 :=
  update_each_target_once _ _ _ _ ⟨[2],[22]⟩ (by decide)
    (fun e he => by obtain rfl : (⟨[2],[1]⟩ : UEntry) = e := by simpa using he
                    decide)

/-! ## (5) excluded / up-to-date names keep all their archived entries -/

/-- If the first archived entry `e` of a name is excluded or does not need the update, the
    entries of that name are all kept, unchanged and in order, and the target (if the name is one)
    is not written.  (`he` says that `e` is the first archived entry of its name.) -/
theorem update_filtered_keeps_old (excl : Bytes → Bool) (need : UEntry → Bool) (a ts : List UEntry)
    (e : UEntry) (he : a.find? (·.name == e.name) = some e)
    (hk : ¬ (excl e.name = false ∧ need e = true)) :
    (updateOp excl need a ts).filter (fun x => x.name == e.name) =
      a.filter (fun x => x.name == e.name) :=
  update_target_kept excl need a ts e he hk

/-- non-vacuity: `[2]` three times in the archive and excluded, twice among the targets -/
example :
    let a : List UEntry := [⟨[2],[1]⟩, ⟨[5],[50]⟩, ⟨[2],[2]⟩, ⟨[2],[3]⟩]
    let ts : List UEntry := [⟨[2],[21]⟩, ⟨[4],[40]⟩, ⟨[2],[22]⟩]
    a.find? (·.name == [2]) = some ⟨[2],[1]⟩ ∧
    ¬ ((fun n => n == [2]) ([2] : Bytes) = false ∧ (fun _ : UEntry => true) ⟨[2],[1]⟩ = true) ∧
    updateOp (fun n => n == [2]) (fun _ => true) a ts =
      [⟨[2],[1]⟩, ⟨[5],[50]⟩, ⟨[2],[2]⟩, ⟨[2],[3]⟩, ⟨[4],[40]⟩] := by decide

example : (updateOp (fun n => n == [2]) (fun _ => true)
      [⟨[2],[1]⟩, ⟨[5],[50]⟩, ⟨[2],[2]⟩, ⟨[2],[3]⟩] [⟨[2],[21]⟩, ⟨[4],[40]⟩, ⟨[2],[22]⟩]).filter
        (fun x => x.name == [2]) = [⟨[2],[1]⟩, ⟨[2],[2]⟩, ⟨[2],[3]⟩] :=
  update_filtered_keeps_old _ _ _ _ ⟨[2],[1]⟩ (by decide) (by decide)

/-- the same with the time filter: the first archived `[2]` is up to date, a later one is not -/
example : updateOp (fun _ => false) (fun e => e.body != [1])
      [⟨[2],[1]⟩, ⟨[2],[2]⟩] [⟨[2],[21]⟩, ⟨[2],[22]⟩] = [⟨[2],[1]⟩, ⟨[2],[2]⟩] := by decide

/-! ## (6) nothing is invented -/

theorem update_invents_nothing (excl : Bytes → Bool) (need : UEntry → Bool) (a ts : List UEntry) :
    ∀ e ∈ updateOp excl need a ts, e ∈ a ∨ e ∈ ts := update_sound excl need a ts

example : ∀ e ∈ updateOp (fun _ => false) (fun _ => true) [⟨[2],[1]⟩, ⟨[3],[30]⟩, ⟨[2],[2]⟩]
      [⟨[2],[21]⟩, ⟨[2],[22]⟩],
    e ∈ [(⟨[2],[1]⟩ : UEntry), ⟨[3],[30]⟩, ⟨[2],[2]⟩] ∨ e ∈ [(⟨[2],[21]⟩ : UEntry), ⟨[2],[22]⟩] := by
  decide

/-- a name is in the result iff it is archived or a target: nothing is lost either -/
theorem update_names (excl : Bytes → Bool) (need : UEntry → Bool) (a ts : List UEntry) (n : Bytes) :
    n ∈ names (updateOp excl need a ts) ↔ n ∈ names a ∨ n ∈ names ts :=
  mem_names_update excl need a ts n

example : names (updateOp (fun n => n == [2]) (fun _ => true) [⟨[2],[1]⟩, ⟨[3],[30]⟩, ⟨[2],[2]⟩]
    [⟨[4],[40]⟩, ⟨[2],[22]⟩, ⟨[4],[41]⟩]) = [[2], [3], [2], [4]] := by decide

/-! ## (7) a second identical update -/

/-- the entries after a second identical update are those after the first (as a multiset) -/
theorem update_idempotent_entries (excl : Bytes → Bool) (need : UEntry → Bool) (a ts : List UEntry) :
    (updateOp excl need (updateOp excl need a ts) ts).Perm (updateOp excl need a ts) :=
  update_twice_perm excl need a ts

/-- … under every name the same entries in the same order … -/
theorem update_idempotent_by_name (excl : Bytes → Bool) (need : UEntry → Bool) (a ts : List UEntry)
    (n : Bytes) :
    (updateOp excl need (updateOp excl need a ts) ts).filter (fun e => e.name == n) =
      (updateOp excl need a ts).filter (fun e => e.name == n) :=
  update_twice_withName excl need a ts n

/-- … hence the same names, each as often as before. -/
theorem update_idempotent_names (excl : Bytes → Bool) (need : UEntry → Bool) (a ts : List UEntry) :
    (names (updateOp excl need (updateOp excl need a ts) ts)).Perm
      (names (updateOp excl need a ts)) :=
  (update_twice_perm excl need a ts).map _

/-- every target that was written by the first update is still there exactly once, unchanged -/
theorem update_idempotent_target (excl : Bytes → Bool) (need : UEntry → Bool) (a ts : List UEntry)
    (t : UEntry) (h : t ∈ ts)
    (hcur : ∀ e, a.find? (·.name == t.name) = some e → (excl e.name = false ∧ need e = true)) :
    ∃ t0, ts.find? (·.name == t.name) = some t0 ∧
      (updateOp excl need (updateOp excl need a ts) ts).filter (fun e => e.name == t.name) = [t0] := by
  rcases update_current_contents excl need a ts t h hcur with ⟨t0, h0, _, h1⟩
  exact ⟨t0, h0, (update_idempotent_by_name excl need a ts t.name).trans h1⟩

/-- **Full idempotence** needs one hypothesis: the targets agree on "not excluded and in need of
    the update" (all of them, e.g. no `--exclude` and no time filter; or none of them, e.g. a time
    filter that finds every freshly written entry up to date). -/
theorem update_idempotent_exact (excl : Bytes → Bool) (need : UEntry → Bool) (a ts : List UEntry)
    (h : ∀ t ∈ ts, ∀ u ∈ ts, (!excl t.name && need t) = (!excl u.name && need u)) :
    updateOp excl need (updateOp excl need a ts) ts = updateOp excl need a ts :=
  update_idempotent excl need a ts h

theorem update_idempotent_default (a ts : List UEntry) :
    updateOp (fun _ => false) (fun _ => true) (updateOp (fun _ => false) (fun _ => true) a ts) ts =
      updateOp (fun _ => false) (fun _ => true) a ts :=
  Cli.update_idempotent_default a ts

/-- without the hypothesis, exactly this happens: the first result is `K ++ Q` with `Q` made of
    targets; the second run moves the entries of `Q` that are re-created again behind the others. -/
theorem update_twice_exact (excl : Bytes → Bool) (need : UEntry → Bool) (a ts : List UEntry) :
    ∃ K Q, updateOp excl need a ts = K ++ Q ∧ (∀ q ∈ Q, q ∈ ts) ∧
      updateOp excl need (updateOp excl need a ts) ts =
        K ++ Q.filter (fun q => !(!excl q.name && need q)) ++ Q.filter (fun q => !excl q.name && need q) :=
  update_twice_shape excl need a ts

/-- non-vacuity (duplicates on both sides, excluded name, new names): twice = once -/
example : updateOp (fun n => n == [3]) (fun _ => true)
      (updateOp (fun n => n == [3]) (fun _ => true)
        [⟨[2],[1]⟩, ⟨[3],[30]⟩, ⟨[2],[2]⟩, ⟨[3],[31]⟩] [⟨[2],[21]⟩, ⟨[3],[32]⟩, ⟨[2],[22]⟩, ⟨[4],[40]⟩])
      [⟨[2],[21]⟩, ⟨[3],[32]⟩, ⟨[2],[22]⟩, ⟨[4],[40]⟩] =
    [⟨[3],[30]⟩, ⟨[3],[31]⟩, ⟨[2],[21]⟩, ⟨[4],[40]⟩] ∧
    updateOp (fun n => n == [3]) (fun _ => true)
        [⟨[2],[1]⟩, ⟨[3],[30]⟩, ⟨[2],[2]⟩, ⟨[3],[31]⟩] [⟨[2],[21]⟩, ⟨[3],[32]⟩, ⟨[2],[22]⟩, ⟨[4],[40]⟩] =
    [⟨[3],[30]⟩, ⟨[3],[31]⟩, ⟨[2],[21]⟩, ⟨[4],[40]⟩] := by decide

/-- the hypothesis of `update_idempotent_exact` cannot be dropped: a NEW path that is excluded
    stays in place while the one before it is re-created again and moves behind it -/
example : ¬ ∀ (excl : Bytes → Bool) (need : UEntry → Bool) (a ts : List UEntry),
    updateOp excl need (updateOp excl need a ts) ts = updateOp excl need a ts := by
  intro h
  exact absurd (h (fun n => n == [2]) (fun _ => true) [] [⟨[1],[10]⟩, ⟨[2],[20]⟩]) (by decide)

/-! ## (8) histories: any interleaving of append / update / delete -/

/-- operations of a history (creation is the initial archive); the exclusion set and the time
    filter of an update are arbitrary predicates -/
inductive Op where
  | append (ts : List UEntry)
  | update (excl : Bytes → Bool) (need : UEntry → Bool) (ts : List UEntry)
  | delete (sel : Bytes → Bool)

def step (a : List UEntry) : Op → List UEntry
  | .append ts => appendOp a ts
  | .update excl need ts => updateOp excl need a ts
  | .delete sel => deleteOp sel a

/-- **History theorem**: let `b` be the archive reached from ANY archive `a` by ANY sequence of
    operations — appends of already archived paths, updates with overlapping arguments, deletes —
    without any admissibility condition.  For every target whose first archived entry in `b` (if
    any) is not excluded / filtered out, the archive after `update` holds exactly one entry of that
    name, and it is the first target of that name. -/
theorem history_update_exact (ops : List Op) (a : List UEntry) (excl : Bytes → Bool)
    (need : UEntry → Bool) (ts : List UEntry) (t : UEntry) (h : t ∈ ts)
    (hcur : ∀ e, (ops.foldl step a).find? (·.name == t.name) = some e →
      (excl e.name = false ∧ need e = true)) :
    ∃ t0, ts.find? (·.name == t.name) = some t0 ∧
      t0 ∈ step (ops.foldl step a) (.update excl need ts) ∧
      (step (ops.foldl step a) (.update excl need ts)).filter (fun e => e.name == t.name) = [t0] ∧
      ((step (ops.foldl step a) (.update excl need ts)).filter (fun e => e.name == t.name)).length = 1 := by
  rcases update_current_contents excl need (ops.foldl step a) ts t h hcur with ⟨t0, h0, h1, h2⟩
  exact ⟨t0, h0, h1, h2, by rw [show step (ops.foldl step a) (.update excl need ts) =
    updateOp excl need (ops.foldl step a) ts from rfl, h2]; rfl⟩

/-- … every entry not named for update is still present and unchanged, after any history … -/
theorem history_update_untargeted (ops : List Op) (a : List UEntry) (excl : Bytes → Bool)
    (need : UEntry → Bool) (ts : List UEntry) :
    (step (ops.foldl step a) (.update excl need ts)).filter (fun e => !(names ts).contains e.name) =
      (ops.foldl step a).filter (fun e => !(names ts).contains e.name) :=
  update_keeps_untargeted excl need _ ts

/-- … and append keeps whatever the history has produced as a prefix. -/
theorem history_append_prefix (ops : List Op) (a ts : List UEntry) :
    step (ops.foldl step a) (.append ts) = ops.foldl step a ++ ts :=
  rfl

/-- non-vacuity: create `[q:v1, z]`, append `q:v2` (already archived), update with an overlapping
    walker result, delete `z`, append `q:v4` and `q:v5` — then update `[q:v6, q:v6, f]`: one `q`,
    the current one; the hypothesis of `history_update_exact` holds for `q` -/
example :
    let ops : List Op := [.append [⟨[113],[2]⟩], .update (fun _ => false) (fun _ => true)
      [⟨[113],[3]⟩, ⟨[113],[3]⟩], .delete (fun n => n == [122]), .append [⟨[113],[4]⟩, ⟨[113],[5]⟩]]
    let b := ops.foldl step [⟨[113],[1]⟩, ⟨[122],[9]⟩]
    b = [⟨[113],[3]⟩, ⟨[113],[4]⟩, ⟨[113],[5]⟩] ∧
    (∀ e, b.find? (·.name == [113]) = some e →
      ((fun _ => false) e.name = false ∧ (fun _ : UEntry => true) e = true)) ∧
    step b (.update (fun _ => false) (fun _ => true) [⟨[113],[6]⟩, ⟨[113],[6]⟩, ⟨[102],[7]⟩]) =
      [⟨[113],[6]⟩, ⟨[102],[7]⟩] := by
  refine ⟨by decide, fun e _ => ⟨rfl, rfl⟩, by decide⟩

/-! ### name uniqueness, where it holds, is still preserved (secondary) -/

/-- an `append` is *fresh* when it adds unique names that are not archived yet; `update` and
    `delete` need no condition (the walker result of an update may repeat names) -/
def Op.ok (a : List UEntry) : Op → Prop
  | .append ts => (names ts).Nodup ∧ ∀ n ∈ names ts, n ∉ names a
  | .update _ _ _ => True
  | .delete _ => True

theorem step_invariant (a : List UEntry) (op : Op) (ha : (names a).Nodup) (hop : op.ok a) :
    (names (step a op)).Nodup := by
  cases op with
  | append ts => exact append_nodup a ts ha hop.1 hop.2
  | update excl need ts => exact update_nodup excl need a ts ha
  | delete sel => exact delete_nodup sel a ha

/-- after any sequence of operations whose appends are fresh, names stay unique -/
theorem history_invariant (ops : List Op) (a : List UEntry) (ha : (names a).Nodup)
    (hops : ∀ (pre : List Op) (op : Op) (post : List Op), ops = pre ++ op :: post → op.ok (pre.foldl step a)) :
    (names (ops.foldl step a)).Nodup := by
  induction ops generalizing a with
  | nil => exact ha
  | cons op ops ih =>
    simp only [List.foldl_cons]
    apply ih
    · exact step_invariant a op ha (hops [] op ops rfl)
    · intro pre op' post h
      have := hops (op :: pre) op' post (by simp [h])
      simpa using this

example : (names (step [⟨[1],[10]⟩, ⟨[2],[20]⟩]
    (.update (fun _ => false) (fun _ => true) [⟨[2],[21]⟩, ⟨[3],[30]⟩, ⟨[2],[22]⟩, ⟨[3],[31]⟩]))).Nodup ∧
    (names [(⟨[1],[10]⟩ : UEntry), ⟨[2],[20]⟩]).Nodup := by decide

/-! ## (9) the code before the repairs: the two concrete failures -/

/-- create `[q:v1]`, append `[q:v2]`, update `[q:v3]`: the legacy update re-creates the first
    entry and carries the stale second one over — two entries named `q` -/
theorem legacy_update_keeps_stale_entry :
    updateOpLegacy (fun _ => false) (fun _ => true)
        (appendOp [⟨[113], [1]⟩] [⟨[113], [2]⟩]) [⟨[113], [3]⟩] =
      [⟨[113], [2]⟩, ⟨[113], [3]⟩] ∧
    ((updateOpLegacy (fun _ => false) (fun _ => true)
        (appendOp [⟨[113], [1]⟩] [⟨[113], [2]⟩]) [⟨[113], [3]⟩]).filter
          (fun e => e.name == [113])).length = 2 ∧
    updateOp (fun _ => false) (fun _ => true)
        (appendOp [⟨[113], [1]⟩] [⟨[113], [2]⟩]) [⟨[113], [3]⟩] = [⟨[113], [3]⟩] := by decide

/-- update of `[z]` with the walker result `[f, f]`: the legacy update adds `f` twice -/
theorem legacy_update_adds_target_twice :
    updateOpLegacy (fun _ => false) (fun _ => true) [⟨[122], [1]⟩] [⟨[102], [7]⟩, ⟨[102], [7]⟩] =
      [⟨[122], [1]⟩, ⟨[102], [7]⟩, ⟨[102], [7]⟩] ∧
    ((updateOpLegacy (fun _ => false) (fun _ => true) [⟨[122], [1]⟩]
        [⟨[102], [7]⟩, ⟨[102], [7]⟩]).filter (fun e => e.name == [102])).length = 2 ∧
    updateOp (fun _ => false) (fun _ => true) [⟨[122], [1]⟩] [⟨[102], [7]⟩, ⟨[102], [7]⟩] =
      [⟨[122], [1]⟩, ⟨[102], [7]⟩] := by decide

/-- on the inputs the old theorems covered (unique names on both sides) the repairs change
    nothing -/
theorem legacy_agrees_on_unique_names (excl : Bytes → Bool) (need : UEntry → Bool)
    (a ts : List UEntry) (ha : (names a).Nodup) (ht : (names ts).Nodup) :
    updateOp excl need a ts = updateOpLegacy excl need a ts :=
  updateOp_eq_legacy excl need a ts ha ht

example : (names [(⟨[1],[10]⟩ : UEntry), ⟨[2],[20]⟩]).Nodup ∧ (names [(⟨[2],[21]⟩ : UEntry), ⟨[3],[30]⟩]).Nodup ∧
    updateOpLegacy (fun _ => false) (fun _ => true) [⟨[1],[10]⟩, ⟨[2],[20]⟩] [⟨[2],[21]⟩, ⟨[3],[30]⟩] =
      [⟨[1],[10]⟩, ⟨[2],[21]⟩, ⟨[3],[30]⟩] := by decide

end Pna.C11
