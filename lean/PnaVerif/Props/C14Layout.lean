import PnaVerif.Lemmas.Sizes
import PnaVerif.Lemmas.Capstone3
/-!
# C14 — layout clauses of well-formedness

"Complete entries (FHED to FEND or SHED to SEND, with the key-derivation string before the data stream),
a continuation marker only directly before the end marker, the end marker last with nothing after it."

* `serN_shape`, `serS_shape`         first chunk FHED (SHED), last chunk FEND (SEND); what lies between is an
                                     `extra` chunk or has one of the listed types — hence (`serN_mid_clean`,
                                     `serS_mid_clean`) no header / end marker in between when `extra` has none;
* `serN_phsf_before_data`, `serS_phsf_before_data`   every PHSF chunk precedes every FDAT (SDAT) chunk;
* `archive_tail`, `archive_markers_position`          AEND is last, ANXT (if any) directly before it, and neither
                                     occurs anywhere else;
* `archive_head`                     signature, then AHED with 8 bytes, the part number big-endian in the last four.
-/
namespace Pna.C14L
open Pna Pna.Capstone ChunkType

-- ---------------------------------------------------------------- (6) FHED … FEND, SHED … SEND

/-- everything `serN` writes between the header and the end marker -/
def serNMid (e : NormalEntry) : List Chunk :=
  e.extra
  ++ optChunk fSIZ (e.md.rawSize.map encFSIZ)
  ++ optChunk PHSF e.phsf
  ++ (e.data.flatMap fun d => (rustChunks maxChunkData d).map fun u => ⟨FDAT, u⟩)
  ++ optChunk cTIM (e.md.created.map encTime)
  ++ optChunk mTIM (e.md.modified.map encTime)
  ++ optChunk aTIM (e.md.accessed.map encTime)
  ++ optChunk fPRM (e.md.permission.map encFPRM)
  ++ e.xattrs.map (fun x => ⟨xATR, encXATR x⟩)

theorem serN_eq_mid (e : NormalEntry) : serN e = ⟨FHED, encFHED e.header⟩ :: serNMid e ++ [⟨FEND, []⟩] := by
  simp only [serN, serNMid, List.cons_append, List.nil_append, List.append_assoc]

/-- every chunk between header and end marker is an `extra` chunk or one of the eight entry-level types -/
theorem mem_serNMid (e : NormalEntry) (c : Chunk) (hc : c ∈ serNMid e) :
    c ∈ e.extra ∨ c.ty = fSIZ ∨ c.ty = PHSF ∨ c.ty = FDAT ∨ c.ty = cTIM ∨ c.ty = mTIM ∨ c.ty = aTIM ∨
      c.ty = fPRM ∨ c.ty = xATR := by
  simp only [serNMid, List.mem_append, List.mem_flatMap, List.mem_map] at hc
  rcases hc with (((((((hc | hc) | hc) | hc) | hc) | hc) | hc) | hc) | hc
  · exact Or.inl hc
  · exact Or.inr (Or.inl (mem_optChunk hc))
  · exact Or.inr (Or.inr (Or.inl (mem_optChunk hc)))
  · obtain ⟨d, _, u, _, rfl⟩ := hc; exact Or.inr (Or.inr (Or.inr (Or.inl rfl)))
  · exact Or.inr (Or.inr (Or.inr (Or.inr (Or.inl (mem_optChunk hc)))))
  · exact Or.inr (Or.inr (Or.inr (Or.inr (Or.inr (Or.inl (mem_optChunk hc))))))
  · exact Or.inr (Or.inr (Or.inr (Or.inr (Or.inr (Or.inr (Or.inl (mem_optChunk hc)))))))
  · exact Or.inr (Or.inr (Or.inr (Or.inr (Or.inr (Or.inr (Or.inr (Or.inl (mem_optChunk hc))))))))
  · obtain ⟨x, _, rfl⟩ := hc; exact Or.inr (Or.inr (Or.inr (Or.inr (Or.inr (Or.inr (Or.inr (Or.inr rfl)))))))

/-- the types that may not occur inside an entry: entry/block headers and the four structural markers -/
def Structural (t : ChunkType) : Prop :=
  t = FHED ∨ t = FEND ∨ t = SHED ∨ t = SEND ∨ t = AHED ∨ t = ANXT ∨ t = AEND

instance (t : ChunkType) : Decidable (Structural t) := by unfold Structural; infer_instance

/-- **(6, normal entries)** A serialised entry starts with its FHED chunk and ends with FEND; every chunk in
    between is one of `e.extra` (written verbatim, arbitrary) or of type fSIZ/PHSF/FDAT/cTIM/mTIM/aTIM/fPRM/xATR.
    This is all that is true for arbitrary `extra` (see the counterexample below). -/
theorem serN_shape (e : NormalEntry) :
    ∃ mid, serN e = ⟨FHED, encFHED e.header⟩ :: mid ++ [⟨FEND, []⟩] ∧
      ∀ c ∈ mid, c ∈ e.extra ∨ c.ty = fSIZ ∨ c.ty = PHSF ∨ c.ty = FDAT ∨ c.ty = cTIM ∨ c.ty = mTIM ∨
        c.ty = aTIM ∨ c.ty = fPRM ∨ c.ty = xATR :=
  ⟨serNMid e, serN_eq_mid e, mem_serNMid e⟩

/-- **(6, consequence)** With no header or marker among `extra` (`NoMarkers` of Lemmas/ArchiveRt, and no
    FHED/SHED/AHED), there is exactly one FHED — the first chunk — and one FEND — the last —, and no other
    header or marker in between: the entry is complete and self-delimiting. -/
theorem serN_mid_clean (e : NormalEntry) (hx : ∀ c ∈ e.extra, ¬ Structural c.ty) :
    ∃ mid, serN e = ⟨FHED, encFHED e.header⟩ :: mid ++ [⟨FEND, []⟩] ∧ ∀ c ∈ mid, ¬ Structural c.ty := by
  refine ⟨serNMid e, serN_eq_mid e, ?_⟩
  intro c hc
  rcases mem_serNMid e c hc with h | h | h | h | h | h | h | h | h
  · exact hx c h
  all_goals (rw [h]; decide)

/-- in the vocabulary of the brief: `NoMarkers e.extra` and no FHED in `extra` give "no FHED and no FEND in mid" -/
theorem serN_mid_no_FHED_FEND (e : NormalEntry) (hm : NoMarkers e.extra) (hh : ∀ c ∈ e.extra, c.ty ≠ FHED) :
    ∃ mid, serN e = ⟨FHED, encFHED e.header⟩ :: mid ++ [⟨FEND, []⟩] ∧
      ∀ c ∈ mid, c.ty ≠ FHED ∧ c.ty ≠ FEND ∧ c.ty ≠ SEND ∧ c.ty ≠ ANXT ∧ c.ty ≠ AEND := by
  refine ⟨serNMid e, serN_eq_mid e, ?_⟩
  intro c hc
  rcases mem_serNMid e c hc with h | h | h | h | h | h | h | h | h
  · exact ⟨hh c h, hm c h⟩
  all_goals (rw [h]; decide)

theorem serN_head_last (e : NormalEntry) :
    (serN e).head? = some ⟨FHED, encFHED e.header⟩ ∧ (serN e).getLast? = some ⟨FEND, []⟩ := by
  refine ⟨rfl, ?_⟩
  rw [serN_eq_mid, List.getLast?_append]
  rfl

/-- the unconditional reading "no FEND between header and end marker" is false: `extra` is written verbatim
    (and `NormalEntry.WF` does not exclude SEND/ANXT/AEND there either, see Lemmas/ArchiveRt) -/
example : ¬ ∀ e : NormalEntry, ∀ mid, serN e = ⟨FHED, encFHED e.header⟩ :: mid ++ [⟨FEND, []⟩] →
    ∀ c ∈ mid, c.ty ≠ FEND := by
  intro h
  exact h ⟨⟨0, 0, 0, 0, 0, 0, []⟩, none, [⟨FEND, []⟩], [], {}, []⟩ [⟨FEND, []⟩] (by decide +kernel)
    ⟨FEND, []⟩ (by simp) rfl

/-- everything `serS` writes between the header and the end marker -/
def serSMid (s : SolidEntry) : List Chunk :=
  s.extra ++ optChunk PHSF s.phsf ++ s.data.map (fun d => ⟨SDAT, d⟩)

theorem serS_eq_mid (s : SolidEntry) : serS s = ⟨SHED, encSHED s.header⟩ :: serSMid s ++ [⟨SEND, []⟩] := by
  simp only [serS, serSMid, List.cons_append, List.nil_append, List.append_assoc]

theorem mem_serSMid (s : SolidEntry) (c : Chunk) (hc : c ∈ serSMid s) :
    c ∈ s.extra ∨ c.ty = PHSF ∨ c.ty = SDAT := by
  simp only [serSMid, List.mem_append, List.mem_map] at hc
  rcases hc with (hc | hc) | hc
  · exact Or.inl hc
  · exact Or.inr (Or.inl (mem_optChunk hc))
  · obtain ⟨d, _, rfl⟩ := hc; exact Or.inr (Or.inr rfl)

/-- **(6, solid blocks)** SHED first, SEND last, in between `extra` chunks, PHSF, SDAT. -/
theorem serS_shape (s : SolidEntry) :
    ∃ mid, serS s = ⟨SHED, encSHED s.header⟩ :: mid ++ [⟨SEND, []⟩] ∧
      ∀ c ∈ mid, c ∈ s.extra ∨ c.ty = PHSF ∨ c.ty = SDAT :=
  ⟨serSMid s, serS_eq_mid s, mem_serSMid s⟩

theorem serS_mid_clean (s : SolidEntry) (hx : ∀ c ∈ s.extra, ¬ Structural c.ty) :
    ∃ mid, serS s = ⟨SHED, encSHED s.header⟩ :: mid ++ [⟨SEND, []⟩] ∧ ∀ c ∈ mid, ¬ Structural c.ty := by
  refine ⟨serSMid s, serS_eq_mid s, ?_⟩
  intro c hc
  rcases mem_serSMid s c hc with h | h | h
  · exact hx c h
  all_goals (rw [h]; decide)

theorem serS_head_last (s : SolidEntry) :
    (serS s).head? = some ⟨SHED, encSHED s.header⟩ ∧ (serS s).getLast? = some ⟨SEND, []⟩ := by
  refine ⟨rfl, ?_⟩
  rw [serS_eq_mid, List.getLast?_append]
  rfl

-- the CBC entry of the example archive: a private chunk among `extra`, size, PHSF, data, mtime, owner, xattr
example : (serN (buildNormal exCbc exA)).map (·.ty)
    = [FHED, ⟨109, 121, 84, 121⟩, fSIZ, PHSF, FDAT, FDAT, mTIM, fPRM, xATR, FEND] := by decide +kernel
example : ∀ c ∈ (buildNormal exCbc exA).extra, ¬ Structural c.ty := by decide +kernel
example : NoMarkers (buildNormal exCbc exA).extra ∧ ∀ c ∈ (buildNormal exCbc exA).extra, c.ty ≠ FHED := by
  constructor
  · show ∀ c ∈ (buildNormal exCbc exA).extra, _
    decide +kernel
  · decide +kernel
example : (serS (buildSolid exCbcMask [exC, exD])).map (·.ty) = [SHED, PHSF, SDAT, SDAT, SDAT, SDAT, SDAT, SDAT, SDAT, SDAT, SEND] := by
  decide +kernel
example : ∀ c ∈ (buildSolid exCbcMask [exC, exD]).extra, ¬ Structural c.ty := by decide +kernel

-- ---------------------------------------------------------------- (7) key-derivation string before the data

/-- **(7, split form)** `serN e` is a part without FDAT followed by a part without PHSF. -/
theorem serN_phsf_data_split (e : NormalEntry)
    (hx : ∀ c ∈ e.extra, c.ty ≠ ChunkType.FDAT ∧ c.ty ≠ ChunkType.PHSF) :
    ∃ pre post, serN e = pre ++ post ∧ (∀ c ∈ pre, c.ty ≠ FDAT) ∧ (∀ c ∈ post, c.ty ≠ PHSF) := by
  refine ⟨[⟨FHED, encFHED e.header⟩] ++ e.extra ++ optChunk fSIZ (e.md.rawSize.map encFSIZ) ++ optChunk PHSF e.phsf,
    (e.data.flatMap fun d => (rustChunks maxChunkData d).map fun u => ⟨FDAT, u⟩)
      ++ optChunk cTIM (e.md.created.map encTime) ++ optChunk mTIM (e.md.modified.map encTime)
      ++ optChunk aTIM (e.md.accessed.map encTime) ++ optChunk fPRM (e.md.permission.map encFPRM)
      ++ e.xattrs.map (fun x => ⟨xATR, encXATR x⟩) ++ [⟨FEND, []⟩], ?_, ?_, ?_⟩
  · simp only [serN, List.append_assoc]
  · intro c hc
    simp only [List.mem_append, List.mem_singleton] at hc
    rcases hc with ((hc | hc) | hc) | hc
    · rw [hc]; exact (by decide : FHED ≠ FDAT)
    · exact (hx c hc).1
    · rw [mem_optChunk hc]; decide
    · rw [mem_optChunk hc]; decide
  · intro c hc
    simp only [List.mem_append, List.mem_singleton, List.mem_flatMap, List.mem_map] at hc
    rcases hc with (((((hc | hc) | hc) | hc) | hc) | hc) | hc
    · obtain ⟨d, _, u, _, rfl⟩ := hc; exact (by decide : FDAT ≠ PHSF)
    · rw [mem_optChunk hc]; decide
    · rw [mem_optChunk hc]; decide
    · rw [mem_optChunk hc]; decide
    · rw [mem_optChunk hc]; decide
    · obtain ⟨x, _, rfl⟩ := hc; exact (by decide : xATR ≠ PHSF)
    · rw [hc]; exact (by decide : FEND ≠ PHSF)

/-- **(7, normal entries)** In a serialised entry every PHSF chunk comes before every FDAT chunk
    (`extra` must not itself contain FDAT or PHSF chunks; `NormalEntry.WF` implies that). -/
theorem serN_phsf_before_data (e : NormalEntry)
    (hx : ∀ c ∈ e.extra, c.ty ≠ ChunkType.FDAT ∧ c.ty ≠ ChunkType.PHSF)
    (i j : Nat) (hi : i < (serN e).length) (hj : j < (serN e).length)
    (hp : (serN e)[i].ty = ChunkType.PHSF) (hd : (serN e)[j].ty = ChunkType.FDAT) : i < j := by
  obtain ⟨pre, post, hs, h1, h2⟩ := serN_phsf_data_split e hx
  exact getElem_order_of_split (fun c => c.ty = PHSF) (fun c => c.ty = FDAT) (serN e) pre post hs h1 h2
    i j hi hj hp hd

theorem WF_extra_no_fdat_phsf {e : NormalEntry} (h : e.WF) :
    ∀ c ∈ e.extra, c.ty ≠ ChunkType.FDAT ∧ c.ty ≠ ChunkType.PHSF := by
  intro c hc
  have hu := h.2.2.2.2.2.2.2.2.1 c hc
  constructor
  · intro hf; rw [interpretedN_of_eq (Or.inr (Or.inr (Or.inl hf)))] at hu; cases hu
  · intro hf; rw [interpretedN_of_eq (Or.inr (Or.inl hf))] at hu; cases hu

/-- without the hypothesis the order can be violated: `extra` is written before the PHSF chunk -/
example : ¬ ∀ e : NormalEntry, ∀ i j, ∀ (hi : i < (serN e).length) (hj : j < (serN e).length),
    (serN e)[i].ty = ChunkType.PHSF → (serN e)[j].ty = ChunkType.FDAT → i < j := by
  intro h
  have := h ⟨⟨0, 0, 0, 0, 0, 0, []⟩, some [], [⟨FDAT, []⟩], [], {}, []⟩ 2 1 (by decide +kernel) (by decide +kernel)
    (by decide +kernel) (by decide +kernel)
  omega

theorem serS_phsf_data_split (s : SolidEntry)
    (hx : ∀ c ∈ s.extra, c.ty ≠ ChunkType.SDAT ∧ c.ty ≠ ChunkType.PHSF) :
    ∃ pre post, serS s = pre ++ post ∧ (∀ c ∈ pre, c.ty ≠ SDAT) ∧ (∀ c ∈ post, c.ty ≠ PHSF) := by
  refine ⟨[⟨SHED, encSHED s.header⟩] ++ s.extra ++ optChunk PHSF s.phsf,
    s.data.map (fun d => ⟨SDAT, d⟩) ++ [⟨SEND, []⟩], ?_, ?_, ?_⟩
  · simp only [serS, List.append_assoc]
  · intro c hc
    simp only [List.mem_append, List.mem_singleton] at hc
    rcases hc with (hc | hc) | hc
    · rw [hc]; exact (by decide : SHED ≠ SDAT)
    · exact (hx c hc).1
    · rw [mem_optChunk hc]; decide
  · intro c hc
    simp only [List.mem_append, List.mem_singleton, List.mem_map] at hc
    rcases hc with hc | hc
    · obtain ⟨d, _, rfl⟩ := hc; exact (by decide : SDAT ≠ PHSF)
    · rw [hc]; exact (by decide : SEND ≠ PHSF)

/-- **(7, solid blocks)** every PHSF chunk comes before every SDAT chunk (`SolidEntry.WF` implies the hypothesis) -/
theorem serS_phsf_before_data (s : SolidEntry)
    (hx : ∀ c ∈ s.extra, c.ty ≠ ChunkType.SDAT ∧ c.ty ≠ ChunkType.PHSF)
    (i j : Nat) (hi : i < (serS s).length) (hj : j < (serS s).length)
    (hp : (serS s)[i].ty = ChunkType.PHSF) (hd : (serS s)[j].ty = ChunkType.SDAT) : i < j := by
  obtain ⟨pre, post, hs, h1, h2⟩ := serS_phsf_data_split s hx
  exact getElem_order_of_split (fun c => c.ty = PHSF) (fun c => c.ty = SDAT) (serS s) pre post hs h1 h2
    i j hi hj hp hd

theorem solidWF_extra_no_sdat_phsf {s : SolidEntry} (h : s.WF) :
    ∀ c ∈ s.extra, c.ty ≠ ChunkType.SDAT ∧ c.ty ≠ ChunkType.PHSF :=
  fun c hc => ⟨(h.2.2.2.2.2.1 c hc).2.2.1, (h.2.2.2.2.2.1 c hc).2.2.2⟩

-- the example entry has its PHSF at index 3 and data at 4, 5; hypothesis and both premises hold
example : (∀ c ∈ (buildNormal exCbc exA).extra, c.ty ≠ ChunkType.FDAT ∧ c.ty ≠ ChunkType.PHSF) ∧
    ((serN (buildNormal exCbc exA))[3]?.map (·.ty)) = some PHSF ∧
    ((serN (buildNormal exCbc exA))[4]?.map (·.ty)) = some FDAT := by decide +kernel
example : (∀ c ∈ (buildSolid exCbcMask [exC, exD]).extra, c.ty ≠ ChunkType.SDAT ∧ c.ty ≠ ChunkType.PHSF) ∧
    ((serS (buildSolid exCbcMask [exC, exD]))[1]?.map (·.ty)) = some PHSF ∧
    ((serS (buildSolid exCbcMask [exC, exD]))[2]?.map (·.ty)) = some SDAT := by decide +kernel

-- ---------------------------------------------------------------- (8) the end of an archive

/-- the chunks of a written archive part (what `encodeArchive` frames after the signature) -/
def archiveChunks (n : Nat) (items : List (List Chunk)) (next : Bool) : List Chunk :=
  [⟨AHED, encAHED ⟨0, 0, n⟩⟩] ++ items.flatten ++ (if next then [⟨ANXT, []⟩] else []) ++ [⟨AEND, []⟩]

theorem encodeArchive_eq (n : Nat) (items : List (List Chunk)) (next : Bool) :
    encodeArchive n items next = signature ++ encodeChunks (archiveChunks n items next) := rfl

/-- complete items contain neither ANXT nor AEND -/
theorem items_no_ANXT_AEND (items : List (List Chunk)) (hw : ∀ it ∈ items, ItemWF it) :
    ∀ c ∈ items.flatten, c.ty ≠ ANXT ∧ c.ty ≠ AEND := by
  intro c hc
  obtain ⟨it, hit, hcit⟩ := List.mem_flatten.mp hc
  obtain ⟨body, last, rfl, hl, hb⟩ := hw it hit
  simp only [List.mem_append, List.mem_singleton] at hcit
  rcases hcit with hcit | rfl
  · exact ⟨(hb c hcit).2.2.1, (hb c hcit).2.2.2⟩
  · rcases hl with hl | hl <;> rw [hl] <;> decide

/-- **(8)** The bytes of an archive part end with the AEND chunk (nothing after it); with `next` set the chunk
    directly before it is ANXT; and complete items contain neither marker, so they occur only there. -/
theorem archive_tail (n : Nat) (items : List (List Chunk)) (next : Bool) :
    (∃ pre, encodeArchive n items next = pre ++ (Chunk.mk ChunkType.AEND []).encode) ∧
    (next = true → ∃ pre, encodeArchive n items next
        = pre ++ (Chunk.mk ChunkType.ANXT []).encode ++ (Chunk.mk ChunkType.AEND []).encode) ∧
    ((∀ it ∈ items, ItemWF it) → ∀ c ∈ items.flatten, c.ty ≠ ChunkType.ANXT ∧ c.ty ≠ ChunkType.AEND) := by
  refine ⟨?_, ?_, items_no_ANXT_AEND items⟩
  · refine ⟨signature ++ encodeChunks ([⟨AHED, encAHED ⟨0, 0, n⟩⟩] ++ items.flatten
      ++ (if next then [⟨ANXT, []⟩] else [])), ?_⟩
    rw [encodeArchive_eq, archiveChunks, encodeChunks_append, encodeChunks_singleton]
    simp only [List.append_assoc]
  · intro hn
    subst hn
    refine ⟨signature ++ encodeChunks ([⟨AHED, encAHED ⟨0, 0, n⟩⟩] ++ items.flatten), ?_⟩
    rw [encodeArchive_eq, archiveChunks, if_pos rfl, encodeChunks_append, encodeChunks_append,
      encodeChunks_singleton, encodeChunks_singleton]
    simp only [List.append_assoc]

theorem getElem_tail_one {α} (front : List α) (x : α) (i : Nat) (hi : i < (front ++ [x]).length)
    (hge : front.length ≤ i) : (front ++ [x])[i] = x ∧ i + 1 = (front ++ [x]).length := by
  have hlen : (front ++ [x]).length = front.length + 1 := by simp
  have h : i = front.length := by omega
  subst h
  exact ⟨by simp, by omega⟩

theorem getElem_tail_two {α} (front : List α) (x y : α) (i : Nat) (hi : i < (front ++ [x, y]).length)
    (hge : front.length ≤ i) :
    ((front ++ [x, y])[i] = x ∧ i + 2 = (front ++ [x, y]).length) ∨
    ((front ++ [x, y])[i] = y ∧ i + 1 = (front ++ [x, y]).length) := by
  have hlen : (front ++ [x, y]).length = front.length + 2 := by simp
  have h : i = front.length ∨ i = front.length + 1 := by omega
  rcases h with h | h
  · subst h
    exact Or.inl ⟨by simp, by omega⟩
  · subst h
    exact Or.inr ⟨by simp, by omega⟩

/-- **(8, chunk level)** In the chunk sequence of a written part built from complete items, an AEND chunk is the
    last chunk, and an ANXT chunk occurs only when `next` is set and then directly before the last chunk. -/
theorem archive_markers_position (n : Nat) (items : List (List Chunk)) (next : Bool)
    (hw : ∀ it ∈ items, ItemWF it) (i : Nat) (hi : i < (archiveChunks n items next).length) :
    ((archiveChunks n items next)[i].ty = ChunkType.AEND → i + 1 = (archiveChunks n items next).length) ∧
    ((archiveChunks n items next)[i].ty = ChunkType.ANXT →
      next = true ∧ i + 2 = (archiveChunks n items next).length) := by
  have hno := items_no_ANXT_AEND items hw
  have hsplit : archiveChunks n items next
      = (⟨AHED, encAHED ⟨0, 0, n⟩⟩ :: items.flatten) ++ (if next then [⟨ANXT, []⟩, ⟨AEND, []⟩] else [⟨AEND, []⟩]) := by
    unfold archiveChunks
    cases next <;> simp
  have hfront : ∀ c ∈ (⟨AHED, encAHED ⟨0, 0, n⟩⟩ :: items.flatten : List Chunk), c.ty ≠ ANXT ∧ c.ty ≠ AEND := by
    intro c hc
    rcases List.mem_cons.mp hc with rfl | hc
    · exact ⟨(by decide : AHED ≠ ANXT), (by decide : AHED ≠ AEND)⟩
    · exact hno c hc
  generalize archiveChunks n items next = cs at hi hsplit ⊢
  subst hsplit
  generalize (⟨AHED, encAHED ⟨0, 0, n⟩⟩ :: items.flatten : List Chunk) = front at hi hfront ⊢
  by_cases hlt : i < front.length
  · rw [List.getElem_append_left hlt]
    have := hfront _ (List.getElem_mem hlt)
    exact ⟨fun h => absurd h this.2, fun h => absurd h this.1⟩
  · have hge : front.length ≤ i := by omega
    cases next with
    | false =>
      obtain ⟨h1, h2⟩ := getElem_tail_one front ⟨AEND, []⟩ i hi hge
      refine ⟨fun _ => h2, fun h => ?_⟩
      have h1 : (front ++ if false = true then [⟨ANXT, []⟩, ⟨AEND, []⟩] else [⟨AEND, []⟩])[i] = ⟨AEND, []⟩ := h1
      rw [h1] at h
      exact absurd h (by decide)
    | true =>
      rcases getElem_tail_two front ⟨ANXT, []⟩ ⟨AEND, []⟩ i hi hge with ⟨h1, h2⟩ | ⟨h1, h2⟩
      · have h1 : (front ++ if true = true then [⟨ANXT, []⟩, ⟨AEND, []⟩] else [⟨AEND, []⟩])[i] = ⟨ANXT, []⟩ := h1
        refine ⟨fun h => ?_, fun _ => ⟨rfl, h2⟩⟩
        rw [h1] at h
        exact absurd h (by decide)
      · have h1 : (front ++ if true = true then [⟨ANXT, []⟩, ⟨AEND, []⟩] else [⟨AEND, []⟩])[i] = ⟨AEND, []⟩ := h1
        refine ⟨fun _ => h2, fun h => ?_⟩
        rw [h1] at h
        exact absurd h (by decide)

/-- the two items of the examples: the CBC entry and the solid block of the example archive -/
def exItemsRaw : List (List Chunk) :=
  [serN (buildNormal exCbc exA), serS (buildSolid exCbcMask [exC, exD])]

theorem exItemsRaw_wf : ∀ it ∈ exItemsRaw, ItemWF it := by
  intro it hit
  simp only [exItemsRaw, List.mem_cons, List.not_mem_nil, or_false] at hit
  rcases hit with rfl | rfl
  · exact serN_ItemWF _ (buildNormalW_WF .builder exCbc exCbc_ok exA exA_wf) exA_wf.extraNM
  · exact serS_ItemWF _ (buildSolidW_WF .builder exCbcMask exCbcMask_ok [exC, exD])
      (fun c h => absurd h List.not_mem_nil)

-- part 3 of a split archive, continued: … ANXT AEND at the very end, 12 bytes each, nothing after
example : (encodeArchive 3 exItemsRaw true).length = 536 ∧
    (encodeArchive 3 exItemsRaw true).drop (536 - 24)
      = (Chunk.mk ChunkType.ANXT []).encode ++ (Chunk.mk ChunkType.AEND []).encode ∧
    (encodeArchive 3 exItemsRaw false).drop (524 - 12) = (Chunk.mk ChunkType.AEND []).encode ∧
    (archiveChunks 3 exItemsRaw true).map (·.ty)
      = [AHED, FHED, ⟨109, 121, 84, 121⟩, fSIZ, PHSF, FDAT, FDAT, mTIM, fPRM, xATR, FEND,
         SHED, PHSF, SDAT, SDAT, SDAT, SDAT, SDAT, SDAT, SDAT, SDAT, SEND, ANXT, AEND] := by
  decide +kernel

-- ---------------------------------------------------------------- (9) the start of an archive

/-- **(9)** An archive part starts with the signature and the AHED chunk; the AHED payload has 8 bytes —
    version 0.0, two zero bytes, and the part number big-endian in the last four. -/
theorem archive_head (n : Nat) (items : List (List Chunk)) (next : Bool) :
    (∃ rest, encodeArchive n items next
        = signature ++ (Chunk.mk ChunkType.AHED (encAHED ⟨0, 0, n⟩)).encode ++ rest) ∧
    (encAHED ⟨0, 0, n⟩).length = 8 ∧
    (encAHED ⟨0, 0, n⟩).take 4 = [0, 0, 0, 0] ∧
    (n < 2 ^ 32 → fromBe ((encAHED ⟨0, 0, n⟩).drop 4) = n) := by
  refine ⟨⟨encodeChunks (items.flatten ++ (if next then [⟨ANXT, []⟩] else []) ++ [⟨AEND, []⟩]), ?_⟩,
    encAHED_length _, ?_, ?_⟩
  · rw [encodeArchive_eq, archiveChunks, List.append_assoc, List.append_assoc, encodeChunks_append,
      encodeChunks_singleton]
    simp only [List.append_assoc]
  · rfl
  · intro hn
    have : (encAHED ⟨0, 0, n⟩).drop 4 = be32 n := rfl
    rw [this, fromBe_be32, Nat.mod_eq_of_lt hn]

/-- without the bound the header records the part number mod 2^32 (`as u32`) -/
theorem archive_head_number_mod (n : Nat) : fromBe ((encAHED ⟨0, 0, n⟩).drop 4) = n % 2 ^ 32 := by
  have : (encAHED ⟨0, 0, n⟩).drop 4 = be32 n := rfl
  rw [this, fromBe_be32]

example : (encodeArchive 258 exItemsRaw true).take 28
    = signature ++ [0, 0, 0, 8, 65, 72, 69, 68, 0, 0, 0, 0, 0, 0, 1, 2] ++ be32 (Chunk.mk AHED (encAHED ⟨0, 0, 258⟩)).crc ∧
    fromBe ((encAHED ⟨0, 0, 258⟩).drop 4) = 258 := by decide +kernel

end Pna.C14L

#print axioms Pna.C14L.serN_shape
#print axioms Pna.C14L.serN_mid_clean
#print axioms Pna.C14L.serS_shape
#print axioms Pna.C14L.serN_phsf_before_data
#print axioms Pna.C14L.serS_phsf_before_data
#print axioms Pna.C14L.archive_tail
#print axioms Pna.C14L.archive_markers_position
#print axioms Pna.C14L.archive_head
