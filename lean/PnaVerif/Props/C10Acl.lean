import PnaVerif.Model.Cli.Acl
/-!
# C10 — `migrate` changes the access-control chunks' layout and nothing else
Model: `Cli.aclOf` (transcription of `NormalEntryExt::acl`, an insertion-ordered map after the `fix:`) and `Cli.migrateE`.
For every entry:
* `migrate_other_fields` — name, kind, stored data, sizes, mode, owner, times and extended attributes are untouched;
* `migrate_other_chunks` — the private chunks that are not access-control chunks are all still there, in their order;
* `migrate_layout` — the result is: the access-control chunks (grouped by platform), then the other private chunks;
* `aclInsert_keys` — platforms are kept in the order of their first occurrence (the `HashMap` of the code before the
  `fix:` had no such order: two runs could write different bytes).
The correspondence (`transform … migrate`) compares the model's extras byte for byte with what the real command writes.
-/
namespace Pna.C10A
open Pna Pna.Cli

theorem aclChunks_all_acl (m : AclMap) : ∀ x ∈ aclChunks m, isAclChunk x = true := by
  intro x hx
  simp only [aclChunks, List.mem_flatMap] at hx
  obtain ⟨⟨p, aces⟩, _, hx⟩ := hx
  simp only [List.mem_cons, List.mem_map] at hx
  rcases hx with rfl | ⟨a, _, rfl⟩
  · simp [isAclChunk]
  · simp [isAclChunk]

theorem migrate_layout (e e2 : LEntry) (h : migrateE e = some e2) :
    ∃ m, aclOf [] [] e.extras = some m ∧ e2.extras = aclChunks m ++ e.extras.filter (fun x => !isAclChunk x) := by
  simp only [migrateE, Option.map_eq_some_iff] at h
  obtain ⟨m, hm, rfl⟩ := h
  exact ⟨m, hm, rfl⟩

theorem migrate_other_fields (e e2 : LEntry) (h : migrateE e = some e2) :
    e2.name = e.name ∧ e2.kind = e.kind ∧ e2.data = e.data ∧ e2.rawSize = e.rawSize ∧ e2.mode = e.mode ∧
    e2.owner = e.owner ∧ e2.created = e.created ∧ e2.modified = e.modified ∧ e2.accessed = e.accessed ∧
    e2.xattrs = e.xattrs := by
  simp only [migrateE, Option.map_eq_some_iff] at h
  obtain ⟨m, _, rfl⟩ := h
  exact ⟨rfl, rfl, rfl, rfl, rfl, rfl, rfl, rfl, rfl, rfl⟩

theorem migrate_other_chunks (e e2 : LEntry) (h : migrateE e = some e2) :
    e2.extras.filter (fun x => !isAclChunk x) = e.extras.filter (fun x => !isAclChunk x) := by
  obtain ⟨m, _, hx⟩ := migrate_layout e e2 h
  rw [hx, List.filter_append, List.filter_filter]
  have h1 : (aclChunks m).filter (fun x => !isAclChunk x) = [] := by
    apply List.filter_eq_nil_iff.mpr
    intro x hx
    simp [aclChunks_all_acl m x hx]
  rw [h1, List.nil_append]
  congr 1
  funext x
  simp

/-- platforms stay in the order of their first occurrence -/
theorem aclInsert_keys (m : AclMap) (k : Text.Str) (a : Text.Ace) :
    (aclInsert m k a).map (·.1) = if m.any (·.1 == k) then m.map (·.1) else m.map (·.1) ++ [k] := by
  unfold aclInsert
  split
  · rw [List.map_map]
    congr 1
    funext p
    simp only [Function.comp]
    split <;> rfl
  · simp


-- ---------------------------------------------------------------- acl set

/-- an entry the patterns do not select is handed on as it is -/
theorem aclset_unselected (sel : Bytes → Bool) (m r : Option AclArg) (e : LEntry) (h : sel e.name = false) :
    aclSetF sel m r e = some e := by
  simp [aclSetF, h]

/-- an entry without an access-control list of the General platform is handed on as it is (the command edits that
    list only: archives written with `--keep-acl` on Linux carry `linux` lists and are not edited at all) -/
theorem aclset_without_general (m r : Option AclArg) (e : LEntry)
    (h : ((aclOf [] [] e.extras).getD []).any (·.1 == []) = false) : aclSetE m r e = e := by
  unfold aclSetE
  simp only [h, Bool.not_false, if_true]

/-- whatever is edited, everything but the private chunks stays -/
theorem aclset_other_fields (m r : Option AclArg) (e : LEntry) :
    (aclSetE m r e).name = e.name ∧ (aclSetE m r e).kind = e.kind ∧ (aclSetE m r e).data = e.data ∧
    (aclSetE m r e).rawSize = e.rawSize ∧ (aclSetE m r e).mode = e.mode ∧ (aclSetE m r e).owner = e.owner ∧
    (aclSetE m r e).created = e.created ∧ (aclSetE m r e).modified = e.modified ∧
    (aclSetE m r e).accessed = e.accessed ∧ (aclSetE m r e).xattrs = e.xattrs := by
  unfold aclSetE
  dsimp only
  split <;> exact ⟨rfl, rfl, rfl, rfl, rfl, rfl, rfl, rfl, rfl, rfl⟩

/-- … and the private chunks that are not access-control chunks are all still there, in their order -/
theorem aclset_other_chunks (m r : Option AclArg) (e : LEntry) :
    (aclSetE m r e).extras.filter (fun x => !isAclChunk x) = e.extras.filter (fun x => !isAclChunk x) := by
  unfold aclSetE
  dsimp only
  split
  · rfl
  · rw [List.filter_append, List.filter_filter]
    have h1 : ∀ mm : AclMap, (aclChunks mm).filter (fun x => !isAclChunk x) = [] := by
      intro mm
      apply List.filter_eq_nil_iff.mpr
      intro x hx
      simp [aclChunks_all_acl mm x hx]
    rw [h1, List.nil_append]
    congr 1
    funext x
    simp

/-- the first matching entry gets the new permission; nothing else of the list changes (length, the other entries) -/
theorem modifyFirst_length (x : AclArg) (l : List Text.Ace) : (modifyFirst x l).length = l.length := by
  induction l with
  | nil => rfl
  | cons a l ih => simp only [modifyFirst]; split <;> simp [ih]

-- non-vacuity: an entry with a linux ACL, a private chunk, and an entry of another platform carrying its own prefix
def exE : LEntry :=
  { name := [97]
    kind := 0
    data := [48, 48, 48]
    extras := [([109,121,84,121], [1]), (faCl, "linux".toUTF8.toList), (faCe, "linux:d:u:alice:allow:r,w".toUTF8.toList),
               (faCe, "macos::g:staff:deny:w".toUTF8.toList), ([122,122,84,121], [2])] }

example : (migrateE exE).map (fun e => e.extras.map (·.1))
    = some [faCl, faCe, faCl, faCe, [109,121,84,121], [122,122,84,121]] := by decide +kernel


-- acl set on an entry with a General list: the matching entry's permission is replaced, the linux list is untouched
def exG : LEntry :=
  { name := [97]
    kind := 0
    data := [48, 48, 48]
    extras := [(faCl, "linux".toUTF8.toList), (faCe, "linux::u:alice:allow:r".toUTF8.toList), (faCl, []),
               (faCe, ":u:bob:allow:r".toUTF8.toList), ([109,121,84,121], [1])] }

example : (aclSetE (some ⟨false, .user "bob".toList, some "w,x".toList⟩) none exG).extras.map (fun x => (x.1 == faCe, String.ofList ((decodeUtf8 x.2).getD [])))
    = [(false, "linux"), (true, ":u:alice:allow:r"), (false, ""), (true, ":u:bob:allow:w,x"), (false, "\x01")] := by decide +kernel
example : aclSetE (some ⟨false, .user "bob".toList, some "w".toList⟩) none exE = exE := by decide +kernel

end Pna.C10A
