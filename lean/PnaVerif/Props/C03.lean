import PnaVerif.Lemmas.Chunk
import PnaVerif.Model.Archive
/-!
# C03 — decoding is independent of the reader used (floor)
The streaming parser and the in-memory parser are the same function on every byte string:
chunks, both chunk iterators, and hence both entry readers (which are one model function
instantiated with either parser).
-/
namespace Pna.C03
open Pna

theorem chunk_slice_eq_stream (bs : Bytes) : decodeSlice bs = decodeStream bs :=
  decodeSlice_eq_decodeStream bs

theorem chunks_eq (bs : Bytes) : chunksSlice bs = chunksStream bs := chunksSlice_eq_chunksStream bs

theorem chunksSlice_funext : chunksSlice = chunksStream := funext chunksSlice_eq_chunksStream

/-- Entries, raw items, success/failure kind, carry buffer and continuation flag agree. -/
theorem slice_eq_stream (bs : Bytes) : readArchiveSlice bs = readArchiveStream bs := by
  unfold readArchiveSlice readArchiveStream; rw [chunksSlice_funext]

theorem raw_slice_eq_stream (bs : Bytes) : rawEntriesWith chunksSlice bs = rawEntriesWith chunksStream bs := by
  rw [chunksSlice_funext]

theorem multipart_slice_eq_stream (parts : List Bytes) :
    readMultipartWith chunksSlice true 0 [] parts = readMultipartWith chunksStream true 0 [] parts := by
  rw [chunksSlice_funext]

example : (readArchiveStream (signature ++ (Chunk.mk ChunkType.AHED [0,0,0,0,0,0,0,0]).encode
    ++ (Chunk.mk ChunkType.AEND []).encode)).status.isOk = true := by decide +kernel

end Pna.C03
