import PnaVerif.Lemmas.CliText
/-!
# C15 (CLI part) — the textual codecs of the CLI are exact inverse pairs over their domain
Model: `Model/Cli/Text.lean`; proofs: `Lemmas/CliText.lean`.

* `splitOn`/`join` (the `str::split` / `Itertools::join` pair every codec below rests on);
* flag and permission sets printed by primary name and parsed by any alias;
* access-control entries `flags:kind:name:allow|deny:perms`, with and without platform prefix,
  under `Ace.WF` (6 flag bits, 16 permission bits, a named owner is non-empty and has no `:`);
* extended-attribute values in `0x…` hex and `0s…` base64 form, for all byte strings;
* stability on accepted input: whatever `parseAce` accepts is `WF`, hence re-encodes exactly.

The `WF` side conditions are necessary: see the negative witnesses at the end.
-/
namespace Pna.C15Cli
open Pna Pna.Cli.Text

-- ---------------------------------------------------------------- 1. split / join

theorem splitOn_join (sep : Char) (xs : List Str) (hne : xs ≠ []) (h : ∀ x ∈ xs, sep ∉ x) :
    splitOn sep (join sep xs) = xs :=
  Pna.Cli.Text.splitOn_join sep xs hne h

theorem splitOn_join_nil (sep : Char) : splitOn sep (join sep []) = [[]] :=
  Pna.Cli.Text.splitOn_join_nil sep

/-- pieces of a split never contain the separator -/
theorem splitOn_pieces (sep : Char) (s : Str) : ∀ p ∈ splitOn sep s, sep ∉ p :=
  Pna.Cli.Text.splitOn_pieces sep s

-- ---------------------------------------------------------------- 2. flag / permission sets

/-- General form: any table satisfying the (decidable) side conditions `TableOK`. -/
theorem parseSet_showSet (table : List (Nat × List Str)) (hok : TableOK table) (bits : Bits)
    (h : bits.length = table.length) : parseSet table (showSet table bits) = bits :=
  parseSet_showSet_of_ok table hok bits h

theorem parseSet_showSet_flags (bits : Bits) (h : bits.length = 6) :
    parseSet flagTable (showSet flagTable bits) = bits :=
  parseSet_showSet_of_ok flagTable flagTable_ok bits h

theorem parseSet_showSet_perms (bits : Bits) (h : bits.length = 16) :
    parseSet permTable (showSet permTable bits) = bits :=
  parseSet_showSet_of_ok permTable permTable_ok bits h

theorem parseSet_length (table : List (Nat × List Str)) (s : Str) :
    (parseSet table s).length = table.length :=
  Pna.Cli.Text.parseSet_length table s

-- ---------------------------------------------------------------- 3./4. access-control entries

theorem ace_roundtrip (a : Ace) (h : a.WF) : parseAce (showAce a) = .ok a :=
  parseAce_showAce a h

theorem acep_roundtrip (p : Option Str) (a : Ace) (h : a.WF) (hp : ∀ q, p = some q → ':' ∉ q) :
    parseAceP (showAceP p a) = .ok (some (p.getD []), a) :=
  parseAceP_showAceP p a h hp

-- ---------------------------------------------------------------- 5./6. xattr values

theorem hex_roundtrip (bs : Bytes) : parseValue (showHex bs) = some bs :=
  parseValue_showHex bs

theorem b64_roundtrip (bs : Bytes) : b64Decode (b64Encode bs) = some bs :=
  b64Decode_encode bs

theorem b64_value_roundtrip (bs : Bytes) : parseValue (showB64 bs) = some bs :=
  parseValue_showB64 bs

-- ---------------------------------------------------------------- 7. stability on accepted input

/-- An accepted owner is well formed: the name field is a split piece (no `:`) and
    `parseOwner` maps the empty name to `.owner` / `.ownerGroup`. -/
theorem parseAce_owner_WF (s : Str) (a : Ace) (h : parseAce s = .ok a) : a.owner.WF :=
  parseAce_owner_WF' s a h

/-- Everything `parseAce` accepts is in the round-trip domain. -/
theorem parseAce_WF (s : Str) (a : Ace) (h : parseAce s = .ok a) : a.WF :=
  Pna.Cli.Text.parseAce_WF s a h

/-- decode → encode → decode is the identity on accepted input (no side hypothesis). -/
theorem ace_reencode_stable (s : Str) (a : Ace) (h : parseAce s = .ok a) :
    parseAce (showAce a) = .ok a :=
  parseAce_showAce a (Pna.Cli.Text.parseAce_WF s a h)

-- ---------------------------------------------------------------- 8. non-vacuity

def it : Ace :=
  { flags := [true, false, false, true, false, true]
    owner := .user "alice".toList
    allow := true
    perms := [true, true, false, false, false, false, true, false,
              false, false, false, false, false, true, false, true] }

example : it.WF := by decide
example : showAce it =
    "d,only_inherit,inherited:u:alice:allow:r,w,readattr,sync,write_data".toList := by decide +kernel
example : parseAce (showAce it) = .ok it := by decide +kernel
example : parseAce (showAce it) = .ok it := ace_roundtrip it (by decide)
example : parseAceP (showAceP (some "macos".toList) it) = .ok (some "macos".toList, it) := by
  decide +kernel
example : parseAceP (showAceP none it) = .ok (some [], it) := acep_roundtrip none it (by decide) nofun
/-- aliases are accepted on input and normalised to primary names on output -/
example : parseAce "default,inherited:user:alice:allow:read,write".toList =
    .ok { it with flags := [true, false, false, false, false, true],
                  perms := [true, true] ++ List.replicate 14 false } := by decide +kernel
/-- the empty sets -/
example : showAce { it with flags := List.replicate 6 false, perms := List.replicate 16 false } =
    ":u:alice:allow:".toList := by decide +kernel

example : showB64 [0, 255, 16] = "0sAP8Q".toList := by decide
example : showB64 [0, 255] = "0sAP8=".toList := by decide
example : showB64 [255] = "0s/w==".toList := by decide
example : showHex [0, 255, 16] = "0x00ff10".toList := by decide
example : parseValue "0sAP8Q".toList = some [0, 255, 16] := by decide +kernel
example : parseValue "0x00ff10".toList = some [0, 255, 16] := by decide +kernel

-- ---------------------------------------------------------------- 9. the WF hypotheses are needed

/-- a `:` inside an owner name shifts the fields: the entry no longer parses at all -/
theorem colon_in_name_breaks :
    parseAce (showAce { it with owner := .user "a:b".toList }) = .error .badAccess := by
  decide +kernel

theorem colon_in_name_no_roundtrip :
    parseAce (showAce { it with owner := .user "a:b".toList }) ≠
      .ok { it with owner := .user "a:b".toList } := by
  decide +kernel

/-- `.user ""` prints like `.owner` and parses back as `.owner` -/
theorem empty_name_becomes_owner :
    parseAce (showAce { it with owner := .user [] }) = .ok { it with owner := .owner } := by
  decide +kernel

theorem empty_name_no_roundtrip :
    parseAce (showAce { it with owner := .user [] }) ≠ .ok { it with owner := .user [] } := by
  decide +kernel

/-- a short bit list is padded by the parser, so the length conditions are needed too -/
theorem short_flags_no_roundtrip :
    parseAce (showAce { it with flags := [true] }) ≠ .ok { it with flags := [true] } := by
  decide +kernel

/-- a `:` in the platform makes six separators: the prefix is no longer recognised -/
theorem colon_in_platform_no_roundtrip :
    parseAceP (showAceP (some "a:b".toList) it) ≠ .ok (some "a:b".toList, it) := by
  decide +kernel

-- ---------------------------------------------------------------- axioms

#print axioms splitOn_join
#print axioms splitOn_join_nil
#print axioms splitOn_pieces
#print axioms parseSet_showSet
#print axioms parseSet_showSet_flags
#print axioms parseSet_showSet_perms
#print axioms parseSet_length
#print axioms ace_roundtrip
#print axioms acep_roundtrip
#print axioms hex_roundtrip
#print axioms b64_roundtrip
#print axioms b64_value_roundtrip
#print axioms parseAce_owner_WF
#print axioms parseAce_WF
#print axioms ace_reencode_stable
#print axioms colon_in_name_breaks
#print axioms colon_in_name_no_roundtrip
#print axioms empty_name_becomes_owner
#print axioms empty_name_no_roundtrip
#print axioms short_flags_no_roundtrip
#print axioms colon_in_platform_no_roundtrip

end Pna.C15Cli
