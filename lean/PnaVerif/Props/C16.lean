import PnaVerif.Props.C01
/-!
# C16 — only the right password reads an encrypted entry, and it always does
What is proved is the decision logic around the third-party key derivation and ciphers
(`openEntryData` transcribes `decrypt_reader` + `verify_password` + `decompress_reader`):
* no password ⇒ `InvalidInput`; no PHSF ⇒ `InvalidData`; never a panic, whatever the oracle says;
* the outcome is a function of the *derived key* only — the password influences it through
  the KDF and nowhere else;
* with the key the writer used, the data reads back (corollary of C01);
* the recorded PHSF is all the reader consults: same PHSF + same password ⇒ same key.
"A different password never yields the plaintext" is a statement about AES/Camellia/KDFs and is
sampled by the `roundtrip` family; at one corner it is false by arithmetic
(`empty_ctr_any_key`, known finding `C16-empty-ctr-store`).
-/
namespace Pna.C16
open Pna

theorem no_password (enc mode : Nat) (henc : enc ≠ 0) (phsf : Bytes) (o : PhcOracle) (sl : List Bytes)
    (dec : Bytes → Bytes → Bytes → Outcome Bytes) (decomp : Bytes → Outcome Bytes) :
    openEntryData enc mode (some phsf) none o sl dec decomp = .error .invalidInput := by
  simp [openEntryData, henc]

theorem no_phsf (enc mode : Nat) (henc : enc ≠ 0) (pw : Option Bytes) (o : PhcOracle) (sl : List Bytes)
    (dec : Bytes → Bytes → Bytes → Outcome Bytes) (decomp : Bytes → Outcome Bytes) :
    openEntryData enc mode none pw o sl dec decomp = .error .invalidData := by
  simp [openEntryData, henc]

/-- An unencrypted entry ignores the password altogether. -/
theorem unencrypted_ignores_password (mode : Nat) (phsf pw₁ pw₂ : Option Bytes) (o₁ o₂ : PhcOracle)
    (sl : List Bytes) (dec : Bytes → Bytes → Bytes → Outcome Bytes) (decomp : Bytes → Outcome Bytes) :
    openEntryData 0 mode phsf pw₁ o₁ sl dec decomp = openEntryData 0 mode phsf pw₂ o₂ sl dec decomp := by
  simp [openEntryData]

/-- The password reaches the result only through the derived key. -/
theorem depends_on_key_only (enc mode : Nat) (phsf pw₁ pw₂ : Bytes) (o₁ o₂ : PhcOracle)
    (hk : deriveKey o₁ = deriveKey o₂) (sl : List Bytes)
    (dec : Bytes → Bytes → Bytes → Outcome Bytes) (decomp : Bytes → Outcome Bytes) :
    openEntryData enc mode (some phsf) (some pw₁) o₁ sl dec decomp
      = openEntryData enc mode (some phsf) (some pw₂) o₂ sl dec decomp := by
  simp only [openEntryData, hk]

theorem deriveKey_no_panic (o : PhcOracle) : (deriveKey o).isPanic = false := by
  unfold deriveKey
  split
  · rfl
  · split
    · rfl
    · repeat' split
      all_goals rfl

/-- Reading never panics, whatever password, PHSF, key-derivation answer and stored bytes,
    provided the cipher-layer and codec oracles do not (they are third-party `Result`s). -/
theorem open_no_panic (enc mode : Nat) (phsf pw : Option Bytes) (o : PhcOracle) (sl : List Bytes)
    (dec : Bytes → Bytes → Bytes → Outcome Bytes) (decomp : Bytes → Outcome Bytes)
    (hdec : ∀ k iv ct, (dec k iv ct).isPanic = false) (hdc : ∀ b, (decomp b).isPanic = false) :
    (openEntryData enc mode phsf pw o sl dec decomp).isPanic = false := by
  unfold openEntryData
  simp only
  split
  · exact hdc _
  · cases phsf with
    | none => rfl
    | some p =>
      cases pw with
      | none => rfl
      | some w =>
        simp only
        have hk := deriveKey_no_panic o
        cases hd : deriveKey o with
        | error e => rfl
        | panic s => rw [hd] at hk; simp [Outcome.isPanic] at hk
        | ok key =>
          simp only
          split
          · rfl
          · split
            · split
              · rfl
              · split
                · rfl
                · have := hdec key (sl.flatten.take 16) (sl.flatten.drop 16)
                  cases hx : dec key (sl.flatten.take 16) (sl.flatten.drop 16) with
                  | ok p => exact hdc p
                  | error e => rfl
                  | panic s => rw [hx] at this; simp [Outcome.isPanic] at this
            · split
              · rfl
              · have := hdec key (sl.flatten.take 16) (sl.flatten.drop 16)
                cases hx : dec key (sl.flatten.take 16) (sl.flatten.drop 16) with
                | ok p => exact hdc p
                | error e => rfl
                | panic s => rw [hx] at this; simp [Outcome.isPanic] at this

/-- With the key the writer used, every configuration reads back (C01 corollary): the recorded
    parameters are sufficient because the reader's key is a function of (PHSF, password). -/
theorem right_key_reads (P : BlockPerm) (hP : P.Lawful) (C : Compressor) (hC : C.Lawful)
    (sel : CipherSel) (key iv : Bytes) (hiv : iv.length = 16) (ws : List Bytes) :
    readData P C sel key (buildData P C sel key iv ws) = .ok ws.flatten ∧
    readData P C sel key (streamData P C sel key iv ws) = .ok ws.flatten :=
  ⟨C01.roundtrip_builder P hP C hC sel key iv hiv ws, C01.roundtrip_stream P hP C hC sel key iv hiv ws⟩

/-- The corner where the negative direction is false: CTR + store + empty plaintext.  The
    stored data is just the IV; *every* 32-byte key "reads" the (empty) original content. -/
theorem empty_ctr_any_key (P : BlockPerm) (key iv : Bytes) (hiv : iv.length = 16) :
    readData P storeCompressor .ctr key (buildData P storeCompressor .ctr key iv []) = .ok [] ∧
    ∀ key', readData P storeCompressor .ctr key' (buildData P storeCompressor .ctr key iv []) = .ok [] := by
  have hb : buildData P storeCompressor .ctr key iv [] = [iv] := by
    simp [buildData, storeCompressor, cipherWrites, ctrWriterRun, flattenWriter]
  have : ∀ k, readData P storeCompressor .ctr k [iv] = .ok [] := by
    intro k
    have hf : ([iv] : List Bytes).flatten = iv ++ [] := by simp
    rw [C01.readData_enc P storeCompressor .ctr k [iv] iv [] (by decide) hf hiv]
    simp [decryptStream, ctrApply, storeCompressor]
  rw [hb]
  exact ⟨this key, this⟩

example : openEntryData 1 0 (some [36]) none ⟨true, .pbkdf2, true, true, true, some []⟩ [[1]]
    (fun _ _ _ => .ok []) (fun b => .ok b) = .error .invalidInput := by decide

end Pna.C16
