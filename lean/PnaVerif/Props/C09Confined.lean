import PnaVerif.Lemmas.Confined6
import PnaVerif.Props.C09Fs
/-!
# C09 — part 2, general statement: extraction changes nothing outside the output directory

Setting: `cwd : Path`, `outDir : Bytes` a plain relative directory name (`comps outDir = [d]`,
`d ≠ ".."`, not absolute), `O = cwd ++ [d]`, `Sane fs O` (Lemmas/Confined.lean).

The statement "for EVERY entry" is **false** of the model; three kernel-checked witnesses below
(`escape_dotdot_name`, `escape_empty_name_overwrite`, `root_name_overwrite_removes_everything`).
All of them use names that the entry-name sanitiser cannot produce (a `..` component, or no
component at all together with `--overwrite`).  The theorems are therefore stated under the explicit
hypothesis `NameOkW ow e.name` (no `..` component; at least one component unless `--overwrite` is
off) and carry the suffix `_partial`.  `sanitize_nameOkW` shows every sanitised name satisfies the
hypothesis except the empty one under `--overwrite`.
-/
namespace Pna.C09C
open Pna Pna.Fs Pna.Cli Pna.Confined Pna.C09Fs

/-- **one entry**: `Sane` is an invariant and nothing outside `O` changes — any kind, any content /
    link target / hard-link source, with or without `--overwrite`, whether or not the entry fails part-way. -/
theorem extractEntry_confined_partial (ow : Bool) (cwd : Path) (outDir d : Bytes) (fs : Fs) (e : XEntry)
    (hcomps : comps outDir = [d]) (hd : d ≠ [dot, dot]) (hrel : ¬ isAbs outDir = true)
    (h : Sane fs (cwd ++ [d])) (hn : NameOkW ow e.name) :
    Sane (extractEntry ow cwd outDir fs e).1 (cwd ++ [d]) ∧
    OutsideSame (cwd ++ [d]) fs (extractEntry ow cwd outDir fs e).1 := by
  have ho : OutDir outDir d := ⟨hcomps, hd, by simpa using hrel⟩
  have ⟨s1, t1⟩ := extractEntry_goodW ow cwd outDir d fs e ho h hn
  exact ⟨s1, t1.outsideSame s1⟩

/-- **whole archive** (all non-hard-link entries in order, errors not stopping the scan, then hard links) -/
theorem extractAll_confined_partial (ow : Bool) (cwd : Path) (outDir d : Bytes) (fs : Fs) (es : List XEntry)
    (hcomps : comps outDir = [d]) (hd : d ≠ [dot, dot]) (hrel : ¬ isAbs outDir = true)
    (h : Sane fs (cwd ++ [d])) (hn : ∀ e ∈ es, NameOkW ow e.name) :
    Sane (extractAll ow cwd outDir fs es).1 (cwd ++ [d]) ∧
    OutsideSame (cwd ++ [d]) fs (extractAll ow cwd outDir fs es).1 := by
  have ho : OutDir outDir d := ⟨hcomps, hd, by simpa using hrel⟩
  have ⟨s1, t1⟩ := extractAll_good ow cwd outDir d fs es ho h hn
  exact ⟨s1, t1.outsideSame s1⟩

/-! ### why the hypothesis on names cannot be dropped (kernel-checked witnesses against the model) -/

/-- symlink `b -> ../outside/f`, then file `a/../b` (no `--overwrite`): the existence/link checks on
    `out/a/../b` fail with ENOENT on `a`, `create_dir_all("out/a/..")` makes `a`, and `File::create`
    then follows `b`: `/s/outside/f` is created. -/
theorem escape_dotdot_name :
    let es : List XEntry := [⟨[98], 2, [46, 46, 47] ++ outside ++ [47, 102]⟩, ⟨[97, 47, 46, 46, 47, 98], 0, [9]⟩]
    let r := extractAll false [s] out fs0 es
    r.2 = none ∧ outsideNodes r.1 ≠ outsideNodes fs0 ∧ r.1.lookup [s, outside, [102]] = some (.file 2) := by
  decide +kernel

/-- with `--overwrite`, a symlink entry with the empty name replaces the output directory itself by a
    link; the next entry is then written through it. -/
theorem escape_empty_name_overwrite :
    let es : List XEntry := [⟨[], 2, outside⟩, ⟨[120], 0, [9]⟩]
    let r := extractAll true [s] out fs0 es
    r.2 = none ∧ outsideNodes r.1 ≠ outsideNodes fs0 ∧ r.1.lookup [s, out] = some (.link outside) ∧
    r.1.lookup [s, outside, [120]] = some (.file 2) := by
  decide +kernel

/-- with `--overwrite`, a symlink entry named `/` makes the model remove the root directory tree. -/
theorem root_name_overwrite_removes_everything :
    (extractAll true [s] out fs0 [⟨[47], 2, [120]⟩]).1.nodes = [] := by
  decide +kernel

/-- the three offending names are exactly what `NameOkW` excludes -/
example : ¬ NameOkW false [97, 47, 46, 46, 47, 98] ∧ ¬ NameOkW true [] ∧ ¬ NameOkW true [47] := by decide

/-- Hence the statement for arbitrary entry lists is false of the model. -/
theorem extractAll_confined_unrestricted_is_false :
    ¬ (∀ (ow : Bool) (es : List XEntry), outsideNodes (extractAll ow [s] out fs0 es).1 = outsideNodes fs0) := by
  intro h
  exact escape_dotdot_name.2.1 (h false _)

/-! ### the sandbox of `Props/C09Fs.lean`; non-vacuity -/

/-- non-vacuity of `Sane`: the concrete sandbox is sane (checked through the Boolean version) -/
theorem fs0_sane : Sane fs0 [s, out] := (saneB_iff fs0 [s, out]).1 (by decide +kernel)

/-- in the vocabulary of `C09Fs`: for every archive with acceptable names, with or without
    `--overwrite`, the list of outside directory entries is literally unchanged -/
theorem C09_outsideNodes_partial (ow : Bool) (es : List XEntry) (hn : ∀ e ∈ es, NameOkW ow e.name) :
    outsideNodes (extractAll ow [s] out fs0 es).1 = outsideNodes fs0 :=
  (extractAll_confined_partial ow [s] out out fs0 es (by decide) (by decide) (by decide) fs0_sane hn).2.nodes

/-- … and so are the contents and link counts of the inodes they reference -/
theorem C09_outsideUnchanged_partial (ow : Bool) (es : List XEntry) (hn : ∀ e ∈ es, NameOkW ow e.name) :
    OutsideUnchanged fs0 (extractAll ow [s] out fs0 es).1 := by
  have h := (extractAll_confined_partial ow [s] out out fs0 es (by decide) (by decide) (by decide) fs0_sane hn).2
  refine ⟨h.nodes, fun ino hino => ?_⟩
  obtain ⟨n, hnm, hn2⟩ := List.any_eq_true.1 hino
  have hm := List.mem_filter.1 hnm
  have ho : ¬ Inside [s, out] n.1 := (outB_iff [s, out] n).1 hm.2
  have hi : n.2 = .file ino := by simpa using hn2
  exact ⟨h.content n hm.1 ho ino hi, by rw [h.links_same fs0_sane n hm.1 ho ino hi]⟩

/-- non-vacuity of the conclusion: an archive with files, a directory, a symbolic link and a hard
    link has acceptable names, is NOT refused, and leaves the outside unchanged by the theorem -/
theorem ordinary_archive_confined :
    let es : List XEntry := [⟨[100, 47, 97], 0, [7]⟩, ⟨[108], 2, [100, 47, 97]⟩, ⟨[100, 47, 104], 3, [97]⟩, ⟨[101], 1, []⟩]
    (∀ e ∈ es, NameOkW false e.name) ∧ (extractAll false [s] out fs0 es).2 = none ∧
    (extractAll false [s] out fs0 es).1.lookup [s, out, [100], [104]] = some (.file 2) ∧
    OutsideUnchanged fs0 (extractAll false [s] out fs0 es).1 := by
  intro es
  have hn : ∀ e ∈ es, NameOkW false e.name := by decide
  exact ⟨hn, by decide +kernel, by decide +kernel, C09_outsideUnchanged_partial false es hn⟩

/-- the refused escapes of `C09Fs` are instances too (the names `l`, `l/x` are acceptable) -/
example : OutsideUnchanged fs0
    (extractAll true [s] out fs0 [⟨[108], 2, [46, 46, 47] ++ outside⟩, ⟨[108, 47, 120], 0, [9]⟩]).1 :=
  C09_outsideUnchanged_partial true _ (by decide)

/-- entry names as the archive reader produces them (`sanitize`) are acceptable -/
theorem sanitized_names_ok (ow : Bool) (raw : Bytes) (h : sanitize raw ≠ [] ∨ ow = false) :
    NameOkW ow (sanitize raw) := sanitize_nameOkW ow raw h

/-- the single-entry statement without the hypothesis on names is false as well: in the (sane) state
    reached after extracting the link `b -> ../outside/f`, the entry `a/../b` writes outside -/
theorem extractEntry_confined_unrestricted_is_false :
    ¬ (∀ (ow : Bool) (fs : Fs) (e : XEntry), Sane fs [s, out] →
        OutsideSame [s, out] fs (extractEntry ow [s] out fs e).1) := by
  intro h
  let fs1 : Fs := (extractAll false [s] out fs0 [⟨[98], 2, [46, 46, 47] ++ outside ++ [47, 102]⟩]).1
  have hs : Sane fs1 [s, out] := (saneB_iff fs1 [s, out]).1 (by decide +kernel)
  have := (h false fs1 ⟨[97, 47, 46, 46, 47, 98], 0, [9]⟩ hs).nodes
  revert this
  decide +kernel

#print axioms extractEntry_confined_partial
#print axioms extractAll_confined_partial
#print axioms escape_dotdot_name
#print axioms escape_empty_name_overwrite
#print axioms root_name_overwrite_removes_everything
#print axioms extractAll_confined_unrestricted_is_false
#print axioms extractEntry_confined_unrestricted_is_false
#print axioms fs0_sane
#print axioms C09_outsideNodes_partial
#print axioms C09_outsideUnchanged_partial
#print axioms ordinary_archive_confined
#print axioms sanitized_names_ok

end Pna.C09C
