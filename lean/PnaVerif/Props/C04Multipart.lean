import PnaVerif.Lemmas.Multipart
/-!
# C04 / C06 / C14 (multipart) — reading the parts in sequence = reading one archive holding the concatenated bodies

`pna split` / `create --split` cut an archive into part files; part `i` (0-based, the AHED carries `i`) is
signature, AHED(i), body_i, ANXT (on every part but the last), AEND.  An entry may be cut across parts; the
reader keeps the unfinished item in a carry buffer when it reaches AEND and continues it in the next part
(`readNextWith`, which also checks that the part number is the previous one + 1).

* `groupItems_append`       grouping a concatenation = grouping the first half, then continuing with its open
                            item and flag;
* `multipart_eq_concat`     for all part bodies (at most 2^32 of them, chunks below 4 GiB, no ANXT/AEND inside):
                            `readMultipartWith` on `encodeParts bodies` returns exactly the entries — and the first
                            parse error, if any — of one archive holding `bodies.flatten`
                            (`multipart_eq_single_archive`: in terms of `readArchiveStream`);
* `split_then_read_partial` what `writeSplit` produces satisfies these hypotheses (`body_chunks_from_entries`:
                            every chunk of a body is a chunk of the entries or a piece of one), except the bound
                            on the NUMBER of parts, which is an explicit hypothesis — see
                            `too_many_parts_unreadable`: 2^32 + 1 parts are written without complaint, the part
                            number wraps, and the sequence reader rejects the last part;
* `missing_last_part`       an incomplete sequence (last parts missing) returns the entries closed inside the
                            parts present and — if they parse — status ok: `readMultipartWith` alone does NOT
                            notice; what tells is the flag `next` of the last part read (`part_next_flag`:
                            `next = true` exactly on the parts that are not the last);
* `truncated_part`          a sequence whose last file is cut anywhere never ends ok (first parse error, else
                            `UnexpectedEof`), and its entries are a prefix of the complete sequence's.
-/
namespace Pna.C04M
open Pna

/-- the hypotheses on part bodies: no ANXT / AEND chunk inside a body -/
def BodiesClean (bodies : List (List Chunk)) : Prop :=
  ∀ b ∈ bodies, ∀ c ∈ b, c.ty ≠ ChunkType.ANXT ∧ c.ty ≠ ChunkType.AEND

/-- what one archive holding the chunk sequence `cs` reads as: the entries, and how reading ended -/
def readConcat (cs : List Chunk) : List ReadEntry × Outcome Unit :=
  ((parseItems (groupItems [] false cs).1).1,
    match (parseItems (groupItems [] false cs).1).2 with | .ok _ => .ok () | o => o)

theorem readConcat_eq (cs : List Chunk) : readConcat cs = parseGrouped [] cs := by
  unfold readConcat parseGrouped
  generalize parseItems (groupItems [] false cs).1 = p
  obtain ⟨es, o⟩ := p
  cases o <;> rfl

theorem BodiesClean.parts {bodies : List (List Chunk)} (h : BodiesClean bodies) : ∀ b ∈ bodies, NoPartMarkers b :=
  fun b hb c hc => h b hb c hc

theorem fit_parts {bodies : List (List Chunk)} (h : ChunksFit bodies.flatten) : ∀ b ∈ bodies, ChunksFit b :=
  fun b hb c hc => h c (List.mem_flatten.mpr ⟨b, hb, hc⟩)

theorem encodeParts_length (bodies : List (List Chunk)) : (encodeParts bodies).length = bodies.length := by
  simp [encodeParts]

theorem encodeParts_getElem (bodies : List (List Chunk)) (i : Nat) (hi : i < bodies.length) :
    (encodeParts bodies)[i]'(by rw [encodeParts_length]; exact hi) = encodePartFile i bodies.length bodies[i] := by
  simp [encodeParts]

-- ---------------------------------------------------------------- the running example
-- one FHED/FDAT/FEND entry cut across two bodies (the data chunk is cut, as `EntryPart::split` does)

def exB0 : List Chunk := [⟨ChunkType.FHED, [0, 0, 0, 0, 0, 0, 97]⟩, ⟨ChunkType.FDAT, [7, 7]⟩]
def exB1 : List Chunk := [⟨ChunkType.FDAT, [8]⟩, ⟨ChunkType.FEND, []⟩]
def exBodies : List (List Chunk) := [exB0, exB1]
def exEntry : ReadEntry :=
  .normal { header := ⟨0, 0, 0, 0, 0, 0, [97]⟩, phsf := none, extra := [], data := [[7, 7], [8]],
            md := {}, xattrs := [] }

theorem ex_fit : ChunksFit exBodies.flatten := by
  unfold ChunksFit; decide
theorem ex_clean : BodiesClean exBodies := by
  unfold BodiesClean; decide
theorem ex_len : exBodies.length ≤ 2 ^ 32 := by decide

-- ---------------------------------------------------------------- (1) grouping a concatenation

/-- **(1)** grouping `xs ++ ys` (no AEND in `xs`) = grouping `xs`, then continuing `ys` with the open item
    and the flag that `xs` left. -/
theorem groupItems_append (cur : List Chunk) (nx : Bool) (xs ys : List Chunk)
    (hx : ∀ c ∈ xs, c.ty ≠ ChunkType.AEND) :
    groupItems cur nx (xs ++ ys)
      = (let (is₁, l₁, n₁, _) := groupItems cur nx xs
         let (is₂, l₂, n₂, e₂) := groupItems l₁ n₁ ys
         (is₁ ++ is₂, l₂, n₂, e₂)) := by
  rw [groupItems_append_proj xs ys hx]

-- the first body leaves the whole of itself as open item; the second closes it
example : (∀ c ∈ exB0, c.ty ≠ ChunkType.AEND) ∧ groupItems [] false exB0 = ([], exB0, false, false) ∧
    groupItems exB0 false exB1 = ([exB0 ++ exB1], [], false, false) ∧
    groupItems [] false (exB0 ++ exB1) = ([exB0 ++ exB1], [], false, false) := by decide

/-- the hypothesis of (1) is needed: grouping stops at AEND -/
example : groupItems [] false ([⟨ChunkType.AEND, []⟩] ++ [⟨ChunkType.FEND, []⟩])
    ≠ (let (is₁, l₁, n₁, _) := groupItems [] false [⟨ChunkType.AEND, []⟩]
       let (is₂, l₂, n₂, e₂) := groupItems l₁ n₁ [⟨ChunkType.FEND, []⟩]
       (is₁ ++ is₂, l₂, n₂, e₂)) := by decide

-- ---------------------------------------------------------------- (2) sequence = concatenation

/-- **(2)** Reading the parts in sequence returns exactly the entries, and the first parse error if any, that
    reading ONE archive holding `bodies.flatten` returns.  The first part is read with `readArchiveWith` (its
    number is not checked), every later one with `readNextWith` and the header number of the part before.
    The parse-error case coincides too: both readers return the entries before the first item that fails and
    that item's error (a part is only opened when the one before ended ok).
    `bodies ≠ []` is not needed (both sides are `([], ok)`), and `≤ 2^32` parts suffice (numbers `0 … 2^32-1`);
    beyond that the statement is false, see `too_many_parts_unreadable`. -/
theorem multipart_eq_concat (bodies : List (List Chunk)) (hlen : bodies.length ≤ 2 ^ 32)
    (hfit : ChunksFit bodies.flatten) (hno : BodiesClean bodies) :
    readMultipartWith chunksStream true 0 [] (encodeParts bodies)
      = ((parseItems (groupItems [] false bodies.flatten).1).1,
          match (parseItems (groupItems [] false bodies.flatten).1).2 with | .ok _ => .ok () | o => o) := by
  show _ = readConcat bodies.flatten
  rw [readConcat_eq, encodeParts_eq]
  exact multipart_parts bodies.length bodies 0 (by omega) (fit_parts hfit) hno.parts true 0 [] (Or.inl rfl)

example : readMultipartWith chunksStream true 0 [] (encodeParts exBodies) = ([exEntry], .ok ()) := by
  decide +kernel
example : readMultipartWith chunksStream true 0 [] (encodeParts exBodies) = readConcat exBodies.flatten :=
  multipart_eq_concat exBodies ex_len ex_fit ex_clean
-- the two part files really differ from one archive: each has its own signature, AHED, AEND
example : (encodeParts exBodies).map List.length = [85, 65] := by decide +kernel

/-- the one archive holding all the bodies -/
def concatArchive (bodies : List (List Chunk)) : Bytes :=
  signature ++ encodeChunks ([⟨ChunkType.AHED, encAHED ⟨0, 0, 0⟩⟩] ++ bodies.flatten ++ [⟨ChunkType.AEND, []⟩])

/-- **(2), in terms of the single-archive reader** -/
theorem multipart_eq_single_archive (bodies : List (List Chunk)) (hlen : bodies.length ≤ 2 ^ 32)
    (hfit : ChunksFit bodies.flatten) (hno : BodiesClean bodies) :
    readMultipartWith chunksStream true 0 [] (encodeParts bodies)
      = ((readArchiveStream (concatArchive bodies)).entries, (readArchiveStream (concatArchive bodies)).status) := by
  have hnf : NoPartMarkers bodies.flatten := NoPartMarkers.flatten hno.parts
  have e : concatArchive bodies = encodePartFile 0 1 bodies.flatten := by
    rw [encodePartFile_eq2]
    simp [concatArchive, partChunks]
  rw [multipart_eq_concat bodies hlen hfit hno]
  show readConcat bodies.flatten = _
  rw [readConcat_eq, e]
  unfold readArchiveStream
  rw [readArchiveWith_partFile 0 1 (by decide) bodies.flatten hfit hnf []]

example : (readArchiveStream (concatArchive exBodies)).entries = [exEntry] ∧
    (readArchiveStream (concatArchive exBodies)).status = .ok () := by decide +kernel

-- ---------------------------------------------------------------- (3) what `writeSplit` produces

/-- every chunk of a part body is a chunk of the entries or a piece of one: same type, payload no longer
    (from `splitGo` / `splitPart` / `placeParts`: chunks are moved whole, or a stream chunk is cut in two) -/
theorem body_chunks_from_entries (entries : List (List Chunk)) (maxFile : Nat) (bodies : List (List Chunk))
    (h : writeSplit entries maxFile = .ok bodies) :
    ∀ b ∈ bodies, ∀ c ∈ b, ∃ e ∈ entries, ∃ d ∈ e, c.ty = d.ty ∧ c.data.length ≤ d.data.length := by
  intro b hb c hc
  obtain ⟨d, hd, h1, h2⟩ := body_chunk_origin entries maxFile bodies h c (List.mem_flatten.mpr ⟨b, hb, hc⟩)
  obtain ⟨e, he, hde⟩ := List.mem_flatten.mp hd
  exact ⟨e, he, d, hde, h1, h2⟩

/-- **(3)** `split`, then read the parts in sequence: the bodies `writeSplit` produces from complete items are
    non-empty in number, fit the length field and contain no ANXT/AEND, so the sequence reads as one archive
    holding `bodies.flatten`, which is the original chunk sequence up to the cutting of data chunks.
    `_partial`: the bound on the NUMBER of parts (`hlen`) does not follow from `writeSplit` succeeding and
    is an explicit hypothesis; without it the statement is false (`too_many_parts_unreadable`). -/
theorem split_then_read_partial (entries : List (List Chunk)) (maxFile : Nat) (bodies : List (List Chunk))
    (h : writeSplit entries maxFile = .ok bodies) (hw : ∀ e ∈ entries, ItemWF e)
    (hfit : ChunksFit entries.flatten) (hlen : bodies.length ≤ 2 ^ 32) :
    bodies ≠ [] ∧ ChunksFit bodies.flatten ∧ BodiesClean bodies ∧
    readMultipartWith chunksStream true 0 [] (encodeParts bodies)
      = ((parseItems (groupItems [] false bodies.flatten).1).1,
          match (parseItems (groupItems [] false bodies.flatten).1).2 with | .ok _ => .ok () | o => o) ∧
    streamView bodies.flatten = streamView entries.flatten := by
  obtain ⟨h1, h2⟩ := writeSplit_bodies_ok entries maxFile bodies h hw hfit
  have hclean : BodiesClean bodies := fun b hb c hc => h2 c (List.mem_flatten.mpr ⟨b, hb, hc⟩)
  exact ⟨writeSplit_ne_nil entries maxFile bodies h, h1, hclean, multipart_eq_concat bodies hlen h1 hclean,
    writeSplit_lossless entries maxFile bodies h⟩

def exItem : List Chunk :=
  [⟨ChunkType.FHED, [0, 0, 0, 0, 0, 0, 97]⟩, ⟨ChunkType.FDAT, List.replicate 40 7⟩, ⟨ChunkType.FEND, []⟩]

theorem exItem_wf : ItemWF exItem :=
  ⟨[⟨ChunkType.FHED, [0, 0, 0, 0, 0, 0, 97]⟩, ⟨ChunkType.FDAT, List.replicate 40 7⟩], ⟨ChunkType.FEND, []⟩, rfl,
    Or.inl rfl, by decide⟩

/-- a 71-byte item split at 100 bytes per file: two bodies, the FDAT chunk cut 17 + 23 -/
def exSplitBodies : List (List Chunk) :=
  [[⟨ChunkType.FHED, [0, 0, 0, 0, 0, 0, 97]⟩, ⟨ChunkType.FDAT, List.replicate 17 7⟩],
   [⟨ChunkType.FDAT, List.replicate 23 7⟩, ⟨ChunkType.FEND, []⟩]]
theorem ex_split : writeSplit [exItem] 100 = .ok exSplitBodies := by decide +kernel
example := split_then_read_partial [exItem] 100 exSplitBodies ex_split
  (fun e he => by rw [List.mem_singleton.mp he]; exact exItem_wf) (by unfold ChunksFit; decide) (by decide)
example := body_chunks_from_entries [exItem] 100 exSplitBodies ex_split
example : (readMultipartWith chunksStream true 0 [] (encodeParts exSplitBodies)).2 = .ok () ∧
    (readMultipartWith chunksStream true 0 [] (encodeParts exSplitBodies)).1.length = 1 := by decide +kernel

-- ---------------------------------------------------------------- (4) missing last parts

/-- the flag `next` of a part read (as first part, or as the part that is due): true exactly when the part is
    not the last one of the sequence — this is what tells the caller that more parts must follow -/
theorem part_next_flag (bodies : List (List Chunk)) (hlen : bodies.length ≤ 2 ^ 32)
    (hfit : ChunksFit bodies.flatten) (hno : BodiesClean bodies) (i : Nat) (hi : i < bodies.length)
    (carry : List Chunk) :
    (readArchiveWith chunksStream carry ((encodeParts bodies)[i]'(by rw [encodeParts_length]; exact hi))).next
      = decide (i + 1 < bodies.length) ∧
    ∀ pn, pn + 1 = i →
      (readNextWith chunksStream pn carry ((encodeParts bodies)[i]'(by rw [encodeParts_length]; exact hi))).next
        = decide (i + 1 < bodies.length) := by
  have hb1 := fit_parts hfit bodies[i] (List.getElem_mem hi)
  have hb2 := hno.parts bodies[i] (List.getElem_mem hi)
  rw [encodeParts_getElem bodies i hi]
  refine ⟨?_, fun pn hpn => ?_⟩
  · rw [readArchiveWith_partFile i _ (by omega) _ hb1 hb2 carry]
  · rw [readNextWith_partFile i _ (by omega) _ hb1 hb2 carry pn hpn,
      readArchiveWith_partFile i _ (by omega) _ hb1 hb2 carry]

/-- **(4)** only the first `p` of the parts are there (`0 < p < bodies.length`): the reader model iterates over
    the parts it is given, so it returns the entries closed inside the first `p` bodies and the status of parsing
    them — `ok` if they parse: **`readMultipartWith` does not notice the missing parts** (the unfinished item in
    the carry buffer is dropped silently).  The entries are a prefix of the complete sequence's, and the last
    part read reports `next = true`, whereas the last part of the complete sequence reports `next = false`:
    that flag is the only thing distinguishing the two. -/
theorem missing_last_part (bodies : List (List Chunk)) (hlen : bodies.length ≤ 2 ^ 32)
    (hfit : ChunksFit bodies.flatten) (hno : BodiesClean bodies) (p : Nat) (hp0 : 0 < p) (hp : p < bodies.length) :
    readMultipartWith chunksStream true 0 [] ((encodeParts bodies).take p) = readConcat (bodies.take p).flatten ∧
    (readMultipartWith chunksStream true 0 [] ((encodeParts bodies).take p)).1
      <+: (readMultipartWith chunksStream true 0 [] (encodeParts bodies)).1 ∧
    (∀ carry, (readArchiveWith chunksStream carry
        ((encodeParts bodies)[p - 1]'(by rw [encodeParts_length]; omega))).next = true) ∧
    (∀ carry, (readArchiveWith chunksStream carry
        ((encodeParts bodies)[bodies.length - 1]'(by rw [encodeParts_length]; omega))).next = false) := by
  have htk : ∀ b ∈ bodies.take p, b ∈ bodies := fun b hb => List.mem_of_mem_take hb
  have h1 : readMultipartWith chunksStream true 0 [] ((encodeParts bodies).take p)
      = parseGrouped [] (bodies.take p).flatten := by
    rw [encodeParts_eq, partsFrom_take]
    exact multipart_parts bodies.length (bodies.take p) 0
      (by rw [List.length_take]; omega) (fun b hb => fit_parts hfit b (htk b hb))
      (fun b hb => hno.parts b (htk b hb)) true 0 [] (Or.inl rfl)
  refine ⟨by rw [h1, readConcat_eq], ?_, fun carry => ?_, fun carry => ?_⟩
  · rw [h1, multipart_eq_concat bodies hlen hfit hno]
    show _ <+: (readConcat bodies.flatten).1
    rw [readConcat_eq, flatten_take_drop bodies p]
    exact parseGrouped_prefix [] _ _ (NoPartMarkers.flatten fun b hb => hno.parts b (htk b hb))
  · rw [(part_next_flag bodies hlen hfit hno (p - 1) (by omega) carry).1]
    simp only [decide_eq_true_eq]; omega
  · rw [(part_next_flag bodies hlen hfit hno (bodies.length - 1) (by omega) carry).1]
    simp only [decide_eq_false_iff_not]; omega

-- only the first of the two example parts: no entry, status ok (!), but `next = true`;
-- the second part, read with the first one's carry buffer, closes the entry and has `next = false`
example : readMultipartWith chunksStream true 0 [] ((encodeParts exBodies).take 1) = ([], .ok ()) ∧
    (readArchiveWith chunksStream [] (encodeParts exBodies)[0]).next = true ∧
    (readArchiveWith chunksStream [] (encodeParts exBodies)[0]).carry = exB0 ∧
    (readNextWith chunksStream 0 exB0 (encodeParts exBodies)[1]).next = false ∧
    (readNextWith chunksStream 0 exB0 (encodeParts exBodies)[1]).entries = [exEntry] := by decide +kernel
-- the hypotheses of (4) on the example: 2 parts, only the first one present
example := missing_last_part exBodies ex_len ex_fit ex_clean 1 (by decide) (by decide)
example := part_next_flag exBodies ex_len ex_fit ex_clean 1 (by decide) exB0
-- a part presented out of order is rejected
example : (readNextWith chunksStream 0 [] (encodeParts exBodies)[0]).status = .error .invalidData := by
  decide +kernel

-- ---------------------------------------------------------------- (5) a part file cut anywhere

theorem seqOut_snd_ok {p q : List ReadEntry × Outcome Unit} {u : Unit} (h : (seqOut p q).2 = .ok u) :
    ∃ v, p.2 = .ok v := by
  obtain ⟨es, o⟩ := p
  cases o with
  | ok v => exact ⟨v, rfl⟩
  | error e => simp [seqOut] at h
  | panic s => simp [seqOut] at h

theorem bodies_flatten_split (bodies : List (List Chunk)) (p : Nat) (hp : p < bodies.length) :
    bodies.flatten = (bodies.take p).flatten ++ (bodies[p] ++ (bodies.drop (p + 1)).flatten) := by
  conv => lhs; rw [← List.take_append_drop p bodies, List.drop_eq_getElem_cons hp]
  rw [List.flatten_append, List.flatten_cons]

/-- **(5)** the sequence is interrupted inside part file `p` (cut at byte `k`, anywhere: signature, AHED, a body
    chunk, ANXT, AEND).  There is a prefix `pre` of body `p` (the body chunks complete before the cut) such that
    the reader returns exactly what one archive holding the first `p` bodies and `pre` would give, except that
    the end is never clean: the status is the first parse error if an item fails to parse, else
    `UnexpectedEof` (`cutOut`).  Hence: never ok; the entries are a prefix of the complete sequence's; and when
    the complete sequence reads ok, the status is `.error .eof`. -/
theorem truncated_part (bodies : List (List Chunk)) (hlen : bodies.length ≤ 2 ^ 32)
    (hfit : ChunksFit bodies.flatten) (hno : BodiesClean bodies) (p : Nat) (hp : p < bodies.length) (k : Nat)
    (hk : k < ((encodeParts bodies)[p]'(by rw [encodeParts_length]; exact hp)).length) :
    ∃ pre, pre <+: bodies[p] ∧
      readMultipartWith chunksStream true 0 []
          ((encodeParts bodies).take p ++ [((encodeParts bodies)[p]'(by rw [encodeParts_length]; exact hp)).take k])
        = cutOut (readConcat ((bodies.take p).flatten ++ pre)) ∧
      (∀ u, (readMultipartWith chunksStream true 0 []
          ((encodeParts bodies).take p ++ [((encodeParts bodies)[p]'(by rw [encodeParts_length]; exact hp)).take k])).2
        ≠ .ok u) ∧
      (readMultipartWith chunksStream true 0 []
          ((encodeParts bodies).take p ++ [((encodeParts bodies)[p]'(by rw [encodeParts_length]; exact hp)).take k])).1
        <+: (readMultipartWith chunksStream true 0 [] (encodeParts bodies)).1 ∧
      ((readMultipartWith chunksStream true 0 [] (encodeParts bodies)).2 = .ok () →
        (readMultipartWith chunksStream true 0 []
          ((encodeParts bodies).take p ++ [((encodeParts bodies)[p]'(by rw [encodeParts_length]; exact hp)).take k])).2
          = .error .eof) := by
  have hb1 := fit_parts hfit bodies[p] (List.getElem_mem hp)
  have hb2 := hno.parts bodies[p] (List.getElem_mem hp)
  have htk : ∀ b ∈ bodies.take p, b ∈ bodies := fun b hb => List.mem_of_mem_take hb
  have hF : NoPartMarkers (bodies.take p).flatten := NoPartMarkers.flatten fun b hb => hno.parts b (htk b hb)
  have hlt : (bodies.take p).length = p := by rw [List.length_take]; omega
  rw [encodeParts_getElem bodies p hp] at hk
  obtain ⟨pre, hpre, H⟩ := multipart_cut_single p bodies.length (by omega) bodies[p] hb1 hb2 k hk
  obtain ⟨t, ht⟩ := hpre
  have hFp : NoPartMarkers ((bodies.take p).flatten ++ pre) :=
    hF.append (NoPartMarkers.left (b := t) (by rw [ht]; exact hb2))
  -- the reading itself
  have hread : readMultipartWith chunksStream true 0 []
      ((encodeParts bodies).take p ++ [((encodeParts bodies)[p]'(by rw [encodeParts_length]; exact hp)).take k])
        = cutOut (parseGrouped [] ((bodies.take p).flatten ++ pre)) := by
    rw [encodeParts_getElem bodies p hp, encodeParts_eq, partsFrom_take]
    rw [multipart_append bodies.length [(encodePartFile p bodies.length bodies[p]).take k]
      (fun c => cutOut (parseGrouped c pre)) (bodies.take p) 0 (by omega)
      (fun b hb => fit_parts hfit b (htk b hb)) (fun b hb => hno.parts b (htk b hb))
      (fun first pn c h => H first pn c (by rw [hlt] at h; simpa using h)) true 0 [] (Or.inl rfl)]
    rw [seqOut_cutOut, ← parseGrouped_append _ _ _ hF]
  -- the complete sequence, seen as "up to the cut" followed by the rest
  have hfull : readMultipartWith chunksStream true 0 [] (encodeParts bodies)
      = seqOut (parseGrouped [] ((bodies.take p).flatten ++ pre))
          (parseGrouped (carryAfter [] ((bodies.take p).flatten ++ pre)) (t ++ (bodies.drop (p + 1)).flatten)) := by
    rw [multipart_eq_concat bodies hlen hfit hno]
    show readConcat bodies.flatten = _
    rw [readConcat_eq, ← parseGrouped_append _ _ _ hFp, bodies_flatten_split bodies p hp, ← ht]
    simp only [List.append_assoc]
  refine ⟨pre, ⟨t, ht⟩, by rw [hread, readConcat_eq], fun u => ?_, ?_, fun hok => ?_⟩
  · rw [hread]; exact cutOut_not_ok _ u
  · rw [hread, hfull, cutOut_fst]; exact seqOut_fst_prefix _ _
  · rw [hfull] at hok
    obtain ⟨v, hv⟩ := seqOut_snd_ok hok
    rw [hread]
    rcases hpg : parseGrouped [] ((bodies.take p).flatten ++ pre) with ⟨es, o⟩
    rw [hpg] at hv
    simp only at hv
    subst hv
    rfl

-- the second example part cut in the middle of its FDAT chunk, and the first one cut inside its AEND:
-- no entry, `UnexpectedEof`
example : (encodeParts exBodies)[1].length = 65 ∧
    readMultipartWith chunksStream true 0 [] ((encodeParts exBodies).take 1 ++ [(encodeParts exBodies)[1].take 35])
      = ([], .error .eof) ∧
    readMultipartWith chunksStream true 0 [] ((encodeParts exBodies).take 0 ++ [(encodeParts exBodies)[0].take 84])
      = ([], .error .eof) := by decide +kernel
-- the hypotheses of (5) on the example: part 1 cut at byte 35 of 65
example := truncated_part exBodies ex_len ex_fit ex_clean 1 (by decide) 35 (by decide +kernel)
-- cut inside the AEND of the last part: the entry is complete and returned, but the end is not clean
example : readMultipartWith chunksStream true 0 [] ((encodeParts exBodies).take 1 ++ [(encodeParts exBodies)[1].take 64])
    = ([exEntry], .error .eof) := by decide +kernel

-- ---------------------------------------------------------------- the parse-error case of (2), concretely
-- an item that does not parse (it starts with FDAT) after a good one, cut across the two parts: both readers
-- return the good entry and then the item's error
def exBad0 : List Chunk := [⟨ChunkType.FHED, [0, 0, 0, 0, 0, 0, 97]⟩, ⟨ChunkType.FEND, []⟩, ⟨ChunkType.FDAT, [1]⟩]
def exBad1 : List Chunk := [⟨ChunkType.FEND, []⟩, ⟨ChunkType.FHED, [0, 0, 0, 0, 0, 0, 97]⟩, ⟨ChunkType.FEND, []⟩]
example : (readMultipartWith chunksStream true 0 [] (encodeParts [exBad0, exBad1])).1.length = 1 ∧
    (readMultipartWith chunksStream true 0 [] (encodeParts [exBad0, exBad1])).2 = .error .invalidData ∧
    readMultipartWith chunksStream true 0 [] (encodeParts [exBad0, exBad1]) = readConcat [exBad0, exBad1].flatten := by
  decide +kernel

-- ---------------------------------------------------------------- more than 2^32 parts

/-- a 31-byte item: FHED "a", FEND -/
def exSmall : List Chunk := [⟨ChunkType.FHED, [0, 0, 0, 0, 0, 0, 97]⟩, ⟨ChunkType.FEND, []⟩]

theorem exSmall_wf : ItemWF exSmall := ⟨[⟨ChunkType.FHED, [0, 0, 0, 0, 0, 0, 97]⟩], ⟨ChunkType.FEND, []⟩, rfl, Or.inl rfl, by decide⟩
theorem exSmall_fit : ChunksFit exSmall := by unfold ChunksFit; decide
theorem exSmall_clean : NoPartMarkers exSmall := ItemWF_noPartMarkers exSmall_wf

theorem exSmall_first : splitToParts exSmall (31 - 0) 31 = .ok [exSmall] := by decide +kernel
theorem exSmall_later : splitToParts exSmall (31 - 31) 31 = .ok [[], exSmall] := by decide +kernel

/-- with 83-byte files every such item fills a part: after the first one, each item closes the open part -/
theorem splitEntries_exSmall (m : Nat) : ∀ cl : List (List Chunk),
    splitEntries 31 ⟨cl, exSmall, 31⟩ (List.replicate m exSmall) = .ok ⟨cl ++ List.replicate m exSmall, exSmall, 31⟩ := by
  induction m with
  | zero => intro cl; simp [splitEntries]
  | succ m ih =>
    intro cl
    rw [List.replicate_succ, splitEntries_cons]
    simp only [exSmall_later]
    have hp : placeParts 31 ⟨cl, exSmall, 31⟩ [[], exSmall] = ⟨cl ++ [exSmall], exSmall, 31⟩ := by
      have h31 : partLen exSmall = 31 := by decide
      simp [placeParts, h31]
    rw [hp, ih]
    simp

theorem writeSplit_exSmall (m : Nat) :
    writeSplit (List.replicate (m + 1) exSmall) 83 = .ok (List.replicate (m + 1) exSmall) := by
  have h0 : placeParts 31 {} [exSmall] = ⟨[], exSmall, 31⟩ := by
    have h31 : partLen exSmall = 31 := by decide
    simp [placeParts, h31]
  have hs : splitEntries 31 {} (List.replicate (m + 1) exSmall) = .ok ⟨List.replicate m exSmall, exSmall, 31⟩ := by
    rw [List.replicate_succ, splitEntries_cons]
    show (match splitToParts exSmall (31 - 0) 31 with
      | .ok parts => splitEntries 31 (placeParts 31 {} parts) (List.replicate m exSmall)
      | .error err => .error err
      | .panic s => .panic s) = _
    rw [exSmall_first]
    simp only
    rw [h0, splitEntries_exSmall]
    simp
  rw [writeSplit_eq, if_neg (by decide)]
  show (match splitEntries 31 {} (List.replicate (m + 1) exSmall) with
    | .ok a => Outcome.ok (a.closed ++ [a.cur])
    | .error e => .error e
    | .panic s => .panic s) = _
  rw [hs]
  simp only
  rw [List.replicate_succ']

theorem parseGrouped_exSmall (m : Nat) : (parseGrouped [] (List.replicate m exSmall).flatten).2 = .ok () := by
  induction m with
  | zero => rfl
  | succ m ih =>
    have h1 : (parseGrouped [] exSmall).2 = .ok () := by decide +kernel
    have h2 : carryAfter [] exSmall = [] := by decide +kernel
    rw [List.replicate_succ, List.flatten_cons, parseGrouped_append _ _ _ exSmall_clean, h2]
    rcases hp : parseGrouped [] exSmall with ⟨es, o⟩
    rw [hp] at h1
    simp only at h1
    subst h1
    rw [seqOut_ok]
    exact ih

/-- the number of part `2^32` wraps to 0 in the 32-bit field of AHED -/
theorem encAHED_wrap : encAHED ⟨0, 0, 2 ^ 32⟩ = encAHED ⟨0, 0, 0⟩ := by decide +kernel

/-- the part after number `2^32 - 1` is rejected by the number check: its header says 0 -/
theorem part_2_32_rejected (m : Nat) (hm : m + 1 = 2 ^ 32) (c : List Chunk) :
    readMultipartWith chunksStream false m c [encodePartFile (m + 1) (m + 2) exSmall]
      = cutOut ([], .error .invalidData) := by
  have e : encodePartFile (m + 1) (m + 2) exSmall = encodePartFile 0 1 exSmall := by
    unfold encodePartFile
    rw [if_neg (by omega : ¬ (m + 1 + 1 < m + 2)), if_neg (by decide : ¬ (0 + 1 < 1)), hm, encAHED_wrap]
  rw [e, readMultipartWith]
  simp only [Bool.false_eq_true, if_false]
  rw [readNextWith_partFile_wrong 0 1 (by decide) exSmall exSmall_fit exSmall_clean c m (by omega)]
  rfl

/-- **`writeSplit` writes more than 2^32 parts without complaint, and the result cannot be read back**:
    2^32 + 1 complete 31-byte items at 83 bytes per file give 2^32 + 1 parts; all hypotheses of (3) except the
    bound on the number of parts hold; one archive holding the same chunks reads ok, but in the sequence the
    number of the last part has wrapped to 0 and `read_next_archive` rejects it.  So the bound `hlen` of
    `multipart_eq_concat` / `split_then_read_partial` (`≤ 2^32`) cannot be dropped, and it is sharp. -/
theorem too_many_parts_unreadable :
    ∃ (entries : List (List Chunk)) (maxFile : Nat) (bodies : List (List Chunk)),
      writeSplit entries maxFile = .ok bodies ∧ (∀ e ∈ entries, ItemWF e) ∧ ChunksFit entries.flatten ∧
      bodies.length = 2 ^ 32 + 1 ∧ ChunksFit bodies.flatten ∧ BodiesClean bodies ∧
      (readConcat bodies.flatten).2 = .ok () ∧
      (readMultipartWith chunksStream true 0 [] (encodeParts bodies)).2 ≠ .ok () ∧
      readMultipartWith chunksStream true 0 [] (encodeParts bodies) ≠ readConcat bodies.flatten := by
  obtain ⟨m, hm⟩ : ∃ m, m + 1 = 2 ^ 32 := ⟨2 ^ 32 - 1, by decide⟩
  have hmem : ∀ x ∈ List.replicate (m + 1 + 1) exSmall, x = exSmall := fun x hx => List.eq_of_mem_replicate hx
  have hfit : ChunksFit (List.replicate (m + 1 + 1) exSmall).flatten := by
    intro c hc
    obtain ⟨x, hx, hcx⟩ := List.mem_flatten.mp hc
    rw [hmem x hx] at hcx
    exact exSmall_fit c hcx
  have hclean : BodiesClean (List.replicate (m + 1 + 1) exSmall) := by
    intro x hx c hc
    rw [hmem x hx] at hc
    exact exSmall_clean c hc
  have hconcat : (readConcat (List.replicate (m + 1 + 1) exSmall).flatten).2 = .ok () := by
    rw [readConcat_eq]; exact parseGrouped_exSmall _
  have hseq : (readMultipartWith chunksStream true 0 [] (encodeParts (List.replicate (m + 1 + 1) exSmall))).2
      ≠ .ok () := by
    have hsplit : List.replicate (m + 1 + 1) exSmall = (exSmall :: List.replicate m exSmall) ++ [exSmall] := by
      rw [List.replicate_succ', List.replicate_succ]
    rw [encodeParts_eq, List.length_replicate]
    have hlast : partsFrom (0 + (exSmall :: List.replicate m exSmall).length) (m + 1 + 1) [exSmall]
        = [encodePartFile (m + 1) (m + 1 + 1) exSmall] := by
      rw [partsFrom_cons, partsFrom_nil]; simp
    conv => lhs; rw [hsplit, partsFrom_append, hlast]
    rw [multipart_append_ne (m + 1 + 1) [encodePartFile (m + 1) (m + 1 + 1) exSmall]
      (fun _ => cutOut ([], .error .invalidData)) (List.replicate m exSmall) exSmall 0
      (by rw [List.length_replicate]; omega)
      (fun x hx => by
        have : x = exSmall := by
          rcases List.mem_cons.mp hx with h | h
          · exact h
          · exact List.eq_of_mem_replicate h
        rw [this]; exact exSmall_fit)
      (fun x hx => by
        have : x = exSmall := by
          rcases List.mem_cons.mp hx with h | h
          · exact h
          · exact List.eq_of_mem_replicate h
        rw [this]; exact exSmall_clean)
      (fun c => by
        rw [List.length_replicate, Nat.zero_add]
        exact part_2_32_rejected m hm c)
      true 0 [] (Or.inl rfl)]
    exact seqOut_cutOut_not_ok _ _ ()
  refine ⟨List.replicate (m + 1 + 1) exSmall, 83, List.replicate (m + 1 + 1) exSmall, writeSplit_exSmall (m + 1),
    fun e he => by rw [hmem e he]; exact exSmall_wf, hfit, by rw [List.length_replicate]; omega, hfit, hclean,
    hconcat, hseq, fun h => hseq (by rw [h]; exact hconcat)⟩

end Pna.C04M
