import PnaVerif.Model.Cli.Create
import PnaVerif.Lemmas.Name
/-!
# C02 — `pna create` then `pna extract` reproduces the directory tree

`expectedTree o t` (Model/Cli/Create.lean) is what the model says is found in an empty output
directory after `pna create` on the tree `t` followed by `pna extract`.  The model has **no**
parameter for compression, encryption, key derivation, solid mode, splitting or stdio transport:
that the real commands' result does not depend on them is exactly what the `cli-tree`
correspondence family checks on every run (the real `pna` under the whole option product against
this one function).  The theorems below state what the expected tree *is*, relative to the source
tree, for every tree and every subset of the keep options:

* `files_and_links_reproduced` — every regular file and symbolic link of the source is present,
  same kind, byte-identical content / link target, at its (sanitised) path;
* `sanitized_path_kept` — and that path is the source path when the walked path is already clean;
* `kept_dirs_reproduced` — with `--keep-dir` every directory (empty ones included) is present;
* `nothing_invented` — every object of the result is a restored source object or a directory
  that is a proper ancestor of one;
* `permissions_restored`, `mtime_restored` — with the keep option on both sides the permission
  bits (files, directories) and the modification time (files) are those of the source;
* `not_restored_without_option` — without the option on either side nothing is claimed.
-/
namespace Pna.C02
open Pna Pna.Cli

theorem restored_mem (o : CXOpts) (t : List TNode) (n : TNode) (h : n ∈ t) (hk : o.keepDir = true ∨ n.kind ≠ 1) :
    restoredNode o n ∈ expectedTree o t := by
  unfold expectedTree
  simp only [List.mem_append]
  left
  refine List.mem_map.mpr ⟨n, ?_, rfl⟩
  unfold archived
  refine List.mem_filter.mpr ⟨h, ?_⟩
  rcases hk with hk | hk
  · simp [hk]
  · simp [hk]

theorem files_and_links_reproduced (o : CXOpts) (t : List TNode) (n : TNode) (h : n ∈ t) (hk : n.kind ≠ 1) :
    ∃ x ∈ expectedTree o t, x.path = sanitize n.path ∧ x.kind = n.kind ∧ x.content = n.content := by
  refine ⟨restoredNode o n, restored_mem o t n h (Or.inr hk), rfl, rfl, ?_⟩
  simp [restoredNode, hk]

/-- a walked path that is already clean is kept as it is -/
theorem sanitized_path_kept (o : CXOpts) (n : TNode) (h : sanitize n.path = n.path) :
    (restoredNode o n).path = n.path := h

theorem kept_dirs_reproduced (o : CXOpts) (t : List TNode) (hkd : o.keepDir = true) (n : TNode) (h : n ∈ t) :
    ∃ x ∈ expectedTree o t, x.path = sanitize n.path ∧ x.kind = n.kind :=
  ⟨restoredNode o n, restored_mem o t n h (Or.inl hkd), rfl, rfl⟩

theorem nothing_invented (o : CXOpts) (t : List TNode) (x : XNode) (h : x ∈ expectedTree o t) :
    (∃ n ∈ t, (o.keepDir = true ∨ n.kind ≠ 1) ∧ x = restoredNode o n) ∨
    (x.kind = 1 ∧ x.content = [] ∧ x.mode = none ∧ x.mtime = none ∧
      ∃ n ∈ t, (o.keepDir = true ∨ n.kind ≠ 1) ∧ x.path ∈ ancestors (sanitize n.path)) := by
  unfold expectedTree at h
  simp only [List.mem_append] at h
  rcases h with h | h
  · left
    obtain ⟨n, hn, rfl⟩ := List.mem_map.mp h
    unfold archived at hn
    obtain ⟨hn1, hn2⟩ := List.mem_filter.mp hn
    refine ⟨n, hn1, ?_, rfl⟩
    simp only [Bool.or_eq_true, bne_iff_ne, ne_eq] at hn2
    exact hn2
  · right
    unfold impliedDirs at h
    obtain ⟨d, hd, rfl⟩ := List.mem_map.mp h
    obtain ⟨hd1, _⟩ := List.mem_filter.mp hd
    have hd2 : d ∈ (List.map (restoredNode o) (archived o t)).flatMap (fun x => ancestors x.path) := by
      exact List.mem_eraseDups.mp hd1
    obtain ⟨y, hy, hyd⟩ := List.mem_flatMap.mp hd2
    obtain ⟨n, hn, rfl⟩ := List.mem_map.mp hy
    unfold archived at hn
    obtain ⟨hn1, hn2⟩ := List.mem_filter.mp hn
    simp only [Bool.or_eq_true, bne_iff_ne, ne_eq] at hn2
    exact ⟨rfl, rfl, rfl, rfl, n, hn1, hn2, hyd⟩

theorem permissions_restored (o : CXOpts) (n : TNode) (hc : o.keepPermissionC = true) (hx : o.keepPermissionX = true)
    (hk : n.kind ≠ 2) : (restoredNode o n).mode = some n.mode := by
  simp [restoredNode, hc, hx, hk]

theorem mtime_restored (o : CXOpts) (n : TNode) (hc : o.keepTimestampC = true) (hx : o.keepTimestampX = true)
    (hk : n.kind = 0) : (restoredNode o n).mtime = some n.mtime := by
  simp [restoredNode, hc, hx, hk]

theorem not_restored_without_option (o : CXOpts) (n : TNode) :
    ((o.keepPermissionC = false ∨ o.keepPermissionX = false) → (restoredNode o n).mode = none) ∧
    ((o.keepTimestampC = false ∨ o.keepTimestampX = false) → (restoredNode o n).mtime = none) := by
  constructor
  · rintro (h | h) <;> simp [restoredNode, h]
  · rintro (h | h) <;> simp [restoredNode, h]

/-- the kind of an object never changes on the way through the archive -/
theorem kinds_kept (o : CXOpts) (n : TNode) : (restoredNode o n).kind = n.kind := rfl

-- non-vacuity: a tree with a nested file, an empty directory and a dangling link
def exTree : List TNode :=
  [⟨[116], 1, [], 493, 0⟩, ⟨[116, 47, 97], 0, [1, 2, 3], 420, 1000⟩, ⟨[116, 47, 101], 1, [], 448, 0⟩,
   ⟨[116, 47, 108], 2, [110, 111], 511, 0⟩]

example : (expectedTree ⟨false, true, true, true, true⟩ exTree).map (fun x => (x.path, x.kind, x.mode, x.mtime)) =
    [([116, 47, 97], 0, some 420, some 1000), ([116, 47, 108], 2, none, none), ([116], 1, none, none)] := by
  decide +kernel

example : ((expectedTree ⟨true, false, false, true, true⟩ exTree).map (·.path)) =
    [[116], [116, 47, 97], [116, 47, 101], [116, 47, 108]] := by decide +kernel

end Pna.C02
