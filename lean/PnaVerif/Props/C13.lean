import PnaVerif.Lemmas.Chunk
/-!
# C13 — pass-through is exact (chunk level floor)
`decode ∘ encode = id` for every chunk whose payload fits the 32-bit length field, and
`encode ∘ decode = id` on every accepted byte string: copying chunks without interpreting
them reproduces the input byte for byte.  Entry-level re-serialisation theorems are in
`Props/C13Entry.lean`.
-/
namespace Pna.C13
open Pna

theorem chunk_dec_enc (c : Chunk) (r : Bytes) (h : c.data.length < 2 ^ 32) :
    decodeStream (c.encode ++ r) = .ok (c, r) ∧ decodeSlice (c.encode ++ r) = .ok (c, r) :=
  ⟨decodeStream_encode c r h, decodeSlice_encode c r h⟩

theorem chunk_enc_dec (bs : Bytes) (c : Chunk) (r : Bytes) (h : decodeStream bs = .ok (c, r)) :
    c.encode ++ r = bs := (decodeStream_ok_inv bs c r h).1

theorem chunk_enc_dec_slice (bs : Bytes) (c : Chunk) (r : Bytes) (h : decodeSlice bs = .ok (c, r)) :
    c.encode ++ r = bs := (decodeSlice_ok_inv bs c r h).1

/-- Unknown chunk types are framed like any other: nothing in framing depends on the type. -/
theorem unknown_type_roundtrip (t : ChunkType) (d r : Bytes) (h : d.length < 2 ^ 32) :
    decodeStream ((Chunk.mk t d).encode ++ r) = .ok (⟨t, d⟩, r) := decodeStream_encode ⟨t, d⟩ r h

example : decodeStream ((Chunk.mk ⟨109, 121, 84, 121⟩ [1, 2, 3]).encode ++ [9]) = .ok (⟨⟨109, 121, 84, 121⟩, [1, 2, 3]⟩, [9]) := by
  decide +kernel

end Pna.C13
