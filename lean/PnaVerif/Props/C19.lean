import PnaVerif.Lemmas.Sched
import PnaVerif.Generated.Shapes
/-!
# C19 — results do not depend on worker-thread count or scheduling

`Generated.shapes` is regenerated from cli/src/command/*.rs on every run (`pnah shapes`, a syn-based
walk of the sources): every place that hands work to the thread pool, with its syntactic shape.
The transition system of Model/Cli/Sched.lean gives each shape its behaviours under every schedule
(any number of workers, any interleaving of task completions).

* `scope_per_item_order` — for the shape the code uses (`for item { pool.scope_fifo(|s| s.spawn_fifo(..)) }`):
  in every run, under every schedule, results arrive in submission order;
* `every_pipeline_is_ordered` — every pool site found in the sources today has a shape for which that
  theorem (or the single-task one) applies; `list.rs` uses an indexed parallel collect (order kept by
  rayon, trusted);
* `commands_covered` — each of create, append, update, extract has at least one site in the inventory
  (so the statement above is not vacuous, and moving the pool code elsewhere is noticed);
* `parallel_loop_breaks_order`, `detached_breaks_order` — the "harmless-looking parallelisation"
  (one scope around the loop, or detached spawns) admits a schedule that reorders the results:
  kernel-checked witness schedule.
-/
namespace Pna.C19
open Pna.Cli.Sched Pna.Generated

theorem scope_per_item_order (n : Nat) (tr : List Ev) (s : St)
    (h : run .scopePerItem n {} tr = some s) (hf : Final n s) : s.chan = List.range n :=
  scopePerItem_deterministic n tr s h hf

/-- shapes whose order is fixed by theorem (`ordered`) or by rayon's indexed collect (`trusted`) -/
def ordered (sh : Shape) : Bool := sh == .scopePerItem || sh == .single
def trusted (sh : Shape) : Bool := sh == .parIterCollect

theorem ordered_deterministic (sh : Shape) (h : ordered sh = true) : Deterministic sh := by
  cases sh <;> simp [ordered] at h
  · exact scopePerItem_deterministic
  · exact single_deterministic

theorem inventory_ok : shapes.all (fun r => if r.cmd == .other then ordered r.shape || trusted r.shape else ordered r.shape) = true := by
  decide

theorem every_pipeline_is_ordered (r : Site) (hr : r ∈ shapes) (hc : r.cmd ≠ .other) : Deterministic r.shape := by
  have h := List.all_eq_true.mp inventory_ok r hr
  have hc' : (r.cmd == Cmd.other) = false := by simpa using hc
  simp only [hc', Bool.false_eq_true, ↓reduceIte] at h
  exact ordered_deterministic _ h

theorem commands_covered : [Cmd.create, Cmd.append, Cmd.update, Cmd.extract].all (fun c => shapes.any (fun r => r.cmd == c)) = true := by
  decide

theorem parallel_loop_breaks_order : ¬ Deterministic .scopeAroundLoop := scopeAroundLoop_not_deterministic
theorem detached_breaks_order : ¬ Deterministic .detached := detached_not_deterministic
theorem unordered_par_iter_breaks_order : ¬ Deterministic .parIterUnordered := parIterUnordered_not_deterministic

-- non-vacuity: a schedule of the per-item shape with three items that reaches a final state
example : run .scopePerItem 3 {} [.spawn, .finish 0, .spawn, .finish 1, .spawn, .finish 2] = some ⟨3, [], [0, 1, 2]⟩ := by decide
-- the per-item shape refuses to submit while a task is running
example : run .scopePerItem 3 {} [.spawn, .spawn] = none := by decide
-- the witness schedule for one scope around the loop
example : run .scopeAroundLoop 2 {} [.spawn, .spawn, .finish 1, .finish 0] = some ⟨2, [], [1, 0]⟩ := by decide

end Pna.C19
