import PnaVerif.Model.Cli.Fault
/-!
# C12 — a command that fails part-way leaves the archive intact and readable

For every archive, every list of inputs / every per-entry processing function, and **every position**
of the failing step:
* `append_failure_leaves_archive` — a failing `append` leaves the archive file exactly as it was;
* `append_fails_at_any_position` — and it does fail whenever some input fails, wherever it is;
* `append_success` — otherwise the archive is terminated and is the old entries followed by the new;
* `rewrite_failure_leaves_archive` — a failing rewrite (delete, strip, chmod, chown, xattr, acl,
  migrate, update) leaves the archive file exactly as it was: only the temp file was written;
* `rewrite_fails_at_any_position`, `rewrite_success`;
* `temp_never_replaces_on_failure` — on failure the archive is not the temp file;
* `intact_after_any_command` — the statement of C12 for all three commands;
* `legacy_append_violates` — the pre-fix append (write as entries arrive) breaks the statement:
  kernel-checked witness, the replay that the `fault` family found on the real binary.
-/
namespace Pna.C12
open Pna.Cli.Fault

theorem buildAll_none_of_mem : ∀ (inputs : List (Option Nat)), none ∈ inputs → buildAll inputs = none
  | [], h => by simp at h
  | none :: _, _ => rfl
  | some x :: r, h => by
    have : none ∈ r := by simpa using h
    simp [buildAll, buildAll_none_of_mem r this]

theorem buildAll_some_of_all : ∀ (inputs : List (Option Nat)), none ∉ inputs → buildAll inputs = some (inputs.filterMap id)
  | [], _ => rfl
  | none :: _, h => by simp at h
  | some x :: r, h => by
    have : none ∉ r := by intro h'; exact h (List.mem_cons_of_mem _ h')
    simp [buildAll, buildAll_some_of_all r this]

theorem append_failure_leaves_archive (w : World) (inputs : List (Option Nat))
    (h : (appendCmd w inputs).2 = false) : (appendCmd w inputs).1 = w := by
  unfold appendCmd at *
  split at h
  · simp_all
  · split at h
    · simp_all
    · simp at h

theorem append_fails_at_any_position (w : World) (inputs : List (Option Nat)) (k : Nat)
    (hk : inputs[k]? = some none) : (appendCmd w inputs).2 = false ∧ (appendCmd w inputs).1 = w := by
  have hm : none ∈ inputs := List.mem_of_getElem? hk
  have hb := buildAll_none_of_mem inputs hm
  unfold appendCmd
  split
  · exact ⟨rfl, rfl⟩
  · simp [hb]

theorem foldl_addEntry_items (a : AFile) (xs : List Nat) : (xs.foldl addEntry a).items = a.items ++ xs := by
  induction xs generalizing a with
  | nil => simp
  | cons x r ih => simp [ih, addEntry]

theorem append_success (w : World) (inputs : List (Option Nat)) (ht : w.archive.terminated = true)
    (hall : none ∉ inputs) :
    (appendCmd w inputs).2 = true ∧ (appendCmd w inputs).1.archive.terminated = true ∧
    (appendCmd w inputs).1.archive.items = w.archive.items ++ inputs.filterMap id := by
  unfold appendCmd
  simp [ht, buildAll_some_of_all inputs hall, foldl_addEntry_items]

theorem rewriteGo_false_of_mem (f : Nat → Option (List Nat)) : ∀ (xs : List Nat) (t : AFile),
    (∃ x ∈ xs, f x = none) → (rewriteGo f t xs).2 = false
  | [], _, h => by simp at h
  | x :: r, t, h => by
    unfold rewriteGo
    cases hf : f x with
    | none => rfl
    | some ys =>
      simp only
      apply rewriteGo_false_of_mem f r
      obtain ⟨y, hy, hfy⟩ := h
      rcases List.mem_cons.mp hy with rfl | hy
      · rw [hf] at hfy; cases hfy
      · exact ⟨y, hy, hfy⟩

/-- the three ways `rewriteCmd` can end -/
theorem rewriteCmd_cases (w : World) (f : Nat → Option (List Nat)) (extra : List (Option Nat)) :
    (∃ t, rewriteCmd w f extra = ({ w with temps := t :: w.temps }, false)) ∨
    (∃ t built, w.archive.terminated = true ∧ rewriteGo f ⟨[], false⟩ w.archive.items = (t, true) ∧
      buildAll extra = some built ∧
      rewriteCmd w f extra = ({ w with archive := ⟨t.items ++ built, true⟩ }, true)) := by
  unfold rewriteCmd
  by_cases ht : w.archive.terminated = true
  · simp only [ht, Bool.not_true, Bool.false_eq_true, ↓reduceIte]
    rcases hg : rewriteGo f ⟨[], false⟩ w.archive.items with ⟨temp, b⟩
    cases b
    · left; exact ⟨temp, rfl⟩
    · cases hb : buildAll extra with
      | none => left; exact ⟨temp, rfl⟩
      | some built => right; exact ⟨temp, built, trivial, rfl, rfl, rfl⟩
  · left
    have : w.archive.terminated = false := by simpa using ht
    simp only [this, Bool.not_false, ↓reduceIte]
    exact ⟨_, rfl⟩

theorem rewrite_failure_leaves_archive (w : World) (f : Nat → Option (List Nat)) (extra : List (Option Nat))
    (h : (rewriteCmd w f extra).2 = false) : (rewriteCmd w f extra).1.archive = w.archive := by
  rcases rewriteCmd_cases w f extra with ⟨t, ht⟩ | ⟨t, built, _, _, _, hr⟩
  · rw [ht]
  · rw [hr] at h; simp at h

theorem rewrite_fails_at_any_position (w : World) (f : Nat → Option (List Nat)) (extra : List (Option Nat))
    (k : Nat) (x : Nat) (hk : w.archive.items[k]? = some x) (hf : f x = none) :
    (rewriteCmd w f extra).2 = false ∧ (rewriteCmd w f extra).1.archive = w.archive := by
  have hm : ∃ y ∈ w.archive.items, f y = none := ⟨x, List.mem_of_getElem? hk, hf⟩
  have h2 := rewriteGo_false_of_mem f w.archive.items ⟨[], false⟩ hm
  have : (rewriteCmd w f extra).2 = false := by
    rcases rewriteCmd_cases w f extra with ⟨t, ht⟩ | ⟨t, built, _, hg, _, _⟩
    · rw [ht]
    · rw [hg] at h2; simp at h2
  exact ⟨this, rewrite_failure_leaves_archive w f extra this⟩

theorem rewrite_extra_fails_at_any_position (w : World) (f : Nat → Option (List Nat)) (extra : List (Option Nat))
    (k : Nat) (hk : extra[k]? = some none) :
    (rewriteCmd w f extra).2 = false ∧ (rewriteCmd w f extra).1.archive = w.archive := by
  have hb := buildAll_none_of_mem extra (List.mem_of_getElem? hk)
  have : (rewriteCmd w f extra).2 = false := by
    rcases rewriteCmd_cases w f extra with ⟨t, ht⟩ | ⟨t, built, _, _, hb', _⟩
    · rw [ht]
    · rw [hb] at hb'; cases hb'
  exact ⟨this, rewrite_failure_leaves_archive w f extra this⟩

theorem rewrite_success (w : World) (f : Nat → Option (List Nat)) (extra : List (Option Nat))
    (h : (rewriteCmd w f extra).2 = true) :
    (rewriteCmd w f extra).1.archive.terminated = true ∧ (rewriteCmd w f extra).1.temps = w.temps := by
  rcases rewriteCmd_cases w f extra with ⟨t, ht⟩ | ⟨t, built, _, _, _, hr⟩
  · rw [ht] at h; simp at h
  · rw [hr]; exact ⟨rfl, rfl⟩

/-- on failure the file at the archive path is still the original, never the (unterminated) temp file -/
theorem temp_never_replaces_on_failure (w : World) (f : Nat → Option (List Nat)) (extra : List (Option Nat))
    (h : (rewriteCmd w f extra).2 = false) :
    (rewriteCmd w f extra).1.archive = w.archive ∧ (rewriteCmd w f extra).1.temps.length = w.temps.length + 1 := by
  refine ⟨rewrite_failure_leaves_archive w f extra h, ?_⟩
  rcases rewriteCmd_cases w f extra with ⟨t, ht⟩ | ⟨t, built, _, _, _, hr⟩
  · rw [ht]; simp
  · rw [hr] at h; simp at h

/-- **C12** for the three command shapes -/
theorem intact_after_any_command (w : World) (inputs : List (Option Nat)) (f : Nat → Option (List Nat)) :
    ((appendCmd w inputs).2 = false → Intact w.archive (appendCmd w inputs).1.archive) ∧
    ((rewriteCmd w f inputs).2 = false → Intact w.archive (rewriteCmd w f inputs).1.archive) := by
  constructor
  · intro h; left; rw [append_failure_leaves_archive w inputs h]
  · intro h; left; exact rewrite_failure_leaves_archive w f inputs h

/-- the behaviour before the fix violates the statement: second input fails after the first was written -/
theorem legacy_append_violates :
    ∃ (w : World) (inputs : List (Option Nat)),
      (appendLegacy w inputs).2 = false ∧ ¬ Intact w.archive (appendLegacy w inputs).1.archive :=
  ⟨⟨⟨[1, 2], true⟩, []⟩, [some 3, none], by decide⟩

-- non-vacuity
example : (appendCmd ⟨⟨[1, 2], true⟩, []⟩ [some 3, none, some 4]) = (⟨⟨[1, 2], true⟩, []⟩, false) := by decide
example : (appendCmd ⟨⟨[1, 2], true⟩, []⟩ [some 3, some 4]) = (⟨⟨[1, 2, 3, 4], true⟩, []⟩, true) := by decide
example : (rewriteCmd ⟨⟨[1, 2, 3], true⟩, []⟩ (fun x => if x = 2 then none else some [x]) []) =
    (⟨⟨[1, 2, 3], true⟩, [⟨[1], false⟩]⟩, false) := by decide
example : (rewriteCmd ⟨⟨[1, 2, 3], true⟩, []⟩ (fun x => if x = 2 then some [] else some [x]) [some 9]) =
    (⟨⟨[1, 3, 9], true⟩, []⟩, true) := by decide

end Pna.C12
