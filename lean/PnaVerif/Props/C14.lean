import PnaVerif.Lemmas.ArchiveRt
import PnaVerif.Lemmas.Split
/-!
# C14 — everything the tool writes is well-formed PNA that an independent reader decodes
The model's *decoder* (`chunksStream`, `readArchiveStream`) is the strict reference reader: it
was written from the format description (signature, chunk framing with CRC, AHED first, entries
closed by FEND/SEND, ANXT, AEND last).  For every output of the writers:
* `written_chunks_wellformed` — the bytes tokenise, chunk by chunk (valid length, type, CRC),
  into exactly AHED(part number), the entries' chunks, [ANXT], AEND, and nothing after AEND is
  needed (trailing bytes are never consumed);
* `strict_decoder_agrees` — decoding gives back exactly the entries written (data re-cut at
  u32::MAX only), a clean end, the continuation flag and no left-over chunks;
* `raw_copy_is_identity` — copying raw items re-encodes to the same bytes;
* `part_files_wellformed` — every part file a split produces tokenises into AHED(i) ++ body ++
  [ANXT on all but the last] ++ AEND and is within the size limit (with C04);
* `chunk_len_u32` — every chunk written has a payload < 2^32, so its length field is exact.
Decryption/decompression with primitive crates only (the other half of "independent reader")
is `harness/src/refdec.rs`, run on every archive the C01/C02/C04/C10/C11 families produce.
-/
namespace Pna.C14
open Pna

theorem written_chunks_wellformed (n : Nat) (items : List (List Chunk)) (hw : ∀ it ∈ items, ItemWF it)
    (hfit : ChunksFit items.flatten) (next : Bool) :
    chunksStream (encodeArchive n items next)
      = (⟨ChunkType.AHED, encAHED ⟨0, 0, n⟩⟩ ::
          (items.flatten ++ (if next then [⟨ChunkType.ANXT, []⟩] else []) ++ [⟨ChunkType.AEND, []⟩]), .ok ()) :=
  chunksStream_encodeArchive n items hw hfit next

theorem strict_decoder_agrees (n : Nat) (hn : n < 2 ^ 32) (es : List ReadEntry) (hw : ∀ e ∈ es, e.WF)
    (hx : ∀ e ∈ es, NoMarkers e.extra) (hfit : ChunksFit (es.flatMap serEntry)) (next : Bool) :
    let r := readArchiveStream (encodeArchive n (es.map serEntry) next)
    r.entries = es.map ReadEntry.recut ∧ r.status = .ok () ∧ r.next = next ∧ r.carry = [] ∧
      r.header = some ⟨0, 0, n⟩ ∧ r.rawItems = es.map serEntry :=
  readArchive_encode n hn es hw hx hfit next

theorem raw_copy_is_identity (n : Nat) (hn : n < 2 ^ 32) (items : List (List Chunk)) (hw : ∀ it ∈ items, ItemWF it)
    (hfit : ChunksFit items.flatten) :
    encodeArchive n (rawEntriesWith chunksStream (encodeArchive n items false)).1 false = encodeArchive n items false :=
  (raw_copy_exact n hn items hw hfit).2

/-- trailing bytes after AEND are never read: the end marker is last as far as any reader sees -/
theorem nothing_read_after_AEND (cs : List Chunk) (junk : Bytes) (hfit : ChunksFit cs) (hno : ∀ c ∈ cs, c.ty ≠ ChunkType.AEND) :
    chunksStream (signature ++ encodeChunks cs ++ (Chunk.mk ChunkType.AEND []).encode ++ junk)
      = chunksStream (signature ++ encodeChunks cs ++ (Chunk.mk ChunkType.AEND []).encode ++ []) := by
  rw [chunksStream_encode cs junk hfit hno, chunksStream_encode cs [] hfit hno]

theorem encodePartFile_eq (i n : Nat) (body : List Chunk) :
    encodePartFile i n body = signature ++ encodeChunks ([⟨ChunkType.AHED, encAHED ⟨0, 0, i⟩⟩] ++ body ++
      (if i + 1 < n then [⟨ChunkType.ANXT, []⟩] else [])) ++ (Chunk.mk ChunkType.AEND []).encode ++ [] := by
  unfold encodePartFile encodeChunks
  split <;> simp [List.flatMap_append, List.append_assoc]

/-- **Part files are well-formed**: each tokenises into AHED(i), the part's chunks, ANXT on every
    part but the last, AEND — with consecutive part numbers by construction (`encodeParts` uses
    the index). -/
theorem part_files_wellformed (i n : Nat) (body : List Chunk) (hfit : ChunksFit body)
    (hno : ∀ c ∈ body, c.ty ≠ ChunkType.AEND ∧ c.ty ≠ ChunkType.ANXT) :
    chunksStream (encodePartFile i n body)
      = ([⟨ChunkType.AHED, encAHED ⟨0, 0, i⟩⟩] ++ body ++ (if i + 1 < n then [⟨ChunkType.ANXT, []⟩] else [])
          ++ [⟨ChunkType.AEND, []⟩], .ok ()) := by
  rw [encodePartFile_eq]
  apply chunksStream_encode
  · intro c hc
    simp only [List.mem_append, List.mem_singleton] at hc
    rcases hc with (rfl | hc) | hc
    · show (encAHED ⟨0, 0, i⟩).length < 2 ^ 32
      rw [encAHED_length]; decide
    · exact hfit c hc
    · split at hc
      · simp only [List.mem_singleton] at hc; subst hc; decide
      · simp at hc
  · intro c hc
    simp only [List.mem_append, List.mem_singleton] at hc
    rcases hc with (rfl | hc) | hc
    · show ChunkType.AHED ≠ ChunkType.AEND
      decide
    · exact (hno c hc).1
    · split at hc
      · simp only [List.mem_singleton] at hc; subst hc; decide
      · simp at hc

/-- the length field of every written chunk is exact (payloads are below 4 GiB by construction:
    data is cut at u32::MAX, every other payload is small) -/
theorem chunk_len_u32 (c : Chunk) (h : c.data.length < 2 ^ 32) :
    fromBe (c.encode.take 4) = c.data.length := by
  unfold Chunk.encode
  rw [List.append_assoc, List.append_assoc, take_app _ _ (be32_length _), fromBe_be32, Nat.mod_eq_of_lt h]

-- the empty archive the library writes (regenerated constant) is well-formed
example : (chunksStream (encodeArchive 0 [] false)).2 = .ok () := by decide +kernel

end Pna.C14
