import PnaVerif.Lemmas.NoPanic
import PnaVerif.Props.C03
/-!
# C07 — no input makes a reader panic or hang (framing / parsing layer)
Every model function is total (Lean accepts the definitions: structural recursion or a fuel
bound proved sufficient), which is the "terminates" half; the theorems below are the "never
panics" half, for every byte string and every carry buffer: both chunk iterators, both entry
readers, every header/metadata decoder and the entry parsers.  Reader pipelines (cipher,
KDF dispatch, FlattenReader depth) are in `Props/C07Pipeline.lean`.
The `panic` outcome is how the model represents every `unwrap`/`split_at`/index/overflow
site of the Rust code; sites that the `fix:` commits removed are modelled as the errors
they now return, and the correspondence families fail if a panic reappears.
-/
namespace Pna.C07
open Pna

theorem chunk_parsers_total (bs : Bytes) :
    (decodeStream bs).isPanic = false ∧ (decodeSlice bs).isPanic = false := by
  refine ⟨decodeStream_no_panic bs, ?_⟩
  rw [decodeSlice_eq_decodeStream]; exact decodeStream_no_panic bs

theorem chunk_iterators_total (bs : Bytes) :
    (chunksStream bs).2.isPanic = false ∧ (chunksSlice bs).2.isPanic = false := by
  refine ⟨chunksStream_no_panic bs, ?_⟩
  rw [chunksSlice_eq_chunksStream]; exact chunksStream_no_panic bs

theorem decoders_total (bs : Bytes) :
    (decAHED bs).isPanic = false ∧ (decFHED bs).isPanic = false ∧ (decSHED bs).isPanic = false ∧
    (decTime bs).isPanic = false ∧ (decFPRM bs).isPanic = false ∧ (decXATR bs).isPanic = false :=
  ⟨decAHED_no_panic bs, decFHED_no_panic bs, decSHED_no_panic bs, decTime_no_panic bs,
   decFPRM_no_panic bs, decXATR_no_panic bs⟩

theorem entry_parsers_total (raw : List Chunk) :
    (parseN raw).isPanic = false ∧ (parseS raw).isPanic = false ∧ (parseEntry raw).isPanic = false :=
  ⟨parseN_no_panic raw, parseS_no_panic raw, parseEntry_no_panic raw⟩

/-- Both archive readers, any carry buffer (i.e. any position in a multipart sequence). -/
theorem archive_readers_total (carry : List Chunk) (bs : Bytes) :
    (readArchiveWith chunksStream carry bs).status.isPanic = false ∧
    (readArchiveWith chunksSlice carry bs).status.isPanic = false := by
  refine ⟨readArchiveStream_no_panic carry bs, ?_⟩
  rw [C03.chunksSlice_funext]; exact readArchiveStream_no_panic carry bs

-- non-vacuity: a hostile xATR (declared name length 9, one byte present) is an error, not a panic
example : decXATR [0, 0, 0, 9, 97] = .error .eof := by decide
-- AHED number u32::MAX followed by any part: rejected, not overflowed
example : (readNextWith chunksStream (2 ^ 32 - 1) []
    (signature ++ (Chunk.mk ChunkType.AHED (encAHED ⟨0, 0, 0⟩)).encode ++ (Chunk.mk ChunkType.AEND []).encode)).status
    = .error .invalidData := by decide +kernel

end Pna.C07
