import PnaVerif.Generated.Consts
import PnaVerif.Model.Archive
/-!
Proof obligations tying the model's constants to the values regenerated from the compiled
repository on every run: if the code's signature, chunk type codes, enum discriminants or
minimum chunk size change, these stop checking.
-/
namespace Pna.ConstsTie
open Pna

theorem signature_eq : Generated.signature = signature := by decide
theorem min_chunk_eq : Generated.minChunkBytes = Chunk.minBytes := by decide
theorem types_eq :
    Generated.tyAHED = ChunkType.AHED.toBytes ∧ Generated.tyAEND = ChunkType.AEND.toBytes ∧
    Generated.tyANXT = ChunkType.ANXT.toBytes ∧ Generated.tyFHED = ChunkType.FHED.toBytes ∧
    Generated.tyPHSF = ChunkType.PHSF.toBytes ∧ Generated.tyFDAT = ChunkType.FDAT.toBytes ∧
    Generated.tyFEND = ChunkType.FEND.toBytes ∧ Generated.tySHED = ChunkType.SHED.toBytes ∧
    Generated.tySDAT = ChunkType.SDAT.toBytes ∧ Generated.tySEND = ChunkType.SEND.toBytes ∧
    Generated.tyfSIZ = ChunkType.fSIZ.toBytes ∧ Generated.tycTIM = ChunkType.cTIM.toBytes ∧
    Generated.tymTIM = ChunkType.mTIM.toBytes ∧ Generated.tyaTIM = ChunkType.aTIM.toBytes ∧
    Generated.tyfPRM = ChunkType.fPRM.toBytes ∧ Generated.tyxATR = ChunkType.xATR.toBytes := by decide
theorem enums_eq :
    (∀ n, n < 256 → (validCompression n = true ↔ n ∈ Generated.compressionCodes)) ∧
    (∀ n, n < 256 → (validEncryption n = true ↔ n ∈ Generated.encryptionCodes)) ∧
    (∀ n, n < 256 → (validCipherMode n = true ↔ n ∈ Generated.cipherModeCodes)) ∧
    (∀ n, n < 256 → (validKind n = true ↔ n ∈ Generated.dataKindCodes)) := by
  refine ⟨?_, ?_, ?_, ?_⟩ <;> decide +kernel
/-- The empty archive the library writes is exactly signature ++ AHED(0,0,0) ++ AEND. -/
theorem empty_archive_eq :
    Generated.emptyArchive = signature ++ (Chunk.mk ChunkType.AHED (encAHED ⟨0, 0, 0⟩)).encode
      ++ (Chunk.mk ChunkType.AEND []).encode := by decide +kernel

end Pna.ConstsTie
