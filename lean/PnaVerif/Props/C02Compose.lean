import PnaVerif.Lemmas.Compose5
import PnaVerif.Props.C02
import PnaVerif.Props.C09Confined
/-!
# C02 at the model level — the composition of the two transcriptions equals the specification

`create` archives `entriesOf o t` for a source tree `t` (Model/Cli/Create.lean: `archived`, names
sanitised); `extractAll` (Model/Cli/Extract.lean) extracts them over the abstract file system
(Model/Fs.lean).  `expectedTree o t` is the SPECIFICATION of what is then found in an empty output
directory.  The theorems below say the two agree.

Setting: `cwd : Path`, `outDir : Bytes` a plain relative directory name (`comps outDir = [d]`,
`d ≠ ".."`, not absolute), `O = cwd ++ [d]`, `EmptyOut fs O` (the file system is `Sane` and nothing
lies strictly inside `O`), `TreeOK t` (Lemmas/Compose.lean: kinds ≤ 2, clean non-empty relative paths,
pairwise distinct, every proper ancestor is a DIRECTORY node, parents before children).

**Added hypothesis** `DepthOK fs t`: every node's depth + 2 is within `fuelFor fs = 40 + 8·#nodes`.
It is needed: the model's path walks (`resolve`, `createDirAll.go`) carry that fuel (there to model
ELOOP) and it is fixed when a call starts; a destination deeper than the fuel makes the model's
`create_dir_all` answer `loop` (`compose_depth_needed` is a kernel-checked witness).  It holds for
every tree of depth ≤ 38 whatever the file system (`depthOK_of_le_38`).

Modes and times are not part of the `Fs` model; `objAt` compares paths, kinds, file contents and
link targets.
-/
namespace Pna.C02C
open Pna Pna.Fs Pna.Cli Pna.Confined Pna.Compose

/-- the loop invariant at the end (Lemmas/Compose4.lean), under the hypotheses as stated in this file -/
theorem compose_inv (o : CXOpts) (cwd : Path) (outDir d : Bytes) (fs : Fs) (t : List TNode)
    (hcomps : comps outDir = [d]) (hd : d ≠ [dot, dot]) (hrel : ¬ isAbs outDir = true)
    (hE : EmptyOut fs (cwd ++ [d])) (hT : TreeOK t) (hD : DepthOK fs t) :
    (extractAll false cwd outDir fs (entriesOf o t)).2 = none ∧
    Inv (cwd ++ [d]) (fuelFor fs) (extractAll false cwd outDir fs (entriesOf o t)).1 (archived o t) := by
  have ho : OutDir outDir d := ⟨hcomps, hd, by simpa using hrel⟩
  obtain ⟨fs', h, hinv⟩ := extractAll_compose o ho hE hT hD
  rw [h]; exact ⟨rfl, hinv⟩

/-- **1.** extraction of what `create` archives, into an empty output directory, succeeds -/
theorem compose_succeeds (o : CXOpts) (cwd : Path) (outDir d : Bytes) (fs : Fs) (t : List TNode)
    (hcomps : comps outDir = [d]) (hd : d ≠ [dot, dot]) (hrel : ¬ isAbs outDir = true)
    (hE : EmptyOut fs (cwd ++ [d])) (hT : TreeOK t) (hD : DepthOK fs t) :
    (extractAll false cwd outDir fs (entriesOf o t)).2 = none :=
  (compose_inv o cwd outDir d fs t hcomps hd hrel hE hT hD).1

/-- **2.** every object of the specification is found below the output directory: same path, kind,
    file content / link target -/
theorem compose_complete (o : CXOpts) (cwd : Path) (outDir d : Bytes) (fs : Fs) (t : List TNode)
    (hcomps : comps outDir = [d]) (hd : d ≠ [dot, dot]) (hrel : ¬ isAbs outDir = true)
    (hE : EmptyOut fs (cwd ++ [d])) (hT : TreeOK t) (hD : DepthOK fs t) :
    ∀ x ∈ expectedTree o t, objAt (extractAll false cwd outDir fs (entriesOf o t)).1 (cwd ++ [d]) x :=
  inv_complete hT (compose_inv o cwd outDir d fs t hcomps hd hrel hE hT hD).2

/-- **3.** and nothing else is: every object strictly inside the output directory is at the path of an
    object of the specification (whose kind and content it then has, by **2.**) -/
theorem compose_nothing_else (o : CXOpts) (cwd : Path) (outDir d : Bytes) (fs : Fs) (t : List TNode)
    (hcomps : comps outDir = [d]) (hd : d ≠ [dot, dot]) (hrel : ¬ isAbs outDir = true)
    (hE : EmptyOut fs (cwd ++ [d])) (hT : TreeOK t) (hD : DepthOK fs t) :
    ∀ p, Inside (cwd ++ [d]) p → p ≠ cwd ++ [d] →
      (extractAll false cwd outDir fs (entriesOf o t)).1.lookup p ≠ none →
      ∃ x ∈ expectedTree o t, p = cwd ++ [d] ++ splitSlash x.path :=
  inv_nothing_else hT (compose_inv o cwd outDir d fs t hcomps hd hrel hE hT hD).2

/-- **4.** (corollary of the confinement theorem, Props/C09Confined.lean) nothing outside the output
    directory changes; needs only `Sane`, not the hypotheses on the tree -/
theorem compose_outside_untouched (o : CXOpts) (cwd : Path) (outDir d : Bytes) (fs : Fs) (t : List TNode)
    (hcomps : comps outDir = [d]) (hd : d ≠ [dot, dot]) (hrel : ¬ isAbs outDir = true)
    (hE : EmptyOut fs (cwd ++ [d])) :
    OutsideSame (cwd ++ [d]) fs (extractAll false cwd outDir fs (entriesOf o t)).1 := by
  refine (Pna.C09C.extractAll_confined_partial false cwd outDir d fs (entriesOf o t) hcomps hd hrel hE.1 ?_).2
  intro e he
  obtain ⟨n, _, rfl⟩ := List.mem_map.1 he
  exact sanitize_nameOkW false n.path (Or.inr rfl)

/-- **5.** distinct regular files of the result have distinct inodes: no content is shared by accident -/
theorem compose_files_distinct (o : CXOpts) (cwd : Path) (outDir d : Bytes) (fs : Fs) (t : List TNode)
    (hcomps : comps outDir = [d]) (hd : d ≠ [dot, dot]) (hrel : ¬ isAbs outDir = true)
    (hE : EmptyOut fs (cwd ++ [d])) (hT : TreeOK t) (hD : DepthOK fs t) :
    ∀ x ∈ expectedTree o t, ∀ y ∈ expectedTree o t, x.kind = 0 → y.kind = 0 → x.path ≠ y.path →
    ∀ i j, (extractAll false cwd outDir fs (entriesOf o t)).1.lookup (cwd ++ [d] ++ splitSlash x.path) = some (.file i) →
      (extractAll false cwd outDir fs (entriesOf o t)).1.lookup (cwd ++ [d] ++ splitSlash y.path) = some (.file j) →
      i ≠ j :=
  inv_files_distinct hT (compose_inv o cwd outDir d fs t hcomps hd hrel hE hT hD).2

/-- the result is again a sane file system -/
theorem compose_sane (o : CXOpts) (cwd : Path) (outDir d : Bytes) (fs : Fs) (t : List TNode)
    (hcomps : comps outDir = [d]) (hd : d ≠ [dot, dot]) (hrel : ¬ isAbs outDir = true)
    (hE : EmptyOut fs (cwd ++ [d])) (hT : TreeOK t) (hD : DepthOK fs t) :
    Sane (extractAll false cwd outDir fs (entriesOf o t)).1 (cwd ++ [d]) :=
  (compose_inv o cwd outDir d fs t hcomps hd hrel hE hT hD).2.sane

/-- the added hypothesis holds for every tree of depth at most 38, whatever the file system -/
theorem depthOK_of_le_38 (fs : Fs) (t : List TNode) (h : ∀ n ∈ t, (splitSlash n.path).length ≤ 38) :
    DepthOK fs t := by
  intro n hn
  have := h n hn
  unfold fuelFor; omega

/-- reading aid for **2.**/**3.**: for an archived node the specification's path is the node's own
    (clean) path, and such a path is recovered from its components — so `O ++ splitSlash x.path`
    names a different place for every different path -/
theorem expected_paths_clean (o : CXOpts) (t : List TNode) (hT : TreeOK t) :
    ∀ n ∈ archived o t, (restoredNode o n).path = n.path ∧ joinSlash (splitSlash n.path) = n.path :=
  fun _ hn => ⟨(hT.clean (archived_mem hn)).san, (hT.clean (archived_mem hn)).join⟩

/-! ### non-vacuity: the sandbox of `Props/C09Fs.lean` (`/s/out` empty) and `exTree` of `Props/C02.lean`
(nested file `t/a`, empty directory `t/e`, dangling symbolic link `t/l`) -/

open Pna.C09Fs Pna.C02

theorem exTree_ok : TreeOK exTree := by decide +kernel
theorem fs0_emptyOut : EmptyOut fs0 [s, out] := emptyOut_of_B (by decide +kernel)
theorem exTree_depth : DepthOK fs0 exTree := by decide +kernel

/-- the four statements instantiated, for every option setting -/
theorem compose_exTree (o : CXOpts) :
    (extractAll false [s] out fs0 (entriesOf o exTree)).2 = none ∧
    (∀ x ∈ expectedTree o exTree, objAt (extractAll false [s] out fs0 (entriesOf o exTree)).1 [s, out] x) ∧
    (∀ p, Inside [s, out] p → p ≠ [s, out] → (extractAll false [s] out fs0 (entriesOf o exTree)).1.lookup p ≠ none →
      ∃ x ∈ expectedTree o exTree, p = [s, out] ++ splitSlash x.path) ∧
    OutsideSame [s, out] fs0 (extractAll false [s] out fs0 (entriesOf o exTree)).1 :=
  ⟨compose_succeeds o [s] out out fs0 exTree (by decide) (by decide) (by decide) fs0_emptyOut exTree_ok exTree_depth,
   compose_complete o [s] out out fs0 exTree (by decide) (by decide) (by decide) fs0_emptyOut exTree_ok exTree_depth,
   compose_nothing_else o [s] out out fs0 exTree (by decide) (by decide) (by decide) fs0_emptyOut exTree_ok exTree_depth,
   compose_outside_untouched o [s] out out fs0 exTree (by decide) (by decide) (by decide) fs0_emptyOut⟩

/-- … and computed independently by the kernel: what lies strictly inside `/s/out` afterwards.
    Without `--keep-dir`: `t` (implied), the file `t/a` with its bytes, the link `t/l`; the empty
    directory `t/e` is absent.  With `--keep-dir` it is there too. -/
theorem compose_exTree_computed :
    let inside (fs : Fs) := fs.nodes.filter fun n => [s, out].isPrefixOf n.1 && n.1 != [s, out]
    let r0 := extractAll false [s] out fs0 (entriesOf ⟨false, true, true, true, true⟩ exTree)
    let r1 := extractAll false [s] out fs0 (entriesOf ⟨true, true, true, true, true⟩ exTree)
    r0.2 = none ∧ r0.1.content 2 = [1, 2, 3] ∧
    inside r0.1 = [([s, out, [116]], .dir), ([s, out, [116], [97]], .file 2), ([s, out, [116], [108]], .link [110, 111])] ∧
    r1.2 = none ∧ r1.1.content 2 = [1, 2, 3] ∧
    inside r1.1 = [([s, out, [116]], .dir), ([s, out, [116], [97]], .file 2), ([s, out, [116], [101]], .dir),
      ([s, out, [116], [108]], .link [110, 111])] := by
  decide +kernel

/-! ### the hypotheses on the tree are used (kernel-checked witnesses against the model) -/

/-- walk order matters with `--keep-dir`: a directory entry after one of its children is refused -/
theorem compose_parents_first_needed :
    let t : List TNode := [⟨[116, 47, 97], 0, [1], 0, 0⟩, ⟨[116], 1, [], 0, 0⟩]
    ¬ ParentsFirst t ∧
    (extractAll false [s] out fs0 (entriesOf ⟨true, true, true, true, true⟩ t)).2 = some .alreadyExists := by
  decide +kernel

/-- nothing may lie beneath a symbolic link: `ensure_confined` refuses the entry -/
theorem compose_no_link_ancestor_needed :
    let t : List TNode := [⟨[108], 2, [120], 0, 0⟩, ⟨[108, 47, 97], 0, [1], 0, 0⟩]
    ¬ TreeOK t ∧
    (extractAll false [s] out fs0 (entriesOf ⟨false, true, true, true, true⟩ t)).2 = some .outside := by
  decide +kernel

/-- `a/a/…/a` with `k` components -/
def deepPath (k : Nat) : Bytes := joinSlash (List.replicate k [97])

/-- the directories `a`, `a/a`, … (47 of them) and a regular file at depth 48 -/
def deepTree : List TNode :=
  (List.range 47).map (fun i => ⟨deepPath (i + 1), 1, [], 0, 0⟩) ++ [⟨deepPath 48, 0, [7], 0, 0⟩]

/-- the smallest sandbox: `/out` only, so `fuelFor = 48` -/
def fsMin : Fs := ⟨[([out], .dir)], [], 1⟩

/-- `DepthOK` cannot be dropped: a well-formed tree of depth 48 into the one-node sandbox makes the
    model's `create_dir_all` run out of fuel (about 25 s of kernel evaluation, almost all of it for
    `ParentsFirst deepTree`) -/
theorem compose_depth_needed :
    EmptyOut fsMin [out] ∧ TreeOK deepTree ∧ ¬ DepthOK fsMin deepTree ∧
    (extractAll false [] out fsMin (entriesOf ⟨false, true, true, true, true⟩ deepTree)).2 = some (.fs .loop) :=
  ⟨emptyOut_of_B (by decide +kernel),
   treeOK_of_parentsFirst (by decide +kernel) (by decide +kernel) (by decide +kernel),
   by decide +kernel, by decide +kernel⟩

/-- two levels less are within the bound, and the theorems apply (`DepthOK` asks for depth + 2 ≤ fuel) -/
example : DepthOK fsMin (deepTree.take 46) := by decide +kernel

#print axioms compose_succeeds
#print axioms compose_complete
#print axioms compose_nothing_else
#print axioms compose_outside_untouched
#print axioms compose_files_distinct
#print axioms compose_sane
#print axioms depthOK_of_le_38
#print axioms exTree_ok
#print axioms fs0_emptyOut
#print axioms exTree_depth
#print axioms compose_exTree
#print axioms compose_exTree_computed
#print axioms compose_parents_first_needed
#print axioms compose_no_link_ancestor_needed
#print axioms compose_depth_needed

end Pna.C02C
