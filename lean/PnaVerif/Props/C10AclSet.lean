import PnaVerif.Lemmas.AclSet
import PnaVerif.Props.C10AclIdem
/-!
# C10 — `acl set` is idempotent and edits only the General platform's list
Model: `Cli.aclSetE modify remove` (`transform_entry` of `pna experimental acl set -m -x` on a selected entry) and
`Cli.aclSetF` (the transformer handed to the strategy), Model/Cli/Acl.lean.  `aclList cs k` is the list of platform `k`
in the map `acl()` collects from the private chunks `cs` (a failing `acl()` counts as the empty map, as in the command).

* `ArgOk x` — the owner named by the argument is well formed (`↔ x.toAce.WF`, `argOk_iff_toAce_WF`);
* `aclset_readback` — the map read back from the written chunks: the collected map with the General list edited by
  `aclUpd modify remove`, and that list DROPPED if the edit emptied it (`dropEmpty`);
* (1) `aclset_other_platforms` — the list of every platform `k ≠ ""` reads back as it was;
* `aclset_general_list` — the General list reads back as `aclUpd modify remove l`, or not at all if that is empty;
* (2) `aclset_modify_semantics`, `modifyFirst_pointwise`, `aclset_modify_match`, `aclset_modify_nomatch`;
* (3) `aclset_remove_semantics`, `aclset_remove_nomatch_map`, `aclset_noedit_migrate`, `aclset_remove_nomatch_migrate`;
* (4) `aclset_idem` — idempotence, for all entries and all argument combinations, given `ArgOk` of the `-m` argument only;
  `aclset_idem_needs_ArgOk*` — kernel-checked failures without it;
* (5) `aclsetF_unselected`, `aclsetF_selected`, `aclsetF_idem`.
-/
namespace Pna.C10AS
open Pna Pna.Cli Pna.Cli.Text

/-- the owner named by an `-m` or `-x` argument is well formed: a named user or group has a non-empty name without `:` -/
abbrev ArgOk := Cli.ArgOk

theorem argOk_iff_toAce_WF (x : AclArg) : ArgOk x ↔ x.toAce.WF := (toAce_WF_iff x).symm

/-- the list of platform `k` among the private chunks `cs` (`none`: there is none) -/
def aclList (cs : List (Bytes × Bytes)) (k : Str) : Option (List Ace) := List.lookup k ((aclOf [] [] cs).getD [])

theorem aclList_some {cs : List (Bytes × Bytes)} {k : Str} {l : List Ace} (h : aclList cs k = some l) :
    ∃ m, aclOf [] [] cs = some m ∧ List.lookup k m = some l := by
  unfold aclList at h
  cases hm : aclOf [] [] cs with
  | none => rw [hm] at h; cases h
  | some m => rw [hm] at h; exact ⟨m, rfl, h⟩

/-- "the entry has a General list", as `aclSetE` tests it -/
theorem general_iff (cs : List (Bytes × Bytes)) :
    ((aclOf [] [] cs).getD []).any (·.1 == []) = (aclList cs []).isSome := any_key_eq_isSome _ _

-- ---------------------------------------------------------------- example arguments (on `C10A.exG`)

/-- `-m u:bob:w,x` — matches the General entry of `exG` -/
def argBobWX : AclArg := ⟨false, .user "bob".toList, some "w,x".toList⟩
/-- `-m u:carol:r` — matches nothing in `exG` -/
def argCarol : AclArg := ⟨false, .user "carol".toList, some "r".toList⟩
/-- `-x u:bob` -/
def argBob : AclArg := ⟨false, .user "bob".toList, none⟩
/-- an empty name (the argument parser cannot produce it) -/
def argEmpty : AclArg := ⟨false, .user [], some "r".toList⟩
/-- a `:` in the name -/
def argColon : AclArg := ⟨false, .user "a:b".toList, some "r".toList⟩
/-- a `:` in the name, such that the text written parses — as a DIFFERENT entry -/
def argColon2 : AclArg := ⟨false, .user "u:bob".toList, some "w".toList⟩

def aceBobR : Ace := { flags := List.replicate 6 false, owner := .user "bob".toList, allow := true,
                       perms := true :: List.replicate 15 false }
def aceAliceR : Ace := { aceBobR with owner := .user "alice".toList }

example : ArgOk argBobWX ∧ ArgOk argCarol ∧ ArgOk argBob := by decide
example : ¬ ArgOk argEmpty ∧ ¬ ArgOk argColon ∧ ¬ ArgOk argColon2 := by decide
example : argBobWX.toAce.WF := (argOk_iff_toAce_WF _).mp (by decide)

theorem exG_acl : aclOf [] [] C10A.exG.extras = some [("linux".toList, [aceAliceR]), ([], [aceBobR])] := by
  decide +kernel
theorem exG_general : aclList C10A.exG.extras [] = some [aceBobR] := by decide +kernel
theorem exG_linux : aclList C10A.exG.extras "linux".toList = some [aceAliceR] := by decide +kernel

-- ---------------------------------------------------------------- the map read back

/-- What `acl()` collects from the chunks `acl set` wrote (entry with a General list, `-m` argument well formed). -/
theorem aclset_readback (modify remove : Option AclArg) (hx : ∀ x, modify = some x → ArgOk x) (e : LEntry) (m : AclMap)
    (hm : aclOf [] [] e.extras = some m) (hg : m.any (·.1 == []) = true) :
    aclOf [] [] (aclSetE modify remove e).extras = some (dropEmpty (m.map (editG (aclUpd modify remove)))) :=
  aclSetE_readback modify remove hx e m hm hg

example : aclOf [] [] (aclSetE (some argCarol) (some argBob) C10A.exG).extras
    = some [("linux".toList, [aceAliceR]), ([], [argCarol.toAce])] := by
  rw [aclset_readback _ _ (by intro x h; cases h; decide) _ _ exG_acl (by decide)]
  decide +kernel

-- ---------------------------------------------------------------- (1) the other platforms

/-- (1) The list of every platform other than General reads back from the edited entry exactly as it was — whether or
    not the entry has a General list, whatever `-x` names; the `-m` argument must be well formed. -/
theorem aclset_other_platforms (modify remove : Option AclArg) (hx : ∀ x, modify = some x → ArgOk x) (e : LEntry)
    (k : Str) (hk : k ≠ []) : aclList (aclSetE modify remove e).extras k = aclList e.extras k := by
  cases hg0 : ((aclOf [] [] e.extras).getD []).any (·.1 == []) with
  | false => rw [aclSetE_of_no_general modify remove e hg0]
  | true =>
    obtain ⟨m, hm, hg⟩ := aclOf_of_general hg0
    have hok := aclOf_ok [] [] _ m aclMapOk_nil hm
    unfold aclList
    rw [aclset_readback modify remove hx e m hm hg, hm, Option.getD_some, Option.getD_some]
    exact lookup_dropEmpty_editG_other _ m k hk (fun p hp => (hok.2 p hp).1)

example : aclList (aclSetE (some argBobWX) (some argBob) C10A.exG).extras "linux".toList = some [aceAliceR] :=
  (aclset_other_platforms _ _ (by intro x h; cases h; decide) _ _ (by decide)).trans exG_linux
example : aclList (aclSetE (some argBobWX) (some argBob) C10A.exG).extras "linux".toList = some [aceAliceR] := by
  decide +kernel

/-- without `ArgOk`: a `:` in the name makes the written text unreadable, `acl()` fails on the result, and the lists
    of ALL platforms are gone for every later command (`unwrap_or_default`) -/
theorem other_platforms_needs_ArgOk :
    aclOf [] [] (aclSetE (some argColon) none C10A.exG).extras = none ∧
    aclList (aclSetE (some argColon) none C10A.exG).extras "linux".toList = none ∧
    aclList C10A.exG.extras "linux".toList = some [aceAliceR] := by decide +kernel

-- ---------------------------------------------------------------- the General list

/-- The General list reads back as the edited list `aclUpd modify remove l` — or NOT AT ALL when the edit emptied it:
    `aclChunks` writes a lone `faCl` chunk for an empty list, and `acl()` creates a list only when it meets an entry. -/
theorem aclset_general_list (modify remove : Option AclArg) (hx : ∀ x, modify = some x → ArgOk x) (e : LEntry)
    (l : List Ace) (hl : aclList e.extras [] = some l) :
    aclList (aclSetE modify remove e).extras [] =
      if aclUpd modify remove l = [] then none else some (aclUpd modify remove l) := by
  obtain ⟨m, hm, hlm⟩ := aclList_some hl
  have hok := aclOf_ok [] [] _ m aclMapOk_nil hm
  have hg : m.any (·.1 == []) = true := by rw [any_key_eq_isSome, hlm]; rfl
  unfold aclList
  rw [aclset_readback modify remove hx e m hm hg, Option.getD_some]
  exact lookup_dropEmpty_editG_general _ m l hok.1 (fun p hp => (hok.2 p hp).1) hlm

example : aclList (aclSetE (some argCarol) (some argBob) C10A.exG).extras [] = some [argCarol.toAce] :=
  (aclset_general_list _ _ (by intro x h; cases h; decide) _ _ exG_general).trans (by decide +kernel)

-- ---------------------------------------------------------------- (2) `-m`

/-- Pointwise characterisation of `modifyFirst`: some entry matches ⇒ exactly the FIRST matching entry changes, and
    only in its permission set, which becomes the argument's. -/
theorem modifyFirst_pointwise (x : AclArg) (l : List Ace) (h : l.any x.isMatch = true) :
    ∃ i, ∃ hi : i < l.length, x.isMatch l[i] = true ∧ (∀ j (hj : j < i), x.isMatch (l[j]'(Nat.lt_trans hj hi)) = false) ∧
      modifyFirst x l = l.set i { l[i] with perms := x.toAce.perms } :=
  modifyFirst_spec x l h

example : ∃ i, ∃ hi : i < [aceAliceR, aceBobR, aceBobR].length, argBobWX.isMatch [aceAliceR, aceBobR, aceBobR][i] = true ∧
    (∀ j (hj : j < i), argBobWX.isMatch ([aceAliceR, aceBobR, aceBobR][j]'(Nat.lt_trans hj hi)) = false) ∧
    modifyFirst argBobWX [aceAliceR, aceBobR, aceBobR]
      = [aceAliceR, aceBobR, aceBobR].set i { [aceAliceR, aceBobR, aceBobR][i] with perms := argBobWX.toAce.perms } :=
  modifyFirst_pointwise _ _ (by decide)
example : modifyFirst argBobWX [aceAliceR, aceBobR, aceBobR]
    = [aceAliceR, { aceBobR with perms := argBobWX.toAce.perms }, aceBobR] := by decide +kernel

/-- (2) `-m x` alone: the new General list is `modifyFirst x l` if some entry matches and `l ++ [x.toAce]` otherwise
    (it is never empty, so it always reads back). -/
theorem aclset_modify_semantics (x : AclArg) (hx : ArgOk x) (e : LEntry) (l : List Ace)
    (hl : aclList e.extras [] = some l) :
    aclList (aclSetE (some x) none e).extras [] =
      some (if l.any x.isMatch then modifyFirst x l else l ++ [x.toAce]) := by
  rw [aclset_general_list (some x) none (by intro y h; cases h; exact hx) e l hl,
    if_neg (aclUpd_modify_ne_nil x l), aclUpd_modify]

/-- (2), matching case spelled out: same length, exactly the first matching entry changed, only in its permissions -/
theorem aclset_modify_match (x : AclArg) (hx : ArgOk x) (e : LEntry) (l : List Ace)
    (hl : aclList e.extras [] = some l) (h : l.any x.isMatch = true) :
    ∃ l2, aclList (aclSetE (some x) none e).extras [] = some l2 ∧ l2.length = l.length ∧
      ∃ i, ∃ hi : i < l.length, x.isMatch l[i] = true ∧
        (∀ j (hj : j < i), x.isMatch (l[j]'(Nat.lt_trans hj hi)) = false) ∧
        l2 = l.set i { l[i] with perms := x.toAce.perms } := by
  refine ⟨modifyFirst x l, ?_, C10A.modifyFirst_length x l, modifyFirst_pointwise x l h⟩
  rw [aclset_modify_semantics x hx e l hl, if_pos h]

/-- (2), no entry matches: the argument's entry is appended -/
theorem aclset_modify_nomatch (x : AclArg) (hx : ArgOk x) (e : LEntry) (l : List Ace)
    (hl : aclList e.extras [] = some l) (h : l.any x.isMatch = false) :
    aclList (aclSetE (some x) none e).extras [] = some (l ++ [x.toAce]) := by
  rw [aclset_modify_semantics x hx e l hl, h]
  rfl

example : aclList (aclSetE (some argBobWX) none C10A.exG).extras []
    = some [{ aceBobR with perms := argBobWX.toAce.perms }] :=
  (aclset_modify_semantics argBobWX (by decide) _ _ exG_general).trans (by decide +kernel)
example : ∃ l2, aclList (aclSetE (some argBobWX) none C10A.exG).extras [] = some l2 ∧ l2.length = [aceBobR].length ∧
    ∃ i, ∃ hi : i < [aceBobR].length, argBobWX.isMatch [aceBobR][i] = true ∧
      (∀ j (hj : j < i), argBobWX.isMatch ([aceBobR][j]'(Nat.lt_trans hj hi)) = false) ∧
      l2 = [aceBobR].set i { [aceBobR][i] with perms := argBobWX.toAce.perms } :=
  aclset_modify_match argBobWX (by decide) _ _ exG_general (by decide)
example : aclList (aclSetE (some argCarol) none C10A.exG).extras [] = some [aceBobR, argCarol.toAce] :=
  aclset_modify_nomatch argCarol (by decide) _ _ exG_general (by decide)
example : aclList (aclSetE (some argCarol) none C10A.exG).extras [] = some [aceBobR, argCarol.toAce] := by
  decide +kernel

/-- without `ArgOk` (an empty name): the appended entry reads back as a DIFFERENT entry, the owning user's -/
theorem modify_needs_ArgOk :
    aclList (aclSetE (some argEmpty) none C10A.exG).extras [] = some [aceBobR, { argEmpty.toAce with owner := .owner }] ∧
    { argEmpty.toAce with owner := .owner } ≠ argEmpty.toAce := by decide +kernel
/-- … and a name with a `:` can read back as another user's entry with another meaning of the fields -/
theorem modify_needs_ArgOk_colon :
    aclList (aclSetE (some argColon2) none C10A.exG).extras []
      = some [aceBobR, { argColon2.toAce with owner := .user "bob".toList }] := by decide +kernel

-- ---------------------------------------------------------------- (3) `-x`

/-- (3) `-x x` alone: the new General list is `l` without the matching entries; when ALL entries match, the entry is
    left without a General list (a lone `faCl` chunk stays behind).  No hypothesis on the argument: nothing of it is
    written.  The other platforms: `aclset_other_platforms`. -/
theorem aclset_remove_semantics (x : AclArg) (e : LEntry) (l : List Ace) (hl : aclList e.extras [] = some l) :
    aclList (aclSetE none (some x) e).extras [] =
      if l.filter (fun a => !x.isMatch a) = [] then none else some (l.filter (fun a => !x.isMatch a)) :=
  aclset_general_list none (some x) (by intro y h; cases h) e l hl

/-- (3) the other platforms, restated for `-x` (an instance of (1), hypothesis-free) -/
theorem aclset_remove_other_platforms (x : AclArg) (e : LEntry) (k : Str) (hk : k ≠ []) :
    aclList (aclSetE none (some x) e).extras k = aclList e.extras k :=
  aclset_other_platforms none (some x) (by intro y h; cases h) e k hk

/-- If the edit leaves the General list as it is (any arguments), the entry is still REWRITTEN: `acl set` on an entry
    with a General list normalises the chunk layout exactly like `migrate`. -/
theorem aclset_noedit_migrate (modify remove : Option AclArg) (e : LEntry) (l : List Ace)
    (hl : aclList e.extras [] = some l) (hf : aclUpd modify remove l = l) :
    migrateE e = some (aclSetE modify remove e) := by
  obtain ⟨m, hm, hlm⟩ := aclList_some hl
  exact aclSetE_eq_migrate modify remove e m l hm hlm hf

/-- (3) nothing matches: the chunks are those `migrate` writes … -/
theorem aclset_remove_nomatch_migrate (x : AclArg) (e : LEntry) (l : List Ace) (hl : aclList e.extras [] = some l)
    (h : l.any x.isMatch = false) : (migrateE e).map (·.extras) = some (aclSetE none (some x) e).extras := by
  rw [aclset_noedit_migrate none (some x) e l hl (by rw [aclUpd_remove]; exact filter_eq_self_of_none x l h)]
  rfl

/-- … and the map is unchanged -/
theorem aclset_remove_nomatch_map (x : AclArg) (e : LEntry) (l : List Ace) (hl : aclList e.extras [] = some l)
    (h : l.any x.isMatch = false) : aclOf [] [] (aclSetE none (some x) e).extras = aclOf [] [] e.extras :=
  C10AI.migrate_same_acl e _
    (aclset_noedit_migrate none (some x) e l hl (by rw [aclUpd_remove]; exact filter_eq_self_of_none x l h))

/-- the same for a `-m` that changes nothing (the first matching entry has the permission already) -/
theorem aclset_modify_noop_migrate (x : AclArg) (e : LEntry) (l : List Ace) (hl : aclList e.extras [] = some l)
    (h : l.any x.isMatch = true) (hp : modifyFirst x l = l) : migrateE e = some (aclSetE (some x) none e) :=
  aclset_noedit_migrate (some x) none e l hl (by rw [aclUpd_modify, if_pos h, hp])

-- `-x u:bob` on `exG` empties the General list …
example : aclList (aclSetE none (some argBob) C10A.exG).extras [] = none :=
  (aclset_remove_semantics argBob _ _ exG_general).trans (by decide +kernel)
/-- … a lone `faCl` chunk with an empty platform name stays behind … -/
theorem exG_remove_bob : (aclSetE none (some argBob) C10A.exG).extras =
    [(faCl, utf8 "linux".toList), (faCe, utf8 ":u:alice:allow:r".toList), (faCl, []), ([109,121,84,121], [1])] := by
  decide +kernel
/-- … and the entry can no longer be edited by `acl set` at all: `-m` is now the identity -/
theorem exG_remove_then_modify :
    aclSetE (some argCarol) none (aclSetE none (some argBob) C10A.exG) = aclSetE none (some argBob) C10A.exG := by
  decide +kernel
-- `-x u:carol` matches nothing:
example : aclList (aclSetE none (some argCarol) C10A.exG).extras [] = some [aceBobR] :=
  (aclset_remove_semantics argCarol _ _ exG_general).trans (by decide +kernel)
example : aclList (aclSetE none (some argCarol) C10A.exG).extras "linux".toList = some [aceAliceR] :=
  (aclset_remove_other_platforms argCarol _ _ (by decide)).trans exG_linux
example : (migrateE C10A.exG).map (·.extras) = some (aclSetE none (some argCarol) C10A.exG).extras :=
  aclset_remove_nomatch_migrate argCarol _ _ exG_general (by decide)
example : aclOf [] [] (aclSetE none (some argCarol) C10A.exG).extras = aclOf [] [] C10A.exG.extras :=
  aclset_remove_nomatch_map argCarol _ _ exG_general (by decide)
/-- … yet the entry is not handed on as it is: the platform prefix of the `linux` entry is dropped (layout of `migrate`) -/
theorem exG_remove_nomatch_rewrites :
    aclSetE none (some argCarol) C10A.exG ≠ C10A.exG ∧ migrateE C10A.exG = some (aclSetE none (some argCarol) C10A.exG) := by
  decide +kernel
example : migrateE C10A.exG = some (aclSetE (some ⟨false, .user "bob".toList, some "r".toList⟩) none C10A.exG) :=
  aclset_modify_noop_migrate _ _ _ exG_general (by decide) (by decide +kernel)

-- ---------------------------------------------------------------- (4) idempotence

/-- the edit of the list itself is idempotent, for all arguments: after `-m x` the first matching entry exists and has
    the permission; after `-x y` nothing matches `y`; with both, `y` either matches exactly what `x` matches (then the
    second run appends `x`'s entry and removes it again) or nothing `x` matches (then removing commutes with modifying) -/
theorem aclUpd_idem (modify remove : Option AclArg) (l : List Ace) :
    aclUpd modify remove (aclUpd modify remove l) = aclUpd modify remove l := Cli.aclUpd_idem modify remove l

example : aclUpd (some argBobWX) (some argBob) [aceAliceR, aceBobR, aceBobR] = [aceAliceR] := by decide +kernel
example : aclUpd (some argBobWX) (some argBob) [aceAliceR] = [aceAliceR] := by decide +kernel

/-- (4) `acl set` is idempotent on every entry, in every combination of `-m` and `-x` (also when they name the same
    owner, and when the edit empties the General list: the second run then finds no General list and hands the entry
    on as it is).  Only the `-m` argument has to be well formed — of the `-x` argument nothing is written. -/
theorem aclset_idem (modify remove : Option AclArg) (hx : ∀ x, modify = some x → ArgOk x) (e : LEntry) :
    aclSetE modify remove (aclSetE modify remove e) = aclSetE modify remove e :=
  aclSetE_idem modify remove hx e

/-- (4) in the form asked for: `ArgOk` of both arguments -/
theorem aclset_idem_both (modify remove : Option AclArg) (hx : ∀ x, modify = some x → ArgOk x)
    (_hy : ∀ y, remove = some y → ArgOk y) (e : LEntry) :
    aclSetE modify remove (aclSetE modify remove e) = aclSetE modify remove e :=
  aclset_idem modify remove hx e

theorem aclset_modify_idem (x : AclArg) (hx : ArgOk x) (e : LEntry) :
    aclSetE (some x) none (aclSetE (some x) none e) = aclSetE (some x) none e :=
  aclset_idem (some x) none (by intro y h; cases h; exact hx) e

theorem aclset_remove_idem (x : AclArg) (e : LEntry) :
    aclSetE none (some x) (aclSetE none (some x) e) = aclSetE none (some x) e :=
  aclset_idem none (some x) (by intro y h; cases h) e

-- modify only (matching / appending), remove only (emptying the list), both (same owner / different owners)
example : aclSetE (some argBobWX) none (aclSetE (some argBobWX) none C10A.exG) = aclSetE (some argBobWX) none C10A.exG :=
  aclset_modify_idem _ (by decide) _
example : aclSetE (some argBobWX) none C10A.exG ≠ C10A.exG := by decide +kernel
example : aclSetE (some argCarol) none (aclSetE (some argCarol) none C10A.exG) = aclSetE (some argCarol) none C10A.exG :=
  aclset_modify_idem _ (by decide) _
example : aclSetE (some argCarol) none (aclSetE (some argCarol) none C10A.exG) = aclSetE (some argCarol) none C10A.exG := by
  decide +kernel
example : aclSetE none (some argBob) (aclSetE none (some argBob) C10A.exG) = aclSetE none (some argBob) C10A.exG :=
  aclset_remove_idem _ _
example : aclSetE none (some argBob) C10A.exG ≠ C10A.exG := by decide +kernel
example : aclSetE (some argBobWX) (some argBob) (aclSetE (some argBobWX) (some argBob) C10A.exG)
    = aclSetE (some argBobWX) (some argBob) C10A.exG :=
  aclset_idem_both _ _ (by intro x h; cases h; decide) (by intro x h; cases h; decide) _
example : aclSetE (some argCarol) (some argBob) (aclSetE (some argCarol) (some argBob) C10A.exG)
    = aclSetE (some argCarol) (some argBob) C10A.exG :=
  aclset_idem _ _ (by intro x h; cases h; decide) _
example : (aclSetE (some argCarol) (some argBob) C10A.exG).extras =
    [(faCl, utf8 "linux".toList), (faCe, utf8 ":u:alice:allow:r".toList), (faCl, []),
     (faCe, utf8 ":u:carol:allow:r".toList), ([109,121,84,121], [1])] := by decide +kernel
/-- `-m u:carol:r -x u:carol` on an entry whose General list holds other entries: both runs leave it without carol -/
example : aclList (aclSetE (some argCarol) (some argCarol) C10A.exG).extras [] = some [aceBobR] ∧
    aclSetE (some argCarol) (some argCarol) (aclSetE (some argCarol) (some argCarol) C10A.exG)
      = aclSetE (some argCarol) (some argCarol) C10A.exG := by decide +kernel

/-- Without `ArgOk` idempotence FAILS.  An empty name: the entry `u::…` written by the first run reads back as the
    owning user's entry, which the argument does not match — the second run appends the entry again. -/
theorem aclset_idem_needs_ArgOk :
    aclSetE (some argEmpty) none (aclSetE (some argEmpty) none C10A.exG) ≠ aclSetE (some argEmpty) none C10A.exG ∧
    ((aclSetE (some argEmpty) none C10A.exG).extras.filter isAclChunk).length = 5 ∧
    ((aclSetE (some argEmpty) none (aclSetE (some argEmpty) none C10A.exG)).extras.filter isAclChunk).length = 6 := by
  decide +kernel
/-- A `:` in the name (`-m u:u:bob:w`, should the argument parser let it through): `:u:u:bob:allow:w` has five colons, reads back as
    platform `""` + `u:u:bob:allow:w` = user `bob`, which the argument does not match — each run appends one more entry. -/
theorem aclset_idem_needs_ArgOk_colon :
    aclSetE (some argColon2) none (aclSetE (some argColon2) none C10A.exG) ≠ aclSetE (some argColon2) none C10A.exG ∧
    (aclList (aclSetE (some argColon2) none C10A.exG).extras []).map List.length = some 2 ∧
    (aclList (aclSetE (some argColon2) none (aclSetE (some argColon2) none C10A.exG)).extras []).map List.length = some 3 := by
  decide +kernel
/-- With the other bad name the second run is the identity — for the wrong reason: `acl()` fails on what the first run
    wrote, so the entry counts as having no lists at all. -/
theorem aclset_unreadable_after_colon :
    aclOf [] [] (aclSetE (some argColon) none C10A.exG).extras = none ∧
    aclSetE (some argColon) none (aclSetE (some argColon) none C10A.exG) = aclSetE (some argColon) none C10A.exG := by
  decide +kernel

-- ---------------------------------------------------------------- (5) the transformer

/-- (5) an entry the patterns do not select is handed on as it is -/
theorem aclsetF_unselected (sel : Bytes → Bool) (modify remove : Option AclArg) (e : LEntry) (h : sel e.name = false) :
    aclSetF sel modify remove e = some e := C10A.aclset_unselected sel modify remove e h

/-- (5) a selected entry is edited by `aclSetE` (the transformer never fails) -/
theorem aclsetF_selected (sel : Bytes → Bool) (modify remove : Option AclArg) (e : LEntry) (h : sel e.name = true) :
    aclSetF sel modify remove e = some (aclSetE modify remove e) := by
  simp [aclSetF, h]

theorem aclsetF_total (sel : Bytes → Bool) (modify remove : Option AclArg) (e : LEntry) :
    ∃ e2, aclSetF sel modify remove e = some e2 ∧ e2.name = e.name := by
  cases h : sel e.name with
  | false => exact ⟨e, aclsetF_unselected sel modify remove e h, rfl⟩
  | true => exact ⟨_, aclsetF_selected sel modify remove e h, (C10A.aclset_other_fields modify remove e).1⟩

/-- (5) the transformer is idempotent: what it returns it returns unchanged (selection is by name, which stays) -/
theorem aclsetF_idem (sel : Bytes → Bool) (modify remove : Option AclArg) (hx : ∀ x, modify = some x → ArgOk x)
    (e e2 : LEntry) (h : aclSetF sel modify remove e = some e2) : aclSetF sel modify remove e2 = some e2 := by
  cases hs : sel e.name with
  | false =>
    rw [aclsetF_unselected sel modify remove e hs] at h
    cases h
    exact aclsetF_unselected sel modify remove e hs
  | true =>
    rw [aclsetF_selected sel modify remove e hs] at h
    cases h
    have hn : (aclSetE modify remove e).name = e.name := (C10A.aclset_other_fields modify remove e).1
    rw [aclsetF_selected sel modify remove _ (by rw [hn]; exact hs), aclset_idem modify remove hx e]

/-- (5) a selected entry: the lists of the other platforms, through the transformer -/
theorem aclsetF_other_platforms (sel : Bytes → Bool) (modify remove : Option AclArg)
    (hx : ∀ x, modify = some x → ArgOk x) (e e2 : LEntry) (h : aclSetF sel modify remove e = some e2)
    (k : Str) (hk : k ≠ []) : aclList e2.extras k = aclList e.extras k := by
  cases hs : sel e.name with
  | false =>
    rw [aclsetF_unselected sel modify remove e hs] at h
    cases h; rfl
  | true =>
    rw [aclsetF_selected sel modify remove e hs] at h
    cases h
    exact aclset_other_platforms modify remove hx e k hk

example : aclSetF (fun n => n == [97]) (some argBobWX) none C10A.exG = some (aclSetE (some argBobWX) none C10A.exG) :=
  aclsetF_selected _ _ _ _ (by decide)
example : aclSetF (fun n => n == [98]) (some argBobWX) none C10A.exG = some C10A.exG :=
  aclsetF_unselected _ _ _ _ (by decide)
example : aclSetF (fun n => n == [97]) (some argBobWX) (some argBob) (aclSetE (some argBobWX) (some argBob) C10A.exG)
    = some (aclSetE (some argBobWX) (some argBob) C10A.exG) :=
  aclsetF_idem _ _ _ (by intro x h; cases h; decide) C10A.exG _ (aclsetF_selected _ _ _ _ (by decide))
example : aclList (aclSetE (some argBobWX) none C10A.exG).extras "linux".toList = aclList C10A.exG.extras "linux".toList :=
  aclsetF_other_platforms (fun n => n == [97]) _ _ (by intro x h; cases h; decide) C10A.exG _
    (aclsetF_selected _ _ _ _ (by decide)) _ (by decide)

-- ---------------------------------------------------------------- axioms
#print axioms aclset_readback
#print axioms aclset_other_platforms
#print axioms aclset_general_list
#print axioms modifyFirst_pointwise
#print axioms aclset_modify_semantics
#print axioms aclset_modify_match
#print axioms aclset_remove_semantics
#print axioms aclset_noedit_migrate
#print axioms aclset_remove_nomatch_migrate
#print axioms aclset_remove_nomatch_map
#print axioms aclUpd_idem
#print axioms aclset_idem
#print axioms aclset_idem_needs_ArgOk
#print axioms aclset_idem_needs_ArgOk_colon
#print axioms other_platforms_needs_ArgOk
#print axioms aclsetF_selected
#print axioms aclsetF_idem
#print axioms aclsetF_other_platforms

end Pna.C10AS
