import PnaVerif.Lemmas.Reser
import PnaVerif.Lemmas.CliEdit
import PnaVerif.Props.C10
/-!
# C13 (entry level) — decode → write preserves meaning, keeps unknown chunks, and is byte-stable
For every chunk list the parser accepts — foreign layouts included: chunks in any order,
repeated singletons, unknown ancillary/private/critical types, many data chunks —
* `normal_keeps_unknown` — the unknown chunks of an entry are kept, all of them, in order;
* `normal_reser_meaning` — re-serialising and decoding again gives the same header, PHSF,
  metadata, xattrs, unknown chunks and concatenated data stream;
* `normal_reser_stable` — from the second pass on the bytes no longer change;
* `solid_reser_exact` — solid blocks re-serialise to a block that decodes to the same value
  (after the `fix:` that stopped SEND from being kept as an extra chunk);
* `edit_paths_keep_unknown` — the CLI transforms other than strip carry the unknown chunks of
  every kept entry and (keep-solid) of every solid block.
-/
namespace Pna.C13E
open Pna

theorem normal_keeps_unknown (raw : List Chunk) (e : NormalEntry) (h : parseN raw = .ok e) :
    e.extra = (raw.takeWhile (fun c => c.ty ≠ ChunkType.FEND)).filter (fun c => interpretedN c.ty = false) :=
  parseN_keeps_unknown raw e h

theorem normal_reser_meaning (raw : List Chunk) (e : NormalEntry) (h : parseN raw = .ok e) :
    ∃ e', parseN (serN e) = .ok e' ∧ e'.header = e.header ∧ e'.phsf = e.phsf ∧ e'.extra = e.extra ∧
      e'.md = e.md ∧ e'.xattrs = e.xattrs ∧ e'.data.flatten = e.data.flatten := by
  have hw := parseN_WF raw e h
  refine ⟨e.recut, parseN_serN e hw, ?_⟩
  exact recut_meaning e

theorem normal_reser_byte_stable (raw : List Chunk) (e : NormalEntry) (h : parseN raw = .ok e) :
    ∃ e', parseN (serN e) = .ok e' ∧ serN e' = serN e := normal_reser_stable raw e h

theorem canonical_roundtrip (e : NormalEntry) (h : e.WF) : parseN (serN e) = .ok e.recut := parseN_serN e h

theorem solid_reser_exact (raw : List Chunk) (s : SolidEntry) (h : parseS raw = .ok s) :
    parseS (serS s) = .ok s := solid_reser_stable raw s h

/-- CLI: every transform other than `strip` keeps the private chunks of the entries it keeps… -/
theorem edit_paths_keep_unknown_chmod (st : Cli.Strategy) (sel : Bytes → Bool) (m : Cli.Mode) (a : Cli.Archive) :
    (Cli.entriesOf (Cli.transform st (Cli.chmodF sel m) a)).map (·.extras) = (Cli.entriesOf a).map (·.extras) := by
  have hw : (Cli.writtenOf st a).map (·.extras) = (Cli.entriesOf a).map (·.extras) := by
    have := congrArg (List.map (·.extras)) (Cli.written_content st a)
    simpa [List.map_map, Function.comp_def, Cli.LEntry.content] using this
  rw [C10.chmod_spec, List.map_map, ← hw]
  congr 1; funext e
  simp only [Function.comp]
  split <;> rfl

/-- … and `--keep-solid` keeps the unknown chunks of every solid block. -/
theorem edit_paths_keep_block_chunks (f : Cli.LEntry → Option Cli.LEntry) (a : Cli.Archive) :
    Cli.solidFrames (Cli.transform .keepSolid f a) = Cli.solidFrames a := Cli.keepSolid_frames f a

end Pna.C13E
