import PnaVerif.Lemmas.Chunk
/-!
# C18 — every reported size is exact (chunk level floor)
`bytes_len` (what `add_entry*` sums and returns) equals the number of bytes `write_chunk_in`
emits, for every chunk.
-/
namespace Pna.C18
open Pna

theorem encode_len (c : Chunk) : c.encode.length = 12 + c.data.length := Chunk.encode_length c

theorem bytes_len_exact (c : Chunk) : c.bytesLen = c.encode.length := Chunk.bytesLen_eq_encode_length c

/-- Sum of `bytes_len` over a chunk list = length of the concatenated encodings
    (`EntryPart::bytes_len`, `chunks_write_in`, `add_entry_part`). -/
theorem part_bytes_len (cs : List Chunk) :
    (cs.map Chunk.bytesLen).sum = (cs.flatMap Chunk.encode).length := by
  induction cs with
  | nil => rfl
  | cons c cs ih =>
    simp only [List.map_cons, List.sum_cons, List.flatMap_cons, List.length_append, ih, bytes_len_exact]

example : (Chunk.mk ChunkType.FDAT [1, 2, 3]).bytesLen = 15 := by decide

end Pna.C18
