import PnaVerif.Model.Cli.ChunkList
import PnaVerif.Lemmas.ArchiveRt
/-!
# C18 — the chunk offsets printed by the chunk listing equal real file offsets
Model: `Cli.chunkList` (transcription of `list_archive_chunks`).  For every chunk list and every index:
* `row_at` — row `i` carries index `i+1`, the chunk's type, its payload length, and the offset
  `8 + (length of the encodings of the chunks before it)`;
* `offset_is_real` — at exactly that offset of the file the encoding of chunk `i` begins, so a reader that
  seeks there and parses one chunk gets chunk `i` (`seek_and_parse`);
* `chunkList_written` — for every archive the writers produce the command succeeds and lists AHED, the
  entries' chunks, [ANXT], AEND;
* `hex_roundtrip` — the printed offset text (`{:#06x}`) denotes the offset: parsing its digits gives it back;
* `offsets_strictly_increase` — consecutive offsets differ by the full encoded length of the chunk between.
-/
namespace Pna.C18L
open Pna Pna.Cli

theorem go_length (idx off : Nat) (cs : List Chunk) : (chunkListGo idx off cs).length = cs.length := by
  induction cs generalizing idx off with
  | nil => rfl
  | cons c cs ih => simp [chunkListGo, ih]

theorem rows_length (cs : List Chunk) : (chunkListRows cs).length = cs.length := go_length _ _ cs

theorem go_at (idx off : Nat) (cs : List Chunk) (i : Nat) (hi : i < cs.length) :
    (chunkListGo idx off cs)[i]'(by rw [go_length]; exact hi)
      = ⟨idx + i + 1, cs[i].ty, cs[i].data.length, off + (encodeChunks (cs.take i)).length⟩ := by
  induction cs generalizing idx off i with
  | nil => simp at hi
  | cons c cs ih =>
    cases i with
    | zero => simp [chunkListGo, encodeChunks]
    | succ i =>
      simp only [chunkListGo, List.getElem_cons_succ, List.take_succ_cons]
      rw [ih (idx + 1) _ i (by simpa using hi), encodeChunks_cons, List.length_append, Chunk.encode_length]
      congr 1 <;> omega

/-- row `i`: 1-based index, type, payload length, and the offset of the chunk in the file -/
theorem row_at (cs : List Chunk) (i : Nat) (hi : i < cs.length) :
    (chunkListRows cs)[i]'(by rw [rows_length]; exact hi)
      = ⟨i + 1, cs[i].ty, cs[i].data.length, (signature ++ encodeChunks (cs.take i)).length⟩ := by
  unfold chunkListRows
  rw [go_at 0 signature.length cs i hi, List.length_append]
  congr 1; omega

/-- **the printed offset is a real file offset**: what the file holds from there on is chunk `i` -/
theorem offset_is_real (cs : List Chunk) (rest : Bytes) (i : Nat) (hi : i < cs.length) :
    (signature ++ encodeChunks cs ++ rest).drop ((chunkListRows cs)[i]'(by rw [rows_length]; exact hi)).off
      = cs[i].encode ++ (encodeChunks (cs.drop (i + 1)) ++ rest) := by
  rw [row_at cs i hi]
  have hsplit : cs = cs.take i ++ cs[i] :: cs.drop (i + 1) := by
    rw [List.getElem_cons_drop, List.take_append_drop]
  conv => lhs; arg 2; rw [hsplit]
  rw [encodeChunks_append, encodeChunks_cons]
  simp only [← List.append_assoc]
  rw [show signature ++ encodeChunks (cs.take i) ++ cs[i].encode ++ encodeChunks (cs.drop (i + 1)) ++ rest
      = (signature ++ encodeChunks (cs.take i)) ++ (cs[i].encode ++ encodeChunks (cs.drop (i + 1)) ++ rest) by
    simp [List.append_assoc]]
  rw [List.drop_left]

/-- seeking to a printed offset and parsing one chunk yields the listed chunk -/
theorem seek_and_parse (cs : List Chunk) (rest : Bytes) (hfit : ChunksFit cs) (i : Nat) (hi : i < cs.length) :
    decodeStream ((signature ++ encodeChunks cs ++ rest).drop ((chunkListRows cs)[i]'(by rw [rows_length]; exact hi)).off)
      = .ok (cs[i], encodeChunks (cs.drop (i + 1)) ++ rest) := by
  rw [offset_is_real cs rest i hi]
  exact decodeStream_encode _ _ (hfit _ (List.getElem_mem hi))

theorem offsets_strictly_increase (cs : List Chunk) (i : Nat) (hi : i + 1 < cs.length) :
    ((chunkListRows cs)[i + 1]'(by rw [rows_length]; exact hi)).off
      = ((chunkListRows cs)[i]'(by rw [rows_length]; omega)).off + cs[i].encode.length := by
  rw [row_at cs (i + 1) hi, row_at cs i (by omega)]
  simp only [List.length_append]
  rw [List.take_succ_eq_append_getElem (by omega), encodeChunks_append, encodeChunks_singleton, List.length_append]
  omega

/-- every archive the writers produce is listed completely: AHED, the entries' chunks, [ANXT], AEND -/
theorem chunkList_written (n : Nat) (items : List (List Chunk)) (hw : ∀ it ∈ items, ItemWF it)
    (hfit : ChunksFit items.flatten) (next : Bool) :
    chunkList (encodeArchive n items next)
      = .ok (chunkListRows (⟨ChunkType.AHED, encAHED ⟨0, 0, n⟩⟩ ::
          (items.flatten ++ (if next then [⟨ChunkType.ANXT, []⟩] else []) ++ [⟨ChunkType.AEND, []⟩]))) := by
  unfold chunkList
  rw [chunksStream_encodeArchive n items hw hfit next]

/-- a read error anywhere makes the command fail (nothing is listed from a damaged archive) -/
theorem chunkList_error (bs : Bytes) (e : Err) (h : (chunksStream bs).2 = .error e) : chunkList bs = .error e := by
  unfold chunkList
  rcases hcs : chunksStream bs with ⟨cs, st⟩
  rw [hcs] at h
  simp only at h
  subst h
  rfl

-- ---------------------------------------------------------------- the offset text

theorem hexDigit_value (d : Nat) (hd : d < 16) :
    let k := (Cli.hexDigit d).toNat
    (if 48 ≤ k ∧ k ≤ 57 then some (k - 48) else if 97 ≤ k ∧ k ≤ 102 then some (k - 87) else none) = some d := by
  have : ∀ d : Fin 16, (let k := (Cli.hexDigit d.val).toNat
    (if 48 ≤ k ∧ k ≤ 57 then some (k - 48) else if 97 ≤ k ∧ k ≤ 102 then some (k - 87) else none) = some d.val) := by
    decide
  exact this ⟨d, hd⟩

/-- one digit appended to a digit string: value * 16 + digit -/
theorem hexValue_snoc (cs : List Char) (v d : Nat) (hd : d < 16) (h : hexValue cs = some v) :
    hexValue (cs ++ [Cli.hexDigit d]) = some (v * 16 + d) := by
  unfold hexValue at *
  rw [List.foldl_append, h]
  simp only [List.foldl_cons, List.foldl_nil]
  have hv := hexDigit_value d hd
  simp only at hv
  by_cases h1 : 48 ≤ (Cli.hexDigit d).toNat ∧ (Cli.hexDigit d).toNat ≤ 57
  · rw [if_pos h1] at hv ⊢
    simp only [Option.some.injEq] at hv ⊢; omega
  · rw [if_neg h1] at hv ⊢
    by_cases h2 : 97 ≤ (Cli.hexDigit d).toNat ∧ (Cli.hexDigit d).toNat ≤ 102
    · rw [if_pos h2] at hv ⊢
      simp only [Option.some.injEq] at hv ⊢; omega
    · rw [if_neg h2] at hv; cases hv


/-- the fold of `hexValue` from an arbitrary start value -/
def hexFrom (v : Nat) (cs : List Char) : Option Nat :=
  cs.foldl (fun acc c =>
    match acc with
    | none => none
    | some v =>
      let k := c.toNat
      if 48 ≤ k ∧ k ≤ 57 then some (v * 16 + (k - 48))
      else if 97 ≤ k ∧ k ≤ 102 then some (v * 16 + (k - 87))
      else none) (some v)

theorem hexValue_eq (cs : List Char) : hexValue cs = hexFrom 0 cs := rfl

theorem hexFrom_digit (v d : Nat) (hd : d < 16) (cs : List Char) :
    hexFrom v (Cli.hexDigit d :: cs) = hexFrom (v * 16 + d) cs := by
  unfold hexFrom
  simp only [List.foldl_cons]
  have hv := hexDigit_value d hd
  simp only at hv
  by_cases h1 : 48 ≤ (Cli.hexDigit d).toNat ∧ (Cli.hexDigit d).toNat ≤ 57
  · rw [if_pos h1] at hv ⊢
    simp only [Option.some.injEq] at hv; rw [hv]
  · rw [if_neg h1] at hv ⊢
    by_cases h2 : 97 ≤ (Cli.hexDigit d).toNat ∧ (Cli.hexDigit d).toNat ≤ 102
    · rw [if_pos h2] at hv ⊢
      simp only [Option.some.injEq] at hv; rw [hv]
    · rw [if_neg h2] at hv; cases hv

theorem hexFrom_digits (fuel n : Nat) (acc : List Char) (h : n < 16 ^ fuel) :
    hexFrom 0 (hexDigitsGo fuel n acc) = hexFrom n acc := by
  induction fuel generalizing n acc with
  | zero =>
    have : n = 0 := by simpa using h
    subst this; rfl
  | succ fuel ih =>
    unfold hexDigitsGo
    by_cases h0 : n = 0
    · rw [if_pos h0, h0]
    · rw [if_neg h0, ih (n / 16) _ (by rw [Nat.pow_succ] at h; omega),
        hexFrom_digit _ _ (Nat.mod_lt _ (by decide))]
      congr 1; omega

theorem hexFrom_zeros (k : Nat) (cs : List Char) : hexFrom 0 (List.replicate k '0' ++ cs) = hexFrom 0 cs := by
  induction k with
  | zero => rfl
  | succ k ih =>
    rw [List.replicate_succ, List.cons_append]
    have := hexFrom_digit 0 0 (by decide) (List.replicate k '0' ++ cs)
    rw [show Cli.hexDigit 0 = '0' from rfl] at this
    rw [this, ih]

theorem lt_sixteen_pow (n : Nat) : n < 16 ^ (n + 1) := by
  induction n with
  | zero => decide
  | succ n ih => rw [Nat.pow_succ]; omega

/-- **the offset text denotes the offset**: `0x`, then digits whose value is the offset, at least four of them -/
theorem hex_roundtrip (n : Nat) :
    (hexOffset n).take 2 = ['0', 'x'] ∧ hexValue ((hexOffset n).drop 2) = some n ∧ 6 ≤ (hexOffset n).length := by
  refine ⟨rfl, ?_, ?_⟩
  · show hexValue (List.replicate _ '0' ++ hexDigits n) = some n
    rw [hexValue_eq, hexFrom_zeros]
    unfold hexDigits
    rw [hexFrom_digits (n + 1) n [] (lt_sixteen_pow n)]
    rfl
  · unfold hexOffset
    simp only [List.length_append, List.length_cons, List.length_nil, List.length_replicate]
    omega

-- non-vacuity: the listing of the empty archive (AHED at 8, AEND at 28), an offset text, a seek
example : (chunkList (encodeArchive 0 [] false)).map' (fun rows => rows.map (·.off)) = .ok [8, 28] := by decide +kernel
example : String.ofList (hexOffset 28) = "0x001c" ∧ String.ofList (hexOffset 74565) = "0x12345" := by decide
example : (chunkListRows [⟨ChunkType.FHED, [0,0,0,0,0,0,97]⟩, ⟨ChunkType.FDAT, [1,2,3]⟩, ⟨ChunkType.FEND, []⟩]).map (·.off) = [8, 27, 42] := by
  decide

end Pna.C18L
