import PnaVerif.Model.Cli.Extract
/-!
# C09 — part 2: file-system effects of extraction
`extract_entry` transcribed over the abstract file system (`Model/Fs.lean`,
`Model/Cli/Extract.lean`, cross-checked against the Linux VFS by the `extract-fs` family).

The full statement — "extracting any archive creates, modifies or links nothing outside the
output directory" — is **false** of the model and of the code; the two escapes are proved here
with concrete witnesses and recorded as known findings (`C09-symlink-then-path`,
`C09-hardlink-source-escapes`):
* `escape_through_symlink` — a symbolic-link entry followed by an entry beneath it writes outside;
* `escape_hardlink_source` — a hard-link entry whose source leaves the output directory links an
  outside inode in.
What does hold, and is what part 1 (`Props/C09.lean`) contributes: the *names* themselves never
point outside, so without link entries every destination path is lexically below the output
directory (`dest_below_out`).
-/
namespace Pna.C09Fs
open Pna Pna.Fs Pna.Cli

def s : Bytes := [115]
def out : Bytes := [111, 117, 116]
def outside : Bytes := [111, 117, 116, 115, 105, 100, 101]
def secret : Bytes := [115, 101, 99]

/-- sandbox: /s/out (empty) and /s/outside/sec -/
def fs0 : Fs := ⟨[([s], .dir), ([s, out], .dir), ([s, outside], .dir), ([s, outside, secret], .file 1)], [(1, [1, 2, 3])], 2⟩

/-- nodes outside the output directory -/
def outsideNodes (fs : Fs) : List (Path × Node) := fs.nodes.filter fun p => !([s, out].isPrefixOf p.1)

/-- The property as a predicate on one run. -/
def OutsideUnchanged (before after : Fs) : Prop :=
  outsideNodes after = outsideNodes before ∧
  ∀ ino, (outsideNodes before).any (·.2 == .file ino) →
    after.content ino = before.content ino ∧
    (after.nodes.filter (·.2 == .file ino)).length = (before.nodes.filter (·.2 == .file ino)).length

instance (a b : Fs) : Decidable (outsideNodes a = outsideNodes b) := inferInstance

/-- symlink `l -> ../outside`, then file `l/x`: `x` is created in /s/outside. -/
theorem escape_through_symlink :
    let es : List XEntry := [⟨[108], 2, [46, 46, 47] ++ outside⟩, ⟨[108, 47, 120], 0, [9]⟩]
    let r := extractAll false [s] out fs0 es
    r.2 = none ∧ outsideNodes r.1 ≠ outsideNodes fs0 ∧ r.1.lookup [s, outside, [120]] = some (.file 2) := by
  decide +kernel

/-- hard link `h` with source `../outside/sec`: the outside inode gains a link inside `out`. -/
theorem escape_hardlink_source :
    let es : List XEntry := [⟨[104], 3, [46, 46, 47] ++ outside ++ [47] ++ secret⟩]
    let r := extractAll false [s] out fs0 es
    r.2 = none ∧ r.1.lookup [s, out, [104]] = some (.file 1) ∧
    (r.1.nodes.filter (·.2 == .file 1)).length = 2 := by
  decide +kernel

/-- Hence the full statement is false. -/
theorem C09_full_is_false :
    ¬ (∀ (ow : Bool) (fs : Fs) (es : List XEntry), outsideNodes (extractAll ow [s] out fs es).1 = outsideNodes fs) := by
  intro h
  have := h false fs0 [⟨[108], 2, [46, 46, 47] ++ outside⟩, ⟨[108, 47, 120], 0, [9]⟩]
  exact escape_through_symlink.2.1 this

/-- Lexical containment: for a sanitised name (no root, no `..`), the destination string is the
    output directory followed by the name — the path handed to the OS never *spells* an escape. -/
theorem dest_below_out (outDir name : Bytes) (hn : ¬ isAbs name = true) (hne : name ≠ []) (ho : outDir ≠ []) :
    joinP outDir name = outDir ++ [slash] ++ name := by
  unfold joinP
  simp [hn, hne, ho]

end Pna.C09Fs
