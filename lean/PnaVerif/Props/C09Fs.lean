import PnaVerif.Model.Cli.Extract
/-!
# C09 — part 2: file-system effects of extraction
`extract_entry` transcribed over the abstract file system (`Model/Fs.lean`,
`Model/Cli/Extract.lean`, cross-checked against the Linux VFS by the `extract-fs` family).

Before the `fix:` the full statement — "extracting any archive creates, modifies or links nothing
outside the output directory" — was false of the model and of the code; the two escapes are kept
here as kernel-checked witnesses against the *legacy* transcription, so that the statement is
seen to discriminate:
* `legacy_escape_through_symlink` — a symbolic-link entry followed by an entry beneath it wrote outside;
* `legacy_escape_hardlink_source` — a hard-link entry whose source left the output directory linked an
  outside inode in.
With `ensure_confined` (nothing is extracted through a symbolic link below the output directory;
a link at the destination is an existing object; a hard-link source must be an object inside the
output directory reached without passing through a link) the same archives are refused
(`symlink_then_path_refused`, `hardlink_source_refused`, and the variants through a dangling link,
an absolute source, a source beneath a link, `--overwrite` onto a link), and the general
statement is `Props/C09Confined.lean`.
-/
namespace Pna.C09Fs
open Pna Pna.Fs Pna.Cli

def s : Bytes := [115]
def out : Bytes := [111, 117, 116]
def outside : Bytes := [111, 117, 116, 115, 105, 100, 101]
def secret : Bytes := [115, 101, 99]

/-- sandbox: /s/out (empty) and /s/outside/sec -/
def fs0 : Fs := ⟨[([s], .dir), ([s, out], .dir), ([s, outside], .dir), ([s, outside, secret], .file 1)], [(1, [1, 2, 3])], 2⟩

/-- nodes outside the output directory -/
def outsideNodes (fs : Fs) : List (Path × Node) := fs.nodes.filter fun p => !([s, out].isPrefixOf p.1)

/-- The property as a predicate on one run. -/
def OutsideUnchanged (before after : Fs) : Prop :=
  outsideNodes after = outsideNodes before ∧
  ∀ ino, (outsideNodes before).any (·.2 == .file ino) →
    after.content ino = before.content ino ∧
    (after.nodes.filter (·.2 == .file ino)).length = (before.nodes.filter (·.2 == .file ino)).length

instance (a b : Fs) : Decidable (outsideNodes a = outsideNodes b) := inferInstance

/-- (legacy) symlink `l -> ../outside`, then file `l/x`: `x` was created in /s/outside. -/
theorem legacy_escape_through_symlink :
    let es : List XEntry := [⟨[108], 2, [46, 46, 47] ++ outside⟩, ⟨[108, 47, 120], 0, [9]⟩]
    let r := extractAllLegacy false [s] out fs0 es
    r.2 = none ∧ outsideNodes r.1 ≠ outsideNodes fs0 ∧ r.1.lookup [s, outside, [120]] = some (.file 2) := by
  decide +kernel

/-- (legacy) hard link `h` with source `../outside/sec`: the outside inode gained a link inside `out`. -/
theorem legacy_escape_hardlink_source :
    let es : List XEntry := [⟨[104], 3, [46, 46, 47] ++ outside ++ [47] ++ secret⟩]
    let r := extractAllLegacy false [s] out fs0 es
    r.2 = none ∧ r.1.lookup [s, out, [104]] = some (.file 1) ∧
    (r.1.nodes.filter (·.2 == .file 1)).length = 2 := by
  decide +kernel

/-- Hence the full statement was false of the legacy behaviour. -/
theorem legacy_C09_full_is_false :
    ¬ (∀ (ow : Bool) (fs : Fs) (es : List XEntry), outsideNodes (extractAllLegacy ow [s] out fs es).1 = outsideNodes fs) := by
  intro h
  have := h false fs0 [⟨[108], 2, [46, 46, 47] ++ outside⟩, ⟨[108, 47, 120], 0, [9]⟩]
  exact legacy_escape_through_symlink.2.1 this

/-- after the fix: the link is created, the entry beneath it is refused, nothing outside changes -/
theorem symlink_then_path_refused :
    let es : List XEntry := [⟨[108], 2, [46, 46, 47] ++ outside⟩, ⟨[108, 47, 120], 0, [9]⟩]
    let r := extractAll false [s] out fs0 es
    r.2 = some .outside ∧ outsideNodes r.1 = outsideNodes fs0 ∧ r.1.lookup [s, outside, [120]] = none ∧
    r.1.lookup [s, out, [108]] = some (.link ([46, 46, 47] ++ outside)) := by
  decide +kernel

/-- the same with `--overwrite` -/
theorem symlink_then_path_refused_overwrite :
    let es : List XEntry := [⟨[108], 2, [46, 46, 47] ++ outside⟩, ⟨[108, 47, 120], 0, [9]⟩]
    let r := extractAll true [s] out fs0 es
    r.2 = some .outside ∧ outsideNodes r.1 = outsideNodes fs0 := by
  decide +kernel

/-- a file entry with the name of a dangling link written earlier: the link is an existing object
    (without `--overwrite`), or is replaced by a regular file inside `out` (with it); the target
    outside is never created -/
theorem dangling_link_not_written_through :
    let es : List XEntry := [⟨[108], 2, [46, 46, 47] ++ outside ++ [47, 110]⟩, ⟨[108], 0, [9]⟩]
    (extractAll false [s] out fs0 es).2 = some .alreadyExists ∧
    outsideNodes (extractAll false [s] out fs0 es).1 = outsideNodes fs0 ∧
    outsideNodes (extractAll true [s] out fs0 es).1 = outsideNodes fs0 ∧
    (extractAll true [s] out fs0 es).1.lookup [s, out, [108]] = some (.file 2) := by
  decide +kernel

/-- `--overwrite` onto a link to an outside file replaces the link, not the file -/
theorem overwrite_replaces_link_not_target :
    let es : List XEntry := [⟨[108], 2, [46, 46, 47] ++ outside ++ [47] ++ secret⟩, ⟨[108], 0, [9]⟩]
    let r := extractAll true [s] out fs0 es
    r.2 = none ∧ r.1.content 1 = [1, 2, 3] ∧ outsideNodes r.1 = outsideNodes fs0 := by
  decide +kernel

/-- a hard-link source that climbs out, is absolute, or lies beneath a link is refused -/
theorem hardlink_source_refused :
    (extractAll false [s] out fs0 [⟨[104], 3, [46, 46, 47] ++ outside ++ [47] ++ secret⟩]).2 = some .outside ∧
    (extractAll false [s] out fs0 [⟨[104], 3, [47, 115, 47] ++ outside ++ [47] ++ secret⟩]).2 = some .outside ∧
    (extractAll false [s] out fs0 [⟨[108], 2, [46, 46, 47] ++ outside⟩, ⟨[104], 3, [108, 47] ++ secret⟩]).2 = some .outside ∧
    (extractAll false [s] out fs0 [⟨[108], 2, [46, 46, 47] ++ outside⟩, ⟨[104], 3, [108, 47] ++ secret⟩]).1.lookup [s, out, [104]] = none := by
  decide +kernel

/-- non-vacuity: ordinary archives still extract, links and hard links to inside objects included -/
theorem ordinary_archive_extracts :
    let es : List XEntry := [⟨[100, 47, 97], 0, [7]⟩, ⟨[108], 2, [100, 47, 97]⟩, ⟨[100, 47, 104], 3, [97]⟩, ⟨[101], 1, []⟩]
    let r := extractAll false [s] out fs0 es
    r.2 = none ∧ r.1.lookup [s, out, [100], [97]] = some (.file 2) ∧ r.1.lookup [s, out, [100], [104]] = some (.file 2) ∧
    r.1.lookup [s, out, [108]] = some (.link [100, 47, 97]) ∧ r.1.lookup [s, out, [101]] = some .dir ∧
    outsideNodes r.1 = outsideNodes fs0 := by
  decide +kernel

/-- Lexical containment: for a sanitised name (no root, no `..`), the destination string is the
    output directory followed by the name — the path handed to the OS never *spells* an escape. -/
theorem dest_below_out (outDir name : Bytes) (hn : ¬ isAbs name = true) (hne : name ≠ []) (ho : outDir ≠ []) :
    joinP outDir name = outDir ++ [slash] ++ name := by
  unfold joinP
  simp [hn, hne, ho]

end Pna.C09Fs
