import PnaVerif.Model.Cli.Edit
/-!
# C10 (chmod, bit level) — a symbolic clause names only the bits it names

`Mode.applyTo` (`Model/Cli/Edit.lean`) on a clause `[ugo]*[=+-][rwx]*`: target set `t` (u = 1, g = 2, o = 4),
permission `p < 8`.

* `targetApply_lt`              (B1) the mask of a clause lies within the nine permission bits;
* `plus_keeps_other_bits`, `minus_keeps_other_bits`, `equal_keeps_other_bits_partial`,
  `symbolic_keeps_other_bits_partial`   (B2) the bits from 9 up (set-user-ID, set-group-ID, sticky, file type) are
                                untouched; for `=` and `-` on a 16-bit mode (`x < 65536`), for `+` on any `x`;
                                `equal_keeps_other_bits_false`: `=` on `x = 65536` (not a u16) clears bit 16 — the
                                statement "for any x" is false for `=`;
                                `legacy_equal_cleared_high_bits`: before the repair `=` cleared them;
* `equal_sets_named_classes`    (B3) `=` sets exactly the named classes to exactly `p`, the others keep their bits;
* `plus_minus_exact`            (B4) `+` is `x ||| mask`, `-` removes exactly the bits of the mask.
-/
namespace Pna.C10B
open Pna Pna.Cli

-- ---------------------------------------------------------------- small facts, all finite

theorem targetApply_one (p : Nat) : targetApply 1 p = p <<< 6 := by simp [targetApply]
theorem targetApply_two (p : Nat) : targetApply 2 p = p <<< 3 := by simp [targetApply]
theorem targetApply_four (p : Nat) : targetApply 4 p = p := by simp [targetApply]

theorem shl6_lt (p : Nat) (hp : p < 8) : p <<< 6 < 2 ^ 9 := by rw [Nat.shiftLeft_eq]; omega
theorem shl3_lt (p : Nat) (hp : p < 8) : p <<< 3 < 2 ^ 9 := by rw [Nat.shiftLeft_eq]; omega

/-- the class fields of the three single-class masks -/
theorem class_fields : ∀ p, p < 8 →
    (p <<< 6) &&& 0o700 = p <<< 6 ∧ (p <<< 6) &&& 0o070 = 0 ∧ (p <<< 6) &&& 0o007 = 0 ∧
    (p <<< 3) &&& 0o700 = 0 ∧ (p <<< 3) &&& 0o070 = p <<< 3 ∧ (p <<< 3) &&& 0o007 = 0 ∧
    p &&& 0o700 = 0 ∧ p &&& 0o070 = 0 ∧ p &&& 0o007 = p := by decide

theorem and_and_zero (x a b : Nat) (h : a &&& b = 0) : (x &&& a) &&& b = 0 := by
  rw [Nat.and_assoc, h, Nat.and_zero]

theorem and_and_self (x a : Nat) : (x &&& a) &&& a = x &&& a := by
  rw [Nat.and_assoc, Nat.and_self]

-- ================================================================ (B1)

/-- **(B1)** the mask of a clause with `p < 8` lies within the nine permission bits, for every target set -/
theorem targetApply_lt (t p : Nat) (hp : p < 8) : targetApply t p < 512 := by
  unfold targetApply
  refine Nat.or_lt_two_pow (n := 9) (Nat.or_lt_two_pow ?_ ?_) ?_
  · split
    · exact shl6_lt p hp
    · decide
  · split
    · exact shl3_lt p hp
    · decide
  · split
    · omega
    · decide

example : targetApply 7 7 = 0o777 ∧ targetApply 5 6 = 0o606 ∧ targetApply 255 7 = 0o777 := by decide
-- `p < 8` is needed: a "permission" 8 reaches bit 9
example : ¬ targetApply 1 8 < 512 := by decide

theorem shr9_zero (a : Nat) (h : a < 512) : a >>> 9 = 0 := Nat.shiftRight_eq_zero a 9 h

theorem and_mask_shr9 (x m : Nat) (hm : m < 512) : (x &&& m) >>> 9 = 0 :=
  shr9_zero _ (Nat.lt_of_le_of_lt Nat.and_le_right hm)

-- ================================================================ (B2)

/-- **(B2, `+`)** for any mode value: the bits from 9 up are untouched -/
theorem plus_keeps_other_bits (t p x : Nat) (hp : p < 8) : ((Mode.plus t p).applyTo x) >>> 9 = x >>> 9 := by
  show (x ||| targetApply t p) >>> 9 = x >>> 9
  rw [Nat.shiftRight_or_distrib, shr9_zero _ (targetApply_lt t p hp), Nat.or_zero]

theorem u16_high (x : Nat) (hx : x < 65536) : (x &&& (0xFFFF - 0o777)) >>> 9 = x >>> 9 := by
  rw [Nat.shiftRight_and_distrib]
  have h1 : (0xFFFF - 0o777) >>> 9 = 2 ^ 7 - 1 := by decide
  have h2 : x >>> 9 < 2 ^ 7 := by rw [Nat.shiftRight_eq_div_pow]; omega
  rw [h1, Nat.and_two_pow_sub_one_eq_mod, Nat.mod_eq_of_lt h2]

/-- **(B2, `=`)** for a 16-bit mode value: the bits from 9 up are untouched.  (`_partial`: the hypothesis
    `x < 65536` is not in the statement as given and is needed, see `equal_keeps_other_bits_false`.) -/
theorem equal_keeps_other_bits_partial (t p x : Nat) (hp : p < 8) (hx : x < 65536) :
    ((Mode.equal t p).applyTo x) >>> 9 = x >>> 9 := by
  show ((x &&& (0xFFFF - 0o777)) ||| (if t &&& 1 ≠ 0 then targetApply 1 p else x &&& 0o700) |||
    (if t &&& 2 ≠ 0 then targetApply 2 p else x &&& 0o070) |||
    (if t &&& 4 ≠ 0 then targetApply 4 p else x &&& 0o007)) >>> 9 = x >>> 9
  have a1 : (if t &&& 1 ≠ 0 then targetApply 1 p else x &&& 0o700) >>> 9 = 0 := by
    split
    · exact shr9_zero _ (targetApply_lt 1 p hp)
    · exact and_mask_shr9 x _ (by decide)
  have a2 : (if t &&& 2 ≠ 0 then targetApply 2 p else x &&& 0o070) >>> 9 = 0 := by
    split
    · exact shr9_zero _ (targetApply_lt 2 p hp)
    · exact and_mask_shr9 x _ (by decide)
  have a4 : (if t &&& 4 ≠ 0 then targetApply 4 p else x &&& 0o007) >>> 9 = 0 := by
    split
    · exact shr9_zero _ (targetApply_lt 4 p hp)
    · exact and_mask_shr9 x _ (by decide)
  rw [Nat.shiftRight_or_distrib, Nat.shiftRight_or_distrib, Nat.shiftRight_or_distrib, a1, a2, a4, u16_high x hx]
  simp

/-- the statement of (B2) for `=` and ANY `x` is false: the model's `=` keeps only 16 bits (`x &&& 0xFE00`), so on a
    value that is not a u16 it clears bit 16 and up.  (The Rust mode is a `u16`; `+` has no such truncation.) -/
theorem equal_keeps_other_bits_false :
    ¬ ∀ t p x : Nat, p < 8 → ((Mode.equal t p).applyTo x) >>> 9 = x >>> 9 := by
  intro h
  exact absurd (h 0 0 65536 (by decide)) (by decide)

/-- **(B2, `-`)** for a 16-bit mode value: the bits from 9 up are untouched -/
theorem minus_keeps_other_bits (t p x : Nat) (hp : p < 8) (hx : x < 65536) :
    ((Mode.minus t p).applyTo x) >>> 9 = x >>> 9 := by
  show (x &&& (0xFFFF - targetApply t p)) >>> 9 = x >>> 9
  have ht := targetApply_lt t p hp
  rw [Nat.shiftRight_and_distrib]
  have h1 : (0xFFFF - targetApply t p) >>> 9 = 2 ^ 7 - 1 := by
    rw [Nat.shiftRight_eq_div_pow]; omega
  have h2 : x >>> 9 < 2 ^ 7 := by rw [Nat.shiftRight_eq_div_pow]; omega
  rw [h1, Nat.and_two_pow_sub_one_eq_mod, Nat.mod_eq_of_lt h2]

/-- **(B2)** the three symbolic clauses on a 16-bit mode value: set-user-ID, set-group-ID, sticky and the file-type
    bits are untouched.  (`_partial` only because of `x < 65536` for `=`; `+` needs no bound:
    `plus_keeps_other_bits`.) -/
theorem symbolic_keeps_other_bits_partial (t p x : Nat) (hp : p < 8) (hx : x < 65536) (m : Mode)
    (hm : m = .equal t p ∨ m = .plus t p ∨ m = .minus t p) : (m.applyTo x) >>> 9 = x >>> 9 := by
  rcases hm with rfl | rfl | rfl
  · exact equal_keeps_other_bits_partial t p x hp hx
  · exact plus_keeps_other_bits t p x hp
  · exact minus_keeps_other_bits t p x hp hx

/-- equivalently: every bit from 9 up agrees -/
theorem symbolic_keeps_other_bits_testBit (t p x : Nat) (hp : p < 8) (hx : x < 65536) (m : Mode)
    (hm : m = .equal t p ∨ m = .plus t p ∨ m = .minus t p) (i : Nat) (hi : 9 ≤ i) :
    (m.applyTo x).testBit i = x.testBit i := by
  have h := congrArg (fun y => y.testBit (i - 9)) (symbolic_keeps_other_bits_partial t p x hp hx m hm)
  simp only [Nat.testBit_shiftRight] at h
  rwa [show 9 + (i - 9) = i by omega] at h

/-- the shift form follows back from the bit form (the two are equivalent) -/
theorem shr9_of_testBit (a x : Nat) (h : ∀ i, 9 ≤ i → a.testBit i = x.testBit i) : a >>> 9 = x >>> 9 := by
  apply Nat.eq_of_testBit_eq
  intro j
  rw [Nat.testBit_shiftRight, Nat.testBit_shiftRight]
  exact h (9 + j) (by omega)

-- non-vacuity (B2): a regular file with set-user-ID and set-group-ID, `o=r`, `g+w`, `u-x`
example : (Mode.equal 4 4).applyTo 0o106755 = 0o106754 ∧ (Mode.plus 2 2).applyTo 0o106755 = 0o106775 ∧
    (Mode.minus 1 1).applyTo 0o106755 = 0o106655 := by decide
example := symbolic_keeps_other_bits_partial 4 4 0o106755 (by decide) (by decide) (.equal 4 4) (Or.inl rfl)
example := symbolic_keeps_other_bits_testBit 1 1 0o106755 (by decide) (by decide) (.minus 1 1) (Or.inr (Or.inr rfl))
  11 (by decide)
example := plus_keeps_other_bits 2 2 (0o106755 + 65536) (by decide)
example : (Mode.equal 4 4).applyTo 0o106755 >>> 9 = 0o106 := by decide

/-- `=` before the repair: the result was assembled from the three class fields only -/
def applyToLegacyEqual (t p x : Nat) : Nat :=
  (if t &&& 1 ≠ 0 then targetApply 1 p else x &&& 0o700) ||| (if t &&& 2 ≠ 0 then targetApply 2 p else x &&& 0o070) |||
    (if t &&& 4 ≠ 0 then targetApply 4 p else x &&& 0o007)

/-- **legacy witness**: `chmod o=r` on a set-user-ID regular file `0o104755` gave `0o754` — set-user-ID and the file
    type gone; after the repair `0o104754`. -/
theorem legacy_equal_cleared_high_bits :
    applyToLegacyEqual 4 4 0o104755 = 0o754 ∧ applyToLegacyEqual 4 4 0o104755 >>> 9 ≠ 0o104755 >>> 9 ∧
    (Mode.equal 4 4).applyTo 0o104755 = 0o104754 := by decide

-- ================================================================ (B3)

/-- the value of `=` as the four fields -/
theorem equal_applyTo (t p x : Nat) : (Mode.equal t p).applyTo x =
    (x &&& (0xFFFF - 0o777)) ||| (if t &&& 1 ≠ 0 then p <<< 6 else x &&& 0o700) |||
    (if t &&& 2 ≠ 0 then p <<< 3 else x &&& 0o070) ||| (if t &&& 4 ≠ 0 then p else x &&& 0o007) := by
  show (x &&& (0xFFFF - 0o777)) ||| (if t &&& 1 ≠ 0 then targetApply 1 p else x &&& 0o700) |||
    (if t &&& 2 ≠ 0 then targetApply 2 p else x &&& 0o070) |||
    (if t &&& 4 ≠ 0 then targetApply 4 p else x &&& 0o007) = _
  rw [targetApply_one, targetApply_two, targetApply_four]

/-- the class field `k` (one of `0o700`, `0o070`, `0o007`) of the value of `=`: the field of the class's own term -/
theorem equal_field (t p x k : Nat)
    (hk : k = 0o700 ∨ k = 0o070 ∨ k = 0o007) :
    ((Mode.equal t p).applyTo x) &&& k =
      ((if t &&& 1 ≠ 0 then p <<< 6 else x &&& 0o700) &&& k) |||
      ((if t &&& 2 ≠ 0 then p <<< 3 else x &&& 0o070) &&& k) |||
      ((if t &&& 4 ≠ 0 then p else x &&& 0o007) &&& k) := by
  rw [equal_applyTo, Nat.and_or_distrib_right, Nat.and_or_distrib_right, Nat.and_or_distrib_right]
  have h0 : (x &&& (0xFFFF - 0o777)) &&& k = 0 := by
    rcases hk with rfl | rfl | rfl <;> exact and_and_zero x _ _ (by decide)
  rw [h0, Nat.zero_or]

theorem uTerm (c : Prop) [Decidable c] (p x : Nat) (hp : p < 8) :
    (if c then p <<< 6 else x &&& 0o700) &&& 0o700 = (if c then p <<< 6 else x &&& 0o700) ∧
    (if c then p <<< 6 else x &&& 0o700) &&& 0o070 = 0 ∧ (if c then p <<< 6 else x &&& 0o700) &&& 0o007 = 0 := by
  obtain ⟨h1, h2, h3, _⟩ := class_fields p hp
  split
  · exact ⟨h1, h2, h3⟩
  · exact ⟨and_and_self x _, and_and_zero x _ _ (by decide), and_and_zero x _ _ (by decide)⟩

theorem gTerm (c : Prop) [Decidable c] (p x : Nat) (hp : p < 8) :
    (if c then p <<< 3 else x &&& 0o070) &&& 0o700 = 0 ∧
    (if c then p <<< 3 else x &&& 0o070) &&& 0o070 = (if c then p <<< 3 else x &&& 0o070) ∧
    (if c then p <<< 3 else x &&& 0o070) &&& 0o007 = 0 := by
  obtain ⟨_, _, _, h1, h2, h3, _⟩ := class_fields p hp
  split
  · exact ⟨h1, h2, h3⟩
  · exact ⟨and_and_zero x _ _ (by decide), and_and_self x _, and_and_zero x _ _ (by decide)⟩

theorem oTerm (c : Prop) [Decidable c] (p x : Nat) (hp : p < 8) :
    (if c then p else x &&& 0o007) &&& 0o700 = 0 ∧ (if c then p else x &&& 0o007) &&& 0o070 = 0 ∧
    (if c then p else x &&& 0o007) &&& 0o007 = (if c then p else x &&& 0o007) := by
  obtain ⟨_, _, _, _, _, _, h1, h2, h3⟩ := class_fields p hp
  split
  · exact ⟨h1, h2, h3⟩
  · exact ⟨and_and_zero x _ _ (by decide), and_and_zero x _ _ (by decide), and_and_self x _⟩

/-- the three class fields of the value of `=`, each as its own `if` -/
theorem equal_fields (t p x : Nat) (hp : p < 8) :
    ((Mode.equal t p).applyTo x) &&& 0o700 = (if t &&& 1 ≠ 0 then p <<< 6 else x &&& 0o700) ∧
    ((Mode.equal t p).applyTo x) &&& 0o070 = (if t &&& 2 ≠ 0 then p <<< 3 else x &&& 0o070) ∧
    ((Mode.equal t p).applyTo x) &&& 0o007 = (if t &&& 4 ≠ 0 then p else x &&& 0o007) := by
  obtain ⟨u1, u2, u3⟩ := uTerm (t &&& 1 ≠ 0) p x hp
  obtain ⟨g1, g2, g3⟩ := gTerm (t &&& 2 ≠ 0) p x hp
  obtain ⟨o1, o2, o3⟩ := oTerm (t &&& 4 ≠ 0) p x hp
  refine ⟨?_, ?_, ?_⟩
  · rw [equal_field t p x _ (Or.inl rfl), u1, g1, o1]; simp
  · rw [equal_field t p x _ (Or.inr (Or.inl rfl)), u2, g2, o2]; simp
  · rw [equal_field t p x _ (Or.inr (Or.inr rfl)), u3, g3, o3]; simp

/-- **(B3)** `=` sets exactly the named classes to exactly the named permissions and leaves the unnamed classes
    alone: for each of other (`t &&& 4`, bits `0o007`), group (`t &&& 2`, bits `0o070`) and user (`t &&& 1`, bits
    `0o700`), the class field of the result is `p` (shifted to the class) when the class is named, and the field of
    `x` when it is not. -/
theorem equal_sets_named_classes (t p x : Nat) (hp : p < 8) :
    (t &&& 4 ≠ 0 → ((Mode.equal t p).applyTo x) &&& 0o007 = p) ∧
    (t &&& 4 = 0 → ((Mode.equal t p).applyTo x) &&& 0o007 = x &&& 0o007) ∧
    (t &&& 2 ≠ 0 → ((Mode.equal t p).applyTo x) &&& 0o070 = p <<< 3) ∧
    (t &&& 2 = 0 → ((Mode.equal t p).applyTo x) &&& 0o070 = x &&& 0o070) ∧
    (t &&& 1 ≠ 0 → ((Mode.equal t p).applyTo x) &&& 0o700 = p <<< 6) ∧
    (t &&& 1 = 0 → ((Mode.equal t p).applyTo x) &&& 0o700 = x &&& 0o700) := by
  obtain ⟨hu, hg, ho⟩ := equal_fields t p x hp
  refine ⟨fun h => ?_, fun h => ?_, fun h => ?_, fun h => ?_, fun h => ?_, fun h => ?_⟩
  · rw [ho, if_pos h]
  · rw [ho, if_neg (by simp [h])]
  · rw [hg, if_pos h]
  · rw [hg, if_neg (by simp [h])]
  · rw [hu, if_pos h]
  · rw [hu, if_neg (by simp [h])]

-- non-vacuity (B3): `uo=rx` on 0o104624: user and other become r-x, group keeps -w-, set-user-ID and type stay
example : (Mode.equal 5 5).applyTo 0o104624 = 0o104525 := by decide
example := equal_sets_named_classes 5 5 0o104624 (by decide)
example : (5 &&& 4 ≠ 0) ∧ (5 &&& 2 = 0) ∧ (5 &&& 1 ≠ 0) ∧ (Mode.equal 5 5).applyTo 0o104624 &&& 0o007 = 5 ∧
    (Mode.equal 5 5).applyTo 0o104624 &&& 0o070 = 0o104624 &&& 0o070 ∧
    (Mode.equal 5 5).applyTo 0o104624 &&& 0o700 = 5 <<< 6 := by decide
-- `p < 8` is needed: "other = 8" spills into the group field
example : (Mode.equal 4 8).applyTo 0 &&& 0o007 ≠ 8 := by decide

-- ================================================================ (B4)

/-- `-` with a mask that fits 16 bits, on a 16-bit mode value, bit by bit.  (The generalisation of (B4) from
    `p < 8` to `targetApply t p < 65536`; without a bound on the mask the statement is false, see
    `minus_exact_needs_small_mask`.) -/
theorem minus_exact_partial (t p x : Nat) (hT : targetApply t p < 65536) (hx : x < 65536) (i : Nat) :
    ((Mode.minus t p).applyTo x).testBit i = (x.testBit i && !(targetApply t p).testBit i) := by
  show (x &&& (0xFFFF - targetApply t p)).testBit i = _
  have e : 0xFFFF - targetApply t p = 2 ^ 16 - (targetApply t p + 1) := by omega
  rw [Nat.testBit_and, e, Nat.testBit_two_pow_sub_succ (by omega)]
  by_cases hi : i < 16
  · simp [hi]
  · have hx2 : x.testBit i = false :=
      Nat.testBit_lt_two_pow (Nat.lt_of_lt_of_le hx (Nat.pow_le_pow_right (by decide) (by omega) : 2 ^ 16 ≤ 2 ^ i))
    rw [hx2]; rfl

/-- **(B4)** `+` adds exactly the bits of the mask: `x ||| targetApply t p` (any `x`, any `p`); `-` removes exactly
    the bits of the mask (clause with `p < 8`, 16-bit mode value): bit `i` of the result is bit `i` of `x` and not
    bit `i` of the mask. -/
theorem plus_minus_exact (t p x : Nat) :
    (Mode.plus t p).applyTo x = x ||| targetApply t p ∧
    (p < 8 → x < 65536 → ∀ i, ((Mode.minus t p).applyTo x).testBit i = (x.testBit i && !(targetApply t p).testBit i)) :=
  ⟨rfl, fun hp hx i => minus_exact_partial t p x (Nat.lt_trans (targetApply_lt t p hp) (by decide)) hx i⟩

/-- consequences of (B4) in mask form: after `-` no bit of the mask is set, and the bits outside the mask are
    those of `x` -/
theorem minus_mask (t p x : Nat) (hp : p < 8) (hx : x < 65536) :
    ((Mode.minus t p).applyTo x) &&& targetApply t p = 0 ∧
    ((Mode.minus t p).applyTo x) ||| (x &&& targetApply t p) = x := by
  have h := (plus_minus_exact t p x).2 hp hx
  constructor
  · apply Nat.eq_of_testBit_eq
    intro i
    rw [Nat.testBit_and, h i, Nat.zero_testBit]
    cases x.testBit i <;> cases (targetApply t p).testBit i <;> rfl
  · apply Nat.eq_of_testBit_eq
    intro i
    rw [Nat.testBit_or, Nat.testBit_and, h i]
    cases x.testBit i <;> cases (targetApply t p).testBit i <;> rfl

/-- without a bound on the permission value the `-` statement is false: the model's `0xFFFF - mask` is `!mask` on
    u16 only for masks that fit 16 bits -/
theorem minus_exact_needs_small_mask :
    ¬ ∀ t p x i : Nat, x < 65536 →
      ((Mode.minus t p).applyTo x).testBit i = (x.testBit i && !(targetApply t p).testBit i) := by
  intro h
  exact absurd (h 4 65536 1 0 (by decide)) (by decide)

/-- … and so is it without `x < 65536` (`-` keeps only 16 bits) -/
theorem minus_exact_needs_u16 :
    ¬ ∀ t p x i : Nat, p < 8 →
      ((Mode.minus t p).applyTo x).testBit i = (x.testBit i && !(targetApply t p).testBit i) := by
  intro h
  exact absurd (h 0 0 65536 16 (by decide)) (by decide)

-- non-vacuity (B4): `ug+w`, `go-rx` on a set-group-ID directory 0o042755
example : (Mode.plus 3 2).applyTo 0o042755 = 0o042775 ∧ (Mode.minus 6 5).applyTo 0o042755 = 0o042700 ∧
    targetApply 6 5 = 0o055 := by decide
example := (plus_minus_exact 6 5 0o042755).2 (by decide) (by decide) 3
example := minus_mask 6 5 0o042755 (by decide) (by decide)
example : ((Mode.minus 6 5).applyTo 0o042755).testBit 3 = false ∧ (0o042755).testBit 3 = true ∧
    (targetApply 6 5).testBit 3 = true ∧ ((Mode.minus 6 5).applyTo 0o042755).testBit 10 = true := by decide

end Pna.C10B

#print axioms Pna.C10B.targetApply_lt
#print axioms Pna.C10B.plus_keeps_other_bits
#print axioms Pna.C10B.equal_keeps_other_bits_partial
#print axioms Pna.C10B.equal_keeps_other_bits_false
#print axioms Pna.C10B.minus_keeps_other_bits
#print axioms Pna.C10B.symbolic_keeps_other_bits_partial
#print axioms Pna.C10B.symbolic_keeps_other_bits_testBit
#print axioms Pna.C10B.legacy_equal_cleared_high_bits
#print axioms Pna.C10B.equal_sets_named_classes
#print axioms Pna.C10B.plus_minus_exact
#print axioms Pna.C10B.minus_exact_partial
#print axioms Pna.C10B.minus_mask
