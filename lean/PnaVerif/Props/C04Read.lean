import PnaVerif.Lemmas.SplitRead
import PnaVerif.Props.C04Multipart
import PnaVerif.Props.C03Recut
/-!
# C04 (read back) and `pna concat` — the proved layers composed

`Props/C04Multipart.lean` shows that reading the part files of a split in sequence is reading ONE archive that
holds the concatenated part bodies, and `Props/C03Recut.lean` that the readers cannot tell chunk sequences apart
that differ only in where data chunks are cut.  Together with the archive round trip (`Lemmas/ArchiveRt.lean`):

**Part A — "read in sequence, the parts yield exactly the original entries with identical contents"**
* `split_read_same_entries`  (A1) the multipart reader on the parts of `writeSplit entries` returns the same number of
                             entries as the single-archive reader on the unsplit archive, pairwise the same up to
                             the cutting of their data (`SameE`), and the same success / error;
* `split_read_entries`       (A2) for entries written from `ReadEntry` values: status ok, and the entries themselves
                             come back (`SameE`);
* `split_read_contents`      (A3) … so every normal entry decodes to identical contents, for every cipher / codec / key.

**Part B — `pna concat`** (`Model/Cli/Concat.lean`)
* `writeRaw_eq`              (B1) the writer of `concat` produces `encodeArchive 0 items false`;
* `concat_single_archives`   (B2) concatenating unsplit archives copies their items byte for byte, in order;
* `concat_of_split`          (B3) `concat` of the parts of a split visits exactly all parts and writes the ONE archive
                             holding the concatenated bodies (`C04M.concatArchive`), whose items are the original ones up
                             to the cutting of data chunks and which reads like the original archive;
* `concat_missing_part`      (B4) with the last parts missing the command fails with `NotFound` (C06 for `concat`) —
                             unlike `readMultipartWith`, which does not notice (`C04M.missing_last_part`).

Hypotheses that are not in the informal property and are needed: the number of parts `≤ 2^32`
(`C04M.too_many_parts_unreadable`), and `Unmixed` items (`C03R.parseEntry_recut` fails without it: `EntryPart::split`
also cuts an SDAT chunk kept as an uninterpreted chunk of a normal entry, which then comes back as two chunks —
`split_read_needs_unmixed` below).
-/
namespace Pna.C04R
open Pna Pna.C04M

/-- the two components of the multipart reader's result, against `parseItems` of the original items -/
theorem split_read_all2 (entries : List (List Chunk)) (maxFile : Nat) (bodies : List (List Chunk))
    (hw : ∀ e ∈ entries, ItemWF e) (hu : ∀ e ∈ entries, Unmixed e) (hfit : ChunksFit entries.flatten)
    (h : writeSplit entries maxFile = .ok bodies) (hlen : bodies.length ≤ 2 ^ 32) :
    All2 SameE (readMultipartWith chunksStream true 0 [] (encodeParts bodies)).1 (parseItems entries).1 ∧
    OutcomeRel (fun _ _ => True) (readMultipartWith chunksStream true 0 [] (encodeParts bodies)).2
      (parseItems entries).2 := by
  obtain ⟨_, _, _, hm, _⟩ := split_then_read_partial entries maxFile bodies h hw hfit hlen
  obtain ⟨g1, _⟩ := split_groups entries maxFile bodies h hw
  obtain ⟨p1, p2⟩ := parseItems_rel g1 (All2_unmixed g1 hu) hu
  rw [hm]
  refine ⟨p1, ?_⟩
  show OutcomeRel _ (match (parseItems (groupItems [] false bodies.flatten).1).2 with | .ok _ => .ok () | o => o) _
  revert p2
  generalize (parseItems (groupItems [] false bodies.flatten).1).2 = o
  intro p2
  cases o <;> exact p2

/-- (A1), list form, for the unsplit archive as `pna` writes it (part number 0) -/
theorem split_read_same_entries_all2 (entries : List (List Chunk)) (maxFile : Nat) (bodies : List (List Chunk))
    (hw : ∀ e ∈ entries, ItemWF e) (hu : ∀ e ∈ entries, Unmixed e) (hfit : ChunksFit entries.flatten)
    (h : writeSplit entries maxFile = .ok bodies) (hlen : bodies.length ≤ 2 ^ 32) (n : Nat) (hn : n < 2 ^ 32) :
    All2 SameE (readMultipartWith chunksStream true 0 [] (encodeParts bodies)).1
      (readArchiveStream (encodeArchive n entries false)).entries ∧
    OutcomeRel (fun _ _ => True) (readMultipartWith chunksStream true 0 [] (encodeParts bodies)).2
      (readArchiveStream (encodeArchive n entries false)).status := by
  obtain ⟨p1, p2⟩ := split_read_all2 entries maxFile bodies hw hu hfit h hlen
  have hr : readArchiveStream (encodeArchive n entries false) = _ :=
    readArchiveWith_encodeArchive n hn entries hw hfit false
  rw [hr]
  refine ⟨p1, ?_⟩
  show OutcomeRel _ _ (match (parseItems entries).2 with | .ok _ => .ok () | o => o)
  revert p2
  generalize (parseItems entries).2 = o
  intro p2
  cases o <;> exact p2

/-- **(A1)** Split an archive into part files, read the parts in sequence: the same entries as reading the unsplit
    archive — same number, pairwise the same header, key-derivation string, metadata, xattrs, extra chunks and
    concatenated data (`SameE`: only the places where the data is cut may differ) — and the same kind of end (ok,
    the same error, or a panic in both).  `n` is the number in the AHED of the unsplit archive (`pna` writes 0;
    the single-archive reader does not look at it). -/
theorem split_read_same_entries (entries : List (List Chunk)) (maxFile : Nat) (bodies : List (List Chunk))
    (hw : ∀ e ∈ entries, ItemWF e) (hu : ∀ e ∈ entries, Unmixed e) (hfit : ChunksFit entries.flatten)
    (h : writeSplit entries maxFile = .ok bodies) (hlen : bodies.length ≤ 2 ^ 32) (n : Nat) (hn : n < 2 ^ 32) :
    let m := readMultipartWith chunksStream true 0 [] (encodeParts bodies)
    let r := readArchiveStream (encodeArchive n entries false)
    m.1.length = r.entries.length ∧
    (∀ (k : Nat) (h₁ : k < m.1.length) (h₂ : k < r.entries.length), SameE (m.1[k]'h₁) (r.entries[k]'h₂)) ∧
    OutcomeRel (fun _ _ => True) m.2 r.status := by
  intro m r
  obtain ⟨p1, p2⟩ := split_read_same_entries_all2 entries maxFile bodies hw hu hfit h hlen n hn
  exact ⟨p1.length_eq, fun k h₁ h₂ => p1.getElem k h₁ h₂, p2⟩

/-- (A2), list form -/
theorem split_read_entries_all2 (es : List ReadEntry) (hw : ∀ e ∈ es, e.WF) (hx : ∀ e ∈ es, NoMarkers e.extra)
    (hu : ∀ e ∈ es, Unmixed (serEntry e)) (hfit : ChunksFit (es.flatMap serEntry))
    (maxFile : Nat) (bodies : List (List Chunk))
    (h : writeSplit (es.map serEntry) maxFile = .ok bodies) (hlen : bodies.length ≤ 2 ^ 32) :
    All2 SameE (readMultipartWith chunksStream true 0 [] (encodeParts bodies)).1 es ∧
    (readMultipartWith chunksStream true 0 [] (encodeParts bodies)).2 = .ok () := by
  have hwf : ∀ it ∈ es.map serEntry, ItemWF it := by
    intro it hit
    obtain ⟨e, he, rfl⟩ := List.mem_map.mp hit
    exact serEntry_ItemWF e (hw e he) (hx e he)
  have hum : ∀ it ∈ es.map serEntry, Unmixed it := by
    intro it hit
    obtain ⟨e, he, rfl⟩ := List.mem_map.mp hit
    exact hu e he
  obtain ⟨p1, p2⟩ := split_read_all2 (es.map serEntry) maxFile bodies hwf hum
    (by rw [← List.flatMap_def]; exact hfit) h hlen
  rw [parseItems_serEntry es hw] at p1 p2
  constructor
  · refine All2.trans (R := SameE) (fun _ _ _ p q => SameE.trans p q) p1 ?_
    clear p1 p2 hwf hum h hfit hu hx hw
    induction es with
    | nil => exact .nil
    | cons e es ih => exact .cons (SameE_recut e) ih
  · revert p2
    cases (readMultipartWith chunksStream true 0 [] (encodeParts bodies)).2 <;>
      simp only [OutcomeRel, imp_self, false_implies]

/-- **(A2)** The entries were written from `ReadEntry` values (`serEntry`): reading the parts in sequence ends ok
    and returns exactly these entries, up to the cutting of their data. -/
theorem split_read_entries (es : List ReadEntry) (hw : ∀ e ∈ es, e.WF) (hx : ∀ e ∈ es, NoMarkers e.extra)
    (hu : ∀ e ∈ es, Unmixed (serEntry e)) (hfit : ChunksFit (es.flatMap serEntry))
    (maxFile : Nat) (bodies : List (List Chunk))
    (h : writeSplit (es.map serEntry) maxFile = .ok bodies) (hlen : bodies.length ≤ 2 ^ 32) :
    let m := readMultipartWith chunksStream true 0 [] (encodeParts bodies)
    m.2 = .ok () ∧ m.1.length = es.length ∧
    ∀ (k : Nat) (h₁ : k < m.1.length) (h₂ : k < es.length), SameE (m.1[k]'h₁) (es[k]'h₂) := by
  intro m
  obtain ⟨p1, p2⟩ := split_read_entries_all2 es hw hx hu hfit maxFile bodies h hlen
  exact ⟨p2, p1.length_eq, fun k h₁ h₂ => p1.getElem k h₁ h₂⟩

/-- **(A3)** … with identical contents: every normal entry comes back as a normal entry with the same header,
    key-derivation string, extra chunks, metadata and xattrs, the same `compressed_size`, and for every cipher,
    codec and key decoding its data gives exactly what decoding the original entry's data gives. -/
theorem split_read_contents (es : List ReadEntry) (hw : ∀ e ∈ es, e.WF) (hx : ∀ e ∈ es, NoMarkers e.extra)
    (hu : ∀ e ∈ es, Unmixed (serEntry e)) (hfit : ChunksFit (es.flatMap serEntry))
    (maxFile : Nat) (bodies : List (List Chunk))
    (h : writeSplit (es.map serEntry) maxFile = .ok bodies) (hlen : bodies.length ≤ 2 ^ 32)
    (P : BlockPerm) (C : Compressor) (sel : CipherSel) (key : Bytes) :
    let m := readMultipartWith chunksStream true 0 [] (encodeParts bodies)
    ∀ (k : Nat) (h₁ : k < m.1.length) (h₂ : k < es.length) (e : NormalEntry), es[k]'h₂ = .normal e →
      ∃ e₁, m.1[k]'h₁ = .normal e₁ ∧ SameN e₁ e ∧
        readData P C sel key e₁.data = readData P C sel key e.data ∧ e₁.compressedSize = e.compressedSize := by
  intro m k h₁ h₂ e he
  have hs := (split_read_entries es hw hx hu hfit maxFile bodies h hlen).2.2 k h₁ h₂
  rw [he] at hs
  cases hm : m.1[k]'h₁ with
  | normal e₁ =>
    rw [show (readMultipartWith chunksStream true 0 [] (encodeParts bodies)).1[k]'h₁ = _ from hm] at hs
    exact ⟨e₁, rfl, hs, C03R.sameN_content P C sel key e₁ e hs⟩
  | solid s =>
    rw [show (readMultipartWith chunksStream true 0 [] (encodeParts bodies)).1[k]'h₁ = _ from hm] at hs
    exact absurd hs (by simp [SameE])

-- ================================================================ Part B: `pna concat`

/-- **(B1)** `write_header`, raw `add_entry` …, `finalize`: a single-part archive number 0 holding the items -/
theorem writeRaw_eq (items : List (List Chunk)) : Cli.writeRaw items = encodeArchive 0 items false := by
  simp [Cli.writeRaw, encodeArchive, encodeChunks, List.flatMap_append, List.append_assoc]

/-- one input that is an unsplit archive: its items, and the walk stops there (no ANXT) -/
theorem rawAcross_single (n : Nat) (hn : n < 2 ^ 32) (items : List (List Chunk)) (hw : ∀ it ∈ items, ItemWF it)
    (hfit : ChunksFit items.flatten) (ps : List Bytes) :
    Cli.rawAcross true 0 [] (encodeArchive n items false :: ps) = (items, .ok ()) := by
  rw [Cli.rawAcross]
  simp only [readArchiveWith_encodeArchive n hn items hw hfit false, chunksStream_encodeArchive n items hw hfit false]
  simp

theorem concatItems_cons_ok (inp : List Bytes) (rest : List (List Bytes)) (is js : List (List Chunk)) (u : Unit)
    (h : Cli.rawAcross true 0 [] inp = (is, .ok u)) (hr : Cli.concatItems rest = .ok js) :
    Cli.concatItems (inp :: rest) = .ok (is ++ js) := by
  rw [Cli.concatItems, h, hr]

theorem concatItems_cons_error (inp : List Bytes) (rest : List (List Bytes)) (is : List (List Chunk)) (e : Err)
    (h : Cli.rawAcross true 0 [] inp = (is, .error e)) : Cli.concatItems (inp :: rest) = .error e := by
  rw [Cli.concatItems, h]

theorem concatItems_single_archives (as : List (Nat × List (List Chunk)))
    (h : ∀ a ∈ as, a.1 < 2 ^ 32 ∧ (∀ it ∈ a.2, ItemWF it) ∧ ChunksFit a.2.flatten) :
    Cli.concatItems (as.map fun a => [encodeArchive a.1 a.2 false]) = .ok (as.flatMap (·.2)) := by
  induction as with
  | nil => rfl
  | cons a as ih =>
    obtain ⟨h1, h2, h3⟩ := h a (by simp)
    rw [List.map_cons, concatItems_cons_ok _ _ a.2 _ () (rawAcross_single a.1 h1 a.2 h2 h3 [])
      (ih (fun x hx => h x (by simp [hx])))]
    simp

/-- **(B2)** Every input is ONE well-formed unsplit archive (any header number below 2^32, complete items, chunks
    that fit): `pna concat` succeeds and its output is the single archive number 0 holding all the items of all
    the inputs, in order, unchanged — the entries are copied byte for byte, nothing is decoded (C13 at the level
    of the command). -/
theorem concat_single_archives (as : List (Nat × List (List Chunk)))
    (h : ∀ a ∈ as, a.1 < 2 ^ 32 ∧ (∀ it ∈ a.2, ItemWF it) ∧ ChunksFit a.2.flatten) :
    Cli.concat (as.map fun a => [encodeArchive a.1 a.2 false]) = .ok (encodeArchive 0 (as.flatMap (·.2)) false) := by
  unfold Cli.concat
  rw [concatItems_single_archives as h]
  simp only [writeRaw_eq]

/-- the raw items `concat` collects from ONE input that is a complete sequence of part files: every part is
    visited (`part_next_flag`: ANXT on every part but the last), and the items are those of one archive holding the
    concatenated bodies -/
theorem rawAcross_parts (bodies : List (List Chunk)) (hne : bodies ≠ []) (hlen : bodies.length ≤ 2 ^ 32)
    (hfit : ChunksFit bodies.flatten) (hno : BodiesClean bodies) :
    Cli.rawAcross true 0 [] (encodeParts bodies) = ((groupItems [] false bodies.flatten).1, .ok ()) := by
  rw [encodeParts_eq]
  exact rawAcross_complete bodies.length hlen bodies 0 hne (by omega) (fit_parts hfit) hno.parts true 0 []
    (Or.inl rfl)

/-- `pna concat` of one complete part sequence, for any clean bodies -/
theorem concat_parts (bodies : List (List Chunk)) (hne : bodies ≠ []) (hlen : bodies.length ≤ 2 ^ 32)
    (hfit : ChunksFit bodies.flatten) (hno : BodiesClean bodies) :
    Cli.concat [encodeParts bodies] = .ok (encodeArchive 0 (groupItems [] false bodies.flatten).1 false) := by
  unfold Cli.concat
  rw [concatItems_cons_ok _ [] _ [] () (rawAcross_parts bodies hne hlen hfit hno) rfl, List.append_nil]
  simp only [writeRaw_eq]

/-- when no item is left open, the archive `concat` writes is the one archive holding the concatenated bodies -/
theorem encodeArchive_grouped (bodies : List (List Chunk)) (hno : BodiesClean bodies)
    (hc : (groupItems [] false bodies.flatten).2.1 = []) :
    encodeArchive 0 (groupItems [] false bodies.flatten).1 false = concatArchive bodies := by
  have h := groupItems_flatten_carry bodies.flatten (NoPartMarkers.flatten hno.parts) [] false
  rw [hc, List.append_nil, List.nil_append] at h
  unfold encodeArchive concatArchive
  rw [h]
  simp

/-- **(B3)** `pna concat` on the part files of a split (given as one input: the first part, the others found by
    following ANXT).  All parts are visited, the command succeeds, and the output
    * is the single archive holding the items grouped out of the concatenated bodies — byte for byte the ONE
      archive `concatArchive bodies` that the sequence reader behaves like (`C04M.multipart_eq_single_archive`);
    * its items are the original items up to the cutting of their data chunks, one for one and as a whole
      (`streamView`): `concat` does not merge the data chunks that `split` cut;
    * (for `Unmixed` items) read back, it gives the entries of the original archive: same number, pairwise `SameE`,
      same kind of end. -/
theorem concat_of_split (entries : List (List Chunk)) (maxFile : Nat) (bodies : List (List Chunk))
    (hw : ∀ e ∈ entries, ItemWF e) (hfit : ChunksFit entries.flatten)
    (h : writeSplit entries maxFile = .ok bodies) (hlen : bodies.length ≤ 2 ^ 32) :
    Cli.concat [encodeParts bodies] = .ok (encodeArchive 0 (groupItems [] false bodies.flatten).1 false) ∧
    encodeArchive 0 (groupItems [] false bodies.flatten).1 false = concatArchive bodies ∧
    All2 SvEq (groupItems [] false bodies.flatten).1 entries ∧
    streamView (groupItems [] false bodies.flatten).1.flatten = streamView entries.flatten ∧
    ((∀ e ∈ entries, Unmixed e) → ∀ n, n < 2 ^ 32 →
      All2 SameE (readArchiveStream (concatArchive bodies)).entries
        (readArchiveStream (encodeArchive n entries false)).entries ∧
      OutcomeRel (fun _ _ => True) (readArchiveStream (concatArchive bodies)).status
        (readArchiveStream (encodeArchive n entries false)).status) := by
  obtain ⟨hne, hbf, hclean, _, _⟩ := split_then_read_partial entries maxFile bodies h hw hfit hlen
  obtain ⟨g1, g2⟩ := split_groups entries maxFile bodies h hw
  refine ⟨concat_parts bodies hne hlen hbf hclean, encodeArchive_grouped bodies hclean g2, g1,
    All2_flatten_svEq g1, fun hu n hn => ?_⟩
  have hm := multipart_eq_single_archive bodies hlen hbf hclean
  obtain ⟨p1, p2⟩ := split_read_same_entries_all2 entries maxFile bodies hw hu hfit h hlen n hn
  generalize readArchiveStream (concatArchive bodies) = r at hm ⊢
  rw [hm] at p1 p2
  exact ⟨p1, p2⟩

/-- `concat` with the last parts of an input missing, for any clean bodies (`p = 0`: no part file at all) -/
theorem concat_missing_part (bodies : List (List Chunk)) (hlen : bodies.length ≤ 2 ^ 32)
    (hfit : ChunksFit bodies.flatten) (hno : BodiesClean bodies) (p : Nat) (hp : p < bodies.length) :
    Cli.concat [(encodeParts bodies).take p] = .error .notFound := by
  have htk : ∀ b ∈ bodies.take p, b ∈ bodies := fun b hb => List.mem_of_mem_take hb
  have hr : Cli.rawAcross true 0 [] ((encodeParts bodies).take p)
      = ((groupItems [] false (bodies.take p).flatten).1, .error .notFound) := by
    rw [encodeParts_eq, partsFrom_take]
    exact rawAcross_missing bodies.length hlen (bodies.take p) 0 (by rw [List.length_take]; omega)
      (fun b hb => fit_parts hfit b (htk b hb)) (fun b hb => hno.parts b (htk b hb)) true 0 [] (Or.inl rfl)
  unfold Cli.concat
  rw [concatItems_cons_error _ _ _ _ hr]

/-- **(B4)** Only the first `p` part files of a split are there (`0 < p < bodies.length`): the ANXT flag of the
    last part present demands a part that is not there, and `pna concat` fails with `NotFound` — it never writes
    an archive from an incomplete sequence (property C06 for `pna concat`).  Contrast
    `C04M.missing_last_part`: the sequence reader alone returns ok on the same files. -/
theorem concat_missing_part_of_split (entries : List (List Chunk)) (maxFile : Nat) (bodies : List (List Chunk))
    (hw : ∀ e ∈ entries, ItemWF e) (hfit : ChunksFit entries.flatten)
    (h : writeSplit entries maxFile = .ok bodies) (hlen : bodies.length ≤ 2 ^ 32)
    (p : Nat) (_hp0 : 0 < p) (hp : p < bodies.length) :
    Cli.concat [(encodeParts bodies).take p] = .error .notFound ∧
    (readMultipartWith chunksStream true 0 [] ((encodeParts bodies).take p)).1
      <+: (readMultipartWith chunksStream true 0 [] (encodeParts bodies)).1 := by
  obtain ⟨_, hbf, hclean, _, _⟩ := split_then_read_partial entries maxFile bodies h hw hfit hlen
  exact ⟨concat_missing_part bodies hlen hbf hclean p hp,
    (missing_last_part bodies hlen hbf hclean p _hp0 hp).2.1⟩

-- ================================================================ non-vacuity

/-- a solid block: SHED, 30 bytes of data in one SDAT chunk, SEND -/
def exSolid : List Chunk :=
  [⟨ChunkType.SHED, [0, 0, 0, 0, 0]⟩, ⟨ChunkType.SDAT, List.replicate 30 9⟩, ⟨ChunkType.SEND, []⟩]

/-- the archive of the examples: a file entry (`C04M.exItem`, 40 data bytes) and a solid block -/
def exEntries : List (List Chunk) := [exItem, exSolid]

/-- split at 100 bytes per file: four part bodies, both data chunks cut (17 + 23, 19 + 11) -/
def exParts : List (List Chunk) :=
  [[⟨ChunkType.FHED, [0, 0, 0, 0, 0, 0, 97]⟩, ⟨ChunkType.FDAT, List.replicate 17 7⟩],
   [⟨ChunkType.FDAT, List.replicate 23 7⟩, ⟨ChunkType.FEND, []⟩],
   [⟨ChunkType.SHED, [0, 0, 0, 0, 0]⟩, ⟨ChunkType.SDAT, List.replicate 19 9⟩],
   [⟨ChunkType.SDAT, List.replicate 11 9⟩, ⟨ChunkType.SEND, []⟩]]

theorem exSolid_wf : ItemWF exSolid :=
  ⟨[⟨ChunkType.SHED, [0, 0, 0, 0, 0]⟩, ⟨ChunkType.SDAT, List.replicate 30 9⟩], ⟨ChunkType.SEND, []⟩, rfl,
    Or.inr rfl, by decide⟩

theorem exEntries_wf : ∀ e ∈ exEntries, ItemWF e := by
  intro e he
  simp only [exEntries, List.mem_cons, List.not_mem_nil, or_false] at he
  rcases he with rfl | rfl
  · exact exItem_wf
  · exact exSolid_wf

theorem exEntries_unmixed : ∀ e ∈ exEntries, Unmixed e := by decide
theorem exEntries_fit : ChunksFit exEntries.flatten := by unfold ChunksFit; decide
theorem ex_split4 : writeSplit exEntries 100 = .ok exParts := by decide +kernel
theorem exParts_len : exParts.length ≤ 2 ^ 32 := by decide

-- (A1) the theorem instantiated, and the two readers evaluated: two entries each, status ok, the entries are NOT
-- equal (their data is cut differently) but the same up to the cutting
example := split_read_same_entries exEntries 100 exParts exEntries_wf exEntries_unmixed exEntries_fit ex_split4
  exParts_len 0 (by decide)
example : (readMultipartWith chunksStream true 0 [] (encodeParts exParts)).2 = .ok () ∧
    (readMultipartWith chunksStream true 0 [] (encodeParts exParts)).1
      = [.normal { header := ⟨0, 0, 0, 0, 0, 0, [97]⟩, phsf := none, extra := [],
                   data := [List.replicate 17 7, List.replicate 23 7], md := {}, xattrs := [] },
         .solid { header := ⟨0, 0, 0, 0, 0⟩, phsf := none, data := [List.replicate 19 9, List.replicate 11 9],
                  extra := [] }] ∧
    (readArchiveStream (encodeArchive 0 exEntries false)).entries
      = [.normal { header := ⟨0, 0, 0, 0, 0, 0, [97]⟩, phsf := none, extra := [],
                   data := [List.replicate 40 7], md := {}, xattrs := [] },
         .solid { header := ⟨0, 0, 0, 0, 0⟩, phsf := none, data := [List.replicate 30 9], extra := [] }] ∧
    (encodeParts exParts).map List.length = [100, 99, 100, 75] := by
  decide +kernel

-- (A2), (A3) the same archive, written from `ReadEntry` values
def exN : NormalEntry :=
  { header := ⟨0, 0, 0, 0, 0, 0, [97]⟩, phsf := none, extra := [], data := [List.replicate 40 7], md := {},
    xattrs := [] }
def exS : SolidEntry := { header := ⟨0, 0, 0, 0, 0⟩, phsf := none, data := [List.replicate 30 9], extra := [] }
def exEs : List ReadEntry := [.normal exN, .solid exS]

theorem exEs_ser : exEs.map serEntry = exEntries := by decide +kernel

theorem exN_wf : exN.WF :=
  ⟨rfl, rfl, by decide, by decide, by decide, by decide, by decide +kernel, by decide +kernel,
    fun _ h => absurd h List.not_mem_nil, fun _ h => (nomatch h), fun _ h => (nomatch h), fun _ h => (nomatch h),
    fun _ h => (nomatch h), fun _ h => (nomatch h), fun _ h => (nomatch h), fun _ h => absurd h List.not_mem_nil⟩

theorem exS_wf : exS.WF :=
  ⟨by decide, by decide, by decide, by decide, by decide, fun _ h => absurd h List.not_mem_nil,
    fun _ h => nomatch h⟩

theorem exEs_wf : ∀ e ∈ exEs, e.WF := by
  intro e he
  simp only [exEs, List.mem_cons, List.not_mem_nil, or_false] at he
  rcases he with rfl | rfl
  · exact exN_wf
  · exact exS_wf

theorem exEs_nm : ∀ e ∈ exEs, NoMarkers e.extra := by
  intro e he
  simp only [exEs, List.mem_cons, List.not_mem_nil, or_false] at he
  rcases he with rfl | rfl <;> exact fun _ h => absurd h List.not_mem_nil

theorem exEs_unmixed : ∀ e ∈ exEs, Unmixed (serEntry e) := by
  intro e he
  simp only [exEs, List.mem_cons, List.not_mem_nil, or_false] at he
  rcases he with rfl | rfl
  · exact serEntry_unmixed _ (fun _ h => absurd h List.not_mem_nil)
  · exact serEntry_unmixed _ (fun _ h => absurd h List.not_mem_nil)

theorem exEs_fit : ChunksFit (exEs.flatMap serEntry) := by
  rw [List.flatMap_def, exEs_ser]; exact exEntries_fit

theorem exEs_split : writeSplit (exEs.map serEntry) 100 = .ok exParts := by rw [exEs_ser]; exact ex_split4

example := split_read_entries exEs exEs_wf exEs_nm exEs_unmixed exEs_fit 100 exParts exEs_split exParts_len
example := fun P C sel key =>
  split_read_contents exEs exEs_wf exEs_nm exEs_unmixed exEs_fit 100 exParts exEs_split exParts_len P C sel key
-- the contents, decoded with "store / no cipher": the 40 bytes, from the two pieces 17 + 23
example : (readMultipartWith chunksStream true 0 [] (encodeParts exParts)).1.map
      (fun e => match e with
        | .normal e => readData ⟨fun _ b => b, fun _ b => b⟩ storeCompressor .none [] e.data
        | .solid s => readData ⟨fun _ b => b, fun _ b => b⟩ storeCompressor .none [] s.data)
    = [.ok (List.replicate 40 7), .ok (List.replicate 30 9)] := by decide +kernel

/-- **`Unmixed` is needed in (A1)**: a normal entry that keeps an SDAT chunk as an uninterpreted chunk (allowed by
    `NormalEntry.WF`; `interpretedN SDAT = false`).  `EntryPart::split` cuts it like a data chunk, the reader
    returns the two pieces as two `extra` chunks: all other hypotheses of (A1) hold, both readers succeed, and the
    entry read from the parts is NOT the entry read from the unsplit archive (not even up to `SameE`). -/
theorem split_read_needs_unmixed :
    ∃ (entries : List (List Chunk)) (maxFile : Nat) (bodies : List (List Chunk)),
      (∀ e ∈ entries, ItemWF e) ∧ ChunksFit entries.flatten ∧ writeSplit entries maxFile = .ok bodies ∧
      bodies.length ≤ 2 ^ 32 ∧
      ∃ a b, readMultipartWith chunksStream true 0 [] (encodeParts bodies) = ([.normal a], .ok ()) ∧
        (readArchiveStream (encodeArchive 0 entries false)).entries = [.normal b] ∧
        a.extra = [⟨ChunkType.SDAT, List.replicate 17 5⟩, ⟨ChunkType.SDAT, List.replicate 23 5⟩] ∧
        b.extra = [⟨ChunkType.SDAT, List.replicate 40 5⟩] ∧ ¬ SameE (.normal a) (.normal b) := by
  refine ⟨[[⟨ChunkType.FHED, [0, 0, 0, 0, 0, 0, 97]⟩, ⟨ChunkType.SDAT, List.replicate 40 5⟩, ⟨ChunkType.FEND, []⟩]],
    100,
    [[⟨ChunkType.FHED, [0, 0, 0, 0, 0, 0, 97]⟩, ⟨ChunkType.SDAT, List.replicate 17 5⟩],
     [⟨ChunkType.SDAT, List.replicate 23 5⟩, ⟨ChunkType.FEND, []⟩]], ?_, ?_, by decide +kernel, by decide,
    { header := ⟨0, 0, 0, 0, 0, 0, [97]⟩, phsf := none, data := [], md := {}, xattrs := [],
      extra := [⟨ChunkType.SDAT, List.replicate 17 5⟩, ⟨ChunkType.SDAT, List.replicate 23 5⟩] },
    { header := ⟨0, 0, 0, 0, 0, 0, [97]⟩, phsf := none, data := [], md := {}, xattrs := [],
      extra := [⟨ChunkType.SDAT, List.replicate 40 5⟩] }, by decide +kernel, by decide +kernel, rfl, rfl,
    by decide +kernel⟩
  · intro e he
    rw [List.mem_singleton.mp he]
    exact ⟨[⟨ChunkType.FHED, [0, 0, 0, 0, 0, 0, 97]⟩, ⟨ChunkType.SDAT, List.replicate 40 5⟩],
      ⟨ChunkType.FEND, []⟩, rfl, Or.inl rfl, by decide⟩
  · unfold ChunksFit; decide

-- (B1)
example : Cli.writeRaw exEntries = encodeArchive 0 exEntries false ∧ (Cli.writeRaw exEntries).length = 194 :=
  ⟨writeRaw_eq _, by decide +kernel⟩

-- (B2) two inputs, the second one with part number 7 in its header and two items: the theorem, and by evaluation
def exInputs : List (Nat × List (List Chunk)) := [(0, [exItem]), (7, [exSolid, exItem])]

theorem exInputs_ok : ∀ a ∈ exInputs, a.1 < 2 ^ 32 ∧ (∀ it ∈ a.2, ItemWF it) ∧ ChunksFit a.2.flatten := by
  intro a ha
  simp only [exInputs, List.mem_cons, List.not_mem_nil, or_false] at ha
  rcases ha with rfl | rfl
  · refine ⟨by decide, fun it hit => ?_, by unfold ChunksFit; decide⟩
    rw [List.mem_singleton.mp hit]; exact exItem_wf
  · refine ⟨by decide, fun it hit => ?_, by unfold ChunksFit; decide⟩
    simp only [List.mem_cons, List.not_mem_nil, or_false] at hit
    rcases hit with rfl | rfl
    · exact exSolid_wf
    · exact exItem_wf

example := concat_single_archives exInputs exInputs_ok
example : Cli.concat [[encodeArchive 0 [exItem] false], [encodeArchive 7 [exSolid, exItem] false]]
    = .ok (encodeArchive 0 [exItem, exSolid, exItem] false) := by decide +kernel

-- (B3) the four part files of the example given to `concat`: the theorem, and by evaluation — the output is the
-- one archive holding the four bodies; its two items still have their data in two chunks each
example := concat_of_split exEntries 100 exParts exEntries_wf exEntries_fit ex_split4 exParts_len
example : Cli.concat [encodeParts exParts] = .ok (concatArchive exParts) ∧
    (groupItems [] false exParts.flatten).1 = [exParts[0] ++ exParts[1], exParts[2] ++ exParts[3]] ∧
    (groupItems [] false exParts.flatten).1 ≠ exEntries ∧
    (concatArchive exParts).length = 218 ∧ (encodeArchive 0 exEntries false).length = 194 := by decide +kernel

-- (B4) the third and fourth part missing: `concat` fails, while the sequence reader returns the first entry and ok
example := concat_missing_part_of_split exEntries 100 exParts exEntries_wf exEntries_fit ex_split4 exParts_len 2
  (by decide) (by decide)
example : Cli.concat [(encodeParts exParts).take 2] = .error .notFound ∧
    Cli.concat [(encodeParts exParts).take 3] = .error .notFound ∧
    (readMultipartWith chunksStream true 0 [] ((encodeParts exParts).take 2)).2 = .ok () ∧
    (readMultipartWith chunksStream true 0 [] ((encodeParts exParts).take 2)).1.length = 1 := by decide +kernel
-- a second input after the complete sequence is still processed; parts after the last one are never opened
example : Cli.concat [encodeParts exParts ++ [[1, 2, 3]], [encodeArchive 0 [exItem] false]]
    = .ok (encodeArchive 0 ((groupItems [] false exParts.flatten).1 ++ [exItem]) false) := by decide +kernel

end Pna.C04R

#print axioms Pna.C04R.split_read_same_entries
#print axioms Pna.C04R.split_read_same_entries_all2
#print axioms Pna.C04R.split_read_entries
#print axioms Pna.C04R.split_read_contents
#print axioms Pna.C04R.split_read_needs_unmixed
#print axioms Pna.C04R.writeRaw_eq
#print axioms Pna.C04R.concat_single_archives
#print axioms Pna.C04R.concat_of_split
#print axioms Pna.C04R.concat_missing_part
#print axioms Pna.C04R.concat_missing_part_of_split
