import PnaVerif.Lemmas.Overwrite
/-!
# C20 — without --overwrite no existing file is ever replaced or modified
Model: each command's effects on its output paths as an ordered plan over the abstract file
system (`Model/Cli/Overwrite.lean`): existence guards (following links, or not), truncating
creates, `create_new` for part files (after the `fix:`), the single-part rename behind an
`lguard` (after the `fix:`), `create_dir_all`.
`Preserved a b` = every object of `a` is at the same path in `b` with the same node, and every
file of `a` has the same contents in `b`.  For every file system, every path, every content:
* `create_concat_safe` — `create`/`concat`: everything pre-existing is preserved; a conflict is an
  error and nothing is done;
* `split_safe_multi` / `split_safe_single` / `split_conflict_reported` — `split` and
  `create --split`: part files are only created where nothing was (any pre-existing object at a
  part path, even a dangling link, fails the run and is left untouched); a single part is renamed
  only onto a free name;
* `extract_file_conflict_reported` / `extract_file_safe` — extraction of a file: conflict ⇒ error;
  preservation holds provided the guard still holds after `create_dir_all(parent)`;
  `extract_window` shows why that proviso is needed (an `--out-dir` containing `missing/..`:
  user-supplied, never produced from an entry name, which part 1 of C09 keeps free of `..`).
-/
namespace Pna.C20
open Pna Pna.Fs Pna.Cli

theorem create_concat_safe (cwd : Path) (fs : Fs) (hok : fs.InoOk) (archive content : Bytes) :
    Preserved fs (runPlan cwd fs (planCreate archive content)).1 ∧
    (fs.existsP cwd archive = true → runPlan cwd fs (planCreate archive content) = (fs, some .exists)) :=
  planCreate_safe cwd fs hok archive content

theorem split_safe_multi (cwd : Path) (fs : Fs) (hok : fs.InoOk) (first : Bytes) (parts : List (Bytes × Bytes))
    (base : Bytes) (hp : parts.length ≠ 1) : Preserved fs (runPlan cwd fs (planSplit first parts base)).1 :=
  planSplit_multi_safe cwd fs hok first parts base hp

theorem split_safe_single (cwd : Path) (fs : Fs) (hok : fs.InoOk) (first p c base : Bytes) :
    let fs1 := (runPlan cwd fs [Eff.guard first, Eff.createNew p c]).1
    let r := (runPlan cwd fs (planSplit first [(p, c)] base)).1
    (∀ q n, q ≠ [] → entryPath fs1 cwd p ≠ some q → fs.lookup q = some n → r.lookup q = some n) ∧
    (∀ q ino, fs.lookup q = some (.file ino) → r.content ino = fs.content ino) :=
  planSplit_single_safe cwd fs hok first p c base

theorem split_conflict_reported (cwd : Path) (fs : Fs) (first : Bytes) (parts : List (Bytes × Bytes)) (base : Bytes)
    (h : fs.existsP cwd first = true) : runPlan cwd fs (planSplit first parts base) = (fs, some .exists) :=
  planSplit_conflict cwd fs first parts base h

theorem part_files_never_truncate (cwd : Path) (fs fs' : Fs) (hok : fs.InoOk) (s c : Bytes)
    (h : fs.createNewFile cwd s c = .ok fs') : Preserved fs fs' := (createNew_preserved fs fs' cwd s c hok h).1

theorem extract_file_conflict_reported (cwd : Path) (fs : Fs) (hok : fs.InoOk) (dest parent content : Bytes) :
    fs.existsP cwd dest = true → runPlan cwd fs (planExtractFile dest parent content) = (fs, some .exists) :=
  planExtractFile_safe cwd fs hok dest parent content

theorem extract_file_safe (cwd : Path) (fs : Fs) (hok : fs.InoOk) (dest parent content : Bytes)
    (h2 : ∀ fs1, fs.createDirAll cwd parent = .ok fs1 → fs1.existsP cwd dest = false) :
    Preserved fs (runPlan cwd fs (planExtractFile dest parent content)).1 :=
  planExtractFile_preserved cwd fs hok dest parent content h2

/-- the proviso of `extract_file_safe` cannot be dropped (user-supplied `--out-dir missing/..`) -/
theorem extract_window :
    ¬ (∀ (cwd : Path) (fs : Fs) (dest parent content : Bytes), fs.InoOk →
        Preserved fs (runPlan cwd fs (planExtractFile dest parent content)).1) :=
  planExtractFile_preserved_unconditional_is_false

end Pna.C20
