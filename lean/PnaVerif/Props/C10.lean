import PnaVerif.Lemmas.CliEdit
/-!
# C10 — archive-editing commands change exactly what they target and nothing else
Model: `Cli.transform` (both solid strategies) with the per-command entry functions.  Stated at
the level of the entries the library returns (`entriesOf`), for every archive, every selection
predicate (any glob oracle), every argument:
* `*_spec` — the result is the entry list the strategy hands on (`writtenOf`) with exactly the
  targeted attribute of exactly the selected entries changed (`map`) resp. exactly the selected
  entries removed (`filter`): order, names, data, sizes, timestamps, permissions, xattrs and
  private chunks of everything else are carried over (frame + target + order in one statement);
* `handed_on_*` — what the strategy hands on is the archive's own entry list: identical under
  `--keep-solid` and whenever no block is encrypted, and otherwise identical up to the stored form
  (codec, cipher, mode) of the file entries of encrypted blocks, which `--unsolid` must write
  again under the block's cipher (the `fix:` for the plaintext leak): same order, names, kinds,
  contents and every attribute;
* `*_idem` — repeating the same edit changes nothing further;
* `keep_solid_structure` — `--keep-solid` preserves the solid blocks, their header options and
  their own unknown chunks.
-/
namespace Pna.C10
open Pna Pna.Cli

theorem delete_spec (s : Strategy) (sel excl : Bytes → Bool) (a : Archive) :
    entriesOf (transform s (deleteF sel excl) a) = (writtenOf s a).filter (fun e => !(sel e.name && !excl e.name)) := by
  rw [entriesOf_transform _ _ (respects_delete sel excl)]
  induction writtenOf s a with
  | nil => rfl
  | cons e l ih =>
    simp only [List.filterMap_cons, List.filter_cons, deleteF]
    cases h : (sel e.name && !excl e.name) <;> simp [ih]

theorem chmod_spec (s : Strategy) (sel : Bytes → Bool) (m : Mode) (a : Archive) :
    entriesOf (transform s (chmodF sel m) a)
      = (writtenOf s a).map (fun e => if sel e.name then { e with mode := e.mode.map m.applyTo } else e) := by
  rw [entriesOf_transform _ _ (respects_chmod sel m), ← filterMap_some_map]
  congr 1; funext e; simp only [chmodF]; split <;> rfl

theorem chown_spec (s : Strategy) (sel : Bytes → Bool) (u g : Option (Nat × Bytes)) (a : Archive) :
    entriesOf (transform s (chownF sel u g) a)
      = (writtenOf s a).map (fun e => if sel e.name then
          { e with owner := e.owner.map fun o =>
              ⟨(u.getD (o.uid, o.uname)).1, (u.getD (o.uid, o.uname)).2, (g.getD (o.gid, o.gname)).1, (g.getD (o.gid, o.gname)).2⟩ }
        else e) := by
  rw [entriesOf_transform _ _ (respects_chown sel u g), ← filterMap_some_map]
  congr 1; funext e; simp only [chownF]; split <;> rfl

theorem xattr_spec (s : Strategy) (sel : Bytes → Bool) (set : Option (Bytes × Bytes)) (rm : Option Bytes) (a : Archive) :
    ∃ g : List (Bytes × Bytes) → List (Bytes × Bytes),
      entriesOf (transform s (xattrF sel set rm) a)
        = (writtenOf s a).map (fun e => if sel e.name then { e with xattrs := g e.xattrs } else e) := by
  refine ⟨fun xs =>
    let m := imCollect xs
    let m := match set with | some (k, v) => imInsert m k v | none => m
    match rm with | some k => m.filter (·.1 != k) | none => m, ?_⟩
  rw [entriesOf_transform _ _ (respects_xattr sel set rm), ← filterMap_some_map]
  congr 1; funext e; simp only [xattrF]; split <;> rfl

theorem strip_spec (s : Strategy) (sel : Bytes → Bool) (o : StripOpts) (a : Archive) :
    (entriesOf (transform s (stripF sel o) a)).map (fun e => (e.name, e.kind, e.data, e.rawSize))
      = (writtenOf s a).map (fun e => (e.name, e.kind, e.data, e.rawSize)) ∧
    (entriesOf (transform s (stripF sel o) a)).length = (entriesOf a).length := by
  rw [entriesOf_transform _ _ (respects_strip sel o)]
  have : (writtenOf s a).filterMap (stripF sel o) = (writtenOf s a).map (fun e => (stripF sel o e).getD e) := by
    rw [← filterMap_some_map]; congr 1; funext e; simp only [stripF]; split <;> rfl
  rw [this]
  constructor
  · rw [List.map_map]; congr 1; funext e; simp only [Function.comp, stripF]; split <;> rfl
  · have := congrArg List.length (written_content s a)
    simpa using this

/-- What the strategy hands on: the archive's entries, … -/
theorem handed_on_keep_solid (a : Archive) : writtenOf .keepSolid a = entriesOf a := rfl

/-- … also under `--unsolid` when no block is encrypted, … -/
theorem handed_on_plain (s : Strategy) (a : Archive)
    (hp : ∀ i ∈ a, match i with | .normal _ => True | .solid h _ _ => h.getD 3 0 = 0) :
    writtenOf s a = entriesOf a := written_plain s a hp

/-- … and in every case the same entries up to the stored form: same order, names, kinds, contents,
    sizes, timestamps, permissions, extended attributes and private chunks. -/
theorem handed_on_content (s : Strategy) (a : Archive) :
    (writtenOf s a).map LEntry.content = (entriesOf a).map LEntry.content := written_content s a

/-- The stored form that replaces the block's: a file entry of an encrypted block comes out under
    the block's codec, cipher and mode — never in the clear. -/
theorem unsolid_keeps_cipher (h : Bytes) (e : LEntry) (he : h.getD 3 0 ≠ 0) (hk : e.kind = 0 ∨ e.kind = 2) :
    (standalone h e).data.take 3 = [h.getD 2 0 + 48, h.getD 3 0 + 48, h.getD 4 0 + 48] := by
  have : h[3]?.getD 0 ≠ 0 := by simpa [List.getD] using he
  rcases hk with hk | hk <;> simp [standalone, this, hk, List.getD]

/-- `--keep-solid`: blocks, header options and block-level unknown chunks are preserved. -/
theorem keep_solid_structure (f : LEntry → Option LEntry) (a : Archive) :
    solidFrames (transform .keepSolid f a) = solidFrames a := keepSolid_frames f a

/-- generic idempotence at entry level -/
theorem transform_idem (s : Strategy) (f : LEntry → Option LEntry) (hf : Respects f)
    (h : ∀ e e', f e = some e' → f e' = some e') (a : Archive) :
    entriesOf (transform s f (transform s f a)) = entriesOf (transform s f a) := by
  cases s
  · rw [entriesOf_transform _ _ hf]
    show List.filterMap f (writtenOf .unsolid (transformUnsolid f a)) = entriesOf (transformUnsolid f a)
    rw [written_unsolid, entriesOf_unsolid f hf, filterMap_idem f h]
  · show entriesOf (transformKeepSolid f (transformKeepSolid f a)) = entriesOf (transformKeepSolid f a)
    rw [entriesOf_keepSolid, entriesOf_keepSolid, filterMap_idem f h]

theorem delete_idem (s : Strategy) (sel excl : Bytes → Bool) (a : Archive) :
    entriesOf (transform s (deleteF sel excl) (transform s (deleteF sel excl) a)) = entriesOf (transform s (deleteF sel excl) a) := by
  apply transform_idem _ _ (respects_delete sel excl)
  intro e e' h
  simp only [deleteF] at h ⊢
  split at h
  · simp at h
  · simp only [Option.some.injEq] at h; subst h; rename_i hc; simp [hc]

theorem chmod_apply_idem (m : Mode) (x : Nat) : m.applyTo (m.applyTo x) = m.applyTo x := applyTo_idem m x

theorem chmod_idem (s : Strategy) (sel : Bytes → Bool) (m : Mode) (a : Archive) :
    entriesOf (transform s (chmodF sel m) (transform s (chmodF sel m) a)) = entriesOf (transform s (chmodF sel m) a) := by
  apply transform_idem _ _ (respects_chmod sel m)
  intro e e' h
  simp only [chmodF] at h ⊢
  split at h
  · rename_i hs
    simp only [Option.some.injEq] at h; subst h
    simp only [hs, ite_true]
    congr 2
    cases e.mode with
    | none => rfl
    | some x => simp [applyTo_idem]
  · rename_i hs
    simp only [Option.some.injEq] at h; subst h; simp [hs]

theorem strip_idem (s : Strategy) (sel : Bytes → Bool) (o : StripOpts) (a : Archive) :
    entriesOf (transform s (stripF sel o) (transform s (stripF sel o) a)) = entriesOf (transform s (stripF sel o) a) := by
  apply transform_idem _ _ (respects_strip sel o)
  intro e e' h
  by_cases hs : sel e.name = true
  · simp only [stripF, hs, Bool.not_true, Bool.false_eq_true, if_false, Option.some.injEq] at h ⊢
    subst h
    simp only [hs, Bool.not_true, Bool.false_eq_true, if_false, List.filter_filter, Bool.and_self]
    cases o.keepPermission <;> cases o.keepTimestamp <;> cases o.keepXattr <;> rfl
  · have hs2 : sel e.name = false := by simpa using hs
    simp only [stripF, hs2, Bool.not_false, if_true, Option.some.injEq] at h ⊢
    subst h
    simp only [hs2, Bool.not_false, if_true]

/-- **strip touches only what the command line names**: an entry the patterns do not select is handed on as it is. -/
theorem strip_unselected_untouched (sel : Bytes → Bool) (o : StripOpts) (e : LEntry) (h : sel e.name = false) :
    stripF sel o e = some e := by
  simp [stripF, h]

-- non-vacuity: chmod g-w on one selected and one unselected entry
example : entriesOf (transform .unsolid (chmodF (fun n => n == [97]) (.minus 2 2))
    [.normal { name := [97], kind := 0, data := [], mode := some 0o664 }, .solid [0] [] [{ name := [98], kind := 0, data := [], mode := some 0o664 }]])
  = [{ name := [97], kind := 0, data := [], mode := some 0o644 }, { name := [98], kind := 0, data := [], mode := some 0o664 }] := by
  decide +kernel

-- non-vacuity of the stored-form clause: a file and a symbolic link of an AES/CTR block come out as AES/CTR, their content
-- digests unchanged; a directory has nothing to hide and stays as it is
example : entriesOf (transform .unsolid (chmodF (fun _ => false) (.num 0))
    [.solid [0, 13, 4, 1, 1] [] [{ name := [98], kind := 0, data := [48, 48, 48, 7, 7] }, { name := [99], kind := 2, data := [48, 48, 48, 9] },
      { name := [100], kind := 1, data := [48, 48, 48] }]])
  = [{ name := [98], kind := 0, data := [52, 49, 49, 7, 7] }, { name := [99], kind := 2, data := [52, 49, 49, 9] },
     { name := [100], kind := 1, data := [48, 48, 48] }] := by
  decide +kernel

end Pna.C10
