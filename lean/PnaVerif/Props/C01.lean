import PnaVerif.Lemmas.Flatten
import PnaVerif.Lemmas.Ctr
import PnaVerif.Lemmas.CbcWriter
import PnaVerif.Lemmas.CbcReader
import PnaVerif.Model.Pipeline
/-!
# C01 — the library round trip is lossless for every writer, codec and cipher configuration

Data path.  For every block cipher that is a permutation on 16-byte blocks (`BlockPerm.Lawful`;
AES-256 and Camellia-256 are instances), every codec obeying the round-trip law
(`Compressor.Lawful`; store/deflate/zstd/xz), every key, every 16-byte IV, **every partition of
the payload into `write` calls** and **every schedule of `read` buffer sizes**:

* `cbc_writer_partition_independent` / `ctr_writer_partition_independent` — what is written
  depends only on the concatenation of the writes;
* `cbc_reader_schedule_independent` / `flatten_reader_schedule_independent` — what is read does
  not depend on the buffer sizes, for *any* stored byte string (valid or not);
* `roundtrip_builder` / `roundtrip_stream` — reading the data an `EntryBuilder`/
  `SolidEntryBuilder` (sink `FlattenWriter`) or `Archive::write_file`/`SolidArchive`
  (sink `ChunkStreamWriter`) produced gives back exactly the bytes written.

Metadata path: `Props/C15.lean` (every codec is an inverse pair) and `Props/C13Entry.lean`
(`parseN (serN e) = e`).  The state machines in these theorems are the ones the `cipher-sm`
family runs against the repository's generic reader/writer code instantiated with a toy cipher.
-/
namespace Pna.C01
open Pna

/-- CBC writer: the inner writes are the CBC encryption of the padded concatenation, one block
    per inner write, whatever the slicing (no assumption on the cipher). -/
theorem cbc_writer_partition_independent (P : BlockPerm) (k iv : Bytes) (ws₁ ws₂ : List Bytes)
    (h : ws₁.flatten = ws₂.flatten) : cbcWriterRun P k iv ws₁ = cbcWriterRun P k iv ws₂ :=
  cbcWriterRun_partition_independent P k iv ws₁ ws₂ h

theorem cbc_writer_is_cbc (P : BlockPerm) (k iv : Bytes) (ws : List Bytes) :
    (cbcWriterRun P k iv ws).flatten = cbcEncrypt P k iv ws.flatten := cbcWriterRun_flatten P k iv ws

theorem ctr_writer_partition_independent (P : BlockPerm) (k iv : Bytes) (ws₁ ws₂ : List Bytes)
    (h : ws₁.flatten = ws₂.flatten) :
    (ctrWriterRun P k iv 0 ws₁).flatten = (ctrWriterRun P k iv 0 ws₂).flatten := by
  rw [ctrWriterRun_flatten, ctrWriterRun_flatten, h]

/-- CBC reader: for every stored ciphertext (valid, truncated, corrupt) and every schedule of
    positive buffer sizes, a completed `read_to_end` returns the reference decryption —
    plaintext or error kind. -/
theorem cbc_reader_schedule_independent (P : BlockPerm) (hP : P.Lawful) (k iv ct : Bytes)
    (s₁ s₂ : List Nat) (h₁ : ∀ n ∈ s₁, 0 < n) (h₂ : ∀ n ∈ s₂, 0 < n) (x₁ x₂ : Outcome Bytes)
    (r₁ : cbcReadAll P k iv ct s₁ = some x₁) (r₂ : cbcReadAll P k iv ct s₂ = some x₂) : x₁ = x₂ := by
  rw [cbcReadAll_sound P k iv ct (hP.lenD k) s₁ h₁ x₁ r₁, cbcReadAll_sound P k iv ct (hP.lenD k) s₂ h₂ x₂ r₂]

theorem cbc_reader_completes (P : BlockPerm) (hP : P.Lawful) (k iv ct : Bytes) (sched : List Nat)
    (hpos : ∀ n ∈ sched, 0 < n) (hlen : ct.length + 1 < sched.length) :
    cbcReadAll P k iv ct sched = some (cbcDecrypt P k iv ct) := by
  cases h : cbcReadAll P k iv ct sched with
  | none => exact absurd h (cbcReadAll_complete P k iv ct (hP.lenD k) sched hpos hlen)
  | some x => rw [cbcReadAll_sound P k iv ct (hP.lenD k) sched hpos x h]

/-- FlattenReader: `read_to_end` returns the concatenation of the data chunks for every schedule. -/
theorem flatten_reader_schedule_independent (slices : List Bytes) (sched : List Nat)
    (hpos : ∀ n ∈ sched, 0 < n) (hlen : slices.flatten.length < sched.length) :
    FlatR.readToEnd ⟨slices⟩ [] sched = some slices.flatten := by
  simpa using FlatR.readToEnd_complete ⟨slices⟩ [] sched hpos hlen

/-- FlattenWriter: stored slices concatenate to the bytes written, whatever the slicing. -/
theorem flatten_writer_lossless (ws : List Bytes) : (flattenWriter maxChunkData ws).flatten = ws.flatten :=
  flattenWriter_flatten maxChunkData (by decide) ws

theorem take_iv (iv rest : Bytes) (h : iv.length = 16) : (iv ++ rest).take 16 = iv ∧ (iv ++ rest).drop 16 = rest :=
  ⟨take_app iv rest h, drop_app iv rest h⟩

/-- `readData` on an encrypted entry whose stored slices concatenate to `iv ++ ct`. -/
theorem readData_enc (P : BlockPerm) (C : Compressor) (sel : CipherSel) (key : Bytes) (slices : List Bytes)
    (iv ct : Bytes) (hsel : sel ≠ .none) (hf : slices.flatten = iv ++ ct) (hiv : iv.length = 16) :
    readData P C sel key slices =
      (match decryptStream P sel key iv ct with
       | .ok plain => C.decomp plain
       | .error e => .error e
       | .panic s => .panic s) := by
  have hl : ¬ slices.flatten.length < 16 := by rw [hf]; simp [hiv]
  have ht : slices.flatten.take 16 = iv := by rw [hf]; exact take_app iv ct hiv
  have hd : slices.flatten.drop 16 = ct := by rw [hf]; exact drop_app iv ct hiv
  cases sel with
  | none => exact absurd rfl hsel
  | cbc =>
    simp only [readData, if_neg hl, ht, hd]
    cases decryptStream P .cbc key iv ct <;> rfl
  | ctr =>
    simp only [readData, if_neg hl, ht, hd]
    cases decryptStream P .ctr key iv ct <;> rfl

theorem decrypt_encrypt (P : BlockPerm) (hP : P.Lawful) (sel : CipherSel) (key iv : Bytes) (hiv : iv.length = 16)
    (xs : List Bytes) : decryptStream P sel key iv (cipherWrites P sel key iv xs).flatten = .ok xs.flatten := by
  cases sel with
  | none => rfl
  | cbc =>
    simp only [decryptStream, cipherWrites]
    rw [cbcWriterRun_flatten, cbcDecrypt_cbcEncrypt P hP key iv _ hiv]
  | ctr =>
    simp only [decryptStream, cipherWrites]
    rw [ctrWriterRun_flatten, ctrApply_involutive]

/-- **Round trip through the builder pipeline** (`EntryBuilder`, `SolidEntryBuilder`). -/
theorem roundtrip_builder (P : BlockPerm) (hP : P.Lawful) (C : Compressor) (hC : C.Lawful)
    (sel : CipherSel) (key iv : Bytes) (hiv : iv.length = 16) (ws : List Bytes) :
    readData P C sel key (buildData P C sel key iv ws) = .ok ws.flatten := by
  by_cases hsel : sel = .none
  · subst hsel
    simp only [readData, buildData, cipherWrites, flatten_writer_lossless]
    exact hC ws
  · have hf : (buildData P C sel key iv ws).flatten = iv ++ (cipherWrites P sel key iv (C.comp ws)).flatten := by
      cases sel with
      | none => exact absurd rfl hsel
      | cbc => simp only [buildData, List.flatten_cons, flatten_writer_lossless]
      | ctr => simp only [buildData, List.flatten_cons, flatten_writer_lossless]
    rw [readData_enc P C sel key _ iv _ hsel hf hiv, decrypt_encrypt P hP sel key iv hiv]
    exact hC ws

/-- **Round trip through the streaming pipeline** (`Archive::write_file`, `SolidArchive`): one
    data chunk per inner write, IV as its own chunk — after the `fix:` that finishes the
    compressor and the cipher (before it, the model's `finish` was never run). -/
theorem roundtrip_stream (P : BlockPerm) (hP : P.Lawful) (C : Compressor) (hC : C.Lawful)
    (sel : CipherSel) (key iv : Bytes) (hiv : iv.length = 16) (ws : List Bytes) :
    readData P C sel key (streamData P C sel key iv ws) = .ok ws.flatten := by
  by_cases hsel : sel = .none
  · subst hsel
    simp only [readData, streamData, cipherWrites]
    exact hC ws
  · have hf : (streamData P C sel key iv ws).flatten = iv ++ (cipherWrites P sel key iv (C.comp ws)).flatten := by
      cases sel with
      | none => exact absurd rfl hsel
      | cbc => simp only [streamData, List.flatten_cons]
      | ctr => simp only [streamData, List.flatten_cons]
    rw [readData_enc P C sel key _ iv _ hsel hf hiv, decrypt_encrypt P hP sel key iv hiv]
    exact hC ws

/-- Re-cutting the stored data (C03): `readData` depends only on the concatenation. -/
theorem readData_recut (P : BlockPerm) (C : Compressor) (sel : CipherSel) (key : Bytes) (s₁ s₂ : List Bytes)
    (h : s₁.flatten = s₂.flatten) : readData P C sel key s₁ = readData P C sel key s₂ := by
  simp only [readData, h]

/-- End-to-end with the reader state machine: writing with any partition and reading with any
    long-enough schedule of positive buffer sizes gives the compressed stream back. -/
theorem cbc_end_to_end (P : BlockPerm) (hP : P.Lawful) (k iv : Bytes) (hiv : iv.length = 16)
    (ws : List Bytes) (sched : List Nat) (hpos : ∀ n ∈ sched, 0 < n)
    (hlen : (cbcWriterRun P k iv ws).flatten.length + 1 < sched.length) :
    cbcReadAll P k iv (cbcWriterRun P k iv ws).flatten sched = some (.ok ws.flatten) := by
  rw [cbcWriterRun_flatten] at hlen ⊢
  exact cbcReadAll_cbcEncrypt P hP k iv ws.flatten hiv sched hpos hlen

/-- The store "codec" is lawful; the hypotheses above are satisfiable. -/
theorem store_lawful : storeCompressor.Lawful := fun _ => rfl

example : (flattenWriter 4 [[1,2,3,4,5],[],[6]]) = [[1,2,3,4],[5],[6]] := by decide +kernel
example : FlatR.readToEnd ⟨[[1,2,3],[],[4]]⟩ [] [2,2,2,2,2] = some [1,2,3,4] := by decide +kernel

end Pna.C01
