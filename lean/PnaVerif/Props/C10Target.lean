import PnaVerif.Lemmas.PartName
/-!
# C10 / C11 — an editing command writes its result to the archive it was given
`chmod`, `chown`, `xattr`, `acl`, `strip`, `delete`, `migrate` and `update` write to `archive.remove_part()`
(so that a command given the first part of a part set leaves one part-less archive).  The result path must be
the archive itself whenever its name carries no `.partN` marker.
* `removeExt_unmarked`, `removeExt_no_ext` — for EVERY file name whose extension and whose stem's extension are
  not `part` + decimal digits, the name is returned unchanged;
* `removePart_unmarked` — the same on paths `dir/name`;
* `legacy_*` — the code before the `fix:` tested `starts_with("part")`: `x.partial.pna` was rewritten as
  `x.pna` (an unrelated file was replaced, the archive itself left stale); kernel-checked witnesses, reproduced on
  the binary before the fix.
-/
namespace Pna.C10T
open Pna.Cli.PartName

theorem removeExt_no_ext (name stem : Str) (h : splitExt name = some (stem, none)) : removeExt name = some name := by
  simp only [removeExt, h]

theorem removeExt_unmarked (name stem e : Str) (h : splitExt name = some (stem, some e)) (he : isPartMarker e = false)
    (hs : ∀ st2 may, splitExt stem = some (st2, some may) → isPartMarker may = false) : removeExt name = some name := by
  simp only [removeExt, h, he, Bool.false_eq_true, if_false]
  cases hst : splitExt stem with
  | none => rfl
  | some p =>
    obtain ⟨st2, x⟩ := p
    cases x with
    | none => rfl
    | some may => simp only [hs st2 may hst, Bool.false_eq_true, if_false]

/-- on paths: the directory part is kept, the name is unchanged -/
theorem removePart_unmarked (dir name stem e : Str) (hd : DirPrefix dir) (hn : '/' ∉ name)
    (h : splitExt name = some (stem, some e)) (he : isPartMarker e = false)
    (hs : ∀ st2 may, splitExt stem = some (st2, some may) → isPartMarker may = false) :
    removePart (dir ++ name) = some (dir ++ name) := by
  rw [removePart_append dir name hd hn, removeExt_unmarked name stem e h he hs]; rfl

/-- the transcription of `remove_part_n` before the fix -/
def removeExtLegacy (name : Str) : Option Str :=
  match splitExt name with
  | none => none
  | some (_, none) => some name
  | some (stem, some e) =>
    if partPrefix.isPrefixOf e then some stem
    else match splitExt stem with
      | some (_, some may) => if partPrefix.isPrefixOf may then some (withExtension stem e) else some name
      | _ => some name

theorem legacy_partial_misnamed : removeExtLegacy "x.partial.pna".toList = some "x.pna".toList := by decide +kernel
theorem legacy_partly_truncated : removeExtLegacy "notes.partly".toList = some "notes".toList := by decide +kernel

example : removeExt "x.partial.pna".toList = some "x.partial.pna".toList := by decide +kernel
example : removePart "dir/notes.partly".toList = some "dir/notes.partly".toList := by decide +kernel
example : removePart "dir/a.part12.pna".toList = some "dir/a.pna".toList := by decide +kernel
example : removePart "dir/x.partial.pna".toList = some "dir/x.partial.pna".toList :=
  removePart_unmarked "dir/".toList "x.partial.pna".toList "x.partial".toList "pna".toList (by decide) (by decide)
    (by decide +kernel) (by decide) (by
      intro st2 may h
      have : splitExt "x.partial".toList = some ("x".toList, some "partial".toList) := by decide +kernel
      rw [this] at h
      cases h
      decide)

end Pna.C10T
