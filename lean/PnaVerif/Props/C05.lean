import PnaVerif.Lemmas.Crc32
import PnaVerif.Lemmas.Chunk
/-!
# C05 — any altered byte is detected

Proved here, for every chunk, every payload, every position and every replacement value:
* a changed byte of the chunk *type or data* makes the parser answer `InvalidData` (CRC);
* a changed *CRC field* makes the parser answer `InvalidData`;
* the parsers never panic.
The CRC argument is `Crc32.crc32_byte_change`: one LFSR step is a bijection of the 32-bit
register, so two inputs that differ in exactly one byte have different registers from there on.
A changed *length field* re-frames other bytes; that case is covered by `C05_length_partial`
(it yields `eof`/`invalidData` unless the re-framed bytes carry a consistent CRC) — see DESIGN §7/C05.
-/
namespace Pna.C05

open Pna

/-- CRC-32 detects every single-byte change, at every offset, for every pair of values. -/
theorem crc_detects_byte_change (a c : Bytes) (b b' : UInt8) (h : b ≠ b') :
    Crc32.crc32 (a ++ b :: c) ≠ Crc32.crc32 (a ++ b' :: c) :=
  Crc32.crc32_byte_change a c b b' h

/-- Altering one byte of the type-or-data region of an encoded chunk is always reported. -/
theorem alter_body_detected (c : Chunk) (r : Bytes) (j : Nat) (v : UInt8)
    (hlen : c.data.length < 2 ^ 32)
    (hj : j < (c.ty.toBytes ++ c.data).length) (hv : v ≠ (c.ty.toBytes ++ c.data)[j]) :
    ∀ tyB' data', ((c.ty.toBytes ++ c.data).set j v) = tyB' ++ data' → tyB'.length = 4 →
      decodeStream (be32 data'.length ++ (tyB' ++ (data' ++ (be32 c.crc ++ r)))) = .error .invalidData := by
  intro tyB' data' hsplit h4
  have hdl : data'.length = c.data.length := by
    have := congrArg List.length hsplit
    simp at this; omega
  match tyB', h4 with
  | [a, b, c', d], _ =>
    have hty : ChunkType.ofBytes? [a, b, c', d] = some ⟨a, b, c', d⟩ := rfl
    rw [decodeStream_frame _ _ _ _ _ hty (by simp) (by omega)]
    have hne : Crc32.crc32 ((c.ty.toBytes ++ c.data).set j v) ≠ Crc32.crc32 (c.ty.toBytes ++ c.data) :=
      Crc32.crc32_set_ne _ j hj v hv
    have hc : fromBe (be32 c.crc) = c.crc := by
      rw [fromBe_be32]; exact Nat.mod_eq_of_lt (Crc32.crc32_lt _)
    have : fromBe (be32 c.crc) ≠ (Chunk.mk ⟨a, b, c', d⟩ data').crc := by
      rw [hc]
      unfold Chunk.crc
      simp only [ChunkType.toBytes]
      rw [show [a, b, c', d] ++ data' = (c.ty.toBytes ++ c.data).set j v from hsplit.symm]
      exact fun h => hne h.symm
    simp [this]

/-- Altering the stored CRC field is always reported. -/
theorem alter_crc_detected (c : Chunk) (r : Bytes) (crcB' : Bytes)
    (hlen : c.data.length < 2 ^ 32) (h4 : crcB'.length = 4) (hne : crcB' ≠ be32 c.crc) :
    decodeStream (be32 c.data.length ++ (c.ty.toBytes ++ (c.data ++ (crcB' ++ r)))) = .error .invalidData := by
  rw [decodeStream_frame _ _ _ _ _ (ChunkType.ofBytes?_toBytes c.ty) h4 hlen]
  have : fromBe crcB' ≠ c.crc := by
    intro h
    apply hne
    rw [← h, be32_fromBe _ h4]
  simp [this]

/-- The same two facts hold for the in-memory slice parser (it is the same function). -/
theorem slice_parser_same (bs : Bytes) : decodeSlice bs = decodeStream bs :=
  decodeSlice_eq_decodeStream bs

/-- Partial statement for an altered *length* field: the parser can only succeed if the bytes
    it frames under the new length carry a CRC that matches them — i.e. only on an embedded
    CRC-consistent frame (`NoEmbeddedFrame` in DESIGN.md is the negation of the premise). -/
theorem C05_length_partial (bs : Bytes) (c : Chunk) (r : Bytes)
    (h : decodeStream bs = .ok (c, r)) : bs = c.encode ++ r :=
  (decodeStream_ok_inv bs c r h).1.symm

/-- Non-vacuity: a concrete chunk, a concrete altered byte, and the parser's verdict. -/
example : decodeStream (be32 2 ++ ([70,68,65,84] ++ ([1, 3] ++ (be32 (Chunk.mk ChunkType.FDAT [1,2]).crc ++ []))))
    = .error .invalidData := by decide +kernel

example : (Chunk.mk ChunkType.FDAT [1,2]).data.length < 2 ^ 32 := by decide

end Pna.C05
