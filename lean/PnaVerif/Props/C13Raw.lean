import PnaVerif.Lemmas.RawCopy
/-!
# C13 (raw copy) — what a raw copy can lose, exactly

`raw_entries()` hands out the chunks between two end-of-entry chunks (FEND/SEND) as one raw item; ANXT sets a flag
and is part of no item; at AEND the chunks collected since the last FEND/SEND stay in the carry buffer.  A raw copy
(`pna concat`, `pna split`, `add_entry(raw)`) writes exactly the raw items.

* `groupItems_partition`, `groupItems_partition_aend`   (A1) grouping never drops or reorders a chunk: every chunk
      that is not ANXT is in an item or in the carry buffer, in the order read; nothing after AEND is looked at;
* `raw_copy_loses_exactly_the_carry`   (A2) `pna concat` of ONE archive holding ANY chunks (no AEND/ANXT among
      them) succeeds and writes the items; items ++ carry = the chunks read, the carry being the chunks after the
      last FEND/SEND.  `raw_copy_bytes`: the output is byte for byte the input archive (number 0) without that tail;
* `raw_copy_keeps_closed_body`   (A2 i) when the chunks end with FEND/SEND (or there are none) the copy holds every
      chunk, in order, whatever the chunk types in between;
* `raw_copy_drops_archive_level_chunk`   (A2 ii) kernel-checked witness of the known finding: a private chunk after
      the last entry is dropped by the copy;
* `raw_copy_keeps_chunk_between_entries`   (A3) a chunk BETWEEN two entries is kept: it becomes the first chunk of
      the next raw item.

The hypothesis "no AHED among the chunks" of the informal statement is not needed: nothing after the first chunk
looks at AHED.
-/
namespace Pna.C13R
open Pna

-- ================================================================ (A1)

/-- **(A1)** For a chunk list without AEND, any carry buffer and any flag: the end flag stays down, and the items,
    flattened, followed by the open item are the carry buffer followed by the input without its ANXT chunks.
    Nothing is dropped, nothing reordered: every chunk is in an item or in the carry. -/
theorem groupItems_partition (cs : List Chunk) (hno : ∀ c ∈ cs, c.ty ≠ ChunkType.AEND) (cur : List Chunk)
    (nx : Bool) :
    let (items, left, _, ended) := groupItems cur nx cs
    ended = false ∧ items.flatten ++ left = cur ++ cs.filter (fun c => c.ty ≠ ChunkType.ANXT) := by
  have h := groupItems_partition_proj cs hno cur nx
  generalize groupItems cur nx cs = r at h
  obtain ⟨items, left, n, e⟩ := r
  exact h

/-- **(A1, with AEND)** `cs = pre ++ [aend] ++ post`, no AEND in `pre`: the end flag is up, the items and the open
    item hold exactly the carry buffer and the non-ANXT chunks of `pre`, and the result does not depend on `post`. -/
theorem groupItems_partition_aend (pre post : List Chunk) (aend : Chunk) (ha : aend.ty = ChunkType.AEND)
    (hpre : ∀ c ∈ pre, c.ty ≠ ChunkType.AEND) (cur : List Chunk) (nx : Bool) :
    (let (items, left, _, ended) := groupItems cur nx (pre ++ [aend] ++ post)
     ended = true ∧ items.flatten ++ left = cur ++ pre.filter (fun c => c.ty ≠ ChunkType.ANXT)) ∧
    ∀ post2, groupItems cur nx (pre ++ [aend] ++ post) = groupItems cur nx (pre ++ [aend] ++ post2) := by
  refine ⟨?_, fun post2 => ?_⟩
  · rw [groupItems_upto_aend pre aend post hpre ha cur nx]
    exact ⟨rfl, (groupItems_partition_proj pre hpre cur nx).2⟩
  · rw [groupItems_upto_aend pre aend post hpre ha, groupItems_upto_aend pre aend post2 hpre ha]

-- non-vacuity (A1): a carry buffer, an ANXT chunk in the middle, an unknown chunk type, an open tail
def myTy : ChunkType := ⟨109, 121, 84, 121⟩

def exCs : List Chunk :=
  [⟨ChunkType.FDAT, [1]⟩, ⟨ChunkType.FEND, []⟩, ⟨ChunkType.ANXT, []⟩, ⟨myTy, [7]⟩, ⟨ChunkType.SHED, [0]⟩,
   ⟨ChunkType.SEND, []⟩, ⟨myTy, [8]⟩]

example : ∀ c ∈ exCs, c.ty ≠ ChunkType.AEND := by decide
example := groupItems_partition exCs (by decide) [⟨ChunkType.FHED, [0]⟩] false
example : groupItems [⟨ChunkType.FHED, [0]⟩] false exCs
    = ([[⟨ChunkType.FHED, [0]⟩, ⟨ChunkType.FDAT, [1]⟩, ⟨ChunkType.FEND, []⟩],
        [⟨myTy, [7]⟩, ⟨ChunkType.SHED, [0]⟩, ⟨ChunkType.SEND, []⟩]], [⟨myTy, [8]⟩], true, false) := by decide
example := groupItems_partition_aend exCs [⟨ChunkType.FHED, [9]⟩, ⟨ChunkType.FEND, []⟩] ⟨ChunkType.AEND, []⟩ rfl
  (by decide) [] false
example : groupItems [] false (exCs ++ [⟨ChunkType.AEND, []⟩] ++ [⟨ChunkType.FHED, [9]⟩, ⟨ChunkType.FEND, []⟩])
    = ([[⟨ChunkType.FDAT, [1]⟩, ⟨ChunkType.FEND, []⟩],
        [⟨myTy, [7]⟩, ⟨ChunkType.SHED, [0]⟩, ⟨ChunkType.SEND, []⟩]], [⟨myTy, [8]⟩], true, true) := by decide

-- ================================================================ (A2)

/-- what `write_header`, raw `add_entry` …, `finalize` write is the archive number 0 holding the items' chunks -/
theorem writeRaw_eq_archiveBytes (items : List (List Chunk)) :
    Cli.writeRaw items = archiveBytes 0 items.flatten := by
  simp [Cli.writeRaw, archiveBytes, encodeChunks, List.flatMap_append, List.append_assoc]

/-- `pna concat` of one such archive: the grouped items -/
theorem concat_archiveBytes (n : Nat) (hn : n < 2 ^ 32) (body : List Chunk) (hfit : ChunksFit body)
    (hno : NoPartMarkers body) :
    Cli.concat [[archiveBytes n body]] = .ok (Cli.writeRaw (groupItems [] false body).1) := by
  unfold Cli.concat
  rw [Cli.concatItems, rawAcross_archiveBytes n hn body hfit hno []]
  simp [Cli.concatItems]

/-- **(A2)** One well-tokenising archive — signature, AHED (number `n < 2^32`), chunks `body` of ANY types that fit
    the length field and hold no AEND/ANXT, AEND.  `pna concat` succeeds and writes raw items with
    `items.flatten ++ carry = body`, where `carry = openTail body` are the chunks after the last FEND/SEND of `body`:
    the copy loses exactly the carry.  Every item is closed by FEND/SEND and holds no other FEND/SEND (so the items
    are determined by `items.flatten = closedPart body`). -/
theorem raw_copy_loses_exactly_the_carry (n : Nat) (hn : n < 2 ^ 32) (body : List Chunk) (hfit : ChunksFit body)
    (hno : NoPartMarkers body) :
    ∃ items : List (List Chunk),
      Cli.concat [[archiveBytes n body]] = .ok (Cli.writeRaw items) ∧
      items.flatten ++ openTail body = body ∧
      items.flatten = closedPart body ∧
      (∀ it ∈ items, ∃ b e, it = b ++ [e] ∧ (e.ty = ChunkType.FEND ∨ e.ty = ChunkType.SEND) ∧
        ∀ c ∈ b, ¬ (c.ty = ChunkType.FEND ∨ c.ty = ChunkType.SEND)) := by
  obtain ⟨_, h2⟩ := groupItems_carry_openTail body hno false
  refine ⟨(groupItems [] false body).1, concat_archiveBytes n hn body hfit hno, ?_, h2,
    groupItems_items_closed body [] false (fun _ h => absurd h List.not_mem_nil)⟩
  rw [h2, closedPart_append_openTail]

/-- (A2), for any way of writing `body` as `pre ++ tail` with `tail` free of FEND/SEND and `pre` empty or closed by
    FEND/SEND (the specification of "the chunks after the last FEND/SEND", without `openTail`): the copy holds
    exactly `pre`. -/
theorem raw_copy_loses_exactly_the_carry_spec (n : Nat) (hn : n < 2 ^ 32) (pre tail : List Chunk)
    (hfit : ChunksFit (pre ++ tail)) (hno : NoPartMarkers (pre ++ tail))
    (ht : ∀ c ∈ tail, ¬ (c.ty = ChunkType.FEND ∨ c.ty = ChunkType.SEND))
    (hp : pre = [] ∨ ∃ p e, pre = p ++ [e] ∧ (e.ty = ChunkType.FEND ∨ e.ty = ChunkType.SEND)) :
    ∃ items : List (List Chunk),
      Cli.concat [[archiveBytes n (pre ++ tail)]] = .ok (Cli.writeRaw items) ∧ items.flatten = pre := by
  exact ⟨_, concat_archiveBytes n hn _ hfit hno, (groupItems_carry_spec pre tail hno ht hp false).2⟩

/-- (A2) at byte level: the output of the copy is the input archive, renumbered 0, without its open tail. -/
theorem raw_copy_bytes (n : Nat) (hn : n < 2 ^ 32) (body : List Chunk) (hfit : ChunksFit body)
    (hno : NoPartMarkers body) :
    Cli.concat [[archiveBytes n body]] = .ok (archiveBytes 0 (closedPart body)) := by
  rw [concat_archiveBytes n hn body hfit hno, writeRaw_eq_archiveBytes,
    (groupItems_carry_openTail body hno false).2]

-- ---------------------------------------------------------------- (A2)(i)

/-- a chunk list that is empty or ends with FEND/SEND has no open tail -/
theorem closedPart_of_closed (body : List Chunk)
    (hb : body = [] ∨ ∃ p e, body = p ++ [e] ∧ (e.ty = ChunkType.FEND ∨ e.ty = ChunkType.SEND)) :
    closedPart body = body ∧ openTail body = [] := by
  have h := openTail_unique body [] (fun _ h => absurd h List.not_mem_nil) hb
  rw [List.append_nil] at h
  exact ⟨h.2, h.1⟩

/-- **(A2)(i)** If `body` is empty or ends with FEND/SEND, the copy holds every chunk of `body`, in order: the output
    is byte for byte the archive number 0 holding `body`, and tokenising it gives AHED, the chunks of `body`, AEND.
    Byte-exact pass-through for ANY chunk types in between, understood or not. -/
theorem raw_copy_keeps_closed_body (n : Nat) (hn : n < 2 ^ 32) (body : List Chunk) (hfit : ChunksFit body)
    (hno : NoPartMarkers body)
    (hb : body = [] ∨ ∃ p e, body = p ++ [e] ∧ (e.ty = ChunkType.FEND ∨ e.ty = ChunkType.SEND)) :
    Cli.concat [[archiveBytes n body]] = .ok (archiveBytes 0 body) ∧
    chunksStream (archiveBytes 0 body)
      = (⟨ChunkType.AHED, encAHED ⟨0, 0, 0⟩⟩ :: (body ++ [⟨ChunkType.AEND, []⟩]), .ok ()) := by
  refine ⟨?_, chunksStream_archiveBytes 0 body hfit (fun c hc => (hno c hc).2)⟩
  rw [raw_copy_bytes n hn body hfit hno, (closedPart_of_closed body hb).1]

-- ---------------------------------------------------------------- (A2)(ii): the known finding

/-- a file entry, then a private chunk "archive-level" after the last entry -/
def wBody : List Chunk :=
  [⟨ChunkType.FHED, [0, 0, 0, 0, 0, 0, 97]⟩, ⟨ChunkType.FDAT, [104, 101, 108, 108, 111]⟩, ⟨ChunkType.FEND, []⟩,
   ⟨myTy, [97, 114, 99, 104, 105, 118, 101, 45, 108, 101, 118, 101, 108]⟩]

theorem wBody_fit : ChunksFit wBody := by unfold ChunksFit; decide
theorem wBody_clean : NoPartMarkers wBody := by unfold NoPartMarkers; decide

/-- **(A2)(ii)** Kernel-checked witness of the known finding: `pna concat` on the archive
    `FHED, FDAT, FEND, myTy "archive-level"` succeeds; the input holds the `myTy` chunk, the output holds none — it
    is the archive of the first three chunks. -/
theorem raw_copy_drops_archive_level_chunk :
    Cli.concat [[archiveBytes 0 wBody]] = .ok (archiveBytes 0 (wBody.take 3)) ∧
    (chunksStream (archiveBytes 0 wBody)).2 = .ok () ∧
    (∃ c ∈ (chunksStream (archiveBytes 0 wBody)).1, c.ty = myTy) ∧
    (chunksStream (archiveBytes 0 (wBody.take 3))).2 = .ok () ∧
    (∀ c ∈ (chunksStream (archiveBytes 0 (wBody.take 3))).1, c.ty ≠ myTy) ∧
    (archiveBytes 0 wBody).length = 113 ∧ (archiveBytes 0 (wBody.take 3)).length = 88 := by
  decide +kernel

-- the theorems on the witness: the carry is the private chunk, the copy is the rest
example : openTail wBody = [⟨myTy, [97, 114, 99, 104, 105, 118, 101, 45, 108, 101, 118, 101, 108]⟩] ∧
    closedPart wBody = wBody.take 3 := by decide
example := raw_copy_loses_exactly_the_carry 0 (by decide) wBody wBody_fit wBody_clean
example := raw_copy_bytes 0 (by decide) wBody wBody_fit wBody_clean
example := raw_copy_loses_exactly_the_carry_spec 0 (by decide) (wBody.take 3) (wBody.drop 3) wBody_fit wBody_clean
  (by decide) (Or.inr ⟨wBody.take 2, ⟨ChunkType.FEND, []⟩, rfl, Or.inl rfl⟩)

-- (A2)(i) on a body with unknown chunks before, inside and between entries, part number 5 in the header
def kBody : List Chunk :=
  [⟨myTy, [1]⟩, ⟨ChunkType.FHED, [0, 0, 0, 0, 0, 0, 97]⟩, ⟨myTy, [2]⟩, ⟨ChunkType.FDAT, [104, 105]⟩,
   ⟨ChunkType.FEND, []⟩, ⟨myTy, [3]⟩, ⟨ChunkType.SHED, [0, 0, 0, 0, 0]⟩, ⟨ChunkType.SDAT, [9, 9]⟩,
   ⟨ChunkType.SEND, []⟩]

theorem kBody_fit : ChunksFit kBody := by unfold ChunksFit; decide
theorem kBody_clean : NoPartMarkers kBody := by unfold NoPartMarkers; decide

example := raw_copy_keeps_closed_body 5 (by decide) kBody kBody_fit kBody_clean
  (Or.inr ⟨kBody.take 8, ⟨ChunkType.SEND, []⟩, rfl, Or.inr rfl⟩)
example : Cli.concat [[archiveBytes 5 kBody]] = .ok (archiveBytes 0 kBody) := by decide +kernel

-- the hypothesis "no ANXT in `body`" is needed: with an ANXT chunk the walk asks for a next part file and the command
-- fails with `NotFound`; a chunk list with AEND in it is simply a shorter archive followed by ignored bytes
example : Cli.concat [[archiveBytes 0 (kBody.take 5 ++ [⟨ChunkType.ANXT, []⟩] ++ kBody.drop 5)]] = .error .notFound := by
  decide +kernel
example : Cli.concat [[archiveBytes 0 (kBody.take 5 ++ [⟨ChunkType.AEND, []⟩] ++ kBody.drop 5)]]
    = .ok (archiveBytes 0 (kBody.take 5)) := by decide +kernel

-- ================================================================ (A3)

/-- grouping the chunks of complete items gives the items back -/
theorem groupItems_of_items (items : List (List Chunk)) (hw : ∀ it ∈ items, ItemWF it) :
    (groupItems [] false items.flatten).1 = items := by
  have h1 := groupItems_items items hw false []
  simp only [Bool.false_eq_true, if_false, List.append_nil] at h1
  have h2 := groupItems_upto_aend items.flatten ⟨ChunkType.AEND, []⟩ []
    (fun c hc => by
      obtain ⟨it, hit, hcit⟩ := List.mem_flatten.mp hc
      exact ItemWF_no_AEND (hw it hit) c hcit) rfl [] false
  rw [List.append_nil, List.append_cons, List.append_nil] at h2
  rw [h1] at h2
  exact (congrArg Prod.fst h2).symm

/-- a non-marker chunk put in front of a complete item gives a complete item -/
theorem ItemWF_cons (x : Chunk) (it : List Chunk) (hw : ItemWF it)
    (hx : x.ty ≠ ChunkType.FEND ∧ x.ty ≠ ChunkType.SEND ∧ x.ty ≠ ChunkType.ANXT ∧ x.ty ≠ ChunkType.AEND) :
    ItemWF (x :: it) := by
  obtain ⟨b, l, rfl, hl, hb⟩ := hw
  refine ⟨x :: b, l, rfl, hl, ?_⟩
  intro c hc
  rcases List.mem_cons.mp hc with rfl | hc
  · exact hx
  · exact hb c hc

/-- **(A3)** A chunk `x` (any type but the four structural markers) BETWEEN two entries: complete items `its1`, then
    `x`, then the complete item `it2`, then complete items `its2`.  The raw copy keeps `x`: the output is byte for
    byte the archive number 0 holding all the chunks, and `x` is the first chunk of the raw item that follows it
    (the items written are `its1 ++ [x :: it2] ++ its2`). -/
theorem raw_copy_keeps_chunk_between_entries (n : Nat) (hn : n < 2 ^ 32) (its1 : List (List Chunk)) (x : Chunk)
    (it2 : List Chunk) (its2 : List (List Chunk)) (hw1 : ∀ it ∈ its1, ItemWF it) (hw2 : ItemWF it2)
    (hw3 : ∀ it ∈ its2, ItemWF it)
    (hx : x.ty ≠ ChunkType.FEND ∧ x.ty ≠ ChunkType.SEND ∧ x.ty ≠ ChunkType.ANXT ∧ x.ty ≠ ChunkType.AEND)
    (hfit : ChunksFit (its1.flatten ++ [x] ++ it2 ++ its2.flatten)) :
    Cli.concat [[archiveBytes n (its1.flatten ++ [x] ++ it2 ++ its2.flatten)]]
      = .ok (archiveBytes 0 (its1.flatten ++ [x] ++ it2 ++ its2.flatten)) ∧
    Cli.concat [[archiveBytes n (its1.flatten ++ [x] ++ it2 ++ its2.flatten)]]
      = .ok (Cli.writeRaw (its1 ++ [x :: it2] ++ its2)) ∧
    (groupItems [] false (its1.flatten ++ [x] ++ it2 ++ its2.flatten)).1 = its1 ++ [x :: it2] ++ its2 := by
  have hw : ∀ it ∈ its1 ++ [x :: it2] ++ its2, ItemWF it := by
    intro it hit
    simp only [List.mem_append, List.mem_singleton] at hit
    rcases hit with (hit | rfl) | hit
    · exact hw1 it hit
    · exact ItemWF_cons x it2 hw2 hx
    · exact hw3 it hit
  have hb : its1.flatten ++ [x] ++ it2 ++ its2.flatten = (its1 ++ [x :: it2] ++ its2).flatten := by simp
  have hno : NoPartMarkers (its1 ++ [x :: it2] ++ its2).flatten :=
    NoPartMarkers.flatten (fun it hit => ItemWF_noPartMarkers (hw it hit))
  rw [hb] at hfit ⊢
  have hc := concat_archiveBytes n hn _ hfit hno
  rw [groupItems_of_items _ hw] at hc
  exact ⟨by rw [hc, writeRaw_eq_archiveBytes], hc, groupItems_of_items _ hw⟩

-- non-vacuity (A3): `kBody` is  [myTy 1 :: file entry with a private chunk inside], myTy 3, solid block
theorem kItem1_wf : ItemWF (kBody.take 5) :=
  ⟨kBody.take 4, ⟨ChunkType.FEND, []⟩, rfl, Or.inl rfl, by decide⟩
theorem kItem2_wf : ItemWF (kBody.drop 6) :=
  ⟨(kBody.drop 6).take 2, ⟨ChunkType.SEND, []⟩, rfl, Or.inr rfl, by decide⟩

example := raw_copy_keeps_chunk_between_entries 5 (by decide) [kBody.take 5] ⟨myTy, [3]⟩ (kBody.drop 6) []
  (fun it hit => by rw [List.mem_singleton.mp hit]; exact kItem1_wf) kItem2_wf
  (fun _ h => absurd h List.not_mem_nil) (by decide) (by unfold ChunksFit; decide)
example : [kBody.take 5].flatten ++ [⟨myTy, [3]⟩] ++ kBody.drop 6 ++ ([] : List (List Chunk)).flatten = kBody := by
  decide
example : (groupItems [] false kBody).1 = [kBody.take 5, ⟨myTy, [3]⟩ :: kBody.drop 6] := by decide

end Pna.C13R

#print axioms Pna.C13R.groupItems_partition
#print axioms Pna.C13R.groupItems_partition_aend
#print axioms Pna.C13R.raw_copy_loses_exactly_the_carry
#print axioms Pna.C13R.raw_copy_loses_exactly_the_carry_spec
#print axioms Pna.C13R.raw_copy_bytes
#print axioms Pna.C13R.raw_copy_keeps_closed_body
#print axioms Pna.C13R.raw_copy_drops_archive_level_chunk
#print axioms Pna.C13R.raw_copy_keeps_chunk_between_entries
