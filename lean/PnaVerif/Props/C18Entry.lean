import PnaVerif.Lemmas.Sizes
import PnaVerif.Lemmas.Split
import PnaVerif.Lemmas.Capstone3
import PnaVerif.Props.C18
/-!
# C18 — every reported size is exact (entry level)

On top of the chunk-level floor of Props/C18.lean (`bytes_len` of a chunk = bytes written for it):

* `add_entry_count`              what `Archive::add_entry` returns (sum of `bytes_len` of the entry's chunks)
                                 = number of bytes written for the entry;
* `parsed_compressed_size`       `NormalEntry::try_from(RawEntry)`: the compressed size of a parsed entry is the
                                 total payload of the FDAT chunks before the first FEND;
* `reser_keeps_compressed_size`  re-cutting at `u32::MAX` keeps it, and (`serN_fdat_total_partial`,
                                 `serN_fdat_total_WF`) the FDAT payload total of the written entry equals it;
* `built_raw_size_is_content_length`, `built_raw_size_roundtrip`   the raw size `EntryBuilder::build` records
                                 (`builtMd`) is the length of what a reader decodes, also after write + parse;
* `built_compressed_size`, `built_compressed_size_on_wire`   the compressed size of a built entry is the total
                                 of the stored slices and of the FDAT payloads written.
-/
namespace Pna.C18E
open Pna Pna.Capstone ChunkType

-- ---------------------------------------------------------------- (1) add_entry

/-- **(1)** The count `add_entry` returns (sum of `bytes_len` over the entry's chunks) is the number of bytes
    written for the entry. -/
theorem add_entry_count (e : ReadEntry) : partLen (serEntry e) = (encodeChunks (serEntry e)).length :=
  C18.part_bytes_len (serEntry e)

/-- the same for an arbitrary entry part (`add_entry_part`) -/
theorem add_entry_part_count (cs : List Chunk) : partLen cs = (encodeChunks cs).length :=
  C18.part_bytes_len cs

/-- several entries: the counts add up to the bytes between AHED and the end markers -/
theorem add_entries_count (es : List ReadEntry) :
    ((es.map serEntry).map partLen).sum = (encodeChunks (es.map serEntry).flatten).length := by
  induction es with
  | nil => rfl
  | cons e es ih =>
    rw [List.map_cons, List.map_cons, List.sum_cons, List.flatten_cons, encodeChunks_append,
      List.length_append, ih, add_entry_count]

-- a normal entry with size, PHSF-less, two data slices, and a solid block: 12 bytes framing per chunk
example : partLen (serEntry (.normal (buildNormal plain exA))) = 164 ∧
    (encodeChunks (serEntry (.normal (buildNormal plain exA)))).length = 164 := by decide +kernel
example : partLen (serEntry (.solid ⟨⟨0, 0, 0, 0, 0⟩, none, [[1, 2], [3]], []⟩)) = 56 := by decide +kernel

-- ---------------------------------------------------------------- (2) the parser

/-- **(2)** The compressed size `NormalEntry::try_from(RawEntry)` computes is the total payload of the FDAT
    chunks before the first FEND (where the parser stops). -/
theorem parsed_compressed_size (raw : List Chunk) (e : NormalEntry) (h : parseN raw = .ok e) :
    e.compressedSize
      = (((raw.takeWhile (fun c => c.ty ≠ ChunkType.FEND)).filter (fun c => c.ty = ChunkType.FDAT)).map
          (fun c => c.data.length)).sum := by
  obtain ⟨a, hd, hl, hi, hmaj, hmin, rfl⟩ := parseN_ok h
  have := nLoop_data_sum hl
  simp only [NormalEntry.compressedSize, List.map_reverse, List.sum_reverse]
  rw [this]
  simp [fdatTotal]

/-- a foreign layout: data chunks interleaved with metadata, an FDAT chunk after FEND is not counted -/
def exRaw : List Chunk :=
  [⟨FHED, [0, 0, 0, 0, 0, 0, 97]⟩, ⟨FDAT, [1, 2, 3]⟩, ⟨fSIZ, [5]⟩, ⟨FDAT, []⟩, ⟨FDAT, [4, 5]⟩, ⟨FEND, []⟩,
   ⟨FDAT, [9, 9, 9, 9]⟩]

example : (parseN exRaw).map' (fun e => (e.compressedSize, e.data)) = .ok (5, [[1, 2, 3], [], [4, 5]]) := by
  decide +kernel

-- ---------------------------------------------------------------- (3) writing keeps the size

/-- **(3a)** Re-cutting (what a write/read cycle does to the slices) keeps the compressed size. -/
theorem reser_keeps_compressed_size (e : NormalEntry) : e.recut.compressedSize = e.compressedSize :=
  recut_compressedSize e

/-- The second half of (3) as literally stated (for every entry) is false: `extra` chunks are written verbatim,
    so an FDAT chunk among them (excluded by `NormalEntry.WF`, not by the type) is counted on the wire. -/
example : ¬ ∀ e : NormalEntry, fdatTotal (serN e) = e.compressedSize := by
  intro h
  have := h ⟨⟨0, 0, 0, 0, 0, 0, []⟩, none, [⟨FDAT, [1]⟩], [], {}, []⟩
  revert this
  decide +kernel

/-- **(3b)** The FDAT payload total of the written entry equals the size it reports — provided no `extra`
    chunk is itself an FDAT chunk.  In general the difference is exactly the FDAT payload among `extra`
    (`fdatTotal_serN_gen`). -/
theorem serN_fdat_total_partial (e : NormalEntry) (hx : ∀ c ∈ e.extra, c.ty ≠ ChunkType.FDAT) :
    (((serN e).filter (fun c => c.ty = ChunkType.FDAT)).map (fun c => c.data.length)).sum = e.compressedSize :=
  fdatTotal_serN e hx

/-- the general form: nothing assumed -/
theorem serN_fdat_total_gen (e : NormalEntry) :
    (((serN e).filter (fun c => c.ty = ChunkType.FDAT)).map (fun c => c.data.length)).sum
      = (((e.extra).filter (fun c => c.ty = ChunkType.FDAT)).map (fun c => c.data.length)).sum + e.compressedSize :=
  fdatTotal_serN_gen e

/-- the hypothesis holds for every well-formed entry, in particular (`parseN_WF`) for every parsed one -/
theorem serN_fdat_total_WF (e : NormalEntry) (h : e.WF) :
    (((serN e).filter (fun c => c.ty = ChunkType.FDAT)).map (fun c => c.data.length)).sum = e.compressedSize :=
  fdatTotal_serN e (WF_extra_no_fdat h)

/-- read → write: the entry written back carries, in its FDAT chunks, exactly the size that was parsed,
    and parsing it again reports the same size -/
theorem parsed_size_survives_rewrite (raw : List Chunk) (e : NormalEntry) (h : parseN raw = .ok e) :
    fdatTotal (serN e) = e.compressedSize ∧
    ∃ e2, parseN (serN e) = .ok e2 ∧ e2.compressedSize = e.compressedSize :=
  ⟨fdatTotal_serN e (WF_extra_no_fdat (parseN_WF raw e h)),
    e.recut, parseN_serN e (parseN_WF raw e h), recut_compressedSize e⟩

-- an empty slice vanishes on the wire, the total does not change
def exE : NormalEntry := ⟨⟨0, 0, 0, 0, 0, 0, [97]⟩, none, [⟨⟨109, 121, 84, 121⟩, [1, 2, 3]⟩], [[1, 2, 3], [], [4, 5]], {}, []⟩
example : fdatTotal (serN exE) = 5 ∧ exE.compressedSize = 5 ∧ exE.recut.compressedSize = 5 ∧
    exE.recut.data ≠ exE.data := by decide +kernel
example : fdatTotal (serN (buildNormal plain exA)) = 5 ∧ (buildNormal plain exA).compressedSize = 5 := by
  decide +kernel
example : ∀ c ∈ (buildNormal plain exA).extra, c.ty ≠ ChunkType.FDAT := by decide +kernel

-- ---------------------------------------------------------------- (4) the recorded raw size

/-- the logical file as `EntryBuilder::build` completes it: the metadata gets the raw size the builder counted -/
def withBuiltMd (storeSize : Bool) (f : LFile) : LFile :=
  { f with md := builtMd storeSize f.kind f.md f.writes }

/-- opening the entry that comes back from a write/read cycle (slices re-cut) gives the content back
    (the content half of `openEntry_recut` of Lemmas/Capstone2, which is stated on `openEntry`) -/
theorem openNormal_recut (s : Sink) (cfg : StreamCfg) (hc : cfg.OK) (f : LFile) :
    openNormal cfg (buildNormalW s cfg f).recut = .ok f.writes.flatten := by
  unfold openNormal
  rw [C01.readData_recut cfg.P cfg.C cfg.sel cfg.key _ (buildNormalW s cfg f).data
    (recut_meaning (buildNormalW s cfg f)).2.2.2.2.2]
  exact readData_storedData s cfg hc f.writes

/-- **(4)** For a file entry built with `store_file_size` on, the recorded raw size is the length of the
    content a reader decodes (from the entry as it comes back from the archive reader, slices re-cut). -/
theorem built_raw_size_is_content_length (s : Sink) (cfg : StreamCfg) (hc : cfg.OK) (f : LFile) (hk : f.kind = 0) :
    let f2 : LFile := { f with md := builtMd true f.kind f.md f.writes }
    (buildNormalW s cfg f2).md.rawSize = some f.writes.flatten.length ∧
      openNormal cfg (buildNormalW s cfg f2).recut = .ok f.writes.flatten := by
  intro f2
  refine ⟨?_, openNormal_recut s cfg hc f2⟩
  show (builtMd true f.kind f.md f.writes).rawSize = _
  rw [hk]
  exact builtMd_rawSize_file f.md f.writes

/-- the same read directly from the built entry (no archive in between) -/
theorem built_raw_size_is_content_length_direct (s : Sink) (cfg : StreamCfg) (hc : cfg.OK) (f : LFile)
    (hk : f.kind = 0) :
    (buildNormalW s cfg (withBuiltMd true f)).md.rawSize = some f.writes.flatten.length ∧
      openNormal cfg (buildNormalW s cfg (withBuiltMd true f)) = .ok f.writes.flatten := by
  refine ⟨(built_raw_size_is_content_length s cfg hc f hk).1, ?_⟩
  exact readData_storedData s cfg hc f.writes

/-- `None` otherwise: not a file, or `store_file_size` off -/
theorem built_raw_size_none (s : Sink) (cfg : StreamCfg) (storeSize : Bool) (f : LFile)
    (h : storeSize = false ∨ f.kind ≠ 0) :
    (buildNormalW s cfg (withBuiltMd storeSize f)).md.rawSize = none :=
  builtMd_rawSize_none storeSize f.kind f.md f.writes h

/-- the completed file is well-formed when the file is and the content length fits the fSIZ codec (16 bytes);
    whatever raw size `f.md` carried before is overwritten -/
theorem withBuiltMd_WF (storeSize : Bool) (f : LFile) (hf : f.WF) (hlen : f.writes.flatten.length < 2 ^ 128) :
    (withBuiltMd storeSize f).WF where
  kind := hf.kind
  nameUtf8 := hf.nameUtf8
  nameSan := hf.nameSan
  nameFit := hf.nameFit
  extraUn := hf.extraUn
  extraNM := hf.extraNM
  extraFit := hf.extraFit
  rawSize := by
    intro n hn
    have hn : (builtMd storeSize f.kind f.md f.writes).rawSize = some n := hn
    unfold builtMd at hn
    simp only at hn
    split at hn
    · cases hn
      rw [sum_length_eq_flatten]; exact hlen
    · cases hn
  created := hf.created
  modified := hf.modified
  accessed := hf.accessed
  perm := hf.perm
  xattrs := hf.xattrs
  xattrsFit := hf.xattrsFit

/-- **(4, write/read cycle)** Serialising the built entry and parsing it again gives an entry with the same
    recorded raw size, still equal to the length of the content it decodes to.  Hypotheses: `LFile.WF` as in
    Lemmas/Capstone2 and the bound `NormalEntry.WF` puts on `rawSize` (`< 2^128`, the fSIZ codec keeps 16 bytes). -/
theorem built_raw_size_roundtrip (s : Sink) (cfg : StreamCfg) (hc : cfg.OK) (f : LFile) (hf : f.WF)
    (hk : f.kind = 0) (hlen : f.writes.flatten.length < 2 ^ 128) :
    let f2 : LFile := { f with md := builtMd true f.kind f.md f.writes }
    ∃ e, parseN (serN (buildNormalW s cfg f2)) = .ok e ∧ e.md.rawSize = (buildNormalW s cfg f2).md.rawSize ∧
      e.md.rawSize = some f.writes.flatten.length ∧ openNormal cfg e = .ok f.writes.flatten := by
  intro f2
  have h4 := built_raw_size_is_content_length s cfg hc f hk
  have hw : (buildNormalW s cfg f2).WF := buildNormalW_WF s cfg hc f2 (withBuiltMd_WF true f hf hlen)
  exact ⟨(buildNormalW s cfg f2).recut, parseN_serN _ hw, rfl, h4.1, h4.2⟩

/-- without the bound the cycle does not keep the size: the fSIZ codec keeps the low 16 bytes only -/
example : decFSIZ (encFSIZ (2 ^ 128 + 5)) = 5 := by decide +kernel

-- `exA` carries a (here: wrong on purpose) raw size 77; the builder overwrites it with the 5 bytes written
def exA77 : LFile := { exA with md := { exA.md with rawSize := some 77 } }
example : (buildNormalW .builder exCbc (withBuiltMd true exA77)).md.rawSize = some 5 ∧
    openNormal exCbc (buildNormalW .builder exCbc (withBuiltMd true exA77)).recut = .ok [1, 2, 3, 4, 5] ∧
    (parseN (serN (buildNormalW .builder exCbc (withBuiltMd true exA77)))).map' (fun e => e.md.rawSize)
      = .ok (some 5) ∧
    (buildNormalW .builder exCbc (withBuiltMd false exA77)).md.rawSize = none ∧
    (buildNormalW .builder exCbc (withBuiltMd true exD)).md.rawSize = none := by decide +kernel
example : exCbc.OK ∧ exA.WF ∧ exA.kind = 0 ∧ exA.writes.flatten.length < 2 ^ 128 :=
  ⟨exCbc_ok, exA_wf, rfl, by decide⟩

-- ---------------------------------------------------------------- (5) the compressed size of a built entry

/-- **(5a)** `EntryBuilder::build`: `compressed_size` = total length of the stored slices. -/
theorem built_compressed_size (s : Sink) (cfg : StreamCfg) (f : LFile) :
    (buildNormalW s cfg f).compressedSize = ((storedData s cfg f.writes).map List.length).sum := rfl

/-- **(5b)** … and it is the FDAT payload total of the entry as written (no FDAT chunk among `extra`; implied by
    `LFile.WF`, see `built_compressed_size_on_wire_WF`). -/
theorem built_compressed_size_on_wire (s : Sink) (cfg : StreamCfg) (f : LFile)
    (hx : ∀ c ∈ f.extra, c.ty ≠ ChunkType.FDAT) :
    (((serN (buildNormalW s cfg f)).filter (fun c => c.ty = ChunkType.FDAT)).map (fun c => c.data.length)).sum
      = ((storedData s cfg f.writes).map List.length).sum :=
  fdatTotal_serN (buildNormalW s cfg f) hx

theorem built_compressed_size_on_wire_WF (s : Sink) (cfg : StreamCfg) (hc : cfg.OK) (f : LFile) (hf : f.WF) :
    fdatTotal (serN (buildNormalW s cfg f)) = (buildNormalW s cfg f).compressedSize ∧
    ∃ e, parseN (serN (buildNormalW s cfg f)) = .ok e ∧
      e.compressedSize = ((storedData s cfg f.writes).map List.length).sum :=
  ⟨fdatTotal_serN _ (WF_extra_no_fdat (buildNormalW_WF s cfg hc f hf)),
    _, parseN_serN _ (buildNormalW_WF s cfg hc f hf), recut_compressedSize _⟩

-- CBC: 16-byte IV + one padded block, for 5 content bytes
example : (buildNormalW .builder exCbc exA).compressedSize = 32 ∧
    fdatTotal (serN (buildNormalW .builder exCbc exA)) = 32 ∧
    (buildNormalW .stream exCtr exB).compressedSize = 36 := by decide +kernel

end Pna.C18E

#print axioms Pna.C18E.add_entry_count
#print axioms Pna.C18E.parsed_compressed_size
#print axioms Pna.C18E.reser_keeps_compressed_size
#print axioms Pna.C18E.serN_fdat_total_partial
#print axioms Pna.C18E.built_raw_size_is_content_length
#print axioms Pna.C18E.built_raw_size_roundtrip
#print axioms Pna.C18E.built_compressed_size
#print axioms Pna.C18E.built_compressed_size_on_wire
