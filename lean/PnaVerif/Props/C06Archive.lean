import PnaVerif.Lemmas.ArchiveRt
/-!
# C06 (archive level) — an interrupted write is reported after exactly the complete chunks
For every chunk list, every continuation and every cut position `k`: if the cut falls inside
(or exactly before) chunk number `i`, both chunk iterators return exactly the first `i` chunks
and then `UnexpectedEof`; a cut inside the signature returns nothing and `UnexpectedEof`.
Since AEND is the last chunk of every archive the writers produce, no proper prefix of an
archive reaches AEND: **no proper prefix is read as a complete archive**.
The entry readers group these chunks (`groupItems`), so the entries they return before the
error are the items closed within the first `i` chunks — the completely written ones.
-/
namespace Pna.C06A
open Pna

theorem prefix_chunks (cs : List Chunk) (rest : Bytes) (hfit : ChunksFit cs) (hno : ∀ c ∈ cs, c.ty ≠ ChunkType.AEND)
    (i : Nat) (hi : i < cs.length) (k : Nat)
    (hk1 : (signature ++ encodeChunks (cs.take i)).length ≤ k)
    (hk2 : k < (signature ++ encodeChunks (cs.take (i + 1))).length) :
    chunksStream ((signature ++ encodeChunks cs ++ rest).take k) = (cs.take i, .error .eof) ∧
    chunksSlice ((signature ++ encodeChunks cs ++ rest).take k) = (cs.take i, .error .eof) := by
  have h := chunksStream_prefix cs rest hfit hno i hi k hk1 hk2
  exact ⟨h, by rw [chunksSlice_eq_chunksStream]; exact h⟩

theorem prefix_signature (bs : Bytes) (k : Nat) (hk : k < 8) :
    chunksStream ((signature ++ bs).take k) = ([], .error .eof) := chunksStream_prefix_sig bs k hk

/-- a prefix that stops before the end marker never reads as complete: the iterator's status is
    an error, for every cut inside the chunk sequence -/
theorem proper_prefix_never_ok (cs : List Chunk) (rest : Bytes) (hfit : ChunksFit cs) (hno : ∀ c ∈ cs, c.ty ≠ ChunkType.AEND)
    (i : Nat) (hi : i < cs.length) (k : Nat)
    (hk1 : (signature ++ encodeChunks (cs.take i)).length ≤ k)
    (hk2 : k < (signature ++ encodeChunks (cs.take (i + 1))).length) :
    (chunksStream ((signature ++ encodeChunks cs ++ rest).take k)).2.isOk = false := by
  rw [(prefix_chunks cs rest hfit hno i hi k hk1 hk2).1]; rfl

end Pna.C06A
