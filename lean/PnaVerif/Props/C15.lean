import PnaVerif.Lemmas.Codec
import PnaVerif.Lemmas.Name
/-!
# C15 — every metadata codec is an exact inverse pair over its whole domain (library codecs)
Each codec has `dec (enc v) = ok v` under an explicit, decidable domain predicate, and a
stability statement for accepted input.  CLI text codecs (ACE, xattr values, part names,
chmod) are in `Props/C15Cli.lean`.
The one place where the pair is *not* inverse is stated and proved as such:
`fprm_long_name_breaks` (`len() as u8` narrows names longer than 255 bytes) — known finding
`C15-fprm-name-over-255`.
-/
namespace Pna.C15
open Pna

theorem ahed_rt (h : ArchiveHeader) (h1 : h.major < 256) (h2 : h.minor < 256) (h3 : h.number < 2 ^ 32) :
    decAHED (encAHED h) = .ok h := decAHED_encAHED h h1 h2 h3

theorem ahed_stable (bs : Bytes) (h : ArchiveHeader) (hd : decAHED bs = .ok h) :
    decAHED (encAHED h) = .ok h := decAHED_stable bs h hd

theorem fhed_rt (h : EntryHeader) (h1 : h.major < 256) (h2 : h.minor < 256)
    (hk : validKind h.kind = true) (hc : validCompression h.compression = true)
    (he : validEncryption h.encryption = true) (hm : validCipherMode h.cipherMode = true)
    (hu : validUtf8 h.name = true) (hs : sanitize h.name = h.name) :
    decFHED (encFHED h) = .ok h := decFHED_encFHED h h1 h2 hk hc he hm hu hs

theorem shed_rt (h : SolidHeader) (h1 : h.major < 256) (h2 : h.minor < 256)
    (hc : validCompression h.compression = true) (he : validEncryption h.encryption = true)
    (hm : validCipherMode h.cipherMode = true) : decSHED (encSHED h) = .ok h :=
  decSHED_encSHED h h1 h2 hc he hm

theorem shed_exact (bs : Bytes) (h : SolidHeader) (hd : decSHED bs = .ok h) : encSHED h = bs :=
  encSHED_decSHED bs h hd

theorem time_rt (n : Nat) (h : n < 2 ^ 64) : decTime (encTime n) = .ok n := decTime_encTime n h
theorem time_exact (bs : Bytes) (n : Nat) (h : decTime bs = .ok n) : encTime n = bs := encTime_decTime bs n h

theorem fsiz_rt (n : Nat) (h : n < 2 ^ 128) : decFSIZ (encFSIZ n) = n := decFSIZ_encFSIZ n h

theorem xattr_rt (x : XAttr) (hn : x.name.length < 2 ^ 32) (hv : x.value.length < 2 ^ 32)
    (hu : validUtf8 x.name = true) : decXATR (encXATR x) = .ok x := decXATR_encXATR x hn hv hu

theorem fprm_rt (p : Permission) (hu : p.uname.length ≤ 255) (hg : p.gname.length ≤ 255)
    (huid : p.uid < 2 ^ 64) (hgid : p.gid < 2 ^ 64) (hm : p.mode < 2 ^ 16)
    (hvu : validUtf8 p.uname = true) (hvg : validUtf8 p.gname = true) :
    decFPRM (encFPRM p) = .ok p := decFPRM_encFPRM p hu hg huid hgid hm hvu hvg

/-- The full statement (no length hypothesis) is false of model and code: a 256-byte user name
    is encoded with length byte 0 and decodes as the empty string followed by garbage. -/
theorem fprm_long_name_breaks :
    ∃ p : Permission, validUtf8 p.uname = true ∧ decFPRM (encFPRM p) ≠ .ok p := by
  refine ⟨⟨0, List.replicate 256 110, 0, [], 0⟩, by decide +kernel, ?_⟩
  decide +kernel

/-- Chunk-type property bits (all 2^32 codes): `private` accepts exactly the codes whose four
    bytes are ASCII letters with the private bit set and the reserved bit clear. -/
theorem chunktype_private_bits (t : ChunkType) (t' : ChunkType) (h : t.mkPrivate = .ok t') :
    t' = t ∧ t.isPrivate = true ∧ t.isSetReserved = false := by
  unfold ChunkType.mkPrivate at h
  split at h; · simp at h
  split at h; · simp at h
  split at h; · simp at h
  rename_i h1 h2 h3
  simp only [Except.ok.injEq] at h
  refine ⟨h.symm, ?_, ?_⟩
  · simp only [Bool.not_eq_true, Bool.not_eq_false] at h2
    unfold ChunkType.isAsciiLower at h2
    unfold ChunkType.isPrivate
    have : ∀ n, n < 256 → (97 ≤ UInt8.ofNat n && UInt8.ofNat n ≤ 122) = true → (UInt8.ofNat n &&& 32 != 0) = true := by
      decide +kernel
    have := this t.b1.toNat t.b1.toNat_lt
    rw [UInt8.ofNat_toNat] at this
    exact this (by simpa using h2)
  · simp only [Bool.not_eq_true, Bool.not_eq_false] at h3
    unfold ChunkType.isAsciiUpper at h3
    unfold ChunkType.isSetReserved
    have : ∀ n, n < 256 → (65 ≤ UInt8.ofNat n && UInt8.ofNat n ≤ 90) = true → (UInt8.ofNat n &&& 32 != 0) = false := by
      decide +kernel
    have := this t.b2.toNat t.b2.toNat_lt
    rw [UInt8.ofNat_toNat] at this
    exact this (by simpa using h3)

-- non-vacuity: concrete values meeting every hypothesis
example : decFPRM (encFPRM ⟨1000, [117, 49], 100, [103], 0o644⟩) = .ok ⟨1000, [117, 49], 100, [103], 0o644⟩ := by
  decide +kernel
example : decFHED (encFHED ⟨0, 0, 0, 2, 1, 1, [97, 47, 98]⟩) = .ok ⟨0, 0, 0, 2, 1, 1, [97, 47, 98]⟩ := by
  decide +kernel
example : decFSIZ (encFSIZ 70000) = 70000 := by decide +kernel

end Pna.C15
