import PnaVerif.Lemmas.ExtractPerm
import PnaVerif.Props.C09Confined
/-!
# C09 / C20 — the permission step of `pna extract --keep-permission`

`extract_entry` creates the object for an entry and THEN (with `--keep-permission`) runs `chown` and
`set_permissions` on the destination path; both follow a symbolic link at the final component.
`Model/Cli/ExtractPerm.lean` records WHAT that step touches (`PermTarget`): nothing, a directory
(by path) or a regular file (by inode).

* `perm_target_inside` (C09): after a successful entry the step never reaches an object outside the
  output directory — same hypotheses as `C09C.extractEntry_confined_partial`.
* `perm_target_fresh_partial` (C20): without `--overwrite` the step only touches what this entry
  created.  Two hypotheses are needed and shown to be needed by kernel-checked witnesses: the name has
  no `..` component (`fresh_false_for_dotdot_dir`, `fresh_false_for_dotdot_file`), and the kind is one of
  the four data kinds 0–3 (`fresh_false_for_kind4`: the model's `extractEntry` treats every other number
  as a hard link while `permStep` only skips 2 and 3 — an artefact of `kind : Nat`).
* the two repaired defects as witnesses against the *legacy* step (`legacy_perm_…`).
* `perm_link_entries_skipped`: the statement of the repair.
-/
namespace Pna.C09P
open Pna Pna.Fs Pna.Cli Pna.Confined Pna.ExtractPerm Pna.C09Fs

/-! ### concrete sandboxes (on top of `C09Fs.fs0`: /s/out empty, /s/outside/sec = inode 1) -/

def lnk : Bytes := [108]                                       -- "l"
def toSecret : Bytes := [46, 46, 47] ++ outside ++ [47] ++ secret   -- "../outside/sec"
def victim : Bytes := [118, 105, 99, 116, 105, 109, 46, 116, 120, 116]   -- "victim.txt"
def aliasN : Bytes := [97, 108, 105, 97, 115, 46, 116, 120, 116]          -- "alias.txt"

/-- `fs0` after extracting the symbolic link entry `l -> ../outside/sec` -/
def fsL : Fs := (extractEntry false [s] out fs0 ⟨lnk, 2, toSecret⟩).1

/-- /s/out/victim.txt (inode 1) is there before the command; next free inode 2 -/
def fsV : Fs := ⟨[([s], .dir), ([s, out], .dir), ([s, out, victim], .file 1), ([s, outside], .dir)], [(1, [1, 2, 3])], 2⟩

/-- /s/out/b is a directory before the command -/
def fsB : Fs := ⟨[([s], .dir), ([s, out], .dir), ([s, out, [98]], .dir)], [], 2⟩

/-- /s/out/b is a regular file (inode 1) before the command -/
def fsF : Fs := ⟨[([s], .dir), ([s, out], .dir), ([s, out, [98]], .file 1)], [(1, [5])], 2⟩

theorem fsL_sane : Sane fsL [s, out] := (saneB_iff fsL [s, out]).1 (by decide +kernel)
theorem fsV_sane : Sane fsV [s, out] := (saneB_iff fsV [s, out]).1 (by decide +kernel)
theorem fsB_sane : Sane fsB [s, out] := (saneB_iff fsB [s, out]).1 (by decide +kernel)
theorem fsF_sane : Sane fsF [s, out] := (saneB_iff fsF [s, out]).1 (by decide +kernel)

/-- a run whose error component is `none`, in the shape the theorems take -/
theorem packP (x : Fs × Option XErr × PermTarget) (h : x.2.1 = none) : x = (x.1, none, x.2.2) := by
  rw [← h]

/-! ### (1) C09 and (2) C20 -/

/-- **(1) C09** — the permission step never reaches an object outside the output directory:
    the target is nothing, a directory at or below `O`, or a regular file whose inode no directory
    entry outside `O` refers to (in the resulting file system). Any kind, any `--overwrite` flag. -/
theorem perm_target_inside (keepPerm ow : Bool) (cwd : Path) (outDir d : Bytes) (fs fs2 : Fs) (e : XEntry)
    (t : PermTarget)
    (hcomps : comps outDir = [d]) (hd : d ≠ [dot, dot]) (hrel : ¬ isAbs outDir = true)
    (h : Sane fs (cwd ++ [d])) (hn : NameOkW ow e.name)
    (hx : extractEntryP keepPerm ow cwd outDir fs e = (fs2, none, t)) :
    t = .none ∨ (∃ p, t = .dir p ∧ Inside (cwd ++ [d]) p) ∨
    (∃ ino, t = .file ino ∧ ∀ b ∈ fs2.nodes, ¬ Inside (cwd ++ [d]) b.1 → b.2 ≠ .file ino) := by
  have ho : OutDir outDir d := ⟨hcomps, hd, by simpa using hrel⟩
  obtain ⟨hE, rfl⟩ := extractEntryP_ok hx
  have hnk := nameOk_of_ok ho h hn hE
  have s2 : Sane fs2 (cwd ++ [d]) := by
    have := (extractEntry_good ow cwd outDir d fs e ho h hnk).1
    rw [hE] at this; exact this
  rcases permStep_lex keepPerm ow cwd outDir d fs fs2 e ho h hnk hE with h1 | ⟨_, ⟨h1, _⟩ | ⟨i, h1, h2⟩⟩
  · exact Or.inl h1
  · exact Or.inr (Or.inl ⟨_, h1, below_inside _ _⟩)
  · refine Or.inr (Or.inr ⟨i, h1, fun b hb hob hbi => ?_⟩)
    have hm := lookup_mem (lookup_file_ne_nil h2) h2
    exact s2.sep _ hm b hb i rfl hbi (below_inside _ _) hob

/-- non-vacuity of `perm_target_inside`: on the sane sandbox `fs0`, a regular-file entry `d/a` and a
    directory entry `a/b` with `--keep-permission` succeed and the step is NOT skipped: it reaches the
    new inode 2, resp. the new directory /s/out/a/b (inside) -/
example :
    NameOkW false [100, 47, 97] ∧ NameOkW false [97, 47, 98] ∧
    (extractEntryP true false [s] out fs0 ⟨[100, 47, 97], 0, [7]⟩).2 = (none, .file 2) ∧
    (extractEntryP true false [s] out fs0 ⟨[97, 47, 98], 1, []⟩).2 = (none, .dir [s, out, [97], [98]]) ∧
    Inside [s, out] [s, out, [97], [98]] := by
  decide +kernel

/-- … the theorem applied to the first run (all hypotheses instantiated; conclusion in the `.file` case) -/
example : ∀ b ∈ (extractEntryP true false [s] out fs0 ⟨[100, 47, 97], 0, [7]⟩).1.nodes,
    ¬ Inside [s, out] b.1 → b.2 ≠ .file 2 := by
  have hx := packP (extractEntryP true false [s] out fs0 ⟨[100, 47, 97], 0, [7]⟩) (by decide +kernel)
  have ht : (extractEntryP true false [s] out fs0 ⟨[100, 47, 97], 0, [7]⟩).2.2 = .file 2 := by decide +kernel
  rw [ht] at hx
  rcases perm_target_inside true false [s] out out fs0 _ _ _ (by decide) (by decide) (by decide)
    C09C.fs0_sane (by decide) hx with h | ⟨p, h, _⟩ | ⟨i, h, h2⟩
  · cases h
  · cases h
  · cases h; exact h2

/-- non-vacuity with `--overwrite`: in the sane state `fsL` (link `l -> ../outside/sec` present) a
    regular-file entry `l` replaces the link; the step reaches the new inode 2, not the outside inode 1 -/
example :
    NameOkW true lnk ∧ fsL.lookup [s, out, lnk] = some (.link toSecret) ∧
    (extractEntryP true true [s] out fsL ⟨lnk, 0, [9]⟩).2 = (none, .file 2) ∧
    (extractEntryP true true [s] out fsL ⟨lnk, 0, [9]⟩).1.lookup [s, outside, secret] = some (.file 1) := by
  decide +kernel

/-- … and, the outside directory entries being unchanged (`extractEntry_confined_partial`), no directory
    entry outside `O` of the ORIGINAL file system refers to that inode either -/
theorem perm_target_inside_orig (keepPerm ow : Bool) (cwd : Path) (outDir d : Bytes) (fs fs2 : Fs) (e : XEntry)
    (ino : Nat)
    (hcomps : comps outDir = [d]) (hd : d ≠ [dot, dot]) (hrel : ¬ isAbs outDir = true)
    (h : Sane fs (cwd ++ [d])) (hn : NameOkW ow e.name)
    (hx : extractEntryP keepPerm ow cwd outDir fs e = (fs2, none, .file ino)) :
    ∀ b ∈ fs.nodes, ¬ Inside (cwd ++ [d]) b.1 → b.2 ≠ .file ino := by
  intro b hb hob
  have hsame := (C09C.extractEntry_confined_partial ow cwd outDir d fs e hcomps hd hrel h hn).2
  rw [(extractEntryP_ok hx).1] at hsame
  have hb2 : b ∈ fs2.nodes := (outside_mem_iff hsame.nodes b hob).2 hb
  rcases perm_target_inside keepPerm ow cwd outDir d fs fs2 e _ hcomps hd hrel h hn hx with h1 | ⟨p, h1, _⟩ | ⟨i, h1, h2⟩
  · cases h1
  · cases h1
  · cases h1; exact h2 b hb2 hob

/-- non-vacuity of `perm_target_inside_orig`: the run above, with `--overwrite`, on `fsL` -/
example : ∀ b ∈ fsL.nodes, ¬ Inside [s, out] b.1 → b.2 ≠ .file 2 := by
  have hx := packP (extractEntryP true true [s] out fsL ⟨lnk, 0, [9]⟩) (by decide +kernel)
  have ht : (extractEntryP true true [s] out fsL ⟨lnk, 0, [9]⟩).2.2 = .file 2 := by decide +kernel
  rw [ht] at hx
  exact perm_target_inside_orig true true [s] out out fsL _ _ _ (by decide) (by decide) (by decide)
    fsL_sane (by decide) hx

/-- **(2) C20** — without `--overwrite` the permission step only touches what this entry created:
    nothing, a regular file whose inode was allocated by this entry (no directory entry of the original
    file system refers to it), or a directory at a path where nothing was before.
    Hypotheses beyond `Sane`: the name has no `..` component (`NameOkW false`), the kind is 0–3. -/
theorem perm_target_fresh_partial (keepPerm : Bool) (cwd : Path) (outDir d : Bytes) (fs fs2 : Fs) (e : XEntry)
    (t : PermTarget)
    (hcomps : comps outDir = [d]) (hd : d ≠ [dot, dot]) (hrel : ¬ isAbs outDir = true)
    (h : Sane fs (cwd ++ [d])) (hn : NameOkW false e.name) (hk : e.kind ≤ 3)
    (hx : extractEntryP keepPerm false cwd outDir fs e = (fs2, none, t)) :
    t = .none ∨
    (∃ ino, t = .file ino ∧ fs.nextIno ≤ ino ∧ ∀ n ∈ fs.nodes, n.2 ≠ .file ino) ∨
    (∃ p, t = .dir p ∧ fs.lookup p = none) := by
  have ho : OutDir outDir d := ⟨hcomps, hd, by simpa using hrel⟩
  obtain ⟨hE, rfl⟩ := extractEntryP_ok hx
  have hnk := nameOk_of_ok ho h hn hE
  have hfree := dest_absent cwd outDir d fs fs2 e ho h hnk hE
  rcases permStep_lex keepPerm false cwd outDir d fs fs2 e ho h hnk hE with h1 | ⟨⟨hk2, hk3⟩, ⟨h1, _⟩ | ⟨i, h1, h2⟩⟩
  · exact Or.inl h1
  · exact Or.inr (Or.inr ⟨_, h1, hfree⟩)
  · have h01 : e.kind = 0 ∨ e.kind = 1 := by omega
    have hext := extractEntry_ext01 cwd outDir fs e h01
    rw [hE] at hext
    rcases hext.new _ hfree with h3 | h3 | ⟨j, h3, hj⟩
    · rw [h2] at h3; cases h3
    · rw [h2] at h3; cases h3
    · rw [h2] at h3; cases h3
      exact Or.inr (Or.inl ⟨i, h1, hj, fun n hn hni => by have := h.fresh n hn i hni; omega⟩)

/-- non-vacuity of `perm_target_fresh_partial`: the two runs on `fs0` (kinds 0 and 1, acceptable names,
    no `--overwrite`) succeed with a target that is not `.none`; inode 2 = `fs0.nextIno` is new and
    nothing was at /s/out/a/b -/
example :
    NameOkW false [100, 47, 97] ∧ NameOkW false [97, 47, 98] ∧
    (extractEntryP true false [s] out fs0 ⟨[100, 47, 97], 0, [7]⟩).2 = (none, .file 2) ∧
    (extractEntryP true false [s] out fs0 ⟨[97, 47, 98], 1, []⟩).2 = (none, .dir [s, out, [97], [98]]) ∧
    fs0.nextIno = 2 ∧ fs0.lookup [s, out, [97], [98]] = none := by
  decide +kernel

/-- … the theorem applied to the second run (conclusion in the `.dir` case) -/
example : fs0.lookup [s, out, [97], [98]] = none := by
  have hx := packP (extractEntryP true false [s] out fs0 ⟨[97, 47, 98], 1, []⟩) (by decide +kernel)
  have ht : (extractEntryP true false [s] out fs0 ⟨[97, 47, 98], 1, []⟩).2.2 = .dir [s, out, [97], [98]] := by
    decide +kernel
  rw [ht] at hx
  rcases perm_target_fresh_partial true [s] out out fs0 _ _ _ (by decide) (by decide) (by decide)
    C09C.fs0_sane (by decide) (by decide) hx with h | ⟨i, h, _⟩ | ⟨p, h, h2⟩
  · cases h
  · cases h
  · cases h; exact h2

/-- for `--overwrite = false` the hypothesis on names is exactly "no `..` component" -/
example (name : Bytes) : NameOkW false name ↔ [dot, dot] ∉ comps name :=
  ⟨fun h => h.1, fun h => ⟨h, Or.inr rfl⟩⟩

/-! ### why the hypotheses of (2) cannot be dropped (kernel-checked witnesses against the model) -/

/-- the conclusion of (2), as a predicate on the original file system and the target -/
def FreshTarget (fs : Fs) (t : PermTarget) : Prop :=
  t = .none ∨ (∃ ino, t = .file ino ∧ fs.nextIno ≤ ino ∧ ∀ n ∈ fs.nodes, n.2 ≠ .file ino) ∨
  (∃ p, t = .dir p ∧ fs.lookup p = none)

def dotdotB : Bytes := [97, 47, 46, 46, 47, 98]      -- "a/../b"

/-- directory entry `a/../b`, /s/out/b being a directory already (no `--overwrite`): `exists()` on
    `out/a/../b` fails with ENOENT on `a`, `create_dir_all` makes `a` and accepts the existing `b`;
    the step then changes the mode of the PRE-EXISTING directory /s/out/b -/
theorem fresh_false_for_dotdot_dir :
    (extractEntryP true false [s] out fsB ⟨dotdotB, 1, []⟩).2 = (none, .dir [s, out, [98]]) ∧
    fsB.lookup [s, out, [98]] = some .dir ∧ ¬ NameOkW false dotdotB := by
  decide +kernel

/-- regular-file entry `a/../b`, /s/out/b being a file already: the pre-existing inode 1 is rewritten
    (the known window of C20 for names with `..`) and then reached by the step -/
theorem fresh_false_for_dotdot_file :
    (extractEntryP true false [s] out fsF ⟨dotdotB, 0, [9]⟩).2 = (none, .file 1) ∧
    fsF.lookup [s, out, [98]] = some (.file 1) ∧ 1 < fsF.nextIno := by
  decide +kernel

/-- an entry with `kind = 4`: `extractEntry` treats it as a hard link, `permStep` does not skip it —
    the step reaches the pre-existing inode 1 through the new name (artefact of `kind : Nat`; the
    format has the four data kinds 0–3 only) -/
theorem fresh_false_for_kind4 :
    (extractEntryP true false [s] out fsV ⟨aliasN, 4, victim⟩).2 = (none, .file 1) ∧
    fsV.lookup [s, out, victim] = some (.file 1) ∧ 1 < fsV.nextIno ∧ NameOkW false aliasN := by
  decide +kernel

/-- Hence (2) without the hypothesis on names is false of the model (sane file system, kind ≤ 3). -/
theorem perm_target_fresh_without_name_hyp_is_false :
    ¬ (∀ (fs fs2 : Fs) (e : XEntry) (t : PermTarget), Sane fs [s, out] → e.kind ≤ 3 →
        extractEntryP true false [s] out fs e = (fs2, none, t) → FreshTarget fs t) := by
  intro h
  have hx := packP (extractEntryP true false [s] out fsB ⟨dotdotB, 1, []⟩) (by decide +kernel)
  have ht : (extractEntryP true false [s] out fsB ⟨dotdotB, 1, []⟩).2.2 = .dir [s, out, [98]] := by
    decide +kernel
  rw [ht] at hx
  rcases h fsB _ _ _ fsB_sane (by decide) hx with h1 | ⟨i, h1, _⟩ | ⟨p, h1, h2⟩
  · cases h1
  · cases h1
  · cases h1; revert h2; decide +kernel

/-- … and so is (2) without the hypothesis on the kind (sane file system, acceptable name). -/
theorem perm_target_fresh_without_kind_hyp_is_false :
    ¬ (∀ (fs fs2 : Fs) (e : XEntry) (t : PermTarget), Sane fs [s, out] → NameOkW false e.name →
        extractEntryP true false [s] out fs e = (fs2, none, t) → FreshTarget fs t) := by
  intro h
  have hx := packP (extractEntryP true false [s] out fsV ⟨aliasN, 4, victim⟩) (by decide +kernel)
  have ht : (extractEntryP true false [s] out fsV ⟨aliasN, 4, victim⟩).2.2 = .file 1 := by decide +kernel
  rw [ht] at hx
  rcases h fsV _ _ _ fsV_sane (by decide) hx with h1 | ⟨i, h1, h2, _⟩ | ⟨p, h1, _⟩
  · cases h1
  · cases h1; revert h2; decide
  · cases h1

/-- `FreshTarget` is literally the conclusion of `perm_target_fresh_partial` -/
example (keepPerm : Bool) (cwd : Path) (outDir d : Bytes) (fs fs2 : Fs) (e : XEntry)
    (t : PermTarget)
    (hcomps : comps outDir = [d]) (hd : d ≠ [dot, dot]) (hrel : ¬ isAbs outDir = true)
    (h : Sane fs (cwd ++ [d])) (hn : NameOkW false e.name) (hk : e.kind ≤ 3)
    (hx : extractEntryP keepPerm false cwd outDir fs e = (fs2, none, t)) : FreshTarget fs t :=
  perm_target_fresh_partial keepPerm cwd outDir d fs fs2 e t hcomps hd hrel h hn hk hx

/-! ### (3) the two repaired defects: witnesses against the legacy permission step -/

/-- **(3a)** entries `l -> ../outside/sec` (symbolic link) and `h -> l` (hard link), `--keep-permission`:
    `h` becomes a second name of the link; the legacy step (skipped for symbolic-link entries only)
    follows it and reaches inode 1 = /s/outside/sec, OUTSIDE the output directory.
    The current step returns `.none`. -/
theorem legacy_perm_hardlink_of_symlink_reaches_outside :
    let e : XEntry := ⟨[104], 3, lnk⟩
    (extractEntryP true false [s] out fs0 ⟨lnk, 2, toSecret⟩).2 = (none, .none) ∧
    fsL = (extractEntryP true false [s] out fs0 ⟨lnk, 2, toSecret⟩).1 ∧
    (extractEntryPLegacy true false [s] out fsL e).2 = (none, .file 1) ∧
    (extractEntryPLegacy true false [s] out fsL e).1.lookup [s, out, [104]] = some (.link toSecret) ∧
    fs0.lookup [s, outside, secret] = some (.file 1) ∧ ¬ Inside [s, out] [s, outside, secret] ∧
    (extractEntryP true false [s] out fsL e).2 = (none, .none) :=
  ⟨by decide +kernel, rfl, by decide +kernel, by decide +kernel, by decide +kernel, by decide +kernel,
    by decide +kernel⟩

/-- the legacy step therefore violated the conclusion of `perm_target_inside` (sane file system,
    acceptable name): inode 1 is referenced by the outside entry /s/outside/sec -/
theorem legacy_perm_target_inside_is_false :
    ¬ (∀ (fs fs2 : Fs) (e : XEntry) (t : PermTarget), Sane fs [s, out] → NameOkW false e.name →
        extractEntryPLegacy true false [s] out fs e = (fs2, none, t) →
        t = .none ∨ (∃ p, t = .dir p ∧ Inside [s, out] p) ∨
        (∃ ino, t = .file ino ∧ ∀ b ∈ fs2.nodes, ¬ Inside [s, out] b.1 → b.2 ≠ .file ino)) := by
  intro h
  have hx := packP (extractEntryPLegacy true false [s] out fsL ⟨[104], 3, lnk⟩) (by decide +kernel)
  have ht : (extractEntryPLegacy true false [s] out fsL ⟨[104], 3, lnk⟩).2.2 = .file 1 := by decide +kernel
  rw [ht] at hx
  rcases h fsL _ _ _ fsL_sane (by decide) hx with h1 | ⟨p, h1, _⟩ | ⟨i, h1, h2⟩
  · cases h1
  · cases h1
  · cases h1
    exact h2 ([s, outside, secret], .file 1) (by decide +kernel) (by decide +kernel) rfl

/-- **(3b)** /s/out/victim.txt (inode 1) is there before the command; entry `alias.txt -> victim.txt`
    (hard link), `--keep-permission`, no `--overwrite`: the legacy step reaches inode 1 < `nextIno`, a
    PRE-EXISTING object, through the new name.  The current step returns `.none`. -/
theorem legacy_perm_hardlink_reaches_preexisting :
    let e : XEntry := ⟨aliasN, 3, victim⟩
    fsV.lookup [s, out, victim] = some (.file 1) ∧ 1 < fsV.nextIno ∧
    (extractEntryPLegacy true false [s] out fsV e).2 = (none, .file 1) ∧
    (extractEntryPLegacy true false [s] out fsV e).1.lookup [s, out, aliasN] = some (.file 1) ∧
    (extractEntryP true false [s] out fsV e).2 = (none, .none) := by
  decide +kernel

/-- the legacy step therefore violated the conclusion of `perm_target_fresh_partial` -/
theorem legacy_perm_target_fresh_is_false :
    ¬ (∀ (fs fs2 : Fs) (e : XEntry) (t : PermTarget), Sane fs [s, out] → NameOkW false e.name → e.kind ≤ 3 →
        extractEntryPLegacy true false [s] out fs e = (fs2, none, t) → FreshTarget fs t) := by
  intro h
  have hx := packP (extractEntryPLegacy true false [s] out fsV ⟨aliasN, 3, victim⟩) (by decide +kernel)
  have ht : (extractEntryPLegacy true false [s] out fsV ⟨aliasN, 3, victim⟩).2.2 = .file 1 := by decide +kernel
  rw [ht] at hx
  rcases h fsV _ _ _ fsV_sane (by decide) (by decide) hx with h1 | ⟨i, h1, h2, _⟩ | ⟨p, h1, _⟩
  · cases h1
  · cases h1; revert h2; decide
  · cases h1

/-! ### (4) the statement of the repair -/

/-- **(4)** for symbolic-link entries (kind 2) and hard-link entries (kind 3) the permission step is
    skipped, whatever the file system, the flags and the path -/
theorem perm_link_entries_skipped (keepPerm : Bool) (kind : Nat) (fs : Fs) (cwd : Path) (path : Bytes)
    (hk : kind = 2 ∨ kind = 3) : permStep keepPerm kind fs cwd path = .none := by
  unfold permStep
  rcases hk with rfl | rfl <;> simp

/-- non-vacuity of (4): on the state and path of (3b) the legacy step is NOT skipped for the hard-link
    entry (it reaches inode 1), the current one is; for kind 2 both are; and the current step is not
    vacuous for kinds 0 and 1 -/
example :
    permStepLegacy true 3 (extractEntry false [s] out fsV ⟨aliasN, 3, victim⟩).1 [s] (joinP out aliasN) = .file 1 ∧
    permStep true 3 (extractEntry false [s] out fsV ⟨aliasN, 3, victim⟩).1 [s] (joinP out aliasN) = .none ∧
    permStep true 2 fsL [s] (joinP out lnk) = .none ∧ permStepLegacy true 2 fsL [s] (joinP out lnk) = .none ∧
    permStep true 0 fsV [s] (joinP out victim) = .file 1 ∧ permStep true 1 fsV [s] out = .dir [s, out] := by
  decide +kernel

/-- … hence for such an entry the permission step after `extract_entry` touches nothing -/
theorem perm_link_entries_skipped_entry (keepPerm ow : Bool) (cwd : Path) (outDir : Bytes) (fs : Fs) (e : XEntry)
    (hk : e.kind = 2 ∨ e.kind = 3) : (extractEntryP keepPerm ow cwd outDir fs e).2.2 = .none := by
  unfold extractEntryP
  split
  · exact perm_link_entries_skipped keepPerm e.kind _ cwd _ hk
  · rfl

/-- non-vacuity: the hard-link entry of (3b) and the symbolic-link entry of (3a) are extracted (no error)
    and the step touches nothing -/
example :
    (extractEntryP true false [s] out fsV ⟨aliasN, 3, victim⟩).2 = (none, .none) ∧
    (extractEntryP true false [s] out fs0 ⟨lnk, 2, toSecret⟩).2 = (none, .none) := by
  decide +kernel

/-- the step is also skipped whenever the object at `path` is a symbolic link -/
theorem perm_link_object_skipped (keepPerm : Bool) (kind : Nat) (fs : Fs) (cwd : Path) (path : Bytes)
    (hl : isLinkAt fs cwd path = true) : permStep keepPerm kind fs cwd path = .none := by
  unfold permStep
  simp [hl]

/-- non-vacuity: in `fsL` the object at `out/l` is a symbolic link to the outside file; a step for a
    regular-file entry on that path is skipped, the legacy step reached inode 1 -/
example :
    isLinkAt fsL [s] (joinP out lnk) = true ∧ permStep true 0 fsL [s] (joinP out lnk) = .none ∧
    permStepLegacy true 0 fsL [s] (joinP out lnk) = .file 1 := by
  decide +kernel

#print axioms perm_target_inside
#print axioms perm_target_inside_orig
#print axioms perm_target_fresh_partial
#print axioms fresh_false_for_dotdot_dir
#print axioms fresh_false_for_dotdot_file
#print axioms fresh_false_for_kind4
#print axioms perm_target_fresh_without_name_hyp_is_false
#print axioms perm_target_fresh_without_kind_hyp_is_false
#print axioms legacy_perm_hardlink_of_symlink_reaches_outside
#print axioms legacy_perm_target_inside_is_false
#print axioms legacy_perm_hardlink_reaches_preexisting
#print axioms legacy_perm_target_fresh_is_false
#print axioms perm_link_entries_skipped
#print axioms perm_link_entries_skipped_entry
#print axioms perm_link_object_skipped

end Pna.C09P
