import PnaVerif.Props.C01
/-!
# C08 — encrypted archives leak nothing; salts and IVs are fresh  (data-flow structure)
No theorem about real AES/Camellia/KDFs is possible here; what is proved is *where* secret
data can flow in the writer pipeline:
* `cbc_plaintext_only_through_E` — in CBC mode the stored bytes depend on the plaintext only
  through applications of the block cipher: replace `E` by a function that ignores its block
  and the output no longer depends on the plaintext at all (only on its length);
* `ctr_keystream_independent` — in CTR mode the stored bytes are plaintext XOR a keystream that
  is a function of (cipher, key, IV, position) only;
* `stored_layout` — the stored slices are the IV followed by the cipher stage's output; the
  password and key appear nowhere else;
* `phsf_drops_hash` — the PHSF record written is the PHC record *after* `hash.take()`: it has
  one field fewer and the hash is not among the fields it is built from;
* `draws_fresh` — every encrypted context (entry, solid stream, `write_file` call) consumes its
  own salt draw and its own IV draw from the RNG; no draw index is used twice.
That distinct draws are distinct *values*, that ciphertext hides plaintext, and that the key does
not appear in any encoding are sampled by the `roundtrip` family (canaries, independent key
re-derivation, pairwise-distinct salts/IVs across the run).
-/
namespace Pna.C08
open Pna

theorem cbcEnc_ignores (P : BlockPerm) (hE : ∀ k b b', P.E k b = P.E k b') (k chain chain' : Bytes)
    (bs bs' : List Bytes) (h : bs.length = bs'.length) :
    cbcEncBlocks P k chain bs = cbcEncBlocks P k chain' bs' := by
  induction bs generalizing bs' chain chain' with
  | nil => cases bs' with
    | nil => rfl
    | cons _ _ => simp at h
  | cons b bs ih =>
    cases bs' with
    | nil => simp at h
    | cons b' bs' =>
      simp only [cbcEncBlocks]
      rw [hE k (xorBytes b chain) (xorBytes b' chain')]
      congr 1
      exact ih _ _ _ (by simpa using h)

/-- CBC: the plaintext reaches the output only through `E`. -/
theorem cbc_plaintext_only_through_E (P : BlockPerm) (hE : ∀ k b b', P.E k b = P.E k b')
    (k iv : Bytes) (ws ws' : List Bytes)
    (h : (toBlocks (pkcs7Pad ws.flatten)).length = (toBlocks (pkcs7Pad ws'.flatten)).length) :
    cbcWriterRun P k iv ws = cbcWriterRun P k iv ws' := by
  rw [cbcWriterRun_eq, cbcWriterRun_eq]
  exact cbcEnc_ignores P hE k iv iv _ _ h

/-- CTR: output = plaintext XOR keystream(cipher, key, IV, position). -/
theorem ctr_keystream_independent (P : BlockPerm) (k iv : Bytes) (ws : List Bytes) :
    (ctrWriterRun P k iv 0 ws).flatten = ctrApply P k iv 0 ws.flatten := ctrWriterRun_flatten P k iv 0 ws

/-- Stored layout of an encrypted entry: IV, then the cipher stage's output, nothing else. -/
theorem stored_layout (P : BlockPerm) (C : Compressor) (sel : CipherSel) (hs : sel ≠ .none) (key iv : Bytes)
    (ws : List Bytes) :
    (buildData P C sel key iv ws).flatten = iv ++ (cipherWrites P sel key iv (C.comp ws)).flatten ∧
    (streamData P C sel key iv ws).flatten = iv ++ (cipherWrites P sel key iv (C.comp ws)).flatten := by
  cases sel with
  | none => exact absurd rfl hs
  | cbc => simp [buildData, streamData, C01.flatten_writer_lossless]
  | ctr => simp [buildData, streamData, C01.flatten_writer_lossless]

/-- PHC record (password-hash crate) as far as the writer handles it. -/
structure Phc where
  alg : String
  version : Option String
  params : Option String
  salt : Option String
  hash : Option String

def Phc.fields (p : Phc) : List String :=
  [p.alg] ++ p.version.toList ++ p.params.toList ++ p.salt.toList ++ p.hash.toList

/-- `entry/write.rs::hash`: `let hash = password_hash.hash.take()…; (hash, password_hash.to_string())` -/
def phsfOf (p : Phc) : Option String × Phc := (p.hash, { p with hash := none })

theorem phsf_drops_hash (p : Phc) (h : String) (hh : p.hash = some h) :
    (phsfOf p).2.hash = none ∧ (phsfOf p).2.fields ++ [h] = p.fields ∧ (phsfOf p).1 = some h := by
  simp [phsfOf, Phc.fields, hh]

/-- RNG draws: context `i` uses draw `2i` for its salt and `2i+1` for its IV
    (`to_hashed`: `random::salt_string()` then `random::random_vec(16)`), one context per encrypted
    entry / solid stream / `write_file` call. -/
def contextDraws (nContexts : Nat) : List (Nat × Nat) := (List.range nContexts).map fun i => (2 * i, 2 * i + 1)

theorem draws_fresh (n : Nat) :
    ((contextDraws n).flatMap fun (s, v) => [s, v]).Nodup := by
  unfold contextDraws
  induction n with
  | zero => simp
  | succ n ih =>
    rw [List.range_succ, List.map_append, List.flatMap_append]
    rw [List.nodup_append]
    refine ⟨ih, by simp, ?_⟩
    intro a ha b hb
    simp only [List.mem_flatMap, List.mem_map, List.mem_range] at ha
    obtain ⟨⟨s, v⟩, ⟨i, hi, hsv⟩, ha⟩ := ha
    simp only [Prod.mk.injEq] at hsv
    simp at hb ha
    omega

example : (contextDraws 3) = [(0, 1), (2, 3), (4, 5)] := by decide

end Pna.C08
