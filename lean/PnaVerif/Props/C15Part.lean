import PnaVerif.Lemmas.PartName
/-!
# C15 (multipart names) — part numbers in file names can be changed and removed consistently
Model: `Model/Cli/PartName.lean` (`with_part_n` / `remove_part_n`); proofs: `Lemmas/PartName.lean`.

* the decimal part number is non-empty, all digits, injective; `part` + digits is a part marker;
* `Good` (defined in the lemma file, decidable) is *exactly* the set of file names on which
  renumbering is consistent (`good_iff_renumber`); on it different numbers give different names;
* removal gives back the original name for names without extension and for `pna` names whose stem
  is not `.` and is not itself numbered; renumbering does not change what removal gives;
* the same on simple paths `dir ++ name`.

Three statements that were wanted are false for the model as written; each is refuted here by a
kernel-checked witness and replaced by the strongest true version:

* "every name that does not begin with a dot is `Good`": `a.b.c.d` is not (`a.b.c.d` ↦ `a.b.part1`
  ↦ `a.part2`, but `a.b.c.d` ↦ `a.b.part2`).  True version: such a name is `Good` iff its
  extension is `pna` or it has at most two dots (`good_iff_of_no_leading_dot`).
* "removal inverts numbering on every `Good` `pna` name with an unmarked stem": `..pna` is `Good`
  and unmarked, `..pna` ↦ `..part1.pna` ↦ `..`.  True version: additionally the stem is not `.`.
* non-`pna` extensions do not round-trip at all (`x.tar` ↦ `x.part1` ↦ `x`); this one was expected.
-/
namespace Pna.C15Part
open Pna Pna.Cli.PartName

-- ---------------------------------------------------------------- 1. the decimal number

theorem decimal_nonempty (n : Nat) : decimal n ≠ [] := decimal_ne_nil n

theorem decimal_digits (n : Nat) : ∀ c ∈ decimal n, isDigit c = true :=
  fun _ h => isDigit_of_mem_decimal h

theorem decimal_no_dot_no_slash (n : Nat) : '.' ∉ decimal n ∧ '/' ∉ decimal n :=
  ⟨not_mem_decimal_of_not_digit (by decide), not_mem_decimal_of_not_digit (by decide)⟩

theorem decimal_left_inverse (n : Nat) : fromDecimal (decimal n) = n := fromDecimal_decimal n

theorem decimal_injective {n m : Nat} (h : decimal n = decimal m) : n = m := decimal_inj h

-- ---------------------------------------------------------------- 2. the marker

theorem part_marker_decimal (n : Nat) : isPartMarker (partPrefix ++ decimal n) = true :=
  isPartMarker_partExt n

theorem part_marker_no_dot_no_slash (n : Nat) :
    '.' ∉ partPrefix ++ decimal n ∧ '/' ∉ partPrefix ++ decimal n :=
  ⟨dot_not_mem_partExt n, slash_not_mem_partExt n⟩

-- ---------------------------------------------------------------- 3. renumbering

/-- renumbering a part name gives the name the original would have got -/
theorem withExt_renumber (name w : Str) (n m : Nat) (hg : Good name)
    (h : withExt name n = some w) : withExt w m = withExt name m := by
  rcases withExt_shape hg (splitExt_ne_none_of_withExt h) with ⟨b, hb, hw⟩ | ⟨b, e, hb, he, hw⟩
  · rw [hw n] at h
    cases h
    rw [hw m]
    exact withExt_marked_plain b hb n m
  · rw [hw n] at h
    cases h
    rw [hw m]
    exact withExt_marked_pna b e hb he n m

/-- `Good` is the weakest hypothesis: it is equivalent to consistent renumbering (already to
    renumbering 0 to 0) -/
theorem good_iff_renumber (name : Str) :
    Good name ↔ ∀ n m w, withExt name n = some w → withExt w m = withExt name m :=
  ⟨fun hg n m w h => withExt_renumber name w n m hg h, fun h => good_of_renumber (h 0 0)⟩

/-- the output of a `Good` name is again `Good` -/
theorem good_withExt (name w : Str) (n : Nat) (hg : Good name) (h : withExt name n = some w) :
    Good w := by
  rw [good_iff_renumber]
  intro k m v hv
  have h1 := withExt_renumber name w n k hg h
  have h2 := withExt_renumber name w n m hg h
  rw [h2]
  rw [h1] at hv
  exact withExt_renumber name v k m hg hv

theorem good_of_pna_ext (name : Str) (h : PnaExt name) : Good name := good_of_pnaExt h

theorem good_of_no_extension (name stem : Str) (h : splitExt name = some (stem, none)) :
    Good name := by
  simp only [Good, h]

theorem good_of_few_dots (name : Str) (h : name.count '.' ≤ 2) : Good name :=
  good_of_count_le_two name h

/-- every name that does not begin with a dot: `Good` exactly when it ends in `.pna` or has at most
    two dots.  (No condition on emptiness or '/' is needed.) -/
theorem good_iff_of_no_leading_dots (name : Str) (h3 : name.head? ≠ some '.') :
    Good name ↔ PnaExt name ∨ name.count '.' ≤ 2 :=
  good_iff_of_no_leading_dot name h3

theorem good_of_no_leading_dots (name : Str) (h3 : name.head? ≠ some '.')
    (h4 : PnaExt name ∨ name.count '.' ≤ 2) : Good name :=
  (good_iff_of_no_leading_dot name h3).mpr h4

/-- hidden files `.rest`: `rest` does not begin with a dot and has at most two dots, or the
    extension is `pna` -/
theorem good_of_single_leading_dot (rest : Str) (h3 : rest.head? ≠ some '.')
    (h4 : PnaExt ('.' :: rest) ∨ rest.count '.' ≤ 2) : Good ('.' :: rest) := by
  rcases h4 with h4 | h4
  · exact good_of_pnaExt h4
  · exact good_of_hidden rest h3 h4

-- ---------------------------------------------------------------- 4. distinctness

theorem withExt_injective (name w : Str) (n m : Nat) (hg : Good name)
    (h1 : withExt name n = some w) (h2 : withExt name m = some w) : n = m := by
  rcases withExt_shape hg (splitExt_ne_none_of_withExt h1) with ⟨b, _, hw⟩ | ⟨b, e, _, _, hw⟩
  · rw [hw n] at h1
    rw [hw m, ← h1] at h2
    have := List.append_cancel_left (Option.some.inj h2)
    exact (partExt_inj (List.cons.inj this).2).symm
  · rw [hw n] at h1
    rw [hw m, ← h1] at h2
    have := List.append_cancel_left (Option.some.inj h2)
    exact (partExt_inj (List.append_cancel_right (List.cons.inj this).2)).symm

-- ---------------------------------------------------------------- 5. removal

/-- strongest form: the stem is not `.` and is not numbered (its own extension is not `part` +
    digits).  No `Good` hypothesis: names with a `pna` extension always are. -/
theorem removeExt_withExt_pna_strong (name w : Str) (n : Nat)
    (hp : ∃ stem e, splitExt name = some (stem, some e) ∧ e.map lower = ['p', 'n', 'a'] ∧
      ¬ Numbered stem ∧ stem ≠ ['.'])
    (h : withExt name n = some w) : removeExt w = some name := by
  obtain ⟨stem, e, hs, he, hm, hdot⟩ := hp
  obtain ⟨hname, hstem, _⟩ := splitExt_some_ext hs
  rw [withExt_pna_unnumbered n hs he hm] at h
  cases h
  rw [removeExt_marked_pna stem e hstem hdot he n, hname]

theorem removeExt_withExt_pna (name w : Str) (n : Nat)
    (hp : ∃ stem e, splitExt name = some (stem, some e) ∧ e.map lower = ['p', 'n', 'a'] ∧
      NotMarked stem ∧ stem ≠ ['.'])
    (h : withExt name n = some w) : removeExt w = some name := by
  obtain ⟨stem, e, hs, he, hm, hdot⟩ := hp
  exact removeExt_withExt_pna_strong name w n ⟨stem, e, hs, he, not_numbered_of_notMarked hm, hdot⟩ h

/-- names without extension (no dot, or only a leading one; `.` included) -/
theorem removeExt_withExt_no_extension (name w : Str) (n : Nat)
    (hs : splitExt name = some (name, none)) (h : withExt name n = some w) :
    removeExt w = some name := by
  rw [withExt_plain name n hs] at h
  cases h
  exact removeExt_marked_plain name ((plain_iff name).mp hs).1 n

theorem removeExt_withExt_dotless (name w : Str) (n : Nat) (hd : '.' ∉ name) (hne : name ≠ [])
    (h : withExt name n = some w) : removeExt w = some name :=
  removeExt_withExt_no_extension name w n (plain_of_dotless name hne hd) h

/-- a part name `name` of a `pna` archive `base`: renumbering it does not change what removal
    gives, namely `base` -/
theorem removeExt_renumbered (base name w : Str) (k n : Nat)
    (hp : ∃ stem e, splitExt base = some (stem, some e) ∧ e.map lower = ['p', 'n', 'a'] ∧
      NotMarked stem ∧ stem ≠ ['.'])
    (hk : withExt base k = some name) (h : withExt name n = some w) :
    removeExt name = removeExt w ∧ removeExt w = some base := by
  have hg : Good base := by
    obtain ⟨stem, e, hs, he, _⟩ := hp
    exact good_of_pnaExt (by simp only [PnaExt, hs, he])
  have hw : withExt base n = some w := by rw [← withExt_renumber base name k n hg hk, h]
  rw [removeExt_withExt_pna base name k hp hk, removeExt_withExt_pna base w n hp hw]
  exact ⟨rfl, rfl⟩

-- ---------------------------------------------------------------- 6. paths

theorem dirPrefix_nil : DirPrefix [] := Or.inl rfl

theorem dirPrefix_slash (d : Str) : DirPrefix (d ++ ['/']) := Or.inr List.getLast?_concat

theorem splitPath_simple (dir name : Str) (hd : DirPrefix dir) (hn : '/' ∉ name) :
    splitPath (dir ++ name) = (dir, name) := splitPath_append dir name hd hn

theorem withExt_no_slash (name w : Str) (n : Nat) (hn : '/' ∉ name)
    (h : withExt name n = some w) : '/' ∉ w := slash_not_mem_withExt hn h

theorem withPart_simple (dir name : Str) (n : Nat) (hd : DirPrefix dir) (hn : '/' ∉ name) :
    withPart (dir ++ name) n = (withExt name n).map (dir ++ ·) := withPart_append dir name n hd hn

theorem removePart_simple (dir name : Str) (hd : DirPrefix dir) (hn : '/' ∉ name) :
    removePart (dir ++ name) = (removeExt name).map (dir ++ ·) := removePart_append dir name hd hn

theorem withPart_renumber (dir name q : Str) (n m : Nat) (hd : DirPrefix dir) (hn : '/' ∉ name)
    (hg : Good name) (h : withPart (dir ++ name) n = some q) :
    withPart q m = withPart (dir ++ name) m := by
  rw [withPart_append dir name n hd hn] at h
  cases hw : withExt name n with
  | none => rw [hw] at h; cases h
  | some w =>
    rw [hw] at h
    cases h
    rw [withPart_append dir w m hd (slash_not_mem_withExt hn hw), withPart_append dir name m hd hn,
      withExt_renumber name w n m hg hw]

theorem withPart_injective (dir name q : Str) (n m : Nat) (hd : DirPrefix dir) (hn : '/' ∉ name)
    (hg : Good name) (h1 : withPart (dir ++ name) n = some q)
    (h2 : withPart (dir ++ name) m = some q) : n = m := by
  rw [withPart_append dir name _ hd hn] at h1 h2
  cases hw1 : withExt name n with
  | none => rw [hw1] at h1; cases h1
  | some w1 =>
    cases hw2 : withExt name m with
    | none => rw [hw2] at h2; cases h2
    | some w2 =>
      rw [hw1] at h1
      rw [hw2, ← h1] at h2
      have : w2 = w1 := List.append_cancel_left (Option.some.inj h2)
      subst this
      exact withExt_injective name w2 n m hg hw1 hw2

theorem removePart_withPart_pna (dir name q : Str) (n : Nat) (hd : DirPrefix dir)
    (hn : '/' ∉ name)
    (hp : ∃ stem e, splitExt name = some (stem, some e) ∧ e.map lower = ['p', 'n', 'a'] ∧
      NotMarked stem ∧ stem ≠ ['.'])
    (h : withPart (dir ++ name) n = some q) : removePart q = some (dir ++ name) := by
  rw [withPart_append dir name n hd hn] at h
  cases hw : withExt name n with
  | none => rw [hw] at h; cases h
  | some w =>
    rw [hw] at h
    cases h
    rw [removePart_append dir w hd (slash_not_mem_withExt hn hw),
      removeExt_withExt_pna name w n hp hw]
    rfl

theorem removePart_withPart_dotless (dir name q : Str) (n : Nat) (hd : DirPrefix dir)
    (hn : '/' ∉ name) (hdot : '.' ∉ name) (hne : name ≠ [])
    (h : withPart (dir ++ name) n = some q) : removePart q = some (dir ++ name) := by
  rw [withPart_append dir name n hd hn] at h
  cases hw : withExt name n with
  | none => rw [hw] at h; cases h
  | some w =>
    rw [hw] at h
    cases h
    rw [removePart_append dir w hd (slash_not_mem_withExt hn hw),
      removeExt_withExt_dotless name w n hdot hne hw]
    rfl

-- ---------------------------------------------------------------- 7. negative witnesses

/-- a non-`pna` extension does not round-trip: it is replaced, not kept -/
theorem neg_other_extension :
    withExt "x.tar".toList 1 = some "x.part1".toList ∧
    removeExt "x.part1".toList = some "x".toList ∧
    some "x".toList ≠ some "x.tar".toList := by decide +kernel

/-- `...x`: the stem is `..`; numbering gives `..`, which cannot be numbered again -/
theorem neg_dots_stem :
    withExt "...x".toList 1 = some "..".toList ∧ withExt "..".toList 2 = none ∧
    withExt "...x".toList 2 = some "..".toList ∧ ¬ Good "...x".toList := by decide +kernel

/-- `..x.y`: what is left of the stem `..x` is `.` -/
theorem neg_dot_stem_stem :
    withExt "..x.y".toList 1 = some "..".toList ∧ ¬ Good "..x.y".toList := by decide +kernel

/-- the wanted "every name not beginning with a dot is `Good`" is false: every renumbering of a
    non-`pna` name eats one more extension -/
theorem neg_no_leading_dots :
    let name := "a.b.c.d".toList
    name ≠ [] ∧ '/' ∉ name ∧ name.head? ≠ some '.' ∧ ¬ Good name ∧
    withExt name 1 = some "a.b.part1".toList ∧
    withExt "a.b.part1".toList 2 = some "a.part2".toList ∧
    withExt name 2 = some "a.b.part2".toList := by decide +kernel

/-- the same for hidden files with one more dot -/
theorem neg_single_leading_dot :
    ¬ Good ".a.b.c.d".toList ∧ Good ".a.b.c".toList ∧ ¬ Good "a...".toList := by decide +kernel

/-- `..pna` (stem `.`) is `Good` and its stem is not marked, it renumbers consistently, yet
    removal gives `..`: the wanted removal theorem needs `stem ≠ "."`.  `...pna` (stem `..`) does
    round-trip. -/
theorem neg_dot_stem_pna :
    let name := "..pna".toList
    Good name ∧ splitExt name = some (".".toList, some "pna".toList) ∧ NotMarked ".".toList ∧
    withExt name 1 = some "..part1.pna".toList ∧
    withExt "..part1.pna".toList 2 = some "..part2.pna".toList ∧
    removeExt "..part1.pna".toList = some "..".toList ∧
    removeExt "...part1.pna".toList = some "...pna".toList := by decide +kernel

/-- an already numbered name is not given back by removal: the stem must not be numbered -/
theorem neg_numbered_stem :
    withExt "a.part1.pna".toList 2 = some "a.part2.pna".toList ∧
    removeExt "a.part2.pna".toList = some "a.pna".toList ∧
    Numbered "a.part1".toList ∧ ¬ NotMarked "a.part1".toList := by decide +kernel

/-- between `¬ Numbered` and `NotMarked`: `part` + non-digits round-trips -/
theorem partx_round_trip :
    ¬ Numbered "a.partx".toList ∧ ¬ NotMarked "a.partx".toList ∧
    withExt "a.partx.pna".toList 1 = some "a.partx.part1.pna".toList ∧
    removeExt "a.partx.part1.pna".toList = some "a.partx.pna".toList := by decide +kernel

/-- `splitPath_simple` needs the directory prefix to end with the separator -/
theorem neg_dir_prefix :
    ¬ DirPrefix "dir".toList ∧ splitPath ("dir".toList ++ "x".toList) ≠ ("dir".toList, "x".toList) := by
  decide +kernel

/-- the two wanted statements that are false, refuted as stated -/
theorem wanted_good_of_no_leading_dots_false :
    ¬ ∀ name : Str, name ≠ [] → '/' ∉ name → name.head? ≠ some '.' → Good name :=
  fun H => absurd (H "a.b.c.d".toList (by decide) (by decide) (by decide)) (by decide +kernel)

theorem wanted_removeExt_withExt_pna_false :
    ¬ ∀ (name w : Str) (n : Nat), Good name →
      (∃ stem e, splitExt name = some (stem, some e) ∧ e.map lower = ['p', 'n', 'a'] ∧
        NotMarked stem) →
      withExt name n = some w → removeExt w = some name :=
  fun H => absurd
    (H "..pna".toList "..part1.pna".toList 1 (by decide +kernel)
      ⟨".".toList, "pna".toList, by decide +kernel, by decide, by decide⟩ (by decide +kernel))
    (by decide +kernel)

-- ---------------------------------------------------------------- 8. non-vacuity

example : withPart "dir/v1.2.pna".toList 3 = some "dir/v1.2.part3.pna".toList := by decide +kernel
example : withPart "dir/v1.2.part3.pna".toList 10 = some "dir/v1.2.part10.pna".toList := by
  decide +kernel
example : removePart "dir/v1.2.part10.pna".toList = some "dir/v1.2.pna".toList := by decide +kernel
example : Good "v1.2.pna".toList := by decide
example : PnaExt "v1.2.PnA".toList ∧ Good "archive.tar.gz".toList ∧ Good ".hidden.pna".toList := by
  decide +kernel
example : DirPrefix "dir/".toList ∧ '/' ∉ "v1.2.pna".toList := by decide

/-- the general theorems instantiated on the example path -/
example (m : Nat) : withPart "dir/v1.2.part3.pna".toList m = withPart "dir/v1.2.pna".toList m :=
  withPart_renumber "dir/".toList "v1.2.pna".toList _ 3 m (by decide) (by decide) (by decide)
    (by decide +kernel)

example : removePart "dir/v1.2.part3.pna".toList = some "dir/v1.2.pna".toList :=
  removePart_withPart_pna "dir/".toList "v1.2.pna".toList _ 3 (by decide) (by decide)
    ⟨"v1.2".toList, "pna".toList, by decide +kernel, by decide, by decide, by decide⟩
    (by decide +kernel)

end Pna.C15Part

#print axioms Pna.C15Part.decimal_nonempty
#print axioms Pna.C15Part.decimal_digits
#print axioms Pna.C15Part.decimal_no_dot_no_slash
#print axioms Pna.C15Part.decimal_left_inverse
#print axioms Pna.C15Part.decimal_injective
#print axioms Pna.C15Part.part_marker_decimal
#print axioms Pna.C15Part.part_marker_no_dot_no_slash
#print axioms Pna.C15Part.withExt_renumber
#print axioms Pna.C15Part.good_iff_renumber
#print axioms Pna.C15Part.good_withExt
#print axioms Pna.C15Part.good_of_pna_ext
#print axioms Pna.C15Part.good_of_no_extension
#print axioms Pna.C15Part.good_of_few_dots
#print axioms Pna.C15Part.good_iff_of_no_leading_dots
#print axioms Pna.C15Part.good_of_no_leading_dots
#print axioms Pna.C15Part.good_of_single_leading_dot
#print axioms Pna.C15Part.withExt_injective
#print axioms Pna.C15Part.removeExt_withExt_pna_strong
#print axioms Pna.C15Part.removeExt_withExt_pna
#print axioms Pna.C15Part.removeExt_withExt_no_extension
#print axioms Pna.C15Part.removeExt_withExt_dotless
#print axioms Pna.C15Part.removeExt_renumbered
#print axioms Pna.C15Part.dirPrefix_nil
#print axioms Pna.C15Part.dirPrefix_slash
#print axioms Pna.C15Part.splitPath_simple
#print axioms Pna.C15Part.withExt_no_slash
#print axioms Pna.C15Part.withPart_simple
#print axioms Pna.C15Part.removePart_simple
#print axioms Pna.C15Part.withPart_renumber
#print axioms Pna.C15Part.withPart_injective
#print axioms Pna.C15Part.removePart_withPart_pna
#print axioms Pna.C15Part.removePart_withPart_dotless
#print axioms Pna.C15Part.neg_other_extension
#print axioms Pna.C15Part.neg_dots_stem
#print axioms Pna.C15Part.neg_dot_stem_stem
#print axioms Pna.C15Part.neg_no_leading_dots
#print axioms Pna.C15Part.neg_single_leading_dot
#print axioms Pna.C15Part.neg_dot_stem_pna
#print axioms Pna.C15Part.neg_numbered_stem
#print axioms Pna.C15Part.partx_round_trip
#print axioms Pna.C15Part.neg_dir_prefix
#print axioms Pna.C15Part.wanted_good_of_no_leading_dots_false
#print axioms Pna.C15Part.wanted_removeExt_withExt_pna_false
