import PnaVerif.Lemmas.PartName
/-!
# C15 (multipart names) — part numbers in file names can be changed and removed consistently
Model: `Model/Cli/PartName.lean` (`with_part_n` / `remove_part_n`, after the fix that appends
`.partN` to a foreign extension instead of replacing it); proofs: `Lemmas/PartName.lean`.

* the decimal part number is non-empty, all digits, injective; `part` + digits is a part marker;
* numbering fails only for the names `""` and `".."`; renumbering is consistent on *every* name
  (`Good` is `True`, `good_iff_renumber`), and different numbers give different names;
* removal gives back the original name
  - for every name without a `pna` extension that is not itself numbered (exactly those:
    `removeExt_withExt_other_iff`), e.g. `x.tar ↦ x.tar.part1 ↦ x.tar`, `a.partition`;
  - for `pna` names whose stem is not `.` and is not itself numbered;
  and renumbering does not change what removal gives;
* the same on simple paths `dir ++ name`.

One wanted statement stays false and is refuted by a kernel-checked witness: removal on *every*
`pna` name with an unmarked stem — `..pna ↦ ..part1.pna ↦ ..`; the stem must not be `.`.
The witnesses of the former defect (`a.b.c.d`, `...x`, `x.tar`) are now positive examples.
-/
namespace Pna.C15Part
open Pna Pna.Cli.PartName

-- ---------------------------------------------------------------- 1. the decimal number

theorem decimal_nonempty (n : Nat) : decimal n ≠ [] := decimal_ne_nil n

theorem decimal_digits (n : Nat) : ∀ c ∈ decimal n, isDigit c = true :=
  fun _ h => isDigit_of_mem_decimal h

theorem decimal_no_dot_no_slash (n : Nat) : '.' ∉ decimal n ∧ '/' ∉ decimal n :=
  ⟨not_mem_decimal_of_not_digit (by decide), not_mem_decimal_of_not_digit (by decide)⟩

theorem decimal_left_inverse (n : Nat) : fromDecimal (decimal n) = n := fromDecimal_decimal n

theorem decimal_injective {n m : Nat} (h : decimal n = decimal m) : n = m := decimal_inj h

-- ---------------------------------------------------------------- 2. the marker

theorem part_marker_decimal (n : Nat) : isPartMarker (partPrefix ++ decimal n) = true :=
  isPartMarker_partExt n

theorem part_marker_no_dot_no_slash (n : Nat) :
    '.' ∉ partPrefix ++ decimal n ∧ '/' ∉ partPrefix ++ decimal n :=
  ⟨dot_not_mem_partExt n, slash_not_mem_partExt n⟩

-- ---------------------------------------------------------------- 3. renumbering

/-- numbering fails only when there is no file name -/
theorem withExt_eq_none_iff (name : Str) (n : Nat) :
    withExt name n = none ↔ name = [] ∨ name = ['.', '.'] := by
  rw [← splitExt_eq_none_iff]
  constructor
  · intro h
    apply Classical.byContradiction
    intro hs
    rcases withExt_shape hs with ⟨b, _, hw⟩ | ⟨b, e, _, _, hw⟩ <;> rw [hw n] at h <;> cases h
  · intro hs
    simp only [withExt, hs]

/-- renumbering a part name gives the name the original would have got — for every name -/
theorem withExt_renumber (name w : Str) (n m : Nat) (h : withExt name n = some w) :
    withExt w m = withExt name m := by
  rcases withExt_shape (splitExt_ne_none_of_withExt h) with ⟨b, hb, hw⟩ | ⟨b, e, hb, he, hw⟩
  · rw [hw n] at h
    cases h
    rw [hw m]
    exact withExt_marked_plain b hb n m
  · rw [hw n] at h
    cases h
    rw [hw m]
    exact withExt_marked_pna b e hb he n m

/-- `Good` (now `True`) is the weakest hypothesis for consistent renumbering -/
theorem good_iff_renumber (name : Str) :
    Good name ↔ ∀ n m w, withExt name n = some w → withExt w m = withExt name m :=
  ⟨fun _ n m w h => withExt_renumber name w n m h, fun _ => trivial⟩

theorem good_all (name : Str) : Good name := trivial

theorem good_withExt (name w : Str) (n : Nat) (_h : withExt name n = some w) : Good w := trivial

theorem good_of_not_pna (name : Str) (_h : ¬ PnaExt name) : Good name := trivial

theorem good_of_pna_ext (name : Str) (_h : PnaExt name) : Good name := trivial

-- ---------------------------------------------------------------- 4. distinctness

theorem withExt_injective (name w : Str) (n m : Nat)
    (h1 : withExt name n = some w) (h2 : withExt name m = some w) : n = m := by
  rcases withExt_shape (splitExt_ne_none_of_withExt h1) with ⟨b, _, hw⟩ | ⟨b, e, _, _, hw⟩
  · rw [hw n] at h1
    rw [hw m, ← h1] at h2
    have := List.append_cancel_left (Option.some.inj h2)
    exact (partExt_inj (List.cons.inj this).2).symm
  · rw [hw n] at h1
    rw [hw m, ← h1] at h2
    have := List.append_cancel_left (Option.some.inj h2)
    exact (partExt_inj (List.append_cancel_right (List.cons.inj this).2)).symm

-- ---------------------------------------------------------------- 5. removal

/-- strongest form: the stem is not `.` and is not numbered (its own extension is not `part` +
    digits).  No `Good` hypothesis: names with a `pna` extension always are. -/
theorem removeExt_withExt_pna_strong (name w : Str) (n : Nat)
    (hp : ∃ stem e, splitExt name = some (stem, some e) ∧ e.map lower = ['p', 'n', 'a'] ∧
      ¬ Numbered stem ∧ stem ≠ ['.'])
    (h : withExt name n = some w) : removeExt w = some name := by
  obtain ⟨stem, e, hs, he, hm, hdot⟩ := hp
  obtain ⟨hname, hstem, _⟩ := splitExt_some_ext hs
  rw [withExt_pna_unnumbered n hs he hm] at h
  cases h
  rw [removeExt_marked_pna stem e hstem hdot he n, hname]

theorem removeExt_withExt_pna (name w : Str) (n : Nat)
    (hp : ∃ stem e, splitExt name = some (stem, some e) ∧ e.map lower = ['p', 'n', 'a'] ∧
      NotMarked stem ∧ stem ≠ ['.'])
    (h : withExt name n = some w) : removeExt w = some name := by
  obtain ⟨stem, e, hs, he, hm, hdot⟩ := hp
  exact removeExt_withExt_pna_strong name w n ⟨stem, e, hs, he, not_numbered_of_notMarked hm, hdot⟩ h

/-- every name that has no `pna` extension and is not itself numbered round-trips: `.partN` is
    appended to the whole name and removed again (`x.tar ↦ x.tar.partN ↦ x.tar`) -/
theorem removeExt_withExt_other (name w : Str) (n : Nat) (h : withExt name n = some w)
    (hn : ¬ PnaExt name) (hm : ¬ Numbered name) : removeExt w = some name := by
  have hs := splitExt_ne_none_of_withExt h
  have hne : name ≠ [] := fun h0 => hs ((splitExt_eq_none_iff name).mpr (Or.inl h0))
  rw [withExt_append n hs hn hm] at h
  cases h
  exact removeExt_marked_plain name hne n

/-- the side condition is exact: a numbered name gets its marker replaced, and removal then gives
    the stem -/
theorem removeExt_withExt_other_iff (name w : Str) (n : Nat) (h : withExt name n = some w)
    (hn : ¬ PnaExt name) : removeExt w = some name ↔ ¬ Numbered name := by
  refine ⟨fun hr hm => ?_, removeExt_withExt_other name w n h hn⟩
  unfold Numbered at hm
  split at hm
  · rename_i stem e hs
    obtain ⟨hname, hstem, _⟩ := splitExt_some_ext hs
    rw [withExt_replace n hs hm] at h
    cases h
    rw [removeExt_marked_plain stem hstem n] at hr
    have := congrArg List.length (Option.some.inj hr)
    rw [hname] at this
    simp at this
  · exact hm

/-- with the stronger `NotMarked` (no extension beginning with `part` at all) -/
theorem removeExt_withExt_other_notMarked (name w : Str) (n : Nat) (h : withExt name n = some w)
    (hn : ¬ PnaExt name) (hm : NotMarked name) : removeExt w = some name :=
  removeExt_withExt_other name w n h hn (not_numbered_of_notMarked hm)

/-- names without extension (no dot, or only a leading one; `.` included) -/
theorem removeExt_withExt_no_extension (name w : Str) (n : Nat)
    (hs : splitExt name = some (name, none)) (h : withExt name n = some w) :
    removeExt w = some name :=
  removeExt_withExt_other name w n h (by simp only [PnaExt, hs, not_false_eq_true])
    (by simp only [Numbered, hs, not_false_eq_true])

theorem removeExt_withExt_dotless (name w : Str) (n : Nat) (hd : '.' ∉ name) (hne : name ≠ [])
    (h : withExt name n = some w) : removeExt w = some name :=
  removeExt_withExt_no_extension name w n (plain_of_dotless name hne hd) h

/-- whenever removal inverts numbering on `base`, renumbering a part name of `base` does not
    change what removal gives, namely `base` -/
theorem removeExt_renumbered_of (base name w : Str) (k n : Nat)
    (hr : ∀ v j, withExt base j = some v → removeExt v = some base)
    (hk : withExt base k = some name) (h : withExt name n = some w) :
    removeExt name = removeExt w ∧ removeExt w = some base := by
  have hw : withExt base n = some w := by rw [← withExt_renumber base name k n hk, h]
  rw [hr name k hk, hr w n hw]
  exact ⟨rfl, rfl⟩

/-- a part name `name` of a `pna` archive `base` -/
theorem removeExt_renumbered (base name w : Str) (k n : Nat)
    (hp : ∃ stem e, splitExt base = some (stem, some e) ∧ e.map lower = ['p', 'n', 'a'] ∧
      NotMarked stem ∧ stem ≠ ['.'])
    (hk : withExt base k = some name) (h : withExt name n = some w) :
    removeExt name = removeExt w ∧ removeExt w = some base :=
  removeExt_renumbered_of base name w k n
    (fun v j hv => removeExt_withExt_pna base v j hp hv) hk h

/-- a part name `name` of any other file `base` that is not itself numbered -/
theorem removeExt_renumbered_other (base name w : Str) (k n : Nat)
    (hn : ¬ PnaExt base) (hm : ¬ Numbered base)
    (hk : withExt base k = some name) (h : withExt name n = some w) :
    removeExt name = removeExt w ∧ removeExt w = some base :=
  removeExt_renumbered_of base name w k n
    (fun v j hv => removeExt_withExt_other base v j hv hn hm) hk h

-- ---------------------------------------------------------------- 6. paths

theorem dirPrefix_nil : DirPrefix [] := Or.inl rfl

theorem dirPrefix_slash (d : Str) : DirPrefix (d ++ ['/']) := Or.inr List.getLast?_concat

theorem splitPath_simple (dir name : Str) (hd : DirPrefix dir) (hn : '/' ∉ name) :
    splitPath (dir ++ name) = (dir, name) := splitPath_append dir name hd hn

theorem withExt_no_slash (name w : Str) (n : Nat) (hn : '/' ∉ name)
    (h : withExt name n = some w) : '/' ∉ w := slash_not_mem_withExt hn h

theorem withPart_simple (dir name : Str) (n : Nat) (hd : DirPrefix dir) (hn : '/' ∉ name) :
    withPart (dir ++ name) n = (withExt name n).map (dir ++ ·) := withPart_append dir name n hd hn

theorem removePart_simple (dir name : Str) (hd : DirPrefix dir) (hn : '/' ∉ name) :
    removePart (dir ++ name) = (removeExt name).map (dir ++ ·) := removePart_append dir name hd hn

theorem withPart_renumber (dir name q : Str) (n m : Nat) (hd : DirPrefix dir) (hn : '/' ∉ name)
    (h : withPart (dir ++ name) n = some q) :
    withPart q m = withPart (dir ++ name) m := by
  rw [withPart_append dir name n hd hn] at h
  cases hw : withExt name n with
  | none => rw [hw] at h; cases h
  | some w =>
    rw [hw] at h
    cases h
    rw [withPart_append dir w m hd (slash_not_mem_withExt hn hw), withPart_append dir name m hd hn,
      withExt_renumber name w n m hw]

theorem withPart_injective (dir name q : Str) (n m : Nat) (hd : DirPrefix dir) (hn : '/' ∉ name)
    (h1 : withPart (dir ++ name) n = some q) (h2 : withPart (dir ++ name) m = some q) :
    n = m := by
  rw [withPart_append dir name _ hd hn] at h1 h2
  cases hw1 : withExt name n with
  | none => rw [hw1] at h1; cases h1
  | some w1 =>
    cases hw2 : withExt name m with
    | none => rw [hw2] at h2; cases h2
    | some w2 =>
      rw [hw1] at h1
      rw [hw2, ← h1] at h2
      have : w2 = w1 := List.append_cancel_left (Option.some.inj h2)
      subst this
      exact withExt_injective name w2 n m hw1 hw2

theorem removePart_withPart_pna (dir name q : Str) (n : Nat) (hd : DirPrefix dir)
    (hn : '/' ∉ name)
    (hp : ∃ stem e, splitExt name = some (stem, some e) ∧ e.map lower = ['p', 'n', 'a'] ∧
      NotMarked stem ∧ stem ≠ ['.'])
    (h : withPart (dir ++ name) n = some q) : removePart q = some (dir ++ name) := by
  rw [withPart_append dir name n hd hn] at h
  cases hw : withExt name n with
  | none => rw [hw] at h; cases h
  | some w =>
    rw [hw] at h
    cases h
    rw [removePart_append dir w hd (slash_not_mem_withExt hn hw),
      removeExt_withExt_pna name w n hp hw]
    rfl

theorem removePart_withPart_other (dir name q : Str) (n : Nat) (hd : DirPrefix dir)
    (hn : '/' ∉ name) (hp : ¬ PnaExt name) (hm : ¬ Numbered name)
    (h : withPart (dir ++ name) n = some q) : removePart q = some (dir ++ name) := by
  rw [withPart_append dir name n hd hn] at h
  cases hw : withExt name n with
  | none => rw [hw] at h; cases h
  | some w =>
    rw [hw] at h
    cases h
    rw [removePart_append dir w hd (slash_not_mem_withExt hn hw),
      removeExt_withExt_other name w n hw hp hm]
    rfl

theorem removePart_withPart_dotless (dir name q : Str) (n : Nat) (hd : DirPrefix dir)
    (hn : '/' ∉ name) (hdot : '.' ∉ name) (hne : name ≠ [])
    (h : withPart (dir ++ name) n = some q) : removePart q = some (dir ++ name) := by
  have hs := plain_of_dotless name hne hdot
  exact removePart_withPart_other dir name q n hd hn
    (by simp only [PnaExt, hs, not_false_eq_true])
    (by simp only [Numbered, hs, not_false_eq_true]) h

-- ---------------------------------------------------------------- 7. negative witnesses

/-- no file name, no part name -/
theorem neg_no_file_name : withExt "".toList 1 = none ∧ withExt "..".toList 1 = none := by
  decide +kernel

/-- `..pna` (stem `.`) has an unmarked stem and renumbers consistently, yet removal gives `..`:
    the removal theorem needs `stem ≠ "."`.  `...pna` (stem `..`) does round-trip. -/
theorem neg_dot_stem_pna :
    let name := "..pna".toList
    splitExt name = some (".".toList, some "pna".toList) ∧ NotMarked ".".toList ∧
    withExt name 1 = some "..part1.pna".toList ∧
    withExt "..part1.pna".toList 2 = some "..part2.pna".toList ∧
    removeExt "..part1.pna".toList = some "..".toList ∧
    removeExt "...part1.pna".toList = some "...pna".toList := by decide +kernel

/-- an already numbered `pna` name is not given back by removal: the stem must not be numbered -/
theorem neg_numbered_stem :
    withExt "a.part1.pna".toList 2 = some "a.part2.pna".toList ∧
    removeExt "a.part2.pna".toList = some "a.pna".toList ∧
    Numbered "a.part1".toList ∧ ¬ NotMarked "a.part1".toList := by decide +kernel

/-- the same without `pna`: the marker is replaced, removal gives the stem -/
theorem neg_numbered_name :
    Numbered "a.part1".toList ∧ ¬ PnaExt "a.part1".toList ∧
    withExt "a.part1".toList 2 = some "a.part2".toList ∧
    removeExt "a.part2".toList = some "a".toList := by decide +kernel

/-- between `¬ Numbered` and `NotMarked`: `part` + non-digits round-trips, with and without
    `pna` (`removeExt` tests the prefix `part` only, but always on the appended marker) -/
theorem partx_round_trip :
    ¬ Numbered "a.partx".toList ∧ ¬ NotMarked "a.partx".toList ∧
    withExt "a.partx.pna".toList 1 = some "a.partx.part1.pna".toList ∧
    removeExt "a.partx.part1.pna".toList = some "a.partx.pna".toList ∧
    ¬ Numbered "a.partition".toList ∧ ¬ NotMarked "a.partition".toList ∧
    withExt "a.partition".toList 1 = some "a.partition.part1".toList ∧
    removeExt "a.partition.part1".toList = some "a.partition".toList := by decide +kernel

/-- `splitPath_simple` needs the directory prefix to end with the separator -/
theorem neg_dir_prefix :
    ¬ DirPrefix "dir".toList ∧
    splitPath ("dir".toList ++ "x".toList) ≠ ("dir".toList, "x".toList) := by
  decide +kernel

/-- the wanted removal statement without `stem ≠ "."`, refuted as stated -/
theorem wanted_removeExt_withExt_pna_false :
    ¬ ∀ (name w : Str) (n : Nat), Good name →
      (∃ stem e, splitExt name = some (stem, some e) ∧ e.map lower = ['p', 'n', 'a'] ∧
        NotMarked stem) →
      withExt name n = some w → removeExt w = some name :=
  fun H => absurd
    (H "..pna".toList "..part1.pna".toList 1 trivial
      ⟨".".toList, "pna".toList, by decide +kernel, by decide, by decide⟩ (by decide +kernel))
    (by decide +kernel)

-- ---------------------------------------------------------------- 8. non-vacuity, new behaviour

example : withPart "dir/v1.2.pna".toList 3 = some "dir/v1.2.part3.pna".toList := by decide +kernel
example : withPart "dir/v1.2.part3.pna".toList 10 = some "dir/v1.2.part10.pna".toList := by
  decide +kernel
example : removePart "dir/v1.2.part10.pna".toList = some "dir/v1.2.pna".toList := by decide +kernel
example : Good "v1.2.pna".toList := by decide
example : PnaExt "v1.2.PnA".toList ∧ ¬ PnaExt "archive.tar.gz".toList := by decide +kernel
example : DirPrefix "dir/".toList ∧ '/' ∉ "v1.2.pna".toList := by decide

/-- a foreign extension is kept: number, renumber, remove -/
example :
    withExt "backup.2024.01.tar".toList 2 = some "backup.2024.01.tar.part2".toList ∧
    withExt "backup.2024.01.tar.part2".toList 3 = some "backup.2024.01.tar.part3".toList ∧
    removeExt "backup.2024.01.tar.part3".toList = some "backup.2024.01.tar".toList := by
  decide +kernel

/-- the former counterexamples -/
example :
    withExt "x.tar".toList 1 = some "x.tar.part1".toList ∧
    removeExt "x.tar.part1".toList = some "x.tar".toList ∧
    withExt "a.b.c.d".toList 1 = some "a.b.c.d.part1".toList ∧
    withExt "a.b.c.d.part1".toList 2 = some "a.b.c.d.part2".toList ∧
    withExt "a.b.c.d".toList 2 = some "a.b.c.d.part2".toList ∧
    withExt "...x".toList 1 = some "...x.part1".toList ∧
    withExt "...x.part1".toList 2 = some "...x.part2".toList ∧
    removeExt "...x.part2".toList = some "...x".toList ∧
    withExt "..x.y".toList 1 = some "..x.y.part1".toList := by decide +kernel

/-- the general theorems instantiated -/
example (m : Nat) : withPart "dir/v1.2.part3.pna".toList m = withPart "dir/v1.2.pna".toList m :=
  withPart_renumber "dir/".toList "v1.2.pna".toList _ 3 m (by decide) (by decide)
    (by decide +kernel)

example : removePart "dir/v1.2.part3.pna".toList = some "dir/v1.2.pna".toList :=
  removePart_withPart_pna "dir/".toList "v1.2.pna".toList _ 3 (by decide) (by decide)
    ⟨"v1.2".toList, "pna".toList, by decide +kernel, by decide, by decide, by decide⟩
    (by decide +kernel)

example : removePart "d/backup.2024.01.tar.part2".toList = some "d/backup.2024.01.tar".toList :=
  removePart_withPart_other "d/".toList "backup.2024.01.tar".toList _ 2 (by decide) (by decide)
    (by decide +kernel) (by decide +kernel) (by decide +kernel)

end Pna.C15Part

#print axioms Pna.C15Part.decimal_nonempty
#print axioms Pna.C15Part.decimal_digits
#print axioms Pna.C15Part.decimal_no_dot_no_slash
#print axioms Pna.C15Part.decimal_left_inverse
#print axioms Pna.C15Part.decimal_injective
#print axioms Pna.C15Part.part_marker_decimal
#print axioms Pna.C15Part.part_marker_no_dot_no_slash
#print axioms Pna.C15Part.withExt_eq_none_iff
#print axioms Pna.C15Part.withExt_renumber
#print axioms Pna.C15Part.good_iff_renumber
#print axioms Pna.C15Part.good_all
#print axioms Pna.C15Part.good_withExt
#print axioms Pna.C15Part.good_of_not_pna
#print axioms Pna.C15Part.good_of_pna_ext
#print axioms Pna.C15Part.withExt_injective
#print axioms Pna.C15Part.removeExt_withExt_pna_strong
#print axioms Pna.C15Part.removeExt_withExt_pna
#print axioms Pna.C15Part.removeExt_withExt_other
#print axioms Pna.C15Part.removeExt_withExt_other_iff
#print axioms Pna.C15Part.removeExt_withExt_other_notMarked
#print axioms Pna.C15Part.removeExt_withExt_no_extension
#print axioms Pna.C15Part.removeExt_withExt_dotless
#print axioms Pna.C15Part.removeExt_renumbered_of
#print axioms Pna.C15Part.removeExt_renumbered
#print axioms Pna.C15Part.removeExt_renumbered_other
#print axioms Pna.C15Part.dirPrefix_nil
#print axioms Pna.C15Part.dirPrefix_slash
#print axioms Pna.C15Part.splitPath_simple
#print axioms Pna.C15Part.withExt_no_slash
#print axioms Pna.C15Part.withPart_simple
#print axioms Pna.C15Part.removePart_simple
#print axioms Pna.C15Part.withPart_renumber
#print axioms Pna.C15Part.withPart_injective
#print axioms Pna.C15Part.removePart_withPart_pna
#print axioms Pna.C15Part.removePart_withPart_other
#print axioms Pna.C15Part.removePart_withPart_dotless
#print axioms Pna.C15Part.neg_no_file_name
#print axioms Pna.C15Part.neg_dot_stem_pna
#print axioms Pna.C15Part.neg_numbered_stem
#print axioms Pna.C15Part.neg_numbered_name
#print axioms Pna.C15Part.partx_round_trip
#print axioms Pna.C15Part.neg_dir_prefix
#print axioms Pna.C15Part.wanted_removeExt_withExt_pna_false
