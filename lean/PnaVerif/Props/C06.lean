import PnaVerif.Lemmas.Chunk
/-!
# C06 — an interrupted write leaves a prefix that is reported, not misread
Chunk level (floor): every proper prefix of an encoded chunk — whatever bytes preceded it were
consumed by complete chunks — is answered with `UnexpectedEof`, never `Ok`, never a panic, by
both parsers.  The archive-level statement (entries wholly within the prefix are returned, then
the error) is `Pna.C06.prefix_items` in `Props/C06Archive.lean`.
-/
namespace Pna.C06
open Pna

theorem chunk_prefix_eof (c : Chunk) (r : Bytes) (k : Nat)
    (hlen : c.data.length < 2 ^ 32) (hk : k < c.encode.length) :
    decodeStream ((c.encode ++ r).take k) = .error .eof :=
  decodeStream_prefix_eof c r k hlen hk

theorem chunk_prefix_eof_slice (c : Chunk) (r : Bytes) (k : Nat)
    (hlen : c.data.length < 2 ^ 32) (hk : k < c.encode.length) :
    decodeSlice ((c.encode ++ r).take k) = .error .eof := by
  rw [decodeSlice_eq_decodeStream]; exact decodeStream_prefix_eof c r k hlen hk

theorem parser_never_panics (bs : Bytes) :
    (decodeStream bs).isPanic = false ∧ (decodeSlice bs).isPanic = false := by
  constructor
  · exact decodeStream_no_panic bs
  · rw [decodeSlice_eq_decodeStream]; exact decodeStream_no_panic bs

/-- A truncated signature is reported (`eof`), a wrong one is `InvalidData`; never `Ok`. -/
theorem signature_prefix (k : Nat) (hk : k < 8) (rest : Bytes) :
    readSigStream ((signature ++ rest).take k) = .error .eof := by
  unfold readSigStream
  rw [readExact_take_short _ _ _ hk]; rfl

example : decodeStream (((Chunk.mk ChunkType.AEND []).encode ++ []).take 11) = .error .eof := by
  decide +kernel

end Pna.C06
