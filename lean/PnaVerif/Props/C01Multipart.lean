import PnaVerif.Props.C04Read
import PnaVerif.Props.C01Archive
/-!
# C01 (capstone) for multipart archives — write, split into part files, read the parts in sequence, open everything

`Props/C01Archive.lean` proves read ∘ write = id for a single archive (`C01A.archive_roundtrip`).  Here the written
archive is cut into part files (`writeSplit`, `encodeParts`: what `pna split` / `create --split` produce), the parts
are read in sequence (`readMultipartWith`), and every entry is opened exactly as in the single-archive capstone
(`openAll`).  The result is the same right-hand side: clean end, and for every file of every item, in order: name,
kind, metadata, xattrs, extra chunks, content = `writes.flatten`.

* `openReadEntry_same`          opening an entry depends on its data only through the concatenation (`SameE`);
* `archive_roundtrip_multipart` the capstone;
* `roundtrip_needs_extra_unmixed`   the one hypothesis that is new (`hu`: no SDAT chunk among the uninterpreted chunks of
                                a file entry) is needed: `LFile.WF` allows such a chunk, `split` cuts it, and it
                                comes back as two chunks.

Composition: `C04R.split_read_entries_all2` (= `C04M.multipart_eq_concat` + `C04.nothing_lost` +
`C03R.parseEntry_recut`/`groupItems_recut` + `readArchive_encode`) gives the written entries back up to `SameE`;
`openAll_same` transports `Capstone.openAll_items` (= the data pipeline, entry codecs and solid-block theorems)
along `SameE`.
-/
namespace Pna.C01M
open Pna Pna.Capstone Pna.C04M

-- ---------------------------------------------------------------- opening is invariant under `SameE`

theorem openEntry_same (cfg : StreamCfg) {a b : NormalEntry} (h : SameN a b) : openEntry cfg a = openEntry cfg b := by
  obtain ⟨h1, _, h3, h4, h5, h6⟩ := h
  unfold openEntry openNormal
  rw [C01.readData_recut cfg.P cfg.C cfg.sel cfg.key a.data b.data h6, h1, h3, h4, h5]

theorem expandSolid_same (cfg : StreamCfg) {a b : SolidEntry} (h : SameS a b) :
    expandSolid cfg a = expandSolid cfg b := by
  unfold expandSolid
  rw [C01.readData_recut cfg.P cfg.C cfg.sel cfg.key a.data b.data h.2.2.2]

/-- **Opening an entry does not depend on where its data is cut**: `openNormal` / `expandSolid` see the data only
    through `data.flatten`, everything else is taken literally. -/
theorem openReadEntry_same (cfg : StreamCfg) {a b : ReadEntry} (h : SameE a b) :
    openReadEntry cfg a = openReadEntry cfg b := by
  cases a with
  | normal x =>
    cases b with
    | normal y => simp only [openReadEntry, openEntry_same cfg (show SameN x y from h)]
    | solid y => exact absurd h (by simp [SameE])
  | solid x =>
    cases b with
    | normal y => exact absurd h (by simp [SameE])
    | solid y => simp only [openReadEntry, expandSolid_same cfg (show SameS x y from h)]

theorem openAll_same {l m : List ReadEntry} (h : All2 SameE l m) :
    ∀ cfgOf : Nat → StreamCfg, openAll cfgOf l = openAll cfgOf m := by
  induction h with
  | nil => intro _; rfl
  | cons hab _ ih =>
    intro cfgOf
    simp only [openAll]
    rw [openReadEntry_same (cfgOf 0) hab, ih]

theorem All2_recut (es : List ReadEntry) : All2 SameE es (es.map ReadEntry.recut) := by
  induction es with
  | nil => exact .nil
  | cons e es ih => exact .cons (SameE_recut e).symm ih

-- ---------------------------------------------------------------- the read model for part files

/-- The analogue of `Capstone.readAll` for a sequence of part files: the multipart reader
    (`Archive::read_header`, then `read_next_archive` for every further part) followed by opening every entry;
    `next` is the ANXT flag of the last part file read (false = the sequence is complete). -/
def readAllMultipart (cfgOf : Nat → StreamCfg) (parts : List Bytes) : ReadAll :=
  let m := readMultipartWith chunksStream true 0 [] parts
  { files := openAll cfgOf m.1, status := m.2,
    next := match parts.getLast? with
      | some p => (readArchiveWith chunksStream [] p).next
      | none => false }

-- ---------------------------------------------------------------- the written items are `Unmixed`

/-- the cheapest hypothesis that makes every serialised item `Unmixed`: a file entry keeps no SDAT chunk among its
    uninterpreted chunks (`LFile.WF.extraUn` already excludes FDAT; solid blocks are written with `extra = []`) -/
def ExtraUnmixed (items : List LItem) : Prop :=
  ∀ s cfg f, LItem.file s cfg f ∈ items → ∀ c ∈ f.extra, c.ty ≠ ChunkType.SDAT

theorem toReadEntry_unmixed (it : LItem)
    (h : ∀ s cfg f, it = LItem.file s cfg f → ∀ c ∈ f.extra, c.ty ≠ ChunkType.SDAT) :
    Unmixed (serEntry (toReadEntry it)) := by
  cases it with
  | file s cfg f => exact serN_unmixed _ (h s cfg f rfl)
  | block s cfg fs => exact serS_unmixed _ (fun _ hc => absurd hc List.not_mem_nil)

-- ---------------------------------------------------------------- the capstone

/-- the last part file of a complete sequence carries no ANXT -/
theorem last_part_next (bodies : List (List Chunk)) (hne : bodies ≠ []) (hlen : bodies.length ≤ 2 ^ 32)
    (hfit : ChunksFit bodies.flatten) (hno : BodiesClean bodies) :
    (match (encodeParts bodies).getLast? with
      | some p => (readArchiveWith chunksStream [] p).next
      | none => false) = false := by
  have hpos : 0 < bodies.length := List.length_pos_iff.mpr hne
  have hi : bodies.length - 1 < bodies.length := by omega
  have hi2 : bodies.length - 1 < (encodeParts bodies).length := by rw [encodeParts_length]; exact hi
  have hl : (encodeParts bodies).getLast? = some ((encodeParts bodies)[bodies.length - 1]'hi2) := by
    rw [List.getLast?_eq_getElem?, encodeParts_length, List.getElem?_eq_getElem hi2]
  rw [hl]
  simp only
  rw [(part_next_flag bodies hlen hfit hno (bodies.length - 1) hi []).1]
  simp only [decide_eq_false_iff_not]
  omega

/-- **C01 for multipart archives, end to end.**  For every list of well-formed items — any mix of normal entries
    and solid blocks, each with its own writer, codec, cipher, key, IV — written as an archive, cut into part files
    of at most `maxFile` bytes (entries and data chunks cut wherever the limit falls), at most 2^32 of them:
    reading the part files in sequence with the configurations the items were written with succeeds, ends cleanly
    (status ok, no ANXT on the last part), and returns in order, for every file of every item (block files in
    place), its name, kind, metadata, extended attributes, extra chunks and exactly the bytes written —
    the same right-hand side as `C01A.archive_roundtrip`.
    `hu` is the only hypothesis on the items that the single-archive capstone does not have (and it is needed:
    `roundtrip_needs_extra_unmixed`); `hlen` is needed as well (`C04M.too_many_parts_unreadable`). -/
theorem archive_roundtrip_multipart (items : List LItem) (hw : ∀ it ∈ items, it.WF) (hu : ExtraUnmixed items)
    (maxFile : Nat) (bodies : List (List Chunk))
    (hs : writeSplit ((items.map toReadEntry).map serEntry) maxFile = .ok bodies) (hlen : bodies.length ≤ 2 ^ 32)
    (cfgOf : Nat → StreamCfg) (hcfg : ∀ i (h : i < items.length), cfgOf i = items[i].cfg) :
    readAllMultipart cfgOf (encodeParts bodies)
      = { files := (items.flatMap LItem.files).map
            (fun f => .ok ⟨f.name, f.kind, f.md, f.xattrs, f.extra, f.writes.flatten⟩),
          status := .ok (), next := false } := by
  have hwf : ∀ e ∈ items.map toReadEntry, e.WF := by
    intro e he
    obtain ⟨it, hit, rfl⟩ := List.mem_map.mp he
    exact toReadEntry_WF it (hw it hit)
  have hnm : ∀ e ∈ items.map toReadEntry, NoMarkers e.extra := by
    intro e he
    obtain ⟨it, hit, rfl⟩ := List.mem_map.mp he
    exact toReadEntry_noMarkers it (hw it hit)
  have hun : ∀ e ∈ items.map toReadEntry, Unmixed (serEntry e) := by
    intro e he
    obtain ⟨it, hit, rfl⟩ := List.mem_map.mp he
    exact toReadEntry_unmixed it (fun s cfg f h => hu s cfg f (h ▸ hit))
  have hfit := items_fit items hw
  obtain ⟨p1, p2⟩ := C04R.split_read_entries_all2 (items.map toReadEntry) hwf hnm hun hfit maxFile bodies hs hlen
  have hiw : ∀ it ∈ (items.map toReadEntry).map serEntry, ItemWF it := by
    intro it hit
    obtain ⟨e, he, rfl⟩ := List.mem_map.mp hit
    exact serEntry_ItemWF e (hwf e he) (hnm e he)
  obtain ⟨hne, hbf, hclean, _, _⟩ := split_then_read_partial _ maxFile bodies hs hiw
    (by rw [← List.flatMap_def]; exact hfit) hlen
  unfold readAllMultipart
  simp only
  rw [last_part_next bodies hne hlen hbf hclean, p2, openAll_same p1 cfgOf,
    openAll_same (All2_recut (items.map toReadEntry)) cfgOf, openAll_items items hw cfgOf hcfg]
  rfl

/-- the same with the reader's configurations spelled out: those of the items, by position -/
theorem archive_roundtrip_multipart_own (items : List LItem) (hw : ∀ it ∈ items, it.WF) (hu : ExtraUnmixed items)
    (maxFile : Nat) (bodies : List (List Chunk))
    (hs : writeSplit ((items.map toReadEntry).map serEntry) maxFile = .ok bodies) (hlen : bodies.length ≤ 2 ^ 32) :
    readAllMultipart (cfgsOf items) (encodeParts bodies)
      = { files := (items.flatMap LItem.files).map (fun f => .ok f.out), status := .ok (), next := false } :=
  archive_roundtrip_multipart items hw hu maxFile bodies hs hlen (cfgsOf items) (cfgsOf_spec items)

/-- … hence splitting is invisible to the reader: the part files read back exactly as the single archive does -/
theorem multipart_eq_single (items : List LItem) (hw : ∀ it ∈ items, it.WF) (hu : ExtraUnmixed items)
    (maxFile : Nat) (bodies : List (List Chunk))
    (hs : writeSplit ((items.map toReadEntry).map serEntry) maxFile = .ok bodies) (hlen : bodies.length ≤ 2 ^ 32)
    (cfgOf : Nat → StreamCfg) (hcfg : ∀ i (h : i < items.length), cfgOf i = items[i].cfg) :
    readAllMultipart cfgOf (encodeParts bodies) = readAll cfgOf (writeArchive items) := by
  rw [archive_roundtrip_multipart items hw hu maxFile bodies hs hlen cfgOf hcfg,
    C01A.archive_roundtrip items hw cfgOf hcfg]

-- ---------------------------------------------------------------- non-vacuity

/-- the example archive of `C01Archive` (`exItems`: a built CBC entry with every kind of metadata, a streamed CTR
    entry, a built CBC solid block of two files; 649 bytes) cut into part files of at most 120 bytes -/
def exBodies : List (List Chunk) :=
  match writeSplit ((exItems.map toReadEntry).map serEntry) 120 with
  | .ok b => b
  | _ => []

theorem ex_split : writeSplit ((exItems.map toReadEntry).map serEntry) 120 = .ok exBodies := by decide +kernel

/-- eleven part files, none above 120 bytes; entries are cut across parts, and so are FDAT and SDAT chunks
    (the pieces of one chunk end one body and start the next) -/
theorem ex_parts : exBodies.length = 11 ∧ (∀ p ∈ encodeParts exBodies, p.length ≤ 120) ∧
    (exBodies.map fun b => b.map fun c => c.data.length)
      = [[7, 3, 1, 8], [16, 16], [8, 22], [10, 0, 9], [8, 16, 8], [9, 3, 0, 5], [8, 16, 8], [8, 16, 8], [8, 16, 8],
         [8, 16, 8], [8, 0]] := by decide +kernel

theorem exItems_unmixed : ExtraUnmixed exItems := by
  intro s cfg f h
  simp only [exItems, List.mem_cons, List.not_mem_nil, or_false, LItem.file.injEq, reduceCtorEq] at h
  rcases h with ⟨_, _, rfl⟩ | ⟨_, _, rfl⟩ <;> decide

/-- the theorem, instantiated: the hypotheses are satisfiable with a split that really cuts -/
theorem ex_roundtrip_multipart :
    readAllMultipart (cfgsOf exItems) (encodeParts exBodies)
      = { files := (exItems.flatMap LItem.files).map (fun f => .ok f.out), status := .ok (), next := false } :=
  archive_roundtrip_multipart_own exItems exItems_wf exItems_unmixed 120 exBodies ex_split (by decide +kernel)

/-- … and the same by evaluation of the split model and the read model, independently of the theorem
    (`C01A.ex_expected` spells the four files out) -/
theorem ex_roundtrip_multipart_eval :
    readAllMultipart (cfgsOf exItems) (encodeParts exBodies)
      = { files := (exItems.flatMap LItem.files).map (fun f => .ok f.out), status := .ok (), next := false } := by
  decide +kernel

example := multipart_eq_single exItems exItems_wf exItems_unmixed 120 exBodies ex_split (by decide +kernel)
  (cfgsOf exItems) (cfgsOf_spec exItems)

-- `openReadEntry_same` on two entries that differ in the cutting of their data only
example : SameE (.normal C04R.exN) (.normal { C04R.exN with data := [List.replicate 17 7, List.replicate 23 7] }) ∧
    C04R.exN ≠ { C04R.exN with data := [List.replicate 17 7, List.replicate 23 7] } := by decide +kernel
example := openReadEntry_same plain
  (a := .normal C04R.exN) (b := .normal { C04R.exN with data := [List.replicate 17 7, List.replicate 23 7] })
  (by decide +kernel)

-- ---------------------------------------------------------------- the new hypothesis is needed

/-- a file whose uninterpreted chunks include an SDAT chunk of 40 bytes (a well-formed `LFile`: the entry parser
    does not interpret SDAT inside a normal entry, and it is no item boundary) -/
def exMixed : LFile :=
  { name := [97], kind := 0, extra := [⟨ChunkType.SDAT, List.replicate 40 5⟩], writes := [[1, 2, 3]] }

theorem exMixed_wf : exMixed.WF where
  kind := by decide
  nameUtf8 := by decide +kernel
  nameSan := by decide +kernel
  nameFit := by decide
  extraUn := by decide
  extraNM := by show ∀ c ∈ exMixed.extra, _; decide
  extraFit := by show ∀ c ∈ exMixed.extra, _; decide
  rawSize := fun _ h => nomatch h
  created := fun _ h => nomatch h
  modified := fun _ h => nomatch h
  accessed := fun _ h => nomatch h
  perm := fun _ h => nomatch h
  xattrs := fun _ h => absurd h List.not_mem_nil
  xattrsFit := fun _ h => absurd h List.not_mem_nil

def exMixedBodies : List (List Chunk) :=
  match writeSplit (([LItem.file .builder plain exMixed].map toReadEntry).map serEntry) 100 with
  | .ok b => b
  | _ => []

/-- **`hu` cannot be dropped.**  One well-formed item, split at 100 bytes per file (3 parts): every other hypothesis
    of `archive_roundtrip_multipart` holds, the single archive reads back exactly (`C01A.archive_roundtrip`), but
    from the part files the SDAT chunk comes back as TWO extra chunks (17 + 23 bytes): `EntryPart::split` cuts every
    FDAT/SDAT chunk, also an SDAT chunk that a normal entry merely carries along. -/
theorem roundtrip_needs_extra_unmixed :
    ∃ (items : List LItem) (maxFile : Nat) (bodies : List (List Chunk)),
      (∀ it ∈ items, it.WF) ∧ writeSplit ((items.map toReadEntry).map serEntry) maxFile = .ok bodies ∧
      bodies.length = 3 ∧ ¬ ExtraUnmixed items ∧
      readAll (cfgsOf items) (writeArchive items)
        = { files := (items.flatMap LItem.files).map (fun f => .ok f.out), status := .ok (), next := false } ∧
      readAllMultipart (cfgsOf items) (encodeParts bodies)
        = { files := [.ok ⟨[97], 0, {}, [], [⟨ChunkType.SDAT, List.replicate 17 5⟩,
                        ⟨ChunkType.SDAT, List.replicate 23 5⟩], [1, 2, 3]⟩],
            status := .ok (), next := false } ∧
      readAllMultipart (cfgsOf items) (encodeParts bodies)
        ≠ { files := (items.flatMap LItem.files).map (fun f => .ok f.out), status := .ok (), next := false } := by
  have hwf : ∀ it ∈ [LItem.file .builder plain exMixed], it.WF := by
    intro it hit
    rw [List.mem_singleton.mp hit]
    exact ⟨plain_ok, exMixed_wf⟩
  refine ⟨[.file .builder plain exMixed], 100, exMixedBodies, hwf, by decide +kernel, by decide +kernel, ?_,
    C01A.archive_roundtrip_own _ hwf, by decide +kernel, by decide +kernel⟩
  intro h
  exact h .builder plain exMixed (by simp) ⟨ChunkType.SDAT, List.replicate 40 5⟩ (by simp [exMixed]) rfl

end Pna.C01M

#print axioms Pna.C01M.openReadEntry_same
#print axioms Pna.C01M.archive_roundtrip_multipart
#print axioms Pna.C01M.archive_roundtrip_multipart_own
#print axioms Pna.C01M.multipart_eq_single
#print axioms Pna.C01M.ex_roundtrip_multipart
#print axioms Pna.C01M.ex_roundtrip_multipart_eval
#print axioms Pna.C01M.roundtrip_needs_extra_unmixed
