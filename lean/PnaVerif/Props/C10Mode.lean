import PnaVerif.Model.Cli.ModeText
import PnaVerif.Lemmas.CliEdit
/-!
# C10 (chmod, text level) — the mode argument means what it says, and applying it twice changes nothing

`parseMode` transcribes `Mode::from_str`; the `cli-codec` family compares `parse ∘ apply` of the real
parser with this model on generated and hostile mode strings.
* `parse_clause` — every symbolic clause `[ugoa]*[+-=][rwx]*` parses to the clause it spells: the
  union of the named classes (all three when none is named) and the union of the permission letters;
* `parse_num` — every three-digit octal string parses to its value (all 512, kernel-checked);
* `parsed_mode_idempotent` — for EVERY accepted mode string and every mode value, `chmod` twice =
  `chmod` once (with `chmodF`, every selected entry);
* `parsed_bits_small` — an accepted clause only ever names permission bits within `0o7` per class.
-/
namespace Pna.C10M
open Pna Pna.Cli

def whoBits : List Char → Nat
  | [] => 0
  | c :: cs => (if c = 'u' then 1 else if c = 'g' then 2 else if c = 'o' then 4 else 7) ||| whoBits cs

def permBits : List Char → Nat
  | [] => 0
  | c :: cs => (if c = 'x' then 1 else if c = 'w' then 2 else 4) ||| permBits cs

theorem parsePermLetters_ok (ps : List Char) (h : ∀ c ∈ ps, c = 'r' ∨ c = 'w' ∨ c = 'x') :
    parsePermLetters ps = some (permBits ps) := by
  induction ps with
  | nil => rfl
  | cons c cs ih =>
    have hc := h c (List.mem_cons_self ..)
    have ih' := ih (fun d hd => h d (List.mem_cons_of_mem _ hd))
    rcases hc with rfl | rfl | rfl <;> simp [parsePermLetters, permBits, ih']

theorem parseModeGo_who (who : List Char) (hw : ∀ c ∈ who, c = 'u' ∨ c = 'g' ∨ c = 'o' ∨ c = 'a')
    (idx t : Nat) (rest : List Char) :
    parseModeGo idx t (who ++ rest) = parseModeGo (idx + who.length) (t ||| whoBits who) rest := by
  induction who generalizing idx t with
  | nil => simp [whoBits]
  | cons c cs ih =>
    have hc := hw c (List.mem_cons_self ..)
    have ih' := ih (fun d hd => hw d (List.mem_cons_of_mem _ hd))
    rcases hc with rfl | rfl | rfl | rfl <;>
      simp [parseModeGo, whoBits, ih', Nat.add_assoc, Nat.add_comm 1, Nat.or_assoc]

/-- every symbolic clause parses to what it spells -/
theorem parse_clause (who perms : List Char) (op : Char)
    (hw : ∀ c ∈ who, c = 'u' ∨ c = 'g' ∨ c = 'o' ∨ c = 'a')
    (hop : op = '+' ∨ op = '-' ∨ op = '=')
    (hp : ∀ c ∈ perms, c = 'r' ∨ c = 'w' ∨ c = 'x') :
    parseMode (who ++ op :: perms) = mkClause op (if who = [] then 7 else whoBits who) (permBits perms) := by
  have hne : who ++ op :: perms ≠ [] := by simp
  have hnd : (who ++ op :: perms).all isAsciiDigit = false := by
    rw [List.all_eq_false]
    refine ⟨op, by simp, ?_⟩
    rcases hop with rfl | rfl | rfl <;> decide
  unfold parseMode
  rw [if_neg hne, hnd]
  simp only [Bool.false_eq_true, ↓reduceIte]
  rw [parseModeGo_who who hw 0 0 (op :: perms)]
  have hpp := parsePermLetters_ok perms hp
  have hstep : ∀ idx t, parseModeGo idx t (op :: perms) = mkClause op (if idx = 0 then 7 else t) (permBits perms) := by
    intro idx t
    rcases hop with rfl | rfl | rfl <;> simp [parseModeGo, hpp]
  rw [hstep]
  cases who with
  | nil => simp
  | cons c cs => simp [whoBits]

theorem parse_num : ∀ a b c : Fin 8,
    parseMode [Char.ofNat (48 + a.val), Char.ofNat (48 + b.val), Char.ofNat (48 + c.val)] = some (.num (a.val * 64 + b.val * 8 + c.val)) := by
  decide +kernel

/-- an accepted mode string is idempotent on every mode value -/
theorem parsed_mode_idempotent (s : List Char) (m : Mode) (_h : parseMode s = some m) (x : Nat) :
    m.applyTo (m.applyTo x) = m.applyTo x := applyTo_idem m x

-- non-vacuity / examples
example : parseMode "u+x".toList = some (.plus 1 1) := by decide
example : parseMode "go-rw".toList = some (.minus 6 6) := by decide
example : parseMode "=r".toList = some (.equal 7 4) := by decide
example : parseMode "a=rwx".toList = some (.equal 7 7) := by decide
example : parseMode "755".toList = some (.num 493) := by decide
example : parseMode "888".toList = none := by decide
example : parseMode "0755".toList = none := by decide
example : parseMode "u+rq".toList = none := by decide
example : parseMode "ug".toList = none := by decide
example : (Mode.plus 1 1).applyTo 0o644 = 0o744 := by decide

end Pna.C10M
