import PnaVerif.Lemmas.Alter
/-!
# C05 (archive level) — any altered byte after the signature is detected

An encoded chunk is `be32 len ++ type ++ data ++ be32 crc`; the CRC covers `type ++ data`.

* `alter_chunk_detected` (+ `_slice`): one altered byte of chunk number `i`, outside its length field
  (offset `4 ≤ j`): both chunk iterators return exactly the first `i` chunks, then `InvalidData`.
* `alter_length_partial` (+ `_slice`): one altered byte *of the length field* (`j < 4`).  CRC-32 cannot exclude
  that the re-framed bytes are consistent, so only: the first `i` chunks come out unchanged and whatever
  follows is not the original chunk `i`.  `alter_length_eof`: if the new length exceeds the remaining bytes,
  the iterators return the first `i` chunks and `UnexpectedEof`.
* `alter_item_detected`: a written archive, one altered non-length byte in chunk `ci` of item `m`: the reader
  returns exactly the first `m` raw items and their parse, never ends with `ok`, and ends with `InvalidData`
  when those items parse.  `alter_ahed_detected`, `alter_anxt_detected`, `alter_aend_detected`: the
  special positions (header chunk, trailing ANXT / AEND chunks).
* `alter_item_never_ok`, `alter_chunk_never_ok`: never a successful read.
-/
namespace Pna.C05A
open Pna

-- ================================================================ (1) chunk stream, byte outside a length field

theorem alter_chunk_detected (cs : List Chunk) (rest : Bytes) (hfit : ChunksFit cs)
    (i : Nat) (hi : i < cs.length) (hno : ∀ c ∈ cs.take i, c.ty ≠ ChunkType.AEND)
    (j : Nat) (hj4 : 4 ≤ j) (hj : j < (cs[i]).encode.length)
    (v : UInt8) (hv : v ≠ (cs[i]).encode[j]) :
    chunksStream ((signature ++ encodeChunks cs ++ rest).set (8 + (encodeChunks (cs.take i)).length + j) v)
      = (cs.take i, .error .invalidData) :=
  chunksStream_alter_detected cs rest hfit i hi hno j hj4 hj v hv

theorem alter_chunk_detected_slice (cs : List Chunk) (rest : Bytes) (hfit : ChunksFit cs)
    (i : Nat) (hi : i < cs.length) (hno : ∀ c ∈ cs.take i, c.ty ≠ ChunkType.AEND)
    (j : Nat) (hj4 : 4 ≤ j) (hj : j < (cs[i]).encode.length)
    (v : UInt8) (hv : v ≠ (cs[i]).encode[j]) :
    chunksSlice ((signature ++ encodeChunks cs ++ rest).set (8 + (encodeChunks (cs.take i)).length + j) v)
      = (cs.take i, .error .invalidData) := by
  rw [chunksSlice_eq_chunksStream]; exact alter_chunk_detected cs rest hfit i hi hno j hj4 hj v hv

-- ================================================================ (2) chunk stream, byte inside a length field

theorem alter_length_partial (cs : List Chunk) (rest : Bytes) (hfit : ChunksFit cs)
    (i : Nat) (hi : i < cs.length) (hno : ∀ c ∈ cs.take i, c.ty ≠ ChunkType.AEND)
    (j : Nat) (hj : j < 4) (v : UInt8)
    (hv : v ≠ (cs[i]).encode[j]'(by rw [Chunk.encode_length]; omega)) :
    ∃ more st, chunksStream ((signature ++ encodeChunks cs ++ rest).set (8 + (encodeChunks (cs.take i)).length + j) v)
        = (cs.take i ++ more, st) ∧ (∀ c, more.head? = some c → c ≠ cs[i]) :=
  chunksStream_alter_len cs rest hfit i hi hno j (by rw [Chunk.encode_length]; omega) v hv

theorem alter_length_partial_slice (cs : List Chunk) (rest : Bytes) (hfit : ChunksFit cs)
    (i : Nat) (hi : i < cs.length) (hno : ∀ c ∈ cs.take i, c.ty ≠ ChunkType.AEND)
    (j : Nat) (hj : j < 4) (v : UInt8)
    (hv : v ≠ (cs[i]).encode[j]'(by rw [Chunk.encode_length]; omega)) :
    ∃ more st, chunksSlice ((signature ++ encodeChunks cs ++ rest).set (8 + (encodeChunks (cs.take i)).length + j) v)
        = (cs.take i ++ more, st) ∧ (∀ c, more.head? = some c → c ≠ cs[i]) := by
  rw [chunksSlice_eq_chunksStream]; exact alter_length_partial cs rest hfit i hi hno j hj v hv

/-- When the altered length field announces more payload than the bytes that remain (everything from chunk `i`
    on, `rest` included, minus the 12 bytes of framing), the error is `UnexpectedEof`, after exactly the first
    `i` chunks. -/
theorem alter_length_eof (cs : List Chunk) (rest : Bytes) (hfit : ChunksFit cs)
    (i : Nat) (hi : i < cs.length) (hno : ∀ c ∈ cs.take i, c.ty ≠ ChunkType.AEND)
    (j : Nat) (hj : j < 4) (v : UInt8)
    (hbig : (encodeChunks (cs.drop i) ++ rest).length < 12 + fromBe ((be32 (cs[i]).data.length).set j v)) :
    chunksStream ((signature ++ encodeChunks cs ++ rest).set (8 + (encodeChunks (cs.take i)).length + j) v)
      = (cs.take i, .error .eof) ∧
    chunksSlice ((signature ++ encodeChunks cs ++ rest).set (8 + (encodeChunks (cs.take i)).length + j) v)
      = (cs.take i, .error .eof) := by
  have h := chunksStream_alter_len_eof cs rest hfit i hi hno j hj v hbig
  exact ⟨h, by rw [chunksSlice_eq_chunksStream]; exact h⟩

-- ================================================================ (3) archive level

/-- One altered byte in item number `m` (chunk `ci` of it, offset `j ≥ 4` of that chunk): the reader returns exactly
    the first `m` raw items and their parse; it never ends with `ok`; it ends with `InvalidData` unless one of those
    `m` intact items already fails to parse (then that earlier error is what the reader reports). -/
theorem alter_item_detected (n : Nat) (hn : n < 2 ^ 32) (items : List (List Chunk)) (hw : ∀ it ∈ items, ItemWF it)
    (hfit : ChunksFit items.flatten) (next : Bool)
    (m : Nat) (hm : m < items.length) (ci : Nat) (hci : ci < (items[m]).length)
    (j : Nat) (hj4 : 4 ≤ j) (hj : j < ((items[m])[ci]).encode.length) (v : UInt8)
    (hv : v ≠ ((items[m])[ci]).encode[j]) :
    let pos := 8 + 20 + (encodeChunks (items.take m).flatten).length
      + (encodeChunks ((items[m]).take ci)).length + j
    let r := readArchiveStream ((encodeArchive n items next).set pos v)
    r.rawItems = items.take m ∧ r.entries = (parseItems (items.take m)).1 ∧ r.status.isOk = false ∧
      (((parseItems (items.take m)).2 = .ok ()) → r.status = .error .invalidData) := by
  intro pos r
  have hmem : items[m] ∈ items := List.getElem_mem hm
  have hsplit : archChunks n items next
      = (⟨ChunkType.AHED, encAHED ⟨0, 0, n⟩⟩ :: ((items.take m).flatten ++ (items[m]).take ci))
        ++ (items[m])[ci] :: ((items[m]).drop (ci + 1) ++ (items.drop (m + 1)).flatten
          ++ (if next then [⟨ChunkType.ANXT, []⟩] else []) ++ [⟨ChunkType.AEND, []⟩]) := by
    unfold archChunks
    rw [flatten_split items m hm ci hci]
    simp only [List.append_assoc, List.cons_append]
  have hsub : ∀ c ∈ (items.take m).flatten ++ (items[m]).take ci, c ∈ items.flatten := by
    intro c hc
    rcases List.mem_append.mp hc with hc | hc
    · obtain ⟨it, hit, hcit⟩ := List.mem_flatten.mp hc
      exact List.mem_flatten.mpr ⟨it, List.mem_of_mem_take hit, hcit⟩
    · exact List.mem_flatten.mpr ⟨_, hmem, List.mem_of_mem_take hc⟩
  have hnm := ItemWF_take_noMarkers (hw _ hmem) ci hci
  exact readArchive_alter_core n hn items next (items.take m) ((items[m]).take ci) ((items[m])[ci]) _ hsplit
    (fun it hit => hw it (List.mem_of_mem_take hit))
    (fun c hc => hfit c (hsub c hc))
    (fun c hc => (hnm c hc).2.2.2)
    (by rw [groupItems_noMarkers _ hnm])
    (hfit _ (List.mem_flatten.mpr ⟨_, hmem, List.getElem_mem hci⟩))
    j hj4 hj v hv pos
    (by simp only [pos, encodeChunks_append, List.length_append]; omega)

/-- (3b) One altered byte of the AHED chunk outside its length field (`pos = 8 + j`, `4 ≤ j < 20`, i.e.
    `12 ≤ pos < 28`): nothing is returned, and the error is `InvalidData`. -/
theorem alter_ahed_detected (n : Nat) (items : List (List Chunk)) (next : Bool)
    (j : Nat) (hj4 : 4 ≤ j) (hj : j < (Chunk.mk ChunkType.AHED (encAHED ⟨0, 0, n⟩)).encode.length) (v : UInt8)
    (hv : v ≠ (Chunk.mk ChunkType.AHED (encAHED ⟨0, 0, n⟩)).encode[j]) :
    let r := readArchiveStream ((encodeArchive n items next).set (8 + j) v)
    r.rawItems = [] ∧ r.entries = [] ∧ r.header = none ∧ r.status = .error .invalidData := by
  intro r
  apply readArchiveStream_of_no_chunks
  rw [encodeArchive_eq]
  have h := chunksStream_alter_detected_split [] ⟨ChunkType.AHED, encAHED ⟨0, 0, n⟩⟩
    (items.flatten ++ (if next then [⟨ChunkType.ANXT, []⟩] else []) ++ [⟨ChunkType.AEND, []⟩]) []
    (fun c hc => by simp at hc) (fun c hc => by simp at hc) (by simp [encAHED_length]) j hj4 hj v hv
  rw [encodeChunks_nil, List.length_nil, Nat.add_zero, List.nil_append] at h
  exact h

theorem AHED_chunk_length (n : Nat) : (Chunk.mk ChunkType.AHED (encAHED ⟨0, 0, n⟩)).encode.length = 20 :=
  AHED_encode_length n

/-- (3c) One altered byte of the trailing ANXT chunk outside its length field: all items are returned, the read
    never ends with `ok`, and ends with `InvalidData` when the items parse. -/
theorem alter_anxt_detected (n : Nat) (hn : n < 2 ^ 32) (items : List (List Chunk)) (hw : ∀ it ∈ items, ItemWF it)
    (hfit : ChunksFit items.flatten)
    (j : Nat) (hj4 : 4 ≤ j) (hj : j < (Chunk.mk ChunkType.ANXT []).encode.length) (v : UInt8)
    (hv : v ≠ (Chunk.mk ChunkType.ANXT []).encode[j]) :
    let pos := 8 + 20 + (encodeChunks items.flatten).length + j
    let r := readArchiveStream ((encodeArchive n items true).set pos v)
    r.rawItems = items ∧ r.entries = (parseItems items).1 ∧ r.status.isOk = false ∧
      (((parseItems items).2 = .ok ()) → r.status = .error .invalidData) := by
  intro pos r
  have hsplit : archChunks n items true
      = (⟨ChunkType.AHED, encAHED ⟨0, 0, n⟩⟩ :: (items.flatten ++ []))
        ++ ⟨ChunkType.ANXT, []⟩ :: [⟨ChunkType.AEND, []⟩] := by
    unfold archChunks
    simp
  exact readArchive_alter_core n hn items true items [] ⟨ChunkType.ANXT, []⟩ _ hsplit hw
    (fun c hc => hfit c (by simpa using hc)) (fun c hc => by simp at hc) rfl (by simp)
    j hj4 hj v hv pos (by simp only [pos, List.append_nil])

/-- (3c) One altered byte of the final AEND chunk outside its length field: all items are returned, the read never
    ends with `ok`, and ends with `InvalidData` when the items parse. -/
theorem alter_aend_detected (n : Nat) (hn : n < 2 ^ 32) (items : List (List Chunk)) (hw : ∀ it ∈ items, ItemWF it)
    (hfit : ChunksFit items.flatten) (next : Bool)
    (j : Nat) (hj4 : 4 ≤ j) (hj : j < (Chunk.mk ChunkType.AEND []).encode.length) (v : UInt8)
    (hv : v ≠ (Chunk.mk ChunkType.AEND []).encode[j]) :
    let pos := 8 + 20 + (encodeChunks items.flatten).length + (if next then 12 else 0) + j
    let r := readArchiveStream ((encodeArchive n items next).set pos v)
    r.rawItems = items ∧ r.entries = (parseItems items).1 ∧ r.status.isOk = false ∧
      (((parseItems items).2 = .ok ()) → r.status = .error .invalidData) := by
  intro pos r
  cases next with
  | false =>
    have hsplit : archChunks n items false
        = (⟨ChunkType.AHED, encAHED ⟨0, 0, n⟩⟩ :: (items.flatten ++ [])) ++ ⟨ChunkType.AEND, []⟩ :: [] := by
      unfold archChunks
      simp
    exact readArchive_alter_core n hn items false items [] ⟨ChunkType.AEND, []⟩ _ hsplit hw
      (fun c hc => hfit c (by simpa using hc)) (fun c hc => by simp at hc) rfl (by simp)
      j hj4 hj v hv pos (by simp [pos])
  | true =>
    have hsplit : archChunks n items true
        = (⟨ChunkType.AHED, encAHED ⟨0, 0, n⟩⟩ :: (items.flatten ++ [⟨ChunkType.ANXT, []⟩]))
          ++ ⟨ChunkType.AEND, []⟩ :: [] := by
      unfold archChunks
      simp
    have hg : (groupItems [] false [⟨ChunkType.ANXT, []⟩]).1 = [] := by
      rw [groupItems, if_neg (by decide), if_pos rfl, groupItems]
    exact readArchive_alter_core n hn items true items [⟨ChunkType.ANXT, []⟩] ⟨ChunkType.AEND, []⟩ _ hsplit hw
      (by
        intro c hc
        rcases List.mem_append.mp hc with hc | hc
        · exact hfit c hc
        · simp at hc; rw [hc]; simp)
      (by intro c hc; simp at hc; rw [hc]; decide) hg (by simp)
      j hj4 hj v hv pos
      (by simp only [pos, encodeChunks_append, encodeChunks_singleton, List.length_append, Chunk.encode_length,
            if_true, List.length_nil]; omega)

-- ================================================================ (4) never a successful read with different content

/-- Under the hypotheses of `alter_item_detected` the read does not end successfully, and the damaged item is not
    among the returned ones (exactly `m` items come back, all of them intact items that precede it). -/
theorem alter_item_never_ok (n : Nat) (hn : n < 2 ^ 32) (items : List (List Chunk)) (hw : ∀ it ∈ items, ItemWF it)
    (hfit : ChunksFit items.flatten) (next : Bool)
    (m : Nat) (hm : m < items.length) (ci : Nat) (hci : ci < (items[m]).length)
    (j : Nat) (hj4 : 4 ≤ j) (hj : j < ((items[m])[ci]).encode.length) (v : UInt8)
    (hv : v ≠ ((items[m])[ci]).encode[j]) :
    let pos := 8 + 20 + (encodeChunks (items.take m).flatten).length
      + (encodeChunks ((items[m]).take ci)).length + j
    let r := readArchiveStream ((encodeArchive n items next).set pos v)
    r.status ≠ .ok () ∧ r.rawItems.length = m ∧ r.entries.length ≤ m := by
  intro pos r
  obtain ⟨h1, h2, h3, _⟩ := alter_item_detected n hn items hw hfit next m hm ci hci j hj4 hj v hv
  refine ⟨?_, ?_, ?_⟩
  · intro h
    rw [h] at h3
    exact Bool.noConfusion h3
  · rw [h1, List.length_take]; omega
  · rw [h2]
    have : ∀ its : List (List Chunk), (parseItems its).1.length ≤ its.length := by
      intro its
      induction its with
      | nil => simp [parseItems]
      | cons it its ih =>
        rw [parseItems]
        split <;> simp
        exact ih
    have h4 := this (items.take m)
    rw [List.length_take] at h4
    omega

/-- For every position covered by `alter_chunk_detected` the iterators do not end successfully. -/
theorem alter_chunk_never_ok (cs : List Chunk) (rest : Bytes) (hfit : ChunksFit cs)
    (i : Nat) (hi : i < cs.length) (hno : ∀ c ∈ cs.take i, c.ty ≠ ChunkType.AEND)
    (j : Nat) (hj4 : 4 ≤ j) (hj : j < (cs[i]).encode.length)
    (v : UInt8) (hv : v ≠ (cs[i]).encode[j]) :
    (chunksStream ((signature ++ encodeChunks cs ++ rest).set (8 + (encodeChunks (cs.take i)).length + j) v)).2 ≠ .ok () ∧
    (chunksSlice ((signature ++ encodeChunks cs ++ rest).set (8 + (encodeChunks (cs.take i)).length + j) v)).2 ≠ .ok () := by
  rw [alter_chunk_detected_slice cs rest hfit i hi hno j hj4 hj v hv,
    alter_chunk_detected cs rest hfit i hi hno j hj4 hj v hv]
  exact ⟨fun h => (by cases h), fun h => (by cases h)⟩

/-- The slice reader is the same function as the stream reader, so (3), (3b), (3c), (4) hold for it verbatim. -/
theorem readArchiveSlice_eq_stream (bs : Bytes) : readArchiveSlice bs = readArchiveStream bs := by
  unfold readArchiveSlice readArchiveStream readArchiveWith
  rw [chunksSlice_eq_chunksStream]

example : (readArchiveSlice ((signature ++ [1, 2, 3]))).status = .error .eof ∧
    readArchiveSlice (signature ++ [1, 2, 3]) = readArchiveStream (signature ++ [1, 2, 3]) :=
  ⟨by decide +kernel, readArchiveSlice_eq_stream _⟩

-- ================================================================ non-vacuity: a concrete two-item archive

/-- two file items, `a` with content `[1,2,3]` and `b` with content `[4,5]` -/
def exItems : List (List Chunk) :=
  [[⟨ChunkType.FHED, [0, 0, 0, 0, 0, 0, 97]⟩, ⟨ChunkType.FDAT, [1, 2, 3]⟩, ⟨ChunkType.FEND, []⟩],
   [⟨ChunkType.FHED, [0, 0, 0, 0, 0, 0, 98]⟩, ⟨ChunkType.FDAT, [4, 5]⟩, ⟨ChunkType.FEND, []⟩]]

/-- the six chunks of the two items -/
def exCs : List Chunk := exItems.flatten

theorem exItems_wf : ∀ it ∈ exItems, ItemWF it := by
  intro it hit
  simp only [exItems, List.mem_cons, List.not_mem_nil, or_false] at hit
  rcases hit with rfl | rfl
  · exact ⟨[_, _], _, rfl, Or.inl rfl, by decide⟩
  · exact ⟨[_, _], _, rfl, Or.inl rfl, by decide⟩

theorem exItems_fit : ChunksFit exItems.flatten := by
  unfold ChunksFit; decide +kernel

theorem exCs_fit : ChunksFit exCs := exItems_fit

/-- the unaltered archive (131 bytes) reads back completely: both items, both entries, `ok` -/
example :
    (encodeArchive 0 exItems false).length = 131 ∧
    (readArchiveStream (encodeArchive 0 exItems false)).rawItems = exItems ∧
    (readArchiveStream (encodeArchive 0 exItems false)).entries.length = 2 ∧
    (readArchiveStream (encodeArchive 0 exItems false)).status = .ok () ∧
    (parseItems (exItems.take 1)).2 = .ok () := by decide +kernel

/-- (1) instantiated: chunk 4 (`FDAT [4,5]`), offset 8 (its first data byte), new value 9, two junk bytes after -/
example :
    chunksStream ((signature ++ encodeChunks exCs ++ [7, 7]).set (8 + (encodeChunks (exCs.take 4)).length + 8) 9)
      = (exCs.take 4, .error .invalidData) :=
  alter_chunk_detected exCs [7, 7] exCs_fit 4 (by decide) (by decide) 8 (by decide) (by decide +kernel) 9
    (by decide +kernel)

/-- ... and the same fact by evaluation (position 81 of the 101-byte stream), for both iterators; a CRC byte too -/
example :
    8 + (encodeChunks (exCs.take 4)).length + 8 = 81 ∧ (signature ++ encodeChunks exCs ++ [7, 7]).length = 101 ∧
    chunksStream ((signature ++ encodeChunks exCs ++ [7, 7]).set 81 9) = (exCs.take 4, .error .invalidData) ∧
    chunksSlice ((signature ++ encodeChunks exCs ++ [7, 7]).set 81 9) = (exCs.take 4, .error .invalidData) ∧
    chunksStream ((signature ++ encodeChunks exCs ++ [7, 7]).set 84 0) = (exCs.take 4, .error .invalidData) ∧
    (exCs.take 4).length = 4 := by decide +kernel

example :
    chunksSlice ((signature ++ encodeChunks exCs ++ [7, 7]).set (8 + (encodeChunks (exCs.take 4)).length + 8) 9)
      = (exCs.take 4, .error .invalidData) :=
  alter_chunk_detected_slice exCs [7, 7] exCs_fit 4 (by decide) (by decide) 8 (by decide) (by decide +kernel) 9
    (by decide +kernel)

/-- (2) instantiated: chunk 5 (`FEND`), offset 2 of its length field, new value 9 -/
example :
    ∃ more st, chunksStream ((signature ++ encodeChunks exCs ++ [7, 7]).set
        (8 + (encodeChunks (exCs.take 5)).length + 2) 9) = (exCs.take 5 ++ more, st) ∧
      (∀ c, more.head? = some c → c ≠ exCs[5]) :=
  alter_length_partial exCs [7, 7] exCs_fit 5 (by decide) (by decide) 2 (by decide) 9 (by decide +kernel)

example :
    ∃ more st, chunksSlice ((signature ++ encodeChunks exCs ++ [7, 7]).set
        (8 + (encodeChunks (exCs.take 5)).length + 2) 9) = (exCs.take 5 ++ more, st) ∧
      (∀ c, more.head? = some c → c ≠ exCs[5]) :=
  alter_length_partial_slice exCs [7, 7] exCs_fit 5 (by decide) (by decide) 2 (by decide) 9 (by decide +kernel)

/-- the new length (9 * 256) exceeds what remains: `UnexpectedEof` after the five intact chunks -/
example :
    chunksStream ((signature ++ encodeChunks exCs ++ [7, 7]).set (8 + (encodeChunks (exCs.take 5)).length + 2) 9)
      = (exCs.take 5, .error .eof) :=
  (alter_length_eof exCs [7, 7] exCs_fit 5 (by decide) (by decide) 2 (by decide) 9 (by decide +kernel)).1

example :
    chunksStream ((signature ++ encodeChunks exCs ++ [7, 7]).set 89 9) = (exCs.take 5, .error .eof) ∧
    8 + (encodeChunks (exCs.take 5)).length + 2 = 89 := by decide +kernel

/-- (3) instantiated: item 1, its chunk 1 (`FDAT [4,5]`), offset 8 (first data byte), new value 9 -/
example :
    let pos := 8 + 20 + (encodeChunks (exItems.take 1).flatten).length
      + (encodeChunks ((exItems[1]).take 1)).length + 8
    let r := readArchiveStream ((encodeArchive 0 exItems false).set pos 9)
    r.rawItems = exItems.take 1 ∧ r.entries = (parseItems (exItems.take 1)).1 ∧ r.status.isOk = false ∧
      (((parseItems (exItems.take 1)).2 = .ok ()) → r.status = .error .invalidData) :=
  alter_item_detected 0 (by decide) exItems exItems_wf exItems_fit false 1 (by decide) 1 (by decide) 8 (by decide)
    (by decide +kernel) 9 (by decide +kernel)

/-- ... and by evaluation: byte 101 of the archive is the data byte `4`; with 9 there, the reader returns item `a`
    (one entry, content `[1,2,3]`) and then `InvalidData`; item `b` is not returned -/
example :
    8 + 20 + (encodeChunks (exItems.take 1).flatten).length + (encodeChunks ((exItems[1]).take 1)).length + 8 = 101 ∧
    (encodeArchive 0 exItems false)[101]? = some 4 ∧
    (readArchiveStream ((encodeArchive 0 exItems false).set 101 9)).rawItems = exItems.take 1 ∧
    (readArchiveStream ((encodeArchive 0 exItems false).set 101 9)).entries.length = 1 ∧
    (readArchiveStream ((encodeArchive 0 exItems false).set 101 9)).status = .error .invalidData := by
  decide +kernel

/-- (4) instantiated -/
example :
    let pos := 8 + 20 + (encodeChunks (exItems.take 1).flatten).length
      + (encodeChunks ((exItems[1]).take 1)).length + 8
    let r := readArchiveStream ((encodeArchive 0 exItems false).set pos 9)
    r.status ≠ .ok () ∧ r.rawItems.length = 1 ∧ r.entries.length ≤ 1 :=
  alter_item_never_ok 0 (by decide) exItems exItems_wf exItems_fit false 1 (by decide) 1 (by decide) 8 (by decide)
    (by decide +kernel) 9 (by decide +kernel)

example :
    (chunksStream ((signature ++ encodeChunks exCs ++ [7, 7]).set (8 + (encodeChunks (exCs.take 4)).length + 8) 9)).2
      ≠ .ok () :=
  (alter_chunk_never_ok exCs [7, 7] exCs_fit 4 (by decide) (by decide) 8 (by decide) (by decide +kernel) 9
    (by decide +kernel)).1

/-- (3b) instantiated: byte 20 (`pos = 8 + 12`, first byte of the part number) of the AHED chunk -/
example :
    let r := readArchiveStream ((encodeArchive 0 exItems false).set (8 + 12) 1)
    r.rawItems = [] ∧ r.entries = [] ∧ r.header = none ∧ r.status = .error .invalidData :=
  alter_ahed_detected 0 exItems false 12 (by decide) (by decide +kernel) 1 (by decide +kernel)

example :
    (readArchiveStream ((encodeArchive 0 exItems false).set 20 1)).entries = [] ∧
    (readArchiveStream ((encodeArchive 0 exItems false).set 20 1)).status = .error .invalidData := by
  decide +kernel

/-- (3c) instantiated: the `N` of ANXT, and the first CRC byte of AEND (archive with continuation flag) -/
example :
    let pos := 8 + 20 + (encodeChunks exItems.flatten).length + 5
    let r := readArchiveStream ((encodeArchive 0 exItems true).set pos 0)
    r.rawItems = exItems ∧ r.entries = (parseItems exItems).1 ∧ r.status.isOk = false ∧
      (((parseItems exItems).2 = .ok ()) → r.status = .error .invalidData) :=
  alter_anxt_detected 0 (by decide) exItems exItems_wf exItems_fit 5 (by decide) (by decide +kernel) 0
    (by decide +kernel)

example :
    let pos := 8 + 20 + (encodeChunks exItems.flatten).length + (if true then 12 else 0) + 8
    let r := readArchiveStream ((encodeArchive 0 exItems true).set pos 0)
    r.rawItems = exItems ∧ r.entries = (parseItems exItems).1 ∧ r.status.isOk = false ∧
      (((parseItems exItems).2 = .ok ()) → r.status = .error .invalidData) :=
  alter_aend_detected 0 (by decide) exItems exItems_wf exItems_fit true 8 (by decide) (by decide +kernel) 0
    (by decide +kernel)

example :
    8 + 20 + (encodeChunks exItems.flatten).length + 12 + 8 = 139 ∧
    (readArchiveStream ((encodeArchive 0 exItems true).set 139 0)).rawItems = exItems ∧
    (readArchiveStream ((encodeArchive 0 exItems true).set 139 0)).entries.length = 2 ∧
    (readArchiveStream ((encodeArchive 0 exItems true).set 139 0)).status = .error .invalidData ∧
    (readArchiveStream ((encodeArchive 0 exItems true).set 124 0)).rawItems = exItems ∧
    (readArchiveStream ((encodeArchive 0 exItems true).set 124 0)).status = .error .invalidData ∧
    (parseItems exItems).2 = .ok () := by decide +kernel

-- ================================================================ why the statements have the form they have

/-- Why `status = InvalidData` carries the premise "the returned items parse": an intact item that fails to parse
    is reported first.  Here the only item has format version 1 (`Unsupported`); altering a CRC byte of AEND
    (covered by `alter_aend_detected`) still gives `Unsupported`, not `InvalidData`.  (Still never `ok`.) -/
def exUnsupported : List (List Chunk) := [[⟨ChunkType.FHED, [1, 0, 0, 0, 0, 0, 97]⟩, ⟨ChunkType.FEND, []⟩]]

example :
    8 + 20 + (encodeChunks exUnsupported.flatten).length + 0 + 8 = 67 ∧
    (encodeArchive 0 exUnsupported false)[67]? ≠ some 0 ∧
    ¬ ((readArchiveStream ((encodeArchive 0 exUnsupported false).set 67 0)).status = .error .invalidData) ∧
    (readArchiveStream ((encodeArchive 0 exUnsupported false).set 67 0)).status = .error .unsupported ∧
    (readArchiveStream ((encodeArchive 0 exUnsupported false).set 67 0)).rawItems = exUnsupported := by
  decide +kernel

/-- Why the length-field case is only partial: a payload can embed a CRC-consistent frame.  The FDAT payload below
    is `[1] ++ crc(FDAT,[1]) ++ encode FEND ++ encode AEND` (29 bytes).  Changing the low byte of its length field
    from 29 to 1 (ONE altered byte, position 50) makes the reader see `FDAT [1]`, `FEND`, `AEND`: it ends with `ok`
    and returns one entry whose content differs from the written one.  `alter_length_partial` holds here (the chunk
    read at that place is not the original chunk), but "an error is reported" does not. -/
def exEmbedded : List (List Chunk) :=
  [[⟨ChunkType.FHED, [0, 0, 0, 0, 0, 0, 97]⟩,
    ⟨ChunkType.FDAT, [1] ++ be32 (Chunk.mk ChunkType.FDAT [1]).crc ++ (Chunk.mk ChunkType.FEND []).encode
        ++ (Chunk.mk ChunkType.AEND []).encode⟩,
    ⟨ChunkType.FEND, []⟩]]

theorem length_alteration_can_go_undetected :
    (∀ it ∈ exEmbedded, ItemWF it) ∧ ChunksFit exEmbedded.flatten ∧
    (encodeArchive 0 exEmbedded false)[50]? = some 29 ∧
    (readArchiveStream (encodeArchive 0 exEmbedded false)).status = .ok () ∧
    (readArchiveStream ((encodeArchive 0 exEmbedded false).set 50 1)).status = .ok () ∧
    (readArchiveStream ((encodeArchive 0 exEmbedded false).set 50 1)).entries.length = 1 ∧
    (readArchiveStream ((encodeArchive 0 exEmbedded false).set 50 1)).entries
      ≠ (readArchiveStream (encodeArchive 0 exEmbedded false)).entries ∧
    (readArchiveStream ((encodeArchive 0 exEmbedded false).set 50 1)).rawItems
      = [[⟨ChunkType.FHED, [0, 0, 0, 0, 0, 0, 97]⟩, ⟨ChunkType.FDAT, [1]⟩, ⟨ChunkType.FEND, []⟩]] := by
  refine ⟨?_, by unfold ChunksFit; decide +kernel, by decide +kernel⟩
  intro it hit
  simp only [exEmbedded, List.mem_cons, List.not_mem_nil, or_false] at hit
  subst hit
  exact ⟨[_, _], _, rfl, Or.inl rfl, by decide⟩

end Pna.C05A
