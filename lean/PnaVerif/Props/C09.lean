import PnaVerif.Lemmas.Name
import PnaVerif.Lemmas.Codec
/-!
# C09 — part 1: entry names are always reduced to safe relative paths
For every byte string given to an `EntryName` constructor, and for every FHED payload the
parser accepts: the resulting name has no root, and every component is a `Normal` one
(non-empty, not `.`, not `..`, without `/`); sanitising is idempotent.
Part 2 (file-system effects of extraction, symlink/hard-link escapes) is in `Props/C09Fs.lean`.
-/
namespace Pna.C09
open Pna

theorem sanitize_safe (s : Bytes) :
    (sanitize s).head? ≠ some slash ∧
    (sanitize s = [] ∨ ∀ c ∈ splitSlash (sanitize s), c ≠ [] ∧ c ≠ [dot] ∧ c ≠ [dot, dot] ∧ slash ∉ c) := by
  refine ⟨sanitize_no_root s, ?_⟩
  rcases sanitize_components s with h | ⟨_, h⟩
  · exact Or.inl h
  · exact Or.inr h

theorem sanitize_idempotent (s : Bytes) : sanitize (sanitize s) = sanitize s := sanitize_idem s

/-- The FHED parser returns sanitised names only. -/
theorem fhed_name_sanitized (bs : Bytes) (h : EntryHeader) (hd : decFHED bs = .ok h) :
    h.name = sanitize (bs.drop 6) := (decFHED_name bs h hd).1

theorem fhed_name_safe (bs : Bytes) (h : EntryHeader) (hd : decFHED bs = .ok h) :
    h.name.head? ≠ some slash ∧
    (h.name = [] ∨ ∀ c ∈ splitSlash h.name, c ≠ [] ∧ c ≠ [dot] ∧ c ≠ [dot, dot] ∧ slash ∉ c) := by
  rw [fhed_name_sanitized bs h hd]; exact sanitize_safe _

-- "/../a/./b//" ↦ "a/b"
example : sanitize [47, 46, 46, 47, 97, 47, 46, 47, 98, 47, 47] = [97, 47, 98] := by decide

end Pna.C09
