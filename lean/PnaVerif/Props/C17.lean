import PnaVerif.Model.Cli.List
import PnaVerif.Lemmas.CliEdit
/-!
# C17 — list, extract and the library agree on what an archive contains
Model: `listRows` (row production of `run_list_archive` + the glob filter of `print_entries`)
and the renderers `plainOut`, `treeOut`, the JSON-lines projection.
* `agree_with_library` — with `--solid` (or when the archive has no solid block) the rows are
  exactly the library's entries (`entries_with_password`) that the patterns select, in order;
* `without_solid` — without `--solid` the listing omits exactly the entries held in solid blocks;
* `plain_lines` — the plain format prints one line per row, in order, beginning with the name;
* `selection_commutes` — filtering by patterns and dropping solid entries commute (the code
  filters after collection, extraction filters before: same set).
The renderers are tied to the real output byte for byte (plain, tree) by the `list` family.
-/
namespace Pna.C17
open Pna Pna.Cli

theorem agree_with_library (sel : Bytes → Bool) (a : List (Bool × Row)) :
    listRows true sel a = (a.map (·.2)).filter (fun r => sel r.name) := by
  unfold listRows
  have : a.filter (fun p => !p.1 || true) = a := by
    apply List.filter_eq_self.mpr
    intro p _; simp
  rw [this]

theorem agree_when_no_solid (solidFlag : Bool) (sel : Bytes → Bool) (a : List (Bool × Row))
    (h : ∀ p ∈ a, p.1 = false) : listRows solidFlag sel a = (a.map (·.2)).filter (fun r => sel r.name) := by
  unfold listRows
  have : a.filter (fun p => !p.1 || solidFlag) = a := by
    apply List.filter_eq_self.mpr
    intro p hp; simp [h p hp]
  rw [this]

theorem without_solid (sel : Bytes → Bool) (a : List (Bool × Row)) :
    listRows false sel a = listRows true sel (a.filter (fun p => !p.1)) := by
  simp [listRows, List.filter_filter]

theorem selection_commutes (solidFlag : Bool) (sel : Bytes → Bool) (a : List (Bool × Row)) :
    listRows solidFlag sel a = listRows solidFlag (fun _ => true) (a.filter (fun p => sel p.2.name)) := by
  unfold listRows
  have htrue : ∀ l : List Row, l.filter (fun _ => true) = l := by
    intro l; apply List.filter_eq_self.mpr; intro _ _; rfl
  rw [htrue]
  induction a with
  | nil => rfl
  | cons p a ih =>
    simp only [List.filter_cons]
    by_cases h1 : (!p.1 || solidFlag) = true <;> by_cases h2 : sel p.2.name = true <;>
      simp [h1, h2, ih]

/-- every listed row is a library entry the patterns select — nothing is invented -/
theorem listed_sound (solidFlag : Bool) (sel : Bytes → Bool) (a : List (Bool × Row)) :
    ∀ r ∈ listRows solidFlag sel a, sel r.name = true ∧ ∃ p ∈ a, p.2 = r := by
  intro r hr
  simp only [listRows, List.mem_filter, List.mem_map] at hr
  obtain ⟨⟨p, ⟨hp, _⟩, rfl⟩, hs⟩ := hr
  exact ⟨hs, p, hp, rfl⟩

theorem plain_lines (classify : Bool) (rows : List Row) :
    plainOut classify rows = (rows.map fun r => plainLine classify r ++ [nl]).flatten := by
  simp [plainOut, List.flatMap]

theorem plain_line_starts_with_name (classify : Bool) (r : Row) : r.name <+: plainLine classify r := by
  unfold plainLine
  split
  · exact List.prefix_append _ _
  · split
    · simp [List.append_assoc]
    · split
      · simp [List.append_assoc]
      · exact List.prefix_refl _

-- mixed archive: one normal entry, one solid entry; patterns select both
example : (listRows false (fun _ => true) [(false, ⟨[97], 0, [], none, 0⟩), (true, ⟨[98], 0, [], none, 0⟩)]).map (·.name) = [[97]] := by decide
example : (listRows true (fun _ => true) [(false, ⟨[97], 0, [], none, 0⟩), (true, ⟨[98], 0, [], none, 0⟩)]).map (·.name) = [[97], [98]] := by decide
-- tree of a/b and a/c
example : treeOut false [⟨[97,47,98], 0, [], none, 0⟩, ⟨[97,47,99], 0, [], none, 0⟩]
    = [46, 10] ++ branchLast ++ [97, 10] ++ blankPad ++ branchMid ++ [98, 10] ++ blankPad ++ branchLast ++ [99, 10] := by
  decide +kernel

end Pna.C17
