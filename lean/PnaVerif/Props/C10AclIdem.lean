import PnaVerif.Lemmas.Acl
import PnaVerif.Props.C10Acl
/-!
# C10 — `migrate` is idempotent ("repeating the same edit changes nothing further")
Model: `Cli.aclOf`, `Cli.aclChunks`, `Cli.migrateE` (Model/Cli/Acl.lean).
* `decodeUtf8_utf8` — UTF-8 decoding inverts `utf8`, for ALL strings (no ASCII restriction was needed);
* `parseAceP_showAce_noprefix` — the text `migrate` writes for a well-formed entry (no platform prefix, four colons) parses
  back to that entry with no platform;
* `aclOf_aclChunks_acc` / `aclOf_aclChunks_rest` / `aclOf_aclChunks` — reading back the chunks written for a map `m`
  (accumulator form; from the initial state; followed only by foreign chunks: the result is `m`);
* `AclMapOk`, `aclOf_mapOk`, `aclOf_aces_exact` — every map `aclOf` collects has pairwise distinct platforms, no empty
  group and only well-formed entries, and its entries are exactly what `parseAceP` returned on the `faCe` chunks;
* `migrate_idem` (with the well-formedness hypothesis, as asked) and `migrate_idem_uncond` (the hypothesis is not needed:
  `aclOf` only ever collects what `parseAce` accepted, and that is always well formed);
* the hypotheses of the map-level read-back (`aclOf_aclChunks`) ARE needed: kernel-checked counterexamples for a `:` in an
  identifier, an empty identifier, an empty group and a repeated platform.
-/
namespace Pna.C10AI
open Pna Pna.Cli Pna.Cli.Text

-- ---------------------------------------------------------------- (1) UTF-8

/-- proved for all strings, not only ASCII -/
theorem decodeUtf8_utf8 (s : Str) : decodeUtf8 (utf8 s) = some s := Cli.decodeUtf8_utf8 s

example : decodeUtf8 (utf8 "linux é€😀".toList) = some "linux é€😀".toList := decodeUtf8_utf8 _
example : utf8 "é€".toList = [195, 169, 226, 130, 172] := by decide +kernel
example : decodeUtf8 [195, 169, 226, 130, 172] = some "é€".toList := by decide +kernel
/-- decoding can fail: the hypothesis "is an encoding" matters -/
example : decodeUtf8 [195] = none := by decide +kernel

-- ---------------------------------------------------------------- (2) the prefix-less text form

theorem parseAceP_showAce_noprefix (a : Ace) (h : a.WF) : parseAceP (showAce a) = .ok (none, a) :=
  Cli.parseAceP_showAce_noprefix a h

def exAce : Ace :=
  { flags := [true, false, false, true, false, true]
    owner := .user "alice".toList
    allow := true
    perms := [true, true, false, false, false, false, true, false, false, false, false, false, false, true, false, true] }

def exAce2 : Ace := { exAce with owner := .group "staff".toList, allow := false }

example : exAce.WF := by decide
example : parseAceP (showAce exAce) = .ok (none, exAce) := parseAceP_showAce_noprefix exAce (by decide)
example : parseAceP (showAce exAce) = .ok (none, exAce) := by decide +kernel

-- ---------------------------------------------------------------- (4) invariant of collected maps

/-- `AclMapOk m`: platforms pairwise distinct, no empty group, every entry well formed -/
abbrev AclMapOk := Cli.AclMapOk

/-- every map `aclOf` returns (from the initial state) satisfies the invariant — whatever the chunks were -/
theorem aclOf_mapOk (cs : List (Bytes × Bytes)) (m : AclMap) (h : aclOf [] [] cs = some m) : AclMapOk m :=
  aclOf_ok [] [] cs m aclMapOk_nil h

/-- accumulator form -/
theorem aclOf_mapOk_acc (cur : Str) (acc : AclMap) (cs : List (Bytes × Bytes)) (m : AclMap) (hacc : AclMapOk acc)
    (h : aclOf cur acc cs = some m) : AclMapOk m :=
  aclOf_ok cur acc cs m hacc h

/-- the entries of the collected map are exactly what `parseAceP` returned on the `faCe` chunks -/
theorem aclOf_aces_exact (cs : List (Bytes × Bytes)) (m : AclMap) (h : aclOf [] [] cs = some m) (a : Ace) :
    (∃ p ∈ m, a ∈ p.2) ↔ ∃ d s pl, (faCe, d) ∈ cs ∧ decodeUtf8 d = some s ∧ parseAceP s = .ok (pl, a) := by
  have := aclOf_aces_iff [] [] cs m h a
  rw [mem_allAces] at this
  rw [this]
  simp [allAces, ParsedFrom]

/-- so the entries are well formed (what `parseAce` accepts always is) -/
theorem aclOf_aces_WF (cs : List (Bytes × Bytes)) (m : AclMap) (h : aclOf [] [] cs = some m) :
    ∀ p ∈ m, ∀ a ∈ p.2, a.WF :=
  fun p hp => ((aclOf_mapOk cs m h).2 p hp).2

def exM : AclMap := [("linux".toList, [exAce, exAce2]), ("macos".toList, [exAce2]), ([], [exAce])]

example : AclMapOk exM := by decide +kernel

/-- the map collected from the example entry of `C10Acl` -/
def exEM : AclMap :=
  [("linux".toList, [{ flags := [true, false, false, false, false, false], owner := .user "alice".toList, allow := true,
                       perms := [true, true] ++ List.replicate 14 false }]),
   ("macos".toList, [{ flags := List.replicate 6 false, owner := .group "staff".toList, allow := false,
                       perms := [false, true] ++ List.replicate 14 false }])]

theorem exE_acl : aclOf [] [] C10A.exE.extras = some exEM := by decide +kernel
example : AclMapOk exEM := aclOf_mapOk _ _ exE_acl
example : (∃ p ∈ exEM, exAce ∈ p.2) ↔
    ∃ d s pl, (faCe, d) ∈ C10A.exE.extras ∧ decodeUtf8 d = some s ∧ parseAceP s = .ok (pl, exAce) :=
  aclOf_aces_exact _ _ exE_acl exAce

-- ---------------------------------------------------------------- (3) reading back what `migrate` wrote

/-- Accumulator form (no distinctness needed): from any state `(cur, acc)`, the chunks of `m` push the groups of `m`
    one after the other into `acc` and leave the last platform of `m` current. -/
theorem aclOf_aclChunks_acc (m : AclMap) (h : ∀ p ∈ m, ∀ a ∈ p.2, a.WF) (cur : Str) (acc : AclMap)
    (rest : List (Bytes × Bytes)) :
    aclOf cur acc (aclChunks m ++ rest) = aclOf (lastKey cur m) (aclMerge acc m) rest :=
  aclOf_aclChunks_gen m h cur acc rest

/-- pushing groups with fresh, pairwise distinct platforms and at least one entry each appends them unchanged -/
theorem aclMerge_fresh (acc m : AclMap) (hk : ((acc ++ m).map (·.1)).Nodup) (hne : ∀ p ∈ m, p.2 ≠ []) :
    aclMerge acc m = acc ++ m :=
  aclMerge_disjoint acc m hk hne

/-- From the initial state, for any continuation `rest` (which may hold further ACL chunks). -/
theorem aclOf_aclChunks_rest (m : AclMap) (hm : AclMapOk m) (rest : List (Bytes × Bytes)) :
    aclOf [] [] (aclChunks m ++ rest) = aclOf (lastKey [] m) m rest :=
  Cli.aclOf_aclChunks_rest m hm rest

/-- Reading back what `migrate` wrote gives the same map. -/
theorem aclOf_aclChunks (m : AclMap) (hm : AclMapOk m) (rest : List (Bytes × Bytes))
    (hrest : ∀ x ∈ rest, isAclChunk x = false) : aclOf [] [] (aclChunks m ++ rest) = some m :=
  Cli.aclOf_aclChunks m hm rest hrest

def exRest : List (Bytes × Bytes) := [([109,121,84,121], [1]), ([122,122,84,121], [2])]

example : aclOf [] [] (aclChunks exM ++ exRest) = some exM := aclOf_aclChunks exM (by decide +kernel) exRest (by decide)
example : aclOf [] [] (aclChunks exM ++ exRest) = some exM := by decide +kernel
example : (aclChunks exM).length = 7 := by decide +kernel
example : aclOf "linux".toList [("linux".toList, [exAce])] (aclChunks exM ++ exRest)
    = aclOf [] (aclMerge [("linux".toList, [exAce])] exM) exRest :=
  aclOf_aclChunks_acc exM (by decide +kernel) _ _ _
example : aclMerge [("linux".toList, [exAce])] exM =
    [("linux".toList, [exAce, exAce, exAce2]), ("macos".toList, [exAce2]), ([], [exAce])] := by decide +kernel
/-- a continuation with a further ACL chunk: it lands under the last platform written -/
example : aclOf [] [] (aclChunks exEM ++ [(faCe, utf8 (showAce exAce))]) =
    some [exEM[0], ("macos".toList, exEM[1].2 ++ [exAce])] := by
  rw [aclOf_aclChunks_rest exEM (aclOf_mapOk _ _ exE_acl)]
  decide +kernel

-- the three parts of `AclMapOk` are all needed for the read-back
/-- a `:` in an identifier: the text written no longer parses, reading back FAILS -/
theorem readback_needs_WF_colon :
    aclOf [] [] (aclChunks [("linux".toList, [{ exAce with owner := .user "a:b".toList }])]) = none := by
  decide +kernel
/-- an empty identifier: read back as the owning user, a DIFFERENT map -/
theorem readback_needs_WF_empty :
    aclOf [] [] (aclChunks [("linux".toList, [{ exAce with owner := .user [] }])])
      = some [("linux".toList, [{ exAce with owner := .owner }])] := by
  decide +kernel
/-- a group without entries disappears -/
theorem readback_needs_nonempty :
    aclOf [] [] (aclChunks [("linux".toList, []), ("macos".toList, [exAce])]) = some [("macos".toList, [exAce])] := by
  decide +kernel
/-- a repeated platform is merged into its first occurrence -/
theorem readback_needs_distinct :
    aclOf [] [] (aclChunks [("linux".toList, [exAce]), ("macos".toList, [exAce2]), ("linux".toList, [exAce2])])
      = some [("linux".toList, [exAce, exAce2]), ("macos".toList, [exAce2])] := by
  decide +kernel

-- ---------------------------------------------------------------- (5) idempotence

/-- what a successful `migrate` returns, run through `migrate` again, is returned unchanged -/
theorem migrate_idem_of_ok (e e2 : LEntry) (h : migrateE e = some e2)
    (hok : ∀ m, aclOf [] [] e.extras = some m → AclMapOk m) : migrateE e2 = some e2 := by
  obtain ⟨m, hm, hx⟩ := C10A.migrate_layout e e2 h
  have hrest := filter_not_acl e.extras
  have hback : aclOf [] [] e2.extras = some m := by
    rw [hx]
    exact aclOf_aclChunks m (hok m hm) _ hrest
  unfold migrateE
  rw [hback, Option.map_some]
  congr 1
  have : aclChunks m ++ e2.extras.filter (fun x => !isAclChunk x) = e2.extras := by
    rw [hx, filter_aclChunks_append m _ hrest]
  rw [this]

/-- (5) as asked: with the well-formedness of the collected entries as a hypothesis -/
theorem migrate_idem (e e2 : LEntry) (h : migrateE e = some e2)
    (hwf : ∀ m, aclOf [] [] e.extras = some m → ∀ p ∈ m, ∀ a ∈ p.2, a.WF) : migrateE e2 = some e2 :=
  migrate_idem_of_ok e e2 h fun m hm =>
    ⟨(aclOf_mapOk _ m hm).1, fun p hp => ⟨((aclOf_mapOk _ m hm).2 p hp).1, hwf m hm p hp⟩⟩

/-- (6) the hypothesis is not needed: `migrate` is idempotent on every entry on which it succeeds -/
theorem migrate_idem_uncond (e e2 : LEntry) (h : migrateE e = some e2) : migrateE e2 = some e2 :=
  migrate_idem_of_ok e e2 h fun m hm => aclOf_mapOk _ m hm

/-- … and so is the transformer handed to the strategy (an entry on which `migrate` fails is left alone) -/
theorem migrateF_idem (e e2 : LEntry) (h : migrateF e = some e2) : migrateF e2 = some e2 := by
  unfold migrateF at h ⊢
  cases hm : migrateE e with
  | none =>
    rw [hm, Option.getD_none] at h
    cases h
    rw [hm, Option.getD_none]
  | some e3 =>
    rw [hm, Option.getD_some] at h
    cases h
    rw [migrate_idem_uncond e _ hm, Option.getD_some]

/-- a second run also collects the very same map -/
theorem migrate_same_acl (e e2 : LEntry) (h : migrateE e = some e2) : aclOf [] [] e2.extras = aclOf [] [] e.extras := by
  obtain ⟨m, hm, hx⟩ := C10A.migrate_layout e e2 h
  rw [hx, hm]
  exact aclOf_aclChunks m (aclOf_mapOk _ m hm) _ (filter_not_acl e.extras)

-- non-vacuity on the example entry of `C10Acl`
/-- what `migrate` makes of `C10A.exE` -/
def exE2 : LEntry :=
  { C10A.exE with
    extras := [(faCl, "linux".toUTF8.toList), (faCe, "d:u:alice:allow:r,w".toUTF8.toList),
               (faCl, "macos".toUTF8.toList), (faCe, ":g:staff:deny:w".toUTF8.toList),
               ([109,121,84,121], [1]), ([122,122,84,121], [2])] }

theorem exE_migrate : migrateE C10A.exE = some exE2 := by decide +kernel
/-- the first run does change the entry … -/
example : exE2 ≠ C10A.exE := by decide +kernel
/-- … the second does not: evaluated … -/
example : migrateE exE2 = some exE2 := by decide +kernel
example : (migrateE C10A.exE).bind migrateE = migrateE C10A.exE := by decide +kernel
/-- … and as an instance of the theorems -/
example : migrateE exE2 = some exE2 := migrate_idem_uncond C10A.exE exE2 exE_migrate
example : migrateE exE2 = some exE2 :=
  migrate_idem C10A.exE exE2 exE_migrate (by
    intro m hm
    rw [exE_acl] at hm
    cases hm
    decide +kernel)
example : migrateF exE2 = some exE2 := migrateF_idem C10A.exE exE2 (by decide +kernel)
example : aclOf [] [] exE2.extras = some exEM := (migrate_same_acl _ _ exE_migrate).trans exE_acl

-- ---------------------------------------------------------------- (6) why no hypothesis is needed

/-- An entry that is not well formed can never be collected: the text of an entry whose identifier holds a `:` is
    rejected by the first run already (the command fails; nothing is written), … -/
example : migrateE { C10A.exE with extras := [(faCl, utf8 "linux".toList),
    (faCe, utf8 (showAce { exAce with owner := .user "a:b".toList }))] } = none := by decide +kernel
/-- … and the text of an entry with an empty identifier is collected as the owning user — the first run writes that
    form, which is stable. -/
example : (migrateE { C10A.exE with extras := [(faCe, utf8 (showAce { exAce with owner := .user [] }))] }).map (·.extras)
    = some [(faCl, []), (faCe, utf8 (showAce { exAce with owner := .owner }))] := by decide +kernel
/-- `migrate` can fail (so `migrateE e = some e2` is a real hypothesis) -/
example : migrateE { C10A.exE with extras := [(faCe, [255])] } = none := by decide +kernel

-- ---------------------------------------------------------------- axioms
#print axioms decodeUtf8_utf8
#print axioms parseAceP_showAce_noprefix
#print axioms aclOf_aclChunks_acc
#print axioms aclMerge_fresh
#print axioms aclOf_aclChunks_rest
#print axioms aclOf_aclChunks
#print axioms aclOf_mapOk
#print axioms aclOf_aces_exact
#print axioms aclOf_aces_WF
#print axioms migrate_idem
#print axioms migrate_idem_uncond
#print axioms migrateF_idem
#print axioms migrate_same_acl
#print axioms readback_needs_WF_colon
#print axioms readback_needs_WF_empty
#print axioms readback_needs_nonempty
#print axioms readback_needs_distinct
#print axioms exE_migrate

end Pna.C10AI
