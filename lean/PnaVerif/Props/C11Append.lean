import PnaVerif.Lemmas.Append
/-!
# C11 (append, byte level) — `Archive::seek_to_end`, then `add_entry` / `finalize` at that position
(with the C06 / C07 faces: what append does on truncated and on damaged archives)

Model: `Model/Append.lean` (`skipChunk`, `seekEndGo`, `seekEnd`, `overwriteAt`, `appendBytes`).

* `seekEnd_written`                 (1) on a written archive the end marker is found at `length - 12`, with the ANXT flag
* `append_written`, `append_then_read`, `append_entries_then_read`
                                    (2) appending items to a written archive gives exactly the archive written from the
                                        old items followed by the new ones, and reading it returns them in that order
* `append_keeps_prefix`, `append_layout`
                                    (3) for EVERY file: no byte before the end marker moves; what lies behind the written
                                        range stays (nothing truncates)
* `seekEnd_total`                   (4) never panics, never runs out of its own fuel — for every byte string
* `seekEnd_truncated_eof`, `append_truncated_eof`
                                        every prefix that stops before the 8-byte AEND head is complete: `UnexpectedEof`
* `seekEnd_accepts_missing_aend_crc`, `append_missing_aend_crc`
                                        a file that lacks the last 1–4 bytes (the CRC of AEND) is ACCEPTED — `skip_chunk`
                                        never reads a CRC — and append repairs it: the new AEND is written whole
* `seekEnd_any_bodies`, `seekEnd_heads_only`, `seekEnd_ignores_crc`, `append_keeps_damage`
                                    (5) data and CRC bytes of the chunks between AHED and AEND are never looked at:
                                        append does not notice damage, and leaves it in place
-/
namespace Pna.C11A
open Pna Pna.Append ChunkType

-- ---------------------------------------------------------------- (1) written archives

/-- **(1)** `seek_to_end` on a written archive: the offset of the AEND chunk (12 bytes before the
    end) and the continuation flag. -/
theorem seekEnd_written (n : Nat) (hn : n < 2 ^ 32) (items : List (List Chunk))
    (hw : ∀ it ∈ items, ItemWF it) (hfit : ChunksFit items.flatten) (next : Bool) :
    seekEnd (encodeArchive n items next) = .ok ((encodeArchive n items next).length - 12, next) := by
  rw [encodeArchive_length, encodeArchive_split, aendChunk_encode, ← framesBytes_map_toFrame,
    seekEnd_frames_aend n hn _ (toFrames_valid _ (archBody_fit items next hfit))
      (toFrames_noAEND _ (archBody_noAEND items next hw)),
    toFrames_anxt, archBody_anxt items next hw]
  congr 2

/-- the offset returned is where the AEND chunk starts: the 12 bytes from there on are AEND -/
theorem seekEnd_written_points_at_aend (n : Nat) (items : List (List Chunk)) (next : Bool) :
    (encodeArchive n items next).drop ((encodeArchive n items next).length - 12)
      = (Chunk.mk AEND []).encode := by
  rw [encodeArchive_length, encodeArchive_split, ← List.append_assoc]
  exact drop_app _ _ (by simp only [List.length_append, ahedChunk_encode_length, sig_length]; omega)

-- ---------------------------------------------------------------- (2) append to a written archive

/-- what append produces on a written archive, with or without ANXT: everything up to the old AEND,
    the new chunks, a new AEND.  (With `next = true` the ANXT chunk now PRECEDES the appended
    entries; `groupItems` does not care where ANXT stands.) -/
theorem append_written_chunks (n : Nat) (hn : n < 2 ^ 32) (items : List (List Chunk))
    (hw : ∀ it ∈ items, ItemWF it) (hfit : ChunksFit items.flatten) (next : Bool) (new : List Chunk) :
    appendBytes (encodeArchive n items next) new
      = .ok (signature ++ encodeChunks ([⟨AHED, encAHED ⟨0, 0, n⟩⟩] ++ items.flatten
          ++ (if next then [⟨ANXT, []⟩] else []) ++ new ++ [⟨AEND, []⟩])) := by
  unfold appendBytes
  rw [seekEnd_written n hn items hw hfit next]
  simp only
  apply congrArg Outcome.ok
  rw [encodeArchive_length, encodeArchive_split, ← List.append_assoc]
  have hl : 28 + (encodeChunks (archBody items next)).length + 12 - 12
      = ((signature ++ (ahedChunk n).encode) ++ encodeChunks (archBody items next)).length := by
    simp only [List.length_append, ahedChunk_encode_length, sig_length]; omega
  rw [hl, overwriteAt_tail _ _ _ (by
    rw [aendChunk_encode_length, List.length_append, Chunk.encode_length]; omega)]
  simp only [encodeChunkList_eq, archBody, ahedChunk, encodeChunks_append, encodeChunks_singleton,
    List.append_assoc]

/-- **(2)** appending new items to a written archive gives exactly the archive written from the
    old items followed by the new ones.  (Nothing is required of the new items for this byte
    equality; they must be well-formed for the result to read back, see `append_then_read`.) -/
theorem append_written (n : Nat) (hn : n < 2 ^ 32) (items : List (List Chunk))
    (hw : ∀ it ∈ items, ItemWF it) (hfit : ChunksFit items.flatten) (newItems : List (List Chunk)) :
    appendBytes (encodeArchive n items false) newItems.flatten
      = .ok (encodeArchive n (items ++ newItems) false) := by
  rw [append_written_chunks n hn items hw hfit false]
  simp [encodeArchive, List.append_assoc]

/-- **(2, read back)** reading the result returns the old raw items followed by the new ones, the
    entries `parseItems` makes of them, and ends cleanly when all of them parse. -/
theorem append_then_read (n : Nat) (hn : n < 2 ^ 32) (items newItems : List (List Chunk))
    (hw : ∀ it ∈ items, ItemWF it) (hfit : ChunksFit items.flatten)
    (hw2 : ∀ it ∈ newItems, ItemWF it) (hfit2 : ChunksFit newItems.flatten) :
    ∃ out, appendBytes (encodeArchive n items false) newItems.flatten = .ok out ∧
      (readArchiveStream out).rawItems = items ++ newItems ∧
      (readArchiveStream out).header = some ⟨0, 0, n⟩ ∧
      (readArchiveStream out).next = false ∧ (readArchiveStream out).carry = [] ∧
      (readArchiveStream out).entries = (parseItems (items ++ newItems)).1 ∧
      ((parseItems (items ++ newItems)).2 = .ok () → (readArchiveStream out).status = .ok ()) := by
  refine ⟨_, append_written n hn items hw hfit newItems, ?_⟩
  have hr : readArchiveStream (encodeArchive n (items ++ newItems) false) = _ :=
    readArchiveWith_encodeArchive n hn (items ++ newItems)
      (by
        intro it hit
        rcases List.mem_append.mp hit with h | h
        · exact hw it h
        · exact hw2 it h)
      (by
        intro c hc
        rw [List.flatten_append] at hc
        rcases List.mem_append.mp hc with h | h
        · exact hfit c h
        · exact hfit2 c h)
      false
  rw [hr]
  refine ⟨rfl, rfl, rfl, rfl, rfl, ?_⟩
  intro h
  simp only [h]

/-- **(2, entry level)** appending serialised well-formed entries to an archive written from
    well-formed entries: reading the result returns all entries, old then new, and ends cleanly.
    (`NoMarkers` on the `extra` chunks is the hypothesis `readArchive_encode` needs.) -/
theorem append_entries_then_read (n : Nat) (hn : n < 2 ^ 32) (es news : List ReadEntry)
    (hw : ∀ e ∈ es ++ news, e.WF) (hx : ∀ e ∈ es ++ news, NoMarkers e.extra)
    (hfit : ChunksFit ((es ++ news).flatMap serEntry)) :
    ∃ out, appendBytes (encodeArchive n (es.map serEntry) false) (news.map serEntry).flatten = .ok out ∧
      (readArchiveStream out).entries = (es ++ news).map ReadEntry.recut ∧
      (readArchiveStream out).status = .ok () ∧
      (readArchiveStream out).rawItems = (es ++ news).map serEntry := by
  have hwi : ∀ it ∈ es.map serEntry, ItemWF it := by
    intro it hit
    obtain ⟨e, he, rfl⟩ := List.mem_map.mp hit
    exact serEntry_ItemWF e (hw e (by simp [he])) (hx e (by simp [he]))
  have hfi : ChunksFit (es.map serEntry).flatten := by
    intro c hc
    apply hfit c
    rw [List.flatMap_append, List.mem_append, List.flatMap_def]
    exact Or.inl hc
  refine ⟨_, append_written n hn (es.map serEntry) hwi hfi (news.map serEntry), ?_⟩
  rw [← List.map_append]
  have h := readArchive_encode n hn (es ++ news) hw hx hfit false
  exact ⟨h.1, h.2.1, h.2.2.2.2.2⟩

-- ---------------------------------------------------------------- (3) every file: the prefix is kept

/-- append succeeds exactly when `seek_to_end` does, and then the file is: the old bytes before the
    end marker (at least 28 of them; the 8-byte head of the marker lies inside the file), the new chunks
    and AEND, and whatever the old file held behind the written range — nothing truncates. -/
theorem append_layout (bs : Bytes) (cs : List Chunk) (out : Bytes) (h : appendBytes bs cs = .ok out) :
    ∃ pos f, seekEnd bs = .ok (pos, f) ∧ 28 ≤ pos ∧ pos + 8 ≤ bs.length ∧
      out = bs.take pos ++ (encodeChunks cs ++ (Chunk.mk AEND []).encode)
              ++ bs.drop (pos + (encodeChunks cs ++ (Chunk.mk AEND []).encode).length) := by
  unfold appendBytes at h
  split at h
  · cases h
  · cases h
  · rename_i pos f hs
    have hb := seekEnd_ok_bound bs pos f hs
    refine ⟨pos, f, hs, hb.1, hb.2, ?_⟩
    simp only [Outcome.ok.injEq] at h
    rw [← h, overwriteAt, if_pos (by omega), encodeChunkList_eq]

/-- **(3)** for EVERY byte string: when append succeeds, every byte before the end marker stays
    where it was. -/
theorem append_keeps_prefix (bs : Bytes) (cs : List Chunk) (out : Bytes) (pos : Nat) (f : Bool)
    (h : appendBytes bs cs = .ok out) (hs : seekEnd bs = .ok (pos, f)) :
    out.take pos = bs.take pos := by
  have hb := seekEnd_ok_bound bs pos f hs
  unfold appendBytes at h
  rw [hs] at h
  simp only [Outcome.ok.injEq] at h
  rw [← h]
  exact overwriteAt_take bs pos _ (by omega)

/-- the failures of append are those of `seek_to_end` -/
theorem append_error (bs : Bytes) (cs : List Chunk) (e : Err) (h : seekEnd bs = .error e) :
    appendBytes bs cs = .error e := by
  unfold appendBytes; rw [h]

/-- the file never shrinks -/
theorem append_length (bs : Bytes) (cs : List Chunk) (out : Bytes) (h : appendBytes bs cs = .ok out) :
    bs.length ≤ out.length := by
  unfold appendBytes at h
  split at h
  · cases h
  · cases h
  · simp only [Outcome.ok.injEq] at h
    rw [← h, overwriteAt_length]
    omega

-- ---------------------------------------------------------------- (4) totality

/-- each `skip_chunk` that succeeds has read an 8-byte head and advances by at least 12 -/
theorem skipChunk_advances (r : Bytes) (ty : ChunkType) (n : Nat) (h : skipChunk r = .ok (ty, n)) :
    8 ≤ r.length ∧ 12 ≤ n := skipChunk_ok_inv r ty n h

/-- a position less than 8 bytes before the end, or beyond it, ends in `UnexpectedEof` -/
theorem seekEndGo_near_end_eof (fuel pos : Nat) (nx : Bool) (bs : Bytes) (h : bs.length < pos + 8) :
    seekEndGo (fuel + 1) pos nx bs = .error .eof := seekEndGo_short fuel pos nx bs h

/-- the loop does not run out of fuel when it has one unit per 12 bytes still ahead -/
theorem seekEndGo_total (fuel pos : Nat) (nx : Bool) (bs : Bytes)
    (hf : bs.length < pos + 8 + 12 * fuel) (s : String) :
    seekEndGo (fuel + 1) pos nx bs ≠ .panic s := seekEndGo_no_panic fuel pos nx bs hf s

/-- **(4)** for EVERY byte string: `seekEnd` returns a position or an `io::Error`; it never panics
    and never needs more fuel than `bs.length + 1`: the loop terminates. -/
theorem seekEnd_total (bs : Bytes) (s : String) : seekEnd bs ≠ .panic s := seekEnd_no_panic bs s

theorem append_total (bs : Bytes) (cs : List Chunk) (s : String) : appendBytes bs cs ≠ .panic s := by
  unfold appendBytes
  split
  · intro h; cases h
  · rename_i s2 hs; exact absurd hs (seekEnd_no_panic bs s2)
  · intro h; cases h

-- ---------------------------------------------------------------- (4) truncated archives (C06 / C07)

/-- **(4, truncation)** every prefix of a written archive that stops before the 8-byte head of
    AEND is complete (`k < length - 4`; this includes every cut inside the signature, AHED or an
    entry) is refused with `UnexpectedEof`: append on a truncated archive fails, it does not spin
    and it does not write. -/
theorem seekEnd_truncated_eof (n : Nat) (hn : n < 2 ^ 32) (items : List (List Chunk))
    (hw : ∀ it ∈ items, ItemWF it) (hfit : ChunksFit items.flatten) (next : Bool) (k : Nat)
    (hk : k + 4 < (encodeArchive n items next).length) :
    seekEnd ((encodeArchive n items next).take k) = .error .eof := by
  rw [encodeArchive_length] at hk
  rw [encodeArchive_split, ← framesBytes_map_toFrame]
  exact seekEnd_frames_take_eof n hn _ (toFrames_valid _ (archBody_fit items next hfit))
    (toFrames_noAEND _ (archBody_noAEND items next hw)) _ k (by rw [framesBytes_map_toFrame]; omega)

theorem append_truncated_eof (n : Nat) (hn : n < 2 ^ 32) (items : List (List Chunk))
    (hw : ∀ it ∈ items, ItemWF it) (hfit : ChunksFit items.flatten) (next : Bool) (k : Nat)
    (hk : k + 4 < (encodeArchive n items next).length) (cs : List Chunk) :
    appendBytes ((encodeArchive n items next).take k) cs = .error .eof :=
  append_error _ cs _ (seekEnd_truncated_eof n hn items hw hfit next k hk)

/-- **(4, the exception)** `skip_chunk` does not read the CRC, so a file that lacks its last
    `j ≤ 4` bytes — a cut INSIDE the CRC of AEND — is accepted: `seek_to_end` answers exactly what
    it answers on the complete archive.  (The readers refuse such a file: `chunksStream_prefix`.) -/
theorem seekEnd_accepts_missing_aend_crc (n : Nat) (hn : n < 2 ^ 32) (items : List (List Chunk))
    (hw : ∀ it ∈ items, ItemWF it) (hfit : ChunksFit items.flatten) (next : Bool) (j : Nat) (hj : j ≤ 4) :
    seekEnd ((encodeArchive n items next).take ((encodeArchive n items next).length - j))
      = .ok ((encodeArchive n items next).length - 12, next) := by
  rw [encodeArchive_trunc n items next j (by omega), aendChunk_take j hj, ← framesBytes_map_toFrame,
    List.append_assoc,
    seekEnd_frames_aend n hn _ (toFrames_valid _ (archBody_fit items next hfit))
      (toFrames_noAEND _ (archBody_noAEND items next hw)),
    toFrames_anxt, archBody_anxt items next hw, encodeArchive_length, framesBytes_map_toFrame]
  congr 2

/-- the same file is NOT a complete archive for the reader: the chunk iterator ends in
    `UnexpectedEof` after the chunks before AEND -/
theorem reader_refuses_missing_aend_crc (n : Nat) (items : List (List Chunk))
    (hw : ∀ it ∈ items, ItemWF it) (hfit : ChunksFit items.flatten) (next : Bool) (j : Nat)
    (hj1 : 1 ≤ j) (hj : j ≤ 4) :
    (chunksStream ((encodeArchive n items next).take ((encodeArchive n items next).length - j))).2
      = .error .eof := by
  have hsplit : encodeArchive n items next
      = signature ++ encodeChunks (ahedChunk n :: archBody items next) ++ (aendChunk.encode ++ []) := by
    rw [encodeArchive_split, encodeChunks_cons]; simp [List.append_assoc]
  rw [encodeArchive_length]
  have hlen : (encodeChunks (ahedChunk n :: archBody items next)).length
      = 20 + (encodeChunks (archBody items next)).length := by
    rw [encodeChunks_cons, List.length_append, ahedChunk_encode_length]
  have hfit2 : ChunksFit (ahedChunk n :: archBody items next) := by
    intro c hc
    rcases List.mem_cons.mp hc with rfl | hc
    · simp [ahedChunk, encAHED_length]
    · exact archBody_fit items next hfit c hc
  have hno2 : ∀ c ∈ ahedChunk n :: archBody items next, c.ty ≠ AEND := by
    intro c hc
    rcases List.mem_cons.mp hc with rfl | hc
    · show AHED ≠ AEND; decide
    · exact archBody_noAEND items next hw c hc
  rw [hsplit]
  unfold chunksStream
  have e : (signature ++ encodeChunks (ahedChunk n :: archBody items next) ++ (aendChunk.encode ++ [])).take
        (28 + (encodeChunks (archBody items next)).length + 12 - j)
      = signature ++ (encodeChunks (ahedChunk n :: archBody items next)
          ++ (aendChunk.encode ++ []).take (12 - j)) := by
    have hl2 : (signature ++ encodeChunks (ahedChunk n :: archBody items next)).length
        = 28 + (encodeChunks (archBody items next)).length := by
      simp only [List.length_append, sig_length, hlen]; omega
    have hsub : 28 + (encodeChunks (archBody items next)).length + 12 - j
        - (28 + (encodeChunks (archBody items next)).length) = 12 - j := by omega
    rw [List.take_append, hl2, List.take_of_length_le (l := signature ++ _) (by rw [hl2]; omega),
      List.append_assoc, hsub]
  rw [e, readSigStream_sig]
  simp only
  rw [chunkIter_prefix_eof _ aendChunk [] (12 - j) hfit2 hno2 (by simp [aendChunk])
    (by rw [aendChunk_encode_length]; omega) _
    (by have := encodeChunks_length_ge (ahedChunk n :: archBody items next)
        simp only [List.length_append]; omega)]

/-- **(4, repair)** append on a file that lacks 1–4 bytes of the CRC of AEND still produces the
    well-formed archive: the cut AEND is overwritten and the new AEND is written whole — the result
    is byte for byte what append produces on the complete archive. -/
theorem append_missing_aend_crc (n : Nat) (hn : n < 2 ^ 32) (items : List (List Chunk))
    (hw : ∀ it ∈ items, ItemWF it) (hfit : ChunksFit items.flatten) (j : Nat) (hj : j ≤ 4)
    (newItems : List (List Chunk)) :
    appendBytes ((encodeArchive n items false).take ((encodeArchive n items false).length - j))
        newItems.flatten
      = .ok (encodeArchive n (items ++ newItems) false) := by
  unfold appendBytes
  rw [seekEnd_accepts_missing_aend_crc n hn items hw hfit false j hj]
  simp only
  apply congrArg Outcome.ok
  rw [encodeArchive_trunc n items false j (by omega), encodeArchive_length]
  have hl : 28 + (encodeChunks (archBody items false)).length + 12 - 12
      = ((signature ++ (ahedChunk n).encode) ++ encodeChunks (archBody items false)).length := by
    simp only [List.length_append, ahedChunk_encode_length, sig_length]; omega
  rw [hl, overwriteAt_tail _ _ _ (by
    have := aendChunk_take_length j
    rw [List.length_append, Chunk.encode_length]; omega)]
  simp [encodeChunkList_eq, archBody, ahedChunk, encodeArchive, encodeChunks_append,
    encodeChunks_cons, encodeChunks_nil, List.append_assoc]

/-- … and that result reads back completely (old items, then new items) -/
theorem append_missing_aend_crc_reads (n : Nat) (hn : n < 2 ^ 32) (items newItems : List (List Chunk))
    (hw : ∀ it ∈ items, ItemWF it) (hfit : ChunksFit items.flatten)
    (hw2 : ∀ it ∈ newItems, ItemWF it) (hfit2 : ChunksFit newItems.flatten) (j : Nat) (hj : j ≤ 4) :
    ∃ out, appendBytes ((encodeArchive n items false).take ((encodeArchive n items false).length - j))
        newItems.flatten = .ok out ∧
      (readArchiveStream out).rawItems = items ++ newItems ∧
      (chunksStream out).2 = .ok () := by
  refine ⟨_, append_missing_aend_crc n hn items hw hfit j hj newItems, ?_⟩
  have hw3 : ∀ it ∈ items ++ newItems, ItemWF it := by
    intro it hit
    rcases List.mem_append.mp hit with h | h
    · exact hw it h
    · exact hw2 it h
  have hfit3 : ChunksFit (items ++ newItems).flatten := by
    intro c hc
    rw [List.flatten_append] at hc
    rcases List.mem_append.mp hc with h | h
    · exact hfit c h
    · exact hfit2 c h
  have hr : readArchiveStream (encodeArchive n (items ++ newItems) false) = _ :=
    readArchiveWith_encodeArchive n hn (items ++ newItems) hw3 hfit3 false
  rw [hr, chunksStream_encodeArchive n _ hw3 hfit3 false]
  exact ⟨rfl, rfl⟩

-- ---------------------------------------------------------------- (5) damage is not noticed

/-- **(5, general)** `seek_to_end` looks at chunk heads only.  After signature and AHED, for ANY
    sequence of frames (a chunk head followed by a body of the announced size; the body — data and
    CRC — is arbitrary, no CRC has to be right), an AEND head with any length field and anything
    (or nothing) behind it is found, at the offset behind the frames. -/
theorem seekEnd_any_bodies (n : Nat) (hn : n < 2 ^ 32) (fs : List Frame) (hv : ∀ f ∈ fs, f.Valid)
    (hno : ∀ f ∈ fs, f.ty ≠ AEND) (l : Nat) (tail : Bytes) :
    seekEnd (signature ++ (Chunk.mk AHED (encAHED ⟨0, 0, n⟩)).encode ++ framesBytes fs
        ++ be32 l ++ AEND.toBytes ++ tail)
      = .ok (28 + (framesBytes fs).length, fs.any (·.ty == ANXT)) := by
  have := seekEnd_frames_aend n hn fs hv hno l tail
  simp only [ahedChunk, List.append_assoc] at this ⊢
  exact this

theorem framesBytes_length_eq (fs gs : List Frame)
    (h : fs.map (fun f => (f.ty, f.body.length)) = gs.map (fun f => (f.ty, f.body.length))) :
    (framesBytes fs).length = (framesBytes gs).length ∧
      fs.any (·.ty == ANXT) = gs.any (·.ty == ANXT) := by
  induction fs generalizing gs with
  | nil =>
    cases gs with
    | nil => exact ⟨rfl, rfl⟩
    | cons g gs => simp at h
  | cons f fs ih =>
    cases gs with
    | nil => simp at h
    | cons g gs =>
      simp only [List.map_cons, List.cons.injEq, Prod.mk.injEq] at h
      obtain ⟨⟨ht, hl⟩, hrest⟩ := h
      obtain ⟨i1, i2⟩ := ih gs hrest
      refine ⟨?_, ?_⟩
      · rw [framesBytes_cons, framesBytes_cons, List.length_append, List.length_append,
          Frame.bytes_length, Frame.bytes_length, hl, i1]
      · rw [List.any_cons, List.any_cons, ht, i2]

/-- **(5, heads only)** two files whose frames agree in types and body lengths get the same
    answer, whatever their data and CRC bytes are. -/
theorem seekEnd_heads_only (n : Nat) (hn : n < 2 ^ 32) (fs gs : List Frame)
    (hv : ∀ f ∈ fs, f.Valid) (hno : ∀ f ∈ fs, f.ty ≠ AEND)
    (hv2 : ∀ f ∈ gs, f.Valid) (hno2 : ∀ f ∈ gs, f.ty ≠ AEND)
    (h : fs.map (fun f => (f.ty, f.body.length)) = gs.map (fun f => (f.ty, f.body.length)))
    (l l2 : Nat) (tail tail2 : Bytes) :
    seekEnd (signature ++ (Chunk.mk AHED (encAHED ⟨0, 0, n⟩)).encode ++ framesBytes fs
        ++ be32 l ++ AEND.toBytes ++ tail)
      = seekEnd (signature ++ (Chunk.mk AHED (encAHED ⟨0, 0, n⟩)).encode ++ framesBytes gs
        ++ be32 l2 ++ AEND.toBytes ++ tail2) := by
  rw [seekEnd_any_bodies n hn fs hv hno, seekEnd_any_bodies n hn gs hv2 hno2,
    (framesBytes_length_eq fs gs h).1, (framesBytes_length_eq fs gs h).2]

/-- **(5)** in a written archive, altering any data or CRC byte of any chunk between AHED and AEND
    (`pre`, `c`, `post` split the chunk sequence; `p` is an offset inside `c` at or behind its 8-byte
    head) does not change `seek_to_end`'s answer: append does not notice the damage.
    (The readers do: `C05` — the CRC check of `read_chunk` fails.) -/
theorem seekEnd_ignores_crc (n : Nat) (hn : n < 2 ^ 32) (items : List (List Chunk))
    (hw : ∀ it ∈ items, ItemWF it) (hfit : ChunksFit items.flatten) (next : Bool)
    (pre : List Chunk) (c : Chunk) (post : List Chunk)
    (hsplit : items.flatten ++ (if next then [⟨ANXT, []⟩] else []) = pre ++ c :: post)
    (p : Nat) (hp1 : 28 + (encodeChunks pre).length + 8 ≤ p)
    (hp2 : p < 28 + (encodeChunks pre).length + c.encode.length) (v : UInt8) :
    seekEnd ((encodeArchive n items next).set p v) = seekEnd (encodeArchive n items next) := by
  have hb : archBody items next = pre ++ c :: post := hsplit
  have hfitb := archBody_fit items next hfit
  have hnob := archBody_noAEND items next hw
  have hanx := archBody_anxt items next hw
  rw [hb] at hfitb hnob hanx
  obtain ⟨j, rfl⟩ : ∃ j, p = 28 + (encodeChunks pre).length + j := ⟨p - (28 + (encodeChunks pre).length), by omega⟩
  have hj1 : 8 ≤ j := by omega
  have hj2 : j < c.encode.length := by omega
  have e : (encodeArchive n items next).set (28 + (encodeChunks pre).length + j) v
      = (signature ++ (ahedChunk n).encode)
        ++ (framesBytes (pre.map toFrame ++ Frame.mk c.ty ((toFrame c).body.set (j - 8) v) :: post.map toFrame)
          ++ (be32 0 ++ (AEND.toBytes ++ be32 aendChunk.crc))) := by
    rw [encodeArchive_split, hb, encodeChunks_append, encodeChunks_cons]
    have ep : 28 + (encodeChunks pre).length + j
        = (signature ++ (ahedChunk n).encode).length + ((encodeChunks pre).length + j) := by
      rw [header_length]; omega
    rw [ep, set_app_right, List.append_assoc (encodeChunks pre), set_app_right,
      List.append_assoc c.encode, set_app_left _ _ _ _ hj2, encode_set c j v hj1,
      framesBytes_append, framesBytes_cons, framesBytes_map_toFrame, framesBytes_map_toFrame,
      aendChunk_encode]
    simp only [List.append_assoc]
  have hv : ∀ f ∈ pre.map toFrame ++ Frame.mk c.ty ((toFrame c).body.set (j - 8) v) :: post.map toFrame,
      f.Valid := by
    intro f hf
    rcases List.mem_append.mp hf with h | h
    · exact toFrames_valid pre (fun d hd => hfitb d (by simp [hd])) f h
    · rcases List.mem_cons.mp h with rfl | h
      · exact encode_set_valid c _ v (hfitb c (by simp))
      · exact toFrames_valid post (fun d hd => hfitb d (by simp [hd])) f h
  have hno : ∀ f ∈ pre.map toFrame ++ Frame.mk c.ty ((toFrame c).body.set (j - 8) v) :: post.map toFrame,
      f.ty ≠ AEND := by
    intro f hf
    rcases List.mem_append.mp hf with h | h
    · exact toFrames_noAEND pre (fun d hd => hnob d (by simp [hd])) f h
    · rcases List.mem_cons.mp h with rfl | h
      · exact hnob c (by simp)
      · exact toFrames_noAEND post (fun d hd => hnob d (by simp [hd])) f h
  rw [e, seekEnd_frames_aend n hn _ hv hno, seekEnd_written n hn items hw hfit next,
    encodeArchive_length, hb]
  congr 2
  · rw [framesBytes_append, framesBytes_cons, framesBytes_map_toFrame, framesBytes_map_toFrame,
      encodeChunks_append, encodeChunks_cons]
    simp only [List.length_append, encode_set_length]
    omega
  · rw [← hanx]
    simp only [List.any_append, List.any_cons, toFrames_anxt]

/-- **(5, consequence)** append on the damaged archive succeeds, and the damaged byte is still there
    afterwards: the result is an archive whose old part no reader accepts. -/
theorem append_keeps_damage (n : Nat) (hn : n < 2 ^ 32) (items : List (List Chunk))
    (hw : ∀ it ∈ items, ItemWF it) (hfit : ChunksFit items.flatten) (next : Bool)
    (pre : List Chunk) (c : Chunk) (post : List Chunk)
    (hsplit : items.flatten ++ (if next then [⟨ANXT, []⟩] else []) = pre ++ c :: post)
    (p : Nat) (hp1 : 28 + (encodeChunks pre).length + 8 ≤ p)
    (hp2 : p < 28 + (encodeChunks pre).length + c.encode.length) (v : UInt8) (new : List Chunk) :
    ∃ out, appendBytes ((encodeArchive n items next).set p v) new = .ok out ∧
      out.take ((encodeArchive n items next).length - 12)
        = ((encodeArchive n items next).set p v).take ((encodeArchive n items next).length - 12) ∧
      out[p]? = some v := by
  have hs := seekEnd_ignores_crc n hn items hw hfit next pre c post hsplit p hp1 hp2 v
  rw [seekEnd_written n hn items hw hfit next] at hs
  have hb : archBody items next = pre ++ c :: post := hsplit
  have hlen := encodeArchive_length n items next
  rw [hb, encodeChunks_append, encodeChunks_cons] at hlen
  simp only [List.length_append] at hlen
  have hpl : p < (encodeArchive n items next).length - 12 := by omega
  cases ha : appendBytes ((encodeArchive n items next).set p v) new with
  | error e => unfold appendBytes at ha; rw [hs] at ha; cases ha
  | panic s => unfold appendBytes at ha; rw [hs] at ha; cases ha
  | ok out =>
    have hk := append_keeps_prefix _ new out _ _ ha hs
    refine ⟨out, rfl, hk, ?_⟩
    have h1 : out[p]? = (out.take ((encodeArchive n items next).length - 12))[p]? := by
      rw [List.getElem?_take_of_lt hpl]
    rw [h1, hk, List.getElem?_take_of_lt hpl, List.getElem?_set_self (by omega)]

-- ---------------------------------------------------------------- non-vacuity (kernel-checked)

/-- a file entry `a` with data 1 2 3 -/
def exItem1 : List Chunk := [⟨FHED, [0, 0, 0, 0, 0, 0, 97]⟩, ⟨FDAT, [1, 2, 3]⟩, ⟨FEND, []⟩]
/-- a file entry `b` with data 9 -/
def exItem2 : List Chunk := [⟨FHED, [0, 0, 0, 0, 0, 0, 98]⟩, ⟨FDAT, [9]⟩, ⟨FEND, []⟩]
/-- 86 bytes: signature 0‥8, AHED 8‥28, FHED 28‥47, FDAT 47‥62 (data 55‥58, CRC 58‥62), FEND 62‥74, AEND 74‥86 -/
def exArch : Bytes := encodeArchive 0 [exItem1] false

theorem exItem1_wf : ItemWF exItem1 :=
  ⟨[⟨FHED, [0, 0, 0, 0, 0, 0, 97]⟩, ⟨FDAT, [1, 2, 3]⟩], ⟨FEND, []⟩, rfl, Or.inl rfl, by decide⟩
theorem exItem2_wf : ItemWF exItem2 :=
  ⟨[⟨FHED, [0, 0, 0, 0, 0, 0, 98]⟩, ⟨FDAT, [9]⟩], ⟨FEND, []⟩, rfl, Or.inl rfl, by decide⟩
theorem ex_wf1 : ∀ it ∈ [exItem1], ItemWF it := by
  intro it h; rw [List.mem_singleton.mp h]; exact exItem1_wf
theorem ex_wf2 : ∀ it ∈ [exItem2], ItemWF it := by
  intro it h; rw [List.mem_singleton.mp h]; exact exItem2_wf
theorem ex_fit1 : ChunksFit [exItem1].flatten := by unfold ChunksFit; decide
theorem ex_fit2 : ChunksFit [exItem2].flatten := by unfold ChunksFit; decide

example : exArch.length = 86 := by decide +kernel

-- (1)
example : seekEnd exArch = .ok (74, false) := by decide +kernel
example : seekEnd (encodeArchive 0 [exItem1] true) = .ok (86, true) := by decide +kernel
example : seekEnd (encodeArchive 0 [exItem1] true) = .ok ((encodeArchive 0 [exItem1] true).length - 12, true) :=
  seekEnd_written 0 (by decide) [exItem1] ex_wf1 ex_fit1 true
example : exArch.drop 74 = (Chunk.mk AEND []).encode := by decide +kernel

-- (2)
example : appendBytes exArch exItem2 = .ok (encodeArchive 0 [exItem1, exItem2] false) := by decide +kernel
example : appendBytes exArch [exItem2].flatten = .ok (encodeArchive 0 ([exItem1] ++ [exItem2]) false) :=
  append_written 0 (by decide) [exItem1] ex_wf1 ex_fit1 [exItem2]
example : ∃ out, appendBytes exArch [exItem2].flatten = .ok out ∧
    (readArchiveStream out).rawItems = [exItem1, exItem2] := by
  obtain ⟨out, h1, h2, _⟩ := append_then_read 0 (by decide) [exItem1] [exItem2] ex_wf1 ex_fit1 ex_wf2 ex_fit2
  exact ⟨out, h1, h2⟩
example : (match appendBytes exArch exItem2 with
    | .ok out => ((readArchiveStream out).entries.length, (readArchiveStream out).status)
    | _ => (0, .error .other)) = (2, .ok ()) := by decide +kernel
-- (2, entry level) the same two items as serialised entries
def exE1 : NormalEntry :=
  { header := ⟨0, 0, 0, 0, 0, 0, [97]⟩, phsf := none, extra := [], data := [[1, 2, 3]], md := {}, xattrs := [] }
def exE2 : NormalEntry :=
  { header := ⟨0, 0, 0, 0, 0, 0, [98]⟩, phsf := none, extra := [], data := [[9]], md := {}, xattrs := [] }
example : serEntry (.normal exE1) = exItem1 ∧ serEntry (.normal exE2) = exItem2 := by decide +kernel
theorem exE1_wf : exE1.WF :=
  ⟨rfl, rfl, by decide, by decide, by decide, by decide, by decide +kernel, by decide +kernel,
    fun _ h => absurd h List.not_mem_nil, fun _ h => (nomatch h), fun _ h => (nomatch h), fun _ h => (nomatch h),
    fun _ h => (nomatch h), fun _ h => (nomatch h), fun _ h => (nomatch h), fun _ h => absurd h List.not_mem_nil⟩
theorem exE2_wf : exE2.WF :=
  ⟨rfl, rfl, by decide, by decide, by decide, by decide, by decide +kernel, by decide +kernel,
    fun _ h => absurd h List.not_mem_nil, fun _ h => (nomatch h), fun _ h => (nomatch h), fun _ h => (nomatch h),
    fun _ h => (nomatch h), fun _ h => (nomatch h), fun _ h => (nomatch h), fun _ h => absurd h List.not_mem_nil⟩
example : ∃ out, appendBytes (encodeArchive 0 ([ReadEntry.normal exE1].map serEntry) false)
      ([ReadEntry.normal exE2].map serEntry).flatten = .ok out ∧
    (readArchiveStream out).entries = [ReadEntry.normal exE1.recut, ReadEntry.normal exE2.recut] ∧
    (readArchiveStream out).status = .ok () := by
  obtain ⟨out, h1, h2, h3, _⟩ := append_entries_then_read 0 (by decide) [.normal exE1] [.normal exE2]
    (by
      intro e he
      simp only [List.cons_append, List.nil_append, List.mem_cons, List.not_mem_nil, or_false] at he
      rcases he with rfl | rfl
      · exact exE1_wf
      · exact exE2_wf)
    (by
      intro e he
      simp only [List.cons_append, List.nil_append, List.mem_cons, List.not_mem_nil, or_false] at he
      rcases he with rfl | rfl <;> exact fun _ h => absurd h List.not_mem_nil)
    (by unfold ChunksFit; decide +kernel)
  exact ⟨out, h1, h2, h3⟩
-- with ANXT: the flag is reported, and the appended entry lands between ANXT and the new AEND
example : appendBytes (encodeArchive 0 [exItem1] true) exItem2
    = .ok (signature ++ encodeChunks ([⟨AHED, encAHED ⟨0, 0, 0⟩⟩] ++ exItem1 ++ [⟨ANXT, []⟩] ++ exItem2 ++ [⟨AEND, []⟩])) := by
  decide +kernel

-- (3) on a file that is no written archive: trailing junk behind AEND.  The prefix is kept, the
--     junk behind the written range stays (nothing truncates); readers stop at AEND.
example : appendBytes (exArch ++ List.replicate 60 7) exItem2
    = .ok (encodeArchive 0 [exItem1, exItem2] false ++ List.replicate 16 7) := by decide +kernel
example : seekEnd (exArch ++ List.replicate 60 7) = .ok (74, false) ∧
    (match appendBytes (exArch ++ List.replicate 60 7) exItem2 with
     | .ok out => out.take 74 == (exArch ++ List.replicate 60 7).take 74
     | _ => false) = true := by decide +kernel

-- (4) every prefix that stops before byte 82 (the end of AEND's head) is refused with eof …
example : ∀ k < 82, seekEnd (exArch.take k) = .error .eof := by decide +kernel
example : ∀ k ∈ [0, 7, 8, 27, 28, 50, 74, 81], appendBytes (exArch.take k) exItem2 = .error .eof := by decide +kernel
example : seekEnd (exArch.take 50) = .error .eof :=
  seekEnd_truncated_eof 0 (by decide) [exItem1] ex_wf1 ex_fit1 false 50 (by decide +kernel)
-- … and never panics on junk either
example : seekEnd [] = .error .eof ∧ seekEnd (List.replicate 40 0) = .error .invalidData ∧
    seekEnd (signature ++ List.replicate 40 0) = .error .invalidData := by decide +kernel
-- … but a file that lacks 1–4 bytes of AEND's CRC is accepted, although no reader accepts it,
--   and append then writes the archive that append on the complete file writes
example : ∀ j ≤ 4, seekEnd (exArch.take (86 - j)) = .ok (74, false) := by decide +kernel
example : ∀ j ≤ 4, 1 ≤ j → (chunksStream (exArch.take (86 - j))).2 = .error .eof := by decide +kernel
example : ∀ j ≤ 4, appendBytes (exArch.take (86 - j)) exItem2
    = .ok (encodeArchive 0 [exItem1, exItem2] false) := by decide +kernel
example : seekEnd ((encodeArchive 0 [exItem1] false).take ((encodeArchive 0 [exItem1] false).length - 3))
    = .ok ((encodeArchive 0 [exItem1] false).length - 12, false) :=
  seekEnd_accepts_missing_aend_crc 0 (by decide) [exItem1] ex_wf1 ex_fit1 false 3 (by decide)

-- (5) a data byte (56) or a CRC byte (60) of FDAT altered: same answer; the reader reports the damage
example : seekEnd (exArch.set 56 0xFF) = .ok (74, false) ∧ seekEnd (exArch.set 60 0xFF) = .ok (74, false) := by
  decide +kernel
example : (readArchiveStream (exArch.set 56 0xFF)).status = .error .invalidData := by decide +kernel
example : seekEnd (exArch.set 56 0xFF) = seekEnd exArch :=
  seekEnd_ignores_crc 0 (by decide) [exItem1] ex_wf1 ex_fit1 false
    [⟨FHED, [0, 0, 0, 0, 0, 0, 97]⟩] ⟨FDAT, [1, 2, 3]⟩ [⟨FEND, []⟩] rfl 56 (by decide +kernel) (by decide +kernel) 0xFF
-- append on it succeeds and the damage stays in the result, which no reader accepts
example : (match appendBytes (exArch.set 56 0xFF) exItem2 with
    | .ok out => (out[56]?, (readArchiveStream out).status)
    | _ => (none, .ok ())) = (some 0xFF, .error .invalidData) := by decide +kernel
-- frames with arbitrary bodies (no CRC is right here), AEND with a non-zero length field and no CRC at all
example : seekEnd (signature ++ (Chunk.mk AHED (encAHED ⟨0, 0, 0⟩)).encode
      ++ framesBytes [⟨FDAT, [1, 2, 3, 0, 0, 0, 0]⟩, ⟨ANXT, [0, 0, 0, 0]⟩] ++ be32 5 ++ AEND.toBytes ++ [])
    = .ok (28 + 15 + 12, true) := by decide +kernel
-- a damaged LENGTH field is not noticed either: byte 31 (length of FHED, 7) set to 15 makes the walk
-- land inside the data of the next chunk; if those bytes look like an AEND head, append writes there
example : seekEnd ((encodeArchive 0 [[⟨FHED, [0, 0, 0, 0, 0, 0, 97]⟩,
      ⟨FDAT, [0, 0, 0, 0, 65, 69, 78, 68, 1, 2, 3, 4]⟩, ⟨FEND, []⟩]] false).set 31 15) = .ok (55, false) := by
  decide +kernel

-- the hypotheses of the remaining theorems, instantiated
example : skipChunk (exArch.drop 28) = .ok (FHED, 19) ∧ skipChunk (exArch.drop 74) = .ok (AEND, 12) := by
  decide +kernel
example : ((encodeArchive 0 [exItem1, exItem2] false ++ List.replicate 16 7).take 74)
    = (exArch ++ List.replicate 60 7).take 74 :=
  append_keeps_prefix (exArch ++ List.replicate 60 7) exItem2 _ 74 false (by decide +kernel) (by decide +kernel)
example : appendBytes [] exItem2 = .error .eof := append_error [] exItem2 .eof (by decide +kernel)
example : appendBytes (exArch.take (exArch.length - 2)) [exItem2].flatten
    = .ok (encodeArchive 0 ([exItem1] ++ [exItem2]) false) :=
  append_missing_aend_crc 0 (by decide) [exItem1] ex_wf1 ex_fit1 2 (by decide) [exItem2]
example := append_missing_aend_crc_reads 0 (by decide) [exItem1] [exItem2] ex_wf1 ex_fit1 ex_wf2 ex_fit2 4 (by decide)
example : (chunksStream (exArch.take (exArch.length - 1))).2 = .error .eof :=
  reader_refuses_missing_aend_crc 0 [exItem1] ex_wf1 ex_fit1 false 1 (by decide) (by decide)
example : seekEnd (signature ++ (Chunk.mk AHED (encAHED ⟨0, 0, 0⟩)).encode
      ++ framesBytes [⟨FDAT, [1, 2, 3, 0, 0, 0, 0]⟩] ++ be32 0 ++ AEND.toBytes ++ [1])
    = seekEnd (signature ++ (Chunk.mk AHED (encAHED ⟨0, 0, 0⟩)).encode
      ++ framesBytes [⟨FDAT, [7, 7, 7, 7, 7, 7, 7]⟩] ++ be32 9 ++ AEND.toBytes ++ []) :=
  seekEnd_heads_only 0 (by decide) [⟨FDAT, [1, 2, 3, 0, 0, 0, 0]⟩] [⟨FDAT, [7, 7, 7, 7, 7, 7, 7]⟩]
    (by decide) (by decide) (by decide) (by decide) (by decide) 0 9 [1] []
example : ∃ out, appendBytes (exArch.set 60 0xFF) exItem2 = .ok out ∧
    out.take (exArch.length - 12) = (exArch.set 60 0xFF).take (exArch.length - 12) ∧ out[60]? = some 0xFF :=
  append_keeps_damage 0 (by decide) [exItem1] ex_wf1 ex_fit1 false
    [⟨FHED, [0, 0, 0, 0, 0, 0, 97]⟩] ⟨FDAT, [1, 2, 3]⟩ [⟨FEND, []⟩] rfl 60 (by decide +kernel) (by decide +kernel)
    0xFF exItem2

end Pna.C11A
