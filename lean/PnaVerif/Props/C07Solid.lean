import PnaVerif.Lemmas.Solid
/-!
# C07 (solid blocks) — the entry iterator over the inside of a solid block

`solidEntries` (`Model/Solid.lean`) is `SolidEntry::entries(..)` once the decoder stack is open: `EntryIterator`
over the decrypted, decompressed inner stream, after the two `fix:` commits (the iterator stops once it has reported
a stream error; a stream that ends inside an entry is an error instead of a silent end).  For **every** inner stream
(any bytes, any terminal condition of the decoder stack):

* `solid_no_panic`          no item is a panic; in particular the model's fuel always suffices;
* `solid_bounded`           at most `len / 12 + 1` items are yielded before `None`: iteration is finite and bounded
                            by the input (each entry consumes at least its 12-byte FEND chunk);
* `solid_stream_error_once` a stream error is reported at most once and nothing follows it (`solidTrace` is the
                            same iteration with stream errors tagged, `solid_trace_items`, `solid_trace_true`);
* `solid_next_consumes`     what one successful `next()` consumed;
* `solid_garbage_not_silent` a non-empty inner stream (e.g. the noise a wrong password decrypts to) never iterates
                            to "nothing, no error".

For the streams the writer produces (`encodeChunks (es.flatMap serN)`, property C01 for the inside of a solid block):

* `solid_roundtrip`, `solid_roundtrip_error`, `solid_roundtrip_any`   exactly the entries written come back (data
                            re-cut at u32::MAX only), followed by the decoder stack's terminal error if it has one
                            (`UnexpectedEof` included);
* `solid_truncated_detected`, `solid_truncated_prefix`   a truncated inner stream yields exactly the entries that
                            are complete before the cut and then `UnexpectedEof` — unless the cut falls exactly
                            between two entries, which nothing inside the stream can reveal.

Hypotheses of the round trip.  The statement originally proposed carried
`hnf : ∀ e ∈ es, ∀ c ∈ e.extra, c.ty ≠ FEND` (the closing FEND of `serN e` must be the first FEND, or `next()` would
cut the entry short).  It is not needed: `NormalEntry.WF` demands `interpretedN c.ty = false` of every `extra` chunk
and FEND is an interpreted type — `wf_excludes_fend`.  (Unlike the archive-level round trip, SEND/ANXT/AEND among
`extra` are harmless here: the inner iterator only looks for FEND.)  `hfit` stays: `WF` bounds neither the payload of
an `extra` chunk nor the PHSF string, and a payload of 2^32 bytes or more does not survive the 32-bit length field.
-/
namespace Pna.C07S
open Pna

-- ---------------------------------------------------------------- every inner stream

/-- 1. No item is a panic: neither `read_chunk` nor `NormalEntry::try_from` panics, and the fuel
    `s.bytes.length + 1` of the model is never exhausted. -/
theorem solid_no_panic (s : InStream) : ∀ o ∈ solidEntries s, ∀ p, o ≠ .panic p :=
  solidIter_no_panic _ s (Nat.lt_succ_self _)

/-- 1'. Termination / resource bound: the iterator yields at most `len / 12 + 1` items before `None`. -/
theorem solid_bounded (s : InStream) : (solidEntries s).length ≤ s.bytes.length / 12 + 1 :=
  solidIter_length _ s (Nat.lt_succ_self _)

/-- `solidTrace` is `solidIter` with each item tagged `true` iff it is a stream error. -/
theorem solid_trace_items (s : InStream) :
    (solidTrace (s.bytes.length + 1) s).map Prod.snd = solidEntries s :=
  solidTrace_snd _ s

/-- 2. Every item that is not the last is not a stream error: a stream error is reported at most once, and the
    iterator returns `None` right after it. -/
theorem solid_stream_error_once (s : InStream) :
    ∀ i, i + 1 < (solidTrace (s.bytes.length + 1) s).length →
      ((solidTrace (s.bytes.length + 1) s)[i]?.map Prod.fst) = some false :=
  solidTrace_stream_error_last _ s

/-- the tag is faithful: an item tagged `true` is an error item -/
theorem solid_trace_true (s : InStream) :
    ∀ x ∈ solidTrace (s.bytes.length + 1) s, x.1 = true → ∃ e, x.2 = .error e :=
  solidTrace_true _ s

/-- 3. Each `next()` that gathers an entry consumed at least 12 bytes, did not touch the terminal condition, and
    gathered a non-empty run of chunks ending at the first FEND whose encoding is exactly the consumed bytes. -/
theorem solid_next_consumes (s s' : InStream) (cs : List Chunk)
    (h : collectEntry (s.bytes.length + 1) s [] = .ok (cs, s')) :
    s'.bytes.length + 12 ≤ s.bytes.length ∧ s'.term = s.term ∧
      ∃ body last, cs = body ++ [last] ∧ last.ty = ChunkType.FEND ∧ (∀ c ∈ body, c.ty ≠ ChunkType.FEND) ∧
        encodeChunks cs ++ s'.bytes = s.bytes := by
  obtain ⟨h1, h2, body, last, hcs, hl, hb, he, _⟩ := collectEntry_ok_inv _ s s' [] cs h
  rw [List.nil_append] at hcs
  exact ⟨h1, h2, body, last, hcs, hl, hb, by rw [hcs]; exact he⟩

/-- 6. **Garbage is not silent** (the wrong-password situation): a non-empty inner stream never iterates to
    "nothing, no error" — the first `next()` yields an entry, a parse error or a stream error. -/
theorem solid_garbage_not_silent (s : InStream) (h : s.bytes ≠ []) : solidEntries s ≠ [] :=
  solidIter_ne_nil _ s h

-- ---------------------------------------------------------------- what the writer produces

/-- `WF` already says that no `extra` chunk is a FEND (the hypothesis `hnf` of the proposed statement). -/
theorem wf_excludes_fend (e : NormalEntry) (h : e.WF) : ∀ c ∈ e.extra, c.ty ≠ ChunkType.FEND :=
  WF_extra_no_FEND e h

/-- 4 (combined form). Round trip under any terminal condition `t` of the decoder stack: the entries written, then
    `streamEnd t` (nothing for a clean end, the error once otherwise). -/
theorem solid_roundtrip_any (es : List NormalEntry) (hwf : ∀ e ∈ es, e.WF)
    (hfit : ∀ e ∈ es, ChunksFit (serN e)) (t : Option Err) :
    solidEntries ⟨encodeChunks (es.flatMap serN), t⟩ = es.map (fun e => .ok e.recut) ++ streamEnd t :=
  solidIter_encode es hwf hfit t _ (Nat.lt_succ_self _)

/-- 4. **Round trip** (C01 inside a solid block), clean end of stream. -/
theorem solid_roundtrip (es : List NormalEntry) (hwf : ∀ e ∈ es, e.WF)
    (hfit : ∀ e ∈ es, ChunksFit (serN e)) :
    solidEntries ⟨encodeChunks (es.flatMap serN), none⟩ = es.map (fun e => .ok e.recut) := by
  rw [solid_roundtrip_any es hwf hfit none, streamEnd_none, List.append_nil]

/-- 4'. Round trip when the decoder stack ends in an error — any error, `UnexpectedEof` included (a bad padding, a
    corrupt or cut compressed trailer after the last entry): all entries, then that error exactly once. -/
theorem solid_roundtrip_error (es : List NormalEntry) (hwf : ∀ e ∈ es, e.WF)
    (hfit : ∀ e ∈ es, ChunksFit (serN e)) (e : Err) :
    solidEntries ⟨encodeChunks (es.flatMap serN), some e⟩ = es.map (fun e => .ok e.recut) ++ [.error e] := by
  rw [solid_roundtrip_any es hwf hfit (some e), streamEnd_some]

/-- 5. **Truncation is detected unless the cut falls exactly between two entries.**  Cutting the inner stream after
    `k` bytes yields exactly the first `n` entries, where `n` is the number of entries complete before the cut, and
    then `UnexpectedEof` once if the cut is inside entry `n + 1`. -/
theorem solid_truncated_detected (es : List NormalEntry) (hwf : ∀ e ∈ es, e.WF)
    (hfit : ∀ e ∈ es, ChunksFit (serN e)) (k : Nat) (hk : k < (encodeChunks (es.flatMap serN)).length) :
    ∃ n, n ≤ es.length ∧
      (encodeChunks ((es.take n).flatMap serN)).length ≤ k ∧
      (n < es.length → k < (encodeChunks ((es.take (n + 1)).flatMap serN)).length) ∧
      solidEntries ⟨(encodeChunks (es.flatMap serN)).take k, none⟩
        = (es.take n).map (fun e => .ok e.recut)
          ++ (if k = (encodeChunks ((es.take n).flatMap serN)).length then [] else [.error .eof]) :=
  solidIter_take es hwf hfit none k _ (Nat.le_of_lt hk) (Nat.lt_succ_self _)

/-- 5 (any terminal condition, cut at the very end allowed): at a boundary the stream behaves like a stream that
    ends there (`streamEnd t`); inside an entry `read_exact` reports the terminal error, `UnexpectedEof` for a
    clean end. -/
theorem solid_truncated_any (es : List NormalEntry) (hwf : ∀ e ∈ es, e.WF)
    (hfit : ∀ e ∈ es, ChunksFit (serN e)) (t : Option Err) (k : Nat)
    (hk : k ≤ (encodeChunks (es.flatMap serN)).length) :
    ∃ n, n ≤ es.length ∧
      (encodeChunks ((es.take n).flatMap serN)).length ≤ k ∧
      (n < es.length → k < (encodeChunks ((es.take (n + 1)).flatMap serN)).length) ∧
      solidEntries ⟨(encodeChunks (es.flatMap serN)).take k, t⟩
        = (es.take n).map (fun e => .ok e.recut)
          ++ (if k = (encodeChunks ((es.take n).flatMap serN)).length then streamEnd t
              else [.error (t.getD .eof)]) :=
  solidIter_take es hwf hfit t k _ hk (Nat.lt_succ_self _)

/-- 5'. Whatever the cut (`k` unrestricted), the entries successfully yielded are a prefix of the entries written,
    and the only other item there can be is one final `UnexpectedEof`: never a wrong entry, never an extra one. -/
theorem solid_truncated_prefix (es : List NormalEntry) (hwf : ∀ e ∈ es, e.WF)
    (hfit : ∀ e ∈ es, ChunksFit (serN e)) (k : Nat) :
    ∃ n, n ≤ es.length ∧
      (solidEntries ⟨(encodeChunks (es.flatMap serN)).take k, none⟩ = (es.take n).map (fun e => .ok e.recut) ∨
       solidEntries ⟨(encodeChunks (es.flatMap serN)).take k, none⟩
         = (es.take n).map (fun e => .ok e.recut) ++ [.error .eof]) := by
  by_cases hk : k < (encodeChunks (es.flatMap serN)).length
  · obtain ⟨n, hn, _, _, h⟩ := solid_truncated_detected es hwf hfit k hk
    refine ⟨n, hn, ?_⟩
    rw [h]
    split
    · left; rw [List.append_nil]
    · right; rfl
  · refine ⟨es.length, Nat.le_refl _, Or.inl ?_⟩
    rw [List.take_of_length_le (by omega), List.take_length]
    exact solid_roundtrip es hwf hfit

-- ---------------------------------------------------------------- 7. non-vacuity

/-- a file entry with an unknown (private) chunk, two data slices, size, mtime and one xattr -/
def exA : NormalEntry :=
  { header := ⟨0, 0, 0, 0, 0, 0, [97]⟩, phsf := none, extra := [⟨⟨109, 121, 84, 121⟩, [1, 2, 3]⟩],
    data := [[1, 2, 3], [4]], md := { rawSize := some 4, modified := some 7 }, xattrs := [⟨[117], [9]⟩] }
/-- a directory entry with nothing else -/
def exB : NormalEntry :=
  { header := ⟨0, 0, 1, 0, 0, 0, [98]⟩, phsf := none, extra := [], data := [], md := {}, xattrs := [] }

/-- the hypotheses of the round trip are satisfiable: `WF` via `parseN_WF` (whatever parses is well-formed) -/
theorem ex_wf : ∀ e ∈ [exA, exB], e.WF := by
  have h : ∀ e ∈ [exA, exB], parseN (serN e) = .ok e := by decide +kernel
  intro e he
  exact parseN_WF _ e (h e he)

theorem ex_fit : ∀ e ∈ [exA, exB], ChunksFit (serN e) := by
  show ∀ e ∈ [exA, exB], ∀ c ∈ serN e, c.data.length < 2 ^ 32
  decide +kernel

example : solidEntries ⟨encodeChunks ([exA, exB].flatMap serN), none⟩ = [.ok exA.recut, .ok exB.recut] :=
  solid_roundtrip [exA, exB] ex_wf ex_fit

-- the same by evaluation: 160 bytes in (129 of them the first entry), the two entries out; with a failing decoder,
-- the error once after them — `UnexpectedEof` included
example : (encodeChunks ([exA, exB].flatMap serN)).length = 160 := by decide +kernel
example : (encodeChunks (serN exA)).length = 129 := by decide +kernel
example : solidEntries ⟨encodeChunks ([exA, exB].flatMap serN), none⟩ = [.ok exA, .ok exB] := by decide +kernel
example : solidEntries ⟨encodeChunks ([exA, exB].flatMap serN), some .invalidData⟩
    = [.ok exA, .ok exB, .error .invalidData] := by decide +kernel
example : solidEntries ⟨encodeChunks ([exA, exB].flatMap serN), some .eof⟩
    = [.ok exA, .ok exB, .error .eof] := by decide +kernel
-- truncation: a cut inside an entry is reported after the complete entries; a cut between entries cannot be seen
example : solidEntries ⟨(encodeChunks ([exA, exB].flatMap serN)).take 159, none⟩ = [.ok exA, .error .eof] := by
  decide +kernel
example : solidEntries ⟨(encodeChunks ([exA, exB].flatMap serN)).take 130, none⟩ = [.ok exA, .error .eof] := by
  decide +kernel
example : solidEntries ⟨(encodeChunks ([exA, exB].flatMap serN)).take 129, none⟩ = [.ok exA] := by decide +kernel
example : solidEntries ⟨(encodeChunks ([exA, exB].flatMap serN)).take 128, none⟩ = [.error .eof] := by
  decide +kernel
example : solidEntries ⟨(encodeChunks ([exA, exB].flatMap serN)).take 1, none⟩ = [.error .eof] := by decide +kernel
example : solidEntries ⟨(encodeChunks ([exA, exB].flatMap serN)).take 0, none⟩ = [] := by decide +kernel

-- a stream error (an FDAT chunk with a wrong CRC) is the last item, and is tagged as such
example : solidEntries ⟨[0,0,0,0, 70,68,65,84, 0,0,0,0], none⟩ = [.error .invalidData] := by decide +kernel
example : solidTrace 13 ⟨[0,0,0,0, 70,68,65,84, 0,0,0,0], none⟩ = [(true, .error .invalidData)] := by
  decide +kernel
-- after a complete entry: the entry, then the stream error, then nothing
example : solidEntries ⟨encodeChunks (serN exB) ++ [0,0,0,0, 70,68,65,84, 0,0,0,0] ++ encodeChunks (serN exA), none⟩
    = [.ok exB, .error .invalidData] := by decide +kernel
-- an entry that gathers but does not parse (no FHED) is an item, not a stream error: iteration continues
example : solidTrace 200 ⟨(Chunk.mk ChunkType.FEND []).encode ++ encodeChunks (serN exB), none⟩
    = [(false, .error .invalidData), (false, .ok exB)] := by decide +kernel
-- noise (what a wrong password decrypts to): a length field pointing past the end is `UnexpectedEof`, reported
example : solidEntries ⟨[200, 13, 77, 2, 9, 9, 9, 9, 1, 2, 3, 4, 5, 6, 7, 8, 9], none⟩ = [.error .eof] := by
  decide +kernel
example : solidTrace 18 ⟨[200, 13, 77, 2, 9, 9, 9, 9, 1, 2, 3, 4, 5, 6, 7, 8, 9], none⟩ = [(true, .error .eof)] := by
  decide +kernel
-- the empty stream: nothing on a clean end, the decoder's error otherwise
example : solidEntries ⟨[], none⟩ = [] := by decide +kernel
example : solidEntries ⟨[], some .invalidData⟩ = [.error .invalidData] := by decide +kernel

end Pna.C07S

#print axioms Pna.C07S.solid_no_panic
#print axioms Pna.C07S.solid_bounded
#print axioms Pna.C07S.solid_trace_items
#print axioms Pna.C07S.solid_stream_error_once
#print axioms Pna.C07S.solid_trace_true
#print axioms Pna.C07S.solid_next_consumes
#print axioms Pna.C07S.solid_garbage_not_silent
#print axioms Pna.C07S.wf_excludes_fend
#print axioms Pna.C07S.solid_roundtrip_any
#print axioms Pna.C07S.solid_roundtrip
#print axioms Pna.C07S.solid_roundtrip_error
#print axioms Pna.C07S.solid_truncated_detected
#print axioms Pna.C07S.solid_truncated_any
#print axioms Pna.C07S.solid_truncated_prefix
#print axioms Pna.C07S.ex_wf
#print axioms Pna.C07S.ex_fit
