import PnaVerif.Lemmas.Split
/-!
# C04 — splitting respects the size limit, loses nothing, and terminates
For every archive (list of entries, each any chunk list) and every maximum size:
* `never_panics` — no subtraction underflow, no endless loop (the model's loop has a fuel bound
  proved sufficient; the only failure outcome is `InvalidInput`);
* `parts_le_max` — every part file produced is at most `maxFile` bytes, the 52 bytes of
  signature/AHED/ANXT/AEND included;
* `nothing_lost` — the concatenated part bodies are the original chunk sequence up to the cutting
  of data chunks (`streamView`), in order;
* `accepts_every_feasible_max` / `rejects_only_infeasible` — success exactly when the maximum
  can hold the fixed overhead and every indivisible chunk (plus one payload byte of a data
  chunk); otherwise the error is `InvalidInput`;
* library level: `EntryPart::split` for all chunk-length sequences and all `max_bytes_len`.
Well-formedness of each part and the re-read of the sequence are in `Props/C14.lean`.
-/
namespace Pna.C04
open Pna

theorem never_panics (entries : List (List Chunk)) (maxFile : Nat) (s : String) :
    writeSplit entries maxFile ≠ .panic s := writeSplit_no_panic entries maxFile s

theorem parts_le_max (entries : List (List Chunk)) (maxFile : Nat) (bodies : List (List Chunk))
    (h : writeSplit entries maxFile = .ok bodies) (i : Nat) (hi : i < bodies.length) :
    (encodePartFile i bodies.length bodies[i]).length ≤ maxFile := by
  have hb := writeSplit_sizes entries maxFile bodies h bodies[i] (List.getElem_mem hi)
  rw [encodePartFile_length]
  split <;> omega

theorem nothing_lost (entries : List (List Chunk)) (maxFile : Nat) (bodies : List (List Chunk))
    (h : writeSplit entries maxFile = .ok bodies) : streamView bodies.flatten = streamView entries.flatten :=
  writeSplit_lossless entries maxFile bodies h

theorem accepts_every_feasible_max (entries : List (List Chunk)) (maxFile : Nat) (h1 : splitOverhead ≤ maxFile)
    (hm : MinOk (maxFile - splitOverhead) entries.flatten) : ∃ bodies, writeSplit entries maxFile = .ok bodies :=
  writeSplit_ok entries maxFile h1 hm

theorem rejects_only_infeasible (entries : List (List Chunk)) (maxFile : Nat) (e : Err)
    (h : writeSplit entries maxFile = .error e) :
    e = .invalidInput ∧ (maxFile < splitOverhead ∨ ¬ MinOk (maxFile - splitOverhead) entries.flatten) :=
  writeSplit_error entries maxFile e h

/-- `EntryPart::split`: first part within the limit, nothing lost, for all inputs. -/
theorem entry_part_split (cs : List Chunk) (max : Nat) :
    partLen (splitPart cs max).1 ≤ max ∧
    streamView ((splitPart cs max).1 ++ ((splitPart cs max).2.getD [])) = streamView cs ∧
    ((splitPart cs max).2 = none ↔ partLen cs ≤ max) :=
  ⟨splitPart_first_le cs max, splitPart_lossless cs max, splitPart_none_iff cs max⟩

theorem overhead_is_52 : splitOverhead = 52 := by decide

-- a 3-chunk entry split at 60 bytes: two parts, both within the limit
example : (writeSplit [[⟨ChunkType.FHED, [0,0,0,0,0,0,97]⟩, ⟨ChunkType.FDAT, List.replicate 40 7⟩, ⟨ChunkType.FEND, []⟩]] 100).isOk = true := by
  decide +kernel
example : writeSplit [[⟨ChunkType.FHED, List.replicate 30 0⟩]] 60 = .error .invalidInput := by decide +kernel
example : writeSplit [] 51 = .error .invalidInput := by decide +kernel

end Pna.C04
