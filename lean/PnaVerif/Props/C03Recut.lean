import PnaVerif.Lemmas.Recut
import PnaVerif.Props.C01
/-!
# C03 (entry and archive level) — decoding is independent of where data chunks are cut

"What is decoded from an archive depends only on the sequence of chunk types and on the concatenation of
consecutive data-chunk payloads, never on where data chunks are cut."

Two chunk lists are the same up to the cutting of data chunks iff their `streamView`s are equal
(`Lemmas/Split.lean`: consecutive FDAT — or SDAT — chunks are merged).  For such lists:

* `parseN_recut`, `parseS_recut`, `parseEntry_recut` — the entry parsers return the same outcome: the same
  error, or entries that agree on every field and on the concatenated data (`SameN`/`SameS`/`SameE`);
* `parseN_recut_needs_noSDAT`, `parseS_recut_needs_noFDAT` — the hypothesis "a normal entry carries no
  SDAT chunk / a solid entry no FDAT chunk" (`Unmixed`) is necessary: such chunks are kept as
  uninterpreted `extra` chunks, one per chunk, and `streamView` (like `EntryPart::split`) cuts them too;
* `sameN_content` — entries related by `SameN` give every reader of the data the same bytes and
  the same `compressed_size`;
* `groupItems_recut` — grouping chunks into items commutes with re-cutting (any carry buffer);
* `readArchive_recut` — whole archives: same number of entries, pairwise `SameE`, same kind of end.
-/
namespace Pna.C03R
open Pna

-- concrete values used by the non-vacuity examples: FHED payload = v0.0, file, store, no cipher, name "a"
def hdr : Bytes := [0, 0, 0, 0, 0, 0, 97]
def itemA : List Chunk := [⟨ChunkType.FHED, hdr⟩, ⟨ChunkType.FDAT, [1, 2, 3]⟩, ⟨ChunkType.FEND, []⟩]
def itemB : List Chunk :=
  [⟨ChunkType.FHED, hdr⟩, ⟨ChunkType.FDAT, [1]⟩, ⟨ChunkType.FDAT, [2, 3]⟩, ⟨ChunkType.FEND, []⟩]
def shdr : Bytes := [0, 0, 0, 0, 0]
def solidA : List Chunk := [⟨ChunkType.SHED, shdr⟩, ⟨ChunkType.SDAT, [1, 2, 3]⟩, ⟨ChunkType.SEND, []⟩]
def solidB : List Chunk :=
  [⟨ChunkType.SHED, shdr⟩, ⟨ChunkType.SDAT, []⟩, ⟨ChunkType.SDAT, [1, 2]⟩, ⟨ChunkType.SDAT, [3]⟩, ⟨ChunkType.SEND, []⟩]

/-! ### (1) normal entries -/

/-- **`NormalEntry::try_from` does not depend on where FDAT chunks are cut.** -/
theorem parseN_recut (a b : List Chunk) (ha : ∀ c ∈ a, c.ty ≠ ChunkType.SDAT) (hb : ∀ c ∈ b, c.ty ≠ ChunkType.SDAT)
    (h : streamView a = streamView b) : OutcomeRel SameN (parseN a) (parseN b) :=
  parseN_recut_aux a b ha hb h

-- non-vacuity: both hypotheses hold, both parse, the data is cut differently, `SameN` holds
example : (∀ c ∈ itemA, c.ty ≠ ChunkType.SDAT) ∧ (∀ c ∈ itemB, c.ty ≠ ChunkType.SDAT) ∧
    streamView itemA = streamView itemB ∧ (parseN itemA).isOk = true ∧ (parseN itemB).isOk = true ∧
    parseN itemA ≠ parseN itemB ∧ OutcomeRel SameN (parseN itemA) (parseN itemB) := by decide +kernel

/-- The hypothesis is necessary: SDAT chunks inside a normal entry are kept one by one as `extra`
    chunks, so merging them is visible.  Both lists parse; `extra` differs. -/
def mixedA : List Chunk :=
  [⟨ChunkType.FHED, hdr⟩, ⟨ChunkType.SDAT, [1]⟩, ⟨ChunkType.SDAT, [2]⟩, ⟨ChunkType.FEND, []⟩]
def mixedB : List Chunk := [⟨ChunkType.FHED, hdr⟩, ⟨ChunkType.SDAT, [1, 2]⟩, ⟨ChunkType.FEND, []⟩]

theorem mixed_counterexample :
    streamView mixedA = streamView mixedB ∧
    (∃ e₁ e₂, parseN mixedA = .ok e₁ ∧ parseN mixedB = .ok e₂ ∧ e₁.extra ≠ e₂.extra) ∧
    ¬ OutcomeRel SameN (parseN mixedA) (parseN mixedB) := by
  refine ⟨by decide +kernel, ?_, by decide +kernel⟩
  refine ⟨{ header := ⟨0, 0, 0, 0, 0, 0, [97]⟩, phsf := none,
            extra := [⟨ChunkType.SDAT, [1]⟩, ⟨ChunkType.SDAT, [2]⟩], data := [], md := {}, xattrs := [] },
          { header := ⟨0, 0, 0, 0, 0, 0, [97]⟩, phsf := none,
            extra := [⟨ChunkType.SDAT, [1, 2]⟩], data := [], md := {}, xattrs := [] }, ?_, ?_, ?_⟩
  · decide +kernel
  · decide +kernel
  · decide +kernel

theorem parseN_recut_needs_noSDAT :
    ¬ ∀ a b : List Chunk, streamView a = streamView b → OutcomeRel SameN (parseN a) (parseN b) :=
  fun h => mixed_counterexample.2.2 (h mixedA mixedB mixed_counterexample.1)

/-! ### (2) solid entries -/

/-- **`SolidEntry::try_from` does not depend on where SDAT chunks are cut.** -/
theorem parseS_recut (a b : List Chunk) (ha : ∀ c ∈ a, c.ty ≠ ChunkType.FDAT) (hb : ∀ c ∈ b, c.ty ≠ ChunkType.FDAT)
    (h : streamView a = streamView b) : OutcomeRel SameS (parseS a) (parseS b) :=
  parseS_recut_aux a b ha hb h

example : (∀ c ∈ solidA, c.ty ≠ ChunkType.FDAT) ∧ (∀ c ∈ solidB, c.ty ≠ ChunkType.FDAT) ∧
    streamView solidA = streamView solidB ∧ (parseS solidA).isOk = true ∧ (parseS solidB).isOk = true ∧
    parseS solidA ≠ parseS solidB ∧ OutcomeRel SameS (parseS solidA) (parseS solidB) := by decide +kernel

def mixedSA : List Chunk :=
  [⟨ChunkType.SHED, shdr⟩, ⟨ChunkType.FDAT, [1]⟩, ⟨ChunkType.FDAT, [2]⟩, ⟨ChunkType.SEND, []⟩]
def mixedSB : List Chunk := [⟨ChunkType.SHED, shdr⟩, ⟨ChunkType.FDAT, [1, 2]⟩, ⟨ChunkType.SEND, []⟩]

theorem mixedS_counterexample :
    streamView mixedSA = streamView mixedSB ∧
    (∃ s₁ s₂, parseS mixedSA = .ok s₁ ∧ parseS mixedSB = .ok s₂ ∧ s₁.extra ≠ s₂.extra) ∧
    ¬ OutcomeRel SameS (parseS mixedSA) (parseS mixedSB) := by
  refine ⟨by decide +kernel, ?_, by decide +kernel⟩
  refine ⟨{ header := ⟨0, 0, 0, 0, 0⟩, phsf := none, data := [],
            extra := [⟨ChunkType.FDAT, [1]⟩, ⟨ChunkType.FDAT, [2]⟩] },
          { header := ⟨0, 0, 0, 0, 0⟩, phsf := none, data := [],
            extra := [⟨ChunkType.FDAT, [1, 2]⟩] }, ?_, ?_, ?_⟩
  · decide +kernel
  · decide +kernel
  · decide +kernel

theorem parseS_recut_needs_noFDAT :
    ¬ ∀ a b : List Chunk, streamView a = streamView b → OutcomeRel SameS (parseS a) (parseS b) :=
  fun h => mixedS_counterexample.2.2 (h mixedSA mixedSB mixedS_counterexample.1)

/-! ### (3) either kind -/

/-- **`ReadEntry::try_from` does not depend on where data chunks are cut** (`Unmixed`: an item that
    starts with FHED has no SDAT chunk, one that starts with SHED has no FDAT chunk). -/
theorem parseEntry_recut (a b : List Chunk) (ha : Unmixed a) (hb : Unmixed b)
    (h : streamView a = streamView b) : OutcomeRel SameE (parseEntry a) (parseEntry b) :=
  parseEntry_recut_aux a b ha hb h

example : Unmixed itemA ∧ Unmixed itemB ∧ streamView itemA = streamView itemB ∧
    (parseEntry itemA).isOk = true ∧ parseEntry itemA ≠ parseEntry itemB ∧
    OutcomeRel SameE (parseEntry itemA) (parseEntry itemB) := by decide +kernel
example : Unmixed solidA ∧ Unmixed solidB ∧ streamView solidA = streamView solidB ∧
    (parseEntry solidA).isOk = true ∧ parseEntry solidA ≠ parseEntry solidB ∧
    OutcomeRel SameE (parseEntry solidA) (parseEntry solidB) := by decide +kernel
-- `Unmixed` is a real restriction, and it is needed
example : ¬ Unmixed mixedA ∧ ¬ Unmixed mixedSA ∧
    ¬ OutcomeRel SameE (parseEntry mixedA) (parseEntry mixedB) ∧
    ¬ OutcomeRel SameE (parseEntry mixedSA) (parseEntry mixedSB) := by decide +kernel

/-! ### (4) content level -/

/-- Entries that are the same up to the cutting of their data give every reader the same bytes
    (decryption and decompression see the concatenation only) and the same `compressed_size`. -/
theorem sameN_content (P : BlockPerm) (C : Compressor) (sel : CipherSel) (key : Bytes) (e₁ e₂ : NormalEntry)
    (h : SameN e₁ e₂) :
    readData P C sel key e₁.data = readData P C sel key e₂.data ∧ e₁.compressedSize = e₂.compressedSize :=
  ⟨C01.readData_recut P C sel key e₁.data e₂.data h.2.2.2.2.2, h.compressedSize⟩

/-- … in particular for two successful parses of re-cut chunk lists. -/
theorem parseN_recut_content (P : BlockPerm) (C : Compressor) (sel : CipherSel) (key : Bytes)
    (a b : List Chunk) (ha : ∀ c ∈ a, c.ty ≠ ChunkType.SDAT) (hb : ∀ c ∈ b, c.ty ≠ ChunkType.SDAT)
    (h : streamView a = streamView b) (e₁ e₂ : NormalEntry) (h₁ : parseN a = .ok e₁) (h₂ : parseN b = .ok e₂) :
    readData P C sel key e₁.data = readData P C sel key e₂.data ∧ e₁.compressedSize = e₂.compressedSize := by
  have hr := parseN_recut a b ha hb h
  rw [h₁, h₂] at hr
  exact sameN_content P C sel key e₁ e₂ hr

example : SameN { header := ⟨0, 0, 0, 0, 0, 0, [97]⟩, phsf := none, extra := [], data := [[1, 2, 3]], md := {}, xattrs := [] }
    { header := ⟨0, 0, 0, 0, 0, 0, [97]⟩, phsf := none, extra := [], data := [[1], [], [2, 3]], md := {}, xattrs := [] } := by
  decide +kernel
example : parseN itemA = .ok { header := ⟨0, 0, 0, 0, 0, 0, [97]⟩, phsf := none, extra := [], data := [[1, 2, 3]], md := {}, xattrs := [] } ∧
    parseN itemB = .ok { header := ⟨0, 0, 0, 0, 0, 0, [97]⟩, phsf := none, extra := [], data := [[1], [2, 3]], md := {}, xattrs := [] } := by
  decide +kernel

/-! ### (5) grouping -/

/-- **Grouping chunks into items commutes with re-cutting**, general form: the carry buffers may
    themselves be cut differently (a data chunk may be merged across the boundary between the carry
    and the first chunk, so the conclusion is about `streamView` of whole items). -/
theorem groupItems_recut_carry (cur₁ cur₂ : List Chunk) (nx : Bool) (xs ys : List Chunk)
    (hc : streamView cur₁ = streamView cur₂) (h : streamView xs = streamView ys) :
    (groupItems cur₁ nx xs).2.2.1 = (groupItems cur₂ nx ys).2.2.1 ∧
    (groupItems cur₁ nx xs).2.2.2 = (groupItems cur₂ nx ys).2.2.2 ∧
    (groupItems cur₁ nx xs).1.length = (groupItems cur₂ nx ys).1.length ∧
    (∀ (k : Nat) (h₁ : k < (groupItems cur₁ nx xs).1.length) (h₂ : k < (groupItems cur₂ nx ys).1.length),
      streamView (groupItems cur₁ nx xs).1[k] = streamView (groupItems cur₂ nx ys).1[k]) ∧
    streamView (groupItems cur₁ nx xs).2.1 = streamView (groupItems cur₂ nx ys).2.1 := by
  obtain ⟨g1, g2, g3, g4⟩ := groupItems_recut_aux cur₁ cur₂ nx xs ys hc h
  exact ⟨g3, g4, g1.length_eq, fun k h₁ h₂ => g1.getElem k h₁ h₂, g2⟩

/-- **Grouping commutes with re-cutting** (same carry, in particular `cur = []`), in the form of the
    statement: destructuring both results. -/
theorem groupItems_recut (cur : List Chunk) (nx : Bool) (xs ys : List Chunk) (h : streamView xs = streamView ys) :
    match groupItems cur nx xs, groupItems cur nx ys with
    | (is₁, l₁, n₁, e₁), (is₂, l₂, n₂, e₂) =>
      n₁ = n₂ ∧ e₁ = e₂ ∧ is₁.length = is₂.length ∧
      (∀ (k : Nat) (h₁ : k < is₁.length) (h₂ : k < is₂.length), streamView is₁[k] = streamView is₂[k]) ∧
      streamView l₁ = streamView l₂ :=
  groupItems_recut_carry cur cur nx xs ys rfl h

example : streamView (itemA ++ solidA ++ [⟨ChunkType.FDAT, [7]⟩, ⟨ChunkType.FDAT, [8]⟩])
      = streamView (itemB ++ solidB ++ [⟨ChunkType.FDAT, [7, 8]⟩]) ∧
    (groupItems [] false (itemA ++ solidA ++ [⟨ChunkType.FDAT, [7]⟩, ⟨ChunkType.FDAT, [8]⟩])).1 = [itemA, solidA] ∧
    (groupItems [] false (itemB ++ solidB ++ [⟨ChunkType.FDAT, [7, 8]⟩])).1 = [itemB, solidB] ∧
    itemA ≠ itemB := by decide +kernel
-- merging across the carry boundary
example : (groupItems [⟨ChunkType.FHED, hdr⟩, ⟨ChunkType.FDAT, [1]⟩] false [⟨ChunkType.FDAT, [2, 3]⟩, ⟨ChunkType.FEND, []⟩]).1 = [itemB] ∧
    streamView [⟨ChunkType.FHED, hdr⟩, ⟨ChunkType.FDAT, [1]⟩] = streamView [⟨ChunkType.FHED, hdr⟩, ⟨ChunkType.FDAT, []⟩, ⟨ChunkType.FDAT, [1]⟩] := by
  decide +kernel

/-! ### (6) archive level -/

/-- **Archives that differ only in where data chunks are cut decode to the same entries.**
    `xs`, `ys` are the bodies (the chunks between AHED and AEND) of two one-part archives; every chunk
    fits the 32-bit length field, no AEND inside the body, and every item the grouping produces is
    `Unmixed`.  Then both archives yield the same number of entries, pairwise the same up to the cutting
    of their data, iteration ends the same way (success, the same error, or a panic in both), and the
    continuation flag agrees. -/
theorem readArchive_recut (n : Nat) (hn : n < 2 ^ 32) (xs ys : List Chunk)
    (fx : ChunksFit xs) (fy : ChunksFit ys)
    (ex : ∀ c ∈ xs, c.ty ≠ ChunkType.AEND) (ey : ∀ c ∈ ys, c.ty ≠ ChunkType.AEND)
    (ux : ∀ it ∈ (groupItems [] false xs).1, Unmixed it) (uy : ∀ it ∈ (groupItems [] false ys).1, Unmixed it)
    (h : streamView xs = streamView ys) :
    let r₁ := readArchiveStream (signature ++ encodeChunks
      ([⟨ChunkType.AHED, encAHED ⟨0, 0, n⟩⟩] ++ xs ++ [⟨ChunkType.AEND, []⟩]))
    let r₂ := readArchiveStream (signature ++ encodeChunks
      ([⟨ChunkType.AHED, encAHED ⟨0, 0, n⟩⟩] ++ ys ++ [⟨ChunkType.AEND, []⟩]))
    r₁.entries.length = r₂.entries.length ∧
    (∀ (k : Nat) (h₁ : k < r₁.entries.length) (h₂ : k < r₂.entries.length), SameE (r₁.entries[k]'h₁) (r₂.entries[k]'h₂)) ∧
    OutcomeRel (fun _ _ => True) r₁.status r₂.status ∧ r₁.next = r₂.next := by
  have e₁ := readArchiveStream_encodeBody n hn xs fx ex
  have e₂ := readArchiveStream_encodeBody n hn ys fy ey
  unfold encodeBody at e₁ e₂
  intro r₁ r₂
  obtain ⟨g1, _, g3, _⟩ := groupItems_recut_aux [] [] false xs ys rfl h
  obtain ⟨p1, p2⟩ := parseItems_rel g1 ux uy
  rw [show r₁ = _ from e₁, show r₂ = _ from e₂]
  refine ⟨p1.length_eq, fun k h₁ h₂ => p1.getElem k h₁ h₂, ?_, g3⟩
  simp only
  revert p2
  cases (parseItems (groupItems [] false xs).1).2 <;> cases (parseItems (groupItems [] false ys).1).2 <;>
    simp only [OutcomeRel, imp_self]


-- non-vacuity: a two-entry archive (one file, one solid block) and the same with its data chunks re-cut
def bodyA : List Chunk := itemA ++ solidA
def bodyB : List Chunk := itemB ++ solidB
def archiveOf (xs : List Chunk) : Bytes :=
  signature ++ encodeChunks ([⟨ChunkType.AHED, encAHED ⟨0, 0, 1⟩⟩] ++ xs ++ [⟨ChunkType.AEND, []⟩])

example : ChunksFit bodyA ∧ ChunksFit bodyB ∧ (∀ c ∈ bodyA, c.ty ≠ ChunkType.AEND) ∧ (∀ c ∈ bodyB, c.ty ≠ ChunkType.AEND) ∧
    (∀ it ∈ (groupItems [] false bodyA).1, Unmixed it) ∧ (∀ it ∈ (groupItems [] false bodyB).1, Unmixed it) ∧
    streamView bodyA = streamView bodyB ∧ bodyA ≠ bodyB := by
  unfold ChunksFit
  decide +kernel
example : (readArchiveStream (archiveOf bodyA)).entries.length = 2 ∧ (readArchiveStream (archiveOf bodyA)).status = .ok () ∧
    (readArchiveStream (archiveOf bodyB)).entries.length = 2 ∧ (readArchiveStream (archiveOf bodyB)).status = .ok () ∧
    (readArchiveStream (archiveOf bodyA)).entries ≠ (readArchiveStream (archiveOf bodyB)).entries := by
  decide +kernel
-- an item that fails to parse (no FHED payload): the same error at the same place in both
example : (readArchiveStream (archiveOf (itemA ++ [⟨ChunkType.FHED, []⟩, ⟨ChunkType.FDAT, [1, 2]⟩, ⟨ChunkType.FEND, []⟩]))).status
      = .error .invalidData ∧
    (readArchiveStream (archiveOf (itemB ++ [⟨ChunkType.FHED, []⟩, ⟨ChunkType.FDAT, [1]⟩, ⟨ChunkType.FDAT, [2]⟩, ⟨ChunkType.FEND, []⟩]))).status
      = .error .invalidData ∧
    (readArchiveStream (archiveOf (itemA ++ [⟨ChunkType.FHED, []⟩, ⟨ChunkType.FDAT, [1, 2]⟩, ⟨ChunkType.FEND, []⟩]))).entries.length = 1 := by
  decide +kernel

/-- unfolding of `readArchiveWith` once the tokeniser's result is known -/
theorem readArchiveWith_cons (chunks : Bytes → List Chunk × Outcome Unit) (carry : List Chunk) (b : Bytes)
    (hd : Chunk) (xs : List Chunk) (st : Outcome Unit) (t : chunks b = (hd :: xs, st)) :
    readArchiveWith chunks carry b =
      if hd.ty ≠ ChunkType.AHED then { status := .error .invalidData }
      else match decAHED hd.data with
        | .error e => { status := .error e }
        | .panic s => { status := .panic s }
        | .ok hh =>
          { header := some hh, rawItems := (groupItems carry false xs).1,
            entries := (parseItems (groupItems carry false xs).1).1,
            status := (match (parseItems (groupItems carry false xs).1).2 with | .ok _ => st | o => o),
            carry := (groupItems carry false xs).2.1, next := (groupItems carry false xs).2.2.1 } := by
  unfold readArchiveWith
  rw [t]
  rfl

/-- The same conclusion for any tokeniser (stream or slice reader) and any part of a multipart archive:
    whenever both chunk iterators return the same first chunk, bodies that are the same up to cutting, and
    the same end state — the carry buffers handed over from the previous part may differ in their cutting
    as well, and so may the carry buffers handed on. -/
theorem readArchive_recut_chunks (chunks₁ chunks₂ : Bytes → List Chunk × Outcome Unit) (b₁ b₂ : Bytes)
    (hd : Chunk) (carry₁ carry₂ xs ys : List Chunk) (st : Outcome Unit)
    (t₁ : chunks₁ b₁ = (hd :: xs, st)) (t₂ : chunks₂ b₂ = (hd :: ys, st))
    (ux : ∀ it ∈ (groupItems carry₁ false xs).1, Unmixed it) (uy : ∀ it ∈ (groupItems carry₂ false ys).1, Unmixed it)
    (hc : streamView carry₁ = streamView carry₂) (h : streamView xs = streamView ys) :
    let r₁ := readArchiveWith chunks₁ carry₁ b₁
    let r₂ := readArchiveWith chunks₂ carry₂ b₂
    r₁.header = r₂.header ∧ r₁.entries.length = r₂.entries.length ∧
    (∀ (k : Nat) (h₁ : k < r₁.entries.length) (h₂ : k < r₂.entries.length), SameE (r₁.entries[k]'h₁) (r₂.entries[k]'h₂)) ∧
    OutcomeRel (fun _ _ => True) r₁.status r₂.status ∧ r₁.next = r₂.next ∧
    streamView r₁.carry = streamView r₂.carry := by
  intro r₁ r₂
  obtain ⟨g1, g2, g3, _⟩ := groupItems_recut_aux carry₁ carry₂ false xs ys hc h
  obtain ⟨p1, p2⟩ := parseItems_rel g1 ux uy
  rw [show r₁ = _ from readArchiveWith_cons chunks₁ carry₁ b₁ hd xs st t₁,
    show r₂ = _ from readArchiveWith_cons chunks₂ carry₂ b₂ hd ys st t₂]
  by_cases ha : hd.ty ≠ ChunkType.AHED
  · simp only [if_pos ha]
    simp [OutcomeRel]
  · simp only [if_neg ha]
    cases decAHED hd.data with
    | error e => simp [OutcomeRel]
    | panic s => simp [OutcomeRel]
    | ok hh =>
      refine ⟨rfl, p1.length_eq, fun k h₁ h₂ => p1.getElem k h₁ h₂, ?_, g3, g2⟩
      simp only
      revert p2
      cases (parseItems (groupItems carry₁ false xs).1).2 <;> cases (parseItems (groupItems carry₂ false ys).1).2 <;>
        simp only [OutcomeRel, imp_self, false_implies]
      intro _
      exact OutcomeRel.refl (fun _ => True.intro) st

-- non-vacuity: the second part of a multipart archive, the carry buffer holding the start of an entry
example : chunksStream (signature ++ encodeChunks [⟨ChunkType.AHED, encAHED ⟨0, 0, 2⟩⟩, ⟨ChunkType.FDAT, [2, 3]⟩,
      ⟨ChunkType.FEND, []⟩, ⟨ChunkType.AEND, []⟩])
      = (⟨ChunkType.AHED, encAHED ⟨0, 0, 2⟩⟩ :: [⟨ChunkType.FDAT, [2, 3]⟩, ⟨ChunkType.FEND, []⟩, ⟨ChunkType.AEND, []⟩], .ok ()) ∧
    (∀ it ∈ (groupItems [⟨ChunkType.FHED, hdr⟩, ⟨ChunkType.FDAT, [1]⟩] false
      [⟨ChunkType.FDAT, [2, 3]⟩, ⟨ChunkType.FEND, []⟩, ⟨ChunkType.AEND, []⟩]).1, Unmixed it) ∧
    (readArchiveWith chunksStream [⟨ChunkType.FHED, hdr⟩, ⟨ChunkType.FDAT, [1]⟩]
      (signature ++ encodeChunks [⟨ChunkType.AHED, encAHED ⟨0, 0, 2⟩⟩, ⟨ChunkType.FDAT, [2, 3]⟩,
        ⟨ChunkType.FEND, []⟩, ⟨ChunkType.AEND, []⟩])).entries.length = 1 := by
  decide +kernel

end Pna.C03R
