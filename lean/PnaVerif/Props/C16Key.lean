import PnaVerif.Model.Toy
import PnaVerif.Lemmas.WrongKey
import PnaVerif.Lemmas.Capstone3
/-!
# C16 — "only the right password reads an encrypted entry": the exact characterisation

A different password reaches the reader as a different key `k2` (through the KDF, a parameter of
the model).  The block cipher is a parameter too; nothing is assumed of it beyond being a
permutation per key (`BlockPerm.Lawful`, and for CTR not even that).  So the honest statement is
a characterisation: **the wrong key reads the original content exactly when the two keyed ciphers
agree on everything that was actually used** —

* CTR: the keystreams of `k` and `k2` coincide on `[0, content length)`
  (`ctr_wrong_key_iff`, `ctr_store_wrong_key_iff`); if they differ at a position the output
  differs from the content *at that position* (`ctr_wrong_key_differs`).  The degenerate case
  is the recorded finding `C16-empty-ctr-store`: empty content ⇒ empty range ⇒ every key reads
  it (`empty_ctr_any_key`);
* CBC: the decryptors `D k2` and `D k` coincide on every cipher-text block that was written
  (`cbc_store_wrong_key_iff`); otherwise the read fails with a padding error or returns other
  bytes (`cbc_store_wrong_key_differs`);
* whatever the key and the stored bytes, reading never panics (`never_panics_wrong_key`).

For a real cipher (AES/Camellia) the right-hand sides hold only with negligible probability
(or for the empty CTR content); that part is outside the model and sampled by the harness.
Non-vacuity: the toy permutation of `Model/Toy.lean` with two keys whose ciphers differ, a key
that differs only outside the bytes the toy cipher consults, and a key with a valid wrong padding.
-/
namespace Pna.C16K
open Pna

-- ---------------------------------------------------------------- concrete values for the examples

def kA : Bytes := (List.range 32).map fun i => UInt8.ofNat (7 * i + 3)
/-- another key: the toy cipher differs -/
def kB : Bytes := (List.range 32).map fun i => UInt8.ofNat (5 * i + 11)
/-- `kA` with its first byte zeroed: under CBC the padding happens to stay valid -/
def kC : Bytes := kA.set 0 0
/-- a key that differs from `kA` only beyond the 32 bytes the toy cipher looks at -/
def kA2 : Bytes := kA ++ [9]
def ivX : Bytes := (List.range 16).map fun i => UInt8.ofNat (i + 1)
/-- five bytes written in three calls, one of them empty -/
def wsX : List Bytes := [[1, 2, 3], [], [4, 5]]
/-- twenty bytes (two CBC blocks once padded) in two calls -/
def wsY : List Bytes := [(List.range 17).map UInt8.ofNat, [30, 31, 32]]

-- ---------------------------------------------------------------- (1) CTR layer

/-- **(1)** Decrypting with `k2` what was encrypted with `k` gives the plaintext back exactly
    when the two keystreams coincide on the positions of the plaintext.  No assumption on the
    cipher at all. -/
theorem ctr_wrong_key_iff (P : BlockPerm) (k k2 iv pt : Bytes) :
    ctrApply P k2 iv 0 (ctrApply P k iv 0 pt) = pt ↔
      ∀ i, i < pt.length → ctrKeystream P k iv i = ctrKeystream P k2 iv i := by
  have h := wk_ctr_wrong_key_iff_pos P k k2 iv 0 pt
  simp only [Nat.zero_add] at h
  exact h

-- → direction, instantiated: the wrong key does not give the plaintext, so the keystreams differ somewhere
example : ctrApply Toy.perm kB ivX 0 (ctrApply Toy.perm kA ivX 0 [1, 2, 3, 4, 5]) = [217, 56, 199, 22, 101] := by
  decide +kernel
example : ¬ ∀ i, i < ([1, 2, 3, 4, 5] : Bytes).length →
    ctrKeystream Toy.perm kA ivX i = ctrKeystream Toy.perm kB ivX i := by
  rw [← ctr_wrong_key_iff]; decide +kernel
-- ← direction, instantiated with a different key whose keystream is the same
example : kA2 ≠ kA ∧ ∀ i, i < 40 → ctrKeystream Toy.perm kA ivX i = ctrKeystream Toy.perm kA2 ivX i := by
  decide +kernel
example : ctrApply Toy.perm kA2 ivX 0 (ctrApply Toy.perm kA ivX 0 wsY.flatten) = wsY.flatten :=
  (ctr_wrong_key_iff Toy.perm kA kA2 ivX wsY.flatten).mpr (by decide +kernel)

-- ---------------------------------------------------------------- (2) CTR layer, "different bytes"

/-- **(2)** If the keystreams differ at a position `i` inside the plaintext, the wrong key's
    output has the same length as the plaintext and differs from it *at position `i`*
    (hence is not the plaintext).  `i < pt.length` already says `pt ≠ []`. -/
theorem ctr_wrong_key_differs (P : BlockPerm) (k k2 iv pt : Bytes) (i : Nat) (hi : i < pt.length)
    (hne : ctrKeystream P k iv i ≠ ctrKeystream P k2 iv i) :
    (ctrApply P k2 iv 0 (ctrApply P k iv 0 pt)).length = pt.length ∧
    (ctrApply P k2 iv 0 (ctrApply P k iv 0 pt))[i]? ≠ pt[i]? ∧
    ctrApply P k2 iv 0 (ctrApply P k iv 0 pt) ≠ pt := by
  have hl : (ctrApply P k2 iv 0 (ctrApply P k iv 0 pt)).length = pt.length := by
    rw [ctrApply_length, ctrApply_length]
  have hi2 : i < (ctrApply P k2 iv 0 (ctrApply P k iv 0 pt)).length := by rw [hl]; exact hi
  have hd := wk_ctr_wrong_key_differs_pos P k k2 iv 0 pt i hi (by rw [Nat.zero_add]; exact hne) hi2
  have hq : (ctrApply P k2 iv 0 (ctrApply P k iv 0 pt))[i]? ≠ pt[i]? := by
    rw [List.getElem?_eq_getElem hi2, List.getElem?_eq_getElem hi]
    intro h; exact hd (Option.some.inj h)
  exact ⟨hl, hq, fun h => hq (by rw [h])⟩

/-- the same with the bytes themselves instead of `[i]?` -/
theorem ctr_wrong_key_differs_at (P : BlockPerm) (k k2 iv pt : Bytes) (i : Nat) (hi : i < pt.length)
    (hne : ctrKeystream P k iv i ≠ ctrKeystream P k2 iv i) :
    ∃ h : i < (ctrApply P k2 iv 0 (ctrApply P k iv 0 pt)).length,
      (ctrApply P k2 iv 0 (ctrApply P k iv 0 pt))[i] ≠ pt[i] := by
  have hi2 : i < (ctrApply P k2 iv 0 (ctrApply P k iv 0 pt)).length := by
    rw [ctrApply_length, ctrApply_length]; exact hi
  exact ⟨hi2, wk_ctr_wrong_key_differs_pos P k k2 iv 0 pt i hi (by rw [Nat.zero_add]; exact hne) hi2⟩

-- the hypotheses hold for the toy cipher with kA / kB at position 3 of a 5-byte plaintext
example : (3 < ([1, 2, 3, 4, 5] : Bytes).length) ∧
    ctrKeystream Toy.perm kA ivX 3 ≠ ctrKeystream Toy.perm kB ivX 3 := by decide +kernel
example : (ctrApply Toy.perm kB ivX 0 (ctrApply Toy.perm kA ivX 0 [1, 2, 3, 4, 5]))[3]? = some 22 ∧
    ([1, 2, 3, 4, 5] : Bytes)[3]? = some 4 := by decide +kernel

-- ---------------------------------------------------------------- (3) stored CTR entry

/-- What reading a stored (uncompressed) CTR entry with another key returns: always `ok`, of the
    double keystream application — for every partition `ws` of the content into write calls. -/
theorem ctr_store_wrong_key_reads (P : BlockPerm) (k k2 iv : Bytes) (hiv : iv.length = 16) (ws : List Bytes) :
    readData P storeCompressor .ctr k2 (buildData P storeCompressor .ctr k iv ws)
      = .ok (ctrApply P k2 iv 0 (ctrApply P k iv 0 ws.flatten)) :=
  wk_ctr_read_build P storeCompressor k k2 iv hiv ws

/-- **(3)** A stored CTR entry written with `k` (store codec, any 16-byte IV, ANY partition of
    the content into write calls) is read back as the original content by `k2` exactly when the
    keystreams of `k` and `k2` under the stored IV agree on `[0, content length)`. -/
theorem ctr_store_wrong_key_iff (P : BlockPerm) (k k2 iv : Bytes) (hiv : iv.length = 16) (ws : List Bytes) :
    readData P storeCompressor .ctr k2 (buildData P storeCompressor .ctr k iv ws) = .ok ws.flatten ↔
      ∀ i, i < ws.flatten.length → ctrKeystream P k iv i = ctrKeystream P k2 iv i := by
  rw [ctr_store_wrong_key_reads P k k2 iv hiv ws, ← ctr_wrong_key_iff]
  exact ⟨fun h => Outcome.ok.inj h, fun h => by rw [h]⟩

theorem ctr_stream_wrong_key_reads (P : BlockPerm) (k k2 iv : Bytes) (hiv : iv.length = 16) (ws : List Bytes) :
    readData P storeCompressor .ctr k2 (streamData P storeCompressor .ctr k iv ws)
      = .ok (ctrApply P k2 iv 0 (ctrApply P k iv 0 ws.flatten)) :=
  wk_ctr_read_stream P storeCompressor k k2 iv hiv ws

/-- the same for the streaming writer (`Archive::write_file`: the IV as its own chunk) -/
theorem ctr_stream_wrong_key_iff (P : BlockPerm) (k k2 iv : Bytes) (hiv : iv.length = 16) (ws : List Bytes) :
    readData P storeCompressor .ctr k2 (streamData P storeCompressor .ctr k iv ws) = .ok ws.flatten ↔
      ∀ i, i < ws.flatten.length → ctrKeystream P k iv i = ctrKeystream P k2 iv i := by
  rw [ctr_stream_wrong_key_reads P k k2 iv hiv ws, ← ctr_wrong_key_iff]
  exact ⟨fun h => Outcome.ok.inj h, fun h => by rw [h]⟩

example : ivX.length = 16 := by decide
-- kB does not read what kA wrote …
example : readData Toy.perm storeCompressor .ctr kB (buildData Toy.perm storeCompressor .ctr kA ivX wsX)
    = .ok [217, 56, 199, 22, 101] := by decide +kernel
-- … and a key with different bytes but the same toy cipher does, through the ← direction
example : readData Toy.perm storeCompressor .ctr kA2 (buildData Toy.perm storeCompressor .ctr kA ivX wsY)
    = .ok wsY.flatten :=
  (ctr_store_wrong_key_iff Toy.perm kA kA2 ivX (by decide) wsY).mpr (by decide +kernel)

/-- **Known finding `C16-empty-ctr-store`, as the degenerate case of the characterisation**:
    when the content is empty (no write call, or only empty ones) the range `[0, 0)` is empty,
    so EVERY key reads the entry as the original (empty) content. -/
theorem empty_ctr_any_key (P : BlockPerm) (k iv : Bytes) (hiv : iv.length = 16) (ws : List Bytes)
    (hws : ws.flatten = []) (k2 : Bytes) :
    readData P storeCompressor .ctr k2 (buildData P storeCompressor .ctr k iv ws) = .ok ws.flatten := by
  rw [ctr_store_wrong_key_iff P k k2 iv hiv ws, hws]
  intro i hi
  exact absurd hi (Nat.not_lt_zero i)

example : readData Toy.perm storeCompressor .ctr kB (buildData Toy.perm storeCompressor .ctr kA ivX [[], []])
    = .ok [] := empty_ctr_any_key Toy.perm kA ivX (by decide) [[], []] rfl kB
example : buildData Toy.perm storeCompressor .ctr kA ivX [] = [ivX] := by decide +kernel

/-- **(3, negative side)** Non-empty content and keystreams that differ at a position `i` of
    the content: the wrong key gets `ok` of bytes of the same length that differ from the content
    at position `i` — never the content. -/
theorem ctr_store_wrong_key_differs (P : BlockPerm) (k k2 iv : Bytes) (hiv : iv.length = 16) (ws : List Bytes)
    (i : Nat) (hi : i < ws.flatten.length) (hne : ctrKeystream P k iv i ≠ ctrKeystream P k2 iv i) :
    ∃ out, readData P storeCompressor .ctr k2 (buildData P storeCompressor .ctr k iv ws) = .ok out ∧
      out.length = ws.flatten.length ∧ out[i]? ≠ ws.flatten[i]? ∧ out ≠ ws.flatten :=
  ⟨_, ctr_store_wrong_key_reads P k k2 iv hiv ws, ctr_wrong_key_differs P k k2 iv ws.flatten i hi hne⟩

/-- the case asked for: non-empty content, keystreams differing at position 0 -/
theorem ctr_store_wrong_key_differs_zero (P : BlockPerm) (k k2 iv : Bytes) (hiv : iv.length = 16)
    (ws : List Bytes) (hne0 : ws.flatten ≠ []) (hne : ctrKeystream P k iv 0 ≠ ctrKeystream P k2 iv 0) :
    ∃ out, readData P storeCompressor .ctr k2 (buildData P storeCompressor .ctr k iv ws) = .ok out ∧
      out ≠ ws.flatten := by
  obtain ⟨out, h1, _, _, h4⟩ :=
    ctr_store_wrong_key_differs P k k2 iv hiv ws 0 (List.length_pos_iff.mpr hne0) hne
  exact ⟨out, h1, h4⟩

example : wsX.flatten ≠ [] ∧ ctrKeystream Toy.perm kA ivX 0 ≠ ctrKeystream Toy.perm kB ivX 0 := by
  decide +kernel

example : readData Toy.perm storeCompressor .ctr kB (streamData Toy.perm storeCompressor .ctr kA ivX wsX)
    = .ok [217, 56, 199, 22, 101] := by decide +kernel

-- ---------------------------------------------------------------- (4) stored CBC entry

/-- Reading a stored (uncompressed) CBC entry with another key is the reference decryption,
    under that key and the stored IV, of the blocks the writer emitted. -/
theorem cbc_store_wrong_key_reads (P : BlockPerm) (k k2 iv : Bytes) (hiv : iv.length = 16) (ws : List Bytes) :
    readData P storeCompressor .cbc k2 (buildData P storeCompressor .cbc k iv ws)
      = cbcDecrypt P k2 iv (cbcWriterRun P k iv ws).flatten := by
  rw [wk_readData_cbc P storeCompressor k2 _ iv _
    (wk_buildData_flatten P storeCompressor .cbc k iv ws (by decide)) hiv]
  show (match cbcDecrypt P k2 iv (cbcWriterRun P k iv ws).flatten with
    | .ok plain => Outcome.ok plain | .error e => .error e | .panic s => .panic s) = _
  cases cbcDecrypt P k2 iv (cbcWriterRun P k iv ws).flatten <;> rfl

theorem cbc_stream_wrong_key_reads (P : BlockPerm) (k k2 iv : Bytes) (hiv : iv.length = 16) (ws : List Bytes) :
    readData P storeCompressor .cbc k2 (streamData P storeCompressor .cbc k iv ws)
      = cbcDecrypt P k2 iv (cbcWriterRun P k iv ws).flatten := by
  rw [wk_readData_cbc P storeCompressor k2 _ iv _
    (wk_streamData_flatten P storeCompressor .cbc k iv ws (by decide)) hiv]
  show (match cbcDecrypt P k2 iv (cbcWriterRun P k iv ws).flatten with
    | .ok plain => Outcome.ok plain | .error e => .error e | .panic s => .panic s) = _
  cases cbcDecrypt P k2 iv (cbcWriterRun P k iv ws).flatten <;> rfl

/-- "The cipher-text blocks of the stored stream": cutting what follows the IV into 16-byte
    blocks gives exactly the writer's inner writes `cbcWriterRun P k iv ws`, which are non-empty
    and all full. -/
theorem cbc_stored_blocks (P : BlockPerm) (hP : P.Lawful) (k iv : Bytes) (hiv : iv.length = 16) (ws : List Bytes) :
    toBlocks ((buildData P storeCompressor .cbc k iv ws).flatten.drop 16) = cbcWriterRun P k iv ws ∧
    cbcWriterRun P k iv ws ≠ [] ∧ ∀ c ∈ cbcWriterRun P k iv ws, c.length = 16 := by
  obtain ⟨hne, hall, _⟩ := wk_cbcWriterRun_facts P hP k iv hiv ws
  refine ⟨?_, hne, hall⟩
  rw [wk_buildData_flatten P storeCompressor .cbc k iv ws (by decide), drop_app iv _ hiv]
  exact cbcr_toBlocks_flatten _ hall

/-- **(4)** A stored CBC entry written with `k` (lawful cipher, store codec, 16-byte IV, any
    partition of the content into write calls) is read back as the original content by `k2`
    **exactly when** the decryptors of `k2` and `k` agree on every cipher-text block that was
    written.  (→ is the security-relevant direction: a wrong key that yields the original must
    decrypt every written block like the right key.) -/
theorem cbc_store_wrong_key_iff (P : BlockPerm) (hP : P.Lawful) (k k2 iv : Bytes) (hiv : iv.length = 16)
    (ws : List Bytes) :
    readData P storeCompressor .cbc k2 (buildData P storeCompressor .cbc k iv ws) = .ok ws.flatten ↔
      ∀ c ∈ cbcWriterRun P k iv ws, P.D k2 c = P.D k c := by
  rw [cbc_store_wrong_key_reads P k k2 iv hiv ws]
  exact wk_cbc_wrong_key_iff P hP k k2 iv hiv ws

theorem cbc_stream_wrong_key_iff (P : BlockPerm) (hP : P.Lawful) (k k2 iv : Bytes) (hiv : iv.length = 16)
    (ws : List Bytes) :
    readData P storeCompressor .cbc k2 (streamData P storeCompressor .cbc k iv ws) = .ok ws.flatten ↔
      ∀ c ∈ cbcWriterRun P k iv ws, P.D k2 c = P.D k c := by
  rw [cbc_stream_wrong_key_reads P k k2 iv hiv ws]
  exact wk_cbc_wrong_key_iff P hP k k2 iv hiv ws

/-- the same, with the blocks taken from the stored stream itself -/
theorem cbc_store_wrong_key_iff_stored (P : BlockPerm) (hP : P.Lawful) (k k2 iv : Bytes) (hiv : iv.length = 16)
    (ws : List Bytes) :
    readData P storeCompressor .cbc k2 (buildData P storeCompressor .cbc k iv ws) = .ok ws.flatten ↔
      ∀ c ∈ toBlocks ((buildData P storeCompressor .cbc k iv ws).flatten.drop 16), P.D k2 c = P.D k c := by
  rw [(cbc_stored_blocks P hP k iv hiv ws).1]
  exact cbc_store_wrong_key_iff P hP k k2 iv hiv ws

-- hypotheses: the toy cipher is lawful; two written blocks
example : Toy.perm.Lawful := Capstone.toy_lawful
example : (cbcWriterRun Toy.perm kA ivX wsY).length = 2 := by decide +kernel
-- → instantiated: kB does not read the original, so its decryptor differs on a written block
example : readData Toy.perm storeCompressor .cbc kB (buildData Toy.perm storeCompressor .cbc kA ivX wsY)
    = .error .invalidData := by decide +kernel
example : ¬ ∀ c ∈ cbcWriterRun Toy.perm kA ivX wsY, Toy.perm.D kB c = Toy.perm.D kA c := by
  rw [← cbc_store_wrong_key_iff Toy.perm Capstone.toy_lawful kA kB ivX (by decide) wsY]
  decide +kernel
-- ← instantiated: a key with different bytes whose decryptor agrees on the written blocks
example : kA2 ≠ kA ∧ ∀ c ∈ cbcWriterRun Toy.perm kA ivX wsY, Toy.perm.D kA2 c = Toy.perm.D kA c := by
  decide +kernel
example : readData Toy.perm storeCompressor .cbc kA2 (buildData Toy.perm storeCompressor .cbc kA ivX wsY)
    = .ok wsY.flatten :=
  (cbc_store_wrong_key_iff Toy.perm Capstone.toy_lawful kA kA2 ivX (by decide) wsY).mpr (by decide +kernel)

/-- Reading what the writer produced with any other key either fails with the padding error
    (`InvalidData`) or returns bytes — no other error, no panic. -/
theorem cbc_store_wrong_key_cases (P : BlockPerm) (hP : P.Lawful) (k k2 iv : Bytes) (hiv : iv.length = 16)
    (ws : List Bytes) :
    readData P storeCompressor .cbc k2 (buildData P storeCompressor .cbc k iv ws) = .error .invalidData ∨
      ∃ out, readData P storeCompressor .cbc k2 (buildData P storeCompressor .cbc k iv ws) = .ok out := by
  rw [cbc_store_wrong_key_reads P k k2 iv hiv ws]
  exact wk_cbc_wrong_key_cases P hP k k2 iv hiv ws

/-- **(4, negative side)** If the decryptors differ on some written block, the wrong key fails
    with a padding error or produces bytes different from the content. -/
theorem cbc_store_wrong_key_differs (P : BlockPerm) (hP : P.Lawful) (k k2 iv : Bytes) (hiv : iv.length = 16)
    (ws : List Bytes) (c : Bytes) (hc : c ∈ cbcWriterRun P k iv ws) (hne : P.D k2 c ≠ P.D k c) :
    readData P storeCompressor .cbc k2 (buildData P storeCompressor .cbc k iv ws) = .error .invalidData ∨
      ∃ out, readData P storeCompressor .cbc k2 (buildData P storeCompressor .cbc k iv ws) = .ok out ∧
        out ≠ ws.flatten := by
  rcases cbc_store_wrong_key_cases P hP k k2 iv hiv ws with h | ⟨out, h⟩
  · exact Or.inl h
  · refine Or.inr ⟨out, h, ?_⟩
    intro ho
    rw [ho] at h
    exact hne ((cbc_store_wrong_key_iff P hP k k2 iv hiv ws).mp h c hc)

-- both outcomes occur with the toy cipher: kB fails at the padding (above), kC returns other bytes
example : ∃ c ∈ cbcWriterRun Toy.perm kA ivX wsX, Toy.perm.D kC c ≠ Toy.perm.D kA c := by decide +kernel
example : readData Toy.perm storeCompressor .cbc kC (buildData Toy.perm storeCompressor .cbc kA ivX wsX)
    = .ok [1, 1, 3, 4, 5] ∧ wsX.flatten = [1, 2, 3, 4, 5] := by decide +kernel
example : readData Toy.perm storeCompressor .cbc kB (buildData Toy.perm storeCompressor .cbc kA ivX wsX)
    = .error .invalidData := by decide +kernel

-- ---------------------------------------------------------------- (5) never a panic

/-- **(5)** For every cipher, every key (right or wrong), every cipher mode and EVERY list of
    stored slices (valid, truncated, garbage), reading stored data never panics.  No law of the
    cipher is needed. -/
theorem never_panics_wrong_key (P : BlockPerm) (sel : CipherSel) (k2 : Bytes) (slices : List Bytes)
    (m : String) : readData P storeCompressor sel k2 slices ≠ .panic m :=
  wk_readData_no_panic P storeCompressor (fun _ _ h => by cases h) sel k2 slices m

/-- the same for any codec that does not panic itself (third-party `Result`s) -/
theorem never_panics_wrong_key_codec (P : BlockPerm) (C : Compressor) (hC : ∀ b m, C.decomp b ≠ .panic m)
    (sel : CipherSel) (k2 : Bytes) (slices : List Bytes) (m : String) :
    readData P C sel k2 slices ≠ .panic m :=
  wk_readData_no_panic P C hC sel k2 slices m

/-- in the `isPanic` form used by the other no-panic theorems -/
theorem never_panics_wrong_key_isPanic (P : BlockPerm) (sel : CipherSel) (k2 : Bytes) (slices : List Bytes) :
    (readData P storeCompressor sel k2 slices).isPanic = false := by
  cases h : readData P storeCompressor sel k2 slices with
  | ok _ => rfl
  | error _ => rfl
  | panic m => exact absurd h (never_panics_wrong_key P sel k2 slices m)

-- garbage, a truncated stream and a wrong key: errors or bytes, never a panic
example : readData Toy.perm storeCompressor .cbc kB [[1, 2, 3]] = .error .eof := by decide +kernel
example : readData Toy.perm storeCompressor .cbc kB [ivX, [1, 2, 3]] = .error .eof := by decide +kernel
example : readData Toy.perm storeCompressor .cbc kB [ivX, ivX] = .error .invalidData := by decide +kernel
example : readData Toy.perm storeCompressor .ctr kB [ivX, [1, 2, 3]] = .ok [162, 250, 238] := by decide +kernel

end Pna.C16K
