import PnaVerif.Lemmas.Compose2
/-!
# C02 composition (3): the checks of `extract_entry` pass at a fresh destination, and one entry
-/
namespace Pna.Compose
open Pna Pna.Fs Pna.Cli Pna.Confined

/-- no symbolic link at any non-empty prefix of `cs` below `O ++ w` -/
def NoLinkAlong (fs : Fs) (O : Path) (w cs : List Bytes) : Prop :=
  ∀ q, q ≠ [] → q <+: cs → NotLink fs (O ++ (w ++ q))

theorem lexOk_of_noLink {fs : Fs} {O : Path} : ∀ (cs w : List Bytes), [dot, dot] ∉ cs →
    NoLinkAlong fs O w cs → LexOk fs O w cs := by
  intro cs
  induction cs with
  | nil => intro w _ _; trivial
  | cons c r ih =>
    intro w hdd h
    simp only [List.mem_cons, not_or] at hdd
    unfold LexOk
    rw [if_neg (Ne.symm hdd.1)]
    refine ⟨h [c] (by simp) ⟨r, rfl⟩, ih (w ++ [c]) hdd.2 (fun q hq hqr => ?_)⟩
    have := h (c :: q) (by simp) ((List.prefix_cons_inj c).2 hqr)
    simpa using this

theorem NoLinkAlong.prefix {fs : Fs} {O : Path} {w cs cs' : List Bytes} (h : NoLinkAlong fs O w cs)
    (hp : cs' <+: cs) : NoLinkAlong fs O w cs' := fun q hq hqc => h q hq (hqc.trans hp)

/-- no link at a non-empty `..`-free lexical path below `O`, nor on the way: `isLinkAt` says no -/
theorem isLinkAt_eq_false {fs : Fs} {cwd : Path} {d s : Bytes} {cs : List Bytes}
    (hd : d ≠ [dot, dot]) (habs : isAbs s = false) (hcomps : comps s = d :: cs) (hne : cs ≠ [])
    (hs : Sane fs (cwd ++ [d])) (hdd : [dot, dot] ∉ cs) (hnl : NoLinkAlong fs (cwd ++ [d]) [] cs) :
    isLinkAt fs cwd s = false := by
  cases h : isLinkAt fs cwd s with
  | false => rfl
  | true =>
    have hcl := List.dropLast_concat_getLast hne
    rw [← hcl] at hcomps hdd
    simp only [List.mem_append, List.mem_singleton, not_or] at hdd
    have hl : LexOk fs (cwd ++ [d]) [] cs.dropLast :=
      lexOk_of_noLink _ [] hdd.1 (hnl.prefix (List.dropLast_prefix _))
    obtain ⟨t, ht⟩ := isLinkAt_true hd (Ne.symm hdd.2) habs hcomps hs hl h
    rw [lexEnd_init hdd.1, List.append_assoc, hcl] at ht
    exact absurd ht (by simpa using hnl cs hne (List.prefix_refl _) t)

/-- nothing at a `..`-free lexical path below `O` and no link on the way: `exists()` says no -/
theorem existsP_eq_false {fs : Fs} {cwd : Path} {d s : Bytes} {cs : List Bytes}
    (hd : d ≠ [dot, dot]) (habs : isAbs s = false) (hcomps : comps s = d :: cs)
    (hs : Sane fs (cwd ++ [d])) (hdd : [dot, dot] ∉ cs) (hnl : NoLinkAlong fs (cwd ++ [d]) [] cs)
    (hnone : fs.lookup (cwd ++ [d] ++ cs) = none) : fs.existsP cwd s = false := by
  have hl : LexOk fs (cwd ++ [d]) [] cs := lexOk_of_noLink _ [] hdd hnl
  unfold Fs.existsP
  split
  · rename_i p hr
    have hp := resolve_confined hd habs hcomps hs hl hr
    rw [lexEnd_init hdd] at hp
    rw [hp, hnone]; rfl
  · rfl

/-- the loop of `ensure_confined` passes when no prefix of the walk is a link -/
theorem confinedGo_true {fs : Fs} {cwd : Path} {outDir d : Bytes} (ho : OutDir outDir d)
    (hs : Sane fs (cwd ++ [d])) : ∀ (cs w : List Bytes), (∀ c ∈ w, GoodC c) → (∀ c ∈ cs, GoodC c) →
    [dot, dot] ∉ w → [dot, dot] ∉ cs → NoLinkAlong fs (cwd ++ [d]) [] (w ++ cs) →
    confinedGo fs cwd outDir w cs = true := by
  intro cs
  induction cs with
  | nil => intro w _ _ _ _ _; rfl
  | cons c r ih =>
    intro w hw hcs hddw hdd hnl
    simp only [List.mem_cons, not_or] at hdd
    have hc : c ≠ [dot, dot] := Ne.symm hdd.1
    have hw1 : ∀ x ∈ w ++ [c], GoodC x := by
      intro x hx
      rcases List.mem_append.1 hx with hx | hx
      · exact hw x hx
      · simp at hx; subst hx; exact hcs x (by simp)
    have hdd1 : [dot, dot] ∉ w ++ [c] := by
      intro hx
      rcases List.mem_append.1 hx with hx | hx
      · exact hddw hx
      · simp at hx; exact hc hx.symm
    have hx1 : isAbs (joinSlash (w ++ [c])) = false :=
      isAbs_joinSlash _ (fun x hx => ⟨(hw1 x hx).1, (hw1 x hx).2.2⟩)
    have ⟨ha, hc2⟩ := ho.comps_join (joinSlash (w ++ [c])) hx1
    rw [comps_joinSlash _ hw1] at hc2
    have hpre : w ++ [c] <+: w ++ c :: r := ⟨r, by simp⟩
    have hlink : isLinkAt fs cwd (joinP outDir (joinSlash (w ++ [c]))) = false :=
      isLinkAt_eq_false ho.nodd ha hc2 (by simp) hs hdd1 (hnl.prefix hpre)
    unfold confinedGo
    rw [if_neg hc]
    simp only [hlink, Bool.false_eq_true, if_false]
    exact ih (w ++ [c]) hw1 (fun x hx => hcs x (by simp [hx])) hdd1 hdd.2 (by simpa using hnl)

theorem confined_true {fs : Fs} {cwd : Path} {outDir d rel : Bytes} (ho : OutDir outDir d)
    (hs : Sane fs (cwd ++ [d])) (habs : isAbs rel = false) (hdd : [dot, dot] ∉ comps rel)
    (hnl : NoLinkAlong fs (cwd ++ [d]) [] (comps rel)) : confined fs cwd outDir rel = true := by
  unfold confined
  simp only [habs, Bool.false_eq_true, if_false]
  exact confinedGo_true ho hs _ [] (by simp) (comps_good rel) (by simp) hdd (by simpa using hnl)

/-! ### the strings of `extract_entry` for a clean name -/

structure NameFacts (outDir d name : Bytes) (cs : List Bytes) : Prop where
  relParent : isAbs ((parentP name).getD []) = false
  compsParent : comps ((parentP name).getD []) = cs.dropLast
  relPath : isAbs (joinP outDir name) = false
  compsPath : comps (joinP outDir name) = d :: cs
  par : ∃ par, parentP (joinP outDir name) = some par ∧ isAbs par = false ∧ comps par = d :: cs.dropLast

theorem nameFacts {outDir d name : Bytes} (ho : OutDir outDir d) (hc : Clean name) :
    NameFacts outDir d name (splitSlash name) := by
  have hrel := hc.rel
  have hp := parentP_rel name hrel
  have hcp : comps ((parentP name).getD []) = (splitSlash name).dropLast := by
    rw [comps_eq, hp.2, hc.ncomps]
    apply List.filter_eq_self.2
    intro c hcm
    have := hc.norm c ((List.dropLast_subset _) hcm)
    simp [this.2.1]
  have ⟨hja, hjc⟩ := ho.comps_join name hrel
  rw [hc.comps] at hjc
  have hnn : ncomps name ≠ [] := by rw [hc.ncomps]; exact splitSlash_ne_nil name
  obtain ⟨par, h1, h2, h3⟩ := ho.parent_join name hrel hnn
  exact ⟨hp.1, hcp, hja, hjc, par, h1, h2, by rw [h3, hcp]⟩

/-! ### one entry at a fresh destination -/

/-- the destination `O ++ cs` is free, and its proper ancestors are free or directories -/
structure Fresh (fs : Fs) (O : Path) (cs : List Bytes) : Prop where
  anc : ∀ q, PProper q cs → fs.lookup (O ++ q) = none ∨ fs.lookup (O ++ q) = some .dir
  free : fs.lookup (O ++ cs) = none

theorem Fresh.noLink {fs : Fs} {O : Path} {cs : List Bytes} (h : Fresh fs O cs) : NoLinkAlong fs O [] cs := by
  intro q hq hqc t ht
  rw [List.nil_append] at ht
  by_cases e : q = cs
  · rw [e, h.free] at ht; cases ht
  · rcases h.anc q ⟨hq, hqc, e⟩ with h1 | h1 <;> rw [h1] at ht <;> cases ht

theorem Fresh.freeOrDir {fs : Fs} {O : Path} {init : List Bytes} {last : Bytes} (h : Fresh fs O (init ++ [last])) :
    FreeOrDir fs O [] init := by
  intro q hq hqi
  rw [List.nil_append]
  refine h.anc q ⟨hq, hqi.trans (List.prefix_append _ _), fun e => ?_⟩
  have := hqi.length_le
  rw [e] at this; simp at this; omega

theorem step_ok {fs fs' : Fs} (f : Fs → Except FsErr Fs) (h : f fs = .ok fs') : step (fs, none) f = (fs', none) := by
  simp only [step, h]

theorem step_id (r : Fs × Option XErr) : step r (fun fs => .ok fs) = r := by
  obtain ⟨fs, x⟩ := r
  cases x <;> rfl

/-- one entry with a clean name whose destination is fresh: every check passes, every step succeeds,
    the object is created, and nothing is new except it and its missing ancestors -/
theorem extractEntry_fresh_aux {fs : Fs} {cwd : Path} {outDir d : Bytes} (ho : OutDir outDir d)
    (hs : Sane fs (cwd ++ [d])) (name content : Bytes) (kind : Nat) (hc : Clean name) (hk : kind ≤ 2)
    (init : List Bytes) (last : Bytes) (hcs : splitSlash name = init ++ [last])
    (hfr : Fresh fs (cwd ++ [d]) (init ++ [last])) (hfuel : init.length + 3 ≤ fuelFor fs) :
    ∃ fs', extractEntry false cwd outDir fs ⟨name, kind, content⟩ = (fs', none) ∧ Sane fs' (cwd ++ [d]) ∧
      Ext fs fs' ∧ nodeIs fs' (cwd ++ [d] ++ (init ++ [last])) kind content ∧
      NewIn fs fs' (fun p => ∃ q, q ≠ [] ∧ q <+: init ++ [last] ∧ p = cwd ++ [d] ++ q) := by
  obtain ⟨hrp, hcp, hja, hjc, par, hpar, hpa, hpc⟩ := nameFacts ho hc
  rw [hcs] at hjc
  rw [hcs, List.dropLast_concat] at hcp hpc
  have hnorm : ∀ c ∈ init ++ [last], NormC c := by rw [← hcs]; exact hc.norm
  have hddc : [dot, dot] ∉ init ++ [last] := fun hm => (hnorm _ hm).2.2.1 rfl
  have hddi : [dot, dot] ∉ init := fun hm => hddc (List.mem_append_left _ hm)
  have hlast : last ≠ [dot, dot] := fun e => hddc (by simp [e])
  have hnl := hfr.noLink
  have hconf : confined fs cwd outDir ((parentP name).getD []) = true :=
    confined_true ho hs hrp (by rw [hcp]; exact hddi) (by rw [hcp]; exact hnl.prefix (List.prefix_append _ _))
  have hlink : isLinkAt fs cwd (joinP outDir name) = false :=
    isLinkAt_eq_false ho.nodd hja hjc (by simp) hs hddc hnl
  have hex : fs.existsP cwd (joinP outDir name) = false :=
    existsP_eq_false ho.nodd hja hjc hs hddc hnl hfr.free
  obtain ⟨fs1, hcd, s1, e1, hd1, hn1⟩ := createDirAll_ok ho.nodd hpa hpc hs hddi hfr.freeOrDir (by omega)
  have h1none : fs1.lookup (cwd ++ [d] ++ (init ++ [last])) = none := by
    cases hl : fs1.lookup (cwd ++ [d] ++ (init ++ [last])) with
    | none => rfl
    | some x =>
      rcases hn1 _ (by rw [hl]; simp) with h | ⟨q, _, hq, he⟩
      · exact absurd hfr.free h
      · have := List.append_cancel_left he
        have := hq.length_le
        rw [← ‹init ++ [last] = q›] at this; simp at this; omega
  have hfuel1 : init.length + 3 ≤ fuelFor fs1 := by
    have := e1.len; unfold fuelFor at hfuel ⊢; omega
  have hstep : step (fs, none) (fun fs => fs.createDirAll cwd par) = (fs1, none) := step_ok _ hcd
  have hin := below_inside (cwd ++ [d]) (init ++ [last])
  have hne := below_ne (cwd ++ [d]) (init ++ [last]) (by simp)
  have hpar1 : fs1.lookup (cwd ++ [d] ++ (init ++ [last])).dropLast = some .dir := by
    rw [dropLast_dest]; exact hd1 init (List.prefix_refl _)
  have hnew1 : ∀ p, (∃ q, q ≠ [] ∧ q <+: init ∧ p = cwd ++ [d] ++ q) →
      ∃ q, q ≠ [] ∧ q <+: init ++ [last] ∧ p = cwd ++ [d] ++ q :=
    fun p ⟨q, h1, h2, h3⟩ => ⟨q, h1, h2.trans (List.prefix_append _ _), h3⟩
  have hnew2 : ∀ p, p = cwd ++ [d] ++ (init ++ [last]) →
      ∃ q, q ≠ [] ∧ q <+: init ++ [last] ∧ p = cwd ++ [d] ++ q :=
    fun p h => ⟨init ++ [last], by simp, List.prefix_refl _, h⟩
  unfold extractEntry
  simp only [hconf, hlink, hex, hpar, hstep, Bool.not_true, Bool.false_eq_true, if_false, Bool.or_self,
    Bool.false_and, Bool.not_false, step_id]
  have hk3 : kind = 0 ∨ kind = 1 ∨ kind = 2 := by omega
  rcases hk3 with rfl | rfl | rfl
  · have hcf := createFile_ok content ho.nodd hja hjc s1 hddi hlast hd1 h1none hfuel1
    have ⟨a1, a2, a3, a4⟩ := withNewFile_facts content s1 hin hne h1none hpar1
    exact ⟨_, step_ok _ hcf, a1, e1.trans a2, a4, hn1.trans a3 hnew1 hnew2⟩
  · have hfree1 : FreeOrDir fs1 (cwd ++ [d]) [] (init ++ [last]) := by
      intro q _ hq
      rw [List.nil_append]
      rcases List.prefix_concat_iff.1 hq with rfl | hq
      · exact Or.inl h1none
      · exact Or.inr (hd1 q hq)
    obtain ⟨fs2, hcd2, s2, e2, hd2, hn2⟩ := createDirAll_ok ho.nodd hja hjc s1 hddc hfree1
      (by simp only [List.length_append, List.length_singleton]; omega)
    exact ⟨fs2, step_ok _ hcd2, s2, e1.trans e2, hd2 _ (List.prefix_refl _), hn1.trans hn2 hnew1 (fun _ h => h)⟩
  · have hsl := symlink_ok content ho.nodd hja hjc s1 hddi hlast hd1 h1none hfuel1
    have ⟨a1, a2, a3, a4⟩ := withLink_facts content s1 hin hne h1none hpar1
    exact ⟨_, step_ok _ hsl, a1, e1.trans a2, a4, hn1.trans a3 hnew1 hnew2⟩

/-- the same for the entry written for a source node -/
theorem extractEntry_fresh {fs : Fs} {cwd : Path} {outDir d : Bytes} (ho : OutDir outDir d)
    (hs : Sane fs (cwd ++ [d])) (n : TNode) (hc : Clean n.path) (hk : n.kind ≤ 2)
    (hfr : Fresh fs (cwd ++ [d]) (pcs n)) (hfuel : (pcs n).length + 2 ≤ fuelFor fs) :
    ∃ fs', extractEntry false cwd outDir fs (toX n) = (fs', none) ∧ Sane fs' (cwd ++ [d]) ∧ Ext fs fs' ∧
      nodeIs fs' (cwd ++ [d] ++ pcs n) n.kind n.content ∧
      NewIn fs fs' (fun p => ∃ q, q ≠ [] ∧ q <+: pcs n ∧ p = cwd ++ [d] ++ q) := by
  have hne : pcs n ≠ [] := splitSlash_ne_nil n.path
  have hcl := List.dropLast_concat_getLast hne
  have hlen : (pcs n).dropLast.length + 3 ≤ fuelFor fs := by
    have := List.length_pos_iff.2 hne
    rw [List.length_dropLast]; omega
  obtain ⟨fs', h1, h2, h3, h4, h5⟩ := extractEntry_fresh_aux ho hs n.path (if n.kind = 1 then [] else n.content)
    n.kind hc hk _ _ hcl.symm (by rw [hcl]; exact hfr) hlen
  rw [hcl] at h4 h5
  refine ⟨fs', ?_, h2, h3, ?_, h5⟩
  · unfold toX; rw [hc.san]; exact h1
  · by_cases h : n.kind = 1
    · rw [h] at h4 ⊢; exact h4
    · rw [if_neg h] at h4; exact h4

end Pna.Compose
