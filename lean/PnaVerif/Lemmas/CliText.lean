import PnaVerif.Model.Cli.Text
/-! Lemmas about the CLI textual codecs (`Model/Cli/Text.lean`): split/join, name-table sets,
    access-control entries, hex and base64 xattr values. -/
namespace Pna.Cli.Text

-- ---------------------------------------------------------------- splitOn / join

theorem splitOn_ne_nil (sep : Char) (s : Str) : splitOn sep s ≠ [] := by
  induction s with
  | nil => simp [splitOn]
  | cons c cs ih =>
    unfold splitOn
    split
    · simp
    · split <;> simp

theorem splitOn_of_not_mem (sep : Char) (s : Str) (h : sep ∉ s) : splitOn sep s = [s] := by
  induction s with
  | nil => rfl
  | cons c cs ih =>
    have hc : c ≠ sep := fun e => h (by simp [e])
    have hcs : sep ∉ cs := fun e => h (by simp [e])
    simp [splitOn, hc, ih hcs]

theorem splitOn_append_sep (sep : Char) (x r : Str) (h : sep ∉ x) :
    splitOn sep (x ++ sep :: r) = x :: splitOn sep r := by
  induction x with
  | nil => simp [splitOn]
  | cons c cs ih =>
    have hc : c ≠ sep := fun e => h (by simp [e])
    have hcs : sep ∉ cs := fun e => h (by simp [e])
    simp [splitOn, hc, ih hcs]

theorem splitOn_join_nil (sep : Char) : splitOn sep (join sep []) = [[]] := rfl

theorem splitOn_join (sep : Char) (xs : List Str) (hne : xs ≠ []) (h : ∀ x ∈ xs, sep ∉ x) :
    splitOn sep (join sep xs) = xs := by
  induction xs with
  | nil => exact absurd rfl hne
  | cons x xs ih =>
    cases xs with
    | nil => exact splitOn_of_not_mem sep x (h x (by simp))
    | cons y ys =>
      have hx : sep ∉ x := h x (by simp)
      rw [join, splitOn_append_sep sep x _ hx, ih (by simp) (fun z hz => h z (by simp [hz]))]

/-- No piece produced by `splitOn sep` contains `sep`. -/
theorem splitOn_pieces (sep : Char) (s : Str) : ∀ p ∈ splitOn sep s, sep ∉ p := by
  induction s with
  | nil => intro p hp; simp [splitOn] at hp; simp [hp]
  | cons c cs ih =>
    intro p hp
    unfold splitOn at hp
    split at hp
    · rcases List.mem_cons.1 hp with rfl | hp
      · simp
      · exact ih p hp
    · rename_i hc
      split at hp
      · rename_i he; exact absurd he (splitOn_ne_nil sep cs)
      · rename_i q qs he
        rcases List.mem_cons.1 hp with rfl | hp
        · have := ih q (by simp [he])
          intro hm
          rcases List.mem_cons.1 hm with e | hm
          · exact hc e.symm
          · exact this hm
        · exact ih p (by simp [he, hp])

theorem join_no_char (sep c : Char) (xs : List Str) (hc : c ≠ sep) (h : ∀ x ∈ xs, c ∉ x) :
    c ∉ join sep xs := by
  induction xs with
  | nil => simp [join]
  | cons x xs ih =>
    cases xs with
    | nil => exact h x (by simp)
    | cons y ys =>
      rw [join]
      intro hm
      rcases List.mem_append.1 hm with hm | hm
      · exact h x (by simp) hm
      · rcases List.mem_cons.1 hm with e | hm
        · exact hc e
        · exact ih (fun z hz => h z (by simp [hz])) hm

-- ---------------------------------------------------------------- name tables

/-- primary names selected by a bit set -/
def selNames (table : List (Nat × List Str)) (bits : Bits) : List Str :=
  (table.zip bits).filterMap fun (row, b) => if b then row.2.head? else none

theorem showSet_eq (table : List (Nat × List Str)) (bits : Bits) :
    showSet table bits = join ',' (selNames table bits) := rfl

/-- Side conditions on a name table under which `parseSet ∘ showSet = id`. -/
structure TableOK (t : List (Nat × List Str)) : Prop where
  /-- no name (primary or alias) is the empty string -/
  nonempty : ∀ r ∈ t, ∀ n ∈ r.2, n ≠ []
  /-- every row has a primary name -/
  hasPrim : ∀ r ∈ t, r.2 ≠ []
  /-- primary names contain neither the set separator nor the field separator -/
  noComma : ∀ r ∈ t, ∀ n ∈ r.2.head?, ',' ∉ n
  noColon : ∀ r ∈ t, ∀ n ∈ r.2.head?, ':' ∉ n
  /-- the primary name of a row is not a name (primary or alias) of any other row -/
  distinct : t.Pairwise fun r1 r2 =>
    (∀ n ∈ r2.2.head?, n ∉ r1.2) ∧ (∀ n ∈ r1.2.head?, n ∉ r2.2)

instance (t : List (Nat × List Str)) : Decidable (TableOK t) :=
  if h : (∀ r ∈ t, ∀ n ∈ r.2, n ≠ []) ∧ (∀ r ∈ t, r.2 ≠ []) ∧
      (∀ r ∈ t, ∀ n ∈ r.2.head?, ',' ∉ n) ∧ (∀ r ∈ t, ∀ n ∈ r.2.head?, ':' ∉ n) ∧
      (t.Pairwise fun r1 r2 => (∀ n ∈ r2.2.head?, n ∉ r1.2) ∧ (∀ n ∈ r1.2.head?, n ∉ r2.2))
  then isTrue ⟨h.1, h.2.1, h.2.2.1, h.2.2.2.1, h.2.2.2.2⟩
  else isFalse fun k => h ⟨k.1, k.2, k.3, k.4, k.5⟩

theorem flagTable_ok : TableOK flagTable := by decide +kernel
theorem permTable_ok : TableOK permTable := by decide +kernel

theorem mem_selNames {table : List (Nat × List Str)} {bits : Bits} {n : Str}
    (h : n ∈ selNames table bits) : ∃ r ∈ table, r.2.head? = some n := by
  unfold selNames at h
  rcases List.mem_filterMap.1 h with ⟨⟨r, b⟩, hz, hb⟩
  refine ⟨r, (List.of_mem_zip hz).1, ?_⟩
  cases b <;> simp at hb
  exact hb

theorem TableOK.tail {r : Nat × List Str} {t : List (Nat × List Str)} (h : TableOK (r :: t)) :
    TableOK t :=
  ⟨fun x hx => h.nonempty x (by simp [hx]), fun x hx => h.hasPrim x (by simp [hx]),
   fun x hx => h.noComma x (by simp [hx]), fun x hx => h.noColon x (by simp [hx]),
   (List.pairwise_cons.1 h.distinct).2⟩

/-- The structural core: parsing any token list that contains the selected primary names and
    otherwise only strings that are no name of any row gives back the bits. -/
theorem parse_tokens (table : List (Nat × List Str)) (hok : TableOK table) (bits : Bits)
    (hlen : bits.length = table.length) (toks : List Str)
    (hsub : ∀ n ∈ selNames table bits, n ∈ toks)
    (hsup : ∀ n ∈ toks, n ∈ selNames table bits ∨ ∀ r ∈ table, n ∉ r.2) :
    (table.map fun row => toks.any fun t => row.2.contains t) = bits := by
  induction table generalizing bits with
  | nil => cases bits with
    | nil => rfl
    | cons _ _ => simp at hlen
  | cons row rest ih =>
    cases bits with
    | nil => simp at hlen
    | cons b bs =>
      have hpw := List.pairwise_cons.1 hok.distinct
      have hsel : selNames (row :: rest) (b :: bs) =
          (if b then row.2.head?.toList else []) ++ selNames rest bs := by
        unfold selNames
        cases b <;> cases hh : row.2.head? <;> simp [hh]
      simp only [List.map_cons, List.cons.injEq]
      constructor
      · -- the head row
        cases b with
        | true =>
          obtain ⟨n, ns, hrow⟩ := List.exists_cons_of_ne_nil (hok.hasPrim row (by simp))
          have hn : n ∈ toks := hsub n (by simp [hsel, hrow])
          simp only [List.any_eq_true, List.contains_iff_mem]
          exact ⟨n, hn, by simp [hrow]⟩
        | false =>
          cases hany : toks.any fun t => row.2.contains t with
          | false => rfl
          | true =>
            exfalso
            simp only [List.any_eq_true, List.contains_iff_mem] at hany
            obtain ⟨n, hn, hnr⟩ := hany
            rcases hsup n hn with hs | hs
            · simp [hsel] at hs
              obtain ⟨r, hr, hrn⟩ := mem_selNames hs
              exact (hpw.1 r hr).1 n (by simp [hrn]) hnr
            · exact hs row (by simp) hnr
      · -- the remaining rows
        refine ih hok.tail bs (by simpa using hlen) (fun n hn => hsub n (by simp [hsel, hn])) ?_
        intro n hn
        rcases hsup n hn with hs | hs
        · rw [hsel] at hs
          rcases List.mem_append.1 hs with hs | hs
          · right
            intro r hr
            cases b with
            | false => simp at hs
            | true =>
              simp at hs
              exact (hpw.1 r hr).2 n (by simp [hs])
          · exact Or.inl hs
        · exact Or.inr fun r hr => hs r (by simp [hr])

theorem selNames_noComma {table : List (Nat × List Str)} (hok : TableOK table) (bits : Bits) :
    ∀ n ∈ selNames table bits, ',' ∉ n := by
  intro n hn
  obtain ⟨r, hr, hrn⟩ := mem_selNames hn
  exact hok.noComma r hr n (by simp [hrn])

theorem selNames_noColon {table : List (Nat × List Str)} (hok : TableOK table) (bits : Bits) :
    ∀ n ∈ selNames table bits, ':' ∉ n := by
  intro n hn
  obtain ⟨r, hr, hrn⟩ := mem_selNames hn
  exact hok.noColon r hr n (by simp [hrn])

theorem parseSet_showSet_of_ok (table : List (Nat × List Str)) (hok : TableOK table) (bits : Bits)
    (hlen : bits.length = table.length) : parseSet table (showSet table bits) = bits := by
  unfold parseSet
  rw [showSet_eq]
  apply parse_tokens table hok bits hlen
  · intro n hn
    have hne : selNames table bits ≠ [] := fun e => by simp [e] at hn
    rw [splitOn_join ',' _ hne (selNames_noComma hok bits)]
    exact hn
  · intro n hn
    by_cases hne : selNames table bits = []
    · right
      rw [hne] at hn
      simp [join, splitOn] at hn
      subst hn
      intro r hr hm
      exact hok.nonempty r hr [] hm rfl
    · left
      rw [splitOn_join ',' _ hne (selNames_noComma hok bits)] at hn
      exact hn

theorem showSet_noColon {table : List (Nat × List Str)} (hok : TableOK table) (bits : Bits) :
    ':' ∉ showSet table bits := by
  rw [showSet_eq]
  exact join_no_char ',' ':' _ (by decide) (selNames_noColon hok bits)

theorem parseSet_length (table : List (Nat × List Str)) (s : Str) :
    (parseSet table s).length = table.length := by
  simp [parseSet]

-- ---------------------------------------------------------------- access-control entries

def Owner.WF : Owner → Prop
  | .user n => n ≠ [] ∧ ':' ∉ n
  | .group n => n ≠ [] ∧ ':' ∉ n
  | _ => True

def Ace.WF (a : Ace) : Prop := a.flags.length = 6 ∧ a.perms.length = 16 ∧ a.owner.WF

instance (o : Owner) : Decidable o.WF := by
  cases o <;> unfold Owner.WF <;> infer_instance

instance (a : Ace) : Decidable a.WF := by unfold Ace.WF; infer_instance

def ownerKind : Owner → Str
  | .owner | .user _ => ['u']
  | .ownerGroup | .group _ => ['g']
  | .mask => ['m']
  | .other => ['o']

def ownerName : Owner → Str
  | .user n | .group n => n
  | _ => []

def accessStr (b : Bool) : Str := if b then "allow".toList else "deny".toList

theorem showOwner_eq (o : Owner) : showOwner o = ownerKind o ++ ':' :: ownerName o := by
  cases o <;> rfl

theorem showAce_eq_join (a : Ace) :
    showAce a = join ':' [showSet flagTable a.flags, ownerKind a.owner, ownerName a.owner,
      accessStr a.allow, showSet permTable a.perms] := by
  simp only [showAce, join, showOwner_eq, accessStr, List.append_assoc, List.cons_append]

theorem ownerKind_noColon (o : Owner) : ':' ∉ ownerKind o := by
  cases o <;> simp [ownerKind]

theorem ownerName_noColon (o : Owner) (h : o.WF) : ':' ∉ ownerName o := by
  cases o <;> simp [ownerName, Owner.WF] at * <;> exact h.2

theorem accessStr_noColon (b : Bool) : ':' ∉ accessStr b := by
  cases b <;> decide

theorem accessStr_ok (b : Bool) :
    ¬ (accessStr b ≠ "allow".toList ∧ accessStr b ≠ "deny".toList) := by
  cases b <;> decide

theorem accessStr_allow (b : Bool) : decide (accessStr b = "allow".toList) = b := by
  cases b <;> decide

theorem parseOwner_show (o : Owner) (h : o.WF) : parseOwner (ownerKind o) (ownerName o) = .ok o := by
  cases o with
  | user n => simp [Owner.WF] at h; simp [parseOwner, ownerKind, ownerName, h.1]
  | group n =>
    simp [Owner.WF] at h
    simp [parseOwner, ownerKind, ownerName, h.1]
  | owner => rfl
  | ownerGroup => rfl
  | mask => rfl
  | other => rfl

/-- `parseAce` on an input that splits into exactly five fields. -/
theorem parseAce_of_split5 {s f k n al pm : Str} (h : splitOn ':' s = [f, k, n, al, pm]) :
    parseAce s =
      match parseOwner k n with
      | .error e => .error e
      | .ok o =>
        if al ≠ "allow".toList ∧ al ≠ "deny".toList then .error .badAccess
        else .ok { flags := parseSet flagTable f, owner := o, allow := al = "allow".toList,
                   perms := parseSet permTable pm } := by
  unfold parseAce
  rw [h]
  rfl

theorem showAce_split (a : Ace) (h : a.owner.WF) :
    splitOn ':' (showAce a) = [showSet flagTable a.flags, ownerKind a.owner, ownerName a.owner,
      accessStr a.allow, showSet permTable a.perms] := by
  rw [showAce_eq_join]
  apply splitOn_join ':' _ (by simp)
  intro x hx
  simp only [List.mem_cons, List.not_mem_nil, or_false] at hx
  rcases hx with rfl | rfl | rfl | rfl | rfl
  · exact showSet_noColon flagTable_ok _
  · exact ownerKind_noColon _
  · exact ownerName_noColon _ h
  · exact accessStr_noColon _
  · exact showSet_noColon permTable_ok _

theorem parseAce_showAce (a : Ace) (h : a.WF) : parseAce (showAce a) = .ok a := by
  obtain ⟨hf, hp, ho⟩ := h
  rw [parseAce_of_split5 (showAce_split a ho), parseOwner_show _ ho]
  simp only [if_neg (accessStr_ok a.allow), accessStr_allow]
  rw [parseSet_showSet_of_ok flagTable flagTable_ok _ (by simpa [flagTable] using hf),
    parseSet_showSet_of_ok permTable permTable_ok _ (by simpa [permTable] using hp)]

/-- Shape of an accepted input. -/
theorem parseAce_ok {s : Str} {a : Ace} (h : parseAce s = .ok a) :
    ∃ f k n al pm, splitOn ':' s = [f, k, n, al, pm] ∧ parseOwner k n = .ok a.owner ∧
      a.flags = parseSet flagTable f ∧ a.perms = parseSet permTable pm := by
  unfold parseAce at h
  split at h <;> try contradiction
  rename_i f k n rest hs
  split at h <;> try contradiction
  rename_i o ho
  split at h <;> try contradiction
  rename_i al rest
  split at h <;> try contradiction
  split at h <;> try contradiction
  rename_i pm
  simp only [Except.ok.injEq] at h
  subst h
  exact ⟨f, k, n, al, pm, hs, ho, rfl, rfl⟩

theorem parseOwner_WF {k n : Str} {o : Owner} (h : parseOwner k n = .ok o) (hn : ':' ∉ n) :
    o.WF := by
  unfold parseOwner at h
  split at h
  · simp only [Except.ok.injEq] at h
    subst h
    split
    · trivial
    · rename_i hne; exact ⟨hne, hn⟩
  · split at h
    · simp only [Except.ok.injEq] at h
      subst h
      split
      · trivial
      · rename_i hne; exact ⟨hne, hn⟩
    · split at h
      · simp only [Except.ok.injEq] at h; subst h; trivial
      · split at h
        · simp only [Except.ok.injEq] at h; subst h; trivial
        · simp at h

theorem parseAce_owner_WF' (s : Str) (a : Ace) (h : parseAce s = .ok a) : a.owner.WF := by
  obtain ⟨f, k, n, al, pm, hs, ho, _, _⟩ := parseAce_ok h
  exact parseOwner_WF ho (splitOn_pieces ':' s n (by simp [hs]))

theorem parseAce_WF (s : Str) (a : Ace) (h : parseAce s = .ok a) : a.WF := by
  obtain ⟨f, k, n, al, pm, hs, ho, hf, hp⟩ := parseAce_ok h
  refine ⟨?_, ?_, parseAce_owner_WF' s a h⟩
  · rw [hf, parseSet_length]; rfl
  · rw [hp, parseSet_length]; rfl

-- platform-prefixed form

theorem filter_sep_nil (sep : Char) (x : Str) (h : sep ∉ x) : x.filter (· = sep) = [] := by
  induction x with
  | nil => rfl
  | cons c cs ih =>
    have hc : c ≠ sep := fun e => h (by simp [e])
    have hcs : sep ∉ cs := fun e => h (by simp [e])
    simp [hc, ih hcs]

theorem takeWhile_sep (sep : Char) (x r : Str) (h : sep ∉ x) :
    (x ++ sep :: r).takeWhile (· ≠ sep) = x := by
  induction x with
  | nil => simp
  | cons c cs ih =>
    have hc : c ≠ sep := fun e => h (by simp [e])
    have hcs : sep ∉ cs := fun e => h (by simp [e])
    have hd : decide (c ≠ sep) = true := by simpa using hc
    rw [List.cons_append, List.takeWhile_cons]
    simp only [hd, if_true, ih hcs]

theorem dropWhile_sep (sep : Char) (x r : Str) (h : sep ∉ x) :
    (x ++ sep :: r).dropWhile (· ≠ sep) = sep :: r := by
  induction x with
  | nil => simp
  | cons c cs ih =>
    have hc : c ≠ sep := fun e => h (by simp [e])
    have hcs : sep ∉ cs := fun e => h (by simp [e])
    have hd : decide (c ≠ sep) = true := by simpa using hc
    rw [List.cons_append, List.dropWhile_cons]
    simp only [hd, if_true, ih hcs]

theorem showAce_colons (a : Ace) (h : a.owner.WF) :
    ((showAce a).filter (· = ':')).length = 4 := by
  rw [showAce_eq_join]
  simp [join, List.filter_append,
    filter_sep_nil ':' _ (showSet_noColon flagTable_ok a.flags),
    filter_sep_nil ':' _ (showSet_noColon permTable_ok a.perms),
    filter_sep_nil ':' _ (ownerKind_noColon a.owner),
    filter_sep_nil ':' _ (ownerName_noColon a.owner h),
    filter_sep_nil ':' _ (accessStr_noColon a.allow)]

theorem parseAceP_showAceP (p : Option Str) (a : Ace) (h : a.WF)
    (hp : ∀ q, p = some q → ':' ∉ q) :
    parseAceP (showAceP p a) = .ok (some (p.getD []), a) := by
  have hq : ':' ∉ p.getD [] := by
    cases p with
    | none => simp
    | some q => exact hp q rfl
  have hcount : ((showAceP p a).filter (· = ':')).length = 5 := by
    unfold showAceP
    rw [List.filter_append, filter_sep_nil ':' _ hq, List.filter_cons]
    simp [showAce_colons a h.2.2]
  unfold parseAceP
  rw [if_pos hcount]
  unfold showAceP
  simp only [takeWhile_sep ':' _ _ hq, dropWhile_sep ':' _ _ hq, List.drop_succ_cons, List.drop_zero,
    parseAce_showAce a h]
  rfl

-- ---------------------------------------------------------------- xattr values: hex

theorem parseU8Hex_pair : ∀ n, n < 256 →
    parseU8Hex [hexDigitChar (n / 16), hexDigitChar (n % 16)] = some (UInt8.ofNat n) := by
  decide +kernel

theorem parseU8Hex_byte (b : UInt8) :
    parseU8Hex [hexDigitChar (b.toNat / 16), hexDigitChar (b.toNat % 16)] = some b := by
  have := parseU8Hex_pair b.toNat b.toNat_lt
  rwa [UInt8.ofNat_toNat] at this

theorem mapM_chunks_hex (bs : Bytes) :
    (charChunks2 (bs.flatMap fun b => [hexDigitChar (b.toNat / 16), hexDigitChar (b.toNat % 16)])).mapM
      parseU8Hex = some bs := by
  induction bs with
  | nil => rfl
  | cons b bs ih =>
    simp only [List.flatMap_cons, List.cons_append, List.nil_append, charChunks2, List.mapM_cons,
      parseU8Hex_byte, ih]
    rfl

theorem parseValue_showHex (bs : Bytes) : parseValue (showHex bs) = some bs := by
  unfold showHex
  rw [parseValue.eq_1]
  exact mapM_chunks_hex bs

-- ---------------------------------------------------------------- xattr values: base64

theorem b64Val_b64Char : ∀ n, n < 64 → b64Val? (b64Char n) = some n := by decide +kernel
theorem b64Char_ne_pad : ∀ n, n < 64 → b64Char n ≠ '=' := by decide +kernel

theorem u8_ofNat_eq (a : UInt8) (n : Nat) (h : n = a.toNat) : UInt8.ofNat n = a := by
  subst h; exact UInt8.ofNat_toNat

theorem b64Decode_encode (bs : Bytes) : b64Decode (b64Encode bs) = some bs := by
  induction bs using b64Encode.induct with
  | case1 => rfl
  | case2 a =>
    have ha := a.toNat_lt
    rw [b64Encode, b64Decode.eq_2, b64Val_b64Char _ (by omega), b64Val_b64Char _ (by omega)]
    simp only []
    rw [if_pos (by omega), u8_ofNat_eq a _ (by omega)]
  | case3 a b =>
    have ha := a.toNat_lt
    have hb := b.toNat_lt
    rw [b64Encode, b64Decode.eq_3 _ _ _ (b64Char_ne_pad _ (by omega)),
      b64Val_b64Char _ (by omega), b64Val_b64Char _ (by omega), b64Val_b64Char _ (by omega)]
    simp only []
    rw [if_pos (by omega), u8_ofNat_eq a _ (by omega), u8_ofNat_eq b _ (by omega)]
  | case4 a b c r ih =>
    have ha := a.toNat_lt
    have hb := b.toNat_lt
    have hc := c.toNat_lt
    have hd : b64Char (c.toNat % 64) ≠ '=' := b64Char_ne_pad _ (by omega)
    rw [b64Encode, b64Decode.eq_4 _ _ _ _ _ (fun _ h _ => hd h) (fun h _ => hd h),
      b64Val_b64Char _ (by omega), b64Val_b64Char _ (by omega), b64Val_b64Char _ (by omega),
      b64Val_b64Char _ (by omega), ih]
    simp only []
    rw [u8_ofNat_eq a _ (by omega), u8_ofNat_eq b _ (by omega), u8_ofNat_eq c _ (by omega)]

theorem parseValue_showB64 (bs : Bytes) : parseValue (showB64 bs) = some bs := by
  unfold showB64
  rw [parseValue.eq_2]
  exact b64Decode_encode bs

-- ---------------------------------------------------------------- deciding concrete witnesses

/-- core has no `DecidableEq (Except ε α)`; needed to `decide` concrete parse results -/
instance instDecidableEqExcept {ε α : Type} [DecidableEq ε] [DecidableEq α] :
    DecidableEq (Except ε α)
  | .ok a, .ok b => if h : a = b then isTrue (by rw [h]) else isFalse fun e => h (by injection e)
  | .error a, .error b =>
    if h : a = b then isTrue (by rw [h]) else isFalse fun e => h (by injection e)
  | .ok _, .error _ => isFalse nofun
  | .error _, .ok _ => isFalse nofun

end Pna.Cli.Text
