import PnaVerif.Model.Cli.Acl
import PnaVerif.Lemmas.CliText
/-!
# Helpers for C10 — reading back what `migrate` wrote
* `decodeUtf8_utf8` — UTF-8 decoding inverts the model's `utf8` (all strings, no ASCII restriction);
* `parseAceP_showAce_noprefix` — the prefix-less text of a well-formed entry parses back to itself, no platform;
* `aclOf_aclChunks_gen` / `aclOf_aclChunks` — `aclOf` over `aclChunks m ++ rest`;
* `AclMapOk`, `aclOf_ok` — invariant of every map `aclOf` produces (distinct keys, non-empty groups, WF entries).
-/
namespace Pna.Cli
open Text

-- ---------------------------------------------------------------- (1) UTF-8

theorem mk_utf8_eq (s : Str) : ByteArray.mk (utf8 s).toArray = s.utf8Encode := by
  have h : (s.utf8Encode).data = (utf8 s).toArray := by
    simp only [List.utf8Encode, utf8, List.data_toByteArray]
  rw [← h]

theorem decodeUtf8_utf8 (s : Str) : decodeUtf8 (utf8 s) = some s := by
  unfold decodeUtf8
  rw [mk_utf8_eq]
  have hv : (s.utf8Encode).IsValidUTF8 := ByteArray.isValidUTF8_utf8Encode
  unfold String.fromUTF8?
  rw [dif_pos hv]
  have he : String.fromUTF8 s.utf8Encode hv = String.ofList s := by
    apply String.toByteArray_inj.mp
    rw [String.toByteArray_ofList]
    rfl
  rw [Option.map_some, he, String.toList_ofList]

-- ---------------------------------------------------------------- (2) the prefix-less text form

theorem parseAceP_showAce_noprefix (a : Ace) (h : a.WF) : parseAceP (showAce a) = .ok (none, a) := by
  unfold parseAceP
  rw [if_neg (by rw [showAce_colons a h.2.2]; decide), parseAce_showAce a h]
  rfl

theorem except_map_ok {ε α β : Type} {f : α → β} {x : Except ε α} {y : β} (h : x.map f = .ok y) :
    ∃ b, x = .ok b ∧ f b = y := by
  cases x with
  | error e => cases h
  | ok b => exact ⟨b, rfl, by injection h⟩

/-- whatever `parseAceP` accepts is well formed (with or without a platform prefix) -/
theorem parseAceP_WF {s : Str} {p : Option Str} {a : Ace} (h : parseAceP s = .ok (p, a)) : a.WF := by
  unfold parseAceP at h
  split at h
  · obtain ⟨b, hb, he⟩ := except_map_ok h
    exact (Prod.mk.inj he).2 ▸ parseAce_WF _ _ hb
  · obtain ⟨b, hb, he⟩ := except_map_ok h
    exact (Prod.mk.inj he).2 ▸ parseAce_WF _ _ hb

-- ---------------------------------------------------------------- single steps of `aclOf`

theorem aclOf_nil (cur : Str) (m : AclMap) : aclOf cur m [] = some m := by
  unfold aclOf; rfl

theorem aclOf_faCl (cur p : Str) (m : AclMap) (rest : List (Bytes × Bytes)) :
    aclOf cur m ((faCl, utf8 p) :: rest) = aclOf p m rest := by
  rw [aclOf, if_pos rfl, decodeUtf8_utf8]

theorem faCe_ne_faCl : faCe ≠ faCl := by decide

theorem aclOf_faCe (cur : Str) (a : Ace) (h : a.WF) (m : AclMap) (rest : List (Bytes × Bytes)) :
    aclOf cur m ((faCe, utf8 (showAce a)) :: rest) = aclOf cur (aclInsert m cur a) rest := by
  rw [aclOf, if_neg faCe_ne_faCl, if_pos rfl, decodeUtf8_utf8]
  simp only [parseAceP_showAce_noprefix a h, Option.getD_none]

theorem aclOf_other (cur : Str) (m : AclMap) (x : Bytes × Bytes) (rest : List (Bytes × Bytes))
    (hx : isAclChunk x = false) : aclOf cur m (x :: rest) = aclOf cur m rest := by
  obtain ⟨t, d⟩ := x
  simp only [isAclChunk, Bool.or_eq_false_iff, beq_eq_false_iff_ne] at hx
  rw [aclOf, if_neg hx.1, if_neg hx.2]

/-- chunks that are not access-control chunks are skipped -/
theorem aclOf_skip (cur : Str) (m : AclMap) (rest : List (Bytes × Bytes))
    (h : ∀ x ∈ rest, isAclChunk x = false) : aclOf cur m rest = some m := by
  induction rest with
  | nil => exact aclOf_nil cur m
  | cons x rest ih =>
    rw [aclOf_other cur m x rest (h x (by simp))]
    exact ih (fun y hy => h y (by simp [hy]))

-- ---------------------------------------------------------------- (3) reading back `aclChunks m`

/-- all entries of one platform, pushed in order -/
def aclInsertAll (m : AclMap) (k : Str) (as : List Ace) : AclMap := as.foldl (fun m a => aclInsert m k a) m

/-- `acc` after all groups of `m` were pushed, group by group -/
def aclMerge (acc m : AclMap) : AclMap := m.foldl (fun acc p => aclInsertAll acc p.1 p.2) acc

/-- the current platform after the chunks of `m`: its last key, or `cur` if `m` is empty -/
def lastKey (cur : Str) (m : AclMap) : Str := m.foldl (fun _ p => p.1) cur

theorem aclOf_aces (cur : Str) (as : List Ace) (h : ∀ a ∈ as, a.WF) (acc : AclMap) (rest : List (Bytes × Bytes)) :
    aclOf cur acc (as.map (fun a => (faCe, utf8 (showAce a))) ++ rest) = aclOf cur (aclInsertAll acc cur as) rest := by
  induction as generalizing acc with
  | nil => rfl
  | cons a as ih =>
    rw [List.map_cons, List.cons_append, aclOf_faCe cur a (h a (by simp)), ih (fun b hb => h b (by simp [hb]))]
    rfl

theorem aclChunks_cons (p : Str × List Ace) (m : AclMap) :
    aclChunks (p :: m) = ((faCl, utf8 p.1) :: p.2.map fun a => (faCe, utf8 (showAce a))) ++ aclChunks m := by
  simp only [aclChunks, List.flatMap_cons]

/-- The accumulator form: reading `aclChunks m` from any state pushes the groups of `m` one after the other. -/
theorem aclOf_aclChunks_gen (m : AclMap) (h : ∀ p ∈ m, ∀ a ∈ p.2, a.WF) (cur : Str) (acc : AclMap)
    (rest : List (Bytes × Bytes)) :
    aclOf cur acc (aclChunks m ++ rest) = aclOf (lastKey cur m) (aclMerge acc m) rest := by
  induction m generalizing cur acc with
  | nil => rfl
  | cons p m ih =>
    rw [aclChunks_cons, List.append_assoc, List.cons_append, aclOf_faCl,
      aclOf_aces p.1 p.2 (h p (by simp)), ih (fun q hq => h q (by simp [hq]))]
    rfl

theorem aclInsert_new (acc : AclMap) (k : Str) (a : Ace) (hk : k ∉ acc.map (·.1)) :
    aclInsert acc k a = acc ++ [(k, [a])] := by
  unfold aclInsert
  rw [if_neg]
  simp only [List.any_eq_true, beq_iff_eq, not_exists, not_and]
  intro p hp he
  exact hk (List.mem_map.mpr ⟨p, hp, he⟩)

theorem aclInsert_last (acc : AclMap) (k : Str) (l : List Ace) (a : Ace) (hk : k ∉ acc.map (·.1)) :
    aclInsert (acc ++ [(k, l)]) k a = acc ++ [(k, l ++ [a])] := by
  unfold aclInsert
  rw [if_pos (by simp)]
  rw [List.map_append]
  congr 1
  · conv => rhs; rw [← List.map_id acc]
    apply List.map_congr_left
    intro p hp
    have : p.1 ≠ k := fun he => hk (List.mem_map.mpr ⟨p, hp, he⟩)
    simp [this]
  · simp

theorem aclInsertAll_last (acc : AclMap) (k : Str) (l as : List Ace) (hk : k ∉ acc.map (·.1)) :
    aclInsertAll (acc ++ [(k, l)]) k as = acc ++ [(k, l ++ as)] := by
  induction as generalizing l with
  | nil => simp [aclInsertAll]
  | cons a as ih =>
    have := ih (l ++ [a])
    simp only [aclInsertAll, List.foldl_cons] at this ⊢
    rw [aclInsert_last acc k l a hk, this, List.append_assoc]
    rfl

theorem aclInsertAll_new (acc : AclMap) (k : Str) (as : List Ace) (hk : k ∉ acc.map (·.1)) (hne : as ≠ []) :
    aclInsertAll acc k as = acc ++ [(k, as)] := by
  cases as with
  | nil => exact absurd rfl hne
  | cons a as =>
    have := aclInsertAll_last acc k [a] as hk
    simp only [aclInsertAll, List.foldl_cons] at this ⊢
    rw [aclInsert_new acc k a hk, this]
    rfl

/-- groups with fresh, pairwise distinct platforms and at least one entry each are appended as they are -/
theorem aclMerge_disjoint (acc m : AclMap) (hk : ((acc ++ m).map (·.1)).Nodup) (hne : ∀ p ∈ m, p.2 ≠ []) :
    aclMerge acc m = acc ++ m := by
  induction m generalizing acc with
  | nil => simp [aclMerge]
  | cons p m ih =>
    have hp : p.1 ∉ acc.map (·.1) := by
      intro hmem
      rw [List.map_append, List.map_cons] at hk
      have := (List.nodup_append.mp hk).2.2 _ hmem p.1 (by simp)
      exact this rfl
    have h2 : aclMerge acc (p :: m) = aclMerge (aclInsertAll acc p.1 p.2) m := rfl
    rw [h2, aclInsertAll_new acc p.1 p.2 hp (hne p (by simp))]
    rw [ih (acc ++ [p]) (by simpa using hk) (fun q hq => hne q (by simp [hq]))]
    simp

-- ---------------------------------------------------------------- (4) the invariant of collected maps

/-- what every map collected by `aclOf` satisfies: platforms pairwise distinct, no empty group, entries well formed -/
def AclMapOk (m : AclMap) : Prop :=
  (m.map (·.1)).Nodup ∧ ∀ p ∈ m, p.2 ≠ [] ∧ ∀ a ∈ p.2, a.WF

instance (m : AclMap) : Decidable (AclMapOk m) := by unfold AclMapOk; infer_instance

theorem aclMapOk_nil : AclMapOk [] := ⟨List.nodup_nil, nofun⟩

theorem aclInsert_keys2 (m : AclMap) (k : Str) (a : Ace) :
    (aclInsert m k a).map (·.1) = if m.any (·.1 == k) then m.map (·.1) else m.map (·.1) ++ [k] := by
  unfold aclInsert
  split
  · rw [List.map_map]
    congr 1
    funext p
    simp only [Function.comp]
    split <;> rfl
  · simp

theorem aclInsert_ok (m : AclMap) (k : Str) (a : Ace) (hm : AclMapOk m) (ha : a.WF) : AclMapOk (aclInsert m k a) := by
  obtain ⟨hk, hv⟩ := hm
  refine ⟨?_, ?_⟩
  · rw [aclInsert_keys2]
    split
    · exact hk
    · rename_i hany
      have hnot : k ∉ m.map (·.1) := by
        intro hmem
        obtain ⟨p, hp, he⟩ := List.mem_map.mp hmem
        exact hany (List.any_eq_true.mpr ⟨p, hp, by simp [he]⟩)
      refine List.nodup_append.mpr ⟨hk, (by simp), ?_⟩
      intro x hx y hy
      rw [List.mem_singleton] at hy
      subst hy
      exact fun he => hnot (he ▸ hx)
  · intro p hp
    unfold aclInsert at hp
    split at hp
    · obtain ⟨q, hq, he⟩ := List.mem_map.mp hp
      split at he
      · subst he
        refine ⟨by simp, ?_⟩
        intro b hb
        rcases List.mem_append.mp hb with hb | hb
        · exact (hv q hq).2 b hb
        · rw [List.mem_singleton] at hb
          exact hb ▸ ha
      · exact he ▸ hv q hq
    · rcases List.mem_append.mp hp with hp | hp
      · exact hv p hp
      · rw [List.mem_singleton] at hp
        subst hp
        refine ⟨by simp, ?_⟩
        intro b hb
        rw [List.mem_singleton] at hb
        exact hb ▸ ha

/-- Every map `aclOf` returns satisfies the invariant, whatever the chunks were (entries are what `parseAceP`
    accepted, hence well formed). -/
theorem aclOf_ok (cur : Str) (acc : AclMap) (cs : List (Bytes × Bytes)) (m : AclMap)
    (hacc : AclMapOk acc) (h : aclOf cur acc cs = some m) : AclMapOk m := by
  induction cs generalizing cur acc with
  | nil =>
    rw [aclOf_nil] at h
    exact Option.some.inj h ▸ hacc
  | cons x cs ih =>
    obtain ⟨t, d⟩ := x
    rw [aclOf] at h
    split at h
    · split at h
      · exact ih _ _ hacc h
      · cases h
    · split at h
      · split at h
        · cases h
        · split at h
          · rename_i s _ pl a hp
            exact ih _ _ (aclInsert_ok acc _ a hacc (parseAceP_WF hp)) h
          · cases h
      · exact ih _ _ hacc h

/-- all entries of a map, platform by platform -/
def allAces (m : AclMap) : List Ace := m.flatMap (·.2)

theorem mem_allAces {m : AclMap} {a : Ace} : a ∈ allAces m ↔ ∃ p ∈ m, a ∈ p.2 := by
  simp only [allAces, List.mem_flatMap]

theorem mem_allAces_aclInsert (m : AclMap) (k : Str) (b a : Ace) :
    a ∈ allAces (aclInsert m k b) ↔ a ∈ allAces m ∨ a = b := by
  simp only [mem_allAces]
  unfold aclInsert
  split
  · rename_i hany
    obtain ⟨q0, hq0, hk0⟩ := List.any_eq_true.mp hany
    constructor
    · rintro ⟨p, hp, ha⟩
      obtain ⟨q, hq, he⟩ := List.mem_map.mp hp
      split at he
      · subst he
        rcases List.mem_append.mp ha with ha | ha
        · exact .inl ⟨q, hq, ha⟩
        · exact .inr (List.mem_singleton.mp ha)
      · exact .inl ⟨q, hq, he ▸ ha⟩
    · rintro (⟨p, hp, ha⟩ | rfl)
      · by_cases hk : (p.1 == k) = true
        · exact ⟨(p.1, p.2 ++ [b]), List.mem_map.mpr ⟨p, hp, by rw [if_pos hk]⟩, by simp [ha]⟩
        · exact ⟨p, List.mem_map.mpr ⟨p, hp, by rw [if_neg hk]⟩, ha⟩
      · exact ⟨(q0.1, q0.2 ++ [a]), List.mem_map.mpr ⟨q0, hq0, by rw [if_pos hk0]⟩, by simp⟩
  · constructor
    · rintro ⟨p, hp, ha⟩
      rcases List.mem_append.mp hp with hp | hp
      · exact .inl ⟨p, hp, ha⟩
      · rw [List.mem_singleton] at hp
        subst hp
        exact .inr (List.mem_singleton.mp ha)
    · rintro (⟨p, hp, ha⟩ | rfl)
      · exact ⟨p, List.mem_append.mpr (.inl hp), ha⟩
      · exact ⟨(k, [a]), by simp, by simp⟩

/-- an entry found in some `faCe` chunk of `cs` -/
def ParsedFrom (cs : List (Bytes × Bytes)) (a : Ace) : Prop :=
  ∃ d s pl, (faCe, d) ∈ cs ∧ decodeUtf8 d = some s ∧ parseAceP s = .ok (pl, a)

/-- The entries of the collected map are exactly those already collected plus what `parseAceP` returned on the
    `faCe` chunks. -/
theorem aclOf_aces_iff (cur : Str) (acc : AclMap) (cs : List (Bytes × Bytes)) (m : AclMap)
    (h : aclOf cur acc cs = some m) (a : Ace) : a ∈ allAces m ↔ a ∈ allAces acc ∨ ParsedFrom cs a := by
  induction cs generalizing cur acc with
  | nil =>
    rw [aclOf_nil] at h
    cases h
    simp [ParsedFrom]
  | cons x cs ih =>
    obtain ⟨t, d⟩ := x
    have hcons : ∀ (hne : t ≠ faCe), ParsedFrom ((t, d) :: cs) a ↔ ParsedFrom cs a := by
      intro hne
      constructor
      · rintro ⟨d2, s, pl, hm, h1, h2⟩
        rcases List.mem_cons.mp hm with he | hm
        · exact absurd (Prod.mk.inj he).1.symm hne
        · exact ⟨d2, s, pl, hm, h1, h2⟩
      · rintro ⟨d2, s, pl, hm, h1, h2⟩
        exact ⟨d2, s, pl, List.mem_cons_of_mem _ hm, h1, h2⟩
    rw [aclOf] at h
    split at h
    · rename_i ht
      split at h
      · rw [ih _ _ h, hcons (ht ▸ faCe_ne_faCl.symm)]
      · cases h
    · split at h
      · rename_i ht
        subst ht
        split at h
        · cases h
        · split at h
          · rename_i s hd _ pl b hp
            rw [ih _ _ h, mem_allAces_aclInsert, or_assoc]
            apply or_congr_right
            constructor
            · rintro (rfl | ⟨d2, s2, pl2, hm, h1, h2⟩)
              · exact ⟨d, s, pl, by simp, hd, hp⟩
              · exact ⟨d2, s2, pl2, List.mem_cons_of_mem _ hm, h1, h2⟩
            · rintro ⟨d2, s2, pl2, hm, h1, h2⟩
              rcases List.mem_cons.mp hm with he | hm
              · have hd2 : d2 = d := (Prod.mk.inj he).2
                subst hd2
                rw [hd] at h1
                cases h1
                rw [hp] at h2
                injection h2 with h2
                exact .inl (Prod.mk.inj h2).2.symm
              · exact .inr ⟨d2, s2, pl2, hm, h1, h2⟩
          · cases h
      · rename_i ht
        rw [ih _ _ h, hcons ht]

-- ---------------------------------------------------------------- (3) continued: from the empty state

/-- Reading `aclChunks m ++ rest` from the initial state: `m` itself is the map with which the remaining chunks are read. -/
theorem aclOf_aclChunks_rest (m : AclMap) (hm : AclMapOk m) (rest : List (Bytes × Bytes)) :
    aclOf [] [] (aclChunks m ++ rest) = aclOf (lastKey [] m) m rest := by
  rw [aclOf_aclChunks_gen m (fun p hp => (hm.2 p hp).2)]
  rw [aclMerge_disjoint [] m (by simpa using hm.1) (fun p hp => (hm.2 p hp).1)]
  rfl

/-- Reading back what `migrate` wrote gives the same map. -/
theorem aclOf_aclChunks (m : AclMap) (hm : AclMapOk m) (rest : List (Bytes × Bytes))
    (hrest : ∀ x ∈ rest, isAclChunk x = false) : aclOf [] [] (aclChunks m ++ rest) = some m := by
  rw [aclOf_aclChunks_rest m hm, aclOf_skip _ _ _ hrest]

theorem filter_not_acl (cs : List (Bytes × Bytes)) : ∀ x ∈ cs.filter (fun x => !isAclChunk x), isAclChunk x = false := by
  intro x hx
  have := (List.mem_filter.mp hx).2
  simpa using this

theorem aclChunks_isAcl (m : AclMap) : ∀ x ∈ aclChunks m, isAclChunk x = true := by
  intro x hx
  simp only [aclChunks, List.mem_flatMap] at hx
  obtain ⟨⟨p, aces⟩, _, hx⟩ := hx
  simp only [List.mem_cons, List.mem_map] at hx
  rcases hx with rfl | ⟨a, _, rfl⟩
  · simp [isAclChunk]
  · simp [isAclChunk]

theorem filter_aclChunks_append (m : AclMap) (rest : List (Bytes × Bytes)) (hrest : ∀ x ∈ rest, isAclChunk x = false) :
    (aclChunks m ++ rest).filter (fun x => !isAclChunk x) = rest := by
  rw [List.filter_append]
  have h1 : (aclChunks m).filter (fun x => !isAclChunk x) = [] := by
    apply List.filter_eq_nil_iff.mpr
    intro x hx
    simp [aclChunks_isAcl m x hx]
  have h2 : rest.filter (fun x => !isAclChunk x) = rest := by
    apply List.filter_eq_self.mpr
    intro x hx
    simp [hrest x hx]
  rw [h1, h2, List.nil_append]

end Pna.Cli
