import PnaVerif.Model.Cli.Edit
/-! Lemmas about the CLI transform framework and the per-command entry transformers. -/
namespace Pna.Cli

theorem entriesOf_nil : entriesOf [] = [] := rfl
theorem entriesOf_cons (i : Item) (a : Archive) : entriesOf (i :: a) = i.entries ++ entriesOf a := by
  simp [entriesOf]

/-- Both strategies produce, at the level of the entries the library returns, `filterMap f`. -/
theorem entriesOf_unsolid (f : LEntry → Option LEntry) (a : Archive) :
    entriesOf (transformUnsolid f a) = (entriesOf a).filterMap f := by
  unfold transformUnsolid
  generalize (entriesOf a).filterMap f = l
  induction l with
  | nil => rfl
  | cons e l ih => simp [entriesOf_cons, Item.entries, ih]

theorem entriesOf_keepSolid (f : LEntry → Option LEntry) (a : Archive) :
    entriesOf (transformKeepSolid f a) = (entriesOf a).filterMap f := by
  unfold transformKeepSolid
  induction a with
  | nil => rfl
  | cons i a ih =>
    cases i with
    | normal e =>
      simp only [List.filterMap_cons, entriesOf_cons, Item.entries, List.singleton_append]
      cases hf : f e with
      | none => simp [ih]
      | some e' => simp [entriesOf_cons, Item.entries, ih]
    | solid h x es =>
      simp only [List.filterMap_cons, entriesOf_cons, Item.entries, List.filterMap_append, ih]

theorem entriesOf_transform (s : Strategy) (f : LEntry → Option LEntry) (a : Archive) :
    entriesOf (transform s f a) = (entriesOf a).filterMap f := by
  cases s
  · exact entriesOf_unsolid f a
  · exact entriesOf_keepSolid f a

/-- `filterMap` with a total, entry-wise function is `map`. -/
theorem filterMap_some_map {α β} (g : α → β) (l : List α) : l.filterMap (fun e => some (g e)) = l.map g := by
  induction l with
  | nil => rfl
  | cons a l ih => simp [ih]

/-- If `f` is idempotent on what it keeps, so is the transform (entry level). -/
theorem filterMap_idem {α} (f : α → Option α) (h : ∀ e e', f e = some e' → f e' = some e') (l : List α) :
    (l.filterMap f).filterMap f = l.filterMap f := by
  induction l with
  | nil => rfl
  | cons a l ih =>
    simp only [List.filterMap_cons]
    cases hf : f a with
    | none => simpa using ih
    | some a' => simp [h a a' hf, ih]

/-- solid blocks with their header options and their own unknown chunks -/
def solidFrames (a : Archive) : List (Bytes × List (Bytes × Bytes)) :=
  a.filterMap fun | .normal _ => none | .solid h x _ => some (h, x)

theorem keepSolid_frames (f : LEntry → Option LEntry) (a : Archive) :
    solidFrames (transformKeepSolid f a) = solidFrames a := by
  unfold solidFrames transformKeepSolid
  induction a with
  | nil => rfl
  | cons i a ih =>
    cases i with
    | normal e =>
      simp only [List.filterMap_cons]
      cases f e <;> simp [ih]
    | solid h x es => simp [ih]

-- ---------------------------------------------------------------- chmod algebra

theorem bool_absorb (a m b : Bool) : ((((a && m) || b) && m) || b) = ((a && m) || b) := by
  cases a <;> cases m <;> cases b <;> rfl

theorem applyTo_idem_plus (t p x : Nat) : (Mode.plus t p).applyTo ((Mode.plus t p).applyTo x) = (Mode.plus t p).applyTo x := by
  simp only [Mode.applyTo]
  apply Nat.eq_of_testBit_eq; intro i
  simp only [Nat.testBit_or]
  cases x.testBit i <;> cases (targetApply t p).testBit i <;> rfl

theorem applyTo_idem_minus (t p x : Nat) : (Mode.minus t p).applyTo ((Mode.minus t p).applyTo x) = (Mode.minus t p).applyTo x := by
  simp only [Mode.applyTo]
  apply Nat.eq_of_testBit_eq; intro i
  simp only [Nat.testBit_and]
  cases x.testBit i <;> cases (0xFFFF - targetApply t p).testBit i <;> rfl

theorem ite3_bits (c1 c2 c4 : Prop) [Decidable c1] [Decidable c2] [Decidable c4] (b1 b2 b4 x i : Nat) :
    let e := fun y => (if c1 then b1 else y &&& 0o700) ||| (if c2 then b2 else y &&& 0o070) ||| (if c4 then b4 else y &&& 0o007)
    (e (e x)).testBit i = (e x).testBit i := by
  intro e
  simp only [e]
  by_cases h1 : c1 <;> by_cases h2 : c2 <;> by_cases h4 : c4 <;>
    simp only [if_pos, if_neg, h1, h2, h4, not_false_eq_true, Nat.testBit_or, Nat.testBit_and] <;>
    generalize x.testBit i = a <;>
    generalize b1.testBit i = v1 <;> generalize b2.testBit i = v2 <;> generalize b4.testBit i = v4 <;>
    generalize (0o700 : Nat).testBit i = m1 <;> generalize (0o070 : Nat).testBit i = m2 <;>
    generalize (0o007 : Nat).testBit i = m4 <;>
    cases a <;> cases v1 <;> cases v2 <;> cases v4 <;> cases m1 <;> cases m2 <;> cases m4 <;> rfl

theorem applyTo_idem_equal (t p x : Nat) : (Mode.equal t p).applyTo ((Mode.equal t p).applyTo x) = (Mode.equal t p).applyTo x := by
  simp only [Mode.applyTo]
  apply Nat.eq_of_testBit_eq; intro i
  exact ite3_bits (t &&& 1 ≠ 0) (t &&& 2 ≠ 0) (t &&& 4 ≠ 0) (targetApply 1 p) (targetApply 2 p) (targetApply 4 p) x i

/-- **`chmod` is idempotent** for every mode clause and every mode value. -/
theorem applyTo_idem (m : Mode) (x : Nat) : m.applyTo (m.applyTo x) = m.applyTo x := by
  cases m with
  | num v => rfl
  | equal t p => exact applyTo_idem_equal t p x
  | plus t p => exact applyTo_idem_plus t p x
  | minus t p => exact applyTo_idem_minus t p x

end Pna.Cli
