import PnaVerif.Model.Cli.Edit
/-! Lemmas about the CLI transform framework and the per-command entry transformers. -/
namespace Pna.Cli

theorem entriesOf_nil : entriesOf [] = [] := rfl
theorem entriesOf_cons (i : Item) (a : Archive) : entriesOf (i :: a) = i.entries ++ entriesOf a := by
  simp [entriesOf]

theorem entriesOf_append (a b : Archive) : entriesOf (a ++ b) = entriesOf a ++ entriesOf b := by
  simp [entriesOf]

/-- the entries as the strategy hands them on: `--unsolid` writes the entries of a block on their own -/
def Item.written : Item → List LEntry
  | .normal e => [e]
  | .solid h _ es => es.map (standalone h)

def writtenOf : Strategy → Archive → List LEntry
  | .unsolid, a => a.flatMap Item.written
  | .keepSolid, a => entriesOf a

/-- a command's entry function neither reads nor writes the stored form -/
def Respects (f : LEntry → Option LEntry) : Prop := ∀ h e, f (standalone h e) = (f e).map (standalone h)

/-- an entry without its stored form (codec, cipher, mode): what C10 calls its content and attributes -/
def LEntry.content (e : LEntry) : LEntry := { e with data := e.data.drop 3 }

theorem content_standalone (h : Bytes) (e : LEntry) : (standalone h e).content = e.content := by
  unfold standalone LEntry.content
  split <;> simp

theorem standalone_plain (h : Bytes) (e : LEntry) (hp : h.getD 3 0 = 0) : standalone h e = e := by
  have hp2 : h[3]?.getD 0 = 0 := by simpa [List.getD] using hp
  simp [standalone, hp2]

theorem standalone_attrs (h : Bytes) (e : LEntry) :
    (standalone h e).name = e.name ∧ (standalone h e).kind = e.kind ∧ (standalone h e).rawSize = e.rawSize ∧
    (standalone h e).mode = e.mode ∧ (standalone h e).owner = e.owner ∧ (standalone h e).created = e.created ∧
    (standalone h e).modified = e.modified ∧ (standalone h e).accessed = e.accessed ∧
    (standalone h e).xattrs = e.xattrs ∧ (standalone h e).extras = e.extras := by
  unfold standalone; split <;> simp

theorem filterMap_respects (f : LEntry → Option LEntry) (hf : Respects f) (h : Bytes) (es : List LEntry) :
    (es.map (standalone h)).filterMap f = (es.filterMap f).map (standalone h) := by
  induction es with
  | nil => rfl
  | cons e es ih =>
    simp only [List.map_cons, List.filterMap_cons, hf h e]
    cases f e <;> simp [ih]

theorem entriesOf_map_normal (l : List LEntry) : entriesOf (l.map Item.normal) = l := by
  induction l with
  | nil => rfl
  | cons e l ih => simp [entriesOf_cons, Item.entries, ih]

theorem transformUnsolid_cons (f : LEntry → Option LEntry) (i : Item) (a : Archive) :
    transformUnsolid f (i :: a) = transformUnsolid f [i] ++ transformUnsolid f a := by
  simp [transformUnsolid]

/-- `--unsolid`, at the level of the entries the library returns. -/
theorem entriesOf_unsolid (f : LEntry → Option LEntry) (hf : Respects f) (a : Archive) :
    entriesOf (transformUnsolid f a) = (writtenOf .unsolid a).filterMap f := by
  induction a with
  | nil => rfl
  | cons i a ih =>
    rw [transformUnsolid_cons, entriesOf_append, ih]
    simp only [writtenOf, List.flatMap_cons, List.filterMap_append]
    congr 1
    cases i with
    | normal e =>
      simp only [transformUnsolid, List.flatMap_cons, List.flatMap_nil, List.append_nil, Item.written, List.filterMap_cons,
        List.filterMap_nil]
      cases f e <;> simp [entriesOf, Item.entries]
    | solid h x es =>
      simp only [transformUnsolid, List.flatMap_cons, List.flatMap_nil, List.append_nil, Item.written]
      rw [filterMap_respects f hf]
      have : (fun e => Item.normal (standalone h e)) = Item.normal ∘ standalone h := rfl
      rw [this, ← List.map_map, entriesOf_map_normal]

theorem entriesOf_keepSolid (f : LEntry → Option LEntry) (a : Archive) :
    entriesOf (transformKeepSolid f a) = (entriesOf a).filterMap f := by
  unfold transformKeepSolid
  induction a with
  | nil => rfl
  | cons i a ih =>
    cases i with
    | normal e =>
      simp only [List.filterMap_cons, entriesOf_cons, Item.entries, List.singleton_append]
      cases hf : f e with
      | none => simp [ih]
      | some e' => simp [entriesOf_cons, Item.entries, ih]
    | solid h x es =>
      simp only [List.filterMap_cons, entriesOf_cons, Item.entries, List.filterMap_append, ih]

/-- Both strategies produce, at the level of the entries the library returns, `filterMap f` of the
    entries as the strategy hands them on. -/
theorem entriesOf_transform (s : Strategy) (f : LEntry → Option LEntry) (hf : Respects f) (a : Archive) :
    entriesOf (transform s f a) = (writtenOf s a).filterMap f := by
  cases s
  · exact entriesOf_unsolid f hf a
  · exact entriesOf_keepSolid f a

/-- … and what is handed on is the archive's entries up to the stored form of the file entries of
    encrypted blocks under `--unsolid`: names, kinds, contents and every attribute are the same. -/
theorem written_content (s : Strategy) (a : Archive) :
    (writtenOf s a).map LEntry.content = (entriesOf a).map LEntry.content := by
  cases s
  · simp only [writtenOf, entriesOf]
    induction a with
    | nil => rfl
    | cons i a ih =>
      simp only [List.flatMap_cons, List.map_append, ih]
      congr 1
      cases i with
      | normal e => rfl
      | solid h x es => simp [Item.written, Item.entries, content_standalone]
  · rfl

theorem written_keepSolid (a : Archive) : writtenOf .keepSolid a = entriesOf a := rfl

/-- no encrypted block: nothing is written again -/
theorem written_plain (s : Strategy) (a : Archive)
    (hp : ∀ i ∈ a, match i with | .normal _ => True | .solid h _ _ => h.getD 3 0 = 0) :
    writtenOf s a = entriesOf a := by
  cases s
  · simp only [writtenOf, entriesOf]
    induction a with
    | nil => rfl
    | cons i a ih =>
      simp only [List.flatMap_cons]
      rw [ih (fun j hj => hp j (List.mem_cons_of_mem _ hj))]
      congr 1
      cases i with
      | normal e => rfl
      | solid h x es =>
        have := hp (.solid h x es) (List.mem_cons_self ..)
        simp only [Item.written, Item.entries]
        conv => rhs; rw [← List.map_id es]
        apply List.map_congr_left
        intro e _
        exact standalone_plain h e this
  · rfl

/-- after `--unsolid` there is no block left: a second pass writes nothing again -/
theorem written_unsolid (s : Strategy) (f : LEntry → Option LEntry) (a : Archive) :
    writtenOf s (transformUnsolid f a) = entriesOf (transformUnsolid f a) := by
  apply written_plain
  intro i hi
  simp only [transformUnsolid, List.mem_flatMap] at hi
  obtain ⟨j, _, hj⟩ := hi
  cases j with
  | normal e => cases hfe : f e <;> simp [hfe] at hj; subst hj; trivial
  | solid h x es => simp only [List.mem_map] at hj; obtain ⟨e, _, rfl⟩ := hj; trivial


/-- `filterMap` with a total, entry-wise function is `map`. -/
theorem filterMap_some_map {α β} (g : α → β) (l : List α) : l.filterMap (fun e => some (g e)) = l.map g := by
  induction l with
  | nil => rfl
  | cons a l ih => simp [ih]

/-- If `f` is idempotent on what it keeps, so is the transform (entry level). -/
theorem filterMap_idem {α} (f : α → Option α) (h : ∀ e e', f e = some e' → f e' = some e') (l : List α) :
    (l.filterMap f).filterMap f = l.filterMap f := by
  induction l with
  | nil => rfl
  | cons a l ih =>
    simp only [List.filterMap_cons]
    cases hf : f a with
    | none => simpa using ih
    | some a' => simp [h a a' hf, ih]

/-- solid blocks with their header options and their own unknown chunks -/
def solidFrames (a : Archive) : List (Bytes × List (Bytes × Bytes)) :=
  a.filterMap fun | .normal _ => none | .solid h x _ => some (h, x)

theorem keepSolid_frames (f : LEntry → Option LEntry) (a : Archive) :
    solidFrames (transformKeepSolid f a) = solidFrames a := by
  unfold solidFrames transformKeepSolid
  induction a with
  | nil => rfl
  | cons i a ih =>
    cases i with
    | normal e =>
      simp only [List.filterMap_cons]
      cases f e <;> simp [ih]
    | solid h x es => simp [ih]

-- ---------------------------------------------------------------- the commands respect the stored form

theorem respects_delete (sel excl : Bytes → Bool) : Respects (deleteF sel excl) := by
  intro h e
  unfold deleteF standalone
  split <;> split <;> simp_all

theorem respects_chmod (sel : Bytes → Bool) (m : Mode) : Respects (chmodF sel m) := by
  intro h e
  unfold chmodF standalone
  split <;> split <;> simp_all

theorem respects_chown (sel : Bytes → Bool) (u g : Option (Nat × Bytes)) : Respects (chownF sel u g) := by
  intro h e
  unfold chownF standalone
  split <;> split <;> simp_all

theorem respects_xattr (sel : Bytes → Bool) (set : Option (Bytes × Bytes)) (rm : Option Bytes) : Respects (xattrF sel set rm) := by
  intro h e
  unfold xattrF standalone
  split <;> split <;> simp_all

theorem standalone_name (h : Bytes) (e : LEntry) : (standalone h e).name = e.name := by
  unfold standalone; split <;> rfl

theorem respects_strip (sel : Bytes → Bool) (o : StripOpts) : Respects (stripF sel o) := by
  intro h e
  have hn := standalone_name h e
  by_cases hs : sel e.name = true
  · have hs1 : sel (standalone h e).name = true := by rw [hn]; exact hs
    simp only [stripF, hs, hs1, Bool.not_true, Bool.false_eq_true, if_false, Option.map_some]
    by_cases hc : (h.getD 3 0 != 0 && (e.kind == 0 || e.kind == 2)) = true
    · simp only [standalone, hc, if_true]
    · simp only [standalone, hc]; rfl
  · have hs2 : sel e.name = false := by simpa using hs
    have hs1 : sel (standalone h e).name = false := by rw [hn]; exact hs2
    simp only [stripF, hs2, hs1, Bool.not_false, if_true, Option.map_some]

-- ---------------------------------------------------------------- chmod algebra

theorem bool_absorb (a m b : Bool) : ((((a && m) || b) && m) || b) = ((a && m) || b) := by
  cases a <;> cases m <;> cases b <;> rfl

theorem applyTo_idem_plus (t p x : Nat) : (Mode.plus t p).applyTo ((Mode.plus t p).applyTo x) = (Mode.plus t p).applyTo x := by
  simp only [Mode.applyTo]
  apply Nat.eq_of_testBit_eq; intro i
  simp only [Nat.testBit_or]
  cases x.testBit i <;> cases (targetApply t p).testBit i <;> rfl

theorem applyTo_idem_minus (t p x : Nat) : (Mode.minus t p).applyTo ((Mode.minus t p).applyTo x) = (Mode.minus t p).applyTo x := by
  simp only [Mode.applyTo]
  apply Nat.eq_of_testBit_eq; intro i
  simp only [Nat.testBit_and]
  cases x.testBit i <;> cases (0xFFFF - targetApply t p).testBit i <;> rfl

theorem ite3_bits (c1 c2 c4 : Prop) [Decidable c1] [Decidable c2] [Decidable c4] (hi b1 b2 b4 x i : Nat) :
    let e := fun y => (y &&& hi) ||| (if c1 then b1 else y &&& 0o700) ||| (if c2 then b2 else y &&& 0o070) ||| (if c4 then b4 else y &&& 0o007)
    (e (e x)).testBit i = (e x).testBit i := by
  intro e
  simp only [e]
  by_cases h1 : c1 <;> by_cases h2 : c2 <;> by_cases h4 : c4 <;>
    simp only [if_pos, if_neg, h1, h2, h4, not_false_eq_true, Nat.testBit_or, Nat.testBit_and] <;>
    generalize x.testBit i = a <;> generalize hi.testBit i = mh <;>
    generalize b1.testBit i = v1 <;> generalize b2.testBit i = v2 <;> generalize b4.testBit i = v4 <;>
    generalize (0o700 : Nat).testBit i = m1 <;> generalize (0o070 : Nat).testBit i = m2 <;>
    generalize (0o007 : Nat).testBit i = m4 <;>
    cases a <;> cases mh <;> cases v1 <;> cases v2 <;> cases v4 <;> cases m1 <;> cases m2 <;> cases m4 <;> rfl

theorem applyTo_idem_equal (t p x : Nat) : (Mode.equal t p).applyTo ((Mode.equal t p).applyTo x) = (Mode.equal t p).applyTo x := by
  simp only [Mode.applyTo]
  apply Nat.eq_of_testBit_eq; intro i
  exact ite3_bits (t &&& 1 ≠ 0) (t &&& 2 ≠ 0) (t &&& 4 ≠ 0) (0xFFFF - 0o777) (targetApply 1 p) (targetApply 2 p) (targetApply 4 p) x i

/-- **`chmod` is idempotent** for every mode clause and every mode value. -/
theorem applyTo_idem (m : Mode) (x : Nat) : m.applyTo (m.applyTo x) = m.applyTo x := by
  cases m with
  | num v => rfl
  | equal t p => exact applyTo_idem_equal t p x
  | plus t p => exact applyTo_idem_plus t p x
  | minus t p => exact applyTo_idem_minus t p x

end Pna.Cli
