import PnaVerif.Model.Pipeline
import PnaVerif.Model.Archive
import PnaVerif.Model.Solid
import PnaVerif.Lemmas.ArchiveRt
/-!
  Capstone for C01: an end-to-end WRITE model and READ model assembled **only** from the existing model
  functions (`buildData`/`streamData`/`readData` of Model/Pipeline, `serN`/`serS`/`serEntry` of Model/Entry,
  `encodeArchive`/`readArchiveStream` of Model/Archive + Lemmas/ArchiveRt, `solidEntries` of Model/Solid).
  Nothing new is modelled here; the definitions only say how the proved pieces are plugged together:

    write:  logical files ──(codec, cipher, sink)──► NormalEntry / SolidEntry ──serEntry──► chunks ──encodeArchive──► bytes
    read :  bytes ──readArchiveStream──► ReadEntry list ──open / expand + open──► (name, kind, metadata, xattrs, extra, content)

  The composition theorem is in Props/C01Archive.lean; the glue lemmas are in Lemmas/Capstone2.lean.
-/
namespace Pna.Capstone
open Pna

/-- Which writer produced the stored slices: `EntryBuilder`/`SolidEntryBuilder` (sink `FlattenWriter`,
    `buildData`) or `Archive::write_file`/`SolidArchive` (sink `ChunkStreamWriter`, `streamData`). -/
inductive Sink | builder | stream
  deriving DecidableEq, Repr

/-- The configuration of one data stream (an entry's, or a solid block's).  `P`, `C`, `sel`, `key`, `iv` are the
    arguments of the pipeline functions; `phsf` is the PHSF string stored when `sel ≠ .none`; `codec`/`cipher`
    are the header codes under which `C` and `P` are recorded (opaque here: the model never maps a code back to
    an algorithm, it only has to store valid codes). -/
structure StreamCfg where
  P : BlockPerm
  C : Compressor
  sel : CipherSel
  key : Bytes
  iv : Bytes
  phsf : Bytes
  codec : Nat := 0
  cipher : Nat := 1

/-- header byte `encryption`: 0 when nothing is encrypted, else the code of the block cipher -/
def StreamCfg.encryption (cfg : StreamCfg) : Nat :=
  match cfg.sel with
  | .none => 0
  | _ => cfg.cipher

/-- header byte `cipher_mode`: 0 CBC, 1 CTR (0 when nothing is encrypted) -/
def StreamCfg.cipherMode (cfg : StreamCfg) : Nat :=
  match cfg.sel with
  | .ctr => 1
  | _ => 0

/-- the PHSF chunk is written exactly when the stream is encrypted -/
def StreamCfg.phsfChunk (cfg : StreamCfg) : Option Bytes :=
  if cfg.sel = .none then none else some cfg.phsf

/-- What the round trip needs of a configuration: the two laws of the third-party parameters, a 16-byte IV,
    a PHSF string that is UTF-8 and fits a chunk, valid header codes. -/
structure StreamCfg.OK (cfg : StreamCfg) : Prop where
  perm : cfg.P.Lawful
  comp : cfg.C.Lawful
  iv : cfg.iv.length = 16
  phsfUtf8 : validUtf8 cfg.phsf = true
  phsfFit : cfg.phsf.length < 2 ^ 32
  codec : validCompression cfg.codec = true
  cipher : cfg.cipher = 1 ∨ cfg.cipher = 2

/-- the identity "block cipher" (a lawful `BlockPerm`; never applied by `plain`, whose `sel` is `.none`) -/
def idPerm : BlockPerm := ⟨fun _ b => b, fun _ b => b⟩

/-- store / no cipher: the configuration of the entries *inside* a solid block (the block's own stream carries
    codec and cipher).  The IV is never used (`sel = .none`); it is 16 zero bytes only so that `plain.OK`. -/
def plain : StreamCfg :=
  { P := idPerm, C := storeCompressor, sel := .none, key := [], iv := List.replicate 16 0, phsf := [] }

/-- The logical content handed to a writer: the header pieces that matter, metadata, extended attributes,
    uninterpreted chunks, and the sequence of `write` calls (the content is `writes.flatten`). -/
structure LFile where
  name : Bytes
  kind : Nat
  md : Metadata := {}
  xattrs : List XAttr := []
  extra : List Chunk := []
  writes : List Bytes

/-- the stored data slices for the write calls `ws` -/
def storedData (s : Sink) (cfg : StreamCfg) (ws : List Bytes) : List Bytes :=
  match s with
  | .builder => buildData cfg.P cfg.C cfg.sel cfg.key cfg.iv ws
  | .stream => streamData cfg.P cfg.C cfg.sel cfg.key cfg.iv ws

/-- the entry a writer produces for a logical file -/
def buildNormalW (s : Sink) (cfg : StreamCfg) (f : LFile) : NormalEntry :=
  { header := ⟨0, 0, f.kind, cfg.codec, cfg.encryption, cfg.cipherMode, f.name⟩
    phsf := cfg.phsfChunk
    extra := f.extra
    data := storedData s cfg f.writes
    md := f.md
    xattrs := f.xattrs }

/-- `EntryBuilder`: `data := buildData cfg.P cfg.C cfg.sel cfg.key cfg.iv f.writes` -/
def buildNormal (cfg : StreamCfg) (f : LFile) : NormalEntry := buildNormalW .builder cfg f

/-- `NormalEntry::reader(..).read_to_end()` with the key already derived -/
def openNormal (cfg : StreamCfg) (e : NormalEntry) : Outcome Bytes :=
  readData cfg.P cfg.C cfg.sel cfg.key e.data

-- ---------------------------------------------------------------- solid blocks

/-- the inner stream of a solid block: the serialised entries of its files, each built plain -/
def innerStream (fs : List LFile) : Bytes :=
  encodeChunks ((fs.map (buildNormal plain)).flatMap serN)

/-- `SolidEntryBuilder` / `SolidArchive`: the inner stream goes through the block's codec and cipher -/
def buildSolidW (s : Sink) (cfg : StreamCfg) (fs : List LFile) : SolidEntry :=
  { header := ⟨0, 0, cfg.codec, cfg.encryption, cfg.cipherMode⟩
    phsf := cfg.phsfChunk
    data := storedData s cfg [innerStream fs]
    extra := [] }

def buildSolid (cfg : StreamCfg) (fs : List LFile) : SolidEntry := buildSolidW .builder cfg fs

/-- `SolidEntry::entries(password)`: open the decoder stack over the stored data, then iterate.  A failure to
    open/decode is reported as the single item the iterator yields. -/
def expandSolid (cfg : StreamCfg) (s : SolidEntry) : List (Outcome NormalEntry) :=
  match readData cfg.P cfg.C cfg.sel cfg.key s.data with
  | .ok inner => solidEntries ⟨inner, none⟩
  | .error e => [.error e]
  | .panic p => [.panic p]

-- ---------------------------------------------------------------- archives

/-- one top-level item of an archive, with the writer that produces it -/
inductive LItem
  | file (s : Sink) (cfg : StreamCfg) (f : LFile)
  | block (s : Sink) (cfg : StreamCfg) (fs : List LFile)

def LItem.cfg : LItem → StreamCfg
  | .file _ cfg _ => cfg
  | .block _ cfg _ => cfg

def LItem.sink : LItem → Sink
  | .file s _ _ => s
  | .block s _ _ => s

/-- the logical files of an item, block files in place -/
def LItem.files : LItem → List LFile
  | .file _ _ f => [f]
  | .block _ _ fs => fs

def toReadEntry : LItem → ReadEntry
  | .file s cfg f => .normal (buildNormalW s cfg f)
  | .block s cfg fs => .solid (buildSolidW s cfg fs)

/-- `Archive::write_header`, `add_entry` for every item, `finalize` (single part) -/
def writeArchive (items : List LItem) : Bytes :=
  encodeArchive 0 ((items.map toReadEntry).map serEntry) false

/-- what a reader learns about one file -/
structure FileOut where
  name : Bytes
  kind : Nat
  md : Metadata
  xattrs : List XAttr
  extra : List Chunk
  content : Bytes
  deriving DecidableEq, Repr

/-- what must come back for a logical file -/
def LFile.out (f : LFile) : FileOut := ⟨f.name, f.kind, f.md, f.xattrs, f.extra, f.writes.flatten⟩

/-- identity of an entry + its content read to the end -/
def openEntry (cfg : StreamCfg) (e : NormalEntry) : Outcome FileOut :=
  match openNormal cfg e with
  | .ok b => .ok ⟨e.header.name, e.header.kind, e.md, e.xattrs, e.extra, b⟩
  | .error x => .error x
  | .panic p => .panic p

/-- a normal entry is opened; a solid block is expanded and its inner entries are opened plain -/
def openReadEntry (cfg : StreamCfg) : ReadEntry → List (Outcome FileOut)
  | .normal e => [openEntry cfg e]
  | .solid s => (expandSolid cfg s).map fun
      | .ok e => openEntry plain e
      | .error x => .error x
      | .panic p => .panic p

/-- `cfgOf i` is the configuration used for top-level entry number `i` -/
def openAll (cfgOf : Nat → StreamCfg) : List ReadEntry → List (Outcome FileOut)
  | [] => []
  | e :: es => openReadEntry (cfgOf 0) e ++ openAll (fun i => cfgOf (i + 1)) es

structure ReadAll where
  files : List (Outcome FileOut)
  /-- `.ok ()` iff the entry iteration ended with `None` (AEND reached, every item parsed) -/
  status : Outcome Unit
  next : Bool
  deriving DecidableEq, Repr

/-- The analogue of `Archive::entries_with_password` followed by opening every entry.
    Honest about the key: the real reader gets a password from the caller and the parameters (codec, cipher,
    mode, PHSF string with salt and cost) from the archive, and *derives* the key; the derivation is a
    third-party oracle (`deriveKey` in Model/Pipeline, property C16).  Here the reader is handed, per top-level
    entry, the configuration that password + recorded parameters determine — the theorem is about everything
    between the key and the bytes. -/
def readAll (cfgOf : Nat → StreamCfg) (bytes : Bytes) : ReadAll :=
  let r := readArchiveStream bytes
  { files := openAll cfgOf r.entries, status := r.status, next := r.next }

/-- the parameters an entry records for its reader: codec code, cipher code, cipher mode, PHSF string -/
def entryParams : ReadEntry → Nat × Nat × Nat × Option Bytes
  | .normal e => (e.header.compression, e.header.encryption, e.header.cipherMode, e.phsf)
  | .solid s => (s.header.compression, s.header.encryption, s.header.cipherMode, s.phsf)

/-- the same four, as the writer's configuration determines them -/
def StreamCfg.params (cfg : StreamCfg) : Nat × Nat × Nat × Option Bytes :=
  (cfg.codec, cfg.encryption, cfg.cipherMode, cfg.phsfChunk)

/-- how a reader recovers the cipher selection from the two header bytes -/
def selOfHeader (encryption cipherMode : Nat) : CipherSel :=
  if encryption = 0 then .none else if cipherMode = 0 then .cbc else .ctr

/-- the configurations the writer used, by position (anything past the end: `plain`) -/
def cfgsOf (items : List LItem) : Nat → StreamCfg :=
  fun i => (items[i]?.map LItem.cfg).getD plain

-- ---------------------------------------------------------------- well-formedness, in primitive terms

/-- What a logical file must satisfy, stated on its own fields (no reference to the entry built from it):
    exactly what `NormalEntry.WF` (the field codecs are inverse pairs), `NoMarkers` (the item boundaries survive)
    and `ChunksFit` (every chunk payload fits the 32-bit length field) need.  Nothing is asked of `writes`:
    the data chunks are cut at `u32::MAX` by the writer. -/
structure LFile.WF (f : LFile) : Prop where
  kind : validKind f.kind = true
  nameUtf8 : validUtf8 f.name = true
  /-- the name is already in the sanitised form the reader produces -/
  nameSan : sanitize f.name = f.name
  /-- FHED payload = 6 bytes + name -/
  nameFit : f.name.length + 6 < 2 ^ 32
  /-- `extra` chunks are of types the entry parser does not interpret … -/
  extraUn : ∀ c ∈ f.extra, interpretedN c.ty = false
  /-- … nor the archive reader (FEND/SEND/ANXT/AEND) … -/
  extraNM : NoMarkers f.extra
  /-- … and fit a chunk -/
  extraFit : ChunksFit f.extra
  rawSize : ∀ n, f.md.rawSize = some n → n < 2 ^ 128
  created : ∀ n, f.md.created = some n → n < 2 ^ 64
  modified : ∀ n, f.md.modified = some n → n < 2 ^ 64
  accessed : ∀ n, f.md.accessed = some n → n < 2 ^ 64
  perm : ∀ p, f.md.permission = some p → p.WF
  xattrs : ∀ x ∈ f.xattrs, x.WF
  /-- xATR payload = 4 + name + 4 + value -/
  xattrsFit : ∀ x ∈ f.xattrs, x.name.length + x.value.length + 8 < 2 ^ 32

/-- every stored slice fits one chunk -/
def SlicesFit (ds : List Bytes) : Prop := ∀ d ∈ ds, d.length < 2 ^ 32

/-- Well-formed item: a good configuration and well-formed files.  For a solid block the stored slices become
    one SDAT chunk each (`serS` does not re-cut), so they must fit; with the builder sink this always holds
    (`slicesFit_builder` in Capstone2), with the streaming sink it is a condition on the codec/cipher writes. -/
def LItem.WF : LItem → Prop
  | .file _ cfg f => cfg.OK ∧ f.WF
  | .block s cfg fs => cfg.OK ∧ (∀ f ∈ fs, f.WF) ∧ SlicesFit (storedData s cfg [innerStream fs])

end Pna.Capstone
