import PnaVerif.Model.Cipher
import PnaVerif.Model.Pipeline
import PnaVerif.Lemmas.Chunk
import PnaVerif.Lemmas.Flatten
import PnaVerif.Lemmas.Ctr
import PnaVerif.Lemmas.CbcWriter
import PnaVerif.Lemmas.CbcReader
/-!
  Helpers for property C16 ("only the right key reads"): what reading with a *different* key
  yields, for the CTR and the CBC layer.  Nothing is assumed of the block cipher beyond
  `BlockPerm.Lawful` (and for CTR nothing at all), so the results are characterisations:
  the wrong key reads the original exactly when the two keyed ciphers agree on everything
  that was actually used.  Every helper is prefixed `wk_`.
-/
namespace Pna

-- ---------------------------------------------------------------- bytes

/-- XOR cancellation on one byte: masking with `x` and unmasking with `y` is the identity
    exactly when `x = y`. -/
theorem wk_xor_xor_eq_self_iff (a x y : UInt8) : a ^^^ x ^^^ y = a ↔ x = y := by
  constructor
  · intro h
    have h1 : a ^^^ (x ^^^ y) = a ^^^ 0 := by rw [← UInt8.xor_assoc, h, UInt8.xor_zero]
    exact UInt8.xor_eq_zero_iff.mp ((UInt8.xor_right_inj a).mp h1)
  · intro h
    rw [h, UInt8.xor_assoc, UInt8.xor_self, UInt8.xor_zero]

-- ---------------------------------------------------------------- CTR

/-- byte `i` of the keystream application -/
theorem wk_ctrApply_getElem (P : BlockPerm) (k iv : Bytes) (pos : Nat) (d : Bytes) (i : Nat)
    (h : i < (ctrApply P k iv pos d).length) (h2 : i < d.length) :
    (ctrApply P k iv pos d)[i] = d[i] ^^^ ctrKeystream P k iv (pos + i) := by
  induction d generalizing pos i with
  | nil => simp at h2
  | cons b d ih =>
    cases i with
    | zero => simp only [ctrApply_cons, List.getElem_cons_zero, Nat.add_zero]
    | succ i =>
      simp only [ctrApply_cons, List.getElem_cons_succ]
      rw [ih (pos + 1) i (by rw [ctrApply_length]; simpa using h2) (by simpa using h2)]
      have : pos + 1 + i = pos + (i + 1) := by omega
      rw [this]

/-- byte `i` of "encrypt with `k`, decrypt with `k2`" -/
theorem wk_ctr_two_keys_getElem (P : BlockPerm) (k k2 iv : Bytes) (pos : Nat) (pt : Bytes) (i : Nat)
    (h : i < (ctrApply P k2 iv pos (ctrApply P k iv pos pt)).length) (h2 : i < pt.length) :
    (ctrApply P k2 iv pos (ctrApply P k iv pos pt))[i]
      = pt[i] ^^^ ctrKeystream P k iv (pos + i) ^^^ ctrKeystream P k2 iv (pos + i) := by
  rw [wk_ctrApply_getElem P k2 iv pos _ i h (by rw [ctrApply_length]; exact h2),
    wk_ctrApply_getElem P k iv pos pt i (by rw [ctrApply_length]; exact h2) h2]

/-- **CTR, wrong key, at any stream position**: the second key undoes the first exactly when
    the two keystreams coincide on the positions covered by the data. -/
theorem wk_ctr_wrong_key_iff_pos (P : BlockPerm) (k k2 iv : Bytes) (pos : Nat) (pt : Bytes) :
    ctrApply P k2 iv pos (ctrApply P k iv pos pt) = pt ↔
      ∀ i, i < pt.length → ctrKeystream P k iv (pos + i) = ctrKeystream P k2 iv (pos + i) := by
  constructor
  · intro h i hi
    have hl : i < (ctrApply P k2 iv pos (ctrApply P k iv pos pt)).length := by
      rw [ctrApply_length, ctrApply_length]; exact hi
    have hg := wk_ctr_two_keys_getElem P k k2 iv pos pt i hl hi
    have he : (ctrApply P k2 iv pos (ctrApply P k iv pos pt))[i] = pt[i] := by
      simp only [h]
    rw [he] at hg
    exact (wk_xor_xor_eq_self_iff _ _ _).mp hg.symm
  · intro h
    apply List.ext_getElem
    · rw [ctrApply_length, ctrApply_length]
    · intro i h1 h2
      rw [wk_ctr_two_keys_getElem P k k2 iv pos pt i h1 h2]
      exact (wk_xor_xor_eq_self_iff _ _ _).mpr (h i h2)

/-- If the keystreams differ at a covered position, the wrong key's output differs from the
    plaintext at that very position. -/
theorem wk_ctr_wrong_key_differs_pos (P : BlockPerm) (k k2 iv : Bytes) (pos : Nat) (pt : Bytes) (i : Nat)
    (hi : i < pt.length)
    (hne : ctrKeystream P k iv (pos + i) ≠ ctrKeystream P k2 iv (pos + i))
    (hl : i < (ctrApply P k2 iv pos (ctrApply P k iv pos pt)).length) :
    (ctrApply P k2 iv pos (ctrApply P k iv pos pt))[i] ≠ pt[i] := by
  rw [wk_ctr_two_keys_getElem P k k2 iv pos pt i hl hi]
  intro h
  exact hne ((wk_xor_xor_eq_self_iff _ _ _).mp h)

-- ---------------------------------------------------------------- the pipeline around the cipher

/-- what the builder stores for an encrypted entry: the IV, then the cipher stage's output -/
theorem wk_buildData_flatten (P : BlockPerm) (C : Compressor) (sel : CipherSel) (key iv : Bytes)
    (ws : List Bytes) (hsel : sel ≠ .none) :
    (buildData P C sel key iv ws).flatten = iv ++ (cipherWrites P sel key iv (C.comp ws)).flatten := by
  cases sel with
  | none => exact absurd rfl hsel
  | cbc => simp only [buildData, List.flatten_cons, flattenWriter_flatten maxChunkData (by decide)]
  | ctr => simp only [buildData, List.flatten_cons, flattenWriter_flatten maxChunkData (by decide)]

theorem wk_streamData_flatten (P : BlockPerm) (C : Compressor) (sel : CipherSel) (key iv : Bytes)
    (ws : List Bytes) (hsel : sel ≠ .none) :
    (streamData P C sel key iv ws).flatten = iv ++ (cipherWrites P sel key iv (C.comp ws)).flatten := by
  cases sel with
  | none => exact absurd rfl hsel
  | cbc => simp only [streamData, List.flatten_cons]
  | ctr => simp only [streamData, List.flatten_cons]

/-- reading stored data `iv ++ ct` in CTR mode, with any key -/
theorem wk_readData_ctr (P : BlockPerm) (C : Compressor) (key : Bytes) (slices : List Bytes) (iv ct : Bytes)
    (hf : slices.flatten = iv ++ ct) (hiv : iv.length = 16) :
    readData P C .ctr key slices = C.decomp (ctrApply P key iv 0 ct) := by
  have hl : ¬ (iv ++ ct).length < 16 := by rw [List.length_append]; omega
  simp only [readData, hf, if_neg hl, take_app iv ct hiv, drop_app iv ct hiv, decryptStream]

/-- reading stored data `iv ++ ct` in CBC mode, with any key -/
theorem wk_readData_cbc (P : BlockPerm) (C : Compressor) (key : Bytes) (slices : List Bytes) (iv ct : Bytes)
    (hf : slices.flatten = iv ++ ct) (hiv : iv.length = 16) :
    readData P C .cbc key slices =
      (match cbcDecrypt P key iv ct with
       | .ok plain => C.decomp plain
       | .error e => .error e
       | .panic s => .panic s) := by
  have hl : ¬ (iv ++ ct).length < 16 := by rw [List.length_append]; omega
  simp only [readData, hf, if_neg hl, take_app iv ct hiv, drop_app iv ct hiv, decryptStream]
  cases cbcDecrypt P key iv ct <;> rfl

/-- a CTR entry written with `k` (any codec, any partition) and read with `k2`: the codec sees
    the double keystream application -/
theorem wk_ctr_read_build (P : BlockPerm) (C : Compressor) (k k2 iv : Bytes) (hiv : iv.length = 16)
    (ws : List Bytes) :
    readData P C .ctr k2 (buildData P C .ctr k iv ws)
      = C.decomp (ctrApply P k2 iv 0 (ctrApply P k iv 0 (C.comp ws).flatten)) := by
  rw [wk_readData_ctr P C k2 _ iv _ (wk_buildData_flatten P C .ctr k iv ws (by decide)) hiv]
  simp only [cipherWrites, ctrWriterRun_flatten]

theorem wk_ctr_read_stream (P : BlockPerm) (C : Compressor) (k k2 iv : Bytes) (hiv : iv.length = 16)
    (ws : List Bytes) :
    readData P C .ctr k2 (streamData P C .ctr k iv ws)
      = C.decomp (ctrApply P k2 iv 0 (ctrApply P k iv 0 (C.comp ws).flatten)) := by
  rw [wk_readData_ctr P C k2 _ iv _ (wk_streamData_flatten P C .ctr k iv ws (by decide)) hiv]
  simp only [cipherWrites, ctrWriterRun_flatten]

/-- The reference layers never panic, so `readData` does not either (for any key and any stored
    bytes) as long as the codec does not. -/
theorem wk_readData_no_panic (P : BlockPerm) (C : Compressor) (hC : ∀ b m, C.decomp b ≠ .panic m)
    (sel : CipherSel) (key : Bytes) (slices : List Bytes) (m : String) :
    readData P C sel key slices ≠ .panic m := by
  cases sel with
  | none => exact hC _ m
  | cbc =>
    simp only [readData, decryptStream]
    split
    · intro h; cases h
    · cases hd : cbcDecrypt P key (slices.flatten.take 16) (slices.flatten.drop 16) with
      | ok p => exact hC p m
      | error e => intro h; cases h
      | panic s => exact absurd hd (cbcr_cbcDecrypt_no_panic P key _ _ s)
  | ctr =>
    simp only [readData, decryptStream]
    split
    · intro h; cases h
    · exact hC _ m

-- ---------------------------------------------------------------- CBC: bytes and padding

/-- XOR with the same mask of the same length is injective. -/
theorem wk_xorBytes_cancel_right (a : Bytes) : ∀ (b c : Bytes), a.length = c.length → b.length = c.length →
    xorBytes a c = xorBytes b c → a = b := by
  induction a with
  | nil =>
    intro b c ha hb _
    have : b.length = 0 := by rw [hb, ← ha]; rfl
    exact (List.eq_nil_of_length_eq_zero this).symm
  | cons x a ih =>
    intro b c ha hb h
    cases c with
    | nil => simp at ha
    | cons z c =>
      cases b with
      | nil => simp at hb
      | cons y b =>
        unfold xorBytes at h
        simp only [List.zipWith_cons_cons, List.cons.injEq] at h
        have hxy : x = y := (UInt8.xor_left_inj z).mp h.1
        have hab : a = b := ih b c (by simpa using ha) (by simpa using hb) h.2
        rw [hxy, hab]

/-- PKCS#7 unpadding of a full block is injective: the block is the padding of what it yields. -/
theorem wk_pkcs7Unpad_inv (blk t : Bytes) (hl : blk.length = 16) (h : pkcs7Unpad blk = some t) :
    blk = pkcs7PadBlock t := by
  unfold pkcs7Unpad at h
  cases hg : blk.getLast? with
  | none => rw [hg] at h; cases h
  | some last =>
    rw [hg] at h
    simp only [hl] at h
    split at h
    · cases h
    · rename_i hc
      split at h
      · rename_i hall
        have ht : t = blk.take (16 - last.toNat) := by injection h with h; exact h.symm
        have hn1 : 1 ≤ last.toNat := by omega
        have hn16 : last.toNat ≤ 16 := by omega
        have htl : t.length = 16 - last.toNat := by rw [ht, List.length_take, hl]; omega
        have hsub : 16 - t.length = last.toNat := by omega
        have hdrop : blk.drop (16 - last.toNat) = List.replicate last.toNat last := by
          rw [List.eq_replicate_iff]
          refine ⟨by rw [List.length_drop, hl]; omega, ?_⟩
          intro b hb
          have := List.all_eq_true.mp hall b hb
          exact eq_of_beq this
        unfold pkcs7PadBlock
        rw [hsub, UInt8.ofNat_toNat, ← hdrop, ht, List.take_append_drop]
      · cases h

-- ---------------------------------------------------------------- CBC: the unpadding tail is injective

theorem wk_cbcrFinish_nil : cbcrFinish [] = .error .eof := rfl

/-- Two lists of full plaintext blocks of the same length that finish to the same message are
    equal: the message determines every block, the padded one included. -/
theorem wk_cbcrFinish_inj (L : List Bytes) : ∀ (L2 : List Bytes) (m : Bytes), L.length = L2.length →
    (∀ b ∈ L, b.length = 16) → (∀ b ∈ L2, b.length = 16) →
    cbcrFinish L = .ok m → cbcrFinish L2 = .ok m → L = L2 := by
  induction L with
  | nil =>
    intro L2 m hlen _ _ _ _
    exact (List.eq_nil_of_length_eq_zero hlen.symm).symm
  | cons p L ih =>
    intro L2 m hlen h1 h2 f1 f2
    cases L2 with
    | nil => simp at hlen
    | cons q L2 =>
      have hp : p.length = 16 := h1 p List.mem_cons_self
      have hq : q.length = 16 := h2 q List.mem_cons_self
      have hlen2 : L.length = L2.length := by simpa using hlen
      by_cases hL : L = []
      · subst hL
        have hL2 : L2 = [] := List.eq_nil_of_length_eq_zero hlen2.symm
        subst hL2
        rw [cbcrFinish_single] at f1 f2
        cases hu : pkcs7Unpad p with
        | none => rw [hu] at f1; cases f1
        | some t =>
          cases hv : pkcs7Unpad q with
          | none => rw [hv] at f2; cases f2
          | some u =>
            rw [hu] at f1; rw [hv] at f2
            simp only [Outcome.ok.injEq] at f1 f2
            subst f1; subst f2
            rw [wk_pkcs7Unpad_inv p _ hp hu, wk_pkcs7Unpad_inv q _ hq hv]
      · have hL2 : L2 ≠ [] := by
          intro h0; subst h0; exact hL (List.eq_nil_of_length_eq_zero hlen2)
        rw [cbcrFinish_cons _ _ hL] at f1
        rw [cbcrFinish_cons _ _ hL2] at f2
        cases hr : cbcrFinish L with
        | error e => rw [hr] at f1; cases f1
        | panic s => rw [hr] at f1; cases f1
        | ok r =>
          cases hr2 : cbcrFinish L2 with
          | error e => rw [hr2] at f2; cases f2
          | panic s => rw [hr2] at f2; cases f2
          | ok r2 =>
            rw [hr, cbcrPre_ok] at f1
            rw [hr2, cbcrPre_ok] at f2
            simp only [Outcome.ok.injEq] at f1 f2
            have hpq := List.append_inj (f1.trans f2.symm) (by rw [hp, hq])
            have hrr : r = r2 := hpq.2
            subst hrr
            rw [hpq.1, ih L2 r hlen2 (fun b hb => h1 b (List.mem_cons_of_mem _ hb))
              (fun b hb => h2 b (List.mem_cons_of_mem _ hb)) hr hr2]

-- ---------------------------------------------------------------- CBC: block decryption under two keys

theorem wk_cbcDecBlocks_length (P : BlockPerm) (k : Bytes) (cs : List Bytes) :
    ∀ chain : Bytes, (cbcDecBlocks P k chain cs).length = cs.length := by
  induction cs with
  | nil => intro _; rfl
  | cons c cs ih => intro chain; simp only [cbcDecBlocks, List.length_cons, ih]

/-- decrypting full blocks gives full blocks (for a length-preserving `D`) -/
theorem wk_cbcDecBlocks_all16 (P : BlockPerm) (k : Bytes)
    (hD : ∀ b : Bytes, b.length = 16 → (P.D k b).length = 16) (cs : List Bytes) :
    ∀ chain : Bytes, chain.length = 16 → (∀ c ∈ cs, c.length = 16) →
      ∀ b ∈ cbcDecBlocks P k chain cs, b.length = 16 := by
  induction cs with
  | nil => intro _ _ _ b hb; cases hb
  | cons c cs ih =>
    intro chain hch hall b hb
    have hc : c.length = 16 := hall c List.mem_cons_self
    simp only [cbcDecBlocks] at hb
    rcases List.mem_cons.mp hb with rfl | hb
    · rw [cbcr_xorBytes_length, hD c hc, hch]; rfl
    · exact ih c hc (fun x hx => hall x (List.mem_cons_of_mem _ hx)) b hb

/-- **Two keys give the same CBC plaintext blocks exactly when their decryptors agree on every
    cipher-text block** (full blocks, length-preserving decryptors). -/
theorem wk_cbcDecBlocks_eq_iff (P : BlockPerm) (k k2 : Bytes)
    (hD : ∀ b : Bytes, b.length = 16 → (P.D k b).length = 16)
    (hD2 : ∀ b : Bytes, b.length = 16 → (P.D k2 b).length = 16) (cs : List Bytes) :
    ∀ chain : Bytes, chain.length = 16 → (∀ c ∈ cs, c.length = 16) →
      (cbcDecBlocks P k2 chain cs = cbcDecBlocks P k chain cs ↔ ∀ c ∈ cs, P.D k2 c = P.D k c) := by
  induction cs with
  | nil => intro _ _ _; simp [cbcDecBlocks]
  | cons c cs ih =>
    intro chain hch hall
    have hc : c.length = 16 := hall c List.mem_cons_self
    have ih1 := ih c hc (fun x hx => hall x (List.mem_cons_of_mem _ hx))
    simp only [cbcDecBlocks, List.cons.injEq, List.mem_cons, forall_eq_or_imp]
    rw [ih1]
    constructor
    · intro ⟨hx, hr⟩
      exact ⟨wk_xorBytes_cancel_right _ _ chain (by rw [hD2 c hc, hch]) (by rw [hD c hc, hch]) hx, hr⟩
    · intro ⟨hx, hr⟩
      exact ⟨by rw [hx], hr⟩

/-- the reference decryption of a non-empty list of full blocks -/
theorem wk_cbcDecrypt_flatten (P : BlockPerm) (k iv : Bytes) (cs : List Bytes) (hne : cs ≠ [])
    (hall : ∀ c ∈ cs, c.length = 16) :
    cbcDecrypt P k iv cs.flatten = cbcrFinish (cbcDecBlocks P k iv cs) := by
  have hlen := cbcr_flatten_length cs hall
  have hpos : 0 < cs.length := List.length_pos_iff.mpr hne
  rw [cbcr_cbcDecrypt_eq, if_neg (by rw [hlen]; omega), cbcr_toBlocks_flatten cs hall]

/-- on a non-empty list the unpadding tail either fails with `InvalidData` or succeeds -/
theorem wk_cbcrFinish_cases (L : List Bytes) (hne : L ≠ []) :
    cbcrFinish L = .error .invalidData ∨ ∃ b, cbcrFinish L = .ok b := by
  unfold cbcrFinish
  cases hg : L.getLast? with
  | none => exact absurd (List.getLast?_eq_none_iff.mp hg) hne
  | some last =>
    simp only []
    cases pkcs7Unpad last with
    | none => exact Or.inl rfl
    | some t => exact Or.inr ⟨_, rfl⟩

-- ---------------------------------------------------------------- CBC: what the writer produced

/-- The cipher-text blocks the CBC writer emits: non-empty, full, and under the writer's own
    key they decrypt (block-wise) to the padded message and finish to the message. -/
theorem wk_cbcWriterRun_facts (P : BlockPerm) (hP : P.Lawful) (k iv : Bytes) (hiv : iv.length = 16)
    (ws : List Bytes) :
    cbcWriterRun P k iv ws ≠ [] ∧ (∀ c ∈ cbcWriterRun P k iv ws, c.length = 16) ∧
    cbcrFinish (cbcDecBlocks P k iv (cbcWriterRun P k iv ws)) = .ok ws.flatten := by
  obtain ⟨hpm, hpp⟩ := cbcr_pkcs7Pad_length ws.flatten
  have hall := cbcr_toBlocks_all16 _ (pkcs7Pad ws.flatten) (Nat.le_refl _) hpm
  obtain ⟨h1, h2, h3⟩ := cbcr_dec_enc P hP k (toBlocks (pkcs7Pad ws.flatten)) iv hiv hall
  have hbl : 0 < (toBlocks (pkcs7Pad ws.flatten)).length := by
    rw [cbcr_toBlocks_ne _ (List.length_pos_iff.mp hpp)]
    simp
  rw [cbcWriterRun_eq]
  refine ⟨?_, h2, ?_⟩
  · apply List.length_pos_iff.mp; rw [h3]; exact hbl
  · rw [h1]; exact cbcr_finish_pad _ ws.flatten (Nat.le_refl _)

/-- **CBC, wrong key, reference level**: the second key decrypts what the writer produced under
    `k` to the original message exactly when `D k2` and `D k` agree on every written block. -/
theorem wk_cbc_wrong_key_iff (P : BlockPerm) (hP : P.Lawful) (k k2 iv : Bytes) (hiv : iv.length = 16)
    (ws : List Bytes) :
    cbcDecrypt P k2 iv (cbcWriterRun P k iv ws).flatten = .ok ws.flatten ↔
      ∀ c ∈ cbcWriterRun P k iv ws, P.D k2 c = P.D k c := by
  obtain ⟨hne, hall, hfin⟩ := wk_cbcWriterRun_facts P hP k iv hiv ws
  rw [wk_cbcDecrypt_flatten P k2 iv _ hne hall,
    ← wk_cbcDecBlocks_eq_iff P k k2 (hP.lenD k) (hP.lenD k2) _ iv hiv hall]
  constructor
  · intro h
    exact wk_cbcrFinish_inj _ _ ws.flatten
      (by rw [wk_cbcDecBlocks_length, wk_cbcDecBlocks_length])
      (wk_cbcDecBlocks_all16 P k2 (hP.lenD k2) _ iv hiv hall)
      (wk_cbcDecBlocks_all16 P k (hP.lenD k) _ iv hiv hall) h hfin
  · intro h
    rw [h]; exact hfin

/-- with the wrong key the reference decryption of a written stream can only fail at the padding -/
theorem wk_cbc_wrong_key_cases (P : BlockPerm) (hP : P.Lawful) (k k2 iv : Bytes) (hiv : iv.length = 16)
    (ws : List Bytes) :
    cbcDecrypt P k2 iv (cbcWriterRun P k iv ws).flatten = .error .invalidData ∨
      ∃ b, cbcDecrypt P k2 iv (cbcWriterRun P k iv ws).flatten = .ok b := by
  obtain ⟨hne, hall, _⟩ := wk_cbcWriterRun_facts P hP k iv hiv ws
  rw [wk_cbcDecrypt_flatten P k2 iv _ hne hall]
  apply wk_cbcrFinish_cases
  apply List.length_pos_iff.mp
  rw [wk_cbcDecBlocks_length]
  exact List.length_pos_iff.mpr hne

end Pna
