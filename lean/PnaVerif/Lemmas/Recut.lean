import PnaVerif.Lemmas.Split
import PnaVerif.Lemmas.ArchiveRt
/-!
  Re-cutting of data chunks (property C03, entry and archive level).

  Two chunk lists are "the same up to the cutting of data chunks" iff their `streamView`s are equal.
  This file shows that the entry parsers, the item grouping and the item parser cannot tell such
  lists apart (under the hypothesis that a normal entry carries no SDAT and a solid entry no FDAT,
  which is necessary: see `Props/C03Recut.lean`).

  Method: every function is compared with itself on the canonical representative `streamView xs`;
  the two-sided statements then follow by symmetry and transitivity.
-/
namespace Pna
open ChunkType

-- ---------------------------------------------------------------- the relations

/-- same normal entry up to the cutting of its data -/
def SameN (a b : NormalEntry) : Prop :=
  a.header = b.header ∧ a.phsf = b.phsf ∧ a.extra = b.extra ∧ a.md = b.md ∧ a.xattrs = b.xattrs ∧
    a.data.flatten = b.data.flatten

/-- same solid entry up to the cutting of its data -/
def SameS (a b : SolidEntry) : Prop :=
  a.header = b.header ∧ a.phsf = b.phsf ∧ a.extra = b.extra ∧ a.data.flatten = b.data.flatten

def SameE : ReadEntry → ReadEntry → Prop
  | .normal a, .normal b => SameN a b
  | .solid a, .solid b => SameS a b
  | _, _ => False

/-- same outcome: both ok with related values, both the same error, or both a panic -/
def OutcomeRel {α : Type} (R : α → α → Prop) : Outcome α → Outcome α → Prop
  | .ok a, .ok b => R a b
  | .error e, .error f => e = f
  | .panic _, .panic _ => True
  | _, _ => False

instance (a b : NormalEntry) : Decidable (SameN a b) := by unfold SameN; infer_instance
instance (a b : SolidEntry) : Decidable (SameS a b) := by unfold SameS; infer_instance
instance (a b : ReadEntry) : Decidable (SameE a b) := by
  cases a <;> cases b <;> simp only [SameE] <;> infer_instance
instance {α : Type} (R : α → α → Prop) [∀ a b, Decidable (R a b)] (x y : Outcome α) :
    Decidable (OutcomeRel R x y) := by
  cases x <;> cases y <;> simp only [OutcomeRel] <;> infer_instance

theorem SameN.refl (a : NormalEntry) : SameN a a := ⟨rfl, rfl, rfl, rfl, rfl, rfl⟩
theorem SameN.symm {a b : NormalEntry} (h : SameN a b) : SameN b a :=
  ⟨h.1.symm, h.2.1.symm, h.2.2.1.symm, h.2.2.2.1.symm, h.2.2.2.2.1.symm, h.2.2.2.2.2.symm⟩
theorem SameN.trans {a b c : NormalEntry} (h : SameN a b) (g : SameN b c) : SameN a c :=
  ⟨h.1.trans g.1, h.2.1.trans g.2.1, h.2.2.1.trans g.2.2.1, h.2.2.2.1.trans g.2.2.2.1,
    h.2.2.2.2.1.trans g.2.2.2.2.1, h.2.2.2.2.2.trans g.2.2.2.2.2⟩

theorem SameS.refl (a : SolidEntry) : SameS a a := ⟨rfl, rfl, rfl, rfl⟩
theorem SameS.symm {a b : SolidEntry} (h : SameS a b) : SameS b a :=
  ⟨h.1.symm, h.2.1.symm, h.2.2.1.symm, h.2.2.2.symm⟩
theorem SameS.trans {a b c : SolidEntry} (h : SameS a b) (g : SameS b c) : SameS a c :=
  ⟨h.1.trans g.1, h.2.1.trans g.2.1, h.2.2.1.trans g.2.2.1, h.2.2.2.trans g.2.2.2⟩

theorem SameE.refl (a : ReadEntry) : SameE a a := by
  cases a with
  | normal e => exact SameN.refl e
  | solid s => exact SameS.refl s
theorem SameE.symm {a b : ReadEntry} (h : SameE a b) : SameE b a := by
  cases a <;> cases b <;> simp only [SameE] at h ⊢
  · exact h.symm
  · exact h.symm
theorem SameE.trans {a b c : ReadEntry} (h : SameE a b) (g : SameE b c) : SameE a c := by
  cases a <;> cases b <;> cases c <;> simp only [SameE] at h g ⊢
  · exact h.trans g
  · exact h.trans g

theorem OutcomeRel.refl {α : Type} {R : α → α → Prop} (hR : ∀ a, R a a) (x : Outcome α) :
    OutcomeRel R x x := by
  cases x with
  | ok a => exact hR a
  | error e => exact rfl
  | panic s => exact True.intro
theorem OutcomeRel.symm {α : Type} {R : α → α → Prop} (hR : ∀ a b, R a b → R b a) {x y : Outcome α}
    (h : OutcomeRel R x y) : OutcomeRel R y x := by
  cases x <;> cases y <;> simp only [OutcomeRel] at h ⊢
  · exact hR _ _ h
  · exact h.symm
theorem OutcomeRel.trans {α : Type} {R : α → α → Prop} (hR : ∀ a b c, R a b → R b c → R a c)
    {x y z : Outcome α} (h : OutcomeRel R x y) (g : OutcomeRel R y z) : OutcomeRel R x z := by
  cases x <;> cases y <;> cases z <;> simp only [OutcomeRel] at h g ⊢
  · exact hR _ _ _ h g
  · exact h.trans g
theorem OutcomeRel.of_eq {α : Type} {R : α → α → Prop} (hR : ∀ a, R a a) {x y : Outcome α}
    (h : x = y) : OutcomeRel R x y := h ▸ OutcomeRel.refl hR x
theorem OutcomeRel.mono {α : Type} {R S : α → α → Prop} (hRS : ∀ a b, R a b → S a b)
    {x y : Outcome α} (h : OutcomeRel R x y) : OutcomeRel S x y := by
  cases x <;> cases y <;> simp only [OutcomeRel] at h ⊢
  · exact hRS _ _ h
  · exact h

@[simp] theorem OutcomeRel_ok {α : Type} (R : α → α → Prop) (a b : α) :
    OutcomeRel R (.ok a) (.ok b) = R a b := rfl
@[simp] theorem OutcomeRel_error {α : Type} (R : α → α → Prop) (e f : Err) :
    OutcomeRel R (.error e) (.error f) = (e = f) := rfl
@[simp] theorem OutcomeRel_panic {α : Type} (R : α → α → Prop) (s t : String) :
    OutcomeRel R (.panic s) (.panic t) = True := rfl

/-- `map'` is monotone for `OutcomeRel` -/
theorem OutcomeRel.map {α β : Type} {R : α → α → Prop} {S : β → β → Prop} (f : α → β)
    (hf : ∀ a b, R a b → S (f a) (f b)) {x y : Outcome α} (h : OutcomeRel R x y) :
    OutcomeRel S (x.map' f) (y.map' f) := by
  cases x <;> cases y <;> simp only [OutcomeRel, Outcome.map'] at h ⊢
  · exact hf _ _ h
  · exact h

-- ---------------------------------------------------------------- normal entries: accumulators

def OptRel {α : Type} (R : α → α → Prop) : Option α → Option α → Prop
  | some a, some b => R a b
  | none, none => True
  | _, _ => False

/-- same parser state up to the cutting of the data seen so far -/
def AccRelN (a b : NAcc) : Prop :=
  a.info = b.info ∧ a.phsf = b.phsf ∧ a.extra = b.extra ∧ a.xattrs = b.xattrs ∧ a.size = b.size ∧
    a.ctime = b.ctime ∧ a.mtime = b.mtime ∧ a.atime = b.atime ∧ a.perm = b.perm ∧
    a.data.reverse.flatten = b.data.reverse.flatten

theorem AccRelN.refl (a : NAcc) : AccRelN a a := ⟨rfl, rfl, rfl, rfl, rfl, rfl, rfl, rfl, rfl, rfl⟩
theorem AccRelN.symm {a b : NAcc} (h : AccRelN a b) : AccRelN b a := by
  obtain ⟨h1, h2, h3, h4, h5, h6, h7, h8, h9, h10⟩ := h
  exact ⟨h1.symm, h2.symm, h3.symm, h4.symm, h5.symm, h6.symm, h7.symm, h8.symm, h9.symm, h10.symm⟩
theorem AccRelN.trans {a b c : NAcc} (h : AccRelN a b) (g : AccRelN b c) : AccRelN a c := by
  obtain ⟨h1, h2, h3, h4, h5, h6, h7, h8, h9, h10⟩ := h
  obtain ⟨g1, g2, g3, g4, g5, g6, g7, g8, g9, g10⟩ := g
  exact ⟨h1.trans g1, h2.trans g2, h3.trans g3, h4.trans g4, h5.trans g5, h6.trans g6, h7.trans g7,
    h8.trans g8, h9.trans g9, h10.trans g10⟩

theorem nStep_rel {a b : NAcc} (h : AccRelN a b) (c : Chunk) :
    OutcomeRel (OptRel AccRelN) (nStep a c) (nStep b c) := by
  obtain ⟨h1, h2, h3, h4, h5, h6, h7, h8, h9, h10⟩ := h
  unfold nStep
  by_cases c1 : c.ty = FEND
  · simp only [if_pos c1]; exact True.intro
  simp only [if_neg c1]
  by_cases c2 : c.ty = FHED
  · simp only [if_pos c2]
    cases decFHED c.data <;> simp [OptRel, AccRelN, *]
  simp only [if_neg c2]
  by_cases c3 : c.ty = PHSF
  · simp only [if_pos c3]
    split <;> simp [OptRel, AccRelN, *]
  simp only [if_neg c3]
  by_cases c4 : c.ty = FDAT
  · simp only [if_pos c4]
    simp [OptRel, AccRelN, *]
  simp only [if_neg c4]
  by_cases c5 : c.ty = fSIZ
  · simp only [if_pos c5]
    simp [OptRel, AccRelN, *]
  simp only [if_neg c5]
  by_cases c6 : c.ty = cTIM
  · simp only [if_pos c6]
    cases decTime c.data <;> simp [OptRel, AccRelN, *]
  simp only [if_neg c6]
  by_cases c7 : c.ty = mTIM
  · simp only [if_pos c7]
    cases decTime c.data <;> simp [OptRel, AccRelN, *]
  simp only [if_neg c7]
  by_cases c8 : c.ty = aTIM
  · simp only [if_pos c8]
    cases decTime c.data <;> simp [OptRel, AccRelN, *]
  simp only [if_neg c8]
  by_cases c9 : c.ty = fPRM
  · simp only [if_pos c9]
    cases decFPRM c.data <;> simp [OptRel, AccRelN, *]
  simp only [if_neg c9]
  by_cases c10 : c.ty = xATR
  · simp only [if_pos c10]
    cases decXATR c.data <;> simp [OptRel, AccRelN, *]
  simp only [if_neg c10]
  simp [OptRel, AccRelN, *]

theorem nLoop_rel {a b : NAcc} (h : AccRelN a b) (cs : List Chunk) :
    OutcomeRel AccRelN (nLoop a cs) (nLoop b cs) := by
  induction cs generalizing a b with
  | nil => exact h
  | cons c cs ih =>
    have hs := nStep_rel h c
    simp only [nLoop]
    revert hs
    cases nStep a c with
    | error e => cases nStep b c <;> simp [OutcomeRel]
    | panic s => cases nStep b c <;> simp [OutcomeRel]
    | ok o =>
      cases nStep b c with
      | error e => simp [OutcomeRel]
      | panic s => simp [OutcomeRel]
      | ok p =>
        cases o <;> cases p <;> simp only [OutcomeRel, OptRel, false_implies, true_implies]
        · exact h
        · exact fun h2 => ih h2

theorem isStream_cases {c : Chunk} (h : c.isStream = true) : c.ty = FDAT ∨ c.ty = SDAT := by
  simpa [Chunk.isStream, ChunkType.isStream] using h

/-- merging the first two FDAT chunks is invisible to the normal-entry loop -/
theorem nLoop_svStep {a b : NAcc} (h : AccRelN a b) (c : Chunk) (hc : c.ty ≠ SDAT) (Z : List Chunk) :
    OutcomeRel AccRelN (nLoop a (c :: Z)) (nLoop b (svStep c Z)) := by
  cases Z with
  | nil => exact nLoop_rel h [c]
  | cons d ds =>
    by_cases hm : c.isStream ∧ c.ty = d.ty
    · rw [svStep_cons_pos hm]
      have hcF : c.ty = FDAT := (isStream_cases hm.1).resolve_right hc
      obtain ⟨ct, cd⟩ := c
      obtain ⟨dt, dd⟩ := d
      simp only at hcF hm
      obtain rfl : dt = FDAT := hm.2.symm.trans hcF
      subst hcF
      rw [nLoop_cons_some _ (nStep_FDAT a cd), nLoop_cons_some _ (nStep_FDAT _ dd),
        nLoop_cons_some _ (nStep_FDAT b (cd ++ dd))]
      apply nLoop_rel
      obtain ⟨h1, h2, h3, h4, h5, h6, h7, h8, h9, h10⟩ := h
      refine ⟨h1, h2, h3, h4, h5, h6, h7, h8, h9, ?_⟩
      simp only [List.reverse_cons, List.flatten_append, List.flatten_cons, List.flatten_nil,
        List.append_nil, List.append_assoc, h10]
    · rw [svStep_cons_neg hm]
      exact nLoop_rel h _

/-- the normal-entry loop cannot tell a chunk list from its canonical form -/
theorem nLoop_streamView (cs : List Chunk) (hcs : ∀ c ∈ cs, c.ty ≠ SDAT) {a b : NAcc} (h : AccRelN a b) :
    OutcomeRel AccRelN (nLoop a cs) (nLoop b (streamView cs)) := by
  induction cs generalizing a b with
  | nil => exact h
  | cons c cs ih =>
    rw [streamView_cons]
    have hc : c.ty ≠ SDAT := hcs c (by simp)
    have hcs2 : ∀ c ∈ cs, c.ty ≠ SDAT := fun x hx => hcs x (by simp [hx])
    refine OutcomeRel.trans (R := AccRelN) (fun _ _ _ h g => AccRelN.trans h g) (y := nLoop b (c :: streamView cs)) ?_ (nLoop_svStep (AccRelN.refl b) c hc _)
    have hs := nStep_rel h c
    simp only [nLoop]
    revert hs
    cases nStep a c with
    | error e => cases nStep b c <;> simp [OutcomeRel]
    | panic s => cases nStep b c <;> simp [OutcomeRel]
    | ok o =>
      cases nStep b c with
      | error e => simp [OutcomeRel]
      | panic s => simp [OutcomeRel]
      | ok p =>
        cases o <;> cases p <;> simp only [OutcomeRel, OptRel, false_implies, true_implies]
        · exact h
        · exact fun h2 => ih hcs2 h2

-- ---------------------------------------------------------------- normal entries: parseN

theorem svStep_head_ty (c : Chunk) (Z : List Chunk) : (svStep c Z).head?.map (·.ty) = some c.ty := by
  cases Z with
  | nil => rfl
  | cons d ds =>
    by_cases hm : c.isStream ∧ c.ty = d.ty
    · rw [svStep_cons_pos hm]; rfl
    · rw [svStep_cons_neg hm]; rfl

/-- the type of the first chunk is not affected by merging -/
theorem streamView_head_ty (cs : List Chunk) : (streamView cs).head?.map (·.ty) = cs.head?.map (·.ty) := by
  cases cs with
  | nil => rfl
  | cons c cs => rw [streamView_cons, svStep_head_ty]; rfl

/-- the part of `parseN` after the loop -/
def finishN : Outcome NAcc → Outcome NormalEntry
  | .error e => .error e
  | .panic s => .panic s
  | .ok a =>
    match a.info with
    | none => .error .invalidData
    | some h =>
      if h.major ≠ 0 ∨ h.minor ≠ 0 then .error .unsupported
      else .ok { header := h, phsf := a.phsf, extra := a.extra.reverse, data := a.data.reverse,
                 md := { rawSize := a.size, created := a.ctime, modified := a.mtime,
                           accessed := a.atime, permission := a.perm },
                 xattrs := a.xattrs.reverse }

theorem parseN_go_eq (raw : List Chunk) : parseN.go raw = finishN (nLoop {} raw) := by
  unfold parseN.go finishN
  cases nLoop {} raw <;> rfl

theorem finishN_rel {x y : Outcome NAcc} (h : OutcomeRel AccRelN x y) :
    OutcomeRel SameN (finishN x) (finishN y) := by
  cases x with
  | error e => cases y <;> simp only [OutcomeRel] at h; subst h; exact rfl
  | panic s => cases y <;> simp only [OutcomeRel] at h; exact True.intro
  | ok a =>
    cases y with
    | error e => simp only [OutcomeRel] at h
    | panic s => simp only [OutcomeRel] at h
    | ok b =>
      obtain ⟨h1, h2, h3, h4, h5, h6, h7, h8, h9, h10⟩ := h
      simp only [finishN, ← h1]
      cases a.info with
      | none => exact rfl
      | some hd =>
        simp only
        by_cases hv : hd.major ≠ 0 ∨ hd.minor ≠ 0
        · simp only [if_pos hv]; exact rfl
        · simp only [if_neg hv]
          exact ⟨rfl, h2, by simp only [h3], by simp only [h5, h6, h7, h8, h9], by simp only [h4], h10⟩

/-- the dispatch on the first chunk, in terms of its type only -/
theorem parseN_eq (raw : List Chunk) :
    parseN raw = match raw.head?.map (·.ty) with
      | some t => if t ≠ ChunkType.FHED then .error .invalidData else finishN (nLoop {} raw)
      | none => finishN (nLoop {} raw) := by
  unfold parseN
  rw [parseN_go_eq]
  cases raw.head? <;> rfl

/-- `parseN` cannot tell a chunk list without SDAT from its canonical form -/
theorem parseN_streamView (a : List Chunk) (ha : ∀ c ∈ a, c.ty ≠ SDAT) :
    OutcomeRel SameN (parseN a) (parseN (streamView a)) := by
  rw [parseN_eq, parseN_eq, streamView_head_ty]
  have hl := finishN_rel (nLoop_streamView a ha (AccRelN.refl {}))
  cases a.head?.map (·.ty) with
  | none => exact hl
  | some t =>
    simp only
    by_cases ht : t ≠ ChunkType.FHED
    · simp only [if_pos ht]; exact rfl
    · simp only [if_neg ht]; exact hl

/-- **parseN is independent of the cutting of FDAT chunks** -/
theorem parseN_recut_aux (a b : List Chunk) (ha : ∀ c ∈ a, c.ty ≠ SDAT) (hb : ∀ c ∈ b, c.ty ≠ SDAT)
    (h : streamView a = streamView b) : OutcomeRel SameN (parseN a) (parseN b) := by
  have h1 := parseN_streamView a ha
  have h2 := parseN_streamView b hb
  rw [h] at h1
  exact OutcomeRel.trans (R := SameN) (fun _ _ _ p q => SameN.trans p q) h1
    (OutcomeRel.symm (R := SameN) (fun _ _ p => SameN.symm p) h2)

-- ---------------------------------------------------------------- solid entries

def AccRelS (a b : SAcc) : Prop :=
  a.info = b.info ∧ a.phsf = b.phsf ∧ a.extra = b.extra ∧ a.data.reverse.flatten = b.data.reverse.flatten

theorem AccRelS.refl (a : SAcc) : AccRelS a a := ⟨rfl, rfl, rfl, rfl⟩
theorem AccRelS.symm {a b : SAcc} (h : AccRelS a b) : AccRelS b a :=
  ⟨h.1.symm, h.2.1.symm, h.2.2.1.symm, h.2.2.2.symm⟩
theorem AccRelS.trans {a b c : SAcc} (h : AccRelS a b) (g : AccRelS b c) : AccRelS a c :=
  ⟨h.1.trans g.1, h.2.1.trans g.2.1, h.2.2.1.trans g.2.2.1, h.2.2.2.trans g.2.2.2⟩

theorem sStep_rel {a b : SAcc} (h : AccRelS a b) (c : Chunk) :
    OutcomeRel (OptRel AccRelS) (sStep a c) (sStep b c) := by
  obtain ⟨h1, h2, h3, h4⟩ := h
  unfold sStep
  by_cases c1 : c.ty = SEND
  · simp only [if_pos c1]; exact True.intro
  simp only [if_neg c1]
  by_cases c2 : c.ty = SHED
  · simp only [if_pos c2]
    cases decSHED c.data <;> simp [OptRel, AccRelS, *]
  simp only [if_neg c2]
  by_cases c3 : c.ty = SDAT
  · simp only [if_pos c3]
    simp [OptRel, AccRelS, *]
  simp only [if_neg c3]
  by_cases c4 : c.ty = PHSF
  · simp only [if_pos c4]
    split <;> simp [OptRel, AccRelS, *]
  simp only [if_neg c4]
  simp [OptRel, AccRelS, *]

theorem sLoop_rel {a b : SAcc} (h : AccRelS a b) (cs : List Chunk) :
    OutcomeRel AccRelS (sLoop a cs) (sLoop b cs) := by
  induction cs generalizing a b with
  | nil => exact h
  | cons c cs ih =>
    have hs := sStep_rel h c
    simp only [sLoop]
    revert hs
    cases sStep a c with
    | error e => cases sStep b c <;> simp [OutcomeRel]
    | panic s => cases sStep b c <;> simp [OutcomeRel]
    | ok o =>
      cases sStep b c with
      | error e => simp [OutcomeRel]
      | panic s => simp [OutcomeRel]
      | ok p =>
        cases o <;> cases p <;> simp only [OutcomeRel, OptRel, false_implies, true_implies]
        · exact h
        · exact fun h2 => ih h2

/-- merging the first two SDAT chunks is invisible to the solid-entry loop -/
theorem sLoop_svStep {a b : SAcc} (h : AccRelS a b) (c : Chunk) (hc : c.ty ≠ FDAT) (Z : List Chunk) :
    OutcomeRel AccRelS (sLoop a (c :: Z)) (sLoop b (svStep c Z)) := by
  cases Z with
  | nil => exact sLoop_rel h [c]
  | cons d ds =>
    by_cases hm : c.isStream ∧ c.ty = d.ty
    · rw [svStep_cons_pos hm]
      have hcS : c.ty = SDAT := (isStream_cases hm.1).resolve_left hc
      obtain ⟨ct, cd⟩ := c
      obtain ⟨dt, dd⟩ := d
      simp only at hcS hm
      obtain rfl : dt = SDAT := hm.2.symm.trans hcS
      subst hcS
      rw [sLoop_cons_some _ (sStep_SDAT a cd), sLoop_cons_some _ (sStep_SDAT _ dd),
        sLoop_cons_some _ (sStep_SDAT b (cd ++ dd))]
      apply sLoop_rel
      obtain ⟨h1, h2, h3, h4⟩ := h
      refine ⟨h1, h2, h3, ?_⟩
      simp only [List.reverse_cons, List.flatten_append, List.flatten_cons, List.flatten_nil,
        List.append_nil, List.append_assoc, h4]
    · rw [svStep_cons_neg hm]
      exact sLoop_rel h _

theorem sLoop_streamView (cs : List Chunk) (hcs : ∀ c ∈ cs, c.ty ≠ FDAT) {a b : SAcc} (h : AccRelS a b) :
    OutcomeRel AccRelS (sLoop a cs) (sLoop b (streamView cs)) := by
  induction cs generalizing a b with
  | nil => exact h
  | cons c cs ih =>
    rw [streamView_cons]
    have hc : c.ty ≠ FDAT := hcs c (by simp)
    have hcs2 : ∀ c ∈ cs, c.ty ≠ FDAT := fun x hx => hcs x (by simp [hx])
    refine OutcomeRel.trans (R := AccRelS) (fun _ _ _ h g => AccRelS.trans h g)
      (y := sLoop b (c :: streamView cs)) ?_ (sLoop_svStep (AccRelS.refl b) c hc _)
    have hs := sStep_rel h c
    simp only [sLoop]
    revert hs
    cases sStep a c with
    | error e => cases sStep b c <;> simp [OutcomeRel]
    | panic s => cases sStep b c <;> simp [OutcomeRel]
    | ok o =>
      cases sStep b c with
      | error e => simp [OutcomeRel]
      | panic s => simp [OutcomeRel]
      | ok p =>
        cases o <;> cases p <;> simp only [OutcomeRel, OptRel, false_implies, true_implies]
        · exact h
        · exact fun h2 => ih hcs2 h2

/-- the part of `parseS` after the loop -/
def finishS : Outcome SAcc → Outcome SolidEntry
  | .error e => .error e
  | .panic s => .panic s
  | .ok a =>
    match a.info with
    | none => .error .invalidData
    | some h => .ok { header := h, phsf := a.phsf, data := a.data.reverse, extra := a.extra.reverse }

theorem parseS_go_eq (raw : List Chunk) : parseS.go raw = finishS (sLoop {} raw) := by
  unfold parseS.go finishS
  cases sLoop {} raw <;> rfl

theorem finishS_rel {x y : Outcome SAcc} (h : OutcomeRel AccRelS x y) :
    OutcomeRel SameS (finishS x) (finishS y) := by
  cases x with
  | error e => cases y <;> simp only [OutcomeRel] at h; subst h; exact rfl
  | panic s => cases y <;> simp only [OutcomeRel] at h; exact True.intro
  | ok a =>
    cases y with
    | error e => simp only [OutcomeRel] at h
    | panic s => simp only [OutcomeRel] at h
    | ok b =>
      obtain ⟨h1, h2, h3, h4⟩ := h
      simp only [finishS, ← h1]
      cases a.info with
      | none => exact rfl
      | some hd => exact ⟨rfl, h2, by simp only [h3], h4⟩

theorem parseS_eq (raw : List Chunk) :
    parseS raw = match raw.head?.map (·.ty) with
      | some t => if t ≠ ChunkType.SHED then .error .invalidData else finishS (sLoop {} raw)
      | none => finishS (sLoop {} raw) := by
  unfold parseS
  rw [parseS_go_eq]
  cases raw.head? <;> rfl

/-- `parseS` cannot tell a chunk list without FDAT from its canonical form -/
theorem parseS_streamView (a : List Chunk) (ha : ∀ c ∈ a, c.ty ≠ FDAT) :
    OutcomeRel SameS (parseS a) (parseS (streamView a)) := by
  rw [parseS_eq, parseS_eq, streamView_head_ty]
  have hl := finishS_rel (sLoop_streamView a ha (AccRelS.refl {}))
  cases a.head?.map (·.ty) with
  | none => exact hl
  | some t =>
    simp only
    by_cases ht : t ≠ ChunkType.SHED
    · simp only [if_pos ht]; exact rfl
    · simp only [if_neg ht]; exact hl

/-- **parseS is independent of the cutting of SDAT chunks** -/
theorem parseS_recut_aux (a b : List Chunk) (ha : ∀ c ∈ a, c.ty ≠ FDAT) (hb : ∀ c ∈ b, c.ty ≠ FDAT)
    (h : streamView a = streamView b) : OutcomeRel SameS (parseS a) (parseS b) := by
  have h1 := parseS_streamView a ha
  have h2 := parseS_streamView b hb
  rw [h] at h1
  exact OutcomeRel.trans (R := SameS) (fun _ _ _ p q => SameS.trans p q) h1
    (OutcomeRel.symm (R := SameS) (fun _ _ p => SameS.symm p) h2)

-- ---------------------------------------------------------------- either kind of entry

/-- an item does not carry the data chunks of the other kind: a normal entry (first chunk FHED) has no
    SDAT chunk, a solid entry (first chunk SHED) has no FDAT chunk -/
def Unmixed (it : List Chunk) : Prop :=
  ∀ c0, it.head? = some c0 →
    (c0.ty = ChunkType.FHED → ∀ c ∈ it, c.ty ≠ ChunkType.SDAT) ∧
    (c0.ty = ChunkType.SHED → ∀ c ∈ it, c.ty ≠ ChunkType.FDAT)

instance (it : List Chunk) : Decidable (Unmixed it) := by
  unfold Unmixed
  cases it with
  | nil => exact isTrue (by intro c0 h; cases h)
  | cons c cs =>
    exact decidable_of_iff
      ((c.ty = ChunkType.FHED → ∀ x ∈ c :: cs, x.ty ≠ ChunkType.SDAT) ∧
        (c.ty = ChunkType.SHED → ∀ x ∈ c :: cs, x.ty ≠ ChunkType.FDAT))
      ⟨fun h c0 hc0 => by
        simp only [List.head?_cons, Option.some.injEq] at hc0; subst hc0; exact h,
       fun h => h c rfl⟩

theorem parseEntry_eq (raw : List Chunk) :
    parseEntry raw = match raw.head?.map (·.ty) with
      | none => .error .invalidData
      | some t =>
        if t = ChunkType.SHED then (parseS raw).map' .solid
        else if t = ChunkType.FHED then (parseN raw).map' .normal
        else .error .invalidData := by
  unfold parseEntry
  cases raw.head? <;> rfl

theorem Unmixed.normal {it : List Chunk} (h : Unmixed it) (ht : it.head?.map (·.ty) = some ChunkType.FHED) :
    ∀ c ∈ it, c.ty ≠ ChunkType.SDAT := by
  cases it with
  | nil => simp at ht
  | cons c0 rest =>
    simp only [List.head?_cons, Option.map_some, Option.some.injEq] at ht
    exact (h c0 rfl).1 ht

theorem Unmixed.solid {it : List Chunk} (h : Unmixed it) (ht : it.head?.map (·.ty) = some ChunkType.SHED) :
    ∀ c ∈ it, c.ty ≠ ChunkType.FDAT := by
  cases it with
  | nil => simp at ht
  | cons c0 rest =>
    simp only [List.head?_cons, Option.map_some, Option.some.injEq] at ht
    exact (h c0 rfl).2 ht

/-- **parseEntry is independent of the cutting of data chunks** -/
theorem parseEntry_recut_aux (a b : List Chunk) (ua : Unmixed a) (ub : Unmixed b)
    (h : streamView a = streamView b) : OutcomeRel SameE (parseEntry a) (parseEntry b) := by
  have hh : a.head?.map (·.ty) = b.head?.map (·.ty) := by
    rw [← streamView_head_ty a, ← streamView_head_ty b, h]
  rw [parseEntry_eq, parseEntry_eq]
  cases hta : a.head?.map (·.ty) with
  | none => rw [← hh, hta]; exact rfl
  | some t =>
    rw [← hh, hta]
    simp only
    by_cases hs : t = ChunkType.SHED
    · simp only [if_pos hs]
      subst hs
      exact OutcomeRel.map (R := SameS) (S := SameE) ReadEntry.solid (fun _ _ p => p)
        (parseS_recut_aux a b (ua.solid hta) (ub.solid (hh ▸ hta)) h)
    · simp only [if_neg hs]
      by_cases hf : t = ChunkType.FHED
      · simp only [if_pos hf]
        subst hf
        exact OutcomeRel.map (R := SameN) (S := SameE) ReadEntry.normal (fun _ _ p => p)
          (parseN_recut_aux a b (ua.normal hta) (ub.normal (hh ▸ hta)) h)
      · simp only [if_neg hf]; exact rfl

-- ---------------------------------------------------------------- pointwise relation on lists

/-- two lists of the same length, related position by position -/
inductive All2 {α : Type} (R : α → α → Prop) : List α → List α → Prop
  | nil : All2 R [] []
  | cons {a b : α} {as bs : List α} : R a b → All2 R as bs → All2 R (a :: as) (b :: bs)

theorem All2.refl {α : Type} {R : α → α → Prop} (hR : ∀ a, R a a) (l : List α) : All2 R l l := by
  induction l with
  | nil => exact .nil
  | cons a l ih => exact .cons (hR a) ih

theorem All2.symm {α : Type} {R : α → α → Prop} (hR : ∀ a b, R a b → R b a) {l m : List α}
    (h : All2 R l m) : All2 R m l := by
  induction h with
  | nil => exact .nil
  | cons h _ ih => exact .cons (hR _ _ h) ih

theorem All2.trans {α : Type} {R : α → α → Prop} (hR : ∀ a b c, R a b → R b c → R a c) {l m n : List α}
    (h : All2 R l m) (g : All2 R m n) : All2 R l n := by
  induction h generalizing n with
  | nil => cases g; exact .nil
  | cons h _ ih =>
    cases g with
    | cons g1 g2 => exact .cons (hR _ _ _ h g1) (ih g2)

theorem All2.length_eq {α : Type} {R : α → α → Prop} {l m : List α} (h : All2 R l m) :
    l.length = m.length := by
  induction h with
  | nil => rfl
  | cons _ _ ih => simp only [List.length_cons, ih]

theorem All2.getElem {α : Type} {R : α → α → Prop} {l m : List α} (h : All2 R l m) (k : Nat)
    (h1 : k < l.length) (h2 : k < m.length) : R l[k] m[k] := by
  induction h generalizing k with
  | nil => simp at h1
  | cons h _ ih =>
    cases k with
    | zero => exact h
    | succ k => exact ih k (by simpa using h1) (by simpa using h2)

theorem All2.mono {α : Type} {R S : α → α → Prop} {l m : List α} (h : All2 R l m)
    (hRS : ∀ a b, a ∈ l → b ∈ m → R a b → S a b) : All2 S l m := by
  induction h with
  | nil => exact .nil
  | cons h _ ih =>
    exact .cons (hRS _ _ (by simp) (by simp) h)
      (ih (fun a b ha hb => hRS a b (List.mem_cons_of_mem _ ha) (List.mem_cons_of_mem _ hb)))

-- ---------------------------------------------------------------- grouping

/-- same chunk list up to the cutting of data chunks -/
def SvEq (x y : List Chunk) : Prop := streamView x = streamView y

theorem SvEq.refl (x : List Chunk) : SvEq x x := rfl
theorem SvEq.symm {x y : List Chunk} (h : SvEq x y) : SvEq y x := Eq.symm h
theorem SvEq.trans {x y z : List Chunk} (h : SvEq x y) (g : SvEq y z) : SvEq x z := Eq.trans h g
theorem SvEq.append {x y u v : List Chunk} (h : SvEq x y) (g : SvEq u v) : SvEq (x ++ u) (y ++ v) :=
  (streamView_congr_left u h).trans (streamView_congr_right y g)
theorem SvEq.streamView (x : List Chunk) : SvEq x (streamView x) := (streamView_idem x).symm

/-- result of `groupItems`: items, carry, continuation flag, "AEND seen" -/
abbrev GRes := List (List Chunk) × List Chunk × Bool × Bool

/-- same grouping result up to the cutting of data chunks -/
def GRel (r s : GRes) : Prop :=
  All2 SvEq r.1 s.1 ∧ SvEq r.2.1 s.2.1 ∧ r.2.2.1 = s.2.2.1 ∧ r.2.2.2 = s.2.2.2

theorem GRel.refl (r : GRes) : GRel r r := ⟨All2.refl SvEq.refl _, rfl, rfl, rfl⟩
theorem GRel.symm {r s : GRes} (h : GRel r s) : GRel s r :=
  ⟨All2.symm (R := SvEq) (fun _ _ p => SvEq.symm p) h.1, h.2.1.symm, h.2.2.1.symm, h.2.2.2.symm⟩
theorem GRel.trans {r s t : GRes} (h : GRel r s) (g : GRel s t) : GRel r t :=
  ⟨All2.trans (R := SvEq) (fun _ _ _ p q => SvEq.trans p q) h.1 g.1, h.2.1.trans g.2.1, h.2.2.1.trans g.2.2.1,
    h.2.2.2.trans g.2.2.2⟩
theorem GRel.consItem {r s : GRes} {i j : List Chunk} (hij : SvEq i j) (h : GRel r s) :
    GRel (i :: r.1, r.2.1, r.2.2.1, r.2.2.2) (j :: s.1, s.2.1, s.2.2.1, s.2.2.2) :=
  ⟨.cons hij h.1, h.2.1, h.2.2.1, h.2.2.2⟩

theorem groupItems_anxt (cur : List Chunk) (nx : Bool) (c : Chunk) (cs : List Chunk)
    (h1 : ¬ (c.ty = FEND ∨ c.ty = SEND)) (h2 : c.ty = ANXT) :
    groupItems cur nx (c :: cs) = groupItems cur true cs := by
  rw [groupItems, if_neg h1, if_pos h2]

theorem groupItems_aend (cur : List Chunk) (nx : Bool) (c : Chunk) (cs : List Chunk)
    (h1 : ¬ (c.ty = FEND ∨ c.ty = SEND)) (h2 : c.ty ≠ ANXT) (h3 : c.ty = AEND) :
    groupItems cur nx (c :: cs) = ([], cur, nx, true) := by
  rw [groupItems, if_neg h1, if_neg h2, if_pos h3]

theorem groupItems_other (cur : List Chunk) (nx : Bool) (c : Chunk) (cs : List Chunk)
    (h1 : ¬ (c.ty = FEND ∨ c.ty = SEND)) (h2 : c.ty ≠ ANXT) (h3 : c.ty ≠ AEND) :
    groupItems cur nx (c :: cs) = groupItems (cur ++ [c]) nx cs := by
  rw [groupItems, if_neg h1, if_neg h2, if_neg h3]

theorem stream_not_marker {c : Chunk} (h : c.isStream = true) :
    ¬ (c.ty = FEND ∨ c.ty = SEND) ∧ c.ty ≠ ANXT ∧ c.ty ≠ AEND := by
  rcases isStream_cases h with h | h <;> rw [h] <;> decide

/-- one step of `groupItems` on both sides, the same chunk in front of related rests -/
theorem groupItems_step {cur₁ cur₂ : List Chunk} (hc : SvEq cur₁ cur₂) (nx : Bool) (c : Chunk)
    (xs ys : List Chunk)
    (ih : ∀ (k₁ k₂ : List Chunk) (n : Bool), SvEq k₁ k₂ → GRel (groupItems k₁ n xs) (groupItems k₂ n ys)) :
    GRel (groupItems cur₁ nx (c :: xs)) (groupItems cur₂ nx (c :: ys)) := by
  by_cases h1 : c.ty = FEND ∨ c.ty = SEND
  · rw [groupItems_close _ _ _ _ h1, groupItems_close _ _ _ _ h1]
    exact GRel.consItem (hc.append (SvEq.refl [c])) (ih [] [] nx (SvEq.refl []))
  · by_cases h2 : c.ty = ANXT
    · rw [groupItems_anxt _ _ _ _ h1 h2, groupItems_anxt _ _ _ _ h1 h2]
      exact ih _ _ _ hc
    · by_cases h3 : c.ty = AEND
      · rw [groupItems_aend _ _ _ _ h1 h2 h3, groupItems_aend _ _ _ _ h1 h2 h3]
        exact ⟨.nil, hc, rfl, rfl⟩
      · rw [groupItems_other _ _ _ _ h1 h2 h3, groupItems_other _ _ _ _ h1 h2 h3]
        exact ih _ _ _ (hc.append (SvEq.refl [c]))

/-- grouping depends on the carry only up to the cutting of data chunks -/
theorem groupItems_rel_cur (xs : List Chunk) : ∀ (cur₁ cur₂ : List Chunk) (nx : Bool), SvEq cur₁ cur₂ →
    GRel (groupItems cur₁ nx xs) (groupItems cur₂ nx xs) := by
  induction xs with
  | nil => intro cur₁ cur₂ nx hc; exact ⟨.nil, hc, rfl, rfl⟩
  | cons c xs ih => intro cur₁ cur₂ nx hc; exact groupItems_step hc nx c xs xs ih

/-- merging the first two chunks is invisible to grouping -/
theorem groupItems_svStep {cur₁ cur₂ : List Chunk} (hc : SvEq cur₁ cur₂) (nx : Bool) (c : Chunk)
    (Z : List Chunk) : GRel (groupItems cur₁ nx (c :: Z)) (groupItems cur₂ nx (svStep c Z)) := by
  cases Z with
  | nil => exact groupItems_rel_cur [c] _ _ nx hc
  | cons d ds =>
    by_cases hm : c.isStream ∧ c.ty = d.ty
    · rw [svStep_cons_pos hm]
      obtain ⟨c1, c2, c3⟩ := stream_not_marker hm.1
      have hd : d.isStream = true := by
        have := hm.1; simp only [Chunk.isStream] at this ⊢; rw [← hm.2]; exact this
      obtain ⟨d1, d2, d3⟩ := stream_not_marker hd
      rw [groupItems_other _ _ _ _ c1 c2 c3, groupItems_other _ _ _ _ d1 d2 d3,
        groupItems_other _ _ ⟨c.ty, c.data ++ d.data⟩ _ c1 c2 c3, List.append_assoc]
      apply groupItems_rel_cur
      apply hc.append
      show streamView ([c] ++ [d]) = streamView [⟨c.ty, c.data ++ d.data⟩]
      simp only [List.cons_append, List.nil_append, streamView_cons, streamView_nil]
      exact svStep_merge' c d [] hm.1 hm.2
    · rw [svStep_cons_neg hm]
      exact groupItems_rel_cur _ _ _ nx hc

/-- grouping cannot tell a chunk list from its canonical form -/
theorem groupItems_streamView (xs : List Chunk) : ∀ (cur₁ cur₂ : List Chunk) (nx : Bool), SvEq cur₁ cur₂ →
    GRel (groupItems cur₁ nx xs) (groupItems cur₂ nx (streamView xs)) := by
  induction xs with
  | nil => intro cur₁ cur₂ nx hc; exact ⟨.nil, hc, rfl, rfl⟩
  | cons c xs ih =>
    intro cur₁ cur₂ nx hc
    rw [streamView_cons]
    exact (groupItems_step hc nx c xs (streamView xs) ih).trans
      (groupItems_svStep (SvEq.refl cur₂) nx c (streamView xs))

/-- **grouping commutes with re-cutting** (general form: related carries, related inputs) -/
theorem groupItems_recut_aux (cur₁ cur₂ : List Chunk) (nx : Bool) (xs ys : List Chunk)
    (hc : streamView cur₁ = streamView cur₂) (h : streamView xs = streamView ys) :
    GRel (groupItems cur₁ nx xs) (groupItems cur₂ nx ys) := by
  have h1 := groupItems_streamView xs cur₁ cur₂ nx hc
  have h2 := groupItems_streamView ys cur₂ cur₂ nx (SvEq.refl _)
  rw [h] at h1
  exact h1.trans h2.symm

-- ---------------------------------------------------------------- items and archives

/-- item parsing commutes with re-cutting: same entries (up to the cutting of their data), same end -/
theorem parseItems_rel {its₁ its₂ : List (List Chunk)} (h : All2 SvEq its₁ its₂)
    (u₁ : ∀ it ∈ its₁, Unmixed it) (u₂ : ∀ it ∈ its₂, Unmixed it) :
    All2 SameE (parseItems its₁).1 (parseItems its₂).1 ∧
      OutcomeRel (fun _ _ => True) (parseItems its₁).2 (parseItems its₂).2 := by
  induction h with
  | nil => exact ⟨.nil, True.intro⟩
  | @cons a b as bs hab _ ih =>
    have hr := parseEntry_recut_aux a b (u₁ a (by simp)) (u₂ b (by simp)) hab
    have ih2 := ih (fun it hit => u₁ it (by simp [hit])) (fun it hit => u₂ it (by simp [hit]))
    simp only [parseItems]
    revert hr
    cases parseEntry a with
    | error e =>
      cases parseEntry b <;> simp only [OutcomeRel, false_implies]
      intro he; exact ⟨.nil, he⟩
    | panic s =>
      cases parseEntry b <;> simp only [OutcomeRel, false_implies]
      intro _; exact ⟨.nil, True.intro⟩
    | ok e =>
      cases parseEntry b <;> simp only [OutcomeRel, false_implies]
      intro he; exact ⟨.cons he ih2.1, ih2.2⟩

/-- a body without AEND followed by AEND: the grouping of the body, with the "ended" flag set -/
theorem groupItems_append_aend (xs : List Chunk) (hno : ∀ c ∈ xs, c.ty ≠ AEND) : ∀ (cur : List Chunk) (nx : Bool),
    groupItems cur nx (xs ++ [⟨AEND, []⟩]) =
      ((groupItems cur nx xs).1, (groupItems cur nx xs).2.1, (groupItems cur nx xs).2.2.1, true) := by
  induction xs with
  | nil =>
    intro cur nx
    rw [List.nil_append, groupItems_aend _ _ _ _ (by decide) (by decide) rfl]
    rfl
  | cons c xs ih =>
    intro cur nx
    have ih2 := ih (fun x hx => hno x (by simp [hx]))
    have h3 : c.ty ≠ AEND := hno c (by simp)
    rw [List.cons_append]
    by_cases h1 : c.ty = FEND ∨ c.ty = SEND
    · rw [groupItems_close _ _ _ _ h1, groupItems_close _ _ _ _ h1, ih2]
    · by_cases h2 : c.ty = ANXT
      · rw [groupItems_anxt _ _ _ _ h1 h2, groupItems_anxt _ _ _ _ h1 h2, ih2]
      · rw [groupItems_other _ _ _ _ h1 h2 h3, groupItems_other _ _ _ _ h1 h2 h3, ih2]

/-- bytes of a one-part archive whose body (the chunks between AHED and AEND) is `xs` -/
def encodeBody (n : Nat) (xs : List Chunk) : Bytes :=
  signature ++ encodeChunks ([⟨ChunkType.AHED, encAHED ⟨0, 0, n⟩⟩] ++ xs ++ [⟨ChunkType.AEND, []⟩])

theorem chunksStream_encodeBody (n : Nat) (xs : List Chunk) (hfit : ChunksFit xs)
    (hno : ∀ c ∈ xs, c.ty ≠ AEND) :
    chunksStream (encodeBody n xs)
      = (⟨ChunkType.AHED, encAHED ⟨0, 0, n⟩⟩ :: (xs ++ [⟨ChunkType.AEND, []⟩]), .ok ()) := by
  unfold encodeBody
  rw [encodeChunks_append, encodeChunks_singleton]
  have := chunksStream_encode ([⟨ChunkType.AHED, encAHED ⟨0, 0, n⟩⟩] ++ xs) [] ?_ ?_
  · rw [List.append_nil] at this
    rw [← List.append_assoc, this]
    simp
  · intro c hc
    simp only [List.mem_append, List.mem_singleton] at hc
    rcases hc with rfl | hc
    · simp [encAHED_length]
    · exact hfit c hc
  · intro c hc
    simp only [List.mem_append, List.mem_singleton] at hc
    rcases hc with rfl | hc
    · show AHED ≠ AEND
      decide
    · exact hno c hc

/-- reading such an archive: group the body, parse the items -/
theorem readArchiveStream_encodeBody (n : Nat) (hn : n < 2 ^ 32) (xs : List Chunk) (hfit : ChunksFit xs)
    (hno : ∀ c ∈ xs, c.ty ≠ AEND) :
    readArchiveStream (encodeBody n xs)
      = { header := some ⟨0, 0, n⟩, rawItems := (groupItems [] false xs).1,
          entries := (parseItems (groupItems [] false xs).1).1,
          status := (match (parseItems (groupItems [] false xs).1).2 with | .ok _ => .ok () | o => o),
          carry := (groupItems [] false xs).2.1, next := (groupItems [] false xs).2.2.1 } := by
  unfold readArchiveStream readArchiveWith
  rw [chunksStream_encodeBody n xs hfit hno]
  simp only
  rw [if_neg (by simp), decAHED_encAHED ⟨0, 0, n⟩ (show (0 : Nat) < 256 by decide) (show (0 : Nat) < 256 by decide) hn]
  simp only
  rw [groupItems_append_aend xs hno]
  rfl

/-- `compressed_size` is the length of the concatenated data -/
theorem compressedSize_eq (e : NormalEntry) : e.compressedSize = e.data.flatten.length := by
  rw [NormalEntry.compressedSize, List.length_flatten]

theorem SameN.compressedSize {a b : NormalEntry} (h : SameN a b) : a.compressedSize = b.compressedSize := by
  rw [compressedSize_eq, compressedSize_eq, h.2.2.2.2.2]

end Pna
