import PnaVerif.Model.Cipher
import PnaVerif.Lemmas.Chunk
/-! CBC decrypting reader (`CbcR`): schedule independence, liveness, absence of panics, and the
    reference round trip `cbcDecrypt ∘ cbcEncrypt = id`.

    Every helper is prefixed `cbcr_` so that the file can be imported next to the writer lemmas. -/
namespace Pna

-- ---------------------------------------------------------------- blocks

theorem cbcr_toBlocks_nil : toBlocks [] = [] := by
  unfold toBlocks; rw [rustChunks]; simp

theorem cbcr_toBlocks_ne (bs : Bytes) (h : bs ≠ []) :
    toBlocks bs = bs.take 16 :: toBlocks (bs.drop 16) := by
  unfold toBlocks
  rw [rustChunks]
  simp [h]

theorem cbcr_toBlocks_append16 (a rest : Bytes) (h : a.length = 16) :
    toBlocks (a ++ rest) = a :: toBlocks rest := by
  have hne : a ++ rest ≠ [] := by
    intro h0
    have := congrArg List.length h0
    rw [List.length_append, h] at this
    simp at this
  rw [cbcr_toBlocks_ne _ hne, take_app _ _ h, drop_app _ _ h]

/-- When the length is a multiple of 16 every block is full. -/
theorem cbcr_toBlocks_all16 (n : Nat) : ∀ (bs : Bytes), bs.length ≤ n → bs.length % 16 = 0 →
    ∀ b ∈ toBlocks bs, b.length = 16 := by
  induction n with
  | zero =>
    intro bs hn _ b hb
    have : bs = [] := List.eq_nil_of_length_eq_zero (by omega)
    subst this
    rw [cbcr_toBlocks_nil] at hb; cases hb
  | succ n ih =>
    intro bs hn hm b hb
    by_cases hnil : bs = []
    · subst hnil; rw [cbcr_toBlocks_nil] at hb; cases hb
    · have hpos : 0 < bs.length := List.length_pos_iff.mpr hnil
      rw [cbcr_toBlocks_ne _ hnil] at hb
      rcases List.mem_cons.mp hb with rfl | hb
      · rw [List.length_take]; omega
      · exact ih (bs.drop 16) (by rw [List.length_drop]; omega) (by rw [List.length_drop]; omega) b hb

/-- Otherwise there is a short block. -/
theorem cbcr_toBlocks_short (n : Nat) : ∀ (bs : Bytes), bs.length ≤ n → bs.length % 16 ≠ 0 →
    ∃ b ∈ toBlocks bs, b.length ≠ 16 := by
  induction n with
  | zero =>
    intro bs hn hm
    have : bs.length = 0 := by omega
    rw [this] at hm; exact absurd rfl hm
  | succ n ih =>
    intro bs hn hm
    have hnil : bs ≠ [] := by
      intro h0; subst h0; exact hm rfl
    rw [cbcr_toBlocks_ne _ hnil]
    by_cases hlt : bs.length < 16
    · exact ⟨bs.take 16, List.mem_cons_self, by rw [List.length_take]; omega⟩
    · obtain ⟨b, hb, hl⟩ := ih (bs.drop 16) (by rw [List.length_drop]; omega)
        (by rw [List.length_drop]; omega)
      exact ⟨b, List.mem_cons_of_mem _ hb, hl⟩

theorem cbcr_flatten_length (L : List Bytes) (h : ∀ b ∈ L, b.length = 16) :
    L.flatten.length = 16 * L.length := by
  induction L with
  | nil => rfl
  | cons a L ih =>
    rw [List.flatten_cons, List.length_append, List.length_cons,
      ih (fun b hb => h b (List.mem_cons_of_mem _ hb)), h a List.mem_cons_self]
    omega

theorem cbcr_toBlocks_flatten (L : List Bytes) (h : ∀ b ∈ L, b.length = 16) :
    toBlocks L.flatten = L := by
  induction L with
  | nil => exact cbcr_toBlocks_nil
  | cons a L ih =>
    rw [List.flatten_cons, cbcr_toBlocks_append16 _ _ (h a List.mem_cons_self),
      ih (fun b hb => h b (List.mem_cons_of_mem _ hb))]

-- ---------------------------------------------------------------- outcome plumbing

/-- Prefix a successful outcome with already-delivered bytes. -/
def cbcrPre (pre : Bytes) : Outcome Bytes → Outcome Bytes
  | .ok r => .ok (pre ++ r)
  | .error e => .error e
  | .panic m => .panic m

@[simp] theorem cbcrPre_ok (p r : Bytes) : cbcrPre p (.ok r) = .ok (p ++ r) := rfl
@[simp] theorem cbcrPre_error (p : Bytes) (e : Err) : cbcrPre p (.error e) = .error e := rfl
@[simp] theorem cbcrPre_panic (p : Bytes) (m : String) : cbcrPre p (.panic m) = .panic m := rfl

theorem cbcrPre_nil (x : Outcome Bytes) : cbcrPre [] x = x := by
  cases x <;> simp [cbcrPre]

theorem cbcrPre_append (a b : Bytes) (x : Outcome Bytes) :
    cbcrPre (a ++ b) x = cbcrPre a (cbcrPre b x) := by
  cases x <;> simp [cbcrPre]

/-- The tail of `cbcDecrypt`: unpad the last plaintext block. -/
def cbcrFinish (blocks : List Bytes) : Outcome Bytes :=
  match blocks.getLast? with
  | none => .error .eof
  | some last =>
    match pkcs7Unpad last with
    | none => .error .invalidData
    | some tail => .ok (blocks.dropLast.flatten ++ tail)

theorem cbcr_cbcDecrypt_eq (P : BlockPerm) (k iv ct : Bytes) :
    cbcDecrypt P k iv ct =
      if ct.length = 0 ∨ ct.length % 16 ≠ 0 then .error .eof
      else cbcrFinish (cbcDecBlocks P k iv (toBlocks ct)) := rfl

theorem cbcrFinish_single (p : Bytes) :
    cbcrFinish [p] = match pkcs7Unpad p with
      | none => .error .invalidData
      | some t => .ok t := by
  unfold cbcrFinish
  simp only [List.getLast?_singleton, List.dropLast_singleton, List.flatten_nil, List.nil_append]

theorem cbcrFinish_cons (p : Bytes) (L : List Bytes) (h : L ≠ []) :
    cbcrFinish (p :: L) = cbcrPre p (cbcrFinish L) := by
  obtain ⟨a, L', rfl⟩ := List.exists_cons_of_ne_nil h
  unfold cbcrFinish
  rw [List.getLast?_cons_cons, List.dropLast_cons_cons]
  cases (a :: L').getLast? with
  | none => rfl
  | some last =>
    simp only []
    cases pkcs7Unpad last with
    | none => rfl
    | some t => simp [cbcrPre]

/-- Block-level reference for the reader: `buf` is the look-ahead ciphertext block, `chain`
    the previous one, and the list holds the blocks still in the inner reader. -/
def cbcrRefB (P : BlockPerm) (k : Bytes) (chain buf : Bytes) : List Bytes → Outcome Bytes
  | [] =>
    match pkcs7Unpad (xorBytes (P.D k buf) chain) with
    | none => .error .invalidData
    | some t => .ok t
  | nb :: rest =>
    if nb.length ≠ 16 then .error .eof
    else cbcrPre (xorBytes (P.D k buf) chain) (cbcrRefB P k buf nb rest)

theorem cbcrRefB_short (P : BlockPerm) (k : Bytes) (bs : List Bytes) :
    ∀ (chain buf : Bytes), (∃ b ∈ bs, b.length ≠ 16) → cbcrRefB P k chain buf bs = .error .eof := by
  induction bs with
  | nil => intro _ _ ⟨b, hb, _⟩; cases hb
  | cons nb rest ih =>
    intro chain buf ⟨b, hb, hl⟩
    unfold cbcrRefB
    by_cases h16 : nb.length ≠ 16
    · rw [if_pos h16]
    · rw [if_neg h16]
      rcases List.mem_cons.mp hb with rfl | hb
      · exact absurd hl h16
      · rw [ih buf nb ⟨b, hb, hl⟩]; rfl

theorem cbcrRefB_full (P : BlockPerm) (k : Bytes) (bs : List Bytes) :
    ∀ (chain buf : Bytes), (∀ b ∈ bs, b.length = 16) →
      cbcrRefB P k chain buf bs = cbcrFinish (cbcDecBlocks P k chain (buf :: bs)) := by
  induction bs with
  | nil =>
    intro chain buf _
    unfold cbcrRefB
    simp only [cbcDecBlocks]
    rw [cbcrFinish_single]
  | cons nb rest ih =>
    intro chain buf h
    unfold cbcrRefB
    have h16 : ¬ nb.length ≠ 16 := by
      have := h nb List.mem_cons_self; omega
    rw [if_neg h16, ih buf nb (fun b hb => h b (List.mem_cons_of_mem _ hb))]
    conv => rhs; rw [cbcDecBlocks]
    rw [cbcrFinish_cons _ _ (by simp [cbcDecBlocks])]

/-- The reference decryption, phrased for the state produced by `CbcR.new`. -/
theorem cbcr_cbcDecrypt_ref (P : BlockPerm) (k iv ct : Bytes) (h : 16 ≤ ct.length) :
    cbcDecrypt P k iv ct = cbcrRefB P k iv (ct.take 16) (toBlocks (ct.drop 16)) := by
  have hne : ct ≠ [] := by
    intro h0; subst h0; simp at h
  rw [cbcr_cbcDecrypt_eq]
  by_cases hm : ct.length % 16 = 0
  · have hc : ¬ (ct.length = 0 ∨ ct.length % 16 ≠ 0) := by omega
    rw [if_neg hc, cbcrRefB_full, ← cbcr_toBlocks_ne _ hne]
    exact cbcr_toBlocks_all16 _ _ (Nat.le_refl _) (by rw [List.length_drop]; omega)
  · have hc : ct.length = 0 ∨ ct.length % 16 ≠ 0 := Or.inr hm
    rw [if_pos hc, cbcrRefB_short]
    exact cbcr_toBlocks_short _ _ (Nat.le_refl _) (by rw [List.length_drop]; omega)

-- ---------------------------------------------------------------- one loop iteration

theorem cbcr_blocks_short (P : BlockPerm) (k : Bytes) (fuel : Nat) (s : CbcR) (need : Nat) (acc : Bytes)
    (h0 : s.inner ≠ []) (h1 : s.inner.length < 16) :
    CbcR.blocks P k (fuel + 1) s need acc = .error .eof := by
  have hpos : 0 < s.inner.length := List.length_pos_iff.mpr h0
  have hl : (s.inner.take 16).length = s.inner.length := by rw [List.length_take]; omega
  have e2 : s.inner.length ≠ 16 := by omega
  simp only [CbcR.blocks, pullBlock, hl]
  simp [h0, e2]

theorem cbcr_blocks_eof (P : BlockPerm) (k : Bytes) (fuel : Nat) (s : CbcR) (need : Nat) (acc : Bytes)
    (h0 : s.inner = []) :
    CbcR.blocks P k (fuel + 1) s need acc =
      match pkcs7Unpad (xorBytes (P.D k s.buf) s.chain) with
      | none => .error .invalidData
      | some blk =>
        .ok (⟨[], s.buf, s.remaining ++ blk.drop (min (min 16 need) blk.length), s.buf, true⟩,
             acc ++ blk.take (min (min 16 need) blk.length)) := by
  simp only [CbcR.blocks, pullBlock, h0]
  simp
  cases pkcs7Unpad (xorBytes (P.D k s.buf) s.chain) <;> simp

theorem cbcr_blocks_full (P : BlockPerm) (k : Bytes) (fuel : Nat) (s : CbcR) (need : Nat) (acc : Bytes)
    (h16 : 16 ≤ s.inner.length) :
    CbcR.blocks P k (fuel + 1) s need acc =
      if need ≤ min (min 16 need) (xorBytes (P.D k s.buf) s.chain).length then
        .ok (⟨s.inner.drop 16, s.buf,
              s.remaining ++ (xorBytes (P.D k s.buf) s.chain).drop (min (min 16 need) (xorBytes (P.D k s.buf) s.chain).length),
              s.inner.take 16, false⟩,
             acc ++ (xorBytes (P.D k s.buf) s.chain).take (min (min 16 need) (xorBytes (P.D k s.buf) s.chain).length))
      else
        CbcR.blocks P k fuel ⟨s.inner.drop 16, s.buf, s.remaining, s.inner.take 16, false⟩
          (need - min (min 16 need) (xorBytes (P.D k s.buf) s.chain).length)
          (acc ++ (xorBytes (P.D k s.buf) s.chain).take (min (min 16 need) (xorBytes (P.D k s.buf) s.chain).length)) := by
  have hl : (s.inner.take 16).length = 16 := by rw [List.length_take]; omega
  simp only [CbcR.blocks, pullBlock, hl]
  simp

-- ---------------------------------------------------------------- the invariant

/-- What the reader will still deliver from state `s` (reference semantics). -/
def cbcrFuture (P : BlockPerm) (k : Bytes) (s : CbcR) : Outcome Bytes :=
  if s.eof then .ok s.remaining
  else cbcrPre s.remaining (cbcrRefB P k s.chain s.buf (toBlocks s.inner))

/-- Upper bound on the number of plaintext bytes still to come. -/
def cbcrMeasure (s : CbcR) : Nat :=
  if s.eof then s.remaining.length else s.remaining.length + 16 + s.inner.length

/-- Post-condition of `blocks` / `read`: `ref` is the reference future before the call, `acc`
    what had been delivered before, `μ` the measure before. -/
def cbcrPost (P : BlockPerm) (k : Bytes) (ref : Outcome Bytes) (acc : Bytes) (μ : Nat) :
    Outcome (CbcR × Bytes) → Prop
  | .ok (s', acc') => ∃ out, acc' = acc ++ out ∧ ref = cbcrPre out (cbcrFuture P k s') ∧
      s'.buf.length = 16 ∧ (out = [] → s'.eof = true ∧ s'.remaining = []) ∧
      out.length + cbcrMeasure s' ≤ μ
  | .error e => ref = .error e
  | .panic _ => False

theorem cbcrPost_shift (P : BlockPerm) (k : Bytes) (ref ref' : Outcome Bytes) (acc p : Bytes)
    (μ μ' : Nat) (r : Outcome (CbcR × Bytes)) (h : cbcrPost P k ref' (acc ++ p) μ' r)
    (href : ref = cbcrPre p ref') (hμ : p.length + μ' ≤ μ) : cbcrPost P k ref acc μ r := by
  cases r with
  | ok x =>
    obtain ⟨s', acc'⟩ := x
    obtain ⟨out, h1, h2, h3, h4, h5⟩ := h
    refine ⟨p ++ out, ?_, ?_, h3, ?_, ?_⟩
    · rw [h1, List.append_assoc]
    · rw [href, h2, cbcrPre_append]
    · intro h0
      have : out = [] := (List.append_eq_nil_iff.mp h0).2
      exact h4 this
    · rw [List.length_append]; omega
  | error e =>
    show ref = .error e
    have h' : ref' = .error e := h
    rw [href, h']; rfl
  | panic m => exact h

theorem cbcr_xorBytes_length (a b : Bytes) : (xorBytes a b).length = min a.length b.length := by
  unfold xorBytes; rw [List.length_zipWith]

theorem cbcr_pkcs7Unpad_length (blk t : Bytes) (h : pkcs7Unpad blk = some t) : t.length < blk.length := by
  unfold pkcs7Unpad at h
  split at h
  · cases h
  · rename_i last _
    simp only [] at h
    split at h
    · cases h
    · rename_i hc
      split at h
      · cases h
        rw [List.length_take]; omega
      · cases h

theorem cbcr_blocks_spec (P : BlockPerm) (k : Bytes)
    (hD : ∀ b : Bytes, b.length = 16 → (P.D k b).length = 16) (fuel : Nat) :
    ∀ (s : CbcR) (need : Nat) (acc : Bytes),
      s.buf.length = 16 → s.remaining = [] → 0 < need →
      (need < fuel ∨ (s.chain.length = 16 ∧ need ≤ fuel)) →
      cbcrPost P k (cbcrRefB P k s.chain s.buf (toBlocks s.inner)) acc (16 + s.inner.length)
        (CbcR.blocks P k fuel s need acc) := by
  induction fuel with
  | zero => intro s need acc _ _ h0 hf; omega
  | succ fuel ih =>
    intro s need acc hbuf hrem hneed hfuel
    have hplen : (xorBytes (P.D k s.buf) s.chain).length = min 16 s.chain.length := by
      rw [cbcr_xorBytes_length, hD _ hbuf]
    by_cases hnil : s.inner = []
    · rw [cbcr_blocks_eof _ _ _ _ _ _ hnil, hnil, cbcr_toBlocks_nil]
      unfold cbcrRefB
      cases hu : pkcs7Unpad (xorBytes (P.D k s.buf) s.chain) with
      | none => exact rfl
      | some blk =>
        have hbl := cbcr_pkcs7Unpad_length _ _ hu
        refine ⟨blk.take (min (min 16 need) blk.length), rfl, ?_, hbuf, ?_, ?_⟩
        · simp [cbcrFuture, hrem]
        · intro h0
          have hl := congrArg List.length h0
          rw [List.length_take] at hl
          simp only [List.length_nil] at hl
          have hb0 : blk = [] := List.eq_nil_of_length_eq_zero (by omega)
          simp [hrem, hb0]
        · simp only [cbcrMeasure, hrem, List.nil_append, List.length_take, List.length_drop,
            List.length_nil, if_true]
          omega
    · have hpos : 0 < s.inner.length := List.length_pos_iff.mpr hnil
      rw [cbcr_toBlocks_ne _ hnil]
      unfold cbcrRefB
      by_cases hlt : s.inner.length < 16
      · rw [cbcr_blocks_short _ _ _ _ _ _ hnil hlt]
        have : (s.inner.take 16).length ≠ 16 := by rw [List.length_take]; omega
        rw [if_pos this]
        exact rfl
      · have h16 : 16 ≤ s.inner.length := by omega
        have : ¬ (s.inner.take 16).length ≠ 16 := by rw [List.length_take]; omega
        rw [if_neg this, cbcr_blocks_full _ _ _ _ _ _ h16]
        by_cases hw : need ≤ min (min 16 need) (xorBytes (P.D k s.buf) s.chain).length
        · rw [if_pos hw]
          refine ⟨_, rfl, ?_, ?_, ?_, ?_⟩
          · simp only [cbcrFuture, hrem, List.nil_append, Bool.false_eq_true, if_false]
            rw [← cbcrPre_append, List.take_append_drop]
          · show (s.inner.take 16).length = 16
            rw [List.length_take]; omega
          · intro h0
            have hl := congrArg List.length h0
            rw [List.length_take] at hl
            simp only [List.length_nil] at hl
            omega
          · simp only [cbcrMeasure, hrem, List.nil_append, List.length_take, List.length_drop,
              Bool.false_eq_true, if_false]
            omega
        · rw [if_neg hw]
          have hwfull : min (min 16 need) (xorBytes (P.D k s.buf) s.chain).length
              = (xorBytes (P.D k s.buf) s.chain).length := by omega
          have htake : (xorBytes (P.D k s.buf) s.chain).take
              (min (min 16 need) (xorBytes (P.D k s.buf) s.chain).length)
              = xorBytes (P.D k s.buf) s.chain := by
            rw [hwfull, List.take_length]
          rw [htake, hwfull]
          have hih := ih ⟨s.inner.drop 16, s.buf, s.remaining, s.inner.take 16, false⟩
            (need - (xorBytes (P.D k s.buf) s.chain).length) (acc ++ xorBytes (P.D k s.buf) s.chain)
            (by show (s.inner.take 16).length = 16; rw [List.length_take]; omega)
            hrem (by omega)
            (by
              show _ ∨ (s.buf.length = 16 ∧ _)
              rcases hfuel with hf | ⟨hc, hf⟩
              · right; exact ⟨hbuf, by omega⟩
              · right; refine ⟨hbuf, ?_⟩
                rw [hplen, hc]; omega)
          refine cbcrPost_shift P k _ _ acc _ _ _ _ hih rfl ?_
          show _ + (16 + (s.inner.drop 16).length) ≤ _
          rw [List.length_drop]; omega

-- ---------------------------------------------------------------- `read` and `read_to_end`

theorem cbcr_read_spec (P : BlockPerm) (k : Bytes)
    (hD : ∀ b : Bytes, b.length = 16 → (P.D k b).length = 16)
    (s : CbcR) (n : Nat) (hn : 0 < n) (hbuf : s.buf.length = 16) :
    cbcrPost P k (cbcrFuture P k s) [] (cbcrMeasure s) (s.read P k n) := by
  unfold CbcR.read
  rw [if_neg (by omega : ¬ n = 0)]
  simp only []
  have hsplit : cbcrFuture P k s = cbcrPre (s.remaining.take (min s.remaining.length n))
      (cbcrFuture P k { s with remaining := s.remaining.drop (min s.remaining.length n) }) := by
    unfold cbcrFuture
    simp only []
    by_cases he : s.eof = true
    · rw [if_pos he, if_pos he, cbcrPre_ok, List.take_append_drop]
    · rw [if_neg he, if_neg he, ← cbcrPre_append, List.take_append_drop]
  have hmeas : (s.remaining.take (min s.remaining.length n)).length
      + cbcrMeasure { s with remaining := s.remaining.drop (min s.remaining.length n) }
      ≤ cbcrMeasure s := by
    unfold cbcrMeasure
    simp only [List.length_take, List.length_drop]
    split <;> omega
  by_cases h1 : 0 < min s.remaining.length n ∧ n ≤ min s.remaining.length n
  · rw [if_pos h1]
    refine ⟨_, rfl, hsplit, hbuf, ?_, hmeas⟩
    intro h0
    have hl := congrArg List.length h0
    rw [List.length_take] at hl
    simp only [List.length_nil] at hl
    omega
  · rw [if_neg h1]
    by_cases he : s.eof = true
    · have he' : ({ s with remaining := s.remaining.drop (min s.remaining.length n) } : CbcR).eof = true := he
      rw [if_pos he']
      refine ⟨_, rfl, hsplit, hbuf, ?_, hmeas⟩
      intro h0
      have hl := congrArg List.length h0
      rw [List.length_take] at hl
      simp only [List.length_nil] at hl
      refine ⟨he, ?_⟩
      show s.remaining.drop _ = []
      apply List.eq_nil_of_length_eq_zero
      rw [List.length_drop]; omega
    · have he' : ¬ ({ s with remaining := s.remaining.drop (min s.remaining.length n) } : CbcR).eof = true := he
      rw [if_neg he']
      have hl : min s.remaining.length n = s.remaining.length := by omega
      have hdrop : s.remaining.drop (min s.remaining.length n) = [] := by
        rw [hl, List.drop_length]
      have htake : s.remaining.take (min s.remaining.length n) = s.remaining := by
        rw [hl, List.take_length]
      rw [hdrop, htake, hl]
      have hsp := cbcr_blocks_spec P k hD (n + 1) { s with remaining := [] }
        (n - s.remaining.length) s.remaining hbuf rfl (by omega) (Or.inl (by omega))
      refine cbcrPost_shift P k _ _ [] s.remaining _ _ _ hsp ?_ ?_
      · unfold cbcrFuture
        rw [if_neg he]
      · unfold cbcrMeasure
        rw [if_neg he]
        show _ + (16 + s.inner.length) ≤ _
        omega

theorem cbcr_readToEnd_spec (P : BlockPerm) (k : Bytes)
    (hD : ∀ b : Bytes, b.length = 16 → (P.D k b).length = 16)
    (sched : List Nat) (hpos : ∀ n ∈ sched, 0 < n) :
    ∀ (s : CbcR) (acc : Bytes), s.buf.length = 16 →
      (∀ x, s.readToEnd P k acc sched = some x → x = cbcrPre acc (cbcrFuture P k s)) ∧
      (cbcrMeasure s < sched.length → s.readToEnd P k acc sched ≠ none) := by
  induction sched with
  | nil =>
    intro s acc _
    refine ⟨?_, ?_⟩
    · intro x h; cases h
    · intro h; simp at h
  | cons n ns ih =>
    intro s acc hbuf
    have hp := cbcr_read_spec P k hD s n (hpos n List.mem_cons_self) hbuf
    have ih' := ih (fun m hm => hpos m (List.mem_cons_of_mem _ hm))
    unfold CbcR.readToEnd
    generalize s.read P k n = r at hp
    cases r with
    | error e =>
      have hp' : cbcrFuture P k s = .error e := hp
      simp only [hp', cbcrPre_error]
      refine ⟨?_, ?_⟩
      · intro x h; cases h; rfl
      · intro _ h; cases h
    | panic m => exact absurd hp id
    | ok p =>
      obtain ⟨s', out⟩ := p
      obtain ⟨out', h1, h2, h3, h4, h5⟩ := hp
      rw [List.nil_append] at h1
      subst h1
      simp only []
      by_cases ho : out = []
      · rw [if_pos ho]
        obtain ⟨he, hr⟩ := h4 ho
        have hf : cbcrFuture P k s = .ok [] := by
          rw [h2, ho, cbcrPre_nil]
          unfold cbcrFuture
          rw [if_pos he, hr]
        refine ⟨?_, ?_⟩
        · intro x h
          cases h
          rw [hf, cbcrPre_ok, List.append_nil]
        · intro _ h; cases h
      · rw [if_neg ho]
        obtain ⟨ih1, ih2⟩ := ih' s' (acc ++ out) h3
        refine ⟨?_, ?_⟩
        · intro x h
          rw [ih1 x h, cbcrPre_append, ← h2]
        · intro hm
          apply ih2
          have : 0 < out.length := List.length_pos_iff.mpr ho
          simp only [List.length_cons] at hm
          omega

theorem cbcr_new_eq (iv ct : Bytes) :
    CbcR.new iv ct = if (ct.take 16).length ≠ 16 then .error .eof
      else .ok ⟨ct.drop 16, iv, [], ct.take 16, false⟩ := rfl

theorem cbcr_cbcDecrypt_no_panic (P : BlockPerm) (k iv ct : Bytes) (m : String) :
    cbcDecrypt P k iv ct ≠ .panic m := by
  rw [cbcr_cbcDecrypt_eq]
  split
  · intro h; cases h
  · unfold cbcrFinish
    split
    · intro h; cases h
    · split
      · intro h; cases h
      · intro h; cases h

/-- Everything about `cbcReadAll` at once. -/
theorem cbcr_readAll_spec (P : BlockPerm) (k iv ct : Bytes)
    (hD : ∀ b : Bytes, b.length = 16 → (P.D k b).length = 16)
    (sched : List Nat) (hpos : ∀ n ∈ sched, 0 < n) :
    (∀ x, cbcReadAll P k iv ct sched = some x → x = cbcDecrypt P k iv ct) ∧
    (ct.length < sched.length → cbcReadAll P k iv ct sched ≠ none) := by
  unfold cbcReadAll
  rw [cbcr_new_eq]
  by_cases hlt : ct.length < 16
  · have h1 : (ct.take 16).length ≠ 16 := by rw [List.length_take]; omega
    rw [if_pos h1]
    simp only []
    refine ⟨?_, ?_⟩
    · intro x h
      cases h
      rw [cbcr_cbcDecrypt_eq, if_pos (by omega)]
    · intro _ h; cases h
  · have h1 : ¬ (ct.take 16).length ≠ 16 := by rw [List.length_take]; omega
    rw [if_neg h1]
    simp only []
    have hsp := cbcr_readToEnd_spec P k hD sched hpos ⟨ct.drop 16, iv, [], ct.take 16, false⟩ []
      (by show (ct.take 16).length = 16; rw [List.length_take]; omega)
    have hf : cbcrFuture P k ⟨ct.drop 16, iv, [], ct.take 16, false⟩ = cbcDecrypt P k iv ct := by
      rw [cbcr_cbcDecrypt_ref P k iv ct (by omega)]
      simp [cbcrFuture, cbcrPre_nil]
    have hm : cbcrMeasure ⟨ct.drop 16, iv, [], ct.take 16, false⟩ = ct.length := by
      simp [cbcrMeasure]; omega
    rw [hf, cbcrPre_nil, hm] at hsp
    exact hsp

-- ---------------------------------------------------------------- main theorems (reader)

/-- **Schedule independence of the CBC reader (soundness).**  For EVERY ciphertext (valid,
    truncated, corrupt), every key/IV and every schedule of positive caller buffer sizes:
    if `read_to_end` completes, its result — plaintext or error kind — is exactly the
    reference decryption.  The only assumption on the cipher is `hD`: decrypting a 16-byte block
    yields a 16-byte block (without it the untyped model allows empty or oversized "blocks";
    see `cbcReadAll_sound_needs_hD`). -/
theorem cbcReadAll_sound (P : BlockPerm) (k iv ct : Bytes)
    (hD : ∀ b : Bytes, b.length = 16 → (P.D k b).length = 16)
    (sched : List Nat) (hpos : ∀ n ∈ sched, 0 < n)
    (x : Outcome Bytes) (h : cbcReadAll P k iv ct sched = some x) : x = cbcDecrypt P k iv ct :=
  (cbcr_readAll_spec P k iv ct hD sched hpos).1 x h

/-- **Liveness.**  Every call with a non-empty buffer returns at least one byte until the
    plaintext is exhausted, so `read_to_end` completes once the schedule is longer than the
    ciphertext. -/
theorem cbcReadAll_complete (P : BlockPerm) (k iv ct : Bytes)
    (hD : ∀ b : Bytes, b.length = 16 → (P.D k b).length = 16)
    (sched : List Nat) (hpos : ∀ n ∈ sched, 0 < n)
    (hlen : ct.length + 1 < sched.length) : cbcReadAll P k iv ct sched ≠ none :=
  (cbcr_readAll_spec P k iv ct hD sched hpos).2 (by omega)

/-- The reader never reaches a panic outcome (in particular the fuel of `CbcR.blocks` suffices). -/
theorem cbcReadAll_no_panic (P : BlockPerm) (k iv ct : Bytes)
    (hD : ∀ b : Bytes, b.length = 16 → (P.D k b).length = 16)
    (sched : List Nat) (hpos : ∀ n ∈ sched, 0 < n)
    (m : String) : cbcReadAll P k iv ct sched ≠ some (.panic m) := by
  intro h
  exact cbcr_cbcDecrypt_no_panic P k iv ct m (cbcReadAll_sound P k iv ct hD sched hpos _ h).symm

/-- The hypothesis `hD` of the three reader theorems cannot be dropped in this untyped model:
    with a "cipher" whose `D` returns empty blocks the loop makes no progress and the fuel
    of `CbcR.blocks` runs out, while `cbcDecrypt` never panics.  (Real block ciphers are
    length preserving, so this is an artefact of modelling blocks as lists.) -/
theorem cbcReadAll_sound_needs_hD :
    ∃ (P : BlockPerm) (k iv ct : Bytes) (sched : List Nat) (x : Outcome Bytes),
      (∀ n ∈ sched, 0 < n) ∧ cbcReadAll P k iv ct sched = some x ∧ x ≠ cbcDecrypt P k iv ct :=
  ⟨⟨fun _ b => b, fun _ _ => []⟩, [], List.replicate 16 0, List.replicate 48 1, [1, 1, 1, 1],
    .panic "fuel", by decide, by decide,
    fun h => cbcr_cbcDecrypt_no_panic _ _ _ _ _ h.symm⟩

-- ---------------------------------------------------------------- PKCS#7 and the round trip

/-- PKCS#7: unpadding the padded final block gives the partial block back. -/
theorem pkcs7Unpad_padBlock (buf : Bytes) (h : buf.length < 16) :
    pkcs7Unpad (pkcs7PadBlock buf) = some buf := by
  unfold pkcs7Unpad pkcs7PadBlock
  generalize hn : 16 - buf.length = n
  have hn1 : 1 ≤ n := by omega
  have hn16 : n ≤ 16 := by omega
  have hlast : (buf ++ List.replicate n (UInt8.ofNat n)).getLast? = some (UInt8.ofNat n) := by
    rw [List.getLast?_append, List.getLast?_replicate, if_neg (by omega)]
    rfl
  have htn : (UInt8.ofNat n).toNat = n := by
    rw [UInt8.toNat_ofNat']; omega
  rw [hlast]
  simp only [htn, List.length_append, List.length_replicate]
  have hc : ¬ (n = 0 ∨ n > 16 ∨ n > buf.length + n) := by omega
  rw [if_neg hc]
  have hsub : buf.length + n - n = buf.length := by omega
  rw [hsub, List.drop_left, List.take_left]
  simp

theorem cbcr_xor_cancel (b : Bytes) : ∀ c : Bytes, b.length ≤ c.length →
    xorBytes (xorBytes b c) c = b := by
  induction b with
  | nil => intro c _; simp [xorBytes]
  | cons x b ih =>
    intro c hc
    cases c with
    | nil => simp at hc
    | cons y c =>
      have := ih c (by simpa using hc)
      unfold xorBytes at this ⊢
      simp only [List.zipWith_cons_cons, this]
      rw [UInt8.xor_assoc, UInt8.xor_self, UInt8.xor_zero]

theorem cbcr_dec_enc (P : BlockPerm) (hP : P.Lawful) (k : Bytes) (bs : List Bytes) :
    ∀ chain : Bytes, chain.length = 16 → (∀ b ∈ bs, b.length = 16) →
      cbcDecBlocks P k chain (cbcEncBlocks P k chain bs) = bs ∧
      (∀ c ∈ cbcEncBlocks P k chain bs, c.length = 16) ∧
      (cbcEncBlocks P k chain bs).length = bs.length := by
  induction bs with
  | nil => intro chain _ _; simp [cbcEncBlocks, cbcDecBlocks]
  | cons b bs ih =>
    intro chain hch hall
    have hb : b.length = 16 := hall b List.mem_cons_self
    have hx : (xorBytes b chain).length = 16 := by rw [cbcr_xorBytes_length]; omega
    have hc : (P.E k (xorBytes b chain)).length = 16 := hP.lenE k _ hx
    obtain ⟨h1, h2, h3⟩ := ih (P.E k (xorBytes b chain)) hc (fun b hb => hall b (List.mem_cons_of_mem _ hb))
    simp only [cbcEncBlocks, cbcDecBlocks]
    refine ⟨?_, ?_, ?_⟩
    · rw [h1, hP.inv k _ hx, cbcr_xor_cancel b chain (by omega)]
    · intro c hcm
      rcases List.mem_cons.mp hcm with rfl | hcm
      · exact hc
      · exact h2 c hcm
    · rw [List.length_cons, List.length_cons, h3]

theorem cbcr_pkcs7Pad_length (msg : Bytes) :
    (pkcs7Pad msg).length % 16 = 0 ∧ 0 < (pkcs7Pad msg).length := by
  unfold pkcs7Pad
  rw [List.length_append, List.length_replicate]
  omega

theorem cbcr_finish_pad (n : Nat) : ∀ msg : Bytes, msg.length ≤ n →
    cbcrFinish (toBlocks (pkcs7Pad msg)) = .ok msg := by
  induction n with
  | zero =>
    intro msg hn
    have : msg = [] := List.eq_nil_of_length_eq_zero (by omega)
    subst this
    have e : pkcs7Pad [] = pkcs7PadBlock [] ++ [] := by simp [pkcs7Pad, pkcs7PadBlock]
    rw [e, cbcr_toBlocks_append16 _ _ (by simp [pkcs7PadBlock]), cbcr_toBlocks_nil,
      cbcrFinish_single, pkcs7Unpad_padBlock _ (by simp)]
  | succ n ih =>
    intro msg hn
    by_cases hlt : msg.length < 16
    · have e : pkcs7Pad msg = pkcs7PadBlock msg ++ [] := by
        unfold pkcs7Pad pkcs7PadBlock
        rw [Nat.mod_eq_of_lt hlt, List.append_nil]
      have hl : (pkcs7PadBlock msg).length = 16 := by
        unfold pkcs7PadBlock
        rw [List.length_append, List.length_replicate]; omega
      rw [e, cbcr_toBlocks_append16 _ _ hl, cbcr_toBlocks_nil, cbcrFinish_single,
        pkcs7Unpad_padBlock _ hlt]
    · have hmod : (msg.length - 16) % 16 = msg.length % 16 := by omega
      have e : pkcs7Pad msg = msg.take 16 ++ pkcs7Pad (msg.drop 16) := by
        unfold pkcs7Pad
        rw [List.length_drop, hmod, ← List.append_assoc, List.take_append_drop]
      have hne : toBlocks (pkcs7Pad (msg.drop 16)) ≠ [] := by
        have hp := (cbcr_pkcs7Pad_length (msg.drop 16)).2
        rw [cbcr_toBlocks_ne _ (List.length_pos_iff.mp hp)]
        exact List.cons_ne_nil _ _
      rw [e, cbcr_toBlocks_append16 _ _ (by rw [List.length_take]; omega),
        cbcrFinish_cons _ _ hne, ih (msg.drop 16) (by rw [List.length_drop]; omega),
        cbcrPre_ok, List.take_append_drop]

/-- **Reference round trip**: for a lawful cipher and a 16-byte IV, decrypting the encryption
    of any message gives the message back. -/
theorem cbcDecrypt_cbcEncrypt (P : BlockPerm) (hP : P.Lawful) (k iv msg : Bytes) (hiv : iv.length = 16) :
    cbcDecrypt P k iv (cbcEncrypt P k iv msg) = .ok msg := by
  obtain ⟨hpm, hpp⟩ := cbcr_pkcs7Pad_length msg
  have hall := cbcr_toBlocks_all16 _ (pkcs7Pad msg) (Nat.le_refl _) hpm
  obtain ⟨h1, h2, h3⟩ := cbcr_dec_enc P hP k (toBlocks (pkcs7Pad msg)) iv hiv hall
  have hlen := cbcr_flatten_length _ h2
  have hbl : 0 < (toBlocks (pkcs7Pad msg)).length := by
    rw [cbcr_toBlocks_ne _ (List.length_pos_iff.mp hpp)]
    simp
  rw [cbcr_cbcDecrypt_eq]
  unfold cbcEncrypt
  rw [if_neg (by rw [hlen, h3]; omega), cbcr_toBlocks_flatten _ h2, h1]
  exact cbcr_finish_pad _ msg (Nat.le_refl _)

/-- Corollaries for a lawful cipher (`hD` is `Lawful.lenD`). -/
theorem cbcReadAll_sound_of_lawful (P : BlockPerm) (hP : P.Lawful) (k iv ct : Bytes)
    (sched : List Nat) (hpos : ∀ n ∈ sched, 0 < n)
    (x : Outcome Bytes) (h : cbcReadAll P k iv ct sched = some x) : x = cbcDecrypt P k iv ct :=
  cbcReadAll_sound P k iv ct (hP.lenD k) sched hpos x h

/-- End to end: reading back what the reference encryption produced, with any schedule of
    positive buffer sizes that is long enough, yields the message. -/
theorem cbcReadAll_cbcEncrypt (P : BlockPerm) (hP : P.Lawful) (k iv msg : Bytes) (hiv : iv.length = 16)
    (sched : List Nat) (hpos : ∀ n ∈ sched, 0 < n)
    (hlen : (cbcEncrypt P k iv msg).length + 1 < sched.length) :
    cbcReadAll P k iv (cbcEncrypt P k iv msg) sched = some (.ok msg) := by
  cases hr : cbcReadAll P k iv (cbcEncrypt P k iv msg) sched with
  | none => exact absurd hr (cbcReadAll_complete P k iv _ (hP.lenD k) sched hpos hlen)
  | some x =>
    rw [cbcReadAll_sound P k iv _ (hP.lenD k) sched hpos x hr, cbcDecrypt_cbcEncrypt P hP k iv msg hiv]

end Pna
