import PnaVerif.Lemmas.Chunk
import PnaVerif.Model.Codec
/-! Inverse-pair lemmas for the header and metadata codecs. -/
namespace Pna

theorem byteOf_toNat (n : Nat) (h : n < 256) : (byteOf n).toNat = n := by
  simp [byteOf, UInt8.toNat_ofNat', Nat.mod_eq_of_lt h]

theorem byteOf_toNat' (b : UInt8) : byteOf b.toNat = b := by
  simp [byteOf, UInt8.ofNat_toNat]

theorem be32_four (n : Nat) : ∃ a b c d, be32 n = [a, b, c, d] := by
  have h := be32_length n
  match hb : be32 n, h with
  | [a, b, c, d], _ => exact ⟨a, b, c, d, rfl⟩

theorem readExact_app {α} (a rest : Bytes) (n : Nat) (h : a.length = n) (f : Bytes × Bytes → Outcome α) :
    (readExact n (a ++ rest) >>= f) = f (a, rest) := by
  subst h
  unfold readExact
  have : ¬ (a ++ rest).length < a.length := by simp
  rw [if_neg this]
  simp [bind, Outcome.bind]

theorem fromBe_single (b : UInt8) : fromBe [b] = b.toNat := by simp [fromBe]

theorem fromBe_beN_lt (k n : Nat) (h : n < 256 ^ k) : fromBe (beN k n) = n := by
  rw [fromBe_beN, Nat.mod_eq_of_lt h]

/-- AHED round trip. -/
theorem decAHED_encAHED (h : ArchiveHeader) (h1 : h.major < 256) (h2 : h.minor < 256)
    (h3 : h.number < 2 ^ 32) : decAHED (encAHED h) = .ok h := by
  obtain ⟨a, b, c, d, hb⟩ := be32_four h.number
  unfold encAHED
  rw [hb]
  simp only [List.cons_append, List.nil_append, decAHED]
  rw [← hb, byteOf_toNat _ h1, byteOf_toNat _ h2, fromBe_be32, Nat.mod_eq_of_lt h3]

/-- AHED: re-encoding what was decoded reproduces the input up to the two ignored bytes. -/
theorem decAHED_stable (bs : Bytes) (h : ArchiveHeader) (hd : decAHED bs = .ok h) :
    decAHED (encAHED h) = .ok h := by
  match bs, hd with
  | [a, b, _, _, c, d, e, f], hd =>
    simp only [decAHED, Outcome.ok.injEq] at hd
    subst hd
    apply decAHED_encAHED
    · exact a.toNat_lt
    · exact b.toNat_lt
    · have := fromBe_lt [c, d, e, f]; simpa using this

/-- SHED is an exact inverse pair in both directions. -/
theorem decSHED_encSHED (h : SolidHeader) (h1 : h.major < 256) (h2 : h.minor < 256)
    (hc : validCompression h.compression = true) (he : validEncryption h.encryption = true)
    (hm : validCipherMode h.cipherMode = true) : decSHED (encSHED h) = .ok h := by
  have c256 : h.compression < 256 := by
    simp [validCompression] at hc; omega
  have e256 : h.encryption < 256 := by simp [validEncryption] at he; omega
  have m256 : h.cipherMode < 256 := by simp [validCipherMode] at hm; omega
  simp only [encSHED, decSHED, byteOf_toNat _ h1, byteOf_toNat _ h2, byteOf_toNat _ c256,
    byteOf_toNat _ e256, byteOf_toNat _ m256, hc, he, hm]
  rfl

theorem encSHED_decSHED (bs : Bytes) (h : SolidHeader) (hd : decSHED bs = .ok h) : encSHED h = bs := by
  match bs, hd with
  | [a, b, c, e, m], hd =>
    simp only [decSHED] at hd
    split at hd; · simp at hd
    split at hd; · simp at hd
    split at hd; · simp at hd
    simp only [Outcome.ok.injEq] at hd
    subst hd
    simp [encSHED, byteOf_toNat']

/-- Timestamps: 64-bit seconds. -/
theorem decTime_encTime (n : Nat) (h : n < 2 ^ 64) : decTime (encTime n) = .ok n := by
  unfold decTime encTime
  simp only [be64_length, ite_true]
  rw [be64, fromBe_beN_lt 8 n (by simpa using h)]

theorem encTime_decTime (bs : Bytes) (n : Nat) (h : decTime bs = .ok n) : encTime n = bs := by
  unfold decTime at h
  split at h
  · rename_i h8
    simp only [Outcome.ok.injEq] at h
    subst h
    have := beN_fromBe bs
    rw [h8] at this
    exact this
  · simp at h

theorem fromBe_cons_zero (bs : Bytes) : fromBe (0 :: bs) = fromBe bs := by
  simp [fromBe]

theorem fromBe_dropLeadingZeros (bs : Bytes) : fromBe (dropLeadingZeros bs) = fromBe bs := by
  induction bs with
  | nil => rfl
  | cons b bs ih =>
    unfold dropLeadingZeros
    split
    · rename_i hb; subst hb; rw [ih, fromBe_cons_zero]
    · rfl

theorem dropLeadingZeros_length_le (bs : Bytes) : (dropLeadingZeros bs).length ≤ bs.length := by
  induction bs with
  | nil => simp [dropLeadingZeros]
  | cons b bs ih =>
    unfold dropLeadingZeros
    split
    · simp; omega
    · simp

/-- fSIZ: minimal big-endian encoding of a 128-bit size decodes back exactly. -/
theorem decFSIZ_encFSIZ (n : Nat) (h : n < 2 ^ 128) : decFSIZ (encFSIZ n) = n := by
  unfold decFSIZ encFSIZ
  have hl : (dropLeadingZeros (be128 n)).length ≤ 16 := by
    have := dropLeadingZeros_length_le (be128 n)
    simpa [be128] using this
  have : (dropLeadingZeros (be128 n)).length - 16 = 0 := by omega
  rw [this, List.drop_zero, fromBe_dropLeadingZeros, be128, fromBe_beN_lt 16 n (by simpa using h)]

/-- xATR round trip. -/
theorem decXATR_encXATR (x : XAttr) (hn : x.name.length < 2 ^ 32) (hv : x.value.length < 2 ^ 32)
    (hu : validUtf8 x.name = true) : decXATR (encXATR x) = .ok x := by
  unfold decXATR encXATR
  have e1 : be32 x.name.length ++ x.name ++ be32 x.value.length ++ x.value
      = be32 x.name.length ++ (x.name ++ (be32 x.value.length ++ x.value)) := by simp
  rw [e1]
  have s1 : splitFirstChunk 4 (be32 x.name.length ++ (x.name ++ (be32 x.value.length ++ x.value)))
      = some (be32 x.name.length, x.name ++ (be32 x.value.length ++ x.value)) := by
    unfold splitFirstChunk
    simp only [List.length_append, be32_length]
    rw [if_pos (by omega), take_app _ _ (be32_length _), drop_app _ _ (be32_length _)]
  rw [s1]
  simp only
  rw [fromBe_be32, Nat.mod_eq_of_lt hn]
  have s2 : splitPayload (x.name ++ (be32 x.value.length ++ x.value)) x.name.length
      = .ok (x.name, be32 x.value.length ++ x.value) := by
    unfold splitPayload
    simp
  rw [s2]
  simp only [hu]
  have s3 : splitFirstChunk 4 (be32 x.value.length ++ x.value) = some (be32 x.value.length, x.value) := by
    unfold splitFirstChunk
    simp only [List.length_append, be32_length]
    rw [if_pos (by omega), take_app _ _ (be32_length _), drop_app _ _ (be32_length _)]
  simp only [Bool.not_true, Bool.false_eq_true, ite_false, s3]
  rw [fromBe_be32, Nat.mod_eq_of_lt hv]
  simp

/-- fPRM round trip, for names that fit the one-byte length. -/
theorem decFPRM_encFPRM (p : Permission) (hu : p.uname.length ≤ 255) (hg : p.gname.length ≤ 255)
    (huid : p.uid < 2 ^ 64) (hgid : p.gid < 2 ^ 64) (hm : p.mode < 2 ^ 16)
    (hvu : validUtf8 p.uname = true) (hvg : validUtf8 p.gname = true) :
    decFPRM (encFPRM p) = .ok p := by
  unfold decFPRM encFPRM
  have e1 : be64 p.uid ++ [byteOf p.uname.length] ++ p.uname ++ be64 p.gid ++ [byteOf p.gname.length] ++ p.gname ++ be16 p.mode
      = be64 p.uid ++ ([byteOf p.uname.length] ++ (p.uname ++ (be64 p.gid ++ ([byteOf p.gname.length] ++ (p.gname ++ (be16 p.mode ++ [])))))) := by
    simp
  rw [e1]
  rw [readExact_app _ _ 8 (be64_length _)]
  simp only
  rw [readExact_app _ _ 1 rfl]
  simp only
  rw [fromBe_single, byteOf_toNat _ (by omega)]
  rw [readExact_app _ _ _ rfl]
  simp only [hvu, Bool.not_true, Bool.false_eq_true, ite_false]
  rw [readExact_app _ _ 8 (be64_length _)]
  simp only
  rw [readExact_app _ _ 1 rfl]
  simp only
  rw [fromBe_single, byteOf_toNat _ (by omega)]
  rw [readExact_app _ _ _ rfl]
  simp only [hvg, Bool.not_true, Bool.false_eq_true, ite_false]
  rw [readExact_app _ _ 2 (be16_length _)]
  simp only
  rw [be64, be64, be16, fromBe_beN_lt 8 _ (by simpa using huid), fromBe_beN_lt 8 _ (by simpa using hgid),
    fromBe_beN_lt 2 _ (by simpa using hm)]

end Pna

namespace Pna

/-- FHED round trip.  Hypotheses: version bytes fit a byte, valid enum codes, a name that is valid UTF-8 and
    already in sanitised form.  (Before the `fix:` that made the encoder write `major`, it wrote `minor` twice and
    this needed `major = minor`.) -/
theorem decFHED_encFHED (h : EntryHeader) (h1 : h.major < 256) (h2 : h.minor < 256)
    (hk : validKind h.kind = true) (hc : validCompression h.compression = true)
    (he : validEncryption h.encryption = true) (hm : validCipherMode h.cipherMode = true)
    (hu : validUtf8 h.name = true) (hs : sanitize h.name = h.name) :
    decFHED (encFHED h) = .ok h := by
  have k256 : h.kind < 256 := by simp [validKind] at hk; omega
  have c256 : h.compression < 256 := by simp [validCompression] at hc; omega
  have e256 : h.encryption < 256 := by simp [validEncryption] at he; omega
  have m256 : h.cipherMode < 256 := by simp [validCipherMode] at hm; omega
  simp only [encFHED, List.cons_append, List.nil_append, decFHED, byteOf_toNat _ h1, byteOf_toNat _ h2, byteOf_toNat _ k256,
    byteOf_toNat _ c256, byteOf_toNat _ e256, byteOf_toNat _ m256, hk, hc, he, hm, hu, hs]
  cases h
  simp_all

/-- Whatever FHED payload the parser accepts, the name it returns is the sanitised payload name. -/
theorem decFHED_name (bs : Bytes) (h : EntryHeader) (hd : decFHED bs = .ok h) :
    h.name = sanitize (bs.drop 6) ∧ validUtf8 (bs.drop 6) = true := by
  match bs, hd with
  | a :: b :: k :: c :: e :: m :: name, hd =>
    simp only [decFHED] at hd
    split at hd; · simp at hd
    split at hd; · simp at hd
    split at hd; · simp at hd
    split at hd; · simp at hd
    split at hd; · simp at hd
    rename_i hu
    simp only [Outcome.ok.injEq] at hd
    subst hd
    simp at hu
    exact ⟨rfl, hu⟩

end Pna
