import PnaVerif.Model.Cli.Extract
import PnaVerif.Lemmas.Name
import PnaVerif.Lemmas.Overwrite
/-!
# Confinement of `extract_entry` (C09 part 2): predicates and basic lemmas

`O` is the output directory as an absolute component path (`cwd ++ [d]`).
* `Inside O p`      — `p` is `O` or below it.
* `Sane fs O`       — well-formedness of the file system, an invariant of `extractEntry`.
* `OutsideSame O fs fs'` — nothing outside `O` differs between `fs` and `fs'`.
-/
namespace Pna.Confined
open Pna Pna.Fs Pna.Cli

def Inside (O p : Path) : Prop := O <+: p

instance (O p : Path) : Decidable (Inside O p) := inferInstanceAs (Decidable (O <+: p))

/-- the filter used for "nodes outside the output directory" -/
abbrev outB (O : Path) (n : Path × Node) : Bool := !(O.isPrefixOf n.1)

theorem outB_iff (O : Path) (n : Path × Node) : outB O n = true ↔ ¬ Inside O n.1 := by
  unfold outB Inside
  rw [← List.isPrefixOf_iff_prefix]
  cases List.isPrefixOf O n.1 <;> simp

/-- Well-formedness.  `sep` excludes initial states in which an inode is linked both inside and
    outside `O` (there, truncating an existing inside file would change an outside file). -/
structure Sane (fs : Fs) (O : Path) : Prop where
  odir : fs.lookup O = some .dir
  closed : ∀ n ∈ fs.nodes, fs.lookup n.1.dropLast = some .dir
  sep : ∀ a ∈ fs.nodes, ∀ b ∈ fs.nodes, ∀ ino, a.2 = .file ino → b.2 = .file ino →
    Inside O a.1 → ¬ Inside O b.1 → False
  fresh : ∀ n ∈ fs.nodes, ∀ ino, n.2 = .file ino → ino < fs.nextIno

/-- Boolean version of `Sane` (for `decide +kernel` on concrete file systems). -/
def saneB (fs : Fs) (O : Path) : Bool :=
  (fs.lookup O == some .dir) &&
  fs.nodes.all (fun n => fs.lookup n.1.dropLast == some .dir) &&
  fs.nodes.all (fun a => fs.nodes.all (fun b =>
    match a.2, b.2 with
    | .file i, .file j => !(i == j && O.isPrefixOf a.1 && !(O.isPrefixOf b.1))
    | _, _ => true)) &&
  fs.nodes.all (fun n => match n.2 with | .file i => decide (i < fs.nextIno) | _ => true)

/-- Nothing outside `O` differs: (1) the outside directory entries are literally the same list,
    (2) the content of every inode referenced from outside is unchanged, (3) no inside entry of
    `fs'` references such an inode. -/
structure OutsideSame (O : Path) (fs fs' : Fs) : Prop where
  nodes : fs'.nodes.filter (outB O) = fs.nodes.filter (outB O)
  content : ∀ n ∈ fs.nodes, ¬ Inside O n.1 → ∀ ino, n.2 = .file ino → fs'.content ino = fs.content ino
  nolink : ∀ n ∈ fs.nodes, ¬ Inside O n.1 → ∀ ino, n.2 = .file ino →
    ∀ m ∈ fs'.nodes, Inside O m.1 → m.2 ≠ .file ino

theorem outside_mem_iff {O : Path} {fs fs' : Fs} (h : fs'.nodes.filter (outB O) = fs.nodes.filter (outB O))
    (n : Path × Node) (hn : ¬ Inside O n.1) : n ∈ fs'.nodes ↔ n ∈ fs.nodes := by
  have h1 : n ∈ fs'.nodes.filter (outB O) ↔ n ∈ fs.nodes.filter (outB O) := by rw [h]
  simpa [List.mem_filter, (outB_iff O n).2 hn] using h1

theorem OutsideSame.refl (O : Path) (fs : Fs) (hs : Sane fs O) : OutsideSame O fs fs :=
  ⟨rfl, fun _ _ _ _ _ => rfl, fun n hn ho ino hi m hm hmi hm2 => hs.sep m hm n hn ino hm2 hi hmi ho⟩

theorem OutsideSame.trans {O : Path} {a b c : Fs} (h1 : OutsideSame O a b) (h2 : OutsideSame O b c) :
    OutsideSame O a c := by
  refine ⟨h2.nodes.trans h1.nodes, fun n hn ho ino hi => ?_, fun n hn ho ino hi => ?_⟩
  · have hb : n ∈ b.nodes := (outside_mem_iff h1.nodes n ho).2 hn
    rw [h2.content n hb ho ino hi, h1.content n hn ho ino hi]
  · have hb : n ∈ b.nodes := (outside_mem_iff h1.nodes n ho).2 hn
    exact h2.nolink n hb ho ino hi

theorem saneB_iff (fs : Fs) (O : Path) : saneB fs O = true ↔ Sane fs O := by
  unfold saneB
  simp only [Bool.and_eq_true, List.all_eq_true, beq_iff_eq]
  constructor
  · rintro ⟨⟨⟨h1, h2⟩, h3⟩, h4⟩
    refine ⟨h1, h2, fun a ha b hb ino hai hbi hia hob => ?_, fun n hn ino hi => ?_⟩
    · have := h3 a ha b hb
      rw [hai, hbi] at this
      have e1 : O.isPrefixOf a.1 = true := List.isPrefixOf_iff_prefix.2 hia
      have e2 : O.isPrefixOf b.1 = false := by
        cases h : O.isPrefixOf b.1 with
        | false => rfl
        | true => exact absurd (List.isPrefixOf_iff_prefix.1 h) hob
      simp [e1, e2] at this
    · have := h4 n hn
      rw [hi] at this
      simpa using this
  · intro h
    refine ⟨⟨⟨h.odir, h.closed⟩, fun a ha b hb => ?_⟩, fun n hn => ?_⟩
    · split
      · rename_i i j hi hj
        cases e1 : O.isPrefixOf a.1 with
        | false => simp
        | true =>
          cases e2 : O.isPrefixOf b.1 with
          | true => simp
          | false =>
            by_cases hij : i = j
            · subst hij
              exact absurd (List.isPrefixOf_iff_prefix.1 e1) (fun hp =>
                h.sep a ha b hb i hi hj hp (fun hq => by
                  have := List.isPrefixOf_iff_prefix.2 hq; rw [e2] at this; cases this))
            · simp [hij]
      · rfl
    · split
      · rename_i i hi
        simpa using h.fresh n hn i hi
      · rfl

/-! ### association-list facts -/

theorem find_filter_key (l : List (Path × Node)) (P : Path → Bool) (k : Path) (hk : P k = true) :
    (l.filter (fun n => P n.1)).find? (·.1 == k) = l.find? (·.1 == k) := by
  induction l with
  | nil => rfl
  | cons x xs ih =>
    rw [List.filter_cons]
    by_cases hx : x.1 = k
    · have : P x.1 = true := by rw [hx]; exact hk
      rw [if_pos this]
      simp [hx]
    · have hxk : (x.1 == k) = false := by simpa using hx
      cases hp : P x.1 with
      | true => simp only [if_true, List.find?_cons, hxk]; exact ih
      | false => simp only [Bool.false_eq_true, if_false, List.find?_cons, hxk]; exact ih

theorem lookup_eq_of_nodes_filter {fs fs' : Fs} (P : Path → Bool) (p : Path) (hp : P p = true)
    (h : fs'.nodes.filter (fun n => P n.1) = fs.nodes.filter (fun n => P n.1)) :
    fs'.lookup p = fs.lookup p := by
  unfold Fs.lookup
  by_cases hn : p = []
  · simp [hn]
  · simp only [hn, if_false]
    rw [← find_filter_key fs'.nodes P p hp, ← find_filter_key fs.nodes P p hp, h]

/-- outside `O`, `lookup` is unchanged -/
theorem OutsideSame.lookup {O : Path} {fs fs' : Fs} (h : OutsideSame O fs fs') (p : Path) (hp : ¬ Inside O p) :
    fs'.lookup p = fs.lookup p := by
  refine lookup_eq_of_nodes_filter (fun q => !(O.isPrefixOf q)) p ?_ h.nodes
  exact (outB_iff O (p, .dir)).2 hp

theorem lookup_none_not_mem {fs : Fs} {p : Path} (h : fs.lookup p = none) (n : Node) : (p, n) ∉ fs.nodes := by
  intro hm
  unfold Fs.lookup at h
  split at h
  · cases h
  · simp only [Option.map_eq_none_iff] at h
    have := List.find?_eq_none.1 h (p, n) hm
    simp at this

theorem lookup_isSome_of_mem {fs : Fs} {p : Path} {n : Node} (h : (p, n) ∈ fs.nodes) : (fs.lookup p).isSome := by
  cases hl : fs.lookup p with
  | some _ => rfl
  | none => exact absurd h (lookup_none_not_mem hl n)

/-! ### ancestors of an existing object are directories; depth bound -/

theorem prefix_dropLast {q p : Path} (h : q <+: p) (hne : q ≠ p) : q <+: p.dropLast := by
  obtain ⟨t, rfl⟩ := h
  have ht : t ≠ [] := by intro e; subst e; simp at hne
  rw [List.dropLast_append_of_ne_nil ht]
  exact List.prefix_append _ _

abbrev Closed (fs : Fs) : Prop := ∀ n ∈ fs.nodes, fs.lookup n.1.dropLast = some .dir

theorem anc_dir_aux {fs : Fs} (hc : Closed fs) : ∀ (k : Nat) (p q : Path), p.length = k →
    (fs.lookup p).isSome → q <+: p → q ≠ p → fs.lookup q = some .dir := by
  intro k
  induction k with
  | zero =>
    intro p q hk _ hq hne
    have : p = [] := List.length_eq_zero_iff.1 hk
    subst this
    exact absurd (List.prefix_nil.1 hq) hne
  | succ k ih =>
    intro p q hk hs hq hne
    have hp : p ≠ [] := by intro e; subst e; simp at hk
    cases hl : fs.lookup p with
    | none => rw [hl] at hs; cases hs
    | some n =>
      have hd := hc (p, n) (lookup_mem hp hl)
      have hq' := prefix_dropLast hq hne
      by_cases e : q = p.dropLast
      · rw [e]; exact hd
      · exact ih p.dropLast q (by simp [hk]) (by simp at hd; simp [hd]) hq' e

/-- every proper ancestor of an existing object is a directory -/
theorem anc_dir {fs : Fs} (hc : Closed fs) {p q : Path} (hs : (fs.lookup p).isSome) (hq : q <+: p) (hne : q ≠ p) :
    fs.lookup q = some .dir := anc_dir_aux hc p.length p q rfl hs hq hne

end Pna.Confined
