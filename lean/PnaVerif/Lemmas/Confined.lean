import PnaVerif.Model.Cli.Extract
import PnaVerif.Lemmas.Name
import PnaVerif.Lemmas.Overwrite
/-!
# Confinement of `extract_entry` (C09 part 2): predicates and basic lemmas

`O` is the output directory as an absolute component path (`cwd ++ [d]`).
* `Inside O p`      — `p` is `O` or below it.
* `Sane fs O`       — well-formedness of the file system, an invariant of `extractEntry`.
* `OutsideSame O fs fs'` — nothing outside `O` differs between `fs` and `fs'`.
-/
namespace Pna.Confined
open Pna Pna.Fs Pna.Cli

def Inside (O p : Path) : Prop := O <+: p

instance (O p : Path) : Decidable (Inside O p) := inferInstanceAs (Decidable (O <+: p))

/-- the filter used for "nodes outside the output directory" -/
abbrev outB (O : Path) (n : Path × Node) : Bool := !(O.isPrefixOf n.1)

theorem outB_iff (O : Path) (n : Path × Node) : outB O n = true ↔ ¬ Inside O n.1 := by
  unfold outB Inside
  rw [← List.isPrefixOf_iff_prefix]
  cases List.isPrefixOf O n.1 <;> simp

/-- Well-formedness.  `sep` excludes initial states in which an inode is linked both inside and
    outside `O` (there, truncating an existing inside file would change an outside file). -/
structure Sane (fs : Fs) (O : Path) : Prop where
  odir : fs.lookup O = some .dir
  closed : ∀ n ∈ fs.nodes, fs.lookup n.1.dropLast = some .dir
  sep : ∀ a ∈ fs.nodes, ∀ b ∈ fs.nodes, ∀ ino, a.2 = .file ino → b.2 = .file ino →
    Inside O a.1 → ¬ Inside O b.1 → False
  fresh : ∀ n ∈ fs.nodes, ∀ ino, n.2 = .file ino → ino < fs.nextIno

/-- Boolean version of `Sane` (for `decide +kernel` on concrete file systems). -/
def saneB (fs : Fs) (O : Path) : Bool :=
  (fs.lookup O == some .dir) &&
  fs.nodes.all (fun n => fs.lookup n.1.dropLast == some .dir) &&
  fs.nodes.all (fun a => fs.nodes.all (fun b =>
    match a.2, b.2 with
    | .file i, .file j => !(i == j && O.isPrefixOf a.1 && !(O.isPrefixOf b.1))
    | _, _ => true)) &&
  fs.nodes.all (fun n => match n.2 with | .file i => decide (i < fs.nextIno) | _ => true)

/-- Nothing outside `O` differs: (1) the outside directory entries are literally the same list,
    (2) the content of every inode referenced from outside is unchanged, (3) no inside entry of
    `fs'` references such an inode. -/
structure OutsideSame (O : Path) (fs fs' : Fs) : Prop where
  nodes : fs'.nodes.filter (outB O) = fs.nodes.filter (outB O)
  content : ∀ n ∈ fs.nodes, ¬ Inside O n.1 → ∀ ino, n.2 = .file ino → fs'.content ino = fs.content ino
  nolink : ∀ n ∈ fs.nodes, ¬ Inside O n.1 → ∀ ino, n.2 = .file ino →
    ∀ m ∈ fs'.nodes, Inside O m.1 → m.2 ≠ .file ino

theorem outside_mem_iff {O : Path} {fs fs' : Fs} (h : fs'.nodes.filter (outB O) = fs.nodes.filter (outB O))
    (n : Path × Node) (hn : ¬ Inside O n.1) : n ∈ fs'.nodes ↔ n ∈ fs.nodes := by
  have h1 : n ∈ fs'.nodes.filter (outB O) ↔ n ∈ fs.nodes.filter (outB O) := by rw [h]
  simpa [List.mem_filter, (outB_iff O n).2 hn] using h1

theorem OutsideSame.refl (O : Path) (fs : Fs) (hs : Sane fs O) : OutsideSame O fs fs :=
  ⟨rfl, fun _ _ _ _ _ => rfl, fun n hn ho ino hi m hm hmi hm2 => hs.sep m hm n hn ino hm2 hi hmi ho⟩

theorem OutsideSame.trans {O : Path} {a b c : Fs} (h1 : OutsideSame O a b) (h2 : OutsideSame O b c) :
    OutsideSame O a c := by
  refine ⟨h2.nodes.trans h1.nodes, fun n hn ho ino hi => ?_, fun n hn ho ino hi => ?_⟩
  · have hb : n ∈ b.nodes := (outside_mem_iff h1.nodes n ho).2 hn
    rw [h2.content n hb ho ino hi, h1.content n hn ho ino hi]
  · have hb : n ∈ b.nodes := (outside_mem_iff h1.nodes n ho).2 hn
    exact h2.nolink n hb ho ino hi

theorem saneB_iff (fs : Fs) (O : Path) : saneB fs O = true ↔ Sane fs O := by
  unfold saneB
  simp only [Bool.and_eq_true, List.all_eq_true, beq_iff_eq]
  constructor
  · rintro ⟨⟨⟨h1, h2⟩, h3⟩, h4⟩
    refine ⟨h1, h2, fun a ha b hb ino hai hbi hia hob => ?_, fun n hn ino hi => ?_⟩
    · have := h3 a ha b hb
      rw [hai, hbi] at this
      have e1 : O.isPrefixOf a.1 = true := List.isPrefixOf_iff_prefix.2 hia
      have e2 : O.isPrefixOf b.1 = false := by
        cases h : O.isPrefixOf b.1 with
        | false => rfl
        | true => exact absurd (List.isPrefixOf_iff_prefix.1 h) hob
      simp [e1, e2] at this
    · have := h4 n hn
      rw [hi] at this
      simpa using this
  · intro h
    refine ⟨⟨⟨h.odir, h.closed⟩, fun a ha b hb => ?_⟩, fun n hn => ?_⟩
    · split
      · rename_i i j hi hj
        cases e1 : O.isPrefixOf a.1 with
        | false => simp
        | true =>
          cases e2 : O.isPrefixOf b.1 with
          | true => simp
          | false =>
            by_cases hij : i = j
            · subst hij
              exact absurd (List.isPrefixOf_iff_prefix.1 e1) (fun hp =>
                h.sep a ha b hb i hi hj hp (fun hq => by
                  have := List.isPrefixOf_iff_prefix.2 hq; rw [e2] at this; cases this))
            · simp [hij]
      · rfl
    · split
      · rename_i i hi
        simpa using h.fresh n hn i hi
      · rfl

/-! ### association-list facts -/

theorem find_filter_key (l : List (Path × Node)) (P : Path → Bool) (k : Path) (hk : P k = true) :
    (l.filter (fun n => P n.1)).find? (·.1 == k) = l.find? (·.1 == k) := by
  induction l with
  | nil => rfl
  | cons x xs ih =>
    rw [List.filter_cons]
    by_cases hx : x.1 = k
    · have : P x.1 = true := by rw [hx]; exact hk
      rw [if_pos this]
      simp [hx]
    · have hxk : (x.1 == k) = false := by simpa using hx
      cases hp : P x.1 with
      | true => simp only [if_true, List.find?_cons, hxk]; exact ih
      | false => simp only [Bool.false_eq_true, if_false, List.find?_cons, hxk]; exact ih

theorem lookup_eq_of_nodes_filter {fs fs' : Fs} (P : Path → Bool) (p : Path) (hp : P p = true)
    (h : fs'.nodes.filter (fun n => P n.1) = fs.nodes.filter (fun n => P n.1)) :
    fs'.lookup p = fs.lookup p := by
  unfold Fs.lookup
  by_cases hn : p = []
  · simp [hn]
  · simp only [hn, if_false]
    rw [← find_filter_key fs'.nodes P p hp, ← find_filter_key fs.nodes P p hp, h]

/-- outside `O`, `lookup` is unchanged -/
theorem OutsideSame.lookup {O : Path} {fs fs' : Fs} (h : OutsideSame O fs fs') (p : Path) (hp : ¬ Inside O p) :
    fs'.lookup p = fs.lookup p := by
  refine lookup_eq_of_nodes_filter (fun q => !(O.isPrefixOf q)) p ?_ h.nodes
  exact (outB_iff O (p, .dir)).2 hp

theorem lookup_none_not_mem {fs : Fs} {p : Path} (h : fs.lookup p = none) (n : Node) : (p, n) ∉ fs.nodes := by
  intro hm
  unfold Fs.lookup at h
  split at h
  · cases h
  · simp only [Option.map_eq_none_iff] at h
    have := List.find?_eq_none.1 h (p, n) hm
    simp at this

theorem lookup_isSome_of_mem {fs : Fs} {p : Path} {n : Node} (h : (p, n) ∈ fs.nodes) : (fs.lookup p).isSome := by
  cases hl : fs.lookup p with
  | some _ => rfl
  | none => exact absurd h (lookup_none_not_mem hl n)

/-! ### ancestors of an existing object are directories; depth bound -/

theorem prefix_dropLast {q p : Path} (h : q <+: p) (hne : q ≠ p) : q <+: p.dropLast := by
  obtain ⟨t, rfl⟩ := h
  have ht : t ≠ [] := by intro e; subst e; simp at hne
  rw [List.dropLast_append_of_ne_nil ht]
  exact List.prefix_append _ _

abbrev Closed (fs : Fs) : Prop := ∀ n ∈ fs.nodes, fs.lookup n.1.dropLast = some .dir

theorem anc_dir_aux {fs : Fs} (hc : Closed fs) : ∀ (k : Nat) (p q : Path), p.length = k →
    (fs.lookup p).isSome → q <+: p → q ≠ p → fs.lookup q = some .dir := by
  intro k
  induction k with
  | zero =>
    intro p q hk _ hq hne
    have : p = [] := List.length_eq_zero_iff.1 hk
    subst this
    exact absurd (List.prefix_nil.1 hq) hne
  | succ k ih =>
    intro p q hk hs hq hne
    have hp : p ≠ [] := by intro e; subst e; simp at hk
    cases hl : fs.lookup p with
    | none => rw [hl] at hs; cases hs
    | some n =>
      have hd := hc (p, n) (lookup_mem hp hl)
      have hq' := prefix_dropLast hq hne
      by_cases e : q = p.dropLast
      · rw [e]; exact hd
      · exact ih p.dropLast q (by simp [hk]) (by simp at hd; simp [hd]) hq' e

/-- every proper ancestor of an existing object is a directory -/
theorem anc_dir {fs : Fs} (hc : Closed fs) {p q : Path} (hs : (fs.lookup p).isSome) (hq : q <+: p) (hne : q ≠ p) :
    fs.lookup q = some .dir := anc_dir_aux hc p.length p q rfl hs hq hne

theorem nat_pigeon : ∀ (m : Nat) (L : List Nat), (∀ k, 1 ≤ k → k ≤ m → k ∈ L) → m ≤ L.length := by
  intro m
  induction m with
  | zero => intro L _; exact Nat.zero_le _
  | succ m ih =>
    intro L h
    have hm : m + 1 ∈ L := h (m + 1) (by omega) (by omega)
    have h1 := List.length_erase_of_mem hm
    have h2 : 0 < L.length := List.length_pos_of_mem hm
    have := ih (L.erase (m + 1)) (fun k hk1 hk2 =>
      (List.mem_erase_of_ne (by omega : k ≠ m + 1)).2 (h k hk1 (by omega)))
    omega

/-- an existing object is at most as deep as there are directory entries -/
theorem depth_le {fs : Fs} (hc : Closed fs) {p : Path} {n : Node} (hm : (p, n) ∈ fs.nodes) :
    p.length ≤ fs.nodes.length := by
  have := nat_pigeon p.length (fs.nodes.map (·.1.length)) (fun k hk1 hk2 => by
    by_cases e : p.take k = p
    · have : p.length = k := by
        have := congrArg List.length e
        simp at this; omega
      exact List.mem_map.2 ⟨(p, n), hm, this⟩
    · have hd := anc_dir hc (lookup_isSome_of_mem hm) (List.take_prefix k p) e
      have hne : p.take k ≠ [] := by
        intro e0
        have := congrArg List.length e0
        simp at this; rcases this with h | h
        · omega
        · subst h; simp at e
      exact List.mem_map.2 ⟨(p.take k, .dir), lookup_mem hne hd, by simp; omega⟩)
  simpa using this

/-! ### lexical walks below `O` -/

/-- where the lexical walk of `cs` from `O ++ w` ends (`..` = `dropLast`) -/
def lexEnd : List Bytes → List Bytes → List Bytes
  | w, [] => w
  | w, c :: r => if c = [dot, dot] then lexEnd w.dropLast r else lexEnd (w ++ [c]) r

def NotLink (fs : Fs) (p : Path) : Prop := ∀ t, fs.lookup p ≠ some (.link t)

/-- the lexical walk of `cs` from `O ++ w` never climbs above `O` and never meets a symbolic link -/
def LexOk (fs : Fs) (O : Path) : List Bytes → List Bytes → Prop
  | _, [] => True
  | w, c :: r =>
    if c = [dot, dot] then w ≠ [] ∧ LexOk fs O w.dropLast r
    else NotLink fs (O ++ (w ++ [c])) ∧ LexOk fs O (w ++ [c]) r

/-- `fs'` has no symbolic link that `fs` did not have -/
def Mono (fs fs' : Fs) : Prop := ∀ p, NotLink fs p → NotLink fs' p

theorem Mono.refl (fs : Fs) : Mono fs fs := fun _ h => h
theorem Mono.trans {a b c : Fs} (h1 : Mono a b) (h2 : Mono b c) : Mono a c := fun p h => h2 p (h1 p h)

theorem LexOk.mono {fs fs' : Fs} {O : Path} (hm : Mono fs fs') : ∀ (cs w : List Bytes),
    LexOk fs O w cs → LexOk fs' O w cs := by
  intro cs
  induction cs with
  | nil => intro w _; trivial
  | cons c r ih =>
    intro w h
    unfold LexOk at h ⊢
    split
    · rename_i hc; rw [if_pos hc] at h; exact ⟨h.1, ih _ h.2⟩
    · rename_i hc; rw [if_neg hc] at h; exact ⟨hm _ h.1, ih _ h.2⟩

theorem LexOk_append {fs : Fs} {O : Path} : ∀ (a w b : List Bytes),
    LexOk fs O w (a ++ b) ↔ LexOk fs O w a ∧ LexOk fs O (lexEnd w a) b := by
  intro a
  induction a with
  | nil => intro w b; simp [LexOk, lexEnd]
  | cons c r ih =>
    intro w b
    simp only [List.cons_append, LexOk, lexEnd]
    split
    · rw [ih]; exact and_assoc.symm
    · rw [ih]; exact and_assoc.symm

theorem lexEnd_append : ∀ (a w b : List Bytes), lexEnd w (a ++ b) = lexEnd (lexEnd w a) b := by
  intro a
  induction a with
  | nil => intro w b; rfl
  | cons c r ih =>
    intro w b
    simp only [List.cons_append, lexEnd]
    split <;> exact ih _ _

theorem lexEnd_nodd : ∀ (a w : List Bytes), [dot, dot] ∉ a → lexEnd w a = w ++ a := by
  intro a
  induction a with
  | nil => intro w _; simp [lexEnd]
  | cons c r ih =>
    intro w h
    simp only [List.mem_cons, not_or] at h
    simp only [lexEnd, if_neg (Ne.symm h.1)]
    rw [ih _ h.2]; simp

theorem dropLast_below (O w : List Bytes) (hw : w ≠ []) : (O ++ w).dropLast = O ++ w.dropLast :=
  List.dropLast_append_of_ne_nil hw

/-- along a link-free lexical walk, `resolve` (if it succeeds) is lexical -/
theorem resolve_lex {fs : Fs} {O : Path} (fl : Bool) : ∀ (cs : List Bytes) (fuel : Nat) (w rest : List Bytes) (p : Path),
    LexOk fs O w cs → resolve fs fl fuel (O ++ w) (cs ++ rest) = some p →
    ∃ fuel', resolve fs fl fuel' (O ++ lexEnd w cs) rest = some p := by
  intro cs
  induction cs with
  | nil => intro fuel w rest p _ h; exact ⟨fuel, h⟩
  | cons c r ih =>
    intro fuel w rest p hl h
    cases fuel with
    | zero => simp [resolve] at h
    | succ fuel =>
      simp only [List.cons_append, resolve] at h
      unfold LexOk at hl
      simp only [lexEnd]
      split at h
      · rename_i hc
        rw [if_pos hc] at hl ⊢
        rw [dropLast_below O w hl.1] at h
        exact ih fuel _ rest p hl.2 h
      · rename_i hc
        rw [if_neg hc] at hl ⊢
        rw [List.append_assoc] at h
        split at h
        · rename_i t ht; exact absurd ht (hl.1 t)
        · exact ih fuel _ rest p hl.2 h
        · split at h
          · rename_i hr
            have hr' := List.append_eq_nil_iff.1 hr
            obtain ⟨rfl, rfl⟩ := hr'
            exact ⟨1, by simpa [resolve, lexEnd] using h⟩
          · cases h
        · split at h
          · rename_i hr
            have hr' := List.append_eq_nil_iff.1 hr
            obtain ⟨rfl, rfl⟩ := hr'
            exact ⟨1, by simpa [resolve, lexEnd] using h⟩
          · cases h

theorem resolve_nil {fs : Fs} {fl : Bool} {fuel : Nat} {cur p : Path} (h : resolve fs fl fuel cur [] = some p) : p = cur := by
  cases fuel with
  | zero => simp [resolve] at h
  | succ f => simpa [resolve] using h.symm

/-- a successful `resolve` along a link-free lexical walk ends at the lexical end -/
theorem resolve_lex_eq {fs : Fs} {O : Path} {fl : Bool} {cs : List Bytes} {fuel : Nat} {w : List Bytes} {p : Path}
    (hl : LexOk fs O w cs) (h : resolve fs fl fuel (O ++ w) cs = some p) : p = O ++ lexEnd w cs := by
  have h' : resolve fs fl fuel (O ++ w) (cs ++ []) = some p := by simpa using h
  obtain ⟨f', hf⟩ := resolve_lex fl cs fuel w [] p hl h'
  exact resolve_nil hf

theorem resolve_last_nofollow {fs : Fs} {fuel : Nat} {cur p : Path} {c : Bytes} (hc : c ≠ [dot, dot])
    (h : resolve fs false fuel cur [c] = some p) : p = cur ++ [c] := by
  cases fuel with
  | zero => simp [resolve] at h
  | succ f =>
    simp only [resolve, if_neg hc] at h
    split at h
    · simpa using h.symm
    · exact resolve_nil h
    · simpa using h.symm
    · simpa using h.symm

/-- `resolve` without following the last component, the parent walk being link-free and lexical -/
theorem resolve_parent_last {fs : Fs} {O : Path} {cs : List Bytes} {fuel : Nat} {w : List Bytes} {c : Bytes} {p : Path}
    (hl : LexOk fs O w cs) (hc : c ≠ [dot, dot]) (h : resolve fs false fuel (O ++ w) (cs ++ [c]) = some p) :
    p = O ++ lexEnd w cs ++ [c] := by
  obtain ⟨f', hf⟩ := resolve_lex false cs fuel w [c] p hl h
  exact resolve_last_nofollow hc hf

theorem resolve_step_dir {fs : Fs} {fl : Bool} {f : Nat} {cur : Path} {d : Bytes} {cs : List Bytes}
    (hd : d ≠ [dot, dot]) (hl : fs.lookup (cur ++ [d]) = some .dir) :
    resolve fs fl (f + 1) cur (d :: cs) = resolve fs fl f (cur ++ [d]) cs := by
  simp only [resolve, if_neg hd, hl]

/-- an existing object whose path has no `..` is found by `resolve` (no-follow), given enough fuel -/
theorem resolve_existing {fs : Fs} (hc : Closed fs) : ∀ (cs : List Bytes) (cur : Path) (fuel : Nat),
    (fs.lookup (cur ++ cs)).isSome → [dot, dot] ∉ cs → cs.length < fuel →
    resolve fs false fuel cur cs = some (cur ++ cs) := by
  intro cs
  induction cs with
  | nil =>
    intro cur fuel _ _ hf
    cases fuel with
    | zero => simp at hf
    | succ f => simp [resolve]
  | cons c r ih =>
    intro cur fuel hs hdd hf
    simp only [List.mem_cons, not_or] at hdd
    cases fuel with
    | zero => simp at hf
    | succ f =>
      simp only [resolve, if_neg (Ne.symm hdd.1)]
      by_cases hr : r = []
      · subst hr
        simp only [List.length_cons, List.length_nil] at hf
        have hf1 : ∃ g, f = g + 1 := ⟨f - 1, by omega⟩
        obtain ⟨g, rfl⟩ := hf1
        split <;> simp [resolve]
      · have hpre : cur ++ [c] <+: cur ++ c :: r := ⟨r, by simp⟩
        have hne : cur ++ [c] ≠ cur ++ c :: r := by
          intro e
          have := List.append_cancel_left e
          simp at this; exact hr this
        rw [anc_dir hc hs hpre hne]
        have := ih (cur ++ [c]) f (by simpa using hs) hdd.2 (by simp at hf; omega)
        simpa using this

/-! ### one step: `Step O fs fs'` (parts (1), (2) of `OutsideSame`; part (3) follows from `Sane fs'`) -/

structure Step (O : Path) (fs fs' : Fs) : Prop where
  nodes : fs'.nodes.filter (outB O) = fs.nodes.filter (outB O)
  content : ∀ n ∈ fs.nodes, ¬ Inside O n.1 → ∀ ino, n.2 = .file ino → fs'.content ino = fs.content ino

theorem Step.refl (O : Path) (fs : Fs) : Step O fs fs := ⟨rfl, fun _ _ _ _ _ => rfl⟩

theorem Step.trans {O : Path} {a b c : Fs} (h1 : Step O a b) (h2 : Step O b c) : Step O a c := by
  refine ⟨h2.nodes.trans h1.nodes, fun n hn ho ino hi => ?_⟩
  have hb : n ∈ b.nodes := (outside_mem_iff h1.nodes n ho).2 hn
  rw [h2.content n hb ho ino hi, h1.content n hn ho ino hi]

theorem Step.outsideSame {O : Path} {fs fs' : Fs} (h : Step O fs fs') (hs : Sane fs' O) : OutsideSame O fs fs' :=
  ⟨h.nodes, h.content, fun n hn ho ino hi m hm hmi hm2 =>
    hs.sep m hm n ((outside_mem_iff h.nodes n ho).2 hn) ino hm2 hi hmi ho⟩

theorem OutsideSame.step {O : Path} {fs fs' : Fs} (h : OutsideSame O fs fs') : Step O fs fs' := ⟨h.nodes, h.content⟩

theorem lookup_setNode_eq (fs : Fs) (p : Path) (n : Node) (hp : p ≠ []) : (fs.setNode p n).lookup p = some n := by
  unfold Fs.lookup Fs.setNode
  simp only [hp, if_false]
  have : (fs.nodes.filter (·.1 != p)).find? (·.1 == p) = none := by
    apply List.find?_eq_none.2
    intro x hx
    have := (List.mem_filter.1 hx).2
    simpa using this
  rw [List.find?_append, this]
  simp

theorem lookup_filter_true (fs : Fs) (P : Path → Bool) (q : Path) (hq : P q = true) :
    ({ fs with nodes := fs.nodes.filter (fun n => P n.1) } : Fs).lookup q = fs.lookup q := by
  unfold Fs.lookup
  by_cases hn : q = []
  · simp [hn]
  · simp only [hn, if_false]
    rw [find_filter_key fs.nodes P q hq]

theorem lookup_filter_false (fs : Fs) (P : Path → Bool) (q : Path) (hq : P q = false) (hn : q ≠ []) :
    ({ fs with nodes := fs.nodes.filter (fun n => P n.1) } : Fs).lookup q = none := by
  unfold Fs.lookup
  simp only [hn, if_false, Option.map_eq_none_iff]
  apply List.find?_eq_none.2
  intro x hx
  have := (List.mem_filter.1 hx).2
  intro e
  have e' : x.1 = q := by simpa using e
  rw [e', hq] at this; cases this

theorem filter_out_setNode (O p : Path) (n : Node) (hin : Inside O p) (l : List (Path × Node)) :
    ((l.filter (·.1 != p)) ++ [(p, n)]).filter (outB O) = l.filter (outB O) := by
  have h1 : outB O (p, n) = false := by
    cases h : outB O (p, n) with
    | false => rfl
    | true => exact absurd hin ((outB_iff O (p, n)).1 h)
  rw [List.filter_append, List.filter_filter]
  simp only [List.filter_cons, h1, List.filter_nil, Bool.false_eq_true, if_false, List.append_nil]
  apply List.filter_congr
  intro x _
  cases hx : outB O x with
  | false => simp
  | true =>
    have : x.1 ≠ p := by
      intro e; rw [← e] at hin; exact ((outB_iff O x).1 hx) hin
    simp [this]

end Pna.Confined
