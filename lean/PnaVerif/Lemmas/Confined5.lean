import PnaVerif.Lemmas.Confined4
/-!
# Confinement (5): `extract_entry`
-/
namespace Pna.Confined
open Pna Pna.Fs Pna.Cli

/-- the entry name has a file name and no `..` component (sanitised names satisfy this unless empty) -/
def NameOk (name : Bytes) : Prop := comps name ≠ [] ∧ [dot, dot] ∉ comps name

instance (name : Bytes) : Decidable (NameOk name) := inferInstanceAs (Decidable (_ ∧ _))

/-- `LexOk` of the lexical parent gives `LexOk` of all but the last component -/
theorem lexOk_init {fs : Fs} {O : Path} {x : Bytes} {init : List Bytes} {l : Bytes} (hx : isAbs x = false)
    (hc : comps x = init ++ [l]) (h : LexOk fs O [] (comps ((parentP x).getD []))) : LexOk fs O [] init := by
  obtain ⟨tl, htl, he⟩ := comps_parent_tail x hx
  rcases htl with rfl | ⟨l', rfl⟩
  · rw [List.append_nil] at he
    rw [← he, hc] at h
    exact ((LexOk_append _ _ _).1 h).1
  · rw [hc] at he
    have := List.append_inj' he rfl
    rw [this.1]; exact h

/-- what a passed `ensure_confined(outDir, parent(name))` gives for an acceptable name -/
theorem name_shape {fs : Fs} {cwd : Path} {outDir d name : Bytes} (ho : OutDir outDir d)
    (hs : Sane fs (cwd ++ [d])) (hn : NameOk name) (h : confined fs cwd outDir ((parentP name).getD []) = true) :
    ∃ init last par pcs, comps name = init ++ [last] ∧ last ≠ [dot, dot] ∧ [dot, dot] ∉ init ∧
      isAbs name = false ∧
      isAbs (joinP outDir name) = false ∧ comps (joinP outDir name) = d :: (init ++ [last]) ∧
      parentP (joinP outDir name) = some par ∧ isAbs par = false ∧ comps par = d :: pcs ∧
      LexOk fs (cwd ++ [d]) [] pcs ∧ LexOk fs (cwd ++ [d]) [] init := by
  have hnn := ncomps_ne_nil_of_comps hn.1
  have hrel : isAbs name = false := by
    cases ha : isAbs name with
    | false => rfl
    | true =>
      obtain ⟨q, hq, hqa⟩ := parentP_abs name ha hnn
      rw [hq] at h
      simp [confined, hqa] at h
  have ⟨_, hlex⟩ := confined_lexOk ho hs h
  have hcl := List.dropLast_concat_getLast hn.1
  have hdd := hn.2
  rw [← hcl] at hdd
  simp only [List.mem_append, List.mem_singleton, not_or] at hdd
  have ⟨hja, hjc⟩ := ho.comps_join name hrel
  obtain ⟨par, hp, hpa, hpc⟩ := ho.parent_join name hrel hnn
  refine ⟨_, _, par, _, hcl.symm, Ne.symm hdd.2, hdd.1, hrel, hja, by rw [hjc, hcl], hp, hpa, hpc, hlex,
    lexOk_init hrel hcl.symm hlex⟩

/-- facts about the destination string that do not depend on the file-system state -/
structure PathCtx (cwd : Path) (d path : Bytes) (init : List Bytes) (last : Bytes) : Prop where
  hd : d ≠ [dot, dot]
  hlast : last ≠ [dot, dot]
  hdd : [dot, dot] ∉ init
  abs : isAbs path = false
  comps : comps path = d :: (init ++ [last])

theorem lexEnd_init {init : List Bytes} (h : [dot, dot] ∉ init) : lexEnd [] init = init := by
  rw [lexEnd_nodd init [] h]; simp

theorem lexOk_snoc {fs : Fs} {O : Path} {init : List Bytes} {last : Bytes} (hl : LexOk fs O [] init)
    (hdd : [dot, dot] ∉ init) (hlast : last ≠ [dot, dot]) (hn : NotLink fs (O ++ (init ++ [last]))) :
    LexOk fs O [] (init ++ [last]) := by
  rw [LexOk_append, lexEnd_init hdd]
  refine ⟨hl, ?_⟩
  unfold LexOk
  rw [if_neg hlast]
  exact ⟨hn, trivial⟩

/-- the conditional `remove(path)` step -/
theorem remove_step {cwd : Path} {d path : Bytes} {init : List Bytes} {last : Bytes} {fs1 : Fs}
    (pc : PathCtx cwd d path init last) (hs : Sane fs1 (cwd ++ [d])) (hl : LexOk fs1 (cwd ++ [d]) [] init)
    (b : Fs → Bool) :
    let r2 := step (fs1, none) (fun fs => if b fs then fs.remove cwd path else .ok fs)
    Sane r2.1 (cwd ++ [d]) ∧ Step (cwd ++ [d]) fs1 r2.1 ∧ Mono fs1 r2.1 ∧
      (r2.2 = none → b fs1 = true → r2.1.lookup (cwd ++ [d] ++ (init ++ [last])) = none) := by
  intro r2
  cases hb : b fs1 with
  | false =>
    have : r2 = (fs1, none) := by simp [r2, step, hb]
    rw [this]
    exact ⟨hs, Step.refl _ _, Mono.refl _, fun _ h => by cases h⟩
  | true =>
    cases hrem : fs1.remove cwd path with
    | error e =>
      have : r2 = (fs1, some (.fs e)) := by simp [r2, step, hb, hrem]
      rw [this]
      exact ⟨hs, Step.refl _ _, Mono.refl _, fun h => by cases h⟩
    | ok fs2 =>
      have : r2 = (fs2, none) := by simp [r2, step, hb, hrem]
      rw [this]
      have ⟨⟨h1, h2, h3⟩, h4⟩ := remove_confined pc.hd pc.hlast pc.abs pc.comps hs hl hrem
      rw [lexEnd_init pc.hdd, List.append_assoc] at h4
      exact ⟨h1, h2, h3, fun _ _ => h4⟩

/-- a last `step` whose effect (when performed) is confined -/
theorem final_step {O : Path} (r : Fs × Option XErr) (f : Fs → Except FsErr Fs) (hs : Sane r.1 O)
    (hf : r.2 = none → ∀ fs3, f r.1 = .ok fs3 → Sane fs3 O ∧ Step O r.1 fs3) :
    Sane (step r f).1 O ∧ Step O r.1 (step r f).1 := by
  obtain ⟨fs2, x⟩ := r
  cases x with
  | some e => exact ⟨hs, Step.refl _ _⟩
  | none =>
    cases h : f fs2 with
    | error e => simp only [step, h]; exact ⟨hs, Step.refl _ _⟩
    | ok fs3 => simp only [step, h]; exact hf rfl fs3 h

/-- after `if isLink { remove(path) }` the whole destination walk is link-free -/
theorem after_remove {cwd : Path} {d path : Bytes} {init : List Bytes} {last : Bytes} {fs1 : Fs}
    (pc : PathCtx cwd d path init last) (hs : Sane fs1 (cwd ++ [d])) (hl : LexOk fs1 (cwd ++ [d]) [] init)
    (isLink : Bool) (hnl : isLink = false → NotLink fs1 (cwd ++ [d] ++ (init ++ [last]))) :
    let r2 := step (fs1, none) (fun fs => if isLink then fs.remove cwd path else .ok fs)
    Sane r2.1 (cwd ++ [d]) ∧ Step (cwd ++ [d]) fs1 r2.1 ∧
      (r2.2 = none → LexOk r2.1 (cwd ++ [d]) [] (init ++ [last])) := by
  intro r2
  have ⟨h1, h2, h3, h4⟩ := remove_step pc hs hl (fun _ => isLink)
  refine ⟨h1, h2, fun hn => lexOk_snoc (hl.mono h3 _ _) pc.hdd pc.hlast ?_⟩
  cases hb : isLink with
  | false => exact h3 _ (hnl hb)
  | true =>
    intro t ht
    have := h4 hn hb
    rw [this] at ht; cases ht

theorem nodd_snoc {init : List Bytes} {last : Bytes} (h1 : [dot, dot] ∉ init) (h2 : last ≠ [dot, dot]) :
    [dot, dot] ∉ init ++ [last] := by
  intro h
  rcases List.mem_append.1 h with h | h
  · exact h1 h
  · simp at h; exact h2 h.symm

/-- kind 0 (regular file) after `create_dir_all(parent)` -/
theorem tail_file {cwd : Path} {d path : Bytes} {init : List Bytes} {last : Bytes} {fs1 : Fs} (content : Bytes)
    (pc : PathCtx cwd d path init last) (hs : Sane fs1 (cwd ++ [d])) (hl : LexOk fs1 (cwd ++ [d]) [] init)
    (isLink : Bool) (hnl : isLink = false → NotLink fs1 (cwd ++ [d] ++ (init ++ [last]))) :
    let r := step (step (fs1, none) (fun fs => if isLink then fs.remove cwd path else .ok fs))
      (fun fs => fs.createFile cwd path content)
    Sane r.1 (cwd ++ [d]) ∧ Step (cwd ++ [d]) fs1 r.1 := by
  intro r
  have ⟨h1, h2, h3⟩ := after_remove pc hs hl isLink hnl
  have hdd := nodd_snoc pc.hdd pc.hlast
  have := final_step _ (fun fs => fs.createFile cwd path content) h1 (fun hn fs3 hf =>
    have h := createFile_confined content pc.hd pc.abs pc.comps h1 (h3 hn)
      (by rw [lexEnd_init hdd]; simp) hf
    ⟨h.1, h.2.1⟩)
  exact ⟨this.1, h2.trans this.2⟩

/-- kind 1 (directory) after `create_dir_all(parent)` -/
theorem tail_dir {cwd : Path} {d path : Bytes} {init : List Bytes} {last : Bytes} {fs1 : Fs}
    (pc : PathCtx cwd d path init last) (hs : Sane fs1 (cwd ++ [d])) (hl : LexOk fs1 (cwd ++ [d]) [] init)
    (isLink : Bool) (hnl : isLink = false → NotLink fs1 (cwd ++ [d] ++ (init ++ [last]))) :
    let r := step (step (fs1, none) (fun fs => if isLink then fs.remove cwd path else .ok fs))
      (fun fs => fs.createDirAll cwd path)
    Sane r.1 (cwd ++ [d]) ∧ Step (cwd ++ [d]) fs1 r.1 := by
  intro r
  have ⟨h1, h2, h3⟩ := after_remove pc hs hl isLink hnl
  have := final_step _ (fun fs => fs.createDirAll cwd path) h1 (fun hn fs3 hf =>
    have h := createDirAll_confined pc.hd pc.abs pc.comps h1 (h3 hn) hf
    ⟨h.1, h.2.1⟩)
  exact ⟨this.1, h2.trans this.2⟩

/-- kind 2 (symbolic link) after `create_dir_all(parent)` -/
theorem tail_symlink {cwd : Path} {d path : Bytes} {init : List Bytes} {last : Bytes} {fs1 : Fs} (target : Bytes)
    (pc : PathCtx cwd d path init last) (hs : Sane fs1 (cwd ++ [d])) (hl : LexOk fs1 (cwd ++ [d]) [] init)
    (b : Fs → Bool) :
    let r := step (step (fs1, none) (fun fs => if b fs then fs.remove cwd path else .ok fs))
      (fun fs => fs.symlink cwd target path)
    Sane r.1 (cwd ++ [d]) ∧ Step (cwd ++ [d]) fs1 r.1 := by
  intro r
  have ⟨h1, h2, h3, _⟩ := remove_step pc hs hl b
  have := final_step _ (fun fs => fs.symlink cwd target path) h1 (fun _ fs3 hf =>
    symlink_confined target pc.hd pc.hlast pc.abs pc.comps h1 (hl.mono h3 _ _) hf)
  exact ⟨this.1, h2.trans this.2⟩

/-- what the two checks on a hard-link source `x` give -/
theorem src_shape {fs : Fs} {cwd : Path} {outDir d x : Bytes} (ho : OutDir outDir d)
    (hs : Sane fs (cwd ++ [d])) (h : confined fs cwd outDir ((parentP x).getD []) = true)
    (hnf : noFileName x = false) :
    ∃ ss sc, sc ≠ [dot, dot] ∧ isAbs (joinP outDir x) = false ∧ comps (joinP outDir x) = d :: (ss ++ [sc]) ∧
      LexOk fs (cwd ++ [d]) [] ss := by
  have hne : comps x ≠ [] := by
    intro e; simp [noFileName, e] at hnf
  have hlast : (comps x).getLast hne ≠ [dot, dot] := by
    intro e
    have : (comps x).getLast? = some [dot, dot] := by rw [List.getLast?_eq_some_getLast hne, e]
    simp [noFileName, this] at hnf
  have hnn := ncomps_ne_nil_of_comps hne
  have hrel : isAbs x = false := by
    cases ha : isAbs x with
    | false => rfl
    | true =>
      obtain ⟨q, hq, hqa⟩ := parentP_abs x ha hnn
      rw [hq] at h
      simp [confined, hqa] at h
  have ⟨_, hlex⟩ := confined_lexOk ho hs h
  have hcl := List.dropLast_concat_getLast hne
  have ⟨hja, hjc⟩ := ho.comps_join x hrel
  exact ⟨_, _, hlast, hja, by rw [hjc, hcl], lexOk_init hrel hcl.symm hlex⟩

/-- kind 3 (hard link) after `create_dir_all(parent)` and the checks on the source -/
theorem tail_hard {cwd : Path} {d path original : Bytes} {init ss : List Bytes} {last sc : Bytes} {fs1 : Fs}
    (pc : PathCtx cwd d path init last) (hs : Sane fs1 (cwd ++ [d])) (hl : LexOk fs1 (cwd ++ [d]) [] init)
    (hsc : sc ≠ [dot, dot]) (hoa : isAbs original = false) (hoc : comps original = d :: (ss ++ [sc]))
    (hsl : LexOk fs1 (cwd ++ [d]) [] ss) (b : Fs → Bool) :
    let r := step (step (fs1, none) (fun fs => if b fs then fs.remove cwd path else .ok fs))
      (fun fs => fs.hardLink cwd original path)
    Sane r.1 (cwd ++ [d]) ∧ Step (cwd ++ [d]) fs1 r.1 := by
  intro r
  have ⟨h1, h2, h3, _⟩ := remove_step pc hs hl b
  have := final_step _ (fun fs => fs.hardLink cwd original path) h1 (fun _ fs3 hf =>
    hardLink_confined pc.hd pc.hlast hsc pc.abs pc.comps hoa hoc h1 (hl.mono h3 _ _) (hsl.mono h3 _ _) hf)
  exact ⟨this.1, h2.trans this.2⟩

end Pna.Confined
