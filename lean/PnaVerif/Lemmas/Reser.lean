import PnaVerif.Model.Entry
import PnaVerif.Lemmas.Codec
import PnaVerif.Lemmas.Name
import PnaVerif.Lemmas.Flatten
/-!
  Re-serialisation of entries (lib/src/entry.rs): `NormalEntry::try_from(RawEntry)` against
  `into_chunks`/`write_in`, and the same for `SolidEntry`.

  * `parseN_serN`          decode ∘ canonical-encode = id on well-formed entries (data re-cut at u32::MAX)
  * `serN_recut`, `recut_meaning`   the re-cut is invisible on the wire and in meaning
  * `parseN_WF`            everything the parser accepts is well-formed (foreign layouts included)
  * `parseN_keeps_unknown` unknown chunks are kept, in order
  * `normal_reser_stable`  decode → write → decode → write = decode → write
  * `parseS_serS`, `parseS_WF`, `solid_reser_stable`   the solid-entry analogues (exact, no re-cut)

  Auxiliary result of independent interest: `validUtf8_sanitize` (the name sanitiser preserves
  UTF-8 validity, because `/` never occurs inside a multi-byte sequence).
-/
namespace Pna
open ChunkType

-- ---------------------------------------------------------------- well-formedness

def Permission.WF (p : Permission) : Prop :=
  p.uid < 2 ^ 64 ∧ p.gid < 2 ^ 64 ∧ p.mode < 2 ^ 16 ∧ p.uname.length ≤ 255 ∧ p.gname.length ≤ 255 ∧
  validUtf8 p.uname = true ∧ validUtf8 p.gname = true

def XAttr.WF (x : XAttr) : Prop :=
  x.name.length < 2 ^ 32 ∧ x.value.length < 2 ^ 32 ∧ validUtf8 x.name = true

def NormalEntry.WF (e : NormalEntry) : Prop :=
  e.header.major = 0 ∧ e.header.minor = 0 ∧ validKind e.header.kind = true ∧
  validCompression e.header.compression = true ∧ validEncryption e.header.encryption = true ∧
  validCipherMode e.header.cipherMode = true ∧ validUtf8 e.header.name = true ∧
  sanitize e.header.name = e.header.name ∧
  (∀ c ∈ e.extra, interpretedN c.ty = false) ∧
  (∀ p, e.phsf = some p → validUtf8 p = true) ∧
  (∀ n, e.md.rawSize = some n → n < 2 ^ 128) ∧
  (∀ n, e.md.created = some n → n < 2 ^ 64) ∧ (∀ n, e.md.modified = some n → n < 2 ^ 64) ∧
  (∀ n, e.md.accessed = some n → n < 2 ^ 64) ∧
  (∀ p, e.md.permission = some p → p.WF) ∧ (∀ x ∈ e.xattrs, x.WF)

/-- data slices re-cut the way the serialiser does (`chunks(u32::MAX)`; empty slices vanish) -/
def NormalEntry.recut (e : NormalEntry) : NormalEntry :=
  { e with data := e.data.flatMap (rustChunks maxChunkData) }

-- ---------------------------------------------------------------- UTF-8 validity of sanitised names

theorem validUtf8_iff (bs : Bytes) :
    validUtf8 bs = true ↔ ∃ m : List Char, bs = m.flatMap String.utf8EncodeChar := by
  unfold validUtf8
  rw [ByteArray.validateUTF8_eq_true_iff]
  constructor
  · rintro ⟨m, hm⟩
    refine ⟨m, ?_⟩
    have := congrArg ByteArray.data hm
    simp only [List.utf8Encode, List.data_toByteArray] at this
    simpa using this
  · rintro ⟨m, rfl⟩
    refine ⟨m, ?_⟩
    simp [List.utf8Encode, ByteArray.ext_iff, List.data_toByteArray]

theorem validUtf8_nil : validUtf8 [] = true := (validUtf8_iff _).mpr ⟨[], rfl⟩

theorem validUtf8_append {a b : Bytes} (ha : validUtf8 a = true) (hb : validUtf8 b = true) :
    validUtf8 (a ++ b) = true := by
  obtain ⟨m, rfl⟩ := (validUtf8_iff _).mp ha
  obtain ⟨m', rfl⟩ := (validUtf8_iff _).mp hb
  exact (validUtf8_iff _).mpr ⟨m ++ m', by simp⟩

theorem utf8EncodeChar_slash : String.utf8EncodeChar '/' = [slash] := by decide

theorem validUtf8_slash : validUtf8 [slash] = true :=
  (validUtf8_iff _).mpr ⟨['/'], by simp [utf8EncodeChar_slash]⟩

theorem validUtf8_encChar (c : Char) : validUtf8 (String.utf8EncodeChar c) = true :=
  (validUtf8_iff _).mpr ⟨[c], by simp⟩

theorem slash_not_mem_encChar (c : Char) (hc : c ≠ '/') : slash ∉ String.utf8EncodeChar c := by
  have key : ∀ n : Nat, 128 ≤ n → n < 256 → UInt8.ofNat n ≠ slash := by
    intro n h1 h2 h
    have := congrArg UInt8.toNat h
    simp [UInt8.toNat_ofNat', slash] at this
    omega
  intro hmem
  unfold String.utf8EncodeChar at hmem
  simp only at hmem
  split at hmem
  · rename_i h7
    simp only [List.mem_singleton] at hmem
    have := congrArg UInt8.toNat hmem
    simp [UInt8.toNat_ofNat', slash] at this
    apply hc
    apply Char.ext
    apply UInt32.toNat_inj.mp
    have h0 : c.toNat = c.val.toNat := rfl
    have h3 : c.val.toNat = 47 := by omega
    rw [h3]; rfl
  · split at hmem
    · simp only [List.mem_cons, List.not_mem_nil, or_false] at hmem
      rcases hmem with h | h
      · exact key _ (by omega) (by omega) h.symm
      · exact key _ (by omega) (by omega) h.symm
    · split at hmem
      · simp only [List.mem_cons, List.not_mem_nil, or_false] at hmem
        rcases hmem with h | h | h
        · exact key _ (by omega) (by omega) h.symm
        · exact key _ (by omega) (by omega) h.symm
        · exact key _ (by omega) (by omega) h.symm
      · simp only [List.mem_cons, List.not_mem_nil, or_false] at hmem
        rcases hmem with h | h | h | h
        · exact key _ (by omega) (by omega) h.symm
        · exact key _ (by omega) (by omega) h.symm
        · exact key _ (by omega) (by omega) h.symm
        · exact key _ (by omega) (by omega) h.symm

theorem splitSlash_append_noslash (p r : Bytes) (hp : slash ∉ p) :
    ∃ h t, splitSlash r = h :: t ∧ splitSlash (p ++ r) = (p ++ h) :: t := by
  induction p with
  | nil =>
    cases hs : splitSlash r with
    | nil => exact absurd hs (splitSlash_ne_nil r)
    | cons h t => exact ⟨h, t, rfl, by simpa using hs⟩
  | cons b p ih =>
    simp only [List.mem_cons, not_or] at hp
    obtain ⟨h, t, hs, hs'⟩ := ih hp.2
    obtain ⟨h2, t2, hs2, hs2'⟩ := splitSlash_cons_ne b (p ++ r) (fun e => hp.1 e.symm)
    rw [hs'] at hs2
    simp only [List.cons.injEq] at hs2
    obtain ⟨rfl, rfl⟩ := hs2
    exact ⟨h, t, hs, by rw [List.cons_append, hs2']; rfl⟩

theorem splitSlash_valid_aux (m : List Char) :
    ∀ c ∈ splitSlash (m.flatMap String.utf8EncodeChar), validUtf8 c = true := by
  induction m with
  | nil =>
    intro c hc
    simp [splitSlash] at hc
    subst hc; exact validUtf8_nil
  | cons ch m ih =>
    rw [List.flatMap_cons]
    by_cases hch : ch = '/'
    · subst hch
      rw [utf8EncodeChar_slash]
      intro c hc
      simp only [List.singleton_append, splitSlash, ite_true, List.mem_cons] at hc
      rcases hc with rfl | hc
      · exact validUtf8_nil
      · exact ih c hc
    · obtain ⟨h, t, hs, hs'⟩ := splitSlash_append_noslash (String.utf8EncodeChar ch)
        (m.flatMap String.utf8EncodeChar) (slash_not_mem_encChar ch hch)
      rw [hs']
      rw [hs] at ih
      intro c hc
      simp only [List.mem_cons] at hc
      rcases hc with rfl | hc
      · exact validUtf8_append (validUtf8_encChar ch) (ih h (by simp))
      · exact ih c (by simp [hc])

theorem joinSlash_valid (cs : List Bytes) (h : ∀ c ∈ cs, validUtf8 c = true) :
    validUtf8 (joinSlash cs) = true := by
  induction cs with
  | nil => exact validUtf8_nil
  | cons c cs ih =>
    cases cs with
    | nil => simp only [joinSlash]; exact h c (by simp)
    | cons c' cs' =>
      simp only [joinSlash]
      have : c ++ slash :: joinSlash (c' :: cs') = c ++ ([slash] ++ joinSlash (c' :: cs')) := by simp
      rw [this]
      exact validUtf8_append (h c (by simp)) (validUtf8_append validUtf8_slash (ih (fun x hx => h x (by simp [hx]))))

/-- The sanitiser maps valid UTF-8 to valid UTF-8 (`/` never occurs inside a multi-byte sequence). -/
theorem validUtf8_sanitize (s : Bytes) (h : validUtf8 s = true) : validUtf8 (sanitize s) = true := by
  obtain ⟨m, rfl⟩ := (validUtf8_iff _).mp h
  unfold sanitize
  apply joinSlash_valid
  intro c hc
  exact splitSlash_valid_aux m c (List.mem_filter.mp hc).1


theorem Outcome.bind_eq_ok {α β} {x : Outcome α} {f : α → Outcome β} {b : β}
    (h : (x >>= f) = .ok b) : ∃ a, x = .ok a ∧ f a = .ok b := by
  cases x with
  | ok a => exact ⟨a, rfl, by simpa using h⟩
  | error e => simp at h
  | panic s => simp at h

theorem readExact_ok {n : Nat} {bs x r : Bytes} (h : readExact n bs = .ok (x, r)) :
    x = bs.take n ∧ r = bs.drop n ∧ x.length = n := by
  unfold readExact at h
  split at h
  · simp at h
  · rename_i hl
    simp only [Outcome.ok.injEq, Prod.mk.injEq] at h
    obtain ⟨rfl, rfl⟩ := h
    refine ⟨rfl, rfl, ?_⟩
    rw [List.length_take]; omega

theorem pow256_8 : (256 : Nat) ^ 8 = 2 ^ 64 := by decide
theorem pow256_16 : (256 : Nat) ^ 16 = 2 ^ 128 := by decide
theorem pow256_4 : (256 : Nat) ^ 4 = 2 ^ 32 := by decide
theorem pow256_2 : (256 : Nat) ^ 2 = 2 ^ 16 := by decide

theorem fromBe_lt_of_len (bs : Bytes) (k : Nat) (h : bs.length = k) : fromBe bs < 256 ^ k := by
  subst h; exact fromBe_lt bs

theorem decTime_lt {bs : Bytes} {n : Nat} (h : decTime bs = .ok n) : n < 2 ^ 64 := by
  unfold decTime at h
  split at h
  · rename_i h8
    simp only [Outcome.ok.injEq] at h
    subst h
    rw [← pow256_8]; exact fromBe_lt_of_len bs 8 h8
  · simp at h

theorem decFSIZ_lt (bs : Bytes) : decFSIZ bs < 2 ^ 128 := by
  unfold decFSIZ
  have h1 := fromBe_lt (bs.drop (bs.length - 16))
  have h2 : (bs.drop (bs.length - 16)).length ≤ 16 := by rw [List.length_drop]; omega
  have h3 : 256 ^ (bs.drop (bs.length - 16)).length ≤ 256 ^ 16 :=
    Nat.pow_le_pow_right (by decide) h2
  rw [← pow256_16]; omega

theorem decFPRM_WF {bs : Bytes} {p : Permission} (h : decFPRM bs = .ok p) : p.WF := by
  unfold decFPRM at h
  obtain ⟨⟨uidB, r1⟩, h1, h⟩ := Outcome.bind_eq_ok h
  simp only [] at h
  obtain ⟨⟨ulB, r2⟩, h2, h⟩ := Outcome.bind_eq_ok h
  simp only [] at h
  obtain ⟨⟨uname, r3⟩, h3, h⟩ := Outcome.bind_eq_ok h
  simp only [] at h
  split at h
  · simp at h
  rename_i hvu
  obtain ⟨⟨gidB, r4⟩, h4, h⟩ := Outcome.bind_eq_ok h
  simp only [] at h
  obtain ⟨⟨glB, r5⟩, h5, h⟩ := Outcome.bind_eq_ok h
  simp only [] at h
  obtain ⟨⟨gname, r6⟩, h6, h⟩ := Outcome.bind_eq_ok h
  simp only [] at h
  split at h
  · simp at h
  rename_i hvg
  obtain ⟨⟨modeB, r7⟩, h7, h⟩ := Outcome.bind_eq_ok h
  simp only [Outcome.ok.injEq] at h
  subst h
  have l1 := (readExact_ok h1).2.2
  have l2 := (readExact_ok h2).2.2
  have l3 := (readExact_ok h3).2.2
  have l4 := (readExact_ok h4).2.2
  have l5 := (readExact_ok h5).2.2
  have l6 := (readExact_ok h6).2.2
  have l7 := (readExact_ok h7).2.2
  have b1 := fromBe_lt_of_len _ _ l1
  have b2 := fromBe_lt_of_len _ _ l2
  have b4 := fromBe_lt_of_len _ _ l4
  have b5 := fromBe_lt_of_len _ _ l5
  have b7 := fromBe_lt_of_len _ _ l7
  rw [pow256_8] at b1 b4
  rw [pow256_2] at b7
  refine ⟨b1, b4, b7, ?_, ?_, ?_, ?_⟩
  · show uname.length ≤ 255
    omega
  · show gname.length ≤ 255
    omega
  · simpa using hvu
  · simpa using hvg

theorem splitFirstChunk_some {n : Nat} {bs x r : Bytes} (h : splitFirstChunk n bs = some (x, r)) :
    x = bs.take n ∧ r = bs.drop n ∧ x.length = n := by
  unfold splitFirstChunk at h
  split at h
  · simp only [Option.some.injEq, Prod.mk.injEq] at h
    obtain ⟨rfl, rfl⟩ := h
    refine ⟨rfl, rfl, ?_⟩
    rw [List.length_take]; omega
  · simp at h

theorem splitPayload_ok {n : Nat} {bs x r : Bytes} (h : splitPayload bs n = .ok (x, r)) :
    x = bs.take n ∧ r = bs.drop n ∧ x.length = n := by
  unfold splitPayload at h
  split at h
  · simp only [Outcome.ok.injEq, Prod.mk.injEq] at h
    obtain ⟨rfl, rfl⟩ := h
    refine ⟨rfl, rfl, ?_⟩
    rw [List.length_take]; omega
  · simp at h

theorem decXATR_WF {bs : Bytes} {x : XAttr} (h : decXATR bs = .ok x) : x.WF := by
  unfold decXATR at h
  split at h
  · simp at h
  rename_i l1 r1 h1
  split at h
  · simp at h
  · simp at h
  rename_i name r2 h2
  split at h
  · simp at h
  rename_i hv
  split at h
  · simp at h
  rename_i l3 r3 h3
  split at h
  · rename_i hle
    simp only [Outcome.ok.injEq] at h
    subst h
    have a1 := (splitFirstChunk_some h1).2.2
    have a2 := (splitPayload_ok h2).2.2
    have a3 := (splitFirstChunk_some h3).2.2
    have b1 := fromBe_lt_of_len _ _ a1
    have b3 := fromBe_lt_of_len _ _ a3
    rw [pow256_4] at b1 b3
    refine ⟨?_, ?_, ?_⟩
    · show name.length < 2 ^ 32
      omega
    · show (r3.take (fromBe l3)).length < 2 ^ 32
      rw [List.length_take]; omega
    · simpa using hv
  · simp at h

theorem decFHED_WF {bs : Bytes} {h : EntryHeader} (hd : decFHED bs = .ok h) :
    validKind h.kind = true ∧ validCompression h.compression = true ∧
    validEncryption h.encryption = true ∧ validCipherMode h.cipherMode = true := by
  match bs, hd with
  | a :: b :: k :: c :: e :: m :: name, hd =>
    simp only [decFHED] at hd
    split at hd; · simp at hd
    rename_i g1
    split at hd; · simp at hd
    rename_i g2
    split at hd; · simp at hd
    rename_i g3
    split at hd; · simp at hd
    rename_i g4
    split at hd; · simp at hd
    simp only [Outcome.ok.injEq] at hd
    subst hd
    simp at g1 g2 g3 g4
    exact ⟨g1, g2, g3, g4⟩

theorem decSHED_WF {bs : Bytes} {h : SolidHeader} (hd : decSHED bs = .ok h) :
    h.major < 256 ∧ h.minor < 256 ∧ validCompression h.compression = true ∧
    validEncryption h.encryption = true ∧ validCipherMode h.cipherMode = true := by
  match bs, hd with
  | [a, b, c, e, m], hd =>
    simp only [decSHED] at hd
    split at hd; · simp at hd
    rename_i g2
    split at hd; · simp at hd
    rename_i g3
    split at hd; · simp at hd
    rename_i g4
    simp only [Outcome.ok.injEq] at hd
    subst hd
    simp at g2 g3 g4
    exact ⟨a.toNat_lt, b.toNat_lt, g2, g3, g4⟩

-- ---------------------------------------------------------------- parser loop: inversion and invariant

/-- What one successful, non-terminating iteration of the parser loop does. -/
theorem nStep_some {a a' : NAcc} {c : Chunk} (h : nStep a c = .ok (some a')) :
    c.ty ≠ FEND ∧
    ((c.ty = FHED ∧ ∃ hd, decFHED c.data = .ok hd ∧ a' = { a with info := some hd }) ∨
     (c.ty = PHSF ∧ validUtf8 c.data = true ∧ a' = { a with phsf := some c.data }) ∨
     (c.ty = FDAT ∧ a' = { a with data := c.data :: a.data }) ∨
     (c.ty = fSIZ ∧ a' = { a with size := some (decFSIZ c.data) }) ∨
     (c.ty = cTIM ∧ ∃ t, decTime c.data = .ok t ∧ a' = { a with ctime := some t }) ∨
     (c.ty = mTIM ∧ ∃ t, decTime c.data = .ok t ∧ a' = { a with mtime := some t }) ∨
     (c.ty = aTIM ∧ ∃ t, decTime c.data = .ok t ∧ a' = { a with atime := some t }) ∨
     (c.ty = fPRM ∧ ∃ p, decFPRM c.data = .ok p ∧ a' = { a with perm := some p }) ∨
     (c.ty = xATR ∧ ∃ x, decXATR c.data = .ok x ∧ a' = { a with xattrs := x :: a.xattrs }) ∨
     (interpretedN c.ty = false ∧ a' = { a with extra := c :: a.extra })) := by
  unfold nStep at h
  by_cases n0 : c.ty = FEND
  · rw [if_pos n0] at h; simp at h
  rw [if_neg n0] at h
  refine ⟨n0, ?_⟩
  by_cases n1 : c.ty = FHED
  · rw [if_pos n1] at h
    obtain ⟨v, hv, h⟩ := Outcome.bind_eq_ok h
    simp only [Outcome.ok.injEq, Option.some.injEq] at h
    exact Or.inl ⟨n1, v, hv, h.symm⟩
  rw [if_neg n1] at h
  refine Or.inr ?_
  by_cases n2 : c.ty = PHSF
  · rw [if_pos n2] at h
    by_cases hv : validUtf8 c.data = true
    · rw [if_pos hv] at h
      simp only [Outcome.ok.injEq, Option.some.injEq] at h
      exact Or.inl ⟨n2, hv, h.symm⟩
    · rw [if_neg hv] at h; simp at h
  rw [if_neg n2] at h
  refine Or.inr ?_
  by_cases n3 : c.ty = FDAT
  · rw [if_pos n3] at h
    simp only [Outcome.ok.injEq, Option.some.injEq] at h
    exact Or.inl ⟨n3, h.symm⟩
  rw [if_neg n3] at h
  refine Or.inr ?_
  by_cases n4 : c.ty = fSIZ
  · rw [if_pos n4] at h
    simp only [Outcome.ok.injEq, Option.some.injEq] at h
    exact Or.inl ⟨n4, h.symm⟩
  rw [if_neg n4] at h
  refine Or.inr ?_
  by_cases n5 : c.ty = cTIM
  · rw [if_pos n5] at h
    obtain ⟨v, hv, h⟩ := Outcome.bind_eq_ok h
    simp only [Outcome.ok.injEq, Option.some.injEq] at h
    exact Or.inl ⟨n5, v, hv, h.symm⟩
  rw [if_neg n5] at h
  refine Or.inr ?_
  by_cases n6 : c.ty = mTIM
  · rw [if_pos n6] at h
    obtain ⟨v, hv, h⟩ := Outcome.bind_eq_ok h
    simp only [Outcome.ok.injEq, Option.some.injEq] at h
    exact Or.inl ⟨n6, v, hv, h.symm⟩
  rw [if_neg n6] at h
  refine Or.inr ?_
  by_cases n7 : c.ty = aTIM
  · rw [if_pos n7] at h
    obtain ⟨v, hv, h⟩ := Outcome.bind_eq_ok h
    simp only [Outcome.ok.injEq, Option.some.injEq] at h
    exact Or.inl ⟨n7, v, hv, h.symm⟩
  rw [if_neg n7] at h
  refine Or.inr ?_
  by_cases n8 : c.ty = fPRM
  · rw [if_pos n8] at h
    obtain ⟨v, hv, h⟩ := Outcome.bind_eq_ok h
    simp only [Outcome.ok.injEq, Option.some.injEq] at h
    exact Or.inl ⟨n8, v, hv, h.symm⟩
  rw [if_neg n8] at h
  refine Or.inr ?_
  by_cases n9 : c.ty = xATR
  · rw [if_pos n9] at h
    obtain ⟨v, hv, h⟩ := Outcome.bind_eq_ok h
    simp only [Outcome.ok.injEq, Option.some.injEq] at h
    exact Or.inl ⟨n9, v, hv, h.symm⟩
  rw [if_neg n9] at h
  refine Or.inr ?_
  simp only [Outcome.ok.injEq, Option.some.injEq] at h
  refine ⟨?_, h.symm⟩
  simp only [interpretedN, n0, n1, n2, n3, n4, n5, n6, n7, n8, n9, decide_false, Bool.or_self]

theorem nStep_none {a : NAcc} {c : Chunk} (h : nStep a c = .ok none) : c.ty = FEND := by
  apply Classical.byContradiction
  intro hne
  have key : ∀ {α} {x : Outcome α} {f : α → NAcc},
      ¬ ((do let v ← x; Outcome.ok (some (f v))) = (Outcome.ok none : Outcome (Option NAcc))) := by
    intro α x f hh
    obtain ⟨v, _, hh⟩ := Outcome.bind_eq_ok hh
    simp at hh
  unfold nStep at h
  rw [if_neg hne] at h
  by_cases n1 : c.ty = FHED
  · rw [if_pos n1] at h; exact key h
  rw [if_neg n1] at h
  by_cases n2 : c.ty = PHSF
  · rw [if_pos n2] at h
    by_cases hv : validUtf8 c.data = true
    · rw [if_pos hv] at h; simp at h
    · rw [if_neg hv] at h; simp at h
  rw [if_neg n2] at h
  by_cases n3 : c.ty = FDAT
  · rw [if_pos n3] at h; simp at h
  rw [if_neg n3] at h
  by_cases n4 : c.ty = fSIZ
  · rw [if_pos n4] at h; simp at h
  rw [if_neg n4] at h
  by_cases n5 : c.ty = cTIM
  · rw [if_pos n5] at h; exact key h
  rw [if_neg n5] at h
  by_cases n6 : c.ty = mTIM
  · rw [if_pos n6] at h; exact key h
  rw [if_neg n6] at h
  by_cases n7 : c.ty = aTIM
  · rw [if_pos n7] at h; exact key h
  rw [if_neg n7] at h
  by_cases n8 : c.ty = fPRM
  · rw [if_pos n8] at h; exact key h
  rw [if_neg n8] at h
  by_cases n9 : c.ty = xATR
  · rw [if_pos n9] at h; exact key h
  rw [if_neg n9] at h
  simp at h

/-- Invariant of the parser loop. -/
structure NAcc.WF (a : NAcc) : Prop where
  info : ∀ h, a.info = some h → validKind h.kind = true ∧ validCompression h.compression = true ∧
    validEncryption h.encryption = true ∧ validCipherMode h.cipherMode = true ∧
    validUtf8 h.name = true ∧ sanitize h.name = h.name
  phsf : ∀ p, a.phsf = some p → validUtf8 p = true
  extra : ∀ c ∈ a.extra, interpretedN c.ty = false
  size : ∀ n, a.size = some n → n < 2 ^ 128
  ctime : ∀ n, a.ctime = some n → n < 2 ^ 64
  mtime : ∀ n, a.mtime = some n → n < 2 ^ 64
  atime : ∀ n, a.atime = some n → n < 2 ^ 64
  perm : ∀ p, a.perm = some p → p.WF
  xattrs : ∀ x ∈ a.xattrs, x.WF

theorem NAcc.WF_init : NAcc.WF {} := by
  constructor <;> simp

theorem interpretedN_of_eq {t : ChunkType}
    (h : t = FHED ∨ t = PHSF ∨ t = FDAT ∨ t = fSIZ ∨ t = cTIM ∨ t = mTIM ∨ t = aTIM ∨ t = fPRM ∨ t = xATR) :
    interpretedN t = true := by
  rcases h with h | h | h | h | h | h | h | h | h <;> subst h <;> decide

theorem nStep_WF {a a' : NAcc} {c : Chunk} (h : nStep a c = .ok (some a')) (hw : a.WF) : a'.WF := by
  obtain ⟨w1, w2, w3, w4, w5, w6, w7, w8, w9⟩ := hw
  rcases (nStep_some h).2 with ⟨_, hd, hdec, rfl⟩ | ⟨_, hv, rfl⟩ | ⟨_, rfl⟩ | ⟨_, rfl⟩ | ⟨_, t, hdec, rfl⟩ |
    ⟨_, t, hdec, rfl⟩ | ⟨_, t, hdec, rfl⟩ | ⟨_, p, hdec, rfl⟩ | ⟨_, x, hdec, rfl⟩ | ⟨hi, rfl⟩
  · refine ⟨?_, w2, w3, w4, w5, w6, w7, w8, w9⟩
    intro h' hh
    cases hh
    obtain ⟨g1, g2, g3, g4⟩ := decFHED_WF hdec
    obtain ⟨hn, hu⟩ := decFHED_name _ _ hdec
    refine ⟨g1, g2, g3, g4, ?_, ?_⟩
    · rw [hn]; exact validUtf8_sanitize _ hu
    · rw [hn]; exact sanitize_idem _
  · refine ⟨w1, ?_, w3, w4, w5, w6, w7, w8, w9⟩
    intro p hp; cases hp; exact hv
  · exact ⟨w1, w2, w3, w4, w5, w6, w7, w8, w9⟩
  · refine ⟨w1, w2, w3, ?_, w5, w6, w7, w8, w9⟩
    intro n hn; cases hn; exact decFSIZ_lt _
  · refine ⟨w1, w2, w3, w4, ?_, w6, w7, w8, w9⟩
    intro n hn; cases hn; exact decTime_lt hdec
  · refine ⟨w1, w2, w3, w4, w5, ?_, w7, w8, w9⟩
    intro n hn; cases hn; exact decTime_lt hdec
  · refine ⟨w1, w2, w3, w4, w5, w6, ?_, w8, w9⟩
    intro n hn; cases hn; exact decTime_lt hdec
  · refine ⟨w1, w2, w3, w4, w5, w6, w7, ?_, w9⟩
    intro n hn; cases hn; exact decFPRM_WF hdec
  · refine ⟨w1, w2, w3, w4, w5, w6, w7, w8, ?_⟩
    intro y hy
    rcases List.mem_cons.mp hy with rfl | hy
    · exact decXATR_WF hdec
    · exact w9 y hy
  · refine ⟨w1, w2, ?_, w4, w5, w6, w7, w8, w9⟩
    intro y hy
    rcases List.mem_cons.mp hy with rfl | hy
    · exact hi
    · exact w3 y hy

/-- `extra` grows by `c` exactly when `c` is not interpreted. -/
theorem nStep_extra {a a' : NAcc} {c : Chunk} (h : nStep a c = .ok (some a')) :
    a'.extra = if interpretedN c.ty = false then c :: a.extra else a.extra := by
  rcases (nStep_some h).2 with ⟨ht, hd, hdec, rfl⟩ | ⟨ht, hv, rfl⟩ | ⟨ht, rfl⟩ | ⟨ht, rfl⟩ | ⟨ht, t, hdec, rfl⟩ |
    ⟨ht, t, hdec, rfl⟩ | ⟨ht, t, hdec, rfl⟩ | ⟨ht, p, hdec, rfl⟩ | ⟨ht, x, hdec, rfl⟩ | ⟨hi, rfl⟩
  all_goals first
    | (rw [if_pos hi]; done)
    | (have hi : interpretedN c.ty = true := interpretedN_of_eq (by simp [ht])
       rw [hi]; rfl)

theorem nLoop_cons_some {a a' : NAcc} {c : Chunk} (cs : List Chunk) (h : nStep a c = .ok (some a')) :
    nLoop a (c :: cs) = nLoop a' cs := by
  simp only [nLoop, h]

theorem nLoop_cons_none {a : NAcc} {c : Chunk} (cs : List Chunk) (h : nStep a c = .ok none) :
    nLoop a (c :: cs) = .ok a := by
  simp only [nLoop, h]

/-- Inversion of one loop iteration. -/
theorem nLoop_cons_ok {a b : NAcc} {c : Chunk} {cs : List Chunk} (h : nLoop a (c :: cs) = .ok b) :
    (nStep a c = .ok none ∧ b = a) ∨ ∃ a', nStep a c = .ok (some a') ∧ nLoop a' cs = .ok b := by
  cases hs : nStep a c with
  | error e => simp [nLoop, hs] at h
  | panic s => simp [nLoop, hs] at h
  | ok o =>
    cases o with
    | none => rw [nLoop_cons_none cs hs] at h; left; exact ⟨rfl, by cases h; rfl⟩
    | some a' => rw [nLoop_cons_some cs hs] at h; right; exact ⟨a', rfl, h⟩

theorem nLoop_WF {cs : List Chunk} {a b : NAcc} (h : nLoop a cs = .ok b) (hw : a.WF) : b.WF := by
  induction cs generalizing a with
  | nil => simp only [nLoop, Outcome.ok.injEq] at h; subst h; exact hw
  | cons c cs ih =>
    rcases nLoop_cons_ok h with ⟨_, rfl⟩ | ⟨a', hs, hl⟩
    · exact hw
    · exact ih hl (nStep_WF hs hw)

theorem nLoop_extra {cs : List Chunk} {a b : NAcc} (h : nLoop a cs = .ok b) :
    b.extra.reverse = a.extra.reverse ++
      (cs.takeWhile (fun c => c.ty ≠ ChunkType.FEND)).filter (fun c => interpretedN c.ty = false) := by
  induction cs generalizing a with
  | nil => simp only [nLoop, Outcome.ok.injEq] at h; subst h; simp
  | cons c cs ih =>
    rcases nLoop_cons_ok h with ⟨hs, rfl⟩ | ⟨a', hs, hl⟩
    · have := nStep_none hs
      simp [this]
    · have hne := (nStep_some hs).1
      rw [ih hl, nStep_extra hs, List.takeWhile_cons]
      simp only [hne, ne_eq, not_false_eq_true, decide_true, ite_true, List.filter_cons]
      by_cases hi : interpretedN c.ty = false
      · simp [hi]
      · simp [hi]

/-- Inversion of `parseN`. -/
theorem parseN_ok {raw : List Chunk} {e : NormalEntry} (h : parseN raw = .ok e) :
    ∃ a hd, nLoop {} raw = .ok a ∧ a.info = some hd ∧ hd.major = 0 ∧ hd.minor = 0 ∧
      e = { header := hd, phsf := a.phsf, extra := a.extra.reverse, data := a.data.reverse,
            md := { rawSize := a.size, created := a.ctime, modified := a.mtime,
                    accessed := a.atime, permission := a.perm },
            xattrs := a.xattrs.reverse } := by
  have hgo : parseN.go raw = .ok e := by
    unfold parseN at h
    cases hh : raw.head? with
    | none => rw [hh] at h; exact h
    | some c0 =>
      rw [hh] at h
      simp only at h
      by_cases hc : c0.ty ≠ ChunkType.FHED
      · rw [if_pos hc] at h; simp at h
      · rw [if_neg hc] at h; exact h
  unfold parseN.go at hgo
  cases hl : nLoop {} raw with
  | error e => rw [hl] at hgo; simp at hgo
  | panic s => rw [hl] at hgo; simp at hgo
  | ok a =>
    rw [hl] at hgo
    simp only at hgo
    cases hi : a.info with
    | none => rw [hi] at hgo; simp at hgo
    | some hd =>
      rw [hi] at hgo
      simp only at hgo
      by_cases hv : hd.major ≠ 0 ∨ hd.minor ≠ 0
      · rw [if_pos hv] at hgo; simp at hgo
      · rw [if_neg hv] at hgo
        simp only [Outcome.ok.injEq] at hgo
        refine ⟨a, hd, rfl, hi, ?_, ?_, hgo.symm⟩
        · false_or_by_contra; rename_i hx; exact hv (Or.inl hx)
        · false_or_by_contra; rename_i hx; exact hv (Or.inr hx)

/-- Whatever chunk list the parser accepts (foreign layouts: chunks in any order, repeated
    singletons, unknown ancillary/private chunks, several data chunks), the parsed entry is
    well-formed … -/
theorem parseN_WF (raw : List Chunk) (e : NormalEntry) (h : parseN raw = .ok e) : e.WF := by
  obtain ⟨a, hd, hl, hi, hmaj, hmin, rfl⟩ := parseN_ok h
  obtain ⟨w1, w2, w3, w4, w5, w6, w7, w8, w9⟩ := nLoop_WF hl NAcc.WF_init
  obtain ⟨g1, g2, g3, g4, g5, g6⟩ := w1 hd hi
  refine ⟨hmaj, hmin, g1, g2, g3, g4, g5, g6, ?_, w2, w4, w5, w6, w7, w8, ?_⟩
  · intro c hc; exact w3 c (List.mem_reverse.mp hc)
  · intro x hx; exact w9 x (List.mem_reverse.mp hx)

/-- … and its unknown chunks are exactly the uninterpreted chunks before the end marker, in order. -/
theorem parseN_keeps_unknown (raw : List Chunk) (e : NormalEntry) (h : parseN raw = .ok e) :
    e.extra = (raw.takeWhile (fun c => c.ty ≠ ChunkType.FEND)).filter (fun c => interpretedN c.ty = false) := by
  obtain ⟨a, hd, hl, hi, hmaj, hmin, rfl⟩ := parseN_ok h
  have := nLoop_extra hl
  simpa using this

-- ---------------------------------------------------------------- parse ∘ serialise

/-- A run of loop iterations none of which fails or breaks. -/
inductive NRun : NAcc → List Chunk → NAcc → Prop
  | nil (a : NAcc) : NRun a [] a
  | cons {a a' a'' : NAcc} {c : Chunk} {cs : List Chunk} :
      nStep a c = .ok (some a') → NRun a' cs a'' → NRun a (c :: cs) a''

theorem NRun.single {a a' : NAcc} {c : Chunk} (h : nStep a c = .ok (some a')) : NRun a [c] a' :=
  .cons h (.nil a')

theorem NRun.append {a a' a'' : NAcc} {xs ys : List Chunk} (r1 : NRun a xs a') (r2 : NRun a' ys a'') :
    NRun a (xs ++ ys) a'' := by
  induction r1 with
  | nil a => exact r2
  | cons h _ ih => exact .cons h (ih r2)

/-- `nLoop` over a prefix that neither fails nor breaks continues with the rest. -/
theorem nLoop_append {a a' : NAcc} {xs : List Chunk} (r : NRun a xs a') (ys : List Chunk) :
    nLoop a (xs ++ ys) = nLoop a' ys := by
  induction r with
  | nil a => rfl
  | cons h _ ih => rw [List.cons_append, nLoop_cons_some _ h, ih]

theorem nStep_FHED (a : NAcc) (h : EntryHeader) (hd : decFHED (encFHED h) = .ok h) :
    nStep a ⟨FHED, encFHED h⟩ = .ok (some { a with info := some h }) := by
  unfold nStep
  dsimp only
  rw [if_neg (by decide), if_pos rfl]
  simp only [hd, Outcome.bind_ok]

theorem nStep_PHSF (a : NAcc) (d : Bytes) (hv : validUtf8 d = true) :
    nStep a ⟨PHSF, d⟩ = .ok (some { a with phsf := some d }) := by
  unfold nStep
  dsimp only
  rw [if_neg (by decide), if_neg (by decide), if_pos rfl, if_pos hv]

theorem nStep_FDAT (a : NAcc) (d : Bytes) :
    nStep a ⟨FDAT, d⟩ = .ok (some { a with data := d :: a.data }) := by
  unfold nStep
  dsimp only
  rw [if_neg (by decide), if_neg (by decide), if_neg (by decide), if_pos rfl]

theorem nStep_fSIZ (a : NAcc) (d : Bytes) :
    nStep a ⟨fSIZ, d⟩ = .ok (some { a with size := some (decFSIZ d) }) := by
  unfold nStep
  dsimp only
  rw [if_neg (by decide), if_neg (by decide), if_neg (by decide), if_neg (by decide), if_pos rfl]

theorem nStep_cTIM (a : NAcc) (d : Bytes) (t : Nat) (hd : decTime d = .ok t) :
    nStep a ⟨cTIM, d⟩ = .ok (some { a with ctime := some t }) := by
  unfold nStep
  dsimp only
  rw [if_neg (by decide), if_neg (by decide), if_neg (by decide), if_neg (by decide),
    if_neg (by decide), if_pos rfl]
  simp only [hd, Outcome.bind_ok]

theorem nStep_mTIM (a : NAcc) (d : Bytes) (t : Nat) (hd : decTime d = .ok t) :
    nStep a ⟨mTIM, d⟩ = .ok (some { a with mtime := some t }) := by
  unfold nStep
  dsimp only
  rw [if_neg (by decide), if_neg (by decide), if_neg (by decide), if_neg (by decide),
    if_neg (by decide), if_neg (by decide), if_pos rfl]
  simp only [hd, Outcome.bind_ok]

theorem nStep_aTIM (a : NAcc) (d : Bytes) (t : Nat) (hd : decTime d = .ok t) :
    nStep a ⟨aTIM, d⟩ = .ok (some { a with atime := some t }) := by
  unfold nStep
  dsimp only
  rw [if_neg (by decide), if_neg (by decide), if_neg (by decide), if_neg (by decide),
    if_neg (by decide), if_neg (by decide), if_neg (by decide), if_pos rfl]
  simp only [hd, Outcome.bind_ok]

theorem nStep_fPRM (a : NAcc) (d : Bytes) (p : Permission) (hd : decFPRM d = .ok p) :
    nStep a ⟨fPRM, d⟩ = .ok (some { a with perm := some p }) := by
  unfold nStep
  dsimp only
  rw [if_neg (by decide), if_neg (by decide), if_neg (by decide), if_neg (by decide),
    if_neg (by decide), if_neg (by decide), if_neg (by decide), if_neg (by decide), if_pos rfl]
  simp only [hd, Outcome.bind_ok]

theorem nStep_xATR (a : NAcc) (d : Bytes) (x : XAttr) (hd : decXATR d = .ok x) :
    nStep a ⟨xATR, d⟩ = .ok (some { a with xattrs := x :: a.xattrs }) := by
  unfold nStep
  dsimp only
  rw [if_neg (by decide), if_neg (by decide), if_neg (by decide), if_neg (by decide),
    if_neg (by decide), if_neg (by decide), if_neg (by decide), if_neg (by decide),
    if_neg (by decide), if_pos rfl]
  simp only [hd, Outcome.bind_ok]

theorem nStep_FEND (a : NAcc) (d : Bytes) : nStep a ⟨FEND, d⟩ = .ok none := by
  unfold nStep
  dsimp only
  rw [if_pos rfl]

theorem nStep_unknown (a : NAcc) (c : Chunk) (h : interpretedN c.ty = false) :
    nStep a c = .ok (some { a with extra := c :: a.extra }) := by
  simp only [interpretedN, Bool.or_eq_false_iff, decide_eq_false_iff_not] at h
  obtain ⟨⟨⟨⟨⟨⟨⟨⟨⟨n0, n1⟩, n2⟩, n3⟩, n4⟩, n5⟩, n6⟩, n7⟩, n8⟩, n9⟩ := h
  unfold nStep
  rw [if_neg n0, if_neg n1, if_neg n2, if_neg n3, if_neg n4, if_neg n5, if_neg n6, if_neg n7,
    if_neg n8, if_neg n9]

theorem NRun_extras (a : NAcc) (xs : List Chunk) (h : ∀ c ∈ xs, interpretedN c.ty = false) :
    NRun a xs { a with extra := xs.reverse ++ a.extra } := by
  induction xs generalizing a with
  | nil => exact .nil a
  | cons c cs ih =>
    refine .cons (nStep_unknown a c (h c (by simp))) ?_
    have := ih { a with extra := c :: a.extra } (fun x hx => h x (by simp [hx]))
    simpa using this

theorem NRun_fdat (a : NAcc) (ds : List Bytes) :
    NRun a (ds.map fun u => ⟨FDAT, u⟩) { a with data := ds.reverse ++ a.data } := by
  induction ds generalizing a with
  | nil => exact .nil a
  | cons d ds ih =>
    refine .cons (nStep_FDAT a d) ?_
    have := ih { a with data := d :: a.data }
    simpa using this

theorem NRun_xattrs (a : NAcc) (xs : List XAttr) (h : ∀ x ∈ xs, x.WF) :
    NRun a (xs.map fun x => ⟨xATR, encXATR x⟩) { a with xattrs := xs.reverse ++ a.xattrs } := by
  induction xs generalizing a with
  | nil => exact .nil a
  | cons x xs ih =>
    obtain ⟨h1, h2, h3⟩ := h x (by simp)
    refine .cons (nStep_xATR a _ x (decXATR_encXATR x h1 h2 h3)) ?_
    have := ih { a with xattrs := x :: a.xattrs } (fun y hy => h y (by simp [hy]))
    simpa using this

theorem NRun_fSIZ (a : NAcc) (o : Option Nat) (h : ∀ n, o = some n → n < 2 ^ 128) :
    NRun a (optChunk fSIZ (o.map encFSIZ)) { a with size := o.or a.size } := by
  cases o with
  | none => exact .nil a
  | some n =>
    have := nStep_fSIZ a (encFSIZ n)
    rw [decFSIZ_encFSIZ n (h n rfl)] at this
    exact .single this

theorem NRun_PHSF (a : NAcc) (o : Option Bytes) (h : ∀ p, o = some p → validUtf8 p = true) :
    NRun a (optChunk PHSF o) { a with phsf := o.or a.phsf } := by
  cases o with
  | none => exact .nil a
  | some p => exact .single (nStep_PHSF a p (h p rfl))

theorem NRun_cTIM (a : NAcc) (o : Option Nat) (h : ∀ n, o = some n → n < 2 ^ 64) :
    NRun a (optChunk cTIM (o.map encTime)) { a with ctime := o.or a.ctime } := by
  cases o with
  | none => exact .nil a
  | some n => exact .single (nStep_cTIM a _ n (decTime_encTime n (h n rfl)))

theorem NRun_mTIM (a : NAcc) (o : Option Nat) (h : ∀ n, o = some n → n < 2 ^ 64) :
    NRun a (optChunk mTIM (o.map encTime)) { a with mtime := o.or a.mtime } := by
  cases o with
  | none => exact .nil a
  | some n => exact .single (nStep_mTIM a _ n (decTime_encTime n (h n rfl)))

theorem NRun_aTIM (a : NAcc) (o : Option Nat) (h : ∀ n, o = some n → n < 2 ^ 64) :
    NRun a (optChunk aTIM (o.map encTime)) { a with atime := o.or a.atime } := by
  cases o with
  | none => exact .nil a
  | some n => exact .single (nStep_aTIM a _ n (decTime_encTime n (h n rfl)))

theorem NRun_fPRM (a : NAcc) (o : Option Permission) (h : ∀ p, o = some p → p.WF) :
    NRun a (optChunk fPRM (o.map encFPRM)) { a with perm := o.or a.perm } := by
  cases o with
  | none => exact .nil a
  | some p =>
    obtain ⟨h1, h2, h3, h4, h5, h6, h7⟩ := h p rfl
    exact .single (nStep_fPRM a _ p (decFPRM_encFPRM p h4 h5 h1 h2 h3 h6 h7))

theorem flatMap_map_fdat (ds : List Bytes) :
    (ds.flatMap fun d => (rustChunks maxChunkData d).map fun u => (⟨FDAT, u⟩ : Chunk))
      = (ds.flatMap (rustChunks maxChunkData)).map fun u => ⟨FDAT, u⟩ := by
  induction ds with
  | nil => rfl
  | cons d ds ih => simp only [List.flatMap_cons, List.map_append, ih]


/-- Decoding the canonical serialisation of a well-formed entry gives the entry back (data
    slices re-cut at u32::MAX, which is the identity unless a slice is empty or ≥ 4 GiB). -/
theorem parseN_serN (e : NormalEntry) (h : e.WF) : parseN (serN e) = .ok e.recut := by
  obtain ⟨hmaj, hmin, hk, hc, he, hm, hu, hs, hex, hph, hsz, hct, hmt, hat, hpm, hxa⟩ := h
  have hdec : decFHED (encFHED e.header) = .ok e.header :=
    decFHED_encFHED e.header (by rw [hmaj]; decide) (by rw [hmin]; decide) hk hc he hm hu hs
  have r1 := NRun.single (nStep_FHED {} e.header hdec)
  have r2 := r1.append (NRun_extras _ e.extra hex)
  dsimp only at r2
  have r3 := r2.append (NRun_fSIZ _ e.md.rawSize hsz)
  dsimp only at r3
  have r4 := r3.append (NRun_PHSF _ e.phsf hph)
  dsimp only at r4
  have r5 := r4.append (NRun_fdat _ (e.data.flatMap (rustChunks maxChunkData)))
  dsimp only at r5
  have r6 := r5.append (NRun_cTIM _ e.md.created hct)
  dsimp only at r6
  have r7 := r6.append (NRun_mTIM _ e.md.modified hmt)
  dsimp only at r7
  have r8 := r7.append (NRun_aTIM _ e.md.accessed hat)
  dsimp only at r8
  have r9 := r8.append (NRun_fPRM _ e.md.permission hpm)
  dsimp only at r9
  have r10 := r9.append (NRun_xattrs _ e.xattrs hxa)
  dsimp only at r10
  have hl := nLoop_append r10 [⟨FEND, []⟩]
  rw [nLoop_cons_none _ (nStep_FEND _ _), ← flatMap_map_fdat] at hl
  have hser : nLoop {} (serN e) = _ := hl
  have hhead : (serN e).head? = some ⟨FHED, encFHED e.header⟩ := rfl
  unfold parseN
  rw [hhead]
  simp only [ne_eq, not_true_eq_false, ite_false]
  unfold parseN.go
  rw [hser]
  simp only [hmaj, hmin, ne_eq, not_true_eq_false, or_self, ite_false, Option.or_none,
    List.append_nil, List.reverse_reverse, NormalEntry.recut]
theorem maxChunkData_pos : 0 < maxChunkData := by decide

/-- re-cutting an already cut list of slices changes nothing -/
theorem flatMap_rustChunks_pieces (ps : List Bytes) (h : ∀ p ∈ ps, p ≠ [] ∧ p.length ≤ maxChunkData) :
    ps.flatMap (rustChunks maxChunkData) = ps := by
  induction ps with
  | nil => rfl
  | cons p ps ih =>
    obtain ⟨hne, hle⟩ := h p (by simp)
    rw [List.flatMap_cons, rustChunks_small _ p hle hne, ih (fun q hq => h q (by simp [hq]))]
    rfl

theorem flatMap_rustChunks_idem (ds : List Bytes) :
    (ds.flatMap (rustChunks maxChunkData)).flatMap (rustChunks maxChunkData)
      = ds.flatMap (rustChunks maxChunkData) := by
  apply flatMap_rustChunks_pieces
  intro p hp
  obtain ⟨d, _, hd⟩ := List.mem_flatMap.mp hp
  exact rustChunks_pieces _ maxChunkData_pos d p hd

/-- The serialisation is byte-stable: re-cutting does not change what is written. -/
theorem serN_recut (e : NormalEntry) : serN e.recut = serN e := by
  unfold serN NormalEntry.recut
  dsimp only
  rw [flatMap_map_fdat, flatMap_map_fdat, flatMap_rustChunks_idem]

theorem flatten_flatMap_rustChunks (ds : List Bytes) :
    (ds.flatMap (rustChunks maxChunkData)).flatten = ds.flatten := by
  induction ds with
  | nil => rfl
  | cons d ds ih =>
    rw [List.flatMap_cons, List.flatten_append, ih, rustChunks_flatten _ maxChunkData_pos,
      List.flatten_cons]

/-- Meaning is preserved: header, key-derivation string, metadata, xattrs, extra chunks (in
    order) are unchanged and the concatenated data stream is the same. -/
theorem recut_meaning (e : NormalEntry) :
    e.recut.header = e.header ∧ e.recut.phsf = e.phsf ∧ e.recut.extra = e.extra ∧ e.recut.md = e.md ∧
    e.recut.xattrs = e.xattrs ∧ e.recut.data.flatten = e.data.flatten :=
  ⟨rfl, rfl, rfl, rfl, rfl, flatten_flatMap_rustChunks e.data⟩

/-- **Read-modify-write is stable from the second pass on**: for any accepted chunk list,
    decode → write → decode → write produces the same chunks as decode → write. -/
theorem normal_reser_stable (raw : List Chunk) (e : NormalEntry) (h : parseN raw = .ok e) :
    ∃ e', parseN (serN e) = .ok e' ∧ serN e' = serN e :=
  ⟨e.recut, parseN_serN e (parseN_WF raw e h), serN_recut e⟩

-- ---------------------------------------------------------------- SolidEntry

def SolidEntry.WF (s : SolidEntry) : Prop :=
  s.header.major < 256 ∧ s.header.minor < 256 ∧ validCompression s.header.compression = true ∧
  validEncryption s.header.encryption = true ∧ validCipherMode s.header.cipherMode = true ∧
  (∀ c ∈ s.extra, c.ty ≠ ChunkType.SEND ∧ c.ty ≠ ChunkType.SHED ∧ c.ty ≠ ChunkType.SDAT ∧ c.ty ≠ ChunkType.PHSF) ∧
  (∀ p, s.phsf = some p → validUtf8 p = true)

/-- What one successful, non-terminating iteration of the solid parser loop does. -/
theorem sStep_some {a a' : SAcc} {c : Chunk} (h : sStep a c = .ok (some a')) :
    (c.ty = SHED ∧ ∃ hd, decSHED c.data = .ok hd ∧ a' = { a with info := some hd }) ∨
    (c.ty = SDAT ∧ a' = { a with data := c.data :: a.data }) ∨
    (c.ty = PHSF ∧ validUtf8 c.data = true ∧ a' = { a with phsf := some c.data }) ∨
    ((c.ty ≠ SEND ∧ c.ty ≠ SHED ∧ c.ty ≠ SDAT ∧ c.ty ≠ PHSF) ∧ a' = { a with extra := c :: a.extra }) := by
  unfold sStep at h
  by_cases n0 : c.ty = SEND
  · rw [if_pos n0] at h; simp at h
  rw [if_neg n0] at h
  by_cases n1 : c.ty = SHED
  · rw [if_pos n1] at h
    obtain ⟨v, hv, h⟩ := Outcome.bind_eq_ok h
    simp only [Outcome.ok.injEq, Option.some.injEq] at h
    exact Or.inl ⟨n1, v, hv, h.symm⟩
  rw [if_neg n1] at h
  refine Or.inr ?_
  by_cases n2 : c.ty = SDAT
  · rw [if_pos n2] at h
    simp only [Outcome.ok.injEq, Option.some.injEq] at h
    exact Or.inl ⟨n2, h.symm⟩
  rw [if_neg n2] at h
  refine Or.inr ?_
  by_cases n3 : c.ty = PHSF
  · rw [if_pos n3] at h
    by_cases hv : validUtf8 c.data = true
    · rw [if_pos hv] at h
      simp only [Outcome.ok.injEq, Option.some.injEq] at h
      exact Or.inl ⟨n3, hv, h.symm⟩
    · rw [if_neg hv] at h; simp at h
  rw [if_neg n3] at h
  refine Or.inr ?_
  simp only [Outcome.ok.injEq, Option.some.injEq] at h
  exact ⟨⟨n0, n1, n2, n3⟩, h.symm⟩

/-- Invariant of the solid parser loop. -/
structure SAcc.WF (a : SAcc) : Prop where
  info : ∀ h, a.info = some h → h.major < 256 ∧ h.minor < 256 ∧ validCompression h.compression = true ∧
    validEncryption h.encryption = true ∧ validCipherMode h.cipherMode = true
  phsf : ∀ p, a.phsf = some p → validUtf8 p = true
  extra : ∀ c ∈ a.extra, c.ty ≠ SEND ∧ c.ty ≠ SHED ∧ c.ty ≠ SDAT ∧ c.ty ≠ PHSF

theorem SAcc.WF_init : SAcc.WF {} := by
  constructor <;> simp

theorem sStep_WF {a a' : SAcc} {c : Chunk} (h : sStep a c = .ok (some a')) (hw : a.WF) : a'.WF := by
  obtain ⟨w1, w2, w3⟩ := hw
  rcases sStep_some h with ⟨_, hd, hdec, rfl⟩ | ⟨_, rfl⟩ | ⟨_, hv, rfl⟩ | ⟨hi, rfl⟩
  · refine ⟨?_, w2, w3⟩
    intro h' hh; cases hh; exact decSHED_WF hdec
  · exact ⟨w1, w2, w3⟩
  · refine ⟨w1, ?_, w3⟩
    intro p hp; cases hp; exact hv
  · refine ⟨w1, w2, ?_⟩
    intro y hy
    rcases List.mem_cons.mp hy with rfl | hy
    · exact hi
    · exact w3 y hy

theorem sLoop_cons_some {a a' : SAcc} {c : Chunk} (cs : List Chunk) (h : sStep a c = .ok (some a')) :
    sLoop a (c :: cs) = sLoop a' cs := by
  simp only [sLoop, h]

theorem sLoop_cons_none {a : SAcc} {c : Chunk} (cs : List Chunk) (h : sStep a c = .ok none) :
    sLoop a (c :: cs) = .ok a := by
  simp only [sLoop, h]

theorem sLoop_cons_ok {a b : SAcc} {c : Chunk} {cs : List Chunk} (h : sLoop a (c :: cs) = .ok b) :
    (sStep a c = .ok none ∧ b = a) ∨ ∃ a', sStep a c = .ok (some a') ∧ sLoop a' cs = .ok b := by
  cases hs : sStep a c with
  | error e => simp [sLoop, hs] at h
  | panic s => simp [sLoop, hs] at h
  | ok o =>
    cases o with
    | none => rw [sLoop_cons_none cs hs] at h; left; exact ⟨rfl, by cases h; rfl⟩
    | some a' => rw [sLoop_cons_some cs hs] at h; right; exact ⟨a', rfl, h⟩

theorem sLoop_WF {cs : List Chunk} {a b : SAcc} (h : sLoop a cs = .ok b) (hw : a.WF) : b.WF := by
  induction cs generalizing a with
  | nil => simp only [sLoop, Outcome.ok.injEq] at h; subst h; exact hw
  | cons c cs ih =>
    rcases sLoop_cons_ok h with ⟨_, rfl⟩ | ⟨a', hs, hl⟩
    · exact hw
    · exact ih hl (sStep_WF hs hw)

/-- Inversion of `parseS`. -/
theorem parseS_ok {raw : List Chunk} {s : SolidEntry} (h : parseS raw = .ok s) :
    ∃ a hd, sLoop {} raw = .ok a ∧ a.info = some hd ∧
      s = { header := hd, phsf := a.phsf, data := a.data.reverse, extra := a.extra.reverse } := by
  have hgo : parseS.go raw = .ok s := by
    unfold parseS at h
    cases hh : raw.head? with
    | none => rw [hh] at h; exact h
    | some c0 =>
      rw [hh] at h
      simp only at h
      by_cases hc : c0.ty ≠ ChunkType.SHED
      · rw [if_pos hc] at h; simp at h
      · rw [if_neg hc] at h; exact h
  unfold parseS.go at hgo
  cases hl : sLoop {} raw with
  | error e => rw [hl] at hgo; simp at hgo
  | panic s => rw [hl] at hgo; simp at hgo
  | ok a =>
    rw [hl] at hgo
    simp only at hgo
    cases hi : a.info with
    | none => rw [hi] at hgo; simp at hgo
    | some hd =>
      rw [hi] at hgo
      simp only [Outcome.ok.injEq] at hgo
      exact ⟨a, hd, rfl, hi, hgo.symm⟩

/-- Whatever chunk list the solid parser accepts, the parsed block is well-formed. -/
theorem parseS_WF (raw : List Chunk) (s : SolidEntry) (h : parseS raw = .ok s) : s.WF := by
  obtain ⟨a, hd, hl, hi, rfl⟩ := parseS_ok h
  obtain ⟨w1, w2, w3⟩ := sLoop_WF hl SAcc.WF_init
  obtain ⟨g1, g2, g3, g4, g5⟩ := w1 hd hi
  refine ⟨g1, g2, g3, g4, g5, ?_, w2⟩
  intro c hc; exact w3 c (List.mem_reverse.mp hc)

/-- A run of solid-loop iterations none of which fails or breaks. -/
inductive SRun : SAcc → List Chunk → SAcc → Prop
  | nil (a : SAcc) : SRun a [] a
  | cons {a a' a'' : SAcc} {c : Chunk} {cs : List Chunk} :
      sStep a c = .ok (some a') → SRun a' cs a'' → SRun a (c :: cs) a''

theorem SRun.single {a a' : SAcc} {c : Chunk} (h : sStep a c = .ok (some a')) : SRun a [c] a' :=
  .cons h (.nil a')

theorem SRun.append {a a' a'' : SAcc} {xs ys : List Chunk} (r1 : SRun a xs a') (r2 : SRun a' ys a'') :
    SRun a (xs ++ ys) a'' := by
  induction r1 with
  | nil a => exact r2
  | cons h _ ih => exact .cons h (ih r2)

theorem sLoop_append {a a' : SAcc} {xs : List Chunk} (r : SRun a xs a') (ys : List Chunk) :
    sLoop a (xs ++ ys) = sLoop a' ys := by
  induction r with
  | nil a => rfl
  | cons h _ ih => rw [List.cons_append, sLoop_cons_some _ h, ih]

theorem sStep_SHED (a : SAcc) (h : SolidHeader) (hd : decSHED (encSHED h) = .ok h) :
    sStep a ⟨SHED, encSHED h⟩ = .ok (some { a with info := some h }) := by
  unfold sStep
  dsimp only
  rw [if_neg (by decide), if_pos rfl]
  simp only [hd, Outcome.bind_ok]

theorem sStep_SDAT (a : SAcc) (d : Bytes) :
    sStep a ⟨SDAT, d⟩ = .ok (some { a with data := d :: a.data }) := by
  unfold sStep
  dsimp only
  rw [if_neg (by decide), if_neg (by decide), if_pos rfl]

theorem sStep_PHSF (a : SAcc) (d : Bytes) (hv : validUtf8 d = true) :
    sStep a ⟨PHSF, d⟩ = .ok (some { a with phsf := some d }) := by
  unfold sStep
  dsimp only
  rw [if_neg (by decide), if_neg (by decide), if_neg (by decide), if_pos rfl, if_pos hv]

theorem sStep_SEND (a : SAcc) (d : Bytes) : sStep a ⟨SEND, d⟩ = .ok none := by
  unfold sStep
  rw [if_pos rfl]

theorem sStep_unknown (a : SAcc) (c : Chunk)
    (h : c.ty ≠ SEND ∧ c.ty ≠ SHED ∧ c.ty ≠ SDAT ∧ c.ty ≠ PHSF) :
    sStep a c = .ok (some { a with extra := c :: a.extra }) := by
  unfold sStep
  rw [if_neg h.1, if_neg h.2.1, if_neg h.2.2.1, if_neg h.2.2.2]

theorem SRun_extras (a : SAcc) (xs : List Chunk)
    (h : ∀ c ∈ xs, c.ty ≠ SEND ∧ c.ty ≠ SHED ∧ c.ty ≠ SDAT ∧ c.ty ≠ PHSF) :
    SRun a xs { a with extra := xs.reverse ++ a.extra } := by
  induction xs generalizing a with
  | nil => exact .nil a
  | cons c cs ih =>
    refine .cons (sStep_unknown a c (h c (by simp))) ?_
    have := ih { a with extra := c :: a.extra } (fun x hx => h x (by simp [hx]))
    simpa using this

theorem SRun_sdat (a : SAcc) (ds : List Bytes) :
    SRun a (ds.map fun d => ⟨SDAT, d⟩) { a with data := ds.reverse ++ a.data } := by
  induction ds generalizing a with
  | nil => exact .nil a
  | cons d ds ih =>
    refine .cons (sStep_SDAT a d) ?_
    have := ih { a with data := d :: a.data }
    simpa using this

theorem SRun_PHSF (a : SAcc) (o : Option Bytes) (h : ∀ p, o = some p → validUtf8 p = true) :
    SRun a (optChunk PHSF o) { a with phsf := o.or a.phsf } := by
  cases o with
  | none => exact .nil a
  | some p => exact .single (sStep_PHSF a p (h p rfl))

/-- Solid blocks re-serialise exactly (one SDAT per stored slice, no re-cutting). -/
theorem parseS_serS (s : SolidEntry) (h : s.WF) : parseS (serS s) = .ok s := by
  obtain ⟨h1, h2, hc, he, hm, hex, hph⟩ := h
  have hdec := decSHED_encSHED s.header h1 h2 hc he hm
  have r1 := SRun.single (sStep_SHED {} s.header hdec)
  have r2 := r1.append (SRun_extras _ s.extra hex)
  dsimp only at r2
  have r3 := r2.append (SRun_PHSF _ s.phsf hph)
  dsimp only at r3
  have r4 := r3.append (SRun_sdat _ s.data)
  dsimp only at r4
  have hl := sLoop_append r4 [⟨SEND, []⟩]
  rw [sLoop_cons_none _ (sStep_SEND _ _)] at hl
  have hser : sLoop {} (serS s) = _ := hl
  have hhead : (serS s).head? = some ⟨SHED, encSHED s.header⟩ := rfl
  unfold parseS
  rw [hhead]
  simp only [ne_eq, not_true_eq_false, ite_false]
  unfold parseS.go
  rw [hser]
  simp only [Option.or_none, List.append_nil, List.reverse_reverse]

/-- Read-modify-write of a solid block is stable from the first pass on. -/
theorem solid_reser_stable (raw : List Chunk) (s : SolidEntry) (h : parseS raw = .ok s) :
    parseS (serS s) = .ok s :=
  parseS_serS s (parseS_WF raw s h)

end Pna
